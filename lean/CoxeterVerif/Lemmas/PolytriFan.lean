import CoxeterVerif.Lemmas.PolytriOriented
/-!
  C02 (deepening): when does the ear clipping succeed?

  * `fan a l`          — the fan of the polygon `a :: l` from its first vertex;
  * `FanOK`            — every fan triangle passes the model's own tests (no duplicate, ear test,
                         no later vertex in the tolerance triangle);
  * `loop_fan`, `triangulate_fan` — then the model returns exactly the fan (`n − 2` triangles);
  * `fanOK_of_margin`  — geometry: a planar polygon in which every triangle `(a, p_j, p_k)`, `j < k`,
                         is counter-clockwise with more than `1e-6` of the polygon's area satisfies
                         `FanOK` (in particular every strictly convex polygon with that margin).
-/
open Scalar
set_option maxRecDepth 4000
noncomputable section

namespace Polytri

/-- fan triangulation of `a :: l` from `a` -/
def fan (a : V3 ℝ) : List (V3 ℝ) → List (Tri ℝ)
  | b :: c :: r => ⟨a, b, c⟩ :: fan a (c :: r)
  | _ => []

/-- every fan triangle passes the tests of the loop at position `i = 0` -/
def FanOK (N a : V3 ℝ) : List (V3 ℝ) → Prop
  | b :: c :: r =>
      veq a b = false ∧ veq b c = false ∧ EarTest N ⟨a, b, c⟩ ∧ anyPointInTriangle a b c r = false ∧
        FanOK N a (c :: r)
  | _ => True

theorem fan_length (a : V3 ℝ) : ∀ l : List (V3 ℝ), (fan a l).length = l.length - 1
  | [] => rfl
  | [_] => rfl
  | b :: c :: r => by
    have := fan_length a (c :: r)
    simp only [fan, List.length_cons] at this ⊢
    omega

theorem erase_one (a b c : V3 ℝ) (r : List (V3 ℝ)) :
    (List.toArray (a :: b :: c :: r)).eraseIdxIfInBounds
        ((0 + 1) % (List.toArray (a :: b :: c :: r)).size) = List.toArray (a :: c :: r) := by
  apply Array.toList_inj.mp
  rw [Array.toList_eraseIdxIfInBounds]
  have : (0 + 1) % (List.toArray (a :: b :: c :: r)).size = 1 := by
    simp only [List.size_toArray, List.length_cons]
    exact Nat.mod_eq_of_lt (by omega)
  rw [this]
  simp

theorem getLoop_front (a b c : V3 ℝ) (r : List (V3 ℝ)) :
    getLoop (List.toArray (a :: b :: c :: r)) 0 = a ∧
    getLoop (List.toArray (a :: b :: c :: r)) (0 + 1) = b ∧
    getLoop (List.toArray (a :: b :: c :: r)) (0 + 2) = c := by
  have h1 : 1 % (r.length + 1 + 1 + 1) = 1 := Nat.mod_eq_of_lt (by omega)
  have h2 : 2 % (r.length + 1 + 1 + 1) = 2 := Nat.mod_eq_of_lt (by omega)
  refine ⟨?_, ?_, ?_⟩ <;> simp [getLoop, h1, h2]

theorem others_front (a b c : V3 ℝ) (r : List (V3 ℝ)) :
    others (List.toArray (a :: b :: c :: r)) 0 = r := by
  unfold others
  simp only [List.size_toArray, List.length_cons]
  rw [if_neg (by omega)]
  simp

/-- **the loop on a fan-clippable polygon returns the fan** -/
theorem loop_fan (N a : V3 ℝ) :
    ∀ (l : List (V3 ℝ)) (fuel : Nat) (acc : List (Tri ℝ)), l.length + 1 ≤ fuel → FanOK N a l →
      loop N fuel (List.toArray (a :: l)) 0 acc = .ok (acc.reverse ++ fan a l)
  | [], fuel + 1, acc, _, _ => by rw [loop]; simp [fan]
  | [b], fuel + 1, acc, _, _ => by rw [loop]; simp [fan]
  | b :: c :: r, fuel + 1, acc, hf, hok => by
    obtain ⟨h1, h2, h3, h4, h5⟩ := hok
    obtain ⟨g0, g1, g2⟩ := getLoop_front a b c r
    rw [loop]
    rw [if_neg (by simp only [List.size_toArray, List.length_cons]; omega)]
    rw [if_neg (by simp only [List.size_toArray, List.length_cons]; omega)]
    simp only []
    rw [g0, g1, g2, h1, h2, others_front, h4, erase_one]
    simp only [Bool.or_self, Bool.false_eq_true, if_false, Bool.not_false, if_true]
    have h3' : (lit 1 / lit 1000000) * V3.dot N N < V3.dot N (V3.cross (c - b) (b - a)) := h3
    rw [if_pos h3']
    rw [loop_fan N a (c :: r) fuel _ (by simp only [List.length_cons] at hf ⊢; omega) h5]
    simp [fan]

/-- **`triangulate` on a non-degenerate fan-clippable polygon returns the fan** -/
theorem triangulate_fan (a : V3 ℝ) (l : List (V3 ℝ))
    (hd : degenerate (a :: l) (newell (a :: l)) = false)
    (hok : FanOK (newell (a :: l)) a l) : triangulate (a :: l) = .ok (fan a l) := by
  unfold triangulate
  simp only [hd, Bool.false_eq_true, if_false]
  rw [loop_fan _ a l _ [] _ hok]
  · simp
  · simp only [List.length_cons]
    have : 0 ≤ (l.length + 1) * (l.length + 1) := Nat.zero_le _
    omega

/-! ### the fan bounds the polygon -/

theorem fan_chain (a : V3 ℝ) :
    ∀ l : List (V3 ℝ), EdgeChainEq (cycleEdges (a :: l)) ((fan a l).flatMap triEdges)
  | [] => by simpa [fan] using cycleEdges_short (rest := [a]) (by simp)
  | [b] => by simpa [fan] using cycleEdges_short (rest := [a, b]) (by simp)
  | b :: c :: r => by
    have ih := fan_chain a (c :: r)
    simp only [fan, List.flatMap_cons]
    exact (ear_front a b c r).trans (EdgeChainEq.append_left _ ih)

theorem crossPhi_tri' (t : Tri ℝ) (c : Nat) :
    sumEdges (crossPhi c) (triEdges t) = t.nvec.get c := by
  obtain ⟨⟨ax, ay, az⟩, ⟨bx, b_y, bz⟩, ⟨cx, cy, cz⟩⟩ := t
  simp only [sumEdges, triEdges, crossPhi, Tri.nvec, V3.cross, V3.get, List.map_cons,
    List.map_nil, List.sum_cons, List.sum_nil, V3.sub_x, V3.sub_y, V3.sub_z]
  split_ifs <;> ring

/-- `o3 N a b c = −N · ((b − a) × (c − a))`: positive for a triangle that is counter-clockwise about
`−N` (the polygon's own vector area is `−newell/2`), and then `|N|` times twice its area -/
def o3 (N a b c : V3 ℝ) : ℝ := -(V3.dot N (V3.cross (b - a) (c - a)))

theorem earTest_iff (N a b c : V3 ℝ) :
    EarTest N ⟨a, b, c⟩ ↔ (lit 1 / lit 1000000) * V3.dot N N < o3 N a b c := by
  have : V3.dot N (V3.cross (c - b) (b - a)) = o3 N a b c := by
    obtain ⟨nx, ny, nz⟩ := N; obtain ⟨ax, ay, az⟩ := a; obtain ⟨bx, b_y, bz⟩ := b
    obtain ⟨cx, cy, cz⟩ := c
    simp only [o3, V3.dot, V3.cross, V3.sub_x, V3.sub_y, V3.sub_z]; ring
  unfold EarTest; simp only [this]

/-- whenever triangles bound the polygon, their `o3` values add up to `|newell|²` -/
theorem sum_o3_of_chain (poly : List (V3 ℝ)) (Ts : List (Tri ℝ))
    (h : EdgeChainEq (cycleEdges poly) (Ts.flatMap triEdges)) :
    (Ts.map fun t => o3 (newell poly) t.a t.b t.c).sum = V3.dot (newell poly) (newell poly) := by
  have hc : ∀ c, (Ts.map fun t => t.nvec.get c).sum = -(newell poly).get c := by
    intro c
    rw [newell_get, neg_neg, h _ (crossPhi_odd c), sumEdges_flatMap]
    simp only [crossPhi_tri']
  have h0 := hc 0; have h1 := hc 1; have h2 := hc 2
  simp only [V3.get_zero, V3.get_one, V3.get_two] at h0 h1 h2
  generalize newell poly = N at *
  have : ∀ L : List (Tri ℝ), (L.map fun t => o3 N t.a t.b t.c).sum
      = -(N.x * (L.map fun t => t.nvec.x).sum + N.y * (L.map fun t => t.nvec.y).sum
          + N.z * (L.map fun t => t.nvec.z).sum) := by
    intro L
    induction L with
    | nil => simp
    | cons t L ih =>
      simp only [List.map_cons, List.sum_cons]
      rw [ih]
      simp only [o3, V3.dot, Tri.nvec]; ring
  rw [this, h0, h1, h2]; simp only [V3.dot]; ring

/-! ### geometry: margins ⇒ the loop's tests -/

/-- vector identity: `|N|² (u × v) = (N·(u × v)) N − (N·v)(N × u) + (N·u)(N × v)` -/
theorem normSq_smul_cross (N u v : V3 ℝ) :
    V3.smul (V3.dot N N) (V3.cross u v)
      = V3.smul (V3.dot N (V3.cross u v)) N - V3.smul (V3.dot N v) (V3.cross N u)
        + V3.smul (V3.dot N u) (V3.cross N v) := by
  obtain ⟨nx, ny, nz⟩ := N; obtain ⟨ux, uy, uz⟩ := u; obtain ⟨vx, vy, vz⟩ := v
  ext <;> simp only [V3.smul_x, V3.smul_y, V3.smul_z, V3.add_x, V3.add_y, V3.add_z, V3.sub_x,
    V3.sub_y, V3.sub_z, V3.dot, V3.cross] <;> ring

/-- for `u, v ⟂ N`: `|N|² (u × v)·m = (N·(u × v)) (N·m)` -/
theorem planar_cross_dot (N u v m : V3 ℝ) (hu : V3.dot N u = 0) (hv : V3.dot N v = 0) :
    V3.dot N N * V3.dot (V3.cross u v) m = V3.dot N (V3.cross u v) * V3.dot N m := by
  have h := normSq_smul_cross N u v
  rw [hu, hv] at h
  have hx := congrArg V3.x h; have hy := congrArg V3.y h; have hz := congrArg V3.z h
  simp only [V3.smul_x, V3.smul_y, V3.smul_z, V3.add_x, V3.add_y, V3.add_z, V3.sub_x, V3.sub_y,
    V3.sub_z, zero_mul, sub_zero, add_zero] at hx hy hz
  simp only [V3.dot] at hx hy hz ⊢
  linear_combination m.x * hx + m.y * hy + m.z * hz

/-- **a vertex beyond the edge `c a` of the fan triangle `(a, b, c)` fails the containment test
with room to spare**: its first barycentric coordinate is `−o3(a,c,p)/o3(a,b,c)`. -/
theorem bary_lt (N a b c p : V3 ℝ) (tol : ℝ) (hK : 0 < V3.dot N N)
    (hb : V3.dot N (b - a) = 0) (hc : V3.dot N (c - a) = 0)
    (hpos : 0 < o3 N a b c) (hm : tol * o3 N a b c < o3 N a c p) :
    V3.det3 (p - a) (c - a) (V3.cross (b - a) (c - a))
      / V3.det3 (b - a) (c - a) (V3.cross (b - a) (c - a)) < -tol := by
  set u := b - a with hu
  set v := c - a with hv
  set w := p - a with hw
  set m := V3.cross u v with hm'
  have hD : V3.det3 u v m = V3.dot m m := by
    simp only [hm']; obtain ⟨ux, uy, uz⟩ := u; obtain ⟨vx, vy, vz⟩ := v
    simp only [V3.det3, V3.dot, V3.cross]; ring
  have hX : V3.det3 w v m = V3.dot m (V3.cross w v) := by
    simp only [hm']; obtain ⟨ux, uy, uz⟩ := u; obtain ⟨vx, vy, vz⟩ := v; obtain ⟨wx, wy, wz⟩ := w
    simp only [V3.det3, V3.dot, V3.cross]; ring
  have hKD : V3.dot N N * V3.dot m m = o3 N a b c * o3 N a b c := by
    rw [planar_cross_dot N u v m hb hc]; simp only [o3, ← hu, ← hv, ← hm']; ring
  have hKX : V3.dot N N * V3.dot m (V3.cross w v) = -(o3 N a b c * o3 N a c p) := by
    rw [planar_cross_dot N u v _ hb hc]
    have : V3.dot N (V3.cross w v) = o3 N a c p := by
      simp only [o3, ← hv, ← hw]
      obtain ⟨nx, ny, nz⟩ := N; obtain ⟨vx, vy, vz⟩ := v; obtain ⟨wx, wy, wz⟩ := w
      simp only [V3.dot, V3.cross]; ring
    rw [this]; simp only [o3, ← hu, ← hv, ← hm']; ring
  have hDpos : 0 < V3.dot m m := by
    have : 0 < V3.dot N N * V3.dot m m := by rw [hKD]; exact mul_pos hpos hpos
    exact (mul_pos_iff_of_pos_left hK).mp this
  rw [hD, hX, div_lt_iff₀ hDpos]
  -- multiply by |N|² > 0
  have key : V3.dot N N * V3.dot m (V3.cross w v) < V3.dot N N * (-tol * V3.dot m m) := by
    rw [hKX]
    have e : V3.dot N N * (-tol * V3.dot m m) = -(tol * (o3 N a b c * o3 N a b c)) := by
      rw [← hKD]; ring
    rw [e]
    have : 0 < o3 N a b c * (o3 N a c p - tol * o3 N a b c) := mul_pos hpos (by linarith)
    nlinarith
  exact lt_of_mul_lt_mul_left key hK.le

theorem veq_false_of_ne {a b : V3 ℝ} (h : a ≠ b) : veq a b = false := by
  by_contra hc
  exact h (veq_eq (by simpa using hc))

theorem o3_self_left (N a c : V3 ℝ) : o3 N a a c = 0 := by
  obtain ⟨nx, ny, nz⟩ := N; obtain ⟨ax, ay, az⟩ := a; obtain ⟨cx, cy, cz⟩ := c
  simp only [o3, V3.dot, V3.cross, V3.sub_x, V3.sub_y, V3.sub_z]; ring

theorem o3_self_right (N a b : V3 ℝ) : o3 N a b b = 0 := by
  obtain ⟨nx, ny, nz⟩ := N; obtain ⟨ax, ay, az⟩ := a; obtain ⟨bx, b_y, bz⟩ := b
  simp only [o3, V3.dot, V3.cross, V3.sub_x, V3.sub_y, V3.sub_z]; ring

/-- the margin hypothesis on the triangles through the first vertex: every `(a, p_j, p_k)`, `j < k`,
is counter-clockwise (about `−N`) with `o3 > 1e-6 |N|²`, i.e. has more than `1e-6` of the polygon's
area when `N` is the polygon's Newell vector -/
def FanMargin (N a : V3 ℝ) (l : List (V3 ℝ)) : Prop :=
  l.Pairwise fun b c => (lit 1 / lit 1000000) * V3.dot N N < o3 N a b c

/-- **margins ⇒ `FanOK`**, for vertices in a plane orthogonal to `N` and fan triangles not larger
than `|N|²` (which holds when `N` is the Newell vector, `fanOK_of_margin`) -/
theorem fanOK_of_margin_aux (N a : V3 ℝ) (hK : 0 < V3.dot N N) :
    ∀ l : List (V3 ℝ), (∀ v ∈ l, V3.dot N (v - a) = 0) → FanMargin N a l →
      (∀ t ∈ fan a l, o3 N t.a t.b t.c ≤ V3.dot N N) → FanOK N a l
  | [], _, _, _ => trivial
  | [_], _, _, _ => trivial
  | b :: c :: r, hpl, hmar, hle => by
    have hbc : (lit 1 / lit 1000000) * V3.dot N N < o3 N a b c :=
      (List.pairwise_cons.mp hmar).1 c (by simp)
    have hmar' : FanMargin N a (c :: r) := (List.pairwise_cons.mp hmar).2
    have hK6 : 0 < (lit 1 / lit 1000000 : ℝ) * V3.dot N N := by
      simp only [Scalar.lit, Scalar.ofNat_real]; positivity
    have hpos : 0 < o3 N a b c := lt_trans hK6 hbc
    have hle1 : o3 N a b c ≤ V3.dot N N := hle ⟨a, b, c⟩ (by simp [fan])
    refine ⟨?_, ?_, (earTest_iff N a b c).mpr hbc, ?_, ?_⟩
    · apply veq_false_of_ne; rintro rfl; rw [o3_self_left] at hpos; exact lt_irrefl _ hpos
    · apply veq_false_of_ne; rintro rfl; rw [o3_self_right] at hpos; exact lt_irrefl _ hpos
    · unfold anyPointInTriangle
      simp only []
      rw [List.any_eq_false]
      intro p hp
      have hcp : (lit 1 / lit 1000000) * V3.dot N N < o3 N a c p :=
        (List.pairwise_cons.mp hmar').1 p hp
      have hlt := bary_lt N a b c p (lit 1 / lit 1000000000) hK (hpl b (by simp)) (hpl c (by simp))
        hpos (by
          simp only [Scalar.lit, Scalar.ofNat_real] at hcp hK6 hle1 ⊢
          push_cast at hcp hK6 ⊢
          nlinarith)
      have : ¬ (-(lit 1 / lit 1000000000 : ℝ)
          ≤ V3.det3 (p - a) (c - a) (V3.cross (b - a) (c - a))
            / V3.det3 (b - a) (c - a) (V3.cross (b - a) (c - a))) := not_le.mpr hlt
      intro hh
      simp only [Bool.and_eq_true, decide_eq_true_eq] at hh
      exact this hh.1.1
    · exact fanOK_of_margin_aux N a hK (c :: r) (fun v hv => hpl v (List.mem_cons_of_mem _ hv)) hmar'
        (fun t ht => hle t (by simp only [fan]; exact List.mem_cons_of_mem _ ht))

/-- **margins ⇒ `FanOK` for the polygon's own Newell vector** -/
theorem fanOK_of_margin (a : V3 ℝ) (l : List (V3 ℝ)) (d : ℝ)
    (hK : 0 < V3.dot (newell (a :: l)) (newell (a :: l)))
    (hpl : ∀ v ∈ a :: l, V3.dot (newell (a :: l)) v = d)
    (hmar : FanMargin (newell (a :: l)) a l) : FanOK (newell (a :: l)) a l := by
  have hsum := sum_o3_of_chain (a :: l) (fan a l) (fan_chain a l)
  generalize newell (a :: l) = N at *
  have hK6 : 0 < (lit 1 / lit 1000000 : ℝ) * V3.dot N N := by
    simp only [Scalar.lit, Scalar.ofNat_real]; positivity
  -- every fan triangle is positive
  have hfanpos : ∀ l' : List (V3 ℝ), FanMargin N a l' → ∀ t ∈ fan a l', 0 ≤ o3 N t.a t.b t.c := by
    intro l'
    induction l' with
    | nil => intro _ t ht; simp [fan] at ht
    | cons b l' ih =>
      cases l' with
      | nil => intro _ t ht; simp [fan] at ht
      | cons c r =>
        intro hm t ht
        simp only [fan, List.mem_cons] at ht
        rcases ht with rfl | ht
        · exact (lt_trans hK6 ((List.pairwise_cons.mp hm).1 c (by simp))).le
        · exact ih (List.pairwise_cons.mp hm).2 t ht
  apply fanOK_of_margin_aux N a hK l
  · intro v hv
    have h1 := hpl v (List.mem_cons_of_mem _ hv)
    have h2 := hpl a (by simp)
    obtain ⟨nx, ny, nz⟩ := N
    simp only [V3.dot, V3.sub_x, V3.sub_y, V3.sub_z] at h1 h2 ⊢
    linarith
  · exact hmar
  · intro t ht
    rw [← hsum]
    have := List.single_le_sum (l := (fan a l).map fun t => o3 N t.a t.b t.c)
      (by
        intro x hx
        obtain ⟨t', ht', rfl⟩ := List.mem_map.mp hx
        exact hfanpos l hmar t' ht')
      (o3 N t.a t.b t.c) (List.mem_map.mpr ⟨t, ht, rfl⟩)
    exact this

/-- strict convexity with margin: EVERY ordered vertex triple is counter-clockwise with more than
`1e-6` of the polygon's area -/
def ConvexMargin (N : V3 ℝ) : List (V3 ℝ) → Prop
  | [] => True
  | a :: l => FanMargin N a l ∧ ConvexMargin N l

theorem ConvexMargin.fan {N a : V3 ℝ} {l : List (V3 ℝ)} (h : ConvexMargin N (a :: l)) :
    FanMargin N a l := h.1

end Polytri

end
