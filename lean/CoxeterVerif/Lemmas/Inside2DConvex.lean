import CoxeterVerif.Lemmas.Inside2DCert
/-!
  C06 — triangulation-free theorems about the half-turn sum of `Polygon.is_inside`.

  1. `halfTurnSum_halfplane` (ANY closed polygon): if all vertices lie strictly on one side of a
     line through the query point, the half-turn sum is `0` — every point outside the convex hull
     of the vertices is classified "outside".  Proof: on an open half-plane through the origin the
     half-turn term is EXACT (`ht u v = g v − g u` for an integer potential `g`), so the cyclic sum
     telescopes.
  2. `halfTurnSum_pos_of_left` (ANY closed polygon): if the query point is strictly left of every
     directed edge, the half-turn sum is positive (it is the number of class changes, and a cycle
     of vectors of one class cannot turn left all the way round: `cross_trans_R`).
  3. `convex_inside_iff`: for a strictly convex counter-clockwise polygon (`convexCheck`, a
     computable predicate) and every point off its closed edges the model's answer is
     `leftOfAll` — membership in the intersection of the edges' open half-planes.  No
     triangulation, no hypothesis about the point other than "not on the boundary".
-/
open Inside2D Inside2D.Polygon Spec.In2D Scalar
set_option maxRecDepth 4000
noncomputable section
namespace Inside2D

/-! ### membership facts about `edges` -/

theorem mem_roll {β : Type} (x : β) (l : List β) : x ∈ roll l ↔ x ∈ l := by
  cases l with
  | nil => exact Iff.rfl
  | cons a l => simp [roll, or_comm]

theorem length_roll {β : Type} (l : List β) : (roll l).length = l.length := by
  cases l with
  | nil => rfl
  | cons a l => simp [roll]

theorem mem_edges {β : Type} {l : List β} {e : β × β} (h : e ∈ edges l) : e.1 ∈ l ∧ e.2 ∈ l := by
  obtain ⟨a, b⟩ := e
  have := List.of_mem_zip h
  exact ⟨this.1, (mem_roll b l).mp this.2⟩

/-- every vertex is the start of an edge -/
theorem exists_edge_from {β : Type} {l : List β} {v : β} (h : v ∈ l) : ∃ z, (v, z) ∈ edges l := by
  have e : (edges l).map Prod.fst = l := List.map_fst_zip (by rw [length_roll])
  rw [← e] at h
  obtain ⟨⟨a, b⟩, hab, rfl⟩ := List.mem_map.mp h
  exact ⟨b, hab⟩

/-- every vertex is the end of an edge -/
theorem exists_edge_to {β : Type} {l : List β} {v : β} (h : v ∈ l) : ∃ w, (w, v) ∈ edges l := by
  have e : (edges l).map Prod.snd = roll l := List.map_snd_zip (by rw [length_roll])
  rw [← mem_roll, ← e] at h
  obtain ⟨⟨a, b⟩, hab, rfl⟩ := List.mem_map.mp h
  exact ⟨a, hab⟩

/-- a transitive relation holding along all edges of a non-empty cycle holds between the start
    vertex and itself -/
theorem cyc_trans {β : Type} {r : β → β → Prop} (htr : ∀ a b c, r a b → r b c → r a c)
    (a : β) (l : List β) (h : ∀ e ∈ edges (a :: l), r e.1 e.2) : r a a := by
  have key : ∀ (l : List β) (a x : β), (∀ e ∈ (a :: l).zip (l ++ [x]), r e.1 e.2) → r a x := by
    intro l
    induction l with
    | nil => intro a x h; exact h (a, x) (by simp)
    | cons b l ih =>
      intro a x h
      have h1 : r a b := h (a, b) (by simp)
      have h2 : r b x := ih b x (fun e he => h e (by
        simp only [List.cons_append, List.zip_cons_cons, List.mem_cons]
        right; exact he))
      exact htr a b x h1 h2
  exact key l a a h

/-! ### 1. all vertices in an open half-plane through the query point -/

/-- potential of the half-turn term on the open half-plane `{u | d·u > 0}` -/
def hpPot (d u : P2 ℝ) : Int := if cls u = -1 then sgn d.y else 0

theorem cross_dot_identity (d u v : P2 ℝ) :
    d.y * crossR u v = u.x * dotR d v - v.x * dotR d u := by unfold crossR dotR; ring

/-- a vector of the class `R` followed by one of the class `L`, both in the half-plane of `d` -/
theorem hp_RL {d u v : P2 ℝ} (hu : inR u) (hv : inL v) (du : 0 < dotR d u) (dv : 0 < dotR d v) :
    0 < d.y * crossR u v := by
  rw [cross_dot_identity]
  have ux := inR_x_nonneg hu
  have vx := inL_x_nonpos hv
  have a1 : 0 ≤ u.x * dotR d v := mul_nonneg ux dv.le
  have a2 : 0 ≤ -v.x * dotR d u := mul_nonneg (by linarith) du.le
  by_contra hK
  have hK0 : u.x * dotR d v - v.x * dotR d u = 0 := by nlinarith
  have e1 : u.x * dotR d v = 0 := by nlinarith
  have e2 : v.x * dotR d u = 0 := by nlinarith
  have ux0 : u.x = 0 := by
    rcases mul_eq_zero.mp e1 with h | h
    · exact h
    · linarith
  have vx0 : v.x = 0 := by
    rcases mul_eq_zero.mp e2 with h | h
    · exact h
    · linarith
  have uy : 0 < u.y := by
    rcases hu with h | ⟨_, h⟩
    · linarith
    · exact h
  have vy : v.y < 0 := by
    rcases hv with h | ⟨_, h⟩
    · linarith
    · exact h
  unfold dotR at du dv
  rw [ux0] at du; rw [vx0] at dv
  have h1 : 0 < d.y * u.y := by linarith
  have h2 : 0 < d.y * v.y := by linarith
  have dy : 0 < d.y := by
    by_contra h
    have : d.y * u.y ≤ 0 := mul_nonpos_of_nonpos_of_nonneg (not_lt.mp h) uy.le
    linarith
  have : d.y * v.y < 0 := mul_neg_of_pos_of_neg dy vy
  linarith

theorem sgn_eq_of_mul_pos {a b : ℝ} (h : 0 < a * b) : sgn b = sgn a := by
  rcases lt_trichotomy a 0 with ha | ha | ha
  · have hb : b < 0 := by
      by_contra hb
      have : a * b ≤ 0 := mul_nonpos_of_nonpos_of_nonneg ha.le (not_lt.mp hb)
      linarith
    rw [sgn_of_neg ha, sgn_of_neg hb]
  · rw [ha] at h; simp at h
  · have hb : 0 < b := by
      by_contra hb
      have : a * b ≤ 0 := mul_nonpos_of_nonneg_of_nonpos ha.le (not_lt.mp hb)
      linarith
    rw [sgn_of_pos ha, sgn_of_pos hb]

theorem cls_ne_zero_of_dot_pos {d u : P2 ℝ} (du : 0 < dotR d u) : cls u ≠ 0 := by
  intro h0
  rcases cls_cases u with ⟨hx, hy, _⟩ | ⟨_, e⟩ | ⟨_, e⟩
  · unfold dotR at du; rw [hx, hy] at du; simp at du
  · rw [e] at h0; exact absurd h0 (by decide)
  · rw [e] at h0; exact absurd h0 (by decide)

/-- **on an open half-plane through the origin the half-turn term is exact** -/
theorem ht_exact_halfplane {d u v : P2 ℝ} (du : 0 < dotR d u) (dv : 0 < dotR d v) :
    ht u v = hpPot d v - hpPot d u := by
  rcases inR_or_inL_of_cls_ne_zero (cls_ne_zero_of_dot_pos du) with ⟨ru, eu⟩ | ⟨ru, eu⟩ <;>
  rcases inR_or_inL_of_cls_ne_zero (cls_ne_zero_of_dot_pos dv) with ⟨rv, ev⟩ | ⟨rv, ev⟩
  · unfold ht hpPot; rw [eu, ev, crossing_self]; simp
  · have h := sgn_eq_of_mul_pos (hp_RL ru rv du dv)
    unfold ht hpPot; rw [eu, ev, crossing_pm, h]; simp
  · have h := sgn_eq_of_mul_pos (hp_RL rv ru dv du)
    unfold ht hpPot
    rw [eu, ev, crossing_mp, crossR_swap, sgn_neg, h]; simp
  · unfold ht hpPot; rw [eu, ev, crossing_self]; simp

theorem esum_congr_mem {β G : Type} [AddCommGroup G] {φ ψ : β × β → G} {E : List (β × β)}
    (h : ∀ e ∈ E, φ e = ψ e) : esum φ E = esum ψ E := by
  unfold esum; rw [List.map_congr_left h]

/-- **Every point strictly separated from the vertices by a line is classified outside**
    (any closed polygon — convex or not, simple or not): if `d·(v − p) > 0` for all vertices `v`,
    the half-turn sum is `0`. -/
theorem halfTurnSum_halfplane (vs : List (P2 ℝ)) (p d : P2 ℝ)
    (h : ∀ v ∈ vs, 0 < dotR d (rel v p)) : halfTurnSum vs p = 0 := by
  have e : halfTurnSum vs p =
      esum (fun e : P2 ℝ × P2 ℝ => hpPot d (rel e.2 p) - hpPot d (rel e.1 p)) (edges vs) := by
    unfold halfTurnSum
    apply esum_congr_mem (φ := fun e => halfTurn p e.1 e.2)
    intro e he
    have hm := mem_edges he
    show halfTurn p e.1 e.2 = _
    rw [halfTurn_eq_ht]
    exact ht_exact_halfplane (h _ hm.1) (h _ hm.2)
  rw [e]
  exact esum_edges_exact (fun v => hpPot d (rel v p)) vs

/-! ### 2. the query point strictly left of every directed edge -/

/-- within the class `R`, "turning left" is transitive (the class is a convex cone of angle π) -/
theorem cross_trans_R {u v w : P2 ℝ} (hu : inR u) (hv : inR v) (hw : inR w)
    (h1 : 0 < crossR u v) (h2 : 0 < crossR v w) : 0 < crossR u w := by
  by_contra hneg
  have h3 : 0 ≤ crossR w u := by rw [crossR_swap]; linarith [not_lt.mp hneg]
  rcases h3.lt_or_eq with h3 | h3
  · exact no_wind_R hu hv hw h1 h2 h3
  · -- crossR w u = 0 : Plücker gives u.x = w.x = 0 (or a sign contradiction)
    have hx := cross_cyclic_x u v w
    rw [← h3] at hx
    have a1 := mul_nonneg h1.le (inR_x_nonneg hw)
    have a2 := mul_nonneg h2.le (inR_x_nonneg hu)
    have e1 : crossR u v * w.x = 0 := by nlinarith
    have e2 : crossR v w * u.x = 0 := by nlinarith
    have wx : w.x = 0 := by
      rcases mul_eq_zero.mp e1 with h | h
      · linarith
      · exact h
    have ux : u.x = 0 := by
      rcases mul_eq_zero.mp e2 with h | h
      · linarith
      · exact h
    have uy : 0 < u.y := by
      rcases hu with h | ⟨_, h⟩
      · linarith
      · exact h
    have wy : 0 < w.y := by
      rcases hw with h | ⟨_, h⟩
      · linarith
      · exact h
    -- u = (0, uy), w = (0, wy) : u×v = −uy·vx > 0 and v×w = vx·wy > 0 contradict
    unfold crossR at h1 h2
    rw [ux] at h1; rw [wx] at h2
    have hv1 : v.x < 0 := by
      by_contra h
      have : 0 ≤ u.y * v.x := mul_nonneg uy.le (not_lt.mp h)
      linarith
    have : v.x * w.y < 0 := mul_neg_of_neg_of_pos hv1 wy
    linarith

theorem cross_trans_L {u v w : P2 ℝ} (hu : inL u) (hv : inL v) (hw : inL w)
    (h1 : 0 < crossR u v) (h2 : 0 < crossR v w) : 0 < crossR u w := by
  have := cross_trans_R ((inL_iff_inR_neg u).mp hu) ((inL_iff_inR_neg v).mp hv)
    ((inL_iff_inR_neg w).mp hw) (by rwa [crossR_neg]) (by rwa [crossR_neg])
  rwa [crossR_neg] at this

theorem cls_ne_zero_of_cross_pos {u v : P2 ℝ} (h : 0 < crossR u v) : cls u ≠ 0 := by
  intro h0
  rcases cls_cases u with ⟨hx, hy, _⟩ | ⟨_, e⟩ | ⟨_, e⟩
  · unfold crossR at h; rw [hx, hy] at h; simp at h
  · rw [e] at h0; exact absurd h0 (by decide)
  · rw [e] at h0; exact absurd h0 (by decide)

/-- "same class and turning left" is transitive -/
theorem sameCls_left_trans (u v w : P2 ℝ)
    (h1 : cls u = cls v ∧ 0 < crossR u v) (h2 : cls v = cls w ∧ 0 < crossR v w) :
    cls u = cls w ∧ 0 < crossR u w := by
  refine ⟨h1.1.trans h2.1, ?_⟩
  have hw0 : cls w ≠ 0 := by rw [← h2.1]; exact cls_ne_zero_of_cross_pos h2.2
  rcases inR_or_inL_of_cls_ne_zero (cls_ne_zero_of_cross_pos h1.2) with ⟨ru, eu⟩ | ⟨ru, eu⟩
  · have ev : cls v = 1 := by rw [← h1.1]; exact eu
    have ew : cls w = 1 := by rw [← h2.1]; exact ev
    have rv : inR v := by
      rcases inR_or_inL_of_cls_ne_zero (by rw [ev]; decide) with ⟨r, _⟩ | ⟨_, e⟩
      · exact r
      · rw [ev] at e; exact absurd e (by decide)
    have rw' : inR w := by
      rcases inR_or_inL_of_cls_ne_zero hw0 with ⟨r, _⟩ | ⟨_, e⟩
      · exact r
      · rw [ew] at e; exact absurd e (by decide)
    exact cross_trans_R ru rv rw' h1.2 h2.2
  · have ev : cls v = -1 := by rw [← h1.1]; exact eu
    have ew : cls w = -1 := by rw [← h2.1]; exact ev
    have rv : inL v := by
      rcases inR_or_inL_of_cls_ne_zero (by rw [ev]; decide) with ⟨_, e⟩ | ⟨r, _⟩
      · rw [ev] at e; exact absurd e (by decide)
      · exact r
    have rw' : inL w := by
      rcases inR_or_inL_of_cls_ne_zero hw0 with ⟨_, e⟩ | ⟨r, _⟩
      · rw [ew] at e; exact absurd e (by decide)
      · exact r
    exact cross_trans_L ru rv rw' h1.2 h2.2

theorem crossing_nonneg (s t : Int) : 0 ≤ crossing s t := by unfold crossing; split_ifs <;> decide

theorem crossing_eq_zero {s t : Int} (h : crossing s t = 0) : s = t := by
  unfold crossing at h
  by_cases hst : t - s ≠ 0
  · rw [if_pos hst] at h; exact absurd h (by decide)
  · push Not at hst; omega

theorem list_sum_nonneg {l : List Int} (h : ∀ x ∈ l, 0 ≤ x) : 0 ≤ l.sum := by
  induction l with
  | nil => simp
  | cons a l ih =>
    rw [List.sum_cons]
    have := h a (by simp)
    have := ih (fun x hx => h x (List.mem_cons_of_mem _ hx))
    omega

theorem list_sum_eq_zero {l : List Int} (h : ∀ x ∈ l, 0 ≤ x) (hs : l.sum = 0) : ∀ x ∈ l, x = 0 := by
  induction l with
  | nil => intro x hx; simp at hx
  | cons a l ih =>
    rw [List.sum_cons] at hs
    have ha := h a (by simp)
    have hl : 0 ≤ l.sum := list_sum_nonneg (fun x hx => h x (List.mem_cons_of_mem _ hx))
    intro x hx
    rcases List.mem_cons.mp hx with rfl | hx
    · omega
    · exact ih (fun x hx => h x (List.mem_cons_of_mem _ hx)) (by omega) x hx

/-- **A point strictly left of every directed edge has a positive half-turn sum** (any closed
    polygon with at least one vertex): the sum is the number of class changes, and it cannot be
    `0` because vectors of one class cannot turn left all the way round. -/
theorem halfTurnSum_pos_of_left {vs : List (P2 ℝ)} {p : P2 ℝ} (hne : vs ≠ [])
    (h : ∀ e ∈ edges vs, 0 < orient e.1 e.2 p) : 0 < halfTurnSum vs p := by
  have hterm : ∀ e ∈ edges vs, halfTurn p e.1 e.2 = crossing (cls (rel e.1 p)) (cls (rel e.2 p)) := by
    intro e he
    have hc := h e he
    rw [orient_eq_crossR] at hc
    rw [halfTurn_eq_ht]; unfold ht; rw [sgn_of_pos hc, one_mul]
  have hnn : ∀ x ∈ (edges vs).map (fun e => halfTurn p e.1 e.2), 0 ≤ x := by
    intro x hx
    obtain ⟨e, he, rfl⟩ := List.mem_map.mp hx
    rw [hterm e he]; exact crossing_nonneg _ _
  have h0 : 0 ≤ halfTurnSum vs p := list_sum_nonneg hnn
  rcases h0.lt_or_eq with hpos | hzero
  · exact hpos
  · exfalso
    have hall := list_sum_eq_zero hnn hzero.symm
    obtain ⟨a, l, rfl⟩ := List.exists_cons_of_ne_nil hne
    have hr : ∀ e ∈ edges (a :: l),
        cls (rel e.1 p) = cls (rel e.2 p) ∧ 0 < crossR (rel e.1 p) (rel e.2 p) := by
      intro e he
      have hz := hall _ (List.mem_map.mpr ⟨e, he, rfl⟩)
      rw [hterm e he] at hz
      have hc := h e he
      rw [orient_eq_crossR] at hc
      exact ⟨crossing_eq_zero hz, hc⟩
    have := cyc_trans (r := fun a b : P2 ℝ =>
        cls (rel a p) = cls (rel b p) ∧ 0 < crossR (rel a p) (rel b p))
      (fun a b c => sameCls_left_trans (rel a p) (rel b p) (rel c p)) a l hr
    have hc := this.2
    unfold crossR at hc
    linarith [mul_comm (rel a p).x (rel a p).y]

/-! ### 3. strictly convex polygons -/

/-- what `convexCheck` decides (over `ℝ`) -/
theorem convexCheck_iff (vs : List (P2 ℝ)) : convexCheck vs = true ↔
    vs ≠ [] ∧ ∀ e ∈ edges vs, (∀ v ∈ vs, v = e.1 ∨ v = e.2 ∨ 0 < orient e.1 e.2 v) ∧
      (∃ v ∈ vs, 0 < orient e.1 e.2 v) := by
  unfold convexCheck
  have hp : ∀ a b : P2 ℝ, p2Eqb a b = true ↔ a = b := by
    intro a b
    obtain ⟨ax, ay⟩ := a; obtain ⟨bx, «by»⟩ := b
    unfold p2Eqb
    rw [eqb_real, eqb_real]
    simp
  simp only [Bool.and_eq_true, Bool.not_eq_true', List.isEmpty_eq_false_iff, List.all_eq_true,
    List.any_eq_true, Bool.or_eq_true, decide_eq_true_eq, hp, Scalar.lit, Scalar.ofNat_real,
    Nat.cast_zero, ne_eq, or_assoc]

theorem orient_self_left (a b : P2 ℝ) : orient a b a = 0 := by unfold orient; ring
theorem orient_self_right (a b : P2 ℝ) : orient a b b = 0 := by unfold orient; ring

/-- `cross (y − x) (v − p) = orient x y v − orient x y p` -/
theorem dot_normal_eq (x y v p : P2 ℝ) :
    dotR ⟨-(y.y - x.y), y.x - x.x⟩ (rel v p) = orient x y v - orient x y p := by
  unfold dotR rel orient; ring

/-- the point is strictly right of an edge of a convex polygon ⇒ half-turn sum `0` -/
theorem convex_outside_strict {vs : List (P2 ℝ)} {p : P2 ℝ} (hc : convexCheck vs = true)
    {e : P2 ℝ × P2 ℝ} (he : e ∈ edges vs) (hneg : orient e.1 e.2 p < 0) : halfTurnSum vs p = 0 := by
  obtain ⟨_, hall⟩ := (convexCheck_iff vs).mp hc
  apply halfTurnSum_halfplane vs p ⟨-(e.2.y - e.1.y), e.2.x - e.1.x⟩
  intro v hv
  rw [dot_normal_eq]
  rcases (hall e he).1 v hv with rfl | rfl | h
  · rw [orient_self_left]; linarith
  · rw [orient_self_right]; linarith
  · linarith

theorem edge_normSq_pos {x y z : P2 ℝ} (hz : 0 < orient x y z) :
    0 < (y.x - x.x) * (y.x - x.x) + (y.y - x.y) * (y.y - x.y) := by
  by_contra h
  have h0 := not_lt.mp h
  have e1 : y.x - x.x = 0 := by nlinarith [mul_self_nonneg (y.x - x.x), mul_self_nonneg (y.y - x.y)]
  have e2 : y.y - x.y = 0 := by nlinarith [mul_self_nonneg (y.x - x.x), mul_self_nonneg (y.y - x.y)]
  unfold orient at hz; rw [e1, e2] at hz; simp at hz

/-- collinear with `x y`, beyond `y`: strictly right of the next edge `y z` when `z` is strictly
    left of `x y` -/
theorem beyond_next {x y z p : P2 ℝ} (hcol : orient x y p = 0)
    (hb : 0 < (p.x - y.x) * (y.x - x.x) + (p.y - y.y) * (y.y - x.y))
    (hz : 0 < orient x y z) : orient y z p < 0 := by
  have hE := edge_normSq_pos hz
  have id1 : orient y z p * ((y.x - x.x) * (y.x - x.x) + (y.y - x.y) * (y.y - x.y)) =
      -orient x y z * ((p.x - y.x) * (y.x - x.x) + (p.y - y.y) * (y.y - x.y)) +
        orient x y p * ((z.x - y.x) * (y.x - x.x) + (z.y - y.y) * (y.y - x.y)) := by
    unfold orient; ring
  rw [hcol, zero_mul, add_zero] at id1
  have hneg : -orient x y z * ((p.x - y.x) * (y.x - x.x) + (p.y - y.y) * (y.y - x.y)) < 0 := by
    have := mul_pos hz hb
    linarith
  by_contra h
  have := mul_nonneg (not_lt.mp h) hE.le
  linarith

/-- collinear with `x y`, beyond `x`: strictly right of the previous edge `w x` when `w` is
    strictly left of `x y` -/
theorem beyond_prev {w x y p : P2 ℝ} (hcol : orient x y p = 0)
    (hb : 0 < (p.x - x.x) * (x.x - y.x) + (p.y - x.y) * (x.y - y.y))
    (hw : 0 < orient x y w) : orient w x p < 0 := by
  have hE := edge_normSq_pos hw
  have id1 : orient w x p * ((y.x - x.x) * (y.x - x.x) + (y.y - x.y) * (y.y - x.y)) =
      -orient x y w * ((p.x - x.x) * (x.x - y.x) + (p.y - x.y) * (x.y - y.y)) +
        orient x y p * ((x.x - w.x) * (y.x - x.x) + (x.y - w.y) * (y.y - x.y)) := by
    unfold orient; ring
  rw [hcol, zero_mul, add_zero] at id1
  have hneg : -orient x y w * ((p.x - x.x) * (x.x - y.x) + (p.y - x.y) * (x.y - y.y)) < 0 := by
    have := mul_pos hw hb
    linarith
  by_contra h
  have := mul_nonneg (not_lt.mp h) hE.le
  linarith

/-- a point of the line `x y` (`x ≠ y`) off the closed segment is beyond `y` or beyond `x` -/
theorem beyond_cases {x y p : P2 ℝ}
    (hE : 0 < (y.x - x.x) * (y.x - x.x) + (y.y - x.y) * (y.y - x.y))
    (hcol : orient x y p = 0) (hoff : 0 < dot2 x y p) :
    0 < (p.x - y.x) * (y.x - x.x) + (p.y - y.y) * (y.y - x.y) ∨
    0 < (p.x - x.x) * (x.x - y.x) + (p.y - x.y) * (x.y - y.y) := by
  by_contra hcon
  push Not at hcon
  obtain ⟨h1, h2⟩ := hcon
  -- m = E·B ≤ 0 and m + |E|² ≥ 0 with B = p − y, E = y − x; then |E|²·dot2 = m (m + |E|²) ≤ 0
  have id1 : ((y.x - x.x) * (y.x - x.x) + (y.y - x.y) * (y.y - x.y)) * dot2 x y p =
      ((p.x - y.x) * (y.x - x.x) + (p.y - y.y) * (y.y - x.y)) *
        (-((p.x - x.x) * (x.x - y.x) + (p.y - x.y) * (x.y - y.y))) + orient x y p * orient x y p := by
    unfold dot2 orient; ring
  rw [hcol, mul_zero, add_zero] at id1
  have : 0 < ((y.x - x.x) * (y.x - x.x) + (y.y - x.y) * (y.y - x.y)) * dot2 x y p := mul_pos hE hoff
  have h3 : ((p.x - y.x) * (y.x - x.x) + (p.y - y.y) * (y.y - x.y)) *
      (-((p.x - x.x) * (x.x - y.x) + (p.y - x.y) * (x.y - y.y))) ≤ 0 :=
    mul_nonpos_of_nonpos_of_nonneg h1 (by linarith)
  linarith

theorem orient_rev (a b p : P2 ℝ) : orient b a p = -orient a b p := by unfold orient; ring

/-- the vertex following (or preceding) an edge's end point is strictly left of the edge -/
theorem convex_other_left {vs : List (P2 ℝ)} (hc : convexCheck vs = true) {x y z : P2 ℝ}
    (he : (x, y) ∈ edges vs) (hz : z ∈ vs) (hzx : (y, z) ∈ edges vs ∨ (z, x) ∈ edges vs) :
    0 < orient x y z := by
  obtain ⟨_, hall⟩ := (convexCheck_iff vs).mp hc
  rcases (hall _ he).1 z hz with h | h | h
  · -- z = x
    simp only at h
    subst h
    rcases hzx with h2 | h2
    · -- edges (z,y) and (y,z)
      obtain ⟨v, hv, hpos⟩ := (hall _ h2).2
      simp only at hpos
      rcases (hall _ he).1 v hv with h3 | h3 | h3
      · simp only at h3; subst h3; rw [orient_self_right] at hpos; exact absurd hpos (lt_irrefl _)
      · simp only at h3; subst h3; rw [orient_self_left] at hpos; exact absurd hpos (lt_irrefl _)
      · simp only at h3; rw [orient_rev] at hpos; linarith
    · -- edge (z,z)
      obtain ⟨v, _, hpos⟩ := (hall _ h2).2
      simp only at hpos
      unfold orient at hpos; simp at hpos
  · -- z = y
    simp only at h
    subst h
    rcases hzx with h2 | h2
    · obtain ⟨v, _, hpos⟩ := (hall _ h2).2
      simp only at hpos
      unfold orient at hpos; simp at hpos
    · obtain ⟨v, hv, hpos⟩ := (hall _ h2).2
      simp only at hpos
      rcases (hall _ he).1 v hv with h3 | h3 | h3
      · simp only at h3; subst h3; rw [orient_self_right] at hpos; exact absurd hpos (lt_irrefl _)
      · simp only at h3; subst h3; rw [orient_self_left] at hpos; exact absurd hpos (lt_irrefl _)
      · simp only at h3; rw [orient_rev] at hpos; linarith
  · exact h

/-- **C06 for strictly convex counter-clockwise polygons, without a triangulation.**
    For every point off the closed edges, the model of `Polygon.is_inside` answers exactly
    "strictly left of every directed edge". -/
theorem convex_isInsideRot_eq {vs : List (P2 ℝ)} {p : P2 ℝ} (hc : convexCheck vs = true)
    (hoff : onPolygon vs p = false) : isInsideRot vs p = leftOfAll vs p := by
  obtain ⟨hne, hall⟩ := (convexCheck_iff vs).mp hc
  have hoff' : ∀ e ∈ edges vs, onSegment e.1 e.2 p = false := by
    unfold onPolygon at hoff
    rw [List.any_eq_false] at hoff
    intro e he
    simpa using hoff e he
  by_cases hl : leftOfAll vs p = true
  · -- inside
    rw [hl]
    have hleft : ∀ e ∈ edges vs, 0 < orient e.1 e.2 p := by
      unfold leftOfAll at hl
      rw [List.all_eq_true] at hl
      intro e he
      simpa [Scalar.lit] using hl e he
    have hpos := halfTurnSum_pos_of_left hne hleft
    obtain ⟨k, hk⟩ : ∃ k : Int, halfTurnSum vs p = 2 * k := by
      have h := esum_mod4 (φ := fun e : Edge2 => halfTurn p e.1 e.2)
        (ψ := fun e => cls (rel e.2 p) - cls (rel e.1 p)) (edges vs)
        (fun e he => by
          have := two_ht_mod4 ((onSegment_false_iff e.1 e.2 p).mp (hoff' e he))
          simpa [halfTurn_eq_ht] using this)
      obtain ⟨k, hk⟩ := h
      rw [esum_edges_exact (fun v => cls (rel v p))] at hk
      have e0 : halfTurnSum vs p = esum (fun e : Edge2 => halfTurn p e.1 e.2) (edges vs) := rfl
      exact ⟨k, by rw [e0]; omega⟩
    unfold isInsideRot windingNumber
    rw [hk, Int.fdiv_eq_ediv_of_nonneg _ (by decide)]
    simp only [bne_iff_ne, ne_eq]
    omega
  · -- outside: some edge has the point on its right or on its line
    have hl' : leftOfAll vs p = false := by simpa using hl
    rw [hl']
    have hzero : halfTurnSum vs p = 0 := by
      unfold leftOfAll at hl'
      rw [List.all_eq_false] at hl'
      obtain ⟨e, he, hne⟩ := hl'
      have hle : orient e.1 e.2 p ≤ 0 := by simpa [Scalar.lit] using hne
      rcases hle.lt_or_eq with hneg | hcol
      · exact convex_outside_strict hc he hneg
      · -- on the line of the edge, off the closed segment
        obtain ⟨x, y⟩ := e
        simp only at hcol
        have hseg := hoff' _ he
        have hdot : 0 < dot2 x y p := by
          unfold onSegment at hseg
          rw [eqb_real] at hseg
          simp only [hcol, Scalar.lit, Scalar.ofNat_real, Nat.cast_zero, decide_true, Bool.true_and,
            decide_eq_false_iff_not, not_le] at hseg
          exact hseg
        obtain ⟨v0, _, hv0⟩ := (hall _ he).2
        have hE := edge_normSq_pos hv0
        have hm := mem_edges he
        rcases beyond_cases hE hcol hdot with hb | hb
        · obtain ⟨z, hz⟩ := exists_edge_from hm.2
          have hzl := convex_other_left hc he (mem_edges hz).2 (Or.inl hz)
          exact convex_outside_strict hc hz (beyond_next hcol hb hzl)
        · obtain ⟨w, hw⟩ := exists_edge_to hm.1
          have hwl := convex_other_left hc he (mem_edges hw).1 (Or.inr hw)
          exact convex_outside_strict hc hw (beyond_prev hcol hb hwl)
    unfold isInsideRot windingNumber
    rw [hzero]; rfl


/-! ### edges of the reversed vertex list -/

theorem edges_roll {β : Type} (vs : List β) : edges (roll vs) = roll (edges vs) := by
  cases vs with
  | nil => rfl
  | cons a l =>
    cases l with
    | nil => rfl
    | cons b l =>
      show List.zip (b :: l ++ [a]) (roll (b :: l ++ [a])) = roll (List.zip (a :: b :: l) (b :: l ++ [a]))
      have h1 : roll (b :: l ++ [a]) = (l ++ [a]) ++ [b] := rfl
      rw [h1]
      have h2 : List.zip (a :: b :: l) (b :: l ++ [a]) = (a, b) :: List.zip (b :: l) (l ++ [a]) := rfl
      rw [h2]
      show _ = List.zip (b :: l) (l ++ [a]) ++ [(a, b)]
      have h3 : (b :: l ++ [a]) = (b :: l) ++ [a] := rfl
      rw [h3, List.zip_append (by simp)]
      rfl

theorem mem_edges_roll {β : Type} (vs : List β) (e : β × β) : e ∈ edges (roll vs) ↔ e ∈ edges vs := by
  rw [edges_roll, mem_roll]

theorem edges_cons_reverse {β : Type} (a : β) (l : List β) :
    edges (a :: l.reverse) = ((edges (a :: l)).map Prod.swap).reverse := by
  show List.zip (a :: l.reverse) (l.reverse ++ [a]) = ((List.zip (a :: l) (l ++ [a])).map Prod.swap).reverse
  have h1 : a :: l.reverse = (l ++ [a]).reverse := by simp
  have h2 : l.reverse ++ [a] = (a :: l).reverse := by simp
  rw [h1, h2, List.zip_eq_zipWith, ← List.reverse_zipWith (by simp), ← List.zip_eq_zipWith,
    ← List.zip_swap]

/-- the edges of the reversed polygon are the reversed edges -/
theorem mem_edges_reverse {β : Type} (vs : List β) (e : β × β) :
    e ∈ edges vs.reverse ↔ (e.2, e.1) ∈ edges vs := by
  cases vs with
  | nil => simp [edges, roll]
  | cons a l =>
    have h : (a :: l).reverse = roll (a :: l.reverse) := by simp [roll]
    rw [h, mem_edges_roll, edges_cons_reverse, List.mem_reverse, List.mem_map]
    constructor
    · rintro ⟨x, hx, rfl⟩; exact hx
    · intro hx; exact ⟨(e.2, e.1), hx, rfl⟩

end Inside2D
