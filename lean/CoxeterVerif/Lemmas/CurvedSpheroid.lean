import CoxeterVerif.Lemmas.CurvedSurface
import Mathlib.Analysis.SpecialFunctions.Arsinh
import Mathlib.Analysis.SpecialFunctions.Trigonometric.InverseDeriv
import Mathlib.Analysis.SpecialFunctions.Trigonometric.ArctanDeriv
/-!
  C10: spheroids (two equal semi-axes).  The surface integral reduces to a 1-D integral which is evaluated in closed
  form by the fundamental theorem of calculus (oblate: `arsinh`, prolate: `arcsin`).
-/
open Curved MeasureTheory intervalIntegral
noncomputable section
namespace C10

theorem hasDerivAt_sqrt_quad (p k u : ℝ) (h : 0 < p + k * u ^ 2) :
    HasDerivAt (fun u : ℝ => Real.sqrt (p + k * u ^ 2)) (k * u / Real.sqrt (p + k * u ^ 2)) u := by
  have h1 : HasDerivAt (fun u : ℝ => p + k * u ^ 2) (k * (2 * u)) u := by
    have := ((hasDerivAt_id u).pow 2).const_mul k |>.const_add p
    simpa using this
  have := h1.sqrt h.ne'
  convert this using 1
  field_simp

/-- antiderivative of `√(c² + κ² u²)` -/
def Gobl (c κ u : ℝ) : ℝ := u / 2 * Real.sqrt (c ^ 2 + κ ^ 2 * u ^ 2) + c ^ 2 / (2 * κ) * Real.arsinh (κ * u / c)

theorem hasDerivAt_Gobl (c κ u : ℝ) (hc : 0 < c) (hκ : 0 < κ) :
    HasDerivAt (Gobl c κ) (Real.sqrt (c ^ 2 + κ ^ 2 * u ^ 2)) u := by
  have hpos : 0 < c ^ 2 + κ ^ 2 * u ^ 2 := by positivity
  have hR : 0 < Real.sqrt (c ^ 2 + κ ^ 2 * u ^ 2) := Real.sqrt_pos.mpr hpos
  have d1 := ((hasDerivAt_id u).div_const 2).mul (hasDerivAt_sqrt_quad (c ^ 2) (κ ^ 2) u hpos)
  have d2 := ((Real.hasDerivAt_arsinh (κ * u / c)).comp u (((hasDerivAt_id u).const_mul κ).div_const c)).const_mul
    (c ^ 2 / (2 * κ))
  have hs : Real.sqrt (1 + (κ * u / c) ^ 2) = Real.sqrt (c ^ 2 + κ ^ 2 * u ^ 2) / c := by
    rw [show 1 + (κ * u / c) ^ 2 = (c ^ 2 + κ ^ 2 * u ^ 2) / c ^ 2 by field_simp, Real.sqrt_div hpos.le,
      Real.sqrt_sq hc.le]
  have key : HasDerivAt (fun u : ℝ => u / 2 * Real.sqrt (c ^ 2 + κ ^ 2 * u ^ 2)
        + c ^ 2 / (2 * κ) * Real.arsinh (κ * u / c))
      (1 / 2 * Real.sqrt (c ^ 2 + κ ^ 2 * u ^ 2) + u / 2 * (κ ^ 2 * u / Real.sqrt (c ^ 2 + κ ^ 2 * u ^ 2))
        + c ^ 2 / (2 * κ) * ((Real.sqrt (1 + (κ * u / c) ^ 2))⁻¹ * (κ * 1 / c))) u := d1.add d2
  have hG : Gobl c κ = fun u : ℝ => u / 2 * Real.sqrt (c ^ 2 + κ ^ 2 * u ^ 2)
        + c ^ 2 / (2 * κ) * Real.arsinh (κ * u / c) := by funext u; rfl
  rw [hG]
  refine key.congr_deriv ?_
  rw [hs]
  have hsq : Real.sqrt (c ^ 2 + κ ^ 2 * u ^ 2) ^ 2 = c ^ 2 + κ ^ 2 * u ^ 2 := Real.sq_sqrt hpos.le
  field_simp
  nlinarith [hsq]

/-- `∫₀^π sinθ √(c² + κ² cos²θ) dθ = √(c²+κ²) + (c²/κ) arsinh(κ/c)` -/
theorem integral_oblate (c κ : ℝ) (hc : 0 < c) (hκ : 0 < κ) :
    ∫ θ in (0:ℝ)..Real.pi, Real.sin θ * Real.sqrt (c ^ 2 + κ ^ 2 * Real.cos θ ^ 2)
      = Real.sqrt (c ^ 2 + κ ^ 2) + c ^ 2 / κ * Real.arsinh (κ / c) := by
  have hder : ∀ θ ∈ Set.uIcc (0:ℝ) Real.pi,
      HasDerivAt (fun θ => - Gobl c κ (Real.cos θ)) (Real.sin θ * Real.sqrt (c ^ 2 + κ ^ 2 * Real.cos θ ^ 2)) θ := by
    intro θ _
    have := ((hasDerivAt_Gobl c κ (Real.cos θ) hc hκ).comp θ (Real.hasDerivAt_cos θ)).neg
    refine this.congr_deriv ?_
    ring
  rw [integral_eq_sub_of_hasDerivAt hder (Continuous.intervalIntegrable (by fun_prop) _ _)]
  simp only [Gobl, Real.cos_pi, Real.cos_zero]
  have e1 : κ * (-1) / c = -(κ / c) := by ring
  rw [e1, Real.arsinh_neg]
  have e2 : κ * 1 / c = κ / c := by ring
  rw [e2]
  have e3 : c ^ 2 + κ ^ 2 * (-1) ^ 2 = c ^ 2 + κ ^ 2 := by ring
  have e4 : c ^ 2 + κ ^ 2 * 1 ^ 2 = c ^ 2 + κ ^ 2 := by ring
  rw [e3, e4]
  field_simp; ring

/-- antiderivative of `√(a² − κ² u²)` -/
def Gpro (a κ u : ℝ) : ℝ := u / 2 * Real.sqrt (a ^ 2 + -(κ ^ 2) * u ^ 2) + a ^ 2 / (2 * κ) * Real.arcsin (κ * u / a)

theorem hasDerivAt_Gpro (a κ u : ℝ) (ha : 0 < a) (hκ : 0 < κ) (hκa : κ < a) (hu : |u| ≤ 1) :
    HasDerivAt (Gpro a κ) (Real.sqrt (a ^ 2 + -(κ ^ 2) * u ^ 2)) u := by
  have hu2 : u ^ 2 ≤ 1 := by rw [← sq_abs]; exact pow_le_one₀ (abs_nonneg u) hu
  have hpos : 0 < a ^ 2 + -(κ ^ 2) * u ^ 2 := by nlinarith [sq_nonneg u, sq_nonneg κ]
  have hR : 0 < Real.sqrt (a ^ 2 + -(κ ^ 2) * u ^ 2) := Real.sqrt_pos.mpr hpos
  have hx : |κ * u / a| < 1 := by
    rw [abs_div, abs_mul, abs_of_pos ha, abs_of_pos hκ, div_lt_one ha]
    nlinarith [abs_nonneg u]
  have d1 := ((hasDerivAt_id u).div_const 2).mul (hasDerivAt_sqrt_quad (a ^ 2) (-(κ ^ 2)) u hpos)
  have d2 := ((Real.hasDerivAt_arcsin (x := κ * u / a) (by linarith [abs_lt.mp hx |>.1])
    (by linarith [abs_lt.mp hx |>.2])).comp u (((hasDerivAt_id u).const_mul κ).div_const a)).const_mul (a ^ 2 / (2 * κ))
  have hs : Real.sqrt (1 - (κ * u / a) ^ 2) = Real.sqrt (a ^ 2 + -(κ ^ 2) * u ^ 2) / a := by
    rw [show 1 - (κ * u / a) ^ 2 = (a ^ 2 + -(κ ^ 2) * u ^ 2) / a ^ 2 by field_simp; ring, Real.sqrt_div hpos.le,
      Real.sqrt_sq ha.le]
  have key : HasDerivAt (fun u : ℝ => u / 2 * Real.sqrt (a ^ 2 + -(κ ^ 2) * u ^ 2)
        + a ^ 2 / (2 * κ) * Real.arcsin (κ * u / a))
      (1 / 2 * Real.sqrt (a ^ 2 + -(κ ^ 2) * u ^ 2) + u / 2 * (-(κ ^ 2) * u / Real.sqrt (a ^ 2 + -(κ ^ 2) * u ^ 2))
        + a ^ 2 / (2 * κ) * (1 / Real.sqrt (1 - (κ * u / a) ^ 2) * (κ * 1 / a))) u := d1.add d2
  have hG : Gpro a κ = fun u : ℝ => u / 2 * Real.sqrt (a ^ 2 + -(κ ^ 2) * u ^ 2)
        + a ^ 2 / (2 * κ) * Real.arcsin (κ * u / a) := by funext u; rfl
  rw [hG]
  refine key.congr_deriv ?_
  rw [hs]
  have hsq : Real.sqrt (a ^ 2 + -(κ ^ 2) * u ^ 2) ^ 2 = a ^ 2 + -(κ ^ 2) * u ^ 2 := Real.sq_sqrt hpos.le
  generalize Real.sqrt (a ^ 2 + -(κ ^ 2) * u ^ 2) = R at hR hsq ⊢
  field_simp
  linear_combination (-1 : ℝ) * hsq

/-- `∫₀^π sinθ √(a² − κ² cos²θ) dθ = √(a²−κ²) + (a²/κ) arcsin(κ/a)` for `0 < κ < a` -/
theorem integral_prolate (a κ : ℝ) (ha : 0 < a) (hκ : 0 < κ) (hκa : κ < a) :
    ∫ θ in (0:ℝ)..Real.pi, Real.sin θ * Real.sqrt (a ^ 2 + -(κ ^ 2) * Real.cos θ ^ 2)
      = Real.sqrt (a ^ 2 - κ ^ 2) + a ^ 2 / κ * Real.arcsin (κ / a) := by
  have hder : ∀ θ ∈ Set.uIcc (0:ℝ) Real.pi,
      HasDerivAt (fun θ => - Gpro a κ (Real.cos θ)) (Real.sin θ * Real.sqrt (a ^ 2 + -(κ ^ 2) * Real.cos θ ^ 2)) θ := by
    intro θ _
    have := ((hasDerivAt_Gpro a κ (Real.cos θ) ha hκ hκa (Real.abs_cos_le_one θ)).comp θ (Real.hasDerivAt_cos θ)).neg
    refine this.congr_deriv ?_
    ring
  rw [integral_eq_sub_of_hasDerivAt hder (Continuous.intervalIntegrable (by fun_prop) _ _)]
  simp only [Gpro, Real.cos_pi, Real.cos_zero]
  have e1 : κ * (-1) / a = -(κ / a) := by ring
  rw [e1, Real.arcsin_neg]
  have e2 : κ * 1 / a = κ / a := by ring
  rw [e2]
  have e3 : a ^ 2 + -(κ ^ 2) * (-1) ^ 2 = a ^ 2 - κ ^ 2 := by ring
  have e4 : a ^ 2 + -(κ ^ 2) * 1 ^ 2 = a ^ 2 - κ ^ 2 := by ring
  rw [e3, e4]
  field_simp; ring

end C10
