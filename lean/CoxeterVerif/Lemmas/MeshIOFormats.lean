import CoxeterVerif.Lemmas.MeshIO
/-!
  Helper lemmas of C20, part 2: OFF, PLY, VTK (`rstrip("\n")`), STL (nested loops, tab indentation) —
  for each format `toFmt … = render (fmtLines …)` (the Python string assembly is the rendering of a list of
  token lines) and the token-level reader recovers the mesh; fan-triangulation facts.
-/
set_option linter.unusedSimpArgs false
namespace MeshIO

/-! ## shared body of OFF / PLY / VTK -/

theorem face_line_eq {f : List Nat} (hne : f ≠ []) :
    dec f.length ++ cs!" " ++ join cs!" " (f.map dec) = spaced (ftoks f) := by
  have : f.map dec ≠ [] := by simpa using hne
  simp [spaced, ftoks, join_cons_ne _ _ this]

theorem body_eq (m : Mesh) (hne : ∀ f ∈ m.faces, f ≠ []) :
    (m.verts.map fun v => coordsOf v ++ cs!"\n").flatten
      ++ (m.faces.map fun f => dec f.length ++ cs!" " ++ join cs!" " (f.map dec) ++ cs!"\n").flatten
    = unl ((m.verts.map vtoks ++ m.faces.map ftoks).map spaced) := by
  have hf : (m.faces.map fun f => dec f.length ++ cs!" " ++ join cs!" " (f.map dec) ++ cs!"\n")
      = m.faces.map ((fun x => x ++ cs!"\n") ∘ spaced ∘ ftoks) := by
    apply List.map_congr_left
    intro f hf
    simp [face_line_eq (hne f hf)]
  rw [hf]
  simp [unl, spaced, join, coordsOf, vtoks, Function.comp_def, List.append_assoc]

theorem wf_body {m : Mesh} (h : m.WF) : ∀ l ∈ m.verts.map vtoks ++ m.faces.map ftoks, ∀ t ∈ l, WFTok t := by
  simp (config := {decide := true}) only [vtoks, ftoks, List.forall_mem_append, List.forall_mem_cons,
    List.forall_mem_map, List.not_mem_nil, implies_true, and_true, true_and, wf_dec]
  exact h.toks

theorem stripComment_wf {l : List Tok} (h : ∀ t ∈ l, t.head? ≠ some '#') : stripComment l = l := by
  unfold stripComment
  induction l with
  | nil => rfl
  | cons a l ih =>
    have ha : (a.head? != some '#') = true := by simpa using h a (by simp)
    rw [List.takeWhile_cons, if_pos ha, ih fun t ht => h t (by simp [ht])]

theorem head_dec_ne (n : Nat) : (dec n).head? ≠ some '#' := by
  cases h : dec n with
  | nil => simp
  | cons c r =>
    have := head_dec_isDigit h
    intro h'
    simp at h'
    subst h'
    simp [Char.isDigit] at this

theorem stripComment_body {m : Mesh} (h : m.WF) :
    ((m.verts.map vtoks ++ m.faces.map ftoks).map stripComment).flatten
      = m.verts.flatMap vtoks ++ m.faces.flatMap ftoks := by
  have : (m.verts.map vtoks ++ m.faces.map ftoks).map stripComment = m.verts.map vtoks ++ m.faces.map ftoks := by
    rw [List.map_congr_left (g := id)]
    · simp
    · intro l hl
      apply stripComment_wf
      rcases List.mem_append.mp hl with hl | hl
      · obtain ⟨v, hv, rfl⟩ := List.mem_map.mp hl
        exact fun t ht => (wf_vtoks h hv t ht).2
      · obtain ⟨f, _, rfl⟩ := List.mem_map.mp hl
        intro t ht
        simp only [ftoks, List.mem_cons, List.mem_map] at ht
        rcases ht with rfl | ⟨i, _, rfl⟩ <;> exact head_dec_ne _
  rw [this]
  simp [List.flatMap_def]

/-! ## OFF -/

def offLines (ver cls : Str) (m : Mesh) : List (List Tok) :=
  [[cs!"OFF"],
   [cs!"#", cs!"OFF", cs!"file", cs!"written", cs!"by", cs!"Coxeter", cs!"version", ver],
   [cs!"#", cls],
   [dec m.verts.length, 'f' :: dec m.faces.length, dec (edgePairs m.faces).length]]
  ++ (m.verts.map vtoks ++ m.faces.map ftoks)

theorem toOff_eq (ver cls : Str) (m : Mesh) (hne : ∀ f ∈ m.faces, f ≠ []) :
    toOff ver cls m = render (offLines ver cls m) := by
  unfold toOff render
  simp only [foldl_append_eq, List.nil_append]
  rw [← dropLast_unl (by simp [offLines])]
  congr 1
  rw [List.append_assoc _ (List.flatten _), body_eq m hne]
  simp [offLines, unl_append, unl, spaced, join, List.append_assoc]

theorem wf_offLines {ver cls : Str} {m : Mesh} (hv : WFTok ver) (hc : WFTok cls) (h : m.WF) :
    ∀ l ∈ offLines ver cls m, ∀ t ∈ l, WFTok t := by
  have hb := wf_body h
  have hf : WFTok ('f' :: dec m.faces.length) :=
    WFTok.mk (by simp) (fun c hc => by
      rcases List.mem_cons.mp hc with rfl | hc
      · decide
      · exact (wf_dec _).free c hc)
  have hh : ∀ l ∈ [[cs!"OFF"],
      [cs!"#", cs!"OFF", cs!"file", cs!"written", cs!"by", cs!"Coxeter", cs!"version", ver],
      [cs!"#", cls],
      [dec m.verts.length, 'f' :: dec m.faces.length, dec (edgePairs m.faces).length]], ∀ t ∈ l, WFTok t := by
    simp (config := {decide := true}) only [List.forall_mem_cons, List.not_mem_nil, implies_true, and_true,
      true_and, wf_dec, hv, hc, hf]
  intro l hl
  rcases List.mem_append.mp hl with hl | hl
  · exact hh l hl
  · exact hb l hl

theorem off_stream {ver cls : Str} {m : Mesh} (hv : WFTok ver) (hc : WFTok cls) (h : m.WF) :
    ((tokenize (toOff ver cls m)).map stripComment).flatten
      = cs!"OFF" :: dec m.verts.length :: ('f' :: dec m.faces.length) :: dec (edgePairs m.faces).length
        :: (m.verts.flatMap vtoks ++ m.faces.flatMap ftoks) := by
  rw [toOff_eq _ _ _ h.ne_nil, tokenize_render (by simp [offLines]) (wf_offLines hv hc h)]
  unfold offLines
  rw [List.map_append, List.flatten_append, stripComment_body h]
  have h1 := stripComment_wf (l := [dec m.verts.length, 'f' :: dec m.faces.length, dec (edgePairs m.faces).length])
    (by
      intro t ht
      simp only [List.mem_cons, List.not_mem_nil, or_false] at ht
      rcases ht with rfl | rfl | rfl
      · exact head_dec_ne _
      · simp
      · exact head_dec_ne _)
  have h0 : stripComment [cs!"OFF"] = [cs!"OFF"] := by decide
  have h2 : ∀ r : List Tok, stripComment (cs!"#" :: r) = [] := fun r => by simp [stripComment]
  simp only [List.map_cons, List.map_nil, List.flatten_cons, List.flatten_nil, h0, h1, h2, List.nil_append,
    List.append_nil, List.cons_append]


theorem wf_append {A B : List (List Tok)} (hA : ∀ l ∈ A, ∀ t ∈ l, WFTok t) (hB : ∀ l ∈ B, ∀ t ∈ l, WFTok t) :
    ∀ l ∈ A ++ B, ∀ t ∈ l, WFTok t := by
  intro l hl
  rcases List.mem_append.mp hl with hl | hl
  · exact hA l hl
  · exact hB l hl

theorem readBody_flat' (m : Mesh) (hr : inRange m = true) :
    readBody m.verts.length m.faces.length ((m.verts.map vtoks).flatten ++ (m.faces.map ftoks).flatten) = some m := by
  simpa [List.flatMap_def] using readBody_flat m hr

/-! ## PLY -/

def plyHdr (ver cls a b : Str) : List (List Tok) :=
  [[cs!"ply"], [cs!"format", cs!"ascii", cs!"1.0"],
   [cs!"comment", cs!"PLY", cs!"file", cs!"written", cs!"by", cs!"Coxeter", cs!"version", ver],
   [cs!"comment", cls],
   [cs!"element", cs!"vertex", a],
   [cs!"property", cs!"float", cs!"x"], [cs!"property", cs!"float", cs!"y"], [cs!"property", cs!"float", cs!"z"],
   [cs!"element", cs!"face", b],
   [cs!"property", cs!"list", cs!"uchar", cs!"uint", cs!"vertex_indices"],
   [cs!"end_header"]]

def plyLines (ver cls : Str) (m : Mesh) : List (List Tok) :=
  plyHdr ver cls (dec m.verts.length) (dec m.faces.length) ++ (m.verts.map vtoks ++ m.faces.map ftoks)

set_option maxRecDepth 8000 in
theorem ply_hdr (ver cls a b : Str) :
   (cs!"ply\nformat ascii 1.0\n"
     ++ cs!"comment PLY file written by Coxeter version " ++ ver ++ cs!"\n"
     ++ cs!"comment " ++ cls ++ cs!"\n"
     ++ cs!"element vertex " ++ a ++ cs!"\n"
     ++ cs!"property float x\nproperty float y\nproperty float z\n"
     ++ cs!"element face " ++ b ++ cs!"\n"
     ++ cs!"property list uchar uint vertex_indices\n"
     ++ cs!"end_header\n") = unl ((plyHdr ver cls a b).map spaced) := by
  simp only [plyHdr, List.map, unl_cons, unl_nil, spaced, join]
  simp only [List.append_assoc, List.cons_append, List.nil_append, List.append_nil]

theorem toPly_eq (ver cls : Str) (m : Mesh) (hne : ∀ f ∈ m.faces, f ≠ []) :
    toPly ver cls m = render (plyLines ver cls m) := by
  unfold toPly render
  simp only [foldl_append_eq, List.nil_append]
  rw [← dropLast_unl (by simp [plyLines, plyHdr])]
  refine congrArg List.dropLast ?_
  rw [List.append_assoc _ (List.flatten _), body_eq m hne, ply_hdr]
  simp only [plyLines, List.map_append, unl_append]

theorem wf_plyLines {ver cls : Str} {m : Mesh} (hv : WFTok ver) (hc : WFTok cls) (h : m.WF) :
    ∀ l ∈ plyLines ver cls m, ∀ t ∈ l, WFTok t := by
  refine wf_append ?_ (wf_body h)
  simp (config := {decide := true}) only [plyHdr, List.forall_mem_cons, List.not_mem_nil, implies_true, and_true,
    true_and, wf_dec, hv, hc]

theorem flatten_body (m : Mesh) :
    (m.verts.map vtoks ++ m.faces.map ftoks).flatten = m.verts.flatMap vtoks ++ m.faces.flatMap ftoks := by
  simp [List.flatMap_def]

theorem readPly_toPly {ver cls : Str} {m : Mesh} (hv : WFTok ver) (hc : WFTok cls) (h : m.WF) :
    readPly (toPly ver cls m) = some m := by
  unfold readPly
  rw [toPly_eq _ _ _ h.ne_nil, tokenize_render (by simp [plyLines, plyHdr]) (wf_plyLines hv hc h)]
  simp [plyLines, plyHdr, plyHeader, parseNat_dec, plyVertexProps, plyFaceProps, plyScalar, readBody_flat' m h.inRange]


/-! ## VTK -/

/-- ends in a character that is not a newline -/
def EndsOK (s : Str) : Prop := ∃ init c, s = init ++ [c] ∧ isNL c = false

theorem EndsOK.append (a : Str) {b : Str} (h : EndsOK b) : EndsOK (a ++ b) := by
  obtain ⟨i, c, rfl, hc⟩ := h
  exact ⟨a ++ i, c, by simp, hc⟩

theorem endsOK_of_free {s : Str} (hne : s ≠ []) (h : Free isNL s) : EndsOK s := by
  obtain ⟨c, hc⟩ := Option.isSome_iff_exists.mp (by simpa using hne : (s.getLast?).isSome)
  obtain ⟨i, rfl⟩ := List.getLast?_eq_some_iff.mp hc
  exact ⟨i, c, rfl, h c (by simp)⟩

theorem endsOK_join {sep : Str} : ∀ {ls : List Str}, (∀ l, ls.getLast? = some l → EndsOK l) → ls ≠ [] →
    EndsOK (join sep ls) := by
  intro ls
  induction ls with
  | nil => intro _ h; exact absurd rfl h
  | cons a l ih =>
    intro h _
    cases l with
    | nil => simpa [join] using h a (by simp)
    | cons b r =>
      rw [join_cons_cons]
      exact EndsOK.append _ (ih (fun l hl => h l (by simpa using hl)) (by simp))

theorem unl_eq_join : ∀ {ls : List Str}, ls ≠ [] → unl ls = join cs!"\n" ls ++ cs!"\n" := by
  intro ls
  induction ls with
  | nil => intro h; exact absurd rfl h
  | cons a l ih =>
    intro _
    cases l with
    | nil => simp [join]
    | cons b r => rw [unl_cons, join_cons_cons, ih (by simp)]; simp

theorem rstripNL_unl {ls : List Str} (hne : ls ≠ []) (h : ∀ l, ls.getLast? = some l → EndsOK l) :
    rstripNL (unl ls) = join cs!"\n" ls := by
  obtain ⟨i, c, hj, hc⟩ := endsOK_join (sep := cs!"\n") h hne
  rw [unl_eq_join hne, hj]
  have hc' : (c == '\n') = false := by simpa [isNL] using hc
  simp [rstripNL, List.dropWhile, hc']


theorem endsOK_line {l : List Tok} (hne : l ≠ []) (h : ∀ t ∈ l, WFTok t) : EndsOK (spaced l) :=
  endsOK_join (fun t ht => endsOK_of_free (h t (List.mem_of_getLast? ht)).ne_nil
    (h t (List.mem_of_getLast? ht)).nl) hne

theorem rstripNL_render {L : List (List Tok)} (hne : L ≠ []) (hwf : ∀ l ∈ L, ∀ t ∈ l, WFTok t)
    (hl : ∀ l ∈ L, l ≠ []) : rstripNL (unl (L.map spaced)) = render L := by
  unfold render
  apply rstripNL_unl (by simpa using hne)
  intro s hs
  rw [List.getLast?_map] at hs
  obtain ⟨l, hl', rfl⟩ := Option.map_eq_some_iff.mp hs
  have := List.mem_of_getLast? hl'
  exact endsOK_line (hl l this) (hwf l this)

theorem verts_eq (vs : List V3T) :
    (vs.map fun v => v.1 ++ cs!" " ++ v.2.1 ++ cs!" " ++ v.2.2 ++ cs!"\n").flatten
      = unl ((vs.map vtoks).map spaced) := by
  simp [unl, spaced, join, vtoks, Function.comp_def, List.append_assoc]

theorem faces_eq {fs : List (List Nat)} (hne : ∀ f ∈ fs, f ≠ []) :
    (fs.map fun f => dec f.length ++ cs!" " ++ join cs!" " (f.map dec) ++ cs!"\n").flatten
      = unl ((fs.map ftoks).map spaced) := by
  have hf : (fs.map fun f => dec f.length ++ cs!" " ++ join cs!" " (f.map dec) ++ cs!"\n")
      = fs.map ((fun x => x ++ cs!"\n") ∘ spaced ∘ ftoks) := by
    apply List.map_congr_left
    intro f hf
    simp [face_line_eq (hne f hf)]
  rw [hf]
  simp [unl, Function.comp_def]

def vtkHdr (ver cls a : Str) : List (List Tok) :=
  [[cs!"#", cs!"vtk", cs!"DataFile", cs!"Version", cs!"3.0"],
   [cls, cs!"created", cs!"by", cs!"Coxeter", cs!"version", ver],
   [cs!"ASCII"], [cs!"DATASET", cs!"POLYDATA"], [cs!"POINTS", a, cs!"float"]]

def vtkLines (ver cls : Str) (m : Mesh) : List (List Tok) :=
  vtkHdr ver cls (dec m.verts.length) ++ (m.verts.map vtoks ++
    ([cs!"POLYGONS", dec m.faces.length, dec (m.faces.length + sumLen m.faces)] :: m.faces.map ftoks))

set_option maxRecDepth 8000 in
theorem vtk_hdr (ver cls a : Str) :
    (cs!"# vtk DataFile Version 3.0\n" ++ cls ++ cs!" created by " ++ cs!"Coxeter version " ++ ver ++ cs!"\n"
       ++ cs!"ASCII\n") ++ (cs!"DATASET POLYDATA\n" ++ cs!"POINTS " ++ a ++ cs!" float\n")
    = unl ((vtkHdr ver cls a).map spaced) := by
  simp only [vtkHdr, List.map, unl_cons, unl_nil, spaced, join]
  simp only [List.append_assoc, List.cons_append, List.nil_append, List.append_nil]

theorem vtk_poly (a b : Str) :
    cs!"POLYGONS " ++ a ++ cs!" " ++ b ++ cs!"\n" = unl ([[cs!"POLYGONS", a, b]].map spaced) := by
  simp only [List.map, unl_cons, unl_nil, spaced, join]
  simp only [List.append_assoc, List.cons_append, List.nil_append, List.append_nil]

theorem wf_vtkLines {ver cls : Str} {m : Mesh} (hv : WFTok ver) (hc : WFTok cls) (h : m.WF) :
    ∀ l ∈ vtkLines ver cls m, ∀ t ∈ l, WFTok t := by
  refine wf_append ?_ ?_
  · simp (config := {decide := true}) only [vtkHdr, List.forall_mem_cons, List.not_mem_nil, implies_true,
      and_true, true_and, wf_dec, hv, hc]
  · have hb := wf_body h
    intro l hl
    rcases List.mem_append.mp hl with hl | hl
    · exact hb l (List.mem_append_left _ hl)
    · rcases List.mem_cons.mp hl with rfl | hl
      · simp (config := {decide := true}) only [List.forall_mem_cons, List.not_mem_nil, implies_true,
          and_true, true_and, wf_dec]
      · exact hb l (List.mem_append_right _ hl)

theorem vtkLines_ne {ver cls : Str} {m : Mesh} : ∀ l ∈ vtkLines ver cls m, l ≠ [] := by
  simp only [vtkLines, vtkHdr, vtoks, ftoks, List.forall_mem_append, List.forall_mem_cons, List.forall_mem_map,
    List.not_mem_nil]
  simp

theorem toVtk_eq {ver cls : Str} {m : Mesh} (hv : WFTok ver) (hc : WFTok cls) (h : m.WF) :
    toVtk ver cls m = render (vtkLines ver cls m) := by
  rw [← rstripNL_render (by simp [vtkLines, vtkHdr]) (wf_vtkLines hv hc h) vtkLines_ne]
  unfold toVtk
  simp only [foldl_append_eq, List.nil_append]
  refine congrArg rstripNL ?_
  rw [vtk_hdr, verts_eq, faces_eq h.ne_nil, vtk_poly]
  simp only [vtkLines, List.map_append, unl_append, List.map_cons, List.map_nil, unl_cons, unl_nil,
    List.append_assoc, List.cons_append, List.nil_append, List.append_nil, sumLen]

theorem readVtk_toVtk {ver cls : Str} {m : Mesh} (hv : WFTok ver) (hc : WFTok cls) (h : m.WF) :
    readVtk (toVtk ver cls m) = some m := by
  unfold readVtk
  rw [toVtk_eq hv hc h, tokenize_render (by simp [vtkLines, vtkHdr]) (wf_vtkLines hv hc h)]
  have hF := takeFaces_flat m.faces []
  simp only [List.append_nil] at hF
  simp [vtkLines, vtkHdr, readVtkBody, vtkTypes, parseNat_dec, List.flatMap_def.symm, takeVerts_flat, hF,
    checked, h.inRange]

/-! ## STL -/

def ttoks (k : Tok) (v : V3T) : List Tok := [k, v.1, v.2.1, v.2.2]

def facetLines (n a b c : V3T) : List (Nat × List Tok) :=
  [(0, [cs!"facet", cs!"normal", n.1, n.2.1, n.2.2]), (1, [cs!"outer", cs!"loop"]),
   (2, ttoks cs!"vertex" a), (2, ttoks cs!"vertex" b), (2, ttoks cs!"vertex" c),
   (1, [cs!"endloop"]), (0, [cs!"endfacet"])]

/-- corner tokens of the fan triangles, face after face -/
def stlTris (m : Mesh) : List (V3T × V3T × V3T) :=
  m.faces.flatMap fun f => (fan f).map fun t => (vat m t.1, vat m t.2.1, vat m t.2.2)

def stlLines (cls : Str) (nrm : V3T → V3T → V3T → V3T) (m : Mesh) : List (Nat × List Tok) :=
  ((0, [cs!"solid", cls]) :: (stlTris m).flatMap fun t => facetLines (nrm t.1 t.2.1 t.2.2) t.1 t.2.1 t.2.2)
  ++ [(0, [cs!"endsolid", cls])]

theorem unl_append_last : ∀ (A : List Str) (l : Str), unl A ++ l = join cs!"\n" (A ++ [l]) := by
  intro A l
  induction A with
  | nil => simp [join]
  | cons a A ih =>
    rw [unl_cons, List.cons_append, join_cons_ne _ _ (by simp), ← ih]
    simp

set_option maxRecDepth 8000 in
theorem stlTriangle_eq (nrm : V3T → V3T → V3T → V3T) (a b c : V3T) :
    stlTriangle nrm a b c = unl ((facetLines (nrm a b c) a b c).map lineI) := by
  simp only [stlTriangle, facetLines, ttoks, List.foldl, List.map, lineI, unl_cons, unl_nil, spaced, join,
    List.replicate]
  simp only [List.append_assoc, List.cons_append, List.nil_append, List.append_nil]

theorem foldl_foldl_append {α β} (tris : α → List β) (g : β → Str) (fs : List α) (c0 : Str) :
    fs.foldl (fun file f => (tris f).foldl (fun file t => file ++ g t) file) c0
      = c0 ++ ((fs.flatMap tris).map g).flatten := by
  have h1 : (fun (file : Str) f => (tris f).foldl (fun file t => file ++ g t) file)
      = fun file f => file ++ ((tris f).map g).flatten := by
    funext file f; exact foldl_append_eq g (tris f) file
  rw [h1, foldl_append_eq]
  congr 1
  induction fs with
  | nil => simp
  | cons f fs ih => simp [ih]

theorem toStl_eq (cls : Str) (nrm : V3T → V3T → V3T → V3T) (m : Mesh) :
    toStl cls nrm m = renderI (stlLines cls nrm m) := by
  unfold toStl renderI stlLines
  simp only [List.nil_append]
  simp only [List.map_append, List.map_cons, List.map_nil]
  rw [← unl_append_last]
  have := foldl_foldl_append (fun f => (fan f).map fun t => (vat m t.1, vat m t.2.1, vat m t.2.2))
    (fun t => stlTriangle nrm t.1 t.2.1 t.2.2) m.faces (cs!"solid " ++ cls ++ cs!"\n")
  rw [this]
  have h2 : ∀ l : List (V3T × V3T × V3T),
      (l.map fun t => stlTriangle nrm t.1 t.2.1 t.2.2).flatten
        = unl ((l.flatMap fun t => facetLines (nrm t.1 t.2.1 t.2.2) t.1 t.2.1 t.2.2).map lineI) := by
    intro l
    induction l with
    | nil => simp
    | cons t l ih =>
      rw [List.map_cons, List.flatten_cons, ih, List.flatMap_cons, List.map_append, unl_append, stlTriangle_eq]
  rw [h2]
  simp [stlTris, unl, lineI, spaced, join, List.append_assoc]


theorem filter_nonempty_id' {ws : List (List Tok)} (h : ∀ w ∈ ws, w ≠ []) :
    ws.filter (fun w => !w.isEmpty) = ws := by
  rw [List.filter_eq_self]
  intro w hw
  have := h w hw
  cases w <;> simp_all

theorem fan_mem {f : List Nat} {t : Nat × Nat × Nat} (h : t ∈ fan f) : t.1 ∈ f ∧ t.2.1 ∈ f ∧ t.2.2 ∈ f := by
  cases f with
  | nil => simp [fan] at h
  | cons a rest =>
    simp only [fan, List.mem_map] at h
    obtain ⟨bc, hbc, rfl⟩ := h
    have h1 := (List.of_mem_zip hbc).1
    have h2 := List.mem_of_mem_drop (List.of_mem_zip hbc).2
    exact ⟨by simp, by simp [h1], by simp [h2]⟩

theorem vat_mem {m : Mesh} {i : Nat} (h : i < m.verts.length) : vat m i ∈ m.verts := by
  simp [vat, List.getElem?_eq_getElem h]

theorem stlTris_mem {m : Mesh} (h : m.WF) {t : V3T × V3T × V3T} (ht : t ∈ stlTris m) :
    t.1 ∈ m.verts ∧ t.2.1 ∈ m.verts ∧ t.2.2 ∈ m.verts := by
  simp only [stlTris, List.mem_flatMap, List.mem_map] at ht
  obtain ⟨f, hf, t', ht', rfl⟩ := ht
  have := fan_mem ht'
  exact ⟨vat_mem (h.range f hf _ this.1), vat_mem (h.range f hf _ this.2.1), vat_mem (h.range f hf _ this.2.2)⟩

/-- the printed normal is a well-formed triple of tokens -/
def WFNrm (nrm : V3T → V3T → V3T → V3T) : Prop :=
  ∀ a b c, WFTok (nrm a b c).1 ∧ WFTok (nrm a b c).2.1 ∧ WFTok (nrm a b c).2.2

theorem wf_stlLines {cls : Str} {nrm : V3T → V3T → V3T → V3T} {m : Mesh} (hc : WFTok cls) (hn : WFNrm nrm)
    (h : m.WF) : ∀ l ∈ stlLines cls nrm m, ∀ t ∈ l.2, WFTok t := by
  unfold stlLines
  simp (config := {decide := true}) only [facetLines, ttoks, List.forall_mem_append, List.forall_mem_cons,
    List.forall_mem_flatMap, List.not_mem_nil, implies_true, and_true, true_and, hc]
  intro t ht
  have hm := stlTris_mem h ht
  have h1 := h.toks _ hm.1
  have h2 := h.toks _ hm.2.1
  have h3 := h.toks _ hm.2.2
  have h0 := hn t.1 t.2.1 t.2.2
  simp [h0.1, h0.2.1, h0.2.2, h1.1, h1.2.1, h1.2.2, h2.1, h2.2.1, h2.2.2, h3.1, h3.2.1, h3.2.2]

def facetOf (nrm : V3T → V3T → V3T → V3T) (t : V3T × V3T × V3T) : Facet :=
  (nrm t.1 t.2.1 t.2.2, t.1, t.2.1, t.2.2)

def facetToks (n a b c : V3T) : List (List Tok) := (facetLines n a b c).map (·.2)

theorem stlFacets_cons (n a b c : V3T) (rest : List (List Tok)) :
    stlFacets (facetToks n a b c ++ rest) = (stlFacets rest).map ((n, a, b, c) :: ·) := by
  simp only [facetToks, facetLines, List.map_cons, List.map_nil, List.cons_append, List.nil_append, stlFacets]
  simp [stlFacet, stlVertex, ttoks]

theorem stlFacets_lines (cls : Str) (nrm : V3T → V3T → V3T → V3T) (ts : List (V3T × V3T × V3T)) :
    stlFacets ((ts.flatMap fun t => facetToks (nrm t.1 t.2.1 t.2.2) t.1 t.2.1 t.2.2)
      ++ [[cs!"endsolid", cls]]) = some (ts.map (facetOf nrm)) := by
  induction ts with
  | nil => simp [stlFacets]
  | cons t ts ih =>
    rw [List.flatMap_cons, List.append_assoc, stlFacets_cons, ih]
    simp [facetOf]

theorem readStl_toStl {cls : Str} {nrm : V3T → V3T → V3T → V3T} {m : Mesh} (hc : WFTok cls) (hn : WFNrm nrm)
    (h : m.WF) : readStl (toStl cls nrm m) = some ((stlTris m).map (facetOf nrm)) := by
  unfold readStl
  rw [toStl_eq, tokenize_renderI (by simp [stlLines]) (wf_stlLines hc hn h)]
  have hne : ∀ l ∈ (stlLines cls nrm m).map (·.2), l ≠ [] := by
    simp only [stlLines, facetLines, ttoks, List.map_append, List.map_cons, List.map_nil, List.map_flatMap,
      List.forall_mem_append, List.forall_mem_cons, List.forall_mem_flatMap, List.not_mem_nil]
    simp
  rw [filter_nonempty_id' hne]
  have := stlFacets_lines cls nrm (stlTris m)
  simp only [stlLines, List.map_append, List.map_cons, List.map_nil, List.cons_append, List.map_flatMap]
  simpa [facetToks] using this


/-! fan triangulation -/

theorem fan_length (f : List Nat) : (fan f).length = f.length - 2 := by
  cases f with
  | nil => rfl
  | cons a rest => simp [fan]

theorem fan_getElem? (f : List Nat) (i : Nat) (h : i + 2 < f.length) :
    (fan f)[i]? = some (f[0]!, f[i + 1]!, f[i + 2]!) := by
  cases f with
  | nil => simp at h
  | cons a rest =>
    have h1 : i + 1 < rest.length := by simp at h; omega
    have h2 : i < rest.length := by omega
    simp [fan, List.getElem?_zip_eq_some, h1, h2, List.getElem?_eq_getElem]

theorem fan_unfan (f : List Nat) (h : 3 ≤ f.length) : f.take 2 ++ (fan f).map (·.2.2) = f := by
  match f, h with
  | a :: b :: rest, _ =>
    simp only [fan, List.map_map, List.drop_one, List.tail_cons, List.take]
    have : ((b :: rest).zip rest).map ((fun t : Nat × Nat × Nat => t.2.2) ∘ fun bc => (a, bc.1, bc.2)) = rest := by
      have : ((fun t : Nat × Nat × Nat => t.2.2) ∘ fun (bc : Nat × Nat) => (a, bc.1, bc.2)) = Prod.snd := rfl
      rw [this, List.map_snd_zip]
      simp
    simp [this]

end MeshIO
