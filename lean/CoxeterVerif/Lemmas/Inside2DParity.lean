import CoxeterVerif.Lemmas.Inside2DBoundary
/-!
  C06 — the winding number of `Polygon.is_inside` and the even–odd (crossing number) rule agree
  modulo 2, for EVERY closed polygon and every point off its closed edges (no triangulation, no
  simplicity): per edge, `ht − 2·[crosses the upward ray]` is an exact integer 1-form modulo 4.
-/
open Inside2D Inside2D.Polygon Spec.In2D Scalar
set_option maxRecDepth 4000
noncomputable section
namespace Inside2D

theorem rightOfRay_iff (p v : P2 ℝ) : rightOfRay p v = true ↔ inR (rel v p) := by
  unfold rightOfRay inR rel
  rw [eqb_real]
  simp only [Bool.or_eq_true, Bool.and_eq_true, decide_eq_true_eq]
  constructor
  · rintro (h | ⟨h1, h2⟩)
    · left; linarith
    · right; exact ⟨by linarith, by linarith⟩
  · rintro (h | ⟨h1, h2⟩)
    · left; linarith
    · right; exact ⟨by linarith, by linarith⟩

/-- potential of `ht − 2χ` modulo 4 -/
def parPot (u : P2 ℝ) : Int := if cls u = -1 then -1 else 0

def chi (p : P2 ℝ) (e : Edge2) : Int := if crossesUp p e.1 e.2 then 1 else 0

theorem not_inR_of_inL {u : P2 ℝ} (h : inL u) : ¬ inR u := by
  intro h'
  rcases h with h | ⟨h1, h2⟩ <;> rcases h' with h' | ⟨h3, h4⟩ <;> linarith

/-- per edge off the point: `ht − 2χ = g(b) − g(a) + 4k` -/
theorem ht_chi_mod4 {p a b : P2 ℝ} (h : OffSeg (rel a p) (rel b p)) :
    ∃ k : Int, halfTurn p a b - 2 * chi p (a, b) = parPot (rel b p) - parPot (rel a p) + 4 * k := by
  rw [halfTurn_eq_ht]
  unfold chi crossesUp
  simp only
  have hcr : orient a b p = crossR (rel a p) (rel b p) := orient_eq_crossR a b p
  rcases inR_or_inL_of_cls_ne_zero h.cls_ne_zero with ⟨ru, eu⟩ | ⟨ru, eu⟩ <;>
  rcases inR_or_inL_of_cls_ne_zero h.symm.cls_ne_zero with ⟨rv, ev⟩ | ⟨rv, ev⟩
  · -- R R
    have r1 : rightOfRay p a = true := (rightOfRay_iff p a).mpr ru
    have r2 : rightOfRay p b = true := (rightOfRay_iff p b).mpr rv
    refine ⟨0, ?_⟩
    unfold ht parPot; rw [eu, ev, crossing_self, r1, r2]; simp
  · -- R L
    have r1 : rightOfRay p a = true := (rightOfRay_iff p a).mpr ru
    have r2 : rightOfRay p b = false := by
      rw [Bool.eq_false_iff]; intro hh; exact not_inR_of_inL rv ((rightOfRay_iff p b).mp hh)
    have hc := h.cross_ne (by rw [eu, ev]; decide)
    unfold ht parPot; rw [eu, ev, crossing_pm, r1, r2, hcr]
    rcases lt_or_gt_of_ne hc with n | q
    · refine ⟨0, ?_⟩
      rw [sgn_of_neg n]
      have : ¬ (0 < crossR (rel a p) (rel b p)) := by linarith
      simp [Scalar.lit, this]
    · refine ⟨0, ?_⟩
      rw [sgn_of_pos q]
      simp [Scalar.lit, q]
  · -- L R
    have r1 : rightOfRay p a = false := by
      rw [Bool.eq_false_iff]; intro hh; exact not_inR_of_inL ru ((rightOfRay_iff p a).mp hh)
    have r2 : rightOfRay p b = true := (rightOfRay_iff p b).mpr rv
    have hc := h.cross_ne (by rw [eu, ev]; decide)
    unfold ht parPot; rw [eu, ev, crossing_mp, r1, r2, hcr]
    rcases lt_or_gt_of_ne hc with n | q
    · refine ⟨-1, ?_⟩
      rw [sgn_of_neg n]
      simp [Scalar.lit, n]
    · refine ⟨0, ?_⟩
      rw [sgn_of_pos q]
      have : ¬ (crossR (rel a p) (rel b p) < 0) := by linarith
      simp [Scalar.lit, this]
  · -- L L
    have r1 : rightOfRay p a = false := by
      rw [Bool.eq_false_iff]; intro hh; exact not_inR_of_inL ru ((rightOfRay_iff p a).mp hh)
    have r2 : rightOfRay p b = false := by
      rw [Bool.eq_false_iff]; intro hh; exact not_inR_of_inL rv ((rightOfRay_iff p b).mp hh)
    refine ⟨0, ?_⟩
    unfold ht parPot; rw [eu, ev, crossing_self, r1, r2]; simp

theorem esum_sub_mod4 {φ ψ : Edge2 → Int} (E : List Edge2)
    (h : ∀ e ∈ E, ∃ k : Int, φ e = ψ e + 4 * k) : ∃ k : Int, esum φ E = esum ψ E + 4 * k := by
  induction E with
  | nil => exact ⟨0, by simp⟩
  | cons e E ih =>
    obtain ⟨k1, h1⟩ := h e (List.mem_cons_self)
    obtain ⟨k2, h2⟩ := ih (fun e' he' => h e' (List.mem_cons_of_mem _ he'))
    exact ⟨k1 + k2, by simp only [esum_cons]; linarith⟩

theorem esum_chi (vs : List (P2 ℝ)) (p : P2 ℝ) : esum (chi p) (edges vs) = (crossNumber vs p : Int) := by
  unfold crossNumber esum chi
  induction edges vs with
  | nil => simp
  | cons e E ih =>
    simp only [List.map_cons, List.sum_cons, List.filter_cons]
    cases crossesUp p e.1 e.2
    · simpa using ih
    · simp only [if_true, List.length_cons, Nat.cast_add, Nat.cast_one]
      rw [ih]; ring

/-- **half-turn sum = 2 · crossing number modulo 4** (any closed polygon, point off the edges) -/
theorem halfTurnSum_crossNumber {vs : List (P2 ℝ)} {p : P2 ℝ}
    (hoff : ∀ e ∈ edges vs, onSegment e.1 e.2 p = false) :
    ∃ k : Int, halfTurnSum vs p = 2 * (crossNumber vs p : Int) + 4 * k := by
  have h := esum_sub_mod4 (φ := fun e : Edge2 => halfTurn p e.1 e.2 - 2 * chi p e)
    (ψ := fun e => parPot (rel e.2 p) - parPot (rel e.1 p)) (edges vs)
    (fun e he => ht_chi_mod4 ((onSegment_false_iff e.1 e.2 p).mp (hoff e he)))
  obtain ⟨k, hk⟩ := h
  rw [esum_edges_exact (fun v => parPot (rel v p))] at hk
  have e1 : esum (fun e : Edge2 => halfTurn p e.1 e.2 - 2 * chi p e) (edges vs) =
      halfTurnSum vs p - 2 * esum (chi p) (edges vs) := by
    unfold halfTurnSum esum
    induction edges vs with
    | nil => simp
    | cons e E ih => simp only [List.map_cons, List.sum_cons, ih]; ring
  rw [e1, esum_chi] at hk
  exact ⟨k, by linarith⟩


/-! ### `ℚ → ℝ` for the even–odd rule -/

open In2DCert

theorem rightOfRay_cast (p v : P2 ℚ) : rightOfRay (castP p) (castP v) = rightOfRay p v := by
  unfold rightOfRay
  show (decide (((p.x : ℚ) : ℝ) < ((v.x : ℚ) : ℝ)) || (decide (((v.x : ℚ) : ℝ) = ((p.x : ℚ) : ℝ)) &&
      decide (((p.y : ℚ) : ℝ) < ((v.y : ℚ) : ℝ)))) =
    (decide (p.x < v.x) || (decide (v.x = p.x) && decide (p.y < v.y)))
  simp

theorem crossesUp_cast (p a b : P2 ℚ) : crossesUp (castP p) (castP a) (castP b) = crossesUp p a b := by
  unfold crossesUp
  simp only [rightOfRay_cast, ← cast_orient, pos_cast, neg_cast]

theorem crossNumber_cast (vs : List (P2 ℚ)) (p : P2 ℚ) :
    crossNumber (vs.map castP) (castP p) = crossNumber vs p := by
  unfold crossNumber
  rw [edges_map, List.filter_map, List.length_map]
  congr 2
  funext e
  simp only [Function.comp, crossesUp_cast]

theorem evenOdd_cast (vs : List (P2 ℚ)) (p : P2 ℚ) : evenOdd (vs.map castP) (castP p) = evenOdd vs p := by
  unfold evenOdd; rw [crossNumber_cast]

end Inside2D
