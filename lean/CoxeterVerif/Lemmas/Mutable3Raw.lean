import CoxeterVerif.Lemmas.Mutable3Geom
/-!
  The invariant `PHGeom` from sqrt-free data: a polyhedron whose faces are planar polygons, all
  oriented like the cross product `_find_equations` takes at their first corner, whose area vectors
  sum to zero (closed surface) and whose divergence-theorem volume is positive, satisfies `PHGeom`
  once its equations have been computed by `_find_equations` (C03).
-/
open Scalar Mut
set_option maxRecDepth 4000
noncomputable section
namespace Mut

/-- `np.cross(v[f2] - v[f1], v[f0] - v[f1])`, the normal before normalisation -/
def rawN (vs : List (V3 ℝ)) (f : List Nat) : V3 ℝ :=
  V3.cross (vget vs (f.getD 2 0) - vget vs (f.getD 1 0)) (vget vs (f.getD 0 0) - vget vs (f.getD 1 0))

theorem faceEq_raw (vs : List (V3 ℝ)) (f : List Nat) :
    faceEq vs f = (V3.sdiv (rawN vs f) (V3.norm (rawN vs f)),
      -(V3.dot (V3.sdiv (rawN vs f) (V3.norm (rawN vs f))) (vget vs (f.getD 0 0)))) := rfl

theorem norm_pos_of {N : V3 ℝ} (h : 0 < V3.normSq N) : 0 < V3.norm N := by
  unfold V3.norm; simp only [Scalar.sqrt_real]; exact Real.sqrt_pos.mpr h

theorem norm_sdiv_self {N : V3 ℝ} (h : 0 < V3.normSq N) : V3.norm (V3.sdiv N (V3.norm N)) = 1 := by
  have hs := norm_pos_of h
  have hsq : V3.norm N * V3.norm N = V3.normSq N := by
    unfold V3.norm; simp only [Scalar.sqrt_real]; exact Real.mul_self_sqrt h.le
  have : V3.normSq (V3.sdiv N (V3.norm N)) = 1 := by
    have e : V3.normSq (V3.sdiv N (V3.norm N)) = V3.normSq N / (V3.norm N * V3.norm N) := by
      simp only [V3.normSq, V3.dot, V3.sdiv_x, V3.sdiv_y, V3.sdiv_z]; field_simp
    rw [e, hsq]; exact div_self h.ne'
  unfold V3.norm at this ⊢
  rw [this]; simp [Scalar.sqrt_real]

/-- a face from sqrt-free data: planar (every vertex in the plane through the first vertex that is
perpendicular to the raw normal), raw normal non-zero -/
theorem faceGeom_of_raw {vs : List (V3 ℝ)} {f : List Nat} (hlen : 3 ≤ f.length)
    (hrng : ∀ i ∈ f, i < vs.length) (hN : 0 < V3.normSq (rawN vs f))
    (hpl : ∀ i ∈ f, V3.dot (rawN vs f) (vget vs i - vget vs (f.getD 0 0)) = 0) : FaceGeom vs f := by
  refine ⟨hlen, hrng, ?_, ?_⟩
  · rw [faceEq_raw]; exact norm_sdiv_self hN
  · intro i hi
    rw [faceEq_raw]
    simp only [neg_neg, dot_sdiv]
    have := hpl i hi
    have hs := (norm_pos_of hN).ne'
    have e : V3.dot (rawN vs f) (vget vs i) = V3.dot (rawN vs f) (vget vs (f.getD 0 0)) := by
      simp only [V3.dot, V3.sub_x, V3.sub_y, V3.sub_z] at this ⊢; linarith
    rw [e]

/-- for a planar face oriented like its raw normal: `A_f n_f` is the area vector of the face cycle,
and `(−d_f) A_f = v0 · areaVector` -/
theorem face_terms {vs : List (V3 ℝ)} {f : List Nat} (h : FaceGeom vs f) (hN : 0 < V3.normSq (rawN vs f))
    (hor : 0 ≤ V3.dot (rawN vs f) (Spec3.areaVector (facePts vs f))) :
    V3.smul (facePolyArea vs f) (faceEq vs f).1 = Spec3.areaVector (facePts vs f) ∧
    -(faceEq vs f).2 * facePolyArea vs f = V3.dot (vget vs (f.getD 0 0)) (Spec3.areaVector (facePts vs f)) ∧
    facePolyArea vs f = V3.dot (rawN vs f) (Spec3.areaVector (facePts vs f)) / V3.norm (rawN vs f) := by
  have hs := norm_pos_of hN
  have hdot : V3.dot (faceEq vs f).1 (Spec3.areaVector (facePts vs f))
      = V3.dot (rawN vs f) (Spec3.areaVector (facePts vs f)) / V3.norm (rawN vs f) := by
    rw [faceEq_raw]; simp only [dot_sdiv]
  have hnn : 0 ≤ V3.dot (faceEq vs f).1 (Spec3.areaVector (facePts vs f)) := by
    rw [hdot]; exact div_nonneg hor hs.le
  have hA : facePolyArea vs f = V3.dot (faceEq vs f).1 (Spec3.areaVector (facePts vs f)) := by
    rw [h.area_eq, abs_of_nonneg hnn]
  have hpar := areaVector_parallel (faceEq vs f).1 (-(faceEq vs f).2) (facePts vs f) h.planar_pts
    (normSq_of_norm_one h.unit)
  refine ⟨?_, ?_, ?_⟩
  · rw [hA]; exact hpar.symm
  · rw [hA]
    have hd : -(faceEq vs f).2 = V3.dot (faceEq vs f).1 (vget vs (f.getD 0 0)) := by
      rw [faceEq_raw]; simp
    rw [hd]
    conv_rhs => rw [hpar]
    simp only [V3.dot, V3.smul_x, V3.smul_y, V3.smul_z]; ring
  · rw [hA, hdot]

/-- **a closed polyhedron with planar, consistently oriented faces and positive volume satisfies
the invariant `PHGeom`** (all hypotheses are polynomial in the coordinates) -/
theorem phGeom_of_raw (verts : List (V3 ℝ)) (faces : List (List Nat))
    (hlen : ∀ f ∈ faces, 3 ≤ f.length) (hrng : ∀ f ∈ faces, ∀ i ∈ f, i < verts.length)
    (hN : ∀ f ∈ faces, 0 < V3.normSq (rawN verts f))
    (hpl : ∀ f ∈ faces, ∀ i ∈ f, V3.dot (rawN verts f) (vget verts i - vget verts (f.getD 0 0)) = 0)
    (hor : ∀ f ∈ faces, 0 < V3.dot (rawN verts f) (Spec3.areaVector (facePts verts f)))
    (hcl : V3.sum (faces.map fun f => Spec3.areaVector (facePts verts f)) = V3.zero)
    (hvol : 0 < (faces.map fun f => V3.dot (vget verts (f.getD 0 0)) (Spec3.areaVector (facePts verts f))).sum) :
    PHGeom ⟨verts, faces, (PHState.findEquations verts faces).1, (PHState.findEquations verts faces).2⟩ := by
  have hcoh : (⟨verts, faces, (PHState.findEquations verts faces).1, (PHState.findEquations verts faces).2⟩ :
      PHState ℝ).Coherent := rfl
  have hF : ∀ f ∈ faces, FaceGeom verts f :=
    fun f hf => faceGeom_of_raw (hlen f hf) (hrng f hf) (hN f hf) (hpl f hf)
  have hT := fun f hf => face_terms (hF f hf) (hN f hf) (hor f hf).le
  refine ⟨hcoh, hF, ?_, ?_, ?_⟩
  · show V3.sum (faces.map fun f => V3.smul (facePolyArea verts f) (faceEq verts f).1) = V3.zero
    rw [List.map_congr_left fun f hf => (hT f hf).1]; exact hcl
  · rw [volume_eq hcoh]
    show 0 < (faces.map fun f => -(faceEq verts f).2 * facePolyArea verts f).sum / 3
    rw [List.map_congr_left fun f hf => (hT f hf).2.1]
    exact div_pos hvol (by norm_num)
  · rw [surfaceArea_eq]
    show 0 < (faces.map (facePolyArea verts)).sum
    have hne : faces ≠ [] := by
      rintro rfl; simp at hvol
    apply List.sum_pos
    · intro x hx
      obtain ⟨f, hf, rfl⟩ := List.mem_map.mp hx
      rw [(hT f hf).2.2]
      exact div_pos (hor f hf) (norm_pos_of (hN f hf))
    · simpa using hne

/-- **soundness of the certificate**: if `closedPolyCheck` accepts (vertices, faces), the object
`Polyhedron(vertices, faces)` satisfies the invariant `PHGeom` of `ph_coherent_history`. -/
theorem closedPolyCheck_sound (verts : List (V3 ℝ)) (faces : List (List Nat))
    (h : closedPolyCheck verts faces = true) :
    PHGeom ⟨verts, faces, (PHState.findEquations verts faces).1, (PHState.findEquations verts faces).2⟩ := by
  unfold closedPolyCheck at h
  simp only [Bool.and_eq_true, List.all_eq_true, decide_eq_true_eq, Scalar.lit, Scalar.ofNat_real,
    Scalar.sum_real, Nat.cast_zero] at h
  obtain ⟨⟨hf, ⟨hx, hy⟩, hz⟩, hvol⟩ := h
  have e0 : ∀ a : ℝ, Scalar.eqb a 0 = true → a = 0 := fun a ha => of_decide_eq_true ha
  refine phGeom_of_raw verts faces (fun f hf' => (hf f hf').1.1.1.1) (fun f hf' => (hf f hf').1.1.1.2)
    (fun f hf' => (hf f hf').1.1.2) (fun f hf' i hi => e0 _ ((hf f hf').1.2 i hi)) (fun f hf' => (hf f hf').2)
    ?_ hvol
  show V3.sum (faces.map (faceAreaVector verts)) = V3.zero
  ext
  · simpa [V3.zero, Scalar.lit] using e0 _ hx
  · simpa [V3.zero, Scalar.lit] using e0 _ hy
  · simpa [V3.zero, Scalar.lit] using e0 _ hz

/-! ### the global flip of `sort_faces` on planar convex faces of any size -/

theorem norm_smul_neg {lam : ℝ} (hl : 0 < lam) (N : V3 ℝ) : V3.norm (V3.smul (-lam) N) = lam * V3.norm N := by
  unfold V3.norm V3.normSq
  simp only [Scalar.sqrt_real, V3.dot, V3.smul_x, V3.smul_y, V3.smul_z]
  have : -lam * N.x * (-lam * N.x) + -lam * N.y * (-lam * N.y) + -lam * N.z * (-lam * N.z)
      = lam ^ 2 * (N.x * N.x + N.y * N.y + N.z * N.z) := by ring
  rw [this, Real.sqrt_mul (by positivity), Real.sqrt_sq hl.le]

/-- a face whose last corner is oriented like its first one (`N' = −λ N`, `λ > 0`: planar and
convex at both corners) and whose last vertex lies in the plane of the first three: the equation
`_find_equations` computes for the reversed face is the negated equation -/
theorem faceEq_reverse_of {vs : List (V3 ℝ)} {f : List Nat} {lam : ℝ} (hl : 0 < lam)
    (hN : rawN vs f.reverse = V3.smul (-lam) (rawN vs f))
    (hp : V3.dot (rawN vs f) (vget vs (f.reverse.getD 0 0) - vget vs (f.getD 0 0)) = 0) :
    faceEq vs f.reverse = (PHFull.negN (faceEq vs f).1, (faceEq vs f).2 * (-(lit 1))) := by
  rw [faceEq_raw, faceEq_raw, hN, norm_smul_neg hl]
  have hsd : V3.sdiv (V3.smul (-lam) (rawN vs f)) (lam * V3.norm (rawN vs f))
      = PHFull.negN (V3.sdiv (rawN vs f) (V3.norm (rawN vs f))) := by
    unfold PHFull.negN
    ext <;> simp only [V3.sdiv_x, V3.sdiv_y, V3.sdiv_z, V3.smul_x, V3.smul_y, V3.smul_z, Scalar.lit,
      Scalar.ofNat_real, Nat.cast_one] <;> field_simp
  rw [hsd]
  refine Prod.ext rfl ?_
  have hneg : ∀ X w : V3 ℝ, V3.dot (PHFull.negN X) w = -V3.dot X w := by
    intro X w; simp only [PHFull.negN, V3.dot, Scalar.lit, Scalar.ofNat_real, Nat.cast_one]; ring
  have e : V3.dot (rawN vs f) (vget vs (f.reverse.getD 0 0)) = V3.dot (rawN vs f) (vget vs (f.getD 0 0)) := by
    simp only [V3.dot, V3.sub_x, V3.sub_y, V3.sub_z] at hp ⊢; linarith
  simp only [hneg, dot_sdiv, e, Scalar.lit, Scalar.ofNat_real, Nat.cast_one]
  ring

/-- **`NegEqOK` for planar convex faces of any size** (what `sort_faces` needs in its
`volume < 0` branch after `merge_faces` has produced polygons with more than three vertices) -/
theorem negEqOK_of_planar_convex (verts : List (V3 ℝ)) (faces : List (List Nat))
    (h : ∀ f ∈ faces, ∃ lam : ℝ, 0 < lam ∧ rawN verts f.reverse = V3.smul (-lam) (rawN verts f) ∧
      V3.dot (rawN verts f) (vget verts (f.reverse.getD 0 0) - vget verts (f.getD 0 0)) = 0) :
    NegEqOK verts faces := by
  unfold NegEqOK
  rw [findEquations_eq, findEquations_eq]
  simp only [List.map_map, Prod.mk.injEq]
  constructor <;> apply List.map_congr_left <;> intro f hf <;>
    obtain ⟨lam, hl, hN, hp⟩ := h f hf <;>
    simp only [Function.comp, faceEq_reverse_of hl hN hp]

/-- the last corner of the face is oriented like the first (planar, convex at both), and the last
vertex lies in the plane of the first three -/
def FlipCond (vs : List (V3 ℝ)) (f : List Nat) : Prop :=
  ∃ lam : ℝ, 0 < lam ∧ rawN vs f.reverse = V3.smul (-lam) (rawN vs f) ∧
    V3.dot (rawN vs f) (vget vs (f.reverse.getD 0 0) - vget vs (f.getD 0 0)) = 0

theorem FlipCond.reverse {vs : List (V3 ℝ)} {f : List Nat} (h : FlipCond vs f) : FlipCond vs f.reverse := by
  obtain ⟨lam, hl, hN, hp⟩ := h
  refine ⟨1 / lam, by positivity, ?_, ?_⟩
  · rw [List.reverse_reverse, hN]
    ext <;> simp only [V3.smul_x, V3.smul_y, V3.smul_z] <;> field_simp
  · rw [List.reverse_reverse, hN]
    simp only [V3.dot, V3.smul_x, V3.smul_y, V3.smul_z, V3.sub_x, V3.sub_y, V3.sub_z] at hp ⊢
    linear_combination lam * hp

theorem forall₂_flipCond {vs : List (V3 ℝ)} {F G : List (List Nat)} (h : List.Forall₂ FlipRel F G)
    (hF : ∀ f ∈ F, FlipCond vs f) : ∀ g ∈ G, FlipCond vs g := by
  induction h with
  | nil => intro g hg; cases hg
  | cons hab _ ih =>
    intro g hg
    rcases List.mem_cons.mp hg with rfl | hg
    · rcases hab with rfl | rfl
      · exact hF _ List.mem_cons_self
      · exact (hF _ List.mem_cons_self).reverse
    · exact ih (fun f hf => hF f (List.mem_cons_of_mem _ hf)) g hg

/-- `SortGeomOK` for faces of any size that are planar and convex at their first and last corner -/
theorem PHFull.sortGeomOK_of_planar_convex (s : PHFull ℝ) (faces1 : List (List Nat))
    (h : ∀ f ∈ faces1, FlipCond s.core.verts f) : s.SortGeomOK faces1 := by
  intro nb _
  exact negEqOK_of_planar_convex _ _ (forall₂_flipCond (orientFaces_flip faces1 nb) h)

end Mut
end
