import CoxeterVerif.Lemmas.FormFactorIntegral
/-! The model of `Polygon.compute_form_factor_amplitude` on an axis-aligned rectangle equals the product of two
1-D transforms (Fubini closed form) — a check of the whole Stokes reduction that does not go through Green's theorem. -/
open Scalar FF
namespace FF
noncomputable section

def rect (a b : ℝ) : List (V3 ℝ) := [⟨0, 0, 0⟩, ⟨a, 0, 0⟩, ⟨a, b, 0⟩, ⟨0, b, 0⟩]
def zhat : V3 ℝ := ⟨0, 0, 1⟩

theorem argmax_zhat : argmaxAbs zhat = 2 := by
  unfold argmaxAbs zhat
  simp only [Scalar.abs_real, abs_zero, abs_one]
  have h : ¬ ((1:ℝ) ≤ 0) := by norm_num
  simp [h]

theorem rect_project (x y z : ℝ) : project zhat ⟨x, y, z⟩ = ⟨x, y, 0⟩ := by
  unfold project zhat
  ext <;> simp [V3.dot]

theorem rect_signedArea (a b : ℝ) : signedArea (rect a b) zhat = a * b := by
  rw [signedArea_eq, argmax_zhat]
  unfold saSum rect zhat
  simp [V3.norm, V3.normSq, V3.dot, V3.get, List.rotate_cons_succ]
  ring

end

noncomputable section

theorem edgeAmp_z (x y q : ℝ) (v w : V3 ℝ) :
    edgeAmp zhat ⟨x, y, 0⟩ q (v, w) =
      ((w.x - v.x) * y - (w.y - v.y) * x) * Spec.sinc (((w.x - v.x) * x + (w.y - v.y) * y) / 2) / q := by
  unfold edgeAmp
  rw [npSinc_eq_sinc]
  simp [V3.cross, V3.dot, zhat]

theorem edgePhase_z (x y : ℝ) (v w : V3 ℝ) :
    edgePhase ⟨x, y, 0⟩ (v, w) = (v.x + w.x) / 2 * x + (v.y + w.y) / 2 * y := by
  unfold edgePhase
  simp [V3.dot]

theorem sinc_neg (t : ℝ) : Spec.sinc (-t) = Spec.sinc t := by
  unfold Spec.sinc
  simp only [eqb_real, Scalar.lit, Scalar.ofNat_real, Nat.cast_zero, Nat.cast_one, decide_eq_true_eq,
    neg_eq_zero, Scalar.sin_real]
  split_ifs
  · rfl
  · rw [Real.sin_neg, neg_div_neg_eq]

theorem sin_diff_c (C B : ℝ) : Real.sin (C - B) - Real.sin (C + B) = -(2 * Real.cos C * Real.sin B) := by
  rw [Real.sin_sub, Real.sin_add]; ring

theorem cos_diff_c (C B : ℝ) : Real.cos (C - B) - Real.cos (C + B) = 2 * Real.sin C * Real.sin B := by
  rw [Real.cos_sub, Real.cos_add]; ring

/-- the rectangle identity, real part and imaginary part, in the variables
`A = a x / 2`, `B = b y / 2` (so `a·sinc A = 2 sin A / x`, `b·sinc B = 2 sin B / y`) -/
theorem rect_key (a b x y : ℝ) (hx : x ≠ 0) (hy : y ≠ 0) (ha : a ≠ 0) (hb : b ≠ 0)
    (_hq : x * x + y * y ≠ 0) (sA sB : ℝ) (hsA : sA = Real.sin (a * x / 2) / (a * x / 2))
    (hsB : sB = Real.sin (b * y / 2) / (b * y / 2)) :
    (-(a * y * sA / (x * x + y * y) * Real.sin (a * x / 2)
        + -(b * x) * sB / (x * x + y * y) * Real.sin (a * x + b * y / 2)
        + -(a * y) * sA / (x * x + y * y) * Real.sin (a * x / 2 + b * y)
        + b * x * sB / (x * x + y * y) * Real.sin (b * y / 2))
      = a * sA * (b * sB) * (Real.cos (a * x / 2) * Real.cos (b * y / 2) - Real.sin (a * x / 2) * Real.sin (b * y / 2)))
    ∧
    (-(a * y * sA / (x * x + y * y) * Real.cos (a * x / 2)
        + -(b * x) * sB / (x * x + y * y) * Real.cos (a * x + b * y / 2)
        + -(a * y) * sA / (x * x + y * y) * Real.cos (a * x / 2 + b * y)
        + b * x * sB / (x * x + y * y) * Real.cos (b * y / 2))
      = -(a * sA * (b * sB) * (Real.sin (a * x / 2) * Real.cos (b * y / 2) + Real.cos (a * x / 2) * Real.sin (b * y / 2)))) := by
  set A := a * x / 2 with hA
  set B := b * y / 2 with hB
  have hA0 : A ≠ 0 := by rw [hA]; exact div_ne_zero (mul_ne_zero ha hx) two_ne_zero
  have hB0 : B ≠ 0 := by rw [hB]; exact div_ne_zero (mul_ne_zero hb hy) two_ne_zero
  have e1 : a * x + b * y / 2 = (A + B) + A := by rw [hA, hB]; ring
  have e2 : a * x / 2 + b * y = (A + B) + B := by rw [hA, hB]; ring
  have s1 := sin_diff_c (A + B) B
  have s2 := sin_diff_c (A + B) A
  have c1 := cos_diff_c (A + B) B
  have c2 := cos_diff_c (A + B) A
  rw [show A + B - B = A by ring] at s1 c1
  rw [show A + B - A = B by ring] at s2 c2
  have hax : a * x = 2 * A := by rw [hA]; ring
  have hby : b * y = 2 * B := by rw [hB]; ring
  rw [e1, e2, hsA, hsB]
  have hcs := Real.cos_add A B
  have hss := Real.sin_add A B
  constructor
  · have : Real.sin (A + B + A) = Real.sin B + 2 * Real.cos (A + B) * Real.sin A := by linarith
    have h' : Real.sin (A + B + B) = Real.sin A + 2 * Real.cos (A + B) * Real.sin B := by linarith
    rw [this, h', ← hcs]
    have hxa : a = 2 * A / x := by rw [hA]; field_simp
    have hyb : b = 2 * B / y := by rw [hB]; field_simp
    rw [hxa, hyb]
    field_simp
    ring
  · have : Real.cos (A + B + A) = Real.cos B - 2 * Real.sin (A + B) * Real.sin A := by linarith
    have h' : Real.cos (A + B + B) = Real.cos A - 2 * Real.sin (A + B) * Real.sin B := by linarith
    rw [this, h', ← hss]
    have hxa : a = 2 * A / x := by rw [hA]; field_simp
    have hyb : b = 2 * B / y := by rw [hB]; field_simp
    rw [hxa, hyb]
    field_simp
    ring

end

noncomputable section

/-- **rectangle = product of two 1-D transforms** (Fubini closed form, independent of Green's theorem) -/
theorem rect_ff_eq_product (a b x y z rho : ℝ) (ha : 0 < a) (hb : 0 < b) (hx : x ≠ 0) (hy : y ≠ 0)
    (hwin : isCloseZero (x * x + y * y) = false) :
    polygonFF (rect a b) zhat ⟨x, y, z⟩ rho =
      Cx.smul rho (Cx.mul (Spec.segFT 0 a x) (Spec.segFT 0 b y)) := by
  have hq : x * x + y * y ≠ 0 := by
    intro h; rw [h, isCloseZero_zero] at hwin; cases hwin
  have hqd : V3.dot (⟨x, y, 0⟩ : V3 ℝ) ⟨x, y, 0⟩ = x * x + y * y := by simp [V3.dot]
  unfold polygonFF
  simp only [rect_project, hqd, hwin, if_false, Bool.false_eq_true]
  unfold polygonNonzero
  rw [rect_signedArea, hqd]
  have hsign : sign (a * b) = 1 := by
    unfold sign
    have h1 : ¬ (a * b < 0) := not_lt.mpr (mul_pos ha hb).le
    simp [Scalar.lit, h1, mul_pos ha hb]
  rw [hsign]
  have hedges : edgesOf (rect a b) =
      [((⟨0, 0, 0⟩ : V3 ℝ), (⟨a, 0, 0⟩ : V3 ℝ)), (⟨a, 0, 0⟩, ⟨a, b, 0⟩), (⟨a, b, 0⟩, ⟨0, b, 0⟩), (⟨0, b, 0⟩, ⟨0, 0, 0⟩)] := by
    simp [edgesOf, rect, roll1]
  rw [hedges]
  simp only [List.map_cons, List.map_nil, edgeTerm_eq, edgeAmp_z, edgePhase_z, Cx.sum_cons, Cx.sum_nil]
  have hax : a * x / 2 ≠ 0 := div_ne_zero (mul_ne_zero ha.ne' hx) two_ne_zero
  have hby : b * y / 2 ≠ 0 := div_ne_zero (mul_ne_zero hb.ne' hy) two_ne_zero
  obtain ⟨kre, kim⟩ := rect_key a b x y hx hy ha.ne' hb.ne' hq _ _ (sinc_of_ne hax) (sinc_of_ne hby)
  have t1 : ((a - 0) * x + (0 - 0) * y) / 2 = a * x / 2 := by ring
  have t2 : ((a - a) * x + (b - 0) * y) / 2 = b * y / 2 := by ring
  have t3 : ((0 - a) * x + (b - b) * y) / 2 = -(a * x / 2) := by ring
  have t4 : ((0 - 0) * x + (0 - b) * y) / 2 = -(b * y / 2) := by ring
  have p1 : (0 + a) / 2 * x + (0 + 0) / 2 * y = a * x / 2 := by ring
  have p2 : (a + a) / 2 * x + (0 + b) / 2 * y = a * x + b * y / 2 := by ring
  have p3 : (a + 0) / 2 * x + (b + b) / 2 * y = a * x / 2 + b * y := by ring
  have p4 : (0 + 0) / 2 * x + (b + 0) / 2 * y = b * y / 2 := by ring
  simp only [t1, t2, t3, t4, p1, p2, p3, p4, sinc_neg]
  unfold Spec.segFT Spec.cis
  have u5 : x * a / 2 = a * x / 2 := by ring
  have u6 : y * b / 2 = b * y / 2 := by ring
  simp only [Scalar.lit, Scalar.ofNat_real, Nat.cast_ofNat, sub_zero, zero_add, u5, u6, Scalar.cos_real,
    Scalar.sin_real]
  ext
  · simp only [Cx.smul_re, Cx.add_re, Cx.zero_re, Cx.mul_re, Cx.smul_im]
    linear_combination rho * kre
  · simp only [Cx.smul_im, Cx.add_im, Cx.zero_im, Cx.mul_im, Cx.smul_re]
    linear_combination rho * kim

end
end FF
