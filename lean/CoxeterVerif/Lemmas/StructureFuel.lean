import CoxeterVerif.Lemmas.Structure
/-!
  C07, deepening round: the fuel `Σ|nbrs[i]| + 2` of `Struct.propagateLoop` always suffices — the
  `while len(remaining_faces)` loop of `_sort_simplices` / `Polyhedron.sort_faces` ends with an
  empty stack for EVERY neighbour table (no hypothesis): every pass pops one entry, and an index is
  pushed only while it is unvisited and is marked visited at once.

  Measure: `|stack| + #{occurrences in the flattened neighbour table of indices not yet visited}`.
-/
open Struct

namespace StructLemmas

/-- occurrences (with multiplicity) in `A` of indices that are not yet visited -/
def unvisited (A : List Nat) (visited : List Nat) : Nat :=
  (A.filter fun x => !visited.contains x).length

/-- the measure that decreases in every pass of the `while` loop -/
def fuelMeasure (A : List Nat) (st : PState) : Nat := st.stack.length + unvisited A st.visited

theorem unvisited_append_le (A V : List Nat) (c : Nat) : unvisited A (V ++ [c]) ≤ unvisited A V := by
  unfold unvisited
  apply List.Sublist.length_le
  apply List.monotone_filter_right
  intro a ha
  simp only [List.contains_eq_mem, List.mem_append, List.mem_cons, List.not_mem_nil, or_false,
    Bool.not_eq_true', decide_eq_false_iff_not, not_or] at ha ⊢
  exact ha.1

theorem unvisited_append_lt (A V : List Nat) (c : Nat) (hc : c ∈ A) (hv : c ∉ V) :
    unvisited A (V ++ [c]) + 1 ≤ unvisited A V := by
  induction A with
  | nil => simp at hc
  | cons a A ih =>
    have hle := unvisited_append_le A V c
    unfold unvisited at hle ih ⊢
    by_cases hac : a = c
    · subst hac
      simp only [List.filter_cons, List.contains_eq_mem, List.mem_append, List.mem_cons,
        List.not_mem_nil, or_false, or_true, decide_true, Bool.not_true, Bool.false_eq_true,
        if_false, hv, decide_false, Bool.not_false, if_true, List.length_cons]
      simp only [List.contains_eq_mem, List.mem_append, List.mem_cons, List.not_mem_nil, or_false] at hle
      omega
    · have hc' : c ∈ A := by
        rcases List.mem_cons.mp hc with h | h
        · exact absurd h.symm hac
        · exact h
      have := ih hc'
      simp only [List.contains_eq_mem, List.mem_append, List.mem_cons, List.not_mem_nil, or_false] at this
      by_cases hav : a ∈ V
      · simp only [List.filter_cons, List.contains_eq_mem, List.mem_append, List.mem_cons,
          List.not_mem_nil, or_false, hav, true_or, decide_true, Bool.not_true, Bool.false_eq_true,
          if_false]
        exact this
      · simp only [List.filter_cons, List.contains_eq_mem, List.mem_append, List.mem_cons,
          List.not_mem_nil, or_false, hav, hac, or_self, decide_false, Bool.not_false, if_true,
          List.length_cons]
        omega

/-- the `for neighbor in neighbors[current]` loop does not increase the measure -/
theorem visitNeighbors_measure (A : List Nat) (ce : List Edge) :
    ∀ (nbs : List Nat) (st : PState), (∀ nb ∈ nbs, nb ∈ A) →
      fuelMeasure A (visitNeighbors ce nbs st) ≤ fuelMeasure A st := by
  intro nbs
  induction nbs with
  | nil => intro st _; exact Nat.le_refl _
  | cons nb nbs ih =>
    intro st hsub
    simp only [visitNeighbors, List.foldl_cons]
    by_cases hv : st.visited.contains nb = true
    · rw [if_pos hv]
      exact ih st (fun x hx => hsub x (List.mem_cons_of_mem _ hx))
    · rw [if_neg hv]
      have hnv : nb ∉ st.visited := by simpa using hv
      refine Nat.le_trans (ih _ (fun x hx => hsub x (List.mem_cons_of_mem _ hx))) ?_
      have := unvisited_append_lt A st.visited nb (hsub nb List.mem_cons_self) hnv
      simp only [fuelMeasure, List.length_cons]
      omega

theorem getD_subset_flatten (nbrs : List (List Nat)) (cur : Nat) :
    ∀ nb ∈ nbrs.getD cur [], nb ∈ nbrs.flatten := by
  intro nb hnb
  rw [List.getD_eq_getElem?_getD] at hnb
  rcases h : nbrs[cur]? with _ | row
  · rw [h] at hnb; simp at hnb
  · rw [h] at hnb
    simp only [Option.getD_some] at hnb
    exact List.mem_flatten.mpr ⟨row, List.mem_of_getElem? h, hnb⟩

/-- with at least `fuelMeasure` units of fuel the loop ends with an empty stack -/
theorem propagateLoop_stack_empty (nbrs : List (List Nat)) :
    ∀ (fuel : Nat) (st : PState), fuelMeasure nbrs.flatten st ≤ fuel →
      (propagateLoop nbrs fuel st).stack = [] := by
  intro fuel
  induction fuel with
  | zero =>
    intro st h
    unfold propagateLoop
    have : st.stack.length = 0 := by unfold fuelMeasure at h; omega
    exact List.length_eq_zero_iff.mp this
  | succ fuel ih =>
    intro st h
    unfold propagateLoop
    rcases hst : st.stack with _ | ⟨cur, rest⟩
    · simp only; exact hst
    · simp only
      apply ih
      refine Nat.le_trans (visitNeighbors_measure nbrs.flatten _ _ _ (getD_subset_flatten nbrs cur)) ?_
      have h1 := unvisited_append_le nbrs.flatten st.visited cur
      unfold fuelMeasure at h ⊢
      rw [hst] at h
      simp only [List.length_cons] at h ⊢
      omega

/-- **the traversal always terminates within its fuel**: the final stack is empty, for every
neighbour table and every face list -/
theorem propagate_stack_empty (nbrs : List (List Nat)) (F : List Face) :
    (propagate nbrs F).stack = [] := by
  unfold propagate
  apply propagateLoop_stack_empty
  unfold fuelMeasure unvisited propagateFuel
  have h1 : (nbrs.flatten.filter fun x => !([] : List Nat).contains x).length ≤ nbrs.flatten.length :=
    List.length_filter_le _ _
  rw [List.length_flatten] at h1
  simp only [List.length_cons, List.length_nil]
  omega

end StructLemmas
