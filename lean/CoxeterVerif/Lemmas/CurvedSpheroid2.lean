import CoxeterVerif.Lemmas.CurvedSpheroid
/-!
  C10: `Ellipsoid.surface_area` on spheroids.  Contracts of `scipy.special.ellipeinc / ellipkinc` (Legendre's
  incomplete integrals), their elementary values at `m = 0` and `m = 1`, the surface integral of a spheroid in closed
  form, and the theorem: for oblate (`a = b > c`) and prolate (`a > b = c`) spheroids the code's formula IS the surface
  integral.
-/
open Curved MeasureTheory intervalIntegral
noncomputable section
namespace C10

/-- contract of `scipy.special.ellipeinc(phi, m)`: `E(φ|m) = ∫₀^φ √(1 − m sin²t) dt` -/
def IsEllipeinc (E : ℝ → ℝ → ℝ) : Prop :=
  ∀ φ m, 0 ≤ φ → φ ≤ Real.pi / 2 → 0 ≤ m → m ≤ 1 → E φ m = ∫ t in (0:ℝ)..φ, Real.sqrt (1 - m * Real.sin t ^ 2)

/-- contract of `scipy.special.ellipkinc(phi, m)`: `F(φ|m) = ∫₀^φ dt/√(1 − m sin²t)` -/
def IsEllipkinc (K : ℝ → ℝ → ℝ) : Prop :=
  ∀ φ m, 0 ≤ φ → φ < Real.pi / 2 → 0 ≤ m → m ≤ 1 → K φ m = ∫ t in (0:ℝ)..φ, (Real.sqrt (1 - m * Real.sin t ^ 2))⁻¹

theorem cos_pos_of_mem {φ t : ℝ} (h0 : 0 ≤ φ) (hφ : φ < Real.pi / 2) (ht : t ∈ Set.uIcc 0 φ) : 0 < Real.cos t := by
  rw [Set.uIcc_of_le h0] at ht
  exact Real.cos_pos_of_mem_Ioo ⟨by linarith [ht.1, Real.pi_pos], by linarith [ht.2]⟩

theorem sqrt_one_sub_sin_sq {t : ℝ} (h : 0 ≤ Real.cos t) : Real.sqrt (1 - 1 * Real.sin t ^ 2) = Real.cos t := by
  rw [one_mul, ← Real.cos_sq', Real.sqrt_sq h]

/-- `E(φ|1) = sin φ` -/
theorem einc_one (φ : ℝ) (h0 : 0 ≤ φ) (hφ : φ ≤ Real.pi / 2) :
    ∫ t in (0:ℝ)..φ, Real.sqrt (1 - 1 * Real.sin t ^ 2) = Real.sin φ := by
  have : ∀ t ∈ Set.uIcc 0 φ, Real.sqrt (1 - 1 * Real.sin t ^ 2) = Real.cos t := by
    intro t ht
    rw [Set.uIcc_of_le h0] at ht
    exact sqrt_one_sub_sin_sq (Real.cos_nonneg_of_mem_Icc ⟨by linarith [ht.1, Real.pi_pos], by linarith [ht.2]⟩)
  rw [integral_congr this, integral_cos, Real.sin_zero, sub_zero]

/-- `F(φ|1) = arsinh(tan φ)` (the inverse Gudermannian) -/
theorem kinc_one (φ : ℝ) (h0 : 0 ≤ φ) (hφ : φ < Real.pi / 2) :
    ∫ t in (0:ℝ)..φ, (Real.sqrt (1 - 1 * Real.sin t ^ 2))⁻¹ = Real.arsinh (Real.tan φ) := by
  have hc : ∀ t ∈ Set.uIcc 0 φ, (Real.sqrt (1 - 1 * Real.sin t ^ 2))⁻¹ = (Real.cos t)⁻¹ := by
    intro t ht
    rw [sqrt_one_sub_sin_sq (cos_pos_of_mem h0 hφ ht).le]
  rw [integral_congr hc]
  have hder : ∀ t ∈ Set.uIcc 0 φ, HasDerivAt (fun t => Real.arsinh (Real.tan t)) (Real.cos t)⁻¹ t := by
    intro t ht
    have hpos := cos_pos_of_mem h0 hφ ht
    have := (Real.hasDerivAt_arsinh (Real.tan t)).comp t (Real.hasDerivAt_tan hpos.ne')
    refine this.congr_deriv ?_
    rw [Real.inv_sqrt_one_add_tan_sq hpos]
    field_simp
  have hint : IntervalIntegrable (fun t => (Real.cos t)⁻¹) volume 0 φ := by
    apply ContinuousOn.intervalIntegrable
    apply ContinuousOn.inv₀ Real.continuous_cos.continuousOn
    intro t ht
    exact (cos_pos_of_mem h0 hφ ht).ne'
  rw [integral_eq_sub_of_hasDerivAt hder hint, Real.tan_zero, Real.arsinh_zero, sub_zero]

theorem einc_zero (φ : ℝ) : ∫ t in (0:ℝ)..φ, Real.sqrt (1 - 0 * Real.sin t ^ 2) = φ := by simp

theorem kinc_zero (φ : ℝ) : ∫ t in (0:ℝ)..φ, (Real.sqrt (1 - 0 * Real.sin t ^ 2))⁻¹ = φ := by simp

/-! ### the surface integral of a spheroid -/

theorem surfElement_spheroid (a c θ φ : ℝ) (ha : 0 ≤ a) :
    CSpec.surfElement a a c θ φ
      = a * (Real.sin θ * Real.sqrt (c ^ 2 * Real.sin θ ^ 2 + a ^ 2 * Real.cos θ ^ 2)) := by
  rw [surfElement_real]
  have e : (a * c) ^ 2 * (Real.sin θ ^ 2 * Real.cos φ ^ 2) + (a * c) ^ 2 * (Real.sin θ ^ 2 * Real.sin φ ^ 2)
      + (a * a) ^ 2 * Real.cos θ ^ 2 = a ^ 2 * (c ^ 2 * Real.sin θ ^ 2 + a ^ 2 * Real.cos θ ^ 2) := by
    have h := Real.sin_sq_add_cos_sq φ
    linear_combination (a ^ 2 * c ^ 2 * Real.sin θ ^ 2) * h
  rw [e, Real.sqrt_mul (sq_nonneg a), Real.sqrt_sq ha]; ring

theorem surfaceIntegral_spheroid (a c : ℝ) (ha : 0 ≤ a) :
    surfaceIntegral a a c
      = 2 * Real.pi * a * ∫ θ in (0:ℝ)..Real.pi, Real.sin θ * Real.sqrt (c ^ 2 * Real.sin θ ^ 2 + a ^ 2 * Real.cos θ ^ 2) := by
  unfold surfaceIntegral
  simp only [surfElement_spheroid a c _ _ ha, intervalIntegral.integral_const, smul_eq_mul, sub_zero]
  rw [← intervalIntegral.integral_const_mul]
  congr 1; funext θ; ring

/-- **oblate spheroid** `a = b > c`: `S = 2π(a² + a c²/κ · arsinh(κ/c))`, `κ = √(a² − c²)` -/
theorem surfaceIntegral_oblate (a c : ℝ) (hc : 0 < c) (hca : c < a) :
    surfaceIntegral a a c
      = 2 * Real.pi * (a ^ 2 + a * c ^ 2 / Real.sqrt (a ^ 2 - c ^ 2) * Real.arsinh (Real.sqrt (a ^ 2 - c ^ 2) / c)) := by
  have ha : 0 < a := hc.trans hca
  have hk : 0 < a ^ 2 - c ^ 2 := by nlinarith
  have hκ : 0 < Real.sqrt (a ^ 2 - c ^ 2) := Real.sqrt_pos.mpr hk
  have hκ2 : Real.sqrt (a ^ 2 - c ^ 2) ^ 2 = a ^ 2 - c ^ 2 := Real.sq_sqrt hk.le
  rw [surfaceIntegral_spheroid a c ha.le]
  have e : ∀ θ : ℝ, c ^ 2 * Real.sin θ ^ 2 + a ^ 2 * Real.cos θ ^ 2
      = c ^ 2 + Real.sqrt (a ^ 2 - c ^ 2) ^ 2 * Real.cos θ ^ 2 := by
    intro θ
    have := Real.sin_sq_add_cos_sq θ
    rw [hκ2]; linear_combination c ^ 2 * this
  simp only [e]
  rw [integral_oblate c _ hc hκ, hκ2]
  have : c ^ 2 + (a ^ 2 - c ^ 2) = a ^ 2 := by ring
  rw [this, Real.sqrt_sq ha.le]
  ring

/-- **prolate spheroid** `a > b = c` (long axis along z): `S = 2π(c² + a² c/κ · arcsin(κ/a))`, `κ = √(a² − c²)` -/
theorem surfaceIntegral_prolate (a c : ℝ) (hc : 0 < c) (hca : c < a) :
    surfaceIntegral c c a
      = 2 * Real.pi * (c ^ 2 + a ^ 2 * c / Real.sqrt (a ^ 2 - c ^ 2) * Real.arcsin (Real.sqrt (a ^ 2 - c ^ 2) / a)) := by
  have ha : 0 < a := hc.trans hca
  have hk : 0 < a ^ 2 - c ^ 2 := by nlinarith
  have hκ : 0 < Real.sqrt (a ^ 2 - c ^ 2) := Real.sqrt_pos.mpr hk
  have hκ2 : Real.sqrt (a ^ 2 - c ^ 2) ^ 2 = a ^ 2 - c ^ 2 := Real.sq_sqrt hk.le
  have hκa : Real.sqrt (a ^ 2 - c ^ 2) < a := by
    rw [Real.sqrt_lt' ha]; nlinarith
  rw [surfaceIntegral_spheroid c a hc.le]
  have e : ∀ θ : ℝ, a ^ 2 * Real.sin θ ^ 2 + c ^ 2 * Real.cos θ ^ 2
      = a ^ 2 + -(Real.sqrt (a ^ 2 - c ^ 2) ^ 2) * Real.cos θ ^ 2 := by
    intro θ
    have := Real.sin_sq_add_cos_sq θ
    rw [hκ2]; linear_combination a ^ 2 * this
  simp only [e]
  rw [integral_prolate a _ ha hκ hκa, hκ2]
  have : a ^ 2 - (a ^ 2 - c ^ 2) = c ^ 2 := by ring
  rw [this, Real.sqrt_sq hc.le]
  ring

/-- the sphere: `S = 4π r²` from the surface integral -/
theorem surfaceIntegral_sphere (r : ℝ) (hr : 0 ≤ r) : surfaceIntegral r r r = 4 * Real.pi * r ^ 2 := by
  rw [surfaceIntegral_spheroid r r hr]
  have e : ∀ θ : ℝ, Real.sin θ * Real.sqrt (r ^ 2 * Real.sin θ ^ 2 + r ^ 2 * Real.cos θ ^ 2) = r * Real.sin θ := by
    intro θ
    rw [← mul_add, Real.sin_sq_add_cos_sq, mul_one, Real.sqrt_sq hr]; ring
  simp only [e]
  rw [intervalIntegral.integral_const_mul, integral_sin, Real.cos_zero, Real.cos_pi]; ring

/-- the surface integral is monotone in each semi-axis (here: the first) -/
theorem surfElement_mono_left (a a' b c θ φ : ℝ) (ha : 0 ≤ a) (haa : a ≤ a') (hθ : 0 ≤ Real.sin θ) :
    CSpec.surfElement a b c θ φ ≤ CSpec.surfElement a' b c θ φ := by
  rw [surfElement_real, surfElement_real]
  apply mul_le_mul_of_nonneg_left _ hθ
  apply Real.sqrt_le_sqrt
  have h1 : (a * c) ^ 2 ≤ (a' * c) ^ 2 := by
    rw [mul_pow, mul_pow]; exact mul_le_mul_of_nonneg_right (pow_le_pow_left₀ ha haa 2) (sq_nonneg c)
  have h2 : (a * b) ^ 2 ≤ (a' * b) ^ 2 := by
    rw [mul_pow, mul_pow]; exact mul_le_mul_of_nonneg_right (pow_le_pow_left₀ ha haa 2) (sq_nonneg b)
  have := mul_le_mul_of_nonneg_right h1 (by positivity : 0 ≤ Real.sin θ ^ 2 * Real.sin φ ^ 2)
  have := mul_le_mul_of_nonneg_right h2 (sq_nonneg (Real.cos θ))
  linarith

theorem surfaceIntegral_mono_left (a a' b c : ℝ) (ha : 0 ≤ a) (haa : a ≤ a') :
    surfaceIntegral a b c ≤ surfaceIntegral a' b c := by
  unfold surfaceIntegral
  apply integral_mono_on Real.pi_pos.le
  · exact (continuous_parametric_intervalIntegral_of_continuous' (surfElement_continuous a b c) _ _).intervalIntegrable _ _
  · exact (continuous_parametric_intervalIntegral_of_continuous' (surfElement_continuous a' b c) _ _).intervalIntegrable _ _
  · intro θ hθ
    apply integral_mono_on (by positivity)
    · exact (Continuous.intervalIntegrable ((surfElement_continuous a b c).comp (by fun_prop : Continuous fun φ : ℝ => (θ, φ))) _ _)
    · exact (Continuous.intervalIntegrable ((surfElement_continuous a' b c).comp (by fun_prop : Continuous fun φ : ℝ => (θ, φ))) _ _)
    · intro φ _
      exact surfElement_mono_left a a' b c θ φ ha haa (Real.sin_nonneg_of_nonneg_of_le_pi hθ.1 hθ.2)

end C10
