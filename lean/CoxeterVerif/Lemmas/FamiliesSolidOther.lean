import CoxeterVerif.Lemmas.FamiliesSolidAnti
/-! The uniform prism, pyramid and dipyramid of `common.py` as unions of tetrahedra: unit volume
    and centroid at the origin (prism: every `n ≥ 3`; pyramid, dipyramid: `n = 3, 4, 5`). -/
open Scalar
set_option maxRecDepth 4000

namespace Fam
noncomputable section

theorem rotZ_axis (θ z : ℝ) : rotZ θ (⟨0, 0, z⟩ : V3 ℝ) = ⟨0, 0, z⟩ := by
  apply V3.ext' <;> simp

theorem ngonVertex_zero (n : Nat) (z area : ℝ) :
    ngonVertex n z area 0 0 = ⟨ngonScale n area, 0, z⟩ := by
  simp [ngonVertex_real]

theorem ngonVertex_one (n : Nat) (z area : ℝ) :
    ngonVertex n z area 0 1 = ⟨Real.cos (delta n) * ngonScale n area, Real.sin (delta n) * ngonScale n area, z⟩ := by
  simp [ngonVertex_real]

/-- `n · r² · sin δ / 2` is the area the n-gon was built with -/
theorem ngon_area_closed {n : Nat} (hn : 3 ≤ n) {A : ℝ} (hA : 0 ≤ A) :
    (n : ℝ) * (ngonScale n A * ngonScale n A) * Real.sin (delta n) / 2 = A := by
  rw [ngonScale_sq hn hA]
  have hs := sin_delta_pos hn
  have hn0 : (0:ℝ) < n := by exact_mod_cast (by omega : 0 < n)
  field_simp

/-! ### prism -/

def prismSector (lo0 lo1 hi0 hi1 : V3 ℝ) : List (Tet ℝ) :=
  [⟨V3.zero, axisPoint hi0, hi0, hi1⟩, ⟨V3.zero, axisPoint lo0, lo1, lo0⟩,
   ⟨V3.zero, lo0, lo1, hi1⟩, ⟨V3.zero, lo0, hi1, hi0⟩]

theorem prism_cones_swept {n : Nat} (hn : 3 ≤ n) (zl zh Al Ah al ah : ℝ) :
    let lo := ngonVertex n zl Al al
    let hi := ngonVertex n zh Ah ah
    conesOver (prismSurface n ((List.range n).map lo ++ (List.range n).map hi))
      = swept n (prismSector (lo 0) (lo 1) (hi 0) (hi 1)) := by
  intro lo hi
  unfold prismSurface
  apply cones_swept
  intro k hk
  have hv := vtx_two_rings lo hi n [] hk
  have hv' := vtx_two_rings lo hi n [] (succ_mod_lt hk)
  simp only [List.append_nil] at hv hv'
  have plo : lo ((k + 1) % n) = lo (k + 1) :=
    ring_succ_mod lo (by simpa using ngonVertex_periodic hn zl Al al 0) hk
  have phi : hi ((k + 1) % n) = hi (k + 1) :=
    ring_succ_mod hi (by simpa using ngonVertex_periodic hn zh Ah ah 0) hk
  simp only [hv.1, hv.2, hv'.1, hv'.2, plo, phi]
  have r0l : lo k = rotZ (k * delta n) (lo 0) := ngonVertex_rot n zl Al al k
  have r1l : lo (k + 1) = rotZ (k * delta n) (lo 1) := ngonVertex_succ_rot n zl Al al k
  have r0h : hi k = rotZ (k * delta n) (hi 0) := ngonVertex_rot n zh Ah ah k
  have r1h : hi (k + 1) = rotZ (k * delta n) (hi 1) := ngonVertex_succ_rot n zh Ah ah k
  rw [r0l, r1l, r0h, r1h]
  simp [conesOver, prismSector, Tet.map, rotZ_zero_vec, axisPoint_rot]

theorem prismSector_spec (r H cd sd : ℝ) :
    let lo0 : V3 ℝ := ⟨r, 0, -H⟩
    let lo1 : V3 ℝ := ⟨cd * r, sd * r, -H⟩
    let hi0 : V3 ℝ := ⟨r, 0, H⟩
    let hi1 : V3 ℝ := ⟨cd * r, sd * r, H⟩
    Spec.vol (prismSector lo0 lo1 hi0 hi1) = H * (r * r) * sd ∧
    (Spec.first (prismSector lo0 lo1 hi0 hi1)).z = 0 := by
  intro lo0 lo1 hi0 hi1
  constructor
  · simp only [lo0, lo1, hi0, hi1, prismSector, vol_cons, vol_nil, Spec.tetVol, V3.det3, V3.dot, V3.cross,
      V3.sub_x, V3.sub_y, V3.sub_z, V3.zero_x, V3.zero_y, V3.zero_z, axisPoint, Scalar.lit, Scalar.ofNat_real]
    ring
  · simp only [lo0, lo1, hi0, hi1, prismSector, first_cons, first_nil, Spec.tetFirst, Spec.tetSum, Spec.tetVol,
      V3.det3, V3.dot, V3.cross, V3.sub_x, V3.sub_y, V3.sub_z, V3.add_z, V3.smul_z,
      V3.zero_x, V3.zero_y, V3.zero_z, axisPoint, Scalar.lit, Scalar.ofNat_real]
    ring

/-- **Prism as a solid**: volume 1, first moments 0, every `n ≥ 3`. -/
theorem prism_solid {n : Nat} (hn : 3 ≤ n) :
    let h : ℝ := prismH n
    let lo := ngonVertex n (-h / 2) (1 / h) 0
    let hi := ngonVertex n (h / 2) (1 / h) 0
    solidVolume (prismSurface n ((List.range n).map lo ++ (List.range n).map hi)) = 1 ∧
    solidFirst (prismSurface n ((List.range n).map lo ++ (List.range n).map hi)) = ⟨0, 0, 0⟩ := by
  intro h lo hi
  have hH : 0 < h := prismH_pos hn
  have hsw := prism_cones_swept hn (-h / 2) (h / 2) (1 / h) (1 / h) 0 0
  simp only [] at hsw
  unfold solidVolume solidFirst
  rw [hsw]
  obtain ⟨hv, hf⟩ := swept_spec hn (prismSector (lo 0) (lo 1) (hi 0) (hi 1))
  have hs := prismSector_spec (ngonScale n (1 / h)) (h / 2) (Real.cos (delta n)) (Real.sin (delta n))
  simp only [] at hs
  have e_lo0 : lo 0 = ⟨ngonScale n (1 / h), 0, -(h / 2)⟩ := by simp [lo, ngonVertex_zero, neg_div]
  have e_lo1 : lo 1 = ⟨Real.cos (delta n) * ngonScale n (1 / h), Real.sin (delta n) * ngonScale n (1 / h), -(h / 2)⟩ := by
    simp [lo, ngonVertex_one, neg_div]
  have e_hi0 : hi 0 = ⟨ngonScale n (1 / h), 0, h / 2⟩ := by simp [hi, ngonVertex_zero]
  have e_hi1 : hi 1 = ⟨Real.cos (delta n) * ngonScale n (1 / h), Real.sin (delta n) * ngonScale n (1 / h), h / 2⟩ := by
    simp [hi, ngonVertex_one]
  rw [← e_lo0, ← e_lo1, ← e_hi0, ← e_hi1] at hs
  rw [hv, hf, hs.1, hs.2, mul_zero]
  refine ⟨?_, rfl⟩
  have ha := ngon_area_closed hn (A := 1 / h) (by positivity)
  have : (n : ℝ) * (h / 2 * (ngonScale n (1 / h) * ngonScale n (1 / h)) * Real.sin (delta n))
      = h * ((n : ℝ) * (ngonScale n (1 / h) * ngonScale n (1 / h)) * Real.sin (delta n) / 2) := by ring
  rw [this, ha]
  field_simp

/-! ### pyramid -/

def pyramidSector (b0 b1 apex : V3 ℝ) : List (Tet ℝ) :=
  [⟨V3.zero, axisPoint b0, b1, b0⟩, ⟨V3.zero, b0, b1, apex⟩]

theorem vtx_ring_tail (f : Nat → V3 ℝ) (n : Nat) (tail : List (V3 ℝ)) (j : Nat) :
    vtx ((List.range n).map f ++ tail) (n + j) = vtx tail j := by
  have := vtx_ring_right ((List.range n).map f) tail j
  simpa using this

theorem pyramid_cones_swept {n : Nat} (hn : 3 ≤ n) (zb Ab zt : ℝ) :
    let base := ngonVertex n zb Ab 0
    let apex : V3 ℝ := ⟨0, 0, zt⟩
    conesOver (pyramidSurface n ((List.range n).map base ++ [apex]))
      = swept n (pyramidSector (base 0) (base 1) apex) := by
  intro base apex
  unfold pyramidSurface
  apply cones_swept
  intro k hk
  have hv := vtx_ring_left base n [apex] hk
  have hv' := vtx_ring_left base n [apex] (succ_mod_lt hk)
  have ha : vtx ((List.range n).map base ++ [apex]) n = apex := by
    have := vtx_ring_tail base n [apex] 0
    simpa [vtx] using this
  have pb : base ((k + 1) % n) = base (k + 1) :=
    ring_succ_mod base (by simpa using ngonVertex_periodic hn zb Ab 0 0) hk
  simp only [hv, hv', ha, pb]
  have r0 : base k = rotZ (k * delta n) (base 0) := ngonVertex_rot n zb Ab 0 k
  have r1 : base (k + 1) = rotZ (k * delta n) (base 1) := ngonVertex_succ_rot n zb Ab 0 k
  have ra : apex = rotZ (k * delta n) apex := (rotZ_axis _ _).symm
  rw [r0, r1]
  simp only [conesOver, pyramidSector, List.map_cons, List.map_nil, Tet.map, rotZ_zero_vec, axisPoint_rot]
  rw [← ra]

theorem pyramidSector_spec (r Zb Zt cd sd : ℝ) :
    let b0 : V3 ℝ := ⟨r, 0, Zb⟩
    let b1 : V3 ℝ := ⟨cd * r, sd * r, Zb⟩
    let apex : V3 ℝ := ⟨0, 0, Zt⟩
    Spec.vol (pyramidSector b0 b1 apex) = (Zt - Zb) * (r * r) * sd / 6 ∧
    (Spec.first (pyramidSector b0 b1 apex)).z = (r * r) * sd / 24 * (Zt * Zt - 3 * Zb * Zb + 2 * Zb * Zt) := by
  intro b0 b1 apex
  constructor
  · simp only [b0, b1, apex, pyramidSector, vol_cons, vol_nil, Spec.tetVol, V3.det3, V3.dot, V3.cross,
      V3.sub_x, V3.sub_y, V3.sub_z, V3.zero_x, V3.zero_y, V3.zero_z, axisPoint, Scalar.lit, Scalar.ofNat_real]
    ring
  · simp only [b0, b1, apex, pyramidSector, first_cons, first_nil, Spec.tetFirst, Spec.tetSum, Spec.tetVol,
      V3.det3, V3.dot, V3.cross, V3.sub_x, V3.sub_y, V3.sub_z, V3.add_z, V3.smul_z,
      V3.zero_x, V3.zero_y, V3.zero_z, axisPoint, Scalar.lit, Scalar.ofNat_real]
    ring

/-- **Pyramid as a solid** (n = 3, 4, 5): volume 1, first moments 0. -/
theorem pyramid_solid {n : Nat} (hn : 3 ≤ n) (hn5 : n ≤ 5) :
    let h : ℝ := pyramidH n
    let base := ngonVertex n (-h / 4) (3 / h) 0
    let apex : V3 ℝ := ⟨0, 0, 3 * h / 4⟩
    solidVolume (pyramidSurface n ((List.range n).map base ++ [apex])) = 1 ∧
    solidFirst (pyramidSurface n ((List.range n).map base ++ [apex])) = ⟨0, 0, 0⟩ := by
  intro h base apex
  have hH : 0 < h := pyramidH_pos hn hn5
  have hsw := pyramid_cones_swept hn (-h / 4) (3 / h) (3 * h / 4)
  simp only [] at hsw
  unfold solidVolume solidFirst
  rw [hsw]
  obtain ⟨hv, hf⟩ := swept_spec hn (pyramidSector (base 0) (base 1) apex)
  have hs := pyramidSector_spec (ngonScale n (3 / h)) (-h / 4) (3 * h / 4) (Real.cos (delta n)) (Real.sin (delta n))
  simp only [] at hs
  have e0 : base 0 = ⟨ngonScale n (3 / h), 0, -h / 4⟩ := by simp [base, ngonVertex_zero]
  have e1 : base 1 = ⟨Real.cos (delta n) * ngonScale n (3 / h), Real.sin (delta n) * ngonScale n (3 / h), -h / 4⟩ := by
    simp [base, ngonVertex_one]
  rw [← e0, ← e1] at hs
  rw [hv, hf, hs.1, hs.2]
  have ha := ngon_area_closed hn (A := 3 / h) (by positivity)
  constructor
  · have : (n : ℝ) * ((3 * h / 4 - -h / 4) * (ngonScale n (3 / h) * ngonScale n (3 / h)) * Real.sin (delta n) / 6)
        = h / 3 * ((n : ℝ) * (ngonScale n (3 / h) * ngonScale n (3 / h)) * Real.sin (delta n) / 2) := by ring
    rw [this, ha]
    field_simp
  · have : (3 * h / 4) * (3 * h / 4) - 3 * (-h / 4) * (-h / 4) + 2 * (-h / 4) * (3 * h / 4) = 0 := by ring
    rw [this, mul_zero, mul_zero]

/-! ### dipyramid -/

def dipyramidSector (b0 b1 top bot : V3 ℝ) : List (Tet ℝ) :=
  [⟨V3.zero, b0, b1, top⟩, ⟨V3.zero, b1, b0, bot⟩]

theorem dipyramid_cones_swept {n : Nat} (hn : 3 ≤ n) (zb Ab zt zl : ℝ) :
    let base := ngonVertex n zb Ab 0
    let top : V3 ℝ := ⟨0, 0, zt⟩
    let bot : V3 ℝ := ⟨0, 0, zl⟩
    conesOver (dipyramidSurface n ((List.range n).map base ++ [top, bot]))
      = swept n (dipyramidSector (base 0) (base 1) top bot) := by
  intro base top bot
  unfold dipyramidSurface
  apply cones_swept
  intro k hk
  have hv := vtx_ring_left base n [top, bot] hk
  have hv' := vtx_ring_left base n [top, bot] (succ_mod_lt hk)
  have ht : vtx ((List.range n).map base ++ [top, bot]) n = top := by
    have := vtx_ring_tail base n [top, bot] 0
    simpa [vtx] using this
  have hb : vtx ((List.range n).map base ++ [top, bot]) (n + 1) = bot := by
    have := vtx_ring_tail base n [top, bot] 1
    simpa [vtx] using this
  have pb : base ((k + 1) % n) = base (k + 1) :=
    ring_succ_mod base (by simpa using ngonVertex_periodic hn zb Ab 0 0) hk
  simp only [hv, hv', ht, hb, pb]
  have r0 : base k = rotZ (k * delta n) (base 0) := ngonVertex_rot n zb Ab 0 k
  have r1 : base (k + 1) = rotZ (k * delta n) (base 1) := ngonVertex_succ_rot n zb Ab 0 k
  have rt : top = rotZ (k * delta n) top := (rotZ_axis _ _).symm
  have rb : bot = rotZ (k * delta n) bot := (rotZ_axis _ _).symm
  rw [r0, r1]
  simp only [conesOver, dipyramidSector, List.map_cons, List.map_nil, Tet.map, rotZ_zero_vec]
  rw [← rt, ← rb]

theorem dipyramidSector_spec (r h cd sd : ℝ) :
    let b0 : V3 ℝ := ⟨r, 0, 0⟩
    let b1 : V3 ℝ := ⟨cd * r, sd * r, 0⟩
    let top : V3 ℝ := ⟨0, 0, h⟩
    let bot : V3 ℝ := ⟨0, 0, -h⟩
    Spec.vol (dipyramidSector b0 b1 top bot) = h * (r * r) * sd / 3 ∧
    (Spec.first (dipyramidSector b0 b1 top bot)).z = 0 := by
  intro b0 b1 top bot
  constructor
  · simp only [b0, b1, top, bot, dipyramidSector, vol_cons, vol_nil, Spec.tetVol, V3.det3, V3.dot, V3.cross,
      V3.sub_x, V3.sub_y, V3.sub_z, V3.zero_x, V3.zero_y, V3.zero_z, Scalar.lit, Scalar.ofNat_real]
    ring
  · simp only [b0, b1, top, bot, dipyramidSector, first_cons, first_nil, Spec.tetFirst, Spec.tetSum, Spec.tetVol,
      V3.det3, V3.dot, V3.cross, V3.sub_x, V3.sub_y, V3.sub_z, V3.add_z, V3.smul_z,
      V3.zero_x, V3.zero_y, V3.zero_z, Scalar.lit, Scalar.ofNat_real]
    ring

/-- **Dipyramid as a solid** (n = 3, 4, 5): volume 1, first moments 0. -/
theorem dipyramid_solid {n : Nat} (hn : 3 ≤ n) (hn5 : n ≤ 5) :
    let h : ℝ := dipyramidH n
    let base := ngonVertex n 0 (3 / 2 / h) 0
    let top : V3 ℝ := ⟨0, 0, h⟩
    let bot : V3 ℝ := ⟨0, 0, -h⟩
    solidVolume (dipyramidSurface n ((List.range n).map base ++ [top, bot])) = 1 ∧
    solidFirst (dipyramidSurface n ((List.range n).map base ++ [top, bot])) = ⟨0, 0, 0⟩ := by
  intro h base top bot
  have hH : 0 < h := dipyramidH_pos hn hn5
  have hsw := dipyramid_cones_swept hn 0 (3 / 2 / h) h (-h)
  simp only [] at hsw
  unfold solidVolume solidFirst
  rw [hsw]
  obtain ⟨hv, hf⟩ := swept_spec hn (dipyramidSector (base 0) (base 1) top bot)
  have hs := dipyramidSector_spec (ngonScale n (3 / 2 / h)) h (Real.cos (delta n)) (Real.sin (delta n))
  simp only [] at hs
  have e0 : base 0 = ⟨ngonScale n (3 / 2 / h), 0, 0⟩ := by simp [base, ngonVertex_zero]
  have e1 : base 1 = ⟨Real.cos (delta n) * ngonScale n (3 / 2 / h), Real.sin (delta n) * ngonScale n (3 / 2 / h), 0⟩ := by
    simp [base, ngonVertex_one]
  rw [← e0, ← e1] at hs
  rw [hv, hf, hs.1, hs.2, mul_zero]
  refine ⟨?_, rfl⟩
  have ha := ngon_area_closed hn (A := 3 / 2 / h) (by positivity)
  have : (n : ℝ) * (h * (ngonScale n (3 / 2 / h) * ngonScale n (3 / 2 / h)) * Real.sin (delta n) / 3)
      = 2 * h / 3 * ((n : ℝ) * (ngonScale n (3 / 2 / h) * ngonScale n (3 / 2 / h)) * Real.sin (delta n) / 2) := by ring
  rw [this, ha]
  field_simp

end
end Fam
