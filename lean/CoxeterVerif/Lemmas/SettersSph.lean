import CoxeterVerif.Lemmas.Setters
import CoxeterVerif.Lemmas.Steiner
/-!
  C08 — `ConvexSpheropolyhedron`: the volume / surface-area / mean-curvature getters AS THE PYTHON
  COMPUTES THEM (sums over `_get_face_intersections()` of `(π − φ_ij)·L_edge` terms on the current
  core, `Model/Steiner.lean`) are homogeneous of degree 3 / 2 / 1 under `_rescale` — the dihedral
  angles are read from the normals, which `_rescale` does not touch, the edge lengths from the
  scaled vertices — so the three size setters read back exactly.
-/
open Scalar Mut Setters Steiner
set_option maxRecDepth 4000
noncomputable section

namespace Setters
namespace Spheropolyhedron

/-- the state `_rescale(k)` leaves when it does not raise -/
def scaled (s : SPHState ℝ) (k : ℝ) : SPHState ℝ := ⟨s.core.rescale k, s.radius * k⟩

theorem mapM_except_map {β γ : Type} (g g' : β → Except String γ) (h : γ → γ) (l : List β)
    (hg : ∀ x ∈ l, g' x = Except.map h (g x)) : l.mapM g' = Except.map (List.map h) (l.mapM g) := by
  induction l with
  | nil => rfl
  | cons a l ih =>
    rw [List.mapM_cons, List.mapM_cons, hg a List.mem_cons_self, ih (fun x hx => hg x (List.mem_cons_of_mem _ hx))]
    cases g a with
    | error e => rfl
    | ok y =>
      cases l.mapM g with
      | error e => rfl
      | ok ys => rfl

theorem edgeLength_smul {k : ℝ} (hk : 0 ≤ k) (vs : List (V3 ℝ)) (e0 e1 : Nat) :
    CP.edgeLength (vs.map (V3.smul k)) e0 e1 = Except.map (k * ·) (CP.edgeLength vs e0 e1) := by
  unfold CP.edgeLength
  simp only [List.getElem?_map]
  cases vs[e0]? with
  | none => rfl
  | some p =>
    cases vs[e1]? with
    | none => rfl
    | some q =>
      show Except.ok (V3.norm (V3.smul k p - V3.smul k q)) = Except.ok (k * V3.norm (p - q))
      rw [v3smul_sub, v3norm_smul hk]

/-- scaling the `(L, φ)` list: lengths times `k`, angles untouched -/
def scaleEdge (k : ℝ) (e : ℝ × ℝ) : ℝ × ℝ := (k * e.1, e.2)

theorem edgeTerm_scaled (s : SPHState ℝ) (fi : List FaceIx) {k : ℝ} (hk : 0 ≤ k) (nb : List (List Nat)) (f : FaceIx) :
    CP.edgeTerm (coreOf (scaled s k) fi) nb f = Except.map (scaleEdge k) (CP.edgeTerm (coreOf s fi) nb f) := by
  unfold CP.edgeTerm
  show (do let phi ← CP.getDihedral s.core.eqN nb f.i f.j
           let len ← CP.edgeLength (s.core.verts.map (V3.smul k)) f.e0 f.e1
           pure (len, phi)) = _
  rw [edgeLength_smul hk]
  show _ = Except.map (scaleEdge k) (do let phi ← CP.getDihedral s.core.eqN nb f.i f.j
                                        let len ← CP.edgeLength s.core.verts f.e0 f.e1
                                        pure (len, phi))
  cases CP.getDihedral s.core.eqN nb f.i f.j with
  | error e => rfl
  | ok phi =>
    cases CP.edgeLength s.core.verts f.e0 f.e1 with
    | error e => rfl
    | ok len => rfl

/-- **the loop data of the curvature getters after `_rescale(k)`**: same angles, lengths times `k` -/
theorem edgeTerms_scaled (s : SPHState ℝ) (fi : List FaceIx) {k : ℝ} (hk : 0 ≤ k) :
    CP.edgeTerms (coreOf (scaled s k) fi) = Except.map (List.map (scaleEdge k)) (CP.edgeTerms (coreOf s fi)) := by
  unfold CP.edgeTerms
  exact mapM_except_map _ _ (scaleEdge k) fi (fun f _ => edgeTerm_scaled s fi hk _ f)

theorem edgeSumR_scale (k : ℝ) (es : List (ℝ × ℝ)) : edgeSumR (es.map (scaleEdge k)) = k * edgeSumR es := by
  unfold edgeSumR
  rw [List.map_map, ← sum_map_mul_left k (fun e : ℝ × ℝ => e.1 * (Real.pi - e.2))]
  congr 1
  apply List.map_congr_left
  intro e _
  simp only [Function.comp, scaleEdge]; ring

theorem volumeOf_closed (V A r : ℝ) (es : List (ℝ × ℝ)) :
    SpheroPolyhedron.volumeOf V A r es = V + 4 / 3 * Real.pi * (r * r * r) + A * r + r * r / 2 * edgeSumR es := by
  unfold SpheroPolyhedron.volumeOf
  rw [vCyl_eq]
  simp only [Scalar.q, Scalar.cube, Scalar.ofNat_real, Scalar.pi_real]; push_cast; ring

theorem surfaceAreaOf_closed (A r : ℝ) (es : List (ℝ × ℝ)) :
    SpheroPolyhedron.surfaceAreaOf A r es = A + 4 * Real.pi * (r * r) + r * edgeSumR es := by
  unfold SpheroPolyhedron.surfaceAreaOf
  rw [aCyl_eq]
  simp only [Scalar.lit, Scalar.sqr, Scalar.ofNat_real, Scalar.pi_real]; push_cast; ring

theorem meanCurvatureOf_closed (r : ℝ) (es : List (ℝ × ℝ)) :
    SpheroPolyhedron.meanCurvatureOf r es = edgeSumR es / (8 * Real.pi) + r := by
  unfold SpheroPolyhedron.meanCurvatureOf
  rw [meanCurvatureOf_eq]

/-- the three getter bodies are homogeneous of degree 3 / 2 / 1 in (core measures, radius, edge lengths) -/
theorem bodies_scale (V A r k : ℝ) (es : List (ℝ × ℝ)) :
    SpheroPolyhedron.volumeOf (V * (k * k * k)) (A * (k * k)) (r * k) (es.map (scaleEdge k))
      = SpheroPolyhedron.volumeOf V A r es * k ^ 3 ∧
    SpheroPolyhedron.surfaceAreaOf (A * (k * k)) (r * k) (es.map (scaleEdge k))
      = SpheroPolyhedron.surfaceAreaOf A r es * k ^ 2 ∧
    SpheroPolyhedron.meanCurvatureOf (r * k) (es.map (scaleEdge k))
      = SpheroPolyhedron.meanCurvatureOf r es * k ^ 1 := by
  refine ⟨?_, ?_, ?_⟩
  · rw [volumeOf_closed, volumeOf_closed, edgeSumR_scale]; ring
  · rw [surfaceAreaOf_closed, surfaceAreaOf_closed, edgeSumR_scale]; ring
  · rw [meanCurvatureOf_closed, meanCurvatureOf_closed, edgeSumR_scale]; ring

/-- the size properties whose getters are closed forms of the model state -/
def IsSize (p : SPHProp) : Prop := p = .volume ∨ p = .surfaceArea ∨ p = .meanCurvature

/-- **the edge-sum getters after `_rescale(k)`** -/
theorem get_scaled (fi : List FaceIx) (ball : SPHProp → SPHState ℝ → Except String ℝ) (p : SPHProp)
    (hp : IsSize p) (s : SPHState ℝ) {k : ℝ} (hk : 0 ≤ k) :
    get fi ball p (scaled s k) = Except.map (· * k ^ p.deg) (get fi ball p s) := by
  have hb := fun es => bodies_scale s.core.volume s.core.area s.radius k es
  rcases hp with rfl | rfl | rfl
  · show SpheroPolyhedron.volume (coreOf (scaled s k) fi) (s.radius * k) = _
    unfold SpheroPolyhedron.volume
    rw [edgeTerms_scaled s fi hk]
    show _ = Except.map (· * k ^ 3) (do let es ← CP.edgeTerms (coreOf s fi)
                                        pure (SpheroPolyhedron.volumeOf s.core.volume s.core.area s.radius es))
    cases CP.edgeTerms (coreOf s fi) with
    | error e => rfl
    | ok es => exact congrArg Except.ok (hb es).1
  · show SpheroPolyhedron.surfaceArea (coreOf (scaled s k) fi) (s.radius * k) = _
    unfold SpheroPolyhedron.surfaceArea
    rw [edgeTerms_scaled s fi hk]
    show _ = Except.map (· * k ^ 2) (do let es ← CP.edgeTerms (coreOf s fi)
                                        pure (SpheroPolyhedron.surfaceAreaOf s.core.area s.radius es))
    cases CP.edgeTerms (coreOf s fi) with
    | error e => rfl
    | ok es => exact congrArg Except.ok (hb es).2.1
  · show SpheroPolyhedron.meanCurvature (coreOf (scaled s k) fi) (s.radius * k) = _
    unfold SpheroPolyhedron.meanCurvature
    rw [edgeTerms_scaled s fi hk]
    show _ = Except.map (· * k ^ 1) (do let es ← CP.edgeTerms (coreOf s fi)
                                        pure (SpheroPolyhedron.meanCurvatureOf s.radius es))
    cases CP.edgeTerms (coreOf s fi) with
    | error e => rfl
    | ok es => exact congrArg Except.ok (hb es).2.2

theorem isSize_deg {p : SPHProp} (hp : IsSize p) : p.deg = 1 ∨ p.deg = 2 ∨ p.deg = 3 := by
  rcases hp with rfl | rfl | rfl
  · exact Or.inr (Or.inr rfl)
  · exact Or.inr (Or.inl rfl)
  · exact Or.inl rfl

theorem set_size_unfold (fi : List FaceIx) (ball : SPHProp → SPHState ℝ → Except String ℝ) (p : SPHProp)
    (hp : p ≠ .radius) (s : SPHState ℝ) (v : ℝ) :
    set fi ball p s v = (do let k ← factorE p.deg (get fi ball p s) v; s.rescale k) := by
  cases p with
  | radius => exact absurd rfl hp
  | volume => rfl
  | surfaceArea => rfl
  | meanCurvature => rfl
  | ball bp => rfl

/-- **`ConvexSpheropolyhedron.volume / surface_area / mean_curvature` setters read back through
the edge-sum getters, by one similarity**: the post-state is `scaled s k` (core vertices `k·old`,
rounding radius `k·old`, cached core volume / area times `k³` / `k²`) with `k > 0` -/
theorem set_size_reads_back (fi : List FaceIx) (ball : SPHProp → SPHState ℝ → Except String ℝ) (p : SPHProp)
    (hp : IsSize p) (s : SPHState ℝ) (hr : 0 ≤ s.radius) {cur v : ℝ}
    (hg : get fi ball p s = .ok cur) (hc : 0 < cur) (hv : 0 < v) :
    ∃ k, 0 < k ∧ set fi ball p s v = .ok (scaled s k) ∧ get fi ball p (scaled s k) = .ok v := by
  obtain ⟨k, hk, hf, he⟩ := factorE_spec (isSize_deg hp) hc hv
  have hne : p ≠ .radius := by rcases hp with rfl | rfl | rfl <;> simp
  refine ⟨k, hk, ?_, ?_⟩
  · rw [set_size_unfold fi ball p hne, hg, hf]
    exact sph_rescale_ok s hk.le hr
  · rw [get_scaled fi ball p hp s hk.le, hg]
    exact congrArg Except.ok he

/-- a good target on a property whose getter raises (the four ball radii: `NotImplementedError`):
the getter's exception propagates and there is no new state -/
theorem set_getter_raises (fi : List FaceIx) (ball : SPHProp → SPHState ℝ → Except String ℝ) (p : SPHProp)
    (hp : p ≠ .radius) (s : SPHState ℝ) {e : String} (hg : get fi ball p s = .error e) {v : ℝ} (hv : 0 < v) :
    set fi ball p s v = .error e := by
  rw [set_size_unfold fi ball p hp, hg, factorE_getter_raises _ e hv]; rfl

/-- **bad targets are refused by every scalar setter** (the rounding radius: negative values;
everything else: non-positive values), before any getter is read -/
theorem bad_target_refused (fi : List FaceIx) (ball : SPHProp → SPHState ℝ → Except String ℝ) (p : SPHProp)
    (s : SPHState ℝ) {v : ℝ} (hv : if p = .radius then v < 0 else ¬ 0 < v) :
    set fi ball p s v = .error "ValueError" := by
  by_cases hp : p = .radius
  · subst hp
    simp only [if_true] at hv
    exact sph_setRadiusAbs_bad s (not_le.mpr hv)
  · simp only [if_neg hp] at hv
    rw [set_size_unfold fi ball p hp, factorE_bad _ _ hv]; rfl

end Spheropolyhedron
end Setters
end
