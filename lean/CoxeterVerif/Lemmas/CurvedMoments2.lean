import CoxeterVerif.Lemmas.CurvedMoments
/-!
  C10: moments of the solid ellipse / ellipsoid with semi-axes `a_i` (any dimension `n`), centred and translated,
  by the diagonal change of variables from the unit ball.
-/
open MeasureTheory Metric
noncomputable section
namespace C10

variable {n : ℕ}

local notation "𝔼" n => EuclideanSpace ℝ (Fin n)

/-- the solid ellipsoid `{x | Σ (x_i/a_i)² ≤ 1}` in `ℝⁿ` -/
def ellSet (a : Fin n → ℝ) : Set (𝔼 n) := {x | ∑ i, (x i / a i) ^ 2 ≤ 1}

/-- centred at `q` -/
def ellSetAt (a : Fin n → ℝ) (q : 𝔼 n) : Set (𝔼 n) := {x | ∑ i, ((x i - q i) / a i) ^ 2 ≤ 1}

theorem ellSet_eq_preimage (a : Fin n → ℝ) :
    ellSet a = (diagMap fun i => (a i)⁻¹) ⁻¹' closedBall (0 : 𝔼 n) 1 := by
  ext x
  simp only [ellSet, Set.mem_ofPred_eq, Set.mem_preimage, mem_closedBall_zero_iff, EuclideanSpace.norm_eq,
    Real.sqrt_le_one, diagMap_apply, Real.norm_eq_abs, sq_abs]
  simp only [div_eq_inv_mul]

theorem ellSetAt_eq (a : Fin n → ℝ) (q : 𝔼 n) : ellSetAt a q = (fun x => x + -q) ⁻¹' ellSet a := by
  ext x; simp [ellSetAt, ellSet, sub_eq_add_neg]

theorem isClosed_ellSet (a : Fin n → ℝ) : IsClosed (ellSet a) := by
  rw [ellSet_eq_preimage]
  exact isClosed_closedBall.preimage (LinearMap.continuous_of_finiteDimensional _)

theorem measurableSet_ellSet (a : Fin n → ℝ) : MeasurableSet (ellSet a) := (isClosed_ellSet a).measurableSet

theorem measurableSet_ellSetAt (a : Fin n → ℝ) (q : 𝔼 n) : MeasurableSet (ellSetAt a q) := by
  rw [ellSetAt_eq]
  exact (measurableSet_ellSet a).preimage (measurable_id.add_const _)

theorem abs_coord_le_of_mem_ellSet (a : Fin n → ℝ) (ha : ∀ i, 0 < a i) {x : 𝔼 n} (hx : x ∈ ellSet a) (i : Fin n) :
    |x i| ≤ a i := by
  have h1 : (x i / a i) ^ 2 ≤ ∑ j, (x j / a j) ^ 2 :=
    Finset.single_le_sum (f := fun j => (x j / a j) ^ 2) (fun j _ => sq_nonneg _) (Finset.mem_univ i)
  have h2 : (x i / a i) ^ 2 ≤ 1 := h1.trans hx
  rw [div_pow, div_le_one (by have := ha i; positivity)] at h2
  exact abs_le_of_sq_le_sq h2 (ha i).le

theorem isBounded_ellSet (a : Fin n → ℝ) (ha : ∀ i, 0 < a i) : Bornology.IsBounded (ellSet a) := by
  apply (isBounded_closedBall (x := (0 : 𝔼 n)) (r := Real.sqrt (∑ i, a i ^ 2))).subset
  intro x hx
  rw [mem_closedBall_zero_iff, EuclideanSpace.norm_eq]
  apply Real.sqrt_le_sqrt
  apply Finset.sum_le_sum
  intro i _
  rw [Real.norm_eq_abs, sq_abs]
  have := abs_coord_le_of_mem_ellSet a ha hx i
  exact sq_le_sq' (by linarith [abs_le.mp this |>.1]) (abs_le.mp this |>.2)

instance (a : Fin n → ℝ) [Fact (∀ i, 0 < a i)] : IsFiniteMeasure (volume.restrict (ellSet a)) :=
  ⟨by rw [Measure.restrict_apply_univ]; exact (isBounded_ellSet a Fact.out).measure_lt_top⟩

/-- change of variables `p = (a_i y_i)`: integrals over the ellipsoid are `∏ a_i` times integrals over the unit ball -/
theorem setIntegral_ellSet (a : Fin n → ℝ) (ha : ∀ i, 0 < a i) (h : (𝔼 n) → ℝ) :
    ∫ p in ellSet a, h p = (∏ i, a i) * ∫ y in closedBall (0 : 𝔼 n) 1, h (diagMap a y) := by
  have hdet : LinearMap.det (diagMap fun i => (a i)⁻¹) = (∏ i, a i)⁻¹ := by
    rw [det_diagMap, Finset.prod_inv_distrib]
  have hpos : 0 < ∏ i, a i := Finset.prod_pos fun i _ => ha i
  have hne : LinearMap.det (diagMap fun i => (a i)⁻¹) ≠ 0 := by rw [hdet]; positivity
  have := setIntegral_preimage_linear (diagMap fun i => (a i)⁻¹) hne (closedBall 0 1) (fun y => h (diagMap a y))
  rw [← ellSet_eq_preimage, hdet, inv_inv, abs_of_pos hpos] at this
  rw [← this]
  congr 1; funext x; congr 1
  ext i
  rw [diagMap_apply, diagMap_apply, ← mul_assoc, mul_inv_cancel₀ (ha i).ne', one_mul]

/-- translation: integrals over the ellipsoid centred at `q` -/
theorem setIntegral_ellSetAt (a : Fin n → ℝ) (q : 𝔼 n) (h : (𝔼 n) → ℝ) :
    ∫ p in ellSetAt a q, h p = ∫ p in ellSet a, h (p + q) := by
  rw [← integral_indicator (measurableSet_ellSetAt a q), ← integral_indicator (measurableSet_ellSet a),
    ← integral_add_right_eq_self _ q]
  congr 1; funext p
  by_cases hp : p ∈ ellSet a
  · have : p + q ∈ ellSetAt a q := by rw [ellSetAt_eq]; simpa using hp
    rw [Set.indicator_of_mem this, Set.indicator_of_mem hp]
  · have : p + q ∉ ellSetAt a q := by rw [ellSetAt_eq]; simpa using hp
    rw [Set.indicator_of_notMem this, Set.indicator_of_notMem hp]

/-! ### the centred moments -/

theorem ellSet_volume (a : Fin n → ℝ) (ha : ∀ i, 0 < a i) :
    volume.real (ellSet a) = (∏ i, a i) * volume.real (closedBall (0 : 𝔼 n) 1) := by
  have := setIntegral_ellSet a ha (fun _ => (1 : ℝ))
  simpa [integral_const] using this

theorem ellSet_first_moment (a : Fin n → ℝ) (ha : ∀ i, 0 < a i) (i : Fin n) :
    ∫ p in ellSet a, p i = 0 := by
  rw [setIntegral_ellSet a ha (fun p => p i)]
  simp only [diagMap_apply]
  rw [integral_const_mul, ball_first_moment]; ring

theorem ellSet_product_moment (a : Fin n → ℝ) (ha : ∀ i, 0 < a i) (i j : Fin n) (hij : i ≠ j) :
    ∫ p in ellSet a, p i * p j = 0 := by
  rw [setIntegral_ellSet a ha (fun p => p i * p j)]
  simp only [diagMap_apply]
  have : (fun y : 𝔼 n => a i * y i * (a j * y j)) = fun y => (a i * a j) * (y i * y j) := by funext y; ring
  rw [this, integral_const_mul, ball_product_moment 1 i j hij]; ring

theorem ellSet_sq_moment (m : ℕ) (a : Fin (m + 1) → ℝ) (ha : ∀ i, 0 < a i) (i : Fin (m + 1)) :
    ∫ p in ellSet a, p i * p i
      = (∏ k, a k) * a i ^ 2 * volume.real (ball (0 : 𝔼 (m + 1)) 1) / (m + 3) := by
  rw [setIntegral_ellSet a ha (fun p => p i * p i)]
  simp only [diagMap_apply]
  have : (fun y : 𝔼 (m + 1) => a i * y i * (a i * y i)) = fun y => (a i ^ 2) * (y i ^ 2) := by funext y; ring
  rw [this, integral_const_mul, ball_sq_moment m 1 zero_le_one i]; simp; ring

/-! ### integrability of the coordinates on the ellipsoid -/

theorem memLp_coord_ellSet (a : Fin n → ℝ) (ha : ∀ i, 0 < a i) (i : Fin n) :
    MemLp (fun p : 𝔼 n => p i) 2 (volume.restrict (ellSet a)) := by
  have : Fact (∀ i, 0 < a i) := ⟨ha⟩
  apply MemLp.of_bound (continuous_coord i).aestronglyMeasurable (a i)
  apply ae_restrict_of_forall_mem (measurableSet_ellSet a)
  intro x hx
  rw [Real.norm_eq_abs]
  exact abs_coord_le_of_mem_ellSet a ha hx i

end C10
