import CoxeterVerif.Lemmas.Families
import Mathlib.NumberTheory.Real.Irrational
import Mathlib.Tactic.NormNum.Prime
/-! Soundness of the exact ℤ[√5] vertex-set checker `Fam.isVertexSet` with respect to the real
    polytope: what `decide +kernel` establishes on the tables is a statement about ℝ³. -/
open Scalar
set_option maxRecDepth 4000

namespace Fam
noncomputable section

/-- real value of `p + q√5` -/
def Z5.toReal (z : Z5) : ℝ := (z.p : ℝ) + (z.q : ℝ) * Real.sqrt 5

theorem sqrt5_mul_self : Real.sqrt 5 * Real.sqrt 5 = 5 := Real.mul_self_sqrt (by norm_num)
theorem sqrt5_pos : 0 < Real.sqrt 5 := Real.sqrt_pos.mpr (by norm_num)

theorem sqrt5_irrational : Irrational (Real.sqrt 5) := by
  have := Nat.Prime.irrational_sqrt (by norm_num : Nat.Prime 5)
  simpa using this

namespace Z5

@[simp] theorem toReal_zero : (Z5.zero).toReal = 0 := by simp [Z5.toReal, Z5.zero]
@[simp] theorem toReal_ofI (i : Int) : (Z5.ofI i).toReal = (i : ℝ) := by simp [Z5.toReal, Z5.ofI]
@[simp] theorem toReal_add (a b : Z5) : (Z5.add a b).toReal = a.toReal + b.toReal := by
  simp only [Z5.toReal, Z5.add]; push_cast; ring
@[simp] theorem toReal_sub (a b : Z5) : (Z5.sub a b).toReal = a.toReal - b.toReal := by
  simp only [Z5.toReal, Z5.sub]; push_cast; ring
@[simp] theorem toReal_neg (a : Z5) : (Z5.neg a).toReal = -a.toReal := by
  simp only [Z5.toReal, Z5.neg]; push_cast; ring
@[simp] theorem toReal_mul (a b : Z5) : (Z5.mul a b).toReal = a.toReal * b.toReal := by
  simp only [Z5.toReal, Z5.mul]; push_cast
  linear_combination (-(a.q : ℝ) * b.q) * sqrt5_mul_self
@[simp] theorem toReal_smulI (k : Int) (a : Z5) : (Z5.smulI k a).toReal = (k : ℝ) * a.toReal := by
  simp only [Z5.toReal, Z5.smulI]; push_cast; ring

theorem toReal_eq_zero_iff (z : Z5) : z.toReal = 0 ↔ z.p = 0 ∧ z.q = 0 := by
  constructor
  · intro h
    by_cases hq : z.q = 0
    · refine ⟨?_, hq⟩
      simp only [Z5.toReal, hq, Int.cast_zero, zero_mul, add_zero] at h
      exact_mod_cast h
    · exfalso
      apply sqrt5_irrational
      refine ⟨(-(z.p : ℚ) / (z.q : ℚ)), ?_⟩
      have hq' : (z.q : ℝ) ≠ 0 := by exact_mod_cast hq
      simp only [Z5.toReal] at h
      push_cast
      field_simp
      linarith
  · rintro ⟨hp, hq⟩; simp [Z5.toReal, hp, hq]

/-- the computed sign is the sign of the real value -/
theorem sgn_spec (z : Z5) :
    (z.sgn = 1 ∧ 0 < z.toReal) ∨ (z.sgn = 0 ∧ z.toReal = 0) ∨ (z.sgn = -1 ∧ z.toReal < 0) := by
  have h5 := sqrt5_mul_self
  have hp5 := sqrt5_pos
  unfold Z5.sgn
  by_cases h0 : (z.p == 0 && z.q == 0) = true
  · rw [if_pos h0]
    simp only [Bool.and_eq_true, beq_iff_eq] at h0
    right; left; exact ⟨rfl, (toReal_eq_zero_iff z).mpr h0⟩
  · rw [if_neg h0]
    simp only [Bool.and_eq_true, beq_iff_eq, not_and] at h0
    by_cases h1 : (decide (0 ≤ z.p) && decide (0 ≤ z.q)) = true
    · rw [if_pos h1]
      simp only [Bool.and_eq_true, decide_eq_true_eq] at h1
      left; refine ⟨rfl, ?_⟩
      have hp : (0:ℝ) ≤ z.p := by exact_mod_cast h1.1
      have hq : (0:ℝ) ≤ z.q := by exact_mod_cast h1.2
      rcases lt_or_eq_of_le h1.1 with hpp | hpp
      · have : (0:ℝ) < z.p := by exact_mod_cast hpp
        simp only [Z5.toReal]; nlinarith
      · have hq0 : z.q ≠ 0 := fun hq0 => (h0 hpp.symm) hq0
        have : (0:ℝ) < z.q := by
          have : 0 < z.q := lt_of_le_of_ne h1.2 (Ne.symm hq0)
          exact_mod_cast this
        simp only [Z5.toReal]; nlinarith
    · rw [if_neg h1]
      simp only [Bool.and_eq_true, decide_eq_true_eq, not_and, not_le] at h1
      by_cases h2 : (decide (z.p ≤ 0) && decide (z.q ≤ 0)) = true
      · rw [if_pos h2]
        simp only [Bool.and_eq_true, decide_eq_true_eq] at h2
        right; right; refine ⟨rfl, ?_⟩
        have hp : (z.p : ℝ) ≤ 0 := by exact_mod_cast h2.1
        have hq : (z.q : ℝ) ≤ 0 := by exact_mod_cast h2.2
        rcases lt_or_eq_of_le h2.1 with hpp | hpp
        · have : (z.p : ℝ) < 0 := by exact_mod_cast hpp
          simp only [Z5.toReal]; nlinarith
        · have hq0 : z.q ≠ 0 := fun hq0 => (h0 hpp) hq0
          have : (z.q : ℝ) < 0 := by
            have : z.q < 0 := lt_of_le_of_ne h2.2 hq0
            exact_mod_cast this
          simp only [Z5.toReal]; nlinarith
      · rw [if_neg h2]
        simp only [Bool.and_eq_true, decide_eq_true_eq, not_and, not_le] at h2
        by_cases h3 : decide (0 < z.p) = true
        · rw [if_pos h3]
          simp only [decide_eq_true_eq] at h3
          have hq : z.q < 0 := h1 h3.le
          have hpR : (0:ℝ) < z.p := by exact_mod_cast h3
          have hqR : (z.q : ℝ) < 0 := by exact_mod_cast hq
          by_cases h4 : decide (5 * (z.q * z.q) < z.p * z.p) = true
          · rw [if_pos h4]
            simp only [decide_eq_true_eq] at h4
            have h4R : 5 * ((z.q : ℝ) * z.q) < (z.p : ℝ) * z.p := by exact_mod_cast h4
            left; refine ⟨rfl, ?_⟩
            simp only [Z5.toReal]
            by_contra hcon
            push Not at hcon
            have : (z.p : ℝ) ≤ -(z.q : ℝ) * Real.sqrt 5 := by linarith
            have hsq : (z.p : ℝ) * z.p ≤ (-(z.q : ℝ) * Real.sqrt 5) * (-(z.q : ℝ) * Real.sqrt 5) :=
              mul_le_mul this this hpR.le (by nlinarith)
            nlinarith
          · rw [if_neg h4]
            simp only [decide_eq_true_eq, not_lt] at h4
            have h4R : (z.p : ℝ) * z.p ≤ 5 * ((z.q : ℝ) * z.q) := by exact_mod_cast h4
            right; right; refine ⟨rfl, ?_⟩
            by_contra hcon
            push Not at hcon
            simp only [Z5.toReal] at hcon
            have hge : -(z.q : ℝ) * Real.sqrt 5 ≤ (z.p : ℝ) := by linarith
            have hnn : 0 ≤ -(z.q : ℝ) * Real.sqrt 5 := by nlinarith
            have hsq : (-(z.q : ℝ) * Real.sqrt 5) * (-(z.q : ℝ) * Real.sqrt 5) ≤ (z.p : ℝ) * z.p :=
              mul_le_mul hge hge hnn hpR.le
            have heq : (z.p : ℝ) * z.p = 5 * ((z.q : ℝ) * z.q) := by nlinarith
            have hprod : ((z.p : ℝ) + z.q * Real.sqrt 5) * ((z.p : ℝ) - z.q * Real.sqrt 5) = 0 := by
              nlinarith
            have hpos : 0 < (z.p : ℝ) - z.q * Real.sqrt 5 := by nlinarith
            have hz : (z.p : ℝ) + z.q * Real.sqrt 5 = 0 := by
              rcases mul_eq_zero.mp hprod with h | h
              · exact h
              · linarith
            have := (toReal_eq_zero_iff z).mp hz
            omega
        · rw [if_neg h3]
          simp only [decide_eq_true_eq, not_lt] at h3
          have hp : z.p < 0 := by
            rcases lt_or_eq_of_le h3 with h | h
            · exact h
            · exfalso
              rcases lt_trichotomy z.q 0 with hq | hq | hq
              · have := h2 h3; omega
              · exact h0 h hq
              · have := h1 (by omega); omega
          have hq : 0 < z.q := h2 hp.le
          have hpR : (z.p : ℝ) < 0 := by exact_mod_cast hp
          have hqR : (0:ℝ) < z.q := by exact_mod_cast hq
          by_cases h4 : decide (z.p * z.p < 5 * (z.q * z.q)) = true
          · rw [if_pos h4]
            simp only [decide_eq_true_eq] at h4
            have h4R : (z.p : ℝ) * z.p < 5 * ((z.q : ℝ) * z.q) := by exact_mod_cast h4
            left; refine ⟨rfl, ?_⟩
            simp only [Z5.toReal]
            by_contra hcon
            push Not at hcon
            have hle : (z.q : ℝ) * Real.sqrt 5 ≤ -(z.p : ℝ) := by linarith
            have hnn : 0 ≤ (z.q : ℝ) * Real.sqrt 5 := by nlinarith
            have hsq : ((z.q : ℝ) * Real.sqrt 5) * ((z.q : ℝ) * Real.sqrt 5) ≤ (-(z.p : ℝ)) * (-(z.p : ℝ)) :=
              mul_le_mul hle hle hnn (by linarith)
            nlinarith
          · rw [if_neg h4]
            simp only [decide_eq_true_eq, not_lt] at h4
            have h4R : 5 * ((z.q : ℝ) * z.q) ≤ (z.p : ℝ) * z.p := by exact_mod_cast h4
            right; right; refine ⟨rfl, ?_⟩
            by_contra hcon
            push Not at hcon
            simp only [Z5.toReal] at hcon
            have hge : -(z.p : ℝ) ≤ (z.q : ℝ) * Real.sqrt 5 := by linarith
            have hsq : (-(z.p : ℝ)) * (-(z.p : ℝ)) ≤ ((z.q : ℝ) * Real.sqrt 5) * ((z.q : ℝ) * Real.sqrt 5) :=
              mul_le_mul hge hge (by linarith) (by nlinarith)
            have heq : (z.p : ℝ) * z.p = 5 * ((z.q : ℝ) * z.q) := by nlinarith
            have hprod : ((z.p : ℝ) + z.q * Real.sqrt 5) * ((z.p : ℝ) - z.q * Real.sqrt 5) = 0 := by
              nlinarith
            have hneg : (z.p : ℝ) - z.q * Real.sqrt 5 < 0 := by nlinarith
            have hz : (z.p : ℝ) + z.q * Real.sqrt 5 = 0 := by
              rcases mul_eq_zero.mp hprod with h | h
              · exact h
              · linarith
            have := (toReal_eq_zero_iff z).mp hz
            omega

theorem sgn_pos_iff (z : Z5) : 0 < z.sgn ↔ 0 < z.toReal := by
  rcases sgn_spec z with ⟨h, h'⟩ | ⟨h, h'⟩ | ⟨h, h'⟩ <;> rw [h] <;> constructor <;> intro hh <;>
    first | linarith

theorem sgn_nonneg_iff (z : Z5) : 0 ≤ z.sgn ↔ 0 ≤ z.toReal := by
  rcases sgn_spec z with ⟨h, h'⟩ | ⟨h, h'⟩ | ⟨h, h'⟩ <;> rw [h] <;> constructor <;> intro hh <;>
    first | linarith

theorem sgn_eq_zero_iff (z : Z5) : z.sgn = 0 ↔ z.toReal = 0 := by
  rcases sgn_spec z with ⟨h, h'⟩ | ⟨h, h'⟩ | ⟨h, h'⟩ <;> rw [h] <;> constructor <;> intro hh <;>
    first | linarith

theorem sgn_neg_iff (z : Z5) : z.sgn < 0 ↔ z.toReal < 0 := by
  rcases sgn_spec z with ⟨h, h'⟩ | ⟨h, h'⟩ | ⟨h, h'⟩ <;> rw [h] <;> constructor <;> intro hh <;>
    first | linarith

theorem le_iff (a b : Z5) : Z5.le a b = true ↔ a.toReal ≤ b.toReal := by
  simp only [Z5.le, decide_eq_true_eq, sgn_nonneg_iff, toReal_sub]; constructor <;> intro h <;> linarith

theorem lt_iff (a b : Z5) : Z5.lt a b = true ↔ a.toReal < b.toReal := by
  simp only [Z5.lt, decide_eq_true_eq, sgn_pos_iff, toReal_sub]; constructor <;> intro h <;> linarith

theorem isZero_iff (a : Z5) : a.isZero = true ↔ a.toReal = 0 := by
  simp only [Z5.isZero, Bool.and_eq_true, beq_iff_eq]; exact (toReal_eq_zero_iff a).symm

theorem beq_iff_toReal (a b : Z5) : (a == b) = true ↔ a.toReal = b.toReal := by
  constructor
  · intro h; rw [beq_iff_eq] at h; rw [h]
  · intro h
    have : (Z5.sub a b).toReal = 0 := by rw [toReal_sub]; linarith
    have := (toReal_eq_zero_iff _).mp this
    rw [beq_iff_eq]
    obtain ⟨ap, aq⟩ := a
    obtain ⟨bp, bq⟩ := b
    simp only [Z5.sub] at this
    simp only [Z5.mk.injEq]
    constructor <;> omega

theorem toReal_withSign (s : Int) (a : Z5) :
    (Z5.withSign s a).toReal = (if s < 0 then -a.toReal else a.toReal) := by
  unfold Z5.withSign; split_ifs <;> simp

end Z5

/-! ### vectors and rows -/

def ZV.toReal (v : ZV) : V3 ℝ := ⟨v.1.toReal, v.2.1.toReal, v.2.2.toReal⟩
/-- a half-space of the table as a real row `(P, D)` -/
def rowR (r : ZRow) : Row ℝ := (ZV.toReal r.1, r.2.toReal)

theorem dot_toReal (u v : ZV) : (ZV.dot u v).toReal = V3.dot (ZV.toReal u) (ZV.toReal v) := by
  simp [ZV.dot, ZV.toReal, V3.dot]

theorem cross_toReal (u v : ZV) : ZV.toReal (ZV.cross u v) = V3.cross (ZV.toReal u) (ZV.toReal v) := by
  simp [ZV.cross, ZV.toReal, V3.cross]

theorem add_toReal (u v : ZV) : ZV.toReal (ZV.add u v) = ZV.toReal u + ZV.toReal v := by
  apply V3.ext' <;> simp [ZV.add, ZV.toReal]

theorem smul_toReal (k : Z5) (u : ZV) : ZV.toReal (ZV.smul k u) = V3.smul k.toReal (ZV.toReal u) := by
  apply V3.ext' <;> simp [ZV.smul, ZV.toReal]

theorem withSign_toReal (s : Int) (u : ZV) :
    ZV.toReal (ZV.withSign s u) = (if s < 0 then -(ZV.toReal u) else ZV.toReal u) := by
  unfold ZV.withSign
  split_ifs with h <;> apply V3.ext' <;> simp [ZV.toReal, Z5.toReal_withSign, h]

theorem zvbeq_iff (u v : ZV) : ZV.beq u v = true ↔ ZV.toReal u = ZV.toReal v := by
  simp only [ZV.beq, Bool.and_eq_true, Z5.beq_iff_toReal, ZV.toReal, V3.mk.injEq, and_assoc]

theorem zDet_toReal (r0 r1 r2 : ZRow) :
    (zDet r0 r1 r2).toReal = tripleDet (rowR r0, rowR r1, rowR r2) := by
  simp [zDet, tripleDet, V3.det3, dot_toReal, cross_toReal, rowR]

theorem solve3_rowR (r0 r1 r2 : ZRow) :
    solve3 (rowR r0, rowR r1, rowR r2) =
      V3.sdiv (ZV.toReal (zNum r0 r1 r2)) (zDet r0 r1 r2).toReal := by
  rw [zDet_toReal]
  simp [solve3, zNum, add_toReal, smul_toReal, cross_toReal, rowR]

theorem zFeasible_iff (R : List ZRow) (N : ZV) (dd : Z5) :
    zFeasible R N dd = true ↔
      ∀ r ∈ R, V3.dot (ZV.toReal r.1) (ZV.toReal N) ≤ r.2.toReal * dd.toReal := by
  simp [zFeasible, List.all_eq_true, Z5.le_iff, dot_toReal]

/-- feasibility of the point `N/dd` (dd > 0) in the real polytope -/
theorem feasible_div_iff (R : List ZRow) (N : ZV) (dd : Z5) (hdd : 0 < dd.toReal) :
    zFeasible R N dd = true ↔
      ∀ r ∈ R.map rowR, V3.dot r.1 (V3.sdiv (ZV.toReal N) dd.toReal) ≤ r.2 := by
  rw [zFeasible_iff]
  simp only [List.mem_map, forall_exists_index, and_imp]
  constructor
  · rintro h _ r hr rfl
    have := h r hr
    simp only [rowR, V3.dot, V3.sdiv_x, V3.sdiv_y, V3.sdiv_z] at this ⊢
    rw [← sub_nonneg] at this ⊢
    have e : r.2.toReal - ((ZV.toReal r.1).x * ((ZV.toReal N).x / dd.toReal) +
        (ZV.toReal r.1).y * ((ZV.toReal N).y / dd.toReal) + (ZV.toReal r.1).z * ((ZV.toReal N).z / dd.toReal))
        = (r.2.toReal * dd.toReal - ((ZV.toReal r.1).x * (ZV.toReal N).x +
        (ZV.toReal r.1).y * (ZV.toReal N).y + (ZV.toReal r.1).z * (ZV.toReal N).z)) / dd.toReal := by
      field_simp
    rw [e]; exact div_nonneg this hdd.le
  · intro h r hr
    have := h (rowR r) r hr rfl
    simp only [rowR, V3.dot, V3.sdiv_x, V3.sdiv_y, V3.sdiv_z] at this ⊢
    rw [← sub_nonneg] at this ⊢
    have e : r.2.toReal - ((ZV.toReal r.1).x * ((ZV.toReal N).x / dd.toReal) +
        (ZV.toReal r.1).y * ((ZV.toReal N).y / dd.toReal) + (ZV.toReal r.1).z * ((ZV.toReal N).z / dd.toReal))
        = (r.2.toReal * dd.toReal - ((ZV.toReal r.1).x * (ZV.toReal N).x +
        (ZV.toReal r.1).y * (ZV.toReal N).y + (ZV.toReal r.1).z * (ZV.toReal N).z)) / dd.toReal := by
      field_simp
    rw [e] at this
    have := mul_nonneg this hdd.le
    rwa [div_mul_cancel₀ _ hdd.ne'] at this

/-! ### the real polytope -/

/-- `x` is a vertex of `{x | ∀ (P,D) ∈ R, P·x ≤ D}`: it satisfies every half-space and is the
    meeting point of three of the planes (at increasing positions) with non-zero determinant -/
def IsVertexR (R : List (Row ℝ)) (x : V3 ℝ) : Prop :=
  (∀ r ∈ R, V3.dot r.1 x ≤ r.2) ∧
  ∃ t : Row ℝ × Row ℝ × Row ℝ, [t.1, t.2.1, t.2.2].Sublist R ∧ tripleDet t ≠ 0 ∧
    V3.dot t.1.1 x = t.1.2 ∧ V3.dot t.2.1.1 x = t.2.1.2 ∧ V3.dot t.2.2.1 x = t.2.2.2

theorem zPairsOk_spec (R : List ZRow) (V : List ZV) (vd : Z5) (r0 : ZRow) (L : List ZRow)
    (h : zPairsOk R V vd r0 L = true) (r1 r2 : ZRow) (hs : [r1, r2].Sublist L) :
    zTripleOk R V vd r0 r1 r2 = true := by
  induction L with
  | nil => simp at hs
  | cons y ys ih =>
    simp only [zPairsOk, Bool.and_eq_true, List.all_eq_true] at h
    cases hs with
    | cons _ h' => exact ih h.2 h'
    | cons_cons _ h' => exact h.1 r2 (List.singleton_sublist.mp h')

theorem zComplete_spec (R : List ZRow) (V : List ZV) (vd : Z5) (L : List ZRow)
    (h : zComplete R V vd L = true) (r0 r1 r2 : ZRow) (hs : [r0, r1, r2].Sublist L) :
    zTripleOk R V vd r0 r1 r2 = true := by
  induction L with
  | nil => simp at hs
  | cons y ys ih =>
    simp only [zComplete, Bool.and_eq_true] at h
    cases hs with
    | cons _ h' => exact ih h.2 h'
    | cons_cons _ h' => exact zPairsOk_spec R V vd _ ys h.1 r1 r2 h'

theorem indepPairs_spec (r0 : ZRow) (L : List ZRow)
    (h : zHasIndependentTriple.pairs r0 L = true) :
    ∃ r1 r2, [r1, r2].Sublist L ∧ (zDet r0 r1 r2).isZero = false := by
  induction L with
  | nil => simp [zHasIndependentTriple.pairs] at h
  | cons y ys ih =>
    simp only [zHasIndependentTriple.pairs, Bool.or_eq_true, List.any_eq_true] at h
    rcases h with ⟨r2, hr2, hz⟩ | h
    · refine ⟨y, r2, List.Sublist.cons_cons _ (List.singleton_sublist.mpr hr2), ?_⟩
      simpa using hz
    · obtain ⟨r1, r2, hs, hz⟩ := ih h
      exact ⟨r1, r2, List.Sublist.cons _ hs, hz⟩

theorem indepTriple_spec (L : List ZRow) (h : zHasIndependentTriple L = true) :
    ∃ r0 r1 r2, [r0, r1, r2].Sublist L ∧ (zDet r0 r1 r2).isZero = false := by
  induction L with
  | nil => simp [zHasIndependentTriple] at h
  | cons y ys ih =>
    simp only [zHasIndependentTriple, Bool.or_eq_true] at h
    rcases h with h | h
    · obtain ⟨r1, r2, hs, hz⟩ := indepPairs_spec y ys h
      exact ⟨y, r1, r2, List.Sublist.cons_cons _ hs, hz⟩
    · obtain ⟨r0, r1, r2, hs, hz⟩ := ih h
      exact ⟨r0, r1, r2, List.Sublist.cons _ hs, hz⟩


theorem dot_sdiv (u v : V3 ℝ) (k : ℝ) : V3.dot u (V3.sdiv v k) = V3.dot u v / k := by
  simp only [V3.dot, V3.sdiv_x, V3.sdiv_y, V3.sdiv_z]; ring

theorem sdiv_eq_sdiv {u v : V3 ℝ} {a b : ℝ} (ha : a ≠ 0) (hb : b ≠ 0)
    (h : V3.smul b u = V3.smul a v) : V3.sdiv u a = V3.sdiv v b := by
  have hx := congrArg V3.x h; have hy := congrArg V3.y h; have hz := congrArg V3.z h
  simp only [V3.smul_x, V3.smul_y, V3.smul_z] at hx hy hz
  apply V3.ext' <;> simp only [V3.sdiv_x, V3.sdiv_y, V3.sdiv_z] <;>
    rw [div_eq_div_iff ha hb] <;> linarith

/-- **Soundness of the checker.** If `isVertexSet R V vd` evaluates to `true` then `vd > 0` and the
    vertices of the real polytope `{x | ∀ (P,D) ∈ R, P·x ≤ D}` are exactly the points `v / vd`,
    `v ∈ V`. -/
theorem isVertexSet_sound (R : List ZRow) (V : List ZV) (vd : Z5) (h : isVertexSet R V vd = true) :
    0 < vd.toReal ∧
    ∀ x : V3 ℝ, IsVertexR (R.map rowR) x ↔ ∃ v ∈ V, x = V3.sdiv (ZV.toReal v) vd.toReal := by
  simp only [isVertexSet, Bool.and_eq_true, List.all_eq_true] at h
  obtain ⟨⟨⟨hvd, _⟩, hV⟩, hC⟩ := h
  have hvd' : 0 < vd.toReal := by simpa using (Z5.lt_iff _ _).mp hvd
  refine ⟨hvd', fun x => ⟨?_, ?_⟩⟩
  · rintro ⟨hfeas, t, hsub, hdet, h0, h1, h2⟩
    obtain ⟨l', hl', hmap⟩ := List.sublist_map_iff.mp hsub
    obtain ⟨r0, r1, r2, rfl⟩ : ∃ r0 r1 r2, l' = [r0, r1, r2] := by
      have hlen : l'.length = 3 := by
        have := congrArg List.length hmap; simp at this; omega
      match l', hlen with
      | [a, b, c], _ => exact ⟨a, b, c, rfl⟩
    simp only [List.map_cons, List.map_nil, List.cons.injEq, and_true] at hmap
    obtain ⟨e0, e1, e2⟩ := hmap
    have ht : t = (rowR r0, rowR r1, rowR r2) := by
      rcases t with ⟨a, b, c⟩; simp only at e0 e1 e2; rw [e0, e1, e2]
    subst ht
    have hok := zComplete_spec R V vd R hC r0 r1 r2 hl'
    have hD : (zDet r0 r1 r2).toReal ≠ 0 := by rw [zDet_toReal]; exact hdet
    have hs0 : ¬ ((zDet r0 r1 r2).sgn == 0) = true := by
      rw [beq_iff_eq, Z5.sgn_eq_zero_iff]; exact hD
    have hx : x = V3.sdiv (ZV.toReal (zNum r0 r1 r2)) (zDet r0 r1 r2).toReal := by
      rw [← solve3_rowR]; exact solve3_unique _ hdet x h0 h1 h2
    -- the sign-normalised numerator / denominator
    set s := (zDet r0 r1 r2).sgn with hs
    set N := ZV.withSign s (zNum r0 r1 r2) with hN
    set dd := Z5.withSign s (zDet r0 r1 r2) with hdd
    have hddpos : 0 < dd.toReal := by
      rw [hdd, Z5.toReal_withSign]
      split_ifs with hneg
      · have := (Z5.sgn_neg_iff _).mp hneg; linarith
      · have : 0 ≤ (zDet r0 r1 r2).toReal := by
          have h' := (Z5.sgn_neg_iff (zDet r0 r1 r2)); rw [← hs] at h'
          by_contra hc; exact hneg (h'.mpr (by linarith))
        exact lt_of_le_of_ne this (Ne.symm hD)
    have hxN : x = V3.sdiv (ZV.toReal N) dd.toReal := by
      rw [hx, hN, hdd, withSign_toReal, Z5.toReal_withSign]
      split_ifs
      · apply V3.ext' <;> simp only [V3.sdiv_x, V3.sdiv_y, V3.sdiv_z, V3.neg_x, V3.neg_y, V3.neg_z] <;>
          rw [neg_div_neg_eq]
      · rfl
    have hfz : zFeasible R N dd = true := by
      rw [feasible_div_iff R N dd hddpos, ← hxN]; exact hfeas
    unfold zTripleOk at hok
    simp only [← hs, hs0, ← hN, ← hdd, hfz, if_true] at hok
    have hany : (V.any fun v => zSamePoint N dd v vd) = true := by
      exact hok
    obtain ⟨v, hv, hsame⟩ := List.any_eq_true.mp hany
    refine ⟨v, hv, ?_⟩
    rw [hxN]
    simp only [zSamePoint, zvbeq_iff, smul_toReal] at hsame
    exact sdiv_eq_sdiv hddpos.ne' hvd'.ne' hsame
  · rintro ⟨v, hv, rfl⟩
    have hvert := hV v hv
    simp only [zIsVertex, Bool.and_eq_true] at hvert
    obtain ⟨hf, hind⟩ := hvert
    refine ⟨(feasible_div_iff R v vd hvd').mp hf, ?_⟩
    obtain ⟨r0, r1, r2, hsub, hz⟩ := indepTriple_spec _ hind
    have hsubR : [r0, r1, r2].Sublist R := hsub.trans List.filter_sublist
    have htight : ∀ r ∈ [r0, r1, r2], V3.dot (rowR r).1 (V3.sdiv (ZV.toReal v) vd.toReal) = (rowR r).2 := by
      intro r hr
      have hmem := hsub.subset hr
      simp only [List.mem_filter, Z5.isZero_iff, Z5.toReal_sub, Z5.toReal_mul, dot_toReal] at hmem
      rw [dot_sdiv]
      simp only [rowR]
      rw [div_eq_iff hvd'.ne']; linarith [hmem.2]
    refine ⟨(rowR r0, rowR r1, rowR r2), ?_, ?_, htight r0 (by simp), htight r1 (by simp), htight r2 (by simp)⟩
    · exact hsubR.map rowR
    · rw [← zDet_toReal]
      intro h0
      have := (Z5.isZero_iff _).mpr h0
      rw [this] at hz; cases hz


/-! ### from the integer rows to the model's real rows -/

/-- multiply a half-space `(P, D)` by `k` -/
def scaleRow (k : ℝ) (r : Row ℝ) : Row ℝ := (V3.smul k r.1, k * r.2)

theorem tripleDet_scale (k : ℝ) (a b c : Row ℝ) :
    tripleDet (scaleRow k a, scaleRow k b, scaleRow k c) = k * k * k * tripleDet (a, b, c) := by
  simp only [tripleDet, scaleRow, V3.det3, V3.dot, V3.cross, V3.smul_x, V3.smul_y, V3.smul_z]; ring

theorem dot_scaleRow (k : ℝ) (r : Row ℝ) (x : V3 ℝ) :
    V3.dot (scaleRow k r).1 x = k * V3.dot r.1 x := by
  simp only [scaleRow, V3.dot, V3.smul_x, V3.smul_y, V3.smul_z]; ring

/-- scaling every half-space by the same positive factor does not change the vertices -/
theorem isVertexR_scale (k : ℝ) (hk : 0 < k) (R : List (Row ℝ)) (x : V3 ℝ) :
    IsVertexR (R.map (scaleRow k)) x ↔ IsVertexR R x := by
  have tight : ∀ r : Row ℝ, V3.dot (scaleRow k r).1 x = (scaleRow k r).2 ↔ V3.dot r.1 x = r.2 := by
    intro r; rw [dot_scaleRow]; simp only [scaleRow]
    constructor
    · intro h; exact mul_left_cancel₀ hk.ne' h
    · intro h; rw [h]
  constructor
  · rintro ⟨hf, t, hsub, hdet, h0, h1, h2⟩
    refine ⟨?_, ?_⟩
    · intro r hr
      have := hf (scaleRow k r) (List.mem_map_of_mem hr)
      rw [dot_scaleRow] at this
      simp only [scaleRow] at this
      exact le_of_mul_le_mul_left this hk
    · obtain ⟨l', hl', hmap⟩ := List.sublist_map_iff.mp hsub
      obtain ⟨r0, r1, r2, rfl⟩ : ∃ r0 r1 r2, l' = [r0, r1, r2] := by
        have hlen : l'.length = 3 := by
          have := congrArg List.length hmap; simp at this; omega
        match l', hlen with
        | [a, b, c], _ => exact ⟨a, b, c, rfl⟩
      simp only [List.map_cons, List.map_nil, List.cons.injEq, and_true] at hmap
      obtain ⟨e0, e1, e2⟩ := hmap
      have ht : t = (scaleRow k r0, scaleRow k r1, scaleRow k r2) := by
        rcases t with ⟨a, b, c⟩; simp only at e0 e1 e2; rw [e0, e1, e2]
      subst ht
      refine ⟨(r0, r1, r2), hl', ?_, (tight r0).mp h0, (tight r1).mp h1, (tight r2).mp h2⟩
      intro hz; apply hdet; rw [tripleDet_scale, hz, mul_zero]
  · rintro ⟨hf, t, hsub, hdet, h0, h1, h2⟩
    refine ⟨?_, ?_⟩
    · intro r hr
      obtain ⟨r', hr', rfl⟩ := List.mem_map.mp hr
      rw [dot_scaleRow]; simp only [scaleRow]
      exact mul_le_mul_of_nonneg_left (hf r' hr') hk.le
    · refine ⟨(scaleRow k t.1, scaleRow k t.2.1, scaleRow k t.2.2), hsub.map (scaleRow k), ?_,
        (tight _).mpr h0, (tight _).mpr h1, (tight _).mpr h2⟩
      rw [tripleDet_scale]
      have : k * k * k ≠ 0 := by positivity
      exact mul_ne_zero this hdet

theorem toScalar_eq_toReal (den : Nat) (z : Z5) : (z.toScalar den : ℝ) = z.toReal / den := by
  rw [toScalar_real]; rfl

/-- the model's real rows of a table at the parameters `a/den, b/den, c/den` are the integer
    rows scaled by `1/den` -/
theorem rows_eq_scaled (T : Table) (a c : Z5) :
    rows (T.planesS : List (V3 ℝ)) T.types (a.toScalar T.den) (T.b.toScalar T.den) (c.toScalar T.den)
      = ((T.zRows a c).map rowR).map (scaleRow (1 / (T.den : ℝ))) := by
  simp only [rows, Table.planesS, Table.zRows, Fam.zRows, List.map_map]
  rw [List.zipWith_map_left, List.map_zipWith]
  congr 1
  funext p t
  simp only [Function.comp, scaleRow, rowR, ZV.toReal, toScalar_eq_toReal, Prod.mk.injEq]
  constructor
  · apply V3.ext' <;> simp only [V3.smul_x, V3.smul_y, V3.smul_z] <;> ring
  · simp only [distOf, zDist]
    split_ifs <;> ring

/-- **Corner solids, real form.** If the kernel evaluates `T.cornerIs a c S` to `true` then, for
    the model's real plane table and the real parameters `a/den`, `c/den`, the vertices of the
    polytope `{x | ∀ j, P_j·x ≤ dist_j}` are exactly the points of the solid `S`. -/
theorem cornerIs_sound (T : Table) (a c : Z5) (S : Solid) (hden : 0 < T.den)
    (h : T.cornerIs a c S = true) (x : V3 ℝ) :
    IsVertexR (rows (T.planesS : List (V3 ℝ)) T.types (a.toScalar T.den) (T.b.toScalar T.den)
      (c.toScalar T.den)) x ↔ ∃ v ∈ S.V, x = V3.sdiv (ZV.toReal v) (S.td : ℝ) := by
  have hk : (0:ℝ) < 1 / (T.den : ℝ) := by
    have : (0:ℝ) < T.den := by exact_mod_cast hden
    positivity
  rw [rows_eq_scaled, isVertexR_scale _ hk]
  have := (isVertexSet_sound _ _ _ h).2 x
  simpa using this

/-- soundness half: every point of `S` is a vertex of the real polytope -/
theorem cornerHas_sound (T : Table) (a c : Z5) (S : Solid) (hden : 0 < T.den)
    (h : T.cornerHas a c S = true) (v : ZV) (hv : v ∈ S.V) :
    IsVertexR (rows (T.planesS : List (V3 ℝ)) T.types (a.toScalar T.den) (T.b.toScalar T.den)
      (c.toScalar T.den)) (V3.sdiv (ZV.toReal v) (S.td : ℝ)) := by
  have hk : (0:ℝ) < 1 / (T.den : ℝ) := by
    have : (0:ℝ) < T.den := by exact_mod_cast hden
    positivity
  rw [rows_eq_scaled, isVertexR_scale _ hk]
  simp only [Table.cornerHas, Bool.and_eq_true, List.all_eq_true] at h
  obtain ⟨⟨hvd, _⟩, hV⟩ := h
  have hvd' : (0:ℝ) < ((Z5.ofI S.td).toReal) := by simpa using (Z5.lt_iff _ _).mp hvd
  have hvert := hV v hv
  simp only [zIsVertex, Bool.and_eq_true] at hvert
  obtain ⟨hf, hind⟩ := hvert
  have e : ((S.td : ℝ)) = (Z5.ofI S.td).toReal := by simp
  rw [e]
  refine ⟨(feasible_div_iff _ v _ hvd').mp hf, ?_⟩
  obtain ⟨r0, r1, r2, hsub, hz⟩ := indepTriple_spec _ hind
  have hsubR : [r0, r1, r2].Sublist (T.zRows a c) := hsub.trans List.filter_sublist
  have htight : ∀ r ∈ [r0, r1, r2],
      V3.dot (rowR r).1 (V3.sdiv (ZV.toReal v) (Z5.ofI S.td).toReal) = (rowR r).2 := by
    intro r hr
    have hmem := hsub.subset hr
    simp only [List.mem_filter, Z5.isZero_iff, Z5.toReal_sub, Z5.toReal_mul, dot_toReal] at hmem
    rw [dot_sdiv]
    simp only [rowR]
    rw [div_eq_iff hvd'.ne']; linarith [hmem.2]
  refine ⟨(rowR r0, rowR r1, rowR r2), hsubR.map rowR, ?_, htight r0 (by simp), htight r1 (by simp),
    htight r2 (by simp)⟩
  rw [← zDet_toReal]
  intro h0
  have := (Z5.isZero_iff _).mpr h0
  rw [this] at hz; cases hz

end
end Fam
