import CoxeterVerif.Lemmas.Polyhedron
import CoxeterVerif.Model.Mutable
/-! Homogeneity / translation lemmas behind the coherence theorems of C03 and C08. -/
open Scalar
set_option maxRecDepth 4000
noncomputable section

theorem cbrt_cube {x : ℝ} (hx : 0 < x) : Scalar.cbrt x * Scalar.cbrt x * Scalar.cbrt x = x := by
  have hc : Scalar.cbrt x = x ^ ((1:ℝ)/3) := by
    show (if 0 ≤ x then x ^ ((1:ℝ)/3) else -((-x) ^ ((1:ℝ)/3))) = _
    simp only [if_pos hx.le]
  rw [hc]
  have h : (x ^ ((1:ℝ)/3)) ^ (3:ℕ) = x := by
    rw [← Real.rpow_natCast, ← Real.rpow_mul hx.le]; norm_num
  calc x ^ ((1:ℝ)/3) * x ^ ((1:ℝ)/3) * x ^ ((1:ℝ)/3) = (x ^ ((1:ℝ)/3)) ^ (3:ℕ) := by ring
    _ = x := h

theorem cbrt_pos {x : ℝ} (hx : 0 < x) : 0 < Scalar.cbrt x := by
  show 0 < (if 0 ≤ x then x ^ ((1:ℝ)/3) else -((-x) ^ ((1:ℝ)/3)))
  simp only [if_pos hx.le]; exact Real.rpow_pos_of_pos hx _

theorem sqrt_sq' {x : ℝ} (hx : 0 < x) : Scalar.sqrt x * Scalar.sqrt x = x := by
  show Real.sqrt x * Real.sqrt x = x; exact Real.mul_self_sqrt hx.le

/-- scaling a triangle -/
def Tri.smul (k : ℝ) (t : Tri ℝ) : Tri ℝ := t.map (V3.smul k)

theorem signedVolume_smul (k : ℝ) (S : List (Tri ℝ)) :
    CP.signedVolume (S.map (Tri.map (V3.smul k))) = k * k * k * CP.signedVolume S := by
  unfold CP.signedVolume
  simp only [Scalar.sum_real, List.map_map]
  induction S with
  | nil => simp
  | cons t S ih =>
    simp only [List.map_cons, List.sum_cons, ih, Function.comp]
    obtain ⟨⟨ax,ay,az⟩,⟨bx,b_y,bz⟩,⟨cx,cy,cz⟩⟩ := t
    unfold_model; ring

theorem volume_smul {k : ℝ} (hk : 0 < k) (S : List (Tri ℝ)) :
    CP.volume (S.map (Tri.map (V3.smul k))) = CP.volume S * (k * k * k) := by
  unfold CP.volume; rw [signedVolume_smul]
  simp only [Scalar.abs_real]
  rw [abs_mul, abs_of_pos (by positivity : 0 < k * k * k)]; ring

theorem v3norm_smul {k : ℝ} (hk : 0 ≤ k) (v : V3 ℝ) : V3.norm (V3.smul k v) = k * V3.norm v := by
  unfold V3.norm V3.normSq V3.dot
  simp only [V3.smul_x, V3.smul_y, V3.smul_z, Scalar.sqrt_real]
  rw [show k * v.x * (k * v.x) + k * v.y * (k * v.y) + k * v.z * (k * v.z)
      = k ^ 2 * (v.x * v.x + v.y * v.y + v.z * v.z) by ring,
    Real.sqrt_mul (by positivity), Real.sqrt_sq hk]

theorem cross_smul (k : ℝ) (u v : V3 ℝ) :
    V3.cross (V3.smul k u) (V3.smul k v) = V3.smul (k * k) (V3.cross u v) := by
  cases u; cases v; ext <;> unfold_model <;> ring

theorem v3smul_sub (k : ℝ) (u v : V3 ℝ) : V3.smul k u - V3.smul k v = V3.smul k (u - v) := by
  cases u; cases v; ext <;> unfold_model <;> ring

theorem triArea_smul {k : ℝ} (hk : 0 < k) (t : Tri ℝ) :
    CP.triArea (t.map (V3.smul k)) = CP.triArea t * (k * k) := by
  unfold CP.triArea
  simp only [Tri.map, v3smul_sub, cross_smul]
  rw [v3norm_smul (by positivity)]; ring

theorem surfaceArea_smul {k : ℝ} (hk : 0 < k) (S : List (Tri ℝ)) :
    CP.surfaceArea (S.map (Tri.map (V3.smul k))) = CP.surfaceArea S * (k * k) := by
  unfold CP.surfaceArea
  simp only [Scalar.sum_real, List.map_map]
  induction S with
  | nil => simp
  | cons t S ih => simp only [List.map_cons, List.sum_cons, ih, Function.comp, triArea_smul hk]; ring

theorem sdiv_smul_norm {k : ℝ} (hk : 0 < k) (n : V3 ℝ) :
    V3.sdiv (V3.smul (k * k) n) (V3.norm (V3.smul (k * k) n)) = V3.sdiv n (V3.norm n) := by
  rw [v3norm_smul (by positivity)]
  have hkk : k * k ≠ 0 := by positivity
  cases n with | mk x y z =>
  ext <;> simp only [V3.sdiv_x, V3.sdiv_y, V3.sdiv_z, V3.smul_x, V3.smul_y, V3.smul_z] <;>
    rw [mul_div_mul_left _ _ hkk]

/-- plane equation of a scaled face: same unit normal, offset times `k` -/
theorem faceEquation_smul {k : ℝ} (hk : 0 < k) (v0 v1 v2 : V3 ℝ) :
    Poly3.faceEquation (V3.smul k v0) (V3.smul k v1) (V3.smul k v2)
      = ((Poly3.faceEquation v0 v1 v2).1, (Poly3.faceEquation v0 v1 v2).2 * k) := by
  unfold Poly3.faceEquation
  simp only [v3smul_sub, cross_smul, sdiv_smul_norm hk]
  congr 1
  simp only [V3.dot, V3.smul_x, V3.smul_y, V3.smul_z]; ring

theorem simplexNormal_smul {k : ℝ} (hk : 0 < k) (t : Tri ℝ) :
    CP.simplexNormal (t.map (V3.smul k)) = CP.simplexNormal t := by
  unfold CP.simplexNormal
  simp only [Tri.map, v3smul_sub, cross_smul, sdiv_smul_norm hk]

/-- translation -/
theorem triArea_translate (d : V3 ℝ) (t : Tri ℝ) : CP.triArea (t.map (· + d)) = CP.triArea t := by
  unfold CP.triArea
  obtain ⟨⟨ax,ay,az⟩,⟨bx,b_y,bz⟩,⟨cx,cy,cz⟩⟩ := t
  obtain ⟨d1,d2,d3⟩ := d
  congr 2
  ext <;> unfold_model <;> ring

theorem surfaceArea_translate (d : V3 ℝ) (S : List (Tri ℝ)) :
    CP.surfaceArea (S.map (Tri.map (· + d))) = CP.surfaceArea S := by
  unfold CP.surfaceArea
  simp only [Scalar.sum_real, List.map_map]
  congr 1
  apply List.map_congr_left
  intro t _
  exact triArea_translate d t

theorem vget_map_smul (k : ℝ) (vs : List (V3 ℝ)) (i : Nat) :
    Mut.vget (vs.map (V3.smul k)) i = V3.smul k (Mut.vget vs i) := by
  unfold Mut.vget
  by_cases h : i < vs.length
  · simp [List.getD, h]
  · have h' : vs.length ≤ i := by omega
    simp only [List.getD, List.getElem?_map, List.getElem?_eq_none h', Option.map_none, Option.getD_none]
    ext <;> simp [V3.zero, Scalar.lit]

theorem trisOf_map_smul (k : ℝ) (vs : List (V3 ℝ)) (simp : List (Nat × Nat × Nat)) :
    Mut.trisOf (vs.map (V3.smul k)) simp = (Mut.trisOf vs simp).map (Tri.map (V3.smul k)) := by
  unfold Mut.trisOf
  simp only [List.map_map]
  apply List.map_congr_left
  intro s _
  simp only [Function.comp, Tri.map, vget_map_smul]

/-- all simplex indices address existing vertices -/
def InRange (n : Nat) (simp : List (Nat × Nat × Nat)) : Prop :=
  ∀ s ∈ simp, s.1 < n ∧ s.2.1 < n ∧ s.2.2 < n

theorem vget_map_add (d : V3 ℝ) (vs : List (V3 ℝ)) (i : Nat) (h : i < vs.length) :
    Mut.vget (vs.map (· + d)) i = Mut.vget vs i + d := by
  unfold Mut.vget; simp [List.getD, h]

theorem trisOf_map_add (d : V3 ℝ) (vs : List (V3 ℝ)) (simp : List (Nat × Nat × Nat))
    (hr : InRange vs.length simp) :
    Mut.trisOf (vs.map (· + d)) simp = (Mut.trisOf vs simp).map (Tri.map (· + d)) := by
  unfold Mut.trisOf
  simp only [List.map_map]
  apply List.map_congr_left
  intro s hs
  obtain ⟨h1, h2, h3⟩ := hr s hs
  simp only [Function.comp, Tri.map, vget_map_add d vs _ h1, vget_map_add d vs _ h2, vget_map_add d vs _ h3]

end
