import CoxeterVerif.Spec.Families
import CoxeterVerif.Generated.Planes
/-! Corner solid of Family423 on the regenerated table (octahedron (scale 2) at (2,2)); `decide +kernel` over ℤ[√5]. -/
open Fam
set_option maxRecDepth 100000
namespace FamTables
theorem c423_octahedron : Gen.fam423.cornerIs ⟨2, 0⟩ ⟨2, 0⟩ (octahedronT.scale ⟨2, 0⟩ 1) = true := by
  decide +kernel
end FamTables
