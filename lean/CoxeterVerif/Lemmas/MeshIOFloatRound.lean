import CoxeterVerif.Lemmas.MeshIOFloat
import CoxeterVerif.RealInst
import Mathlib.Order.Monotone.Basic
/-!
  Helper lemmas of C20 (deepening round), decimal coordinate tokens — part 3: correct rounding is a FUNCTION.
  `magNum` (numerator of a non-negative double over 2^1074, as a function of its low 63 bits) is strictly
  increasing, so the rounding intervals of different doubles overlap at most in a midpoint, which the
  ties-to-even rule gives to exactly one of them: a token reads as at most one double (`ReadsAs.unique`).
  Hence "the reader returns the coordinate" is the same as "the certificate `ReadsAs tok coordinate` holds".
-/
namespace MeshIO

theorem magNum_lt_succ (m : Nat) : magNum m < magNum (m + 1) := by
  unfold magNum
  have h52 : (2 : Nat) ^ 52 = 4503599627370496 := by norm_num
  rw [h52]
  by_cases hc : m % 4503599627370496 + 1 < 4503599627370496
  · -- no carry into the exponent field
    have h1 : (m + 1) / 4503599627370496 = m / 4503599627370496 := by omega
    have h2 : (m + 1) % 4503599627370496 = m % 4503599627370496 + 1 := by omega
    rw [h1, h2]
    split
    · omega
    · exact Nat.mul_lt_mul_of_lt_of_le (by omega) (le_refl _) (by positivity)
  · have h1 : (m + 1) / 4503599627370496 = m / 4503599627370496 + 1 := by omega
    have h2 : (m + 1) % 4503599627370496 = 0 := by omega
    have h3 : m % 4503599627370496 = 4503599627370495 := by omega
    rw [h1, h2, h3]
    simp only [Nat.add_eq_zero_iff, one_ne_zero, and_false, ↓reduceIte, Nat.add_sub_cancel, Nat.add_zero]
    split
    · rename_i he
      rw [he]; norm_num
    · rename_i he
      obtain ⟨e, hee⟩ : ∃ e, m / 4503599627370496 = e + 1 := ⟨m / 4503599627370496 - 1, by omega⟩
      rw [hee, Nat.add_sub_cancel, pow_succ]
      have : 0 < 2 ^ e := by positivity
      nlinarith

theorem magNum_strictMono : StrictMono magNum := strictMono_nat_of_lt_succ magNum_lt_succ

set_option exponentiation.threshold 1100 in
theorem magValue_eq (m : Nat) : magValue m = (magNum m : ℚ) / 2 ^ 1074 := by
  unfold magValue
  rw [Rat.mkRat_eq_div]
  push_cast
  rfl

theorem magValue_lt {a b : Nat} (h : a < b) : magValue a < magValue b := by
  rw [magValue_eq, magValue_eq]
  have : (magNum a : ℚ) < magNum b := by exact_mod_cast magNum_strictMono h
  exact div_lt_div_of_pos_right this (by positivity)

theorem magValue_le {a b : Nat} (h : a ≤ b) : magValue a ≤ magValue b := by
  rcases Nat.lt_or_eq_of_le h with h | rfl
  · exact le_of_lt (magValue_lt h)
  · exact le_refl _

theorem roundsMag_iff (q : Rat) (m : Nat) : roundsMag q m = true ↔
    m < 2047 * 2 ^ 52
    ∧ (q < (magValue m + magValue (m + 1)) / 2 ∨ (q = (magValue m + magValue (m + 1)) / 2 ∧ m % 2 = 0))
    ∧ (m = 0 ∨ (magValue (m - 1) + magValue m) / 2 < q ∨ (q = (magValue (m - 1) + magValue m) / 2 ∧ m % 2 = 0)) := by
  simp [roundsMag, and_assoc]

/-- two different doubles are never both the correctly rounded value of the same rational -/
theorem roundsMag_unique_aux {q : Rat} {m m' : Nat} (hlt : m < m') (h : roundsMag q m = true)
    (h' : roundsMag q m' = true) : False := by
  rw [roundsMag_iff] at h h'
  obtain ⟨_, hup, _⟩ := h
  obtain ⟨_, _, hlo⟩ := h'
  have hm' : m' ≠ 0 := by omega
  rcases Nat.lt_or_eq_of_le (Nat.succ_le_of_lt hlt) with hgap | heq
  · -- at least one double in between: the intervals are disjoint
    have h1 : magValue m < magValue (m' - 1) := magValue_lt (by omega)
    have h2 : magValue (m + 1) ≤ magValue m' := magValue_le (by omega)
    rcases hup with hup | ⟨hup, _⟩ <;> rcases hlo with hlo | hlo | ⟨hlo, _⟩ <;> first | omega | linarith
  · -- neighbours: only the common midpoint, and only one of them is even
    have e1 : m' - 1 = m := by omega
    have e2 : m' = m + 1 := by omega
    rw [e1] at hlo
    rw [e2] at hlo
    rcases hup with hup | ⟨hup, hev⟩ <;> rcases hlo with hlo | hlo | ⟨hlo, hev'⟩ <;>
      first | omega | linarith

theorem roundsMag_unique {q : Rat} {m m' : Nat} (h : roundsMag q m = true) (h' : roundsMag q m' = true) :
    m = m' := by
  rcases Nat.lt_trichotomy m m' with hlt | heq | hgt
  · exact (roundsMag_unique_aux hlt h h').elim
  · exact heq
  · exact (roundsMag_unique_aux hgt h' h).elim

/-- a token reads as at most one double: correct rounding (to nearest, ties to even) is a function of the token -/
theorem ReadsAs.unique {t : Tok} {b b' : Nat} (h : ReadsAs t b) (h' : ReadsAs t b') : b = b' := by
  obtain ⟨r, hr, hb, hs, hm⟩ := h.value
  obtain ⟨r', hr', hb', hs', hm'⟩ := h'.value
  rw [hr] at hr'
  cases hr'
  have := roundsMag_unique hm hm'
  omega

end MeshIO
