import CoxeterVerif.Lemmas.Inside3D
/-!
  C05, the single-tetrahedron winding lemma — part 1: a tetrahedron in generic position.

  Setting (query point moved to the origin): four vectors `a b c d`.  The un-normalised barycentric
  coordinates of the origin are `β₀ = det(b,c,d)`, `β₁ = det(a,d,c)`, `β₂ = det(a,b,d)`,
  `β₃ = det(a,c,b)` — exactly the `triangle_sign` determinants of the four faces of `Tet.bdry`.
  They satisfy `β₀ a + β₁ b + β₂ c + β₃ d = 0`; taking the planar cross product with the
  projection of one vertex gives four identities `Σ βⱼ · c2(vᵢ, vⱼ) = 0`, each of which forbids the
  three products to have one strict sign.  On the remaining sign patterns (`2⁴·2⁶` patterns minus
  the forbidden ones, checked by kernel evaluation: `tetTableOK`) the signed number of faces pierced
  by the vertical line is `2` when all `β` are positive, `−2` when all are negative, `0` otherwise.
-/
open Scalar
set_option maxRecDepth 4000
noncomputable section

namespace Inside3D
open Spec.In3D

/-! ### the finite sign table -/

/-- 1 when the three edge classes agree (the vertical line pierces the face), else 0 -/
def pierceI (x y z : Int) : Int := if x = y ∧ y = z then 1 else 0

/-- one row of the table: either one of the four identities is violated, or the count is right -/
def tetRow (s0 s1 s2 s3 ab ac ad bc bd cd : Int) : Bool :=
  decide (s1 * ab = s2 * ac ∧ s2 * ac = s3 * ad) ||
  decide (-(s0 * ab) = s2 * bc ∧ s2 * bc = s3 * bd) ||
  decide (-(s0 * ac) = -(s1 * bc) ∧ -(s1 * bc) = s3 * cd) ||
  decide (-(s0 * ad) = -(s1 * bd) ∧ -(s1 * bd) = -(s2 * cd)) ||
  decide (s3 * pierceI ac (-bc) (-ab) + s2 * pierceI ab bd (-ad) + s0 * pierceI bc cd (-bd)
      + s1 * pierceI ad (-cd) (-ac)
    = 2 * (if s0 = 1 ∧ s1 = 1 ∧ s2 = 1 ∧ s3 = 1 then 1 else 0)
      - 2 * (if s0 = -1 ∧ s1 = -1 ∧ s2 = -1 ∧ s3 = -1 then 1 else 0))

def pm : List Int := [1, -1]

def tetTableOK : Bool :=
  pm.all fun s0 => pm.all fun s1 => pm.all fun s2 => pm.all fun s3 =>
  pm.all fun ab => pm.all fun ac => pm.all fun ad => pm.all fun bc => pm.all fun bd => pm.all fun cd =>
    tetRow s0 s1 s2 s3 ab ac ad bc bd cd

theorem tetTableOK_true : tetTableOK = true := by decide +kernel

theorem mem_pm {x : Int} (h : x = 1 ∨ x = -1) : x ∈ pm := by
  rcases h with rfl | rfl <;> simp [pm]

theorem tet_table {s0 s1 s2 s3 ab ac ad bc bd cd : Int}
    (h0 : s0 = 1 ∨ s0 = -1) (h1 : s1 = 1 ∨ s1 = -1) (h2 : s2 = 1 ∨ s2 = -1) (h3 : s3 = 1 ∨ s3 = -1)
    (g1 : ab = 1 ∨ ab = -1) (g2 : ac = 1 ∨ ac = -1) (g3 : ad = 1 ∨ ad = -1)
    (g4 : bc = 1 ∨ bc = -1) (g5 : bd = 1 ∨ bd = -1) (g6 : cd = 1 ∨ cd = -1)
    (hIa : ¬ (s1 * ab = s2 * ac ∧ s2 * ac = s3 * ad))
    (hIb : ¬ (-(s0 * ab) = s2 * bc ∧ s2 * bc = s3 * bd))
    (hIc : ¬ (-(s0 * ac) = -(s1 * bc) ∧ -(s1 * bc) = s3 * cd))
    (hId : ¬ (-(s0 * ad) = -(s1 * bd) ∧ -(s1 * bd) = -(s2 * cd))) :
    s3 * pierceI ac (-bc) (-ab) + s2 * pierceI ab bd (-ad) + s0 * pierceI bc cd (-bd)
      + s1 * pierceI ad (-cd) (-ac)
    = 2 * (if s0 = 1 ∧ s1 = 1 ∧ s2 = 1 ∧ s3 = 1 then 1 else 0)
      - 2 * (if s0 = -1 ∧ s1 = -1 ∧ s2 = -1 ∧ s3 = -1 then 1 else 0) := by
  have h := tetTableOK_true
  simp only [tetTableOK, List.all_eq_true] at h
  have hr := h s0 (mem_pm h0) s1 (mem_pm h1) s2 (mem_pm h2) s3 (mem_pm h3) ab (mem_pm g1) ac (mem_pm g2)
    ad (mem_pm g3) bc (mem_pm g4) bd (mem_pm g5) cd (mem_pm g6)
  unfold tetRow at hr
  simp only [Bool.or_eq_true, decide_eq_true_iff] at hr
  rcases hr with (((hr | hr) | hr) | hr) | hr
  · exact absurd hr hIa
  · exact absurd hr hIb
  · exact absurd hr hIc
  · exact absurd hr hId
  · exact hr

/-! ### signs of real numbers -/

theorem sgn_sum3_excl {x y z : ℝ} (h : x + y + z = 0) (hx : x ≠ 0) :
    ¬ (sgn x = sgn y ∧ sgn y = sgn z) := by
  rintro ⟨e1, e2⟩
  rcases sgn_cases hx with ⟨k, hk⟩ | ⟨k, hk⟩
  · have hy := sgn_eq_one_iff.mp (e1 ▸ k)
    have hz := sgn_eq_one_iff.mp (e2 ▸ e1 ▸ k)
    linarith
  · have hy := sgn_eq_neg_one_iff.mp (e1 ▸ k)
    have hz := sgn_eq_neg_one_iff.mp (e2 ▸ e1 ▸ k)
    linarith

theorem same_sign_iff {x y z : ℝ} (hx : x ≠ 0) (hy : y ≠ 0) (hz : z ≠ 0) :
    ((0 < x ∧ 0 < y ∧ 0 < z) ∨ (x < 0 ∧ y < 0 ∧ z < 0)) ↔ (sgn x = sgn y ∧ sgn y = sgn z) := by
  rcases sgn_cases hx with ⟨e1, p1⟩ | ⟨e1, p1⟩ <;> rcases sgn_cases hy with ⟨e2, p2⟩ | ⟨e2, p2⟩ <;>
    rcases sgn_cases hz with ⟨e3, p3⟩ | ⟨e3, p3⟩ <;> rw [e1, e2, e3] <;>
    constructor <;> intro h <;>
    first
      | exact Or.inl ⟨p1, p2, p3⟩
      | exact Or.inr ⟨p1, p2, p3⟩
      | exact ⟨rfl, rfl⟩
      | (exfalso; revert h; decide)
      | (exfalso; rcases h with ⟨q1, q2, q3⟩ | ⟨q1, q2, q3⟩ <;> linarith)

theorem c2_swap (u v : V3 ℝ) : c2 v u = -c2 u v := by unfold c2; ring

/-- the per-triangle term in generic position, in integer form -/
theorem contribD_generic_int (d0 d1 d2 : V3 ℝ)
    (hx0 : d0.x ≠ 0) (hx1 : d1.x ≠ 0) (hx2 : d2.x ≠ 0)
    (h01 : c2 d0 d1 ≠ 0) (h12 : c2 d1 d2 ≠ 0) (h20 : c2 d2 d0 ≠ 0) :
    contribD d0 d1 d2 =
      sgn (V3.det3 d0 d1 d2) * pierceI (sgn (c2 d0 d1)) (sgn (c2 d1 d2)) (sgn (c2 d2 d0)) := by
  rw [contribD_generic d0 d1 d2 hx0 hx1 hx2 h01 h12 h20]
  unfold pierceI
  by_cases hc : (0 < c2 d0 d1 ∧ 0 < c2 d1 d2 ∧ 0 < c2 d2 d0) ∨ (c2 d0 d1 < 0 ∧ c2 d1 d2 < 0 ∧ c2 d2 d0 < 0)
  · rw [if_pos hc, if_pos ((same_sign_iff h01 h12 h20).mp hc), mul_one]
  · rw [if_neg hc, if_neg (fun h => hc ((same_sign_iff h01 h12 h20).mpr h)), mul_zero]

/-! ### the tetrahedron in generic position -/

/-- **Single-tetrahedron lemma, generic position** (query point at the origin).  No vertex on the
plane `x = 0`, no edge whose projection passes through the origin, the origin on no face plane:
the four per-triangle terms of `Tet.bdry` add up to `2` when the origin is inside a positively
oriented tetrahedron (all four face determinants positive), to `−2` when all are negative
(inside, negatively oriented), and to `0` otherwise. -/
theorem tet_generic (a b c d : V3 ℝ)
    (hxa : a.x ≠ 0) (hxb : b.x ≠ 0) (hxc : c.x ≠ 0) (hxd : d.x ≠ 0)
    (hab : c2 a b ≠ 0) (hac : c2 a c ≠ 0) (had : c2 a d ≠ 0)
    (hbc : c2 b c ≠ 0) (hbd : c2 b d ≠ 0) (hcd : c2 c d ≠ 0)
    (h0 : V3.det3 b c d ≠ 0) (h1 : V3.det3 a d c ≠ 0) (h2 : V3.det3 a b d ≠ 0) (h3 : V3.det3 a c b ≠ 0) :
    contribD a c b + contribD a b d + contribD b c d + contribD a d c =
      2 * (if sgn (V3.det3 b c d) = 1 ∧ sgn (V3.det3 a d c) = 1 ∧ sgn (V3.det3 a b d) = 1 ∧
            sgn (V3.det3 a c b) = 1 then 1 else 0)
      - 2 * (if sgn (V3.det3 b c d) = -1 ∧ sgn (V3.det3 a d c) = -1 ∧ sgn (V3.det3 a b d) = -1 ∧
            sgn (V3.det3 a c b) = -1 then 1 else 0) := by
  have nba : c2 b a ≠ 0 := by rw [c2_swap]; exact neg_ne_zero.mpr hab
  have nca : c2 c a ≠ 0 := by rw [c2_swap]; exact neg_ne_zero.mpr hac
  have nda : c2 d a ≠ 0 := by rw [c2_swap]; exact neg_ne_zero.mpr had
  have ncb : c2 c b ≠ 0 := by rw [c2_swap]; exact neg_ne_zero.mpr hbc
  have ndb : c2 d b ≠ 0 := by rw [c2_swap]; exact neg_ne_zero.mpr hbd
  have ndc : c2 d c ≠ 0 := by rw [c2_swap]; exact neg_ne_zero.mpr hcd
  rw [contribD_generic_int a c b hxa hxc hxb hac ncb nba,
    contribD_generic_int a b d hxa hxb hxd hab hbd nda,
    contribD_generic_int b c d hxb hxc hxd hbc hcd ndb,
    contribD_generic_int a d c hxa hxd hxc had ndc nca]
  rw [c2_swap a b, c2_swap a c, c2_swap a d, c2_swap b c, c2_swap b d, c2_swap c d]
  simp only [sgn_neg]
  -- the four identities
  have Ia : V3.det3 a d c * c2 a b + V3.det3 a b d * c2 a c + V3.det3 a c b * c2 a d = 0 := by
    unfold V3.det3 V3.dot V3.cross c2; ring
  have Ib : -(V3.det3 b c d * c2 a b) + V3.det3 a b d * c2 b c + V3.det3 a c b * c2 b d = 0 := by
    unfold V3.det3 V3.dot V3.cross c2; ring
  have Ic : -(V3.det3 b c d * c2 a c) + -(V3.det3 a d c * c2 b c) + V3.det3 a c b * c2 c d = 0 := by
    unfold V3.det3 V3.dot V3.cross c2; ring
  have Id : -(V3.det3 b c d * c2 a d) + -(V3.det3 a d c * c2 b d) + -(V3.det3 a b d * c2 c d) = 0 := by
    unfold V3.det3 V3.dot V3.cross c2; ring
  have eIa := sgn_sum3_excl Ia (mul_ne_zero h1 hab)
  have eIb := sgn_sum3_excl Ib (neg_ne_zero.mpr (mul_ne_zero h0 hab))
  have eIc := sgn_sum3_excl Ic (neg_ne_zero.mpr (mul_ne_zero h0 hac))
  have eId := sgn_sum3_excl Id (neg_ne_zero.mpr (mul_ne_zero h0 had))
  simp only [sgn_neg, sgn_mul] at eIa eIb eIc eId
  have := tet_table (sgn_pm h0) (sgn_pm h1) (sgn_pm h2) (sgn_pm h3) (sgn_pm hab) (sgn_pm hac) (sgn_pm had)
    (sgn_pm hbc) (sgn_pm hbd) (sgn_pm hcd) eIa eIb eIc eId
  linarith [this]

end Inside3D
end
