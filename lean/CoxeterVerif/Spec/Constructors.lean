import CoxeterVerif.Vec
/-!
  # C15 — specification of the classes' defining conditions (no Mathlib)

  * `Spec.SegMeetProp`  — two closed segments have a common point (the *meaning*, an existential);
    `Spec.segMeet`      — the executable decision (orientation signs + end point on segment);
    `Props/C15.lean` proves `segMeet = true ↔ SegMeetProp` over ℝ.
  * `Spec.edgesOK`      — "no two non-adjacent edges of the closed vertex cycle meet and adjacent ones meet
    only in their shared vertex", phrased without indices: for any two edges of the cycle, edges that share an
    end point (head of one = tail of the other) must not fold back onto each other, all other pairs must be
    disjoint.  This O(n²) predicate is also the *model* of `_is_simple` (the 1 284-line Bentley–Ottmann sweep is
    tied to it by the correspondence runs only).
  * `Spec.simple`       — ≥ 3 pairwise distinct vertices with `edgesOK`.
  * `Spec.convexPosition2` — no point lies in the convex hull of the others (Carathéodory: in no closed
    triangle/segment spanned by others); O(n⁴), evaluated exactly over ℚ on small inputs.
  * `Spec.ccwConvex`    — counter-clockwise about `n`: every other vertex lies strictly to the left of every
    directed edge when `n` points to the viewer (so the cycle is the boundary of the hull, traversed once).
-/
namespace C15
open Scalar

/-- point of the plane -/
structure P2 (α : Type) where
  x : α
  y : α

namespace Spec
variable {α : Type} [Scalar α]

/-- twice the signed area of the triangle `a b c` (> 0: counter-clockwise) -/
def orient (a b c : P2 α) : α := (b.x - a.x) * (c.y - a.y) - (b.y - a.y) * (c.x - a.x)

/-- `w` lies between `u` and `v` (in either order, inclusive) -/
def between (u v w : α) : Bool :=
  (decide (u ≤ w) && decide (w ≤ v)) || (decide (v ≤ w) && decide (w ≤ u))

/-- `p` lies on the closed segment `ab`: collinear and inside the bounding box -/
def onSeg (a b p : P2 α) : Bool :=
  Scalar.eqb (orient a b p) (lit 0) && between a.x b.x p.x && between a.y b.y p.y

/-- strictly opposite signs -/
def oppositeSigns (u v : α) : Bool :=
  (decide (lit 0 < u) && decide (v < lit 0)) || (decide (u < lit 0) && decide (lit 0 < v))

/-- the closed segments `ab` and `cd` have a common point: they cross properly, or an end point of one lies
on the other. -/
def segMeet (a b c d : P2 α) : Bool :=
  (oppositeSigns (orient a b c) (orient a b d) && oppositeSigns (orient c d a) (orient c d b))
    || onSeg a b c || onSeg a b d || onSeg c d a || onSeg c d b

/-- the meaning of `segMeet`: ∃ s t ∈ [0,1], a + s (b − a) = c + t (d − c) -/
def SegMeetProp (a b c d : P2 α) : Prop :=
  ∃ s t : α, lit 0 ≤ s ∧ s ≤ lit 1 ∧ lit 0 ≤ t ∧ t ≤ lit 1 ∧
    a.x + s * (b.x - a.x) = c.x + t * (d.x - c.x) ∧ a.y + s * (b.y - a.y) = c.y + t * (d.y - c.y)

def ptEq (p q : P2 α) : Bool := Scalar.eqb p.x q.x && Scalar.eqb p.y q.y

/-- the path `a → q → d` folds back onto itself: the two edges sharing `q` have more than `q` in common
(for pairwise distinct `a q d`): `d` on `aq` or `a` on `qd`. -/
def foldBack (a q d : P2 α) : Bool := onSeg a q d || onSeg q d a

/-- the condition on two edges `e = (a,b)`, `f = (c,d)` of a closed cycle -/
def edgeOK (e f : P2 α × P2 α) : Bool :=
  let s1 := ptEq e.2 f.1     -- e then f :  a → b = c → d
  let s2 := ptEq f.2 e.1     -- f then e :  c → d = a → b
  if s1 && s2 then false                      -- a 2-cycle
  else if s1 then !foldBack e.1 e.2 f.2
  else if s2 then !foldBack f.1 f.2 e.2
  else if ptEq e.1 f.1 || ptEq e.2 f.2 then false   -- same tail / same head: a repeated vertex
  else !segMeet e.1 e.2 f.1 f.2

/-- consecutive pairs of an open path -/
def path {β : Type} : List β → List (β × β)
  | a :: b :: l => (a, b) :: path (b :: l)
  | _ => []

/-- the edges of the closed cycle `p₀ p₁ … pₙ₋₁ p₀` -/
def cycEdges {β : Type} : List β → List (β × β)
  | [] => []
  | a :: t => path (a :: (t ++ [a]))

/-- `R x y` for every pair `x` before `y` -/
def allPairs {β : Type} (R : β → β → Bool) : List β → Bool
  | [] => true
  | x :: xs => xs.all (R x) && allPairs R xs

/-- every two edges of the closed cycle satisfy `edgeOK` -/
def edgesOK (l : List (P2 α)) : Bool := allPairs edgeOK (cycEdges l)

def distinct (l : List (P2 α)) : Bool := allPairs (fun p q => !ptEq p q) l

/-- a simple polygon: at least three pairwise distinct vertices whose edges meet only where they must -/
def simple (l : List (P2 α)) : Bool := decide (3 ≤ l.length) && distinct l && edgesOK l

/-! ### the meaning of "simple", with indices and points (independent of `edgeOK` / `cycEdges`)

`SimplePolygon l` is the text-book definition, written with vertex indices modulo `n` and with POINTS of the
plane (existentials over segment parameters) — no orientation tests, no `foldBack`, no list of edges:
  * at least three vertices, pairwise different;
  * two edges that are not neighbours in the cycle have no common point;
  * two neighbouring edges have exactly their shared vertex in common.
`Props/C15.lean` proves `Spec.simple l = true ↔ SimplePolygon l` over ℝ for every list. -/

/-- `x` lies on the closed segment `ab`: `x = a + s (b − a)` for some `s ∈ [0,1]` -/
def OnSegProp (a b x : P2 α) : Prop :=
  ∃ s : α, lit 0 ≤ s ∧ s ≤ lit 1 ∧ x.x = a.x + s * (b.x - a.x) ∧ x.y = a.y + s * (b.y - a.y)

/-- vertex `i` of the closed cycle, indices taken modulo the length -/
def vtx (l : List (P2 α)) (i : Nat) : P2 α := l.getD (i % l.length) ⟨lit 0, lit 0⟩

/-- the edges `i` and `j` (`i < j < n`) are neighbours in the cycle -/
def cycAdjacent (n i j : Nat) : Prop := j = i + 1 ∨ (i = 0 ∧ j + 1 = n)

def SimplePolygon (l : List (P2 α)) : Prop :=
  3 ≤ l.length ∧
  (∀ i j, i < j → j < l.length → vtx l i ≠ vtx l j) ∧
  (∀ i j, i < j → j < l.length → ¬ cycAdjacent l.length i j →
      ¬ ∃ x, OnSegProp (vtx l i) (vtx l (i + 1)) x ∧ OnSegProp (vtx l j) (vtx l (j + 1)) x) ∧
  (∀ i, i < l.length → ∀ x, OnSegProp (vtx l i) (vtx l (i + 1)) x →
      OnSegProp (vtx l (i + 1)) (vtx l (i + 2)) x → x = vtx l (i + 1))

/-! ### "turns the same way at every vertex" (local convexity) — NOT sufficient for simplicity

The cross product of consecutive edges `(b − a) × (c − b)` equals `orient a b c`. A cycle all of whose turns have
the same strict sign is locally convex; it is simple only if its turning number is 1: the star polygons `{n/k}`
(`1 < k < n−1`) of points in convex position turn the same way everywhere and cross themselves
(`Props/C15.lean`: `locally_convex_implies_simple_fails`, `star_polygon_not_simple`). -/

/-- consecutive triples of an open path -/
def path3 {β : Type} : List β → List (β × β × β)
  | a :: b :: c :: l => (a, b, c) :: path3 (b :: c :: l)
  | _ => []

/-- the corners `(p_{i-1}, p_i, p_{i+1})` of the closed cycle -/
def cycCorners {β : Type} : List β → List (β × β × β)
  | a :: b :: t => path3 (a :: b :: (t ++ [a, b]))
  | _ => []

/-- every turn of the closed cycle is strictly to the left, or every turn strictly to the right -/
def sameTurns (l : List (P2 α)) : Bool :=
  (cycCorners l).all (fun t => decide (lit 0 < orient t.1 t.2.1 t.2.2)) ||
  (cycCorners l).all (fun t => decide (orient t.1 t.2.1 t.2.2 < lit 0))

/-- the star order `{n/k}`: the points visited every `k`-th -/
def starOrder {β : Type} (pts : List β) (k : Nat) : List β :=
  (List.range pts.length).filterMap fun i => pts[(i * k) % pts.length]?

/-! ### convex position (2-D) -/

/-- `p` in the closed convex hull of `a b c` (degenerate triangles = segments/points allowed) -/
def inTriangle (p a b c : P2 α) : Bool :=
  if Scalar.eqb (orient a b c) (lit 0) then onSeg a b p || onSeg b c p || onSeg c a p
  else
    let o1 := orient a b p
    let o2 := orient b c p
    let o3 := orient c a p
    (decide (lit 0 ≤ o1) && decide (lit 0 ≤ o2) && decide (lit 0 ≤ o3))
      || (decide (o1 ≤ lit 0) && decide (o2 ≤ lit 0) && decide (o3 ≤ lit 0))

/-- `p` in the convex hull of the list `others` (Carathéodory in the plane) -/
def inHull (p : P2 α) (others : List (P2 α)) : Bool :=
  others.any fun a => others.any fun b => others.any fun c => inTriangle p a b c

def eraseAt {β : Type} : List β → Nat → List β
  | [], _ => []
  | _ :: xs, 0 => xs
  | x :: xs, i + 1 => x :: eraseAt xs i

/-- no point in the hull of the others -/
def convexPosition2 (l : List (P2 α)) : Bool :=
  (List.range l.length).all fun i =>
    match l[i]? with
    | some p => !inHull p (eraseAt l i)
    | none => true

/-! ### counter-clockwise about a normal (3-D, planar) -/

/-- `r` strictly to the left of the directed edge `a → b`, seen against `n` -/
def leftOf (n a b r : V3 α) : Bool := decide (lit 0 < V3.det3 n (b - a) (r - a))

def v3Eq (u v : V3 α) : Bool := Scalar.eqb u.x v.x && Scalar.eqb u.y v.y && Scalar.eqb u.z v.z

/-- every vertex other than the edge's end points lies strictly to the left of every directed edge -/
def ccwConvex (n : V3 α) (verts : List (V3 α)) : Bool :=
  decide (3 ≤ verts.length) &&
  (cycEdges verts).all fun e => verts.all fun r => v3Eq r e.1 || v3Eq r e.2 || leftOf n e.1 e.2 r

/-- the same in the plane: every vertex other than the edge's end points lies strictly to the left of every directed
edge of the closed cycle (a strictly convex polygon listed counter-clockwise). `Props/C15.lean` proves that such a
cycle of pairwise different vertices is SIMPLE (`ccw_convex_is_simple`) — the true half of "convex ⇒ simple". -/
def ccwConvex2 (l : List (P2 α)) : Bool :=
  decide (3 ≤ l.length) &&
  (cycEdges l).all fun e => l.all fun r => ptEq r e.1 || ptEq r e.2 || decide (lit 0 < orient e.1 e.2 r)

end Spec
end C15
