import CoxeterVerif.Vec
/-!
  Specification layer for C05 (no Mathlib): what "the point belongs to the solid" means.

  * convex polyhedron with vertex list `V` : `p` is a convex combination of `V` with explicit
    weights (`MemHull`; the same set as Mathlib's `convexHull ℝ V`);
  * general polyhedron : the solid is presented as a finite list of tetrahedra; `p` belongs to it
    when it lies in one of the closed tetrahedra (`inTets`, textbook same-side test with four
    orientation determinants — nothing here shares the implementation's derivation);
  * ball : `|p − c|² ≤ r²`;   ellipsoid : `Σ ((p−c)_i / a_i)² ≤ 1`;
  * spheropolyhedron : some point `q` of the hull of `V` has `|p − q|² ≤ r²` (`MemSphero`).
  Everything that is a `Bool` is decidable over ℚ, so the driver evaluates it exactly (`Q` ops);
  the existential statements come with certificate checkers (`hullCert`, `nearCert`, `farCert`)
  whose soundness is proved in `Props/C05.lean`.
-/
namespace Spec.In3D
variable {α : Type} [Scalar α]
open Scalar

/-- `Σ wᵢ · vᵢ` (lists are matched position by position) -/
def comb : List α → List (V3 α) → V3 α
  | w :: ws, v :: vs => V3.smul w v + comb ws vs
  | _, _ => V3.zero

/-- convex weights: non-negative, summing to one -/
def IsWeights (ws : List α) : Prop := (∀ w ∈ ws, lit 0 ≤ w) ∧ Scalar.sum ws = lit 1

/-- `p ∈ conv(V)` with explicit weights -/
def MemHull (V : List (V3 α)) (p : V3 α) : Prop :=
  ∃ ws : List α, ws.length = V.length ∧ IsWeights ws ∧ comb ws V = p

/-- squared distance -/
def distSq (p q : V3 α) : α := V3.normSq (p - q)

/-- closed ball of radius `r` about `c` -/
def inBall (r : α) (c p : V3 α) : Bool := decide (distSq p c ≤ r * r)

/-- closed ellipsoid with semi-axes `a, b, c` about `cen` -/
def inEllipsoid (a b c : α) (cen p : V3 α) : Bool :=
  let d := p - cen
  decide (sqr d.x / sqr a + sqr d.y / sqr b + sqr d.z / sqr c ≤ lit 1)

/-- `p` is within `r` of the hull of `V` -/
def MemSphero (V : List (V3 α)) (r : α) (p : V3 α) : Prop :=
  ∃ q, MemHull V q ∧ distSq p q ≤ r * r

/-! ### union of tetrahedra -/

/-- orientation determinant of `(a, b, c, d)`: six times the signed volume -/
def orient (a b c d : V3 α) : α := V3.det3 (b - a) (c - a) (d - a)

/-- the four sub-determinants obtained by replacing one vertex of `T` with `p`
    (un-normalised barycentric coordinates of `p`) -/
def bary (T : Tet α) (p : V3 α) : List α :=
  [orient p T.b T.c T.d, orient T.a p T.c T.d, orient T.a T.b p T.d, orient T.a T.b T.c p]

/-- `p` lies in the closed, non-degenerate tetrahedron `T` (either orientation) -/
def inTet (T : Tet α) (p : V3 α) : Bool :=
  let D := orient T.a T.b T.c T.d
  (decide (lit 0 < D) && (bary T p).all fun x => decide (lit 0 ≤ x)) ||
  (decide (D < lit 0) && (bary T p).all fun x => decide (x ≤ lit 0))

/-- `p` belongs to the solid triangulated by `Ts` -/
def inTets (Ts : List (Tet α)) (p : V3 α) : Bool := Ts.any fun T => inTet T p

/-- number of tetrahedra of `Ts` that contain `p` -/
def countTets (Ts : List (Tet α)) (p : V3 α) : Nat := (Ts.filter fun T => inTet T p).length

/-! ### the vertical line through `p` and a triangle (geometric reading of the winding code) -/

/-- planar orientation determinant of the projections of `u − p`, `v − p` to the `xy` plane -/
def cross2 (p u v : V3 α) : α := (u.x - p.x) * (v.y - p.y) - (u.y - p.y) * (v.x - p.x)

/-- the vertical line through `p` meets the open triangle `t` (same-side test in the `xy` plane) -/
def pierces (p : V3 α) (t : Tri α) : Bool :=
  (decide (lit 0 < cross2 p t.a t.b) && decide (lit 0 < cross2 p t.b t.c) && decide (lit 0 < cross2 p t.c t.a)) ||
  (decide (cross2 p t.a t.b < lit 0) && decide (cross2 p t.b t.c < lit 0) && decide (cross2 p t.c t.a < lit 0))

/-- orientation of the triangle as seen from `p`: `det (a − p, b − p, c − p)` -/
def seenFrom (p : V3 α) (t : Tri α) : α := V3.det3 (t.a - p) (t.b - p) (t.c - p)

/-! ### certificates (evaluated exactly over ℚ by the driver) -/

/-- maximum of a list (`0` for the empty list) -/
def maxOf : List α → α
  | [] => lit 0
  | a :: l => l.foldl Scalar.max a

/-- minimum of a list (`0` for the empty list) -/
def minOf : List α → α
  | [] => lit 0
  | a :: l => l.foldl Scalar.min a

/-- inside certificate for the hull: explicit weights.
    Returns `(min weight, Σ w, comb ws V − (Σ w)·p)`; when `min ≥ 0` and `Σ w > 0` the point
    `comb ws V / Σ w` is in the hull, and the third component says how far it is from `p`. -/
def hullCert (ws : List α) (V : List (V3 α)) (p : V3 α) : α × α × V3 α :=
  (minOf ws, Scalar.sum ws, comb ws V - V3.smul (Scalar.sum ws) p)

/-- "near" certificate for the spheropolyhedron: explicit weights of a hull point `q = comb/Σw`.
    Returns `(min weight, Σ w, |p − q|²)`. -/
def nearCert (ws : List α) (V : List (V3 α)) (p : V3 α) : α × α × α :=
  (minOf ws, Scalar.sum ws, distSq p (V3.sdiv (comb ws V) (Scalar.sum ws)))

/-- separating-plane certificate: `(max over V of n·v + d, n·p + d)`.  When the first is `≤ 0` and
    the second `> 0`, `p` is not in the hull of `V` (`plane_cert_sound`). -/
def planeCert (n : V3 α) (d : α) (V : List (V3 α)) (p : V3 α) : α × α :=
  (maxOf (V.map fun v => V3.dot v n + d), V3.dot p n + d)

/-- "far" certificate for the spheropolyhedron (variational inequality of the projection `q`):
    `(max over V of (p − q)·(v − q), |p − q|²)`.  If the first is `≤ ε` then every point `x` of the
    hull has `|p − x|² ≥ |p − q|² − 2ε` (`far_cert_sound`). -/
def farCert (q : V3 α) (V : List (V3 α)) (p : V3 α) : α × α :=
  (maxOf (V.map fun v => V3.dot (p - q) (v - q)), distSq p q)

end Spec.In3D
