import CoxeterVerif.Vec
import CoxeterVerif.Model.ChainCheck
/-!
  Specification layer for C05 (no Mathlib): what "the point belongs to the solid" means.

  * convex polyhedron with vertex list `V` : `p` is a convex combination of `V` with explicit
    weights (`MemHull`; the same set as Mathlib's `convexHull ℝ V`);
  * general polyhedron : the solid is presented as a finite list of tetrahedra; `p` belongs to it
    when it lies in one of the closed tetrahedra (`inTets`, textbook same-side test with four
    orientation determinants — nothing here shares the implementation's derivation);
  * ball : `|p − c|² ≤ r²`;   ellipsoid : `Σ ((p−c)_i / a_i)² ≤ 1`;
  * spheropolyhedron : some point `q` of the hull of `V` has `|p − q|² ≤ r²` (`MemSphero`).
  Everything that is a `Bool` is decidable over ℚ, so the driver evaluates it exactly (`Q` ops);
  the existential statements come with certificate checkers (`hullCert`, `nearCert`, `farCert`)
  whose soundness is proved in `Props/C05.lean`.
-/
namespace Spec.In3D
variable {α : Type} [Scalar α]
open Scalar

/-- `Σ wᵢ · vᵢ` (lists are matched position by position) -/
def comb : List α → List (V3 α) → V3 α
  | w :: ws, v :: vs => V3.smul w v + comb ws vs
  | _, _ => V3.zero

/-- convex weights: non-negative, summing to one -/
def IsWeights (ws : List α) : Prop := (∀ w ∈ ws, lit 0 ≤ w) ∧ Scalar.sum ws = lit 1

/-- `p ∈ conv(V)` with explicit weights -/
def MemHull (V : List (V3 α)) (p : V3 α) : Prop :=
  ∃ ws : List α, ws.length = V.length ∧ IsWeights ws ∧ comb ws V = p

/-- squared distance -/
def distSq (p q : V3 α) : α := V3.normSq (p - q)

/-- closed ball of radius `r` about `c` -/
def inBall (r : α) (c p : V3 α) : Bool := decide (distSq p c ≤ r * r)

/-- closed ellipsoid with semi-axes `a, b, c` about `cen` -/
def inEllipsoid (a b c : α) (cen p : V3 α) : Bool :=
  let d := p - cen
  decide (sqr d.x / sqr a + sqr d.y / sqr b + sqr d.z / sqr c ≤ lit 1)

/-- `p` is within `r` of the hull of `V` -/
def MemSphero (V : List (V3 α)) (r : α) (p : V3 α) : Prop :=
  ∃ q, MemHull V q ∧ distSq p q ≤ r * r

/-! ### union of tetrahedra -/

/-- orientation determinant of `(a, b, c, d)`: six times the signed volume -/
def orient (a b c d : V3 α) : α := V3.det3 (b - a) (c - a) (d - a)

/-- the four sub-determinants obtained by replacing one vertex of `T` with `p`
    (un-normalised barycentric coordinates of `p`) -/
def bary (T : Tet α) (p : V3 α) : List α :=
  [orient p T.b T.c T.d, orient T.a p T.c T.d, orient T.a T.b p T.d, orient T.a T.b T.c p]

/-- `p` lies in the closed, non-degenerate tetrahedron `T` (either orientation) -/
def inTet (T : Tet α) (p : V3 α) : Bool :=
  let D := orient T.a T.b T.c T.d
  (decide (lit 0 < D) && (bary T p).all fun x => decide (lit 0 ≤ x)) ||
  (decide (D < lit 0) && (bary T p).all fun x => decide (x ≤ lit 0))

/-- `p` belongs to the solid triangulated by `Ts` -/
def inTets (Ts : List (Tet α)) (p : V3 α) : Bool := Ts.any fun T => inTet T p

/-- number of tetrahedra of `Ts` that contain `p` -/
def countTets (Ts : List (Tet α)) (p : V3 α) : Nat := (Ts.filter fun T => inTet T p).length

/-! ### signed ray-crossing number (the classical winding number of a closed oriented surface) -/

/-- sign of a scalar as an integer -/
def sign (x : α) : Int := if lit 0 < x then 1 else if x < lit 0 then -1 else 0

/-- signed number of tetrahedra of `Ts` containing `p` (orientation sign of each) -/
def signedCount (Ts : List (Tet α)) (p : V3 α) : Int :=
  (Ts.map fun T => if inTet T p then sign (orient T.a T.b T.c T.d) else 0).sum

/-- `p` lies on none of the face planes of the tetrahedra `Ts` (exact test) -/
def offPlanes (Ts : List (Tet α)) (p : V3 α) : Bool :=
  Ts.all fun T => (bary T p).all fun x => !(Scalar.eqb x (lit 0))

/-- genericity of `p` w.r.t. the tetrahedron `T` with distinguished first vertex `T.a` (the apex of a
    cone tetrahedron): EITHER `p` is on none of the three face planes through `T.a` and not on the
    closed face opposite to `T.a` (it may lie elsewhere in the plane of that face), OR `p` lies on
    the line of exactly one edge of the opposite face, outside the closed edge. -/
def offApex (T : Tet α) (p : V3 α) : Bool :=
  let z0 := Scalar.eqb (orient p T.b T.c T.d) (lit 0)
  let z1 := Scalar.eqb (orient T.a p T.c T.d) (lit 0)
  let z2 := Scalar.eqb (orient T.a T.b p T.d) (lit 0)
  let z3 := Scalar.eqb (orient T.a T.b T.c p) (lit 0)
  (!z1 && !z2 && !z3 && (!z0 || !(inTet T p))) ||
  (z0 && !(inTet T p) && ((z1 && !z2 && !z3) || (!z1 && z2 && !z3) || (!z1 && !z2 && z3)))

/-- for cone tetrahedra `(o, t)`: `p` not ON a surface triangle and, except where forced by `p`
    lying on the line of an edge of a triangle, on no side plane of a cone (`p` may be coplanar with
    surface triangles and collinear with edges — e.g. lattice points of a voxel solid) -/
def offCone (Ts : List (Tet α)) (p : V3 α) : Bool := Ts.all fun T => offApex T p

/-- the cone tetrahedra `(o, a, b, c)` over the triangles of a surface -/
def coneTets (o : V3 α) (S : List (Tri α)) : List (Tet α) := S.map fun t => ⟨o, t.a, t.b, t.c⟩

/-- **signed ray-crossing number.**  `p ∈ tet(o, t)` iff the ray from `p` pointing away from `o`
meets the triangle `t`; the orientation sign of `(o, t)` says whether the ray leaves (+1) or enters
(−1) through `t`.  For a closed oriented surface this sum is the winding number of `S` about `p`
(for `o`, `p` in general position). -/
def rayWinding (o : V3 α) (S : List (Tri α)) (p : V3 α) : Int := signedCount (coneTets o S) p

/-! ### facet-completeness certificate for a convex polyhedron (evaluated exactly over ℚ)

The certificate consists of convex weights `ws` (so that `o = Σ wᵢ vᵢ` is a point of the hull), the
faces of the polyhedron cut into triangles, each paired with the plane equation `(n, d)` of its
face, a margin `m ≥ 0` and a box radius `R`.  `facetCert` checks, exactly:
  * the weights are non-negative and sum to one;
  * the triangles form a closed oriented surface (`closedCheck`) with vertices among `V`;
  * `o` is strictly on the inner side of every triangle and of every plane;
  * the three vertices of a triangle miss the plane of its face (on either side) by so little
    (`η = |n·v + d|`) that `η · R · spread ≤ orient(o, t) · m`.
`Props/C05.lean` (`cp_mem_hull_of_inside_cert`) proves: then EVERY point of the box `|p − o|∞ ≤ R`
whose plane distances are all `< −m` is a convex combination of `V`. -/

/-- `n·x + d` -/
def planeVal (n : V3 α) (d : α) (x : V3 α) : α := V3.dot x n + d

/-- `|v.x| + |v.y| + |v.z|` -/
def l1 (v : V3 α) : α := Scalar.abs v.x + Scalar.abs v.y + Scalar.abs v.z

/-- `Σ ‖(vᵢ − o) × (vⱼ − o)‖₁` over the three vertex pairs of `t` -/
def coneSpread (o : V3 α) (t : Tri α) : α :=
  l1 (V3.cross (t.b - o) (t.c - o)) + l1 (V3.cross (t.a - o) (t.c - o)) + l1 (V3.cross (t.a - o) (t.b - o))

def planeEqb (n : V3 α) (d : α) (e : V3 α × α) : Bool := ChainCheck.v3Eqb n e.1 && Scalar.eqb d e.2

/-- the per-triangle part of the certificate -/
def facetOK (V : List (V3 α)) (eqs : List (V3 α × α)) (o : V3 α) (m R : α) (f : Tri α × V3 α × α) : Bool :=
  let t := f.1
  let n := f.2.1
  let d := f.2.2
  eqs.any (planeEqb n d) &&
  V.any (ChainCheck.v3Eqb t.a) && V.any (ChainCheck.v3Eqb t.b) && V.any (ChainCheck.v3Eqb t.c) &&
  decide (lit 0 < orient o t.a t.b t.c) && decide (planeVal n d o < lit 0) &&
  [t.a, t.b, t.c].all fun v =>
    decide (Scalar.abs (planeVal n d v) * (R * coneSpread o t) ≤ orient o t.a t.b t.c * m)

/-- **facet-completeness certificate** -/
def facetCert (V : List (V3 α)) (eqs : List (V3 α × α)) (ws : List α) (F : List (Tri α × V3 α × α))
    (m R : α) : Bool :=
  let o := comb ws V
  decide (ws.length = V.length) && (ws.all fun w => decide (lit 0 ≤ w)) &&
  Scalar.eqb (Scalar.sum ws) (lit 1) && decide (lit 0 ≤ m) && !F.isEmpty &&
  ChainCheck.closedCheck (F.map Prod.fst) && F.all (facetOK V eqs o m R)

/-! ### the vertical line through `p` and a triangle (geometric reading of the winding code) -/

/-- planar orientation determinant of the projections of `u − p`, `v − p` to the `xy` plane -/
def cross2 (p u v : V3 α) : α := (u.x - p.x) * (v.y - p.y) - (u.y - p.y) * (v.x - p.x)

/-- the vertical line through `p` meets the open triangle `t` (same-side test in the `xy` plane) -/
def pierces (p : V3 α) (t : Tri α) : Bool :=
  (decide (lit 0 < cross2 p t.a t.b) && decide (lit 0 < cross2 p t.b t.c) && decide (lit 0 < cross2 p t.c t.a)) ||
  (decide (cross2 p t.a t.b < lit 0) && decide (cross2 p t.b t.c < lit 0) && decide (cross2 p t.c t.a < lit 0))

/-- orientation of the triangle as seen from `p`: `det (a − p, b − p, c − p)` -/
def seenFrom (p : V3 α) (t : Tri α) : α := V3.det3 (t.a - p) (t.b - p) (t.c - p)

/-! ### certificates (evaluated exactly over ℚ by the driver) -/

/-- maximum of a list (`0` for the empty list) -/
def maxOf : List α → α
  | [] => lit 0
  | a :: l => l.foldl Scalar.max a

/-- minimum of a list (`0` for the empty list) -/
def minOf : List α → α
  | [] => lit 0
  | a :: l => l.foldl Scalar.min a

/-- inside certificate for the hull: explicit weights.
    Returns `(min weight, Σ w, comb ws V − (Σ w)·p)`; when `min ≥ 0` and `Σ w > 0` the point
    `comb ws V / Σ w` is in the hull, and the third component says how far it is from `p`. -/
def hullCert (ws : List α) (V : List (V3 α)) (p : V3 α) : α × α × V3 α :=
  (minOf ws, Scalar.sum ws, comb ws V - V3.smul (Scalar.sum ws) p)

/-- "near" certificate for the spheropolyhedron: explicit weights of a hull point `q = comb/Σw`.
    Returns `(min weight, Σ w, |p − q|²)`. -/
def nearCert (ws : List α) (V : List (V3 α)) (p : V3 α) : α × α × α :=
  (minOf ws, Scalar.sum ws, distSq p (V3.sdiv (comb ws V) (Scalar.sum ws)))

/-- separating-plane certificate: `(max over V of n·v + d, n·p + d)`.  When the first is `≤ 0` and
    the second `> 0`, `p` is not in the hull of `V` (`plane_cert_sound`). -/
def planeCert (n : V3 α) (d : α) (V : List (V3 α)) (p : V3 α) : α × α :=
  (maxOf (V.map fun v => V3.dot v n + d), V3.dot p n + d)

/-- "far" certificate for the spheropolyhedron (variational inequality of the projection `q`):
    `(max over V of (p − q)·(v − q), |p − q|²)`.  If the first is `≤ ε` then every point `x` of the
    hull has `|p − x|² ≥ |p − q|² − 2ε` (`far_cert_sound`). -/
def farCert (q : V3 α) (V : List (V3 α)) (p : V3 α) : α × α :=
  (maxOf (V.map fun v => V3.dot (p - q) (v - q)), distSq p q)

end Spec.In3D
