import CoxeterVerif.Vec
/-!
  Specification layer for C13: what it MEANS for a ball (centre `c`, radius `r`) to be a bounding,
  minimal bounding, centred bounding, bounded, circum- or in-ball.  Plain definitions, independent
  of how the code computes anything.  A convex body is presented by its supporting half-spaces
  `n · p + d ≤ 0` (the convention of `ConvexPolyhedron.equations`), a polygon additionally by the
  lines carrying its edges.  No Mathlib.

  The second half contains the exactly evaluable (rational) forms of the same definitions, used by
  the driver in `Q` mode as the oracle: squared distances, plane offsets, certificate residuals.
-/
namespace BallSpec
variable {α : Type} [Scalar α]
open Scalar

/-- distance between two points -/
def dist (p c : V3 α) : α := V3.norm (p - c)

/-- `p` lies in the closed ball -/
def InBall (c : V3 α) (r : α) (p : V3 α) : Prop := dist p c ≤ r

/-- the ball contains every point of `pts` -/
def IsBounding (c : V3 α) (r : α) (pts : List (V3 α)) : Prop := ∀ p ∈ pts, InBall c r p

/-- minimal bounding ball: bounding, and no bounding ball (with ANY centre) is smaller -/
def IsMinimalBounding (c : V3 α) (r : α) (pts : List (V3 α)) : Prop :=
  IsBounding c r pts ∧ ∀ c' r', IsBounding c' r' pts → r ≤ r'

/-- minimal centred bounding ball: bounding, and no bounding ball with the SAME centre is smaller -/
def IsMinCenteredBounding (c : V3 α) (r : α) (pts : List (V3 α)) : Prop :=
  IsBounding c r pts ∧ ∀ r', IsBounding c r' pts → r ≤ r'

/-- `p` satisfies every half-space `n · p + d ≤ 0` -/
def InBody (eqs : List (V3 α × α)) (p : V3 α) : Prop := ∀ e ∈ eqs, V3.dot e.1 p + e.2 ≤ lit 0

/-- the whole ball lies in the body -/
def BallInside (eqs : List (V3 α × α)) (c : V3 α) (r : α) : Prop := ∀ p, InBall c r p → InBody eqs p

/-- the ball touches the boundary plane `e` -/
def TouchesPlane (e : V3 α × α) (c : V3 α) (r : α) : Prop :=
  ∃ p, InBall c r p ∧ V3.dot e.1 p + e.2 = lit 0

/-- maximal centred bounded ball: inside the body, touching one of its planes, and every larger
    concentric ball leaves the body -/
def IsMaxCenteredBounded (eqs : List (V3 α × α)) (c : V3 α) (r : α) : Prop :=
  BallInside eqs c r ∧ (∃ e ∈ eqs, TouchesPlane e c r) ∧ ∀ r', r < r' → ¬ BallInside eqs c r'

/-- the line through `a` with direction `u`: points `a + t u` -/
def linePoint (a u : V3 α) (t : α) : V3 α := a + V3.smul t u

/-- 2-D version (polygon embedded in space): no point of any edge line lies strictly inside the
    ball, and some edge line has a point on the sphere. `lines` = (point, direction) per edge. -/
def IsMaxCenteredBoundedByLines (lines : List (V3 α × V3 α)) (c : V3 α) (r : α) : Prop :=
  (∀ l ∈ lines, ∀ t, r ≤ dist (linePoint l.1 l.2 t) c) ∧
  (∃ l ∈ lines, ∃ t, dist (linePoint l.1 l.2 t) c = r)

/-- circum-ball: every vertex lies ON the sphere -/
def IsCircum (c : V3 α) (r : α) (pts : List (V3 α)) : Prop := ∀ p ∈ pts, dist p c = r

/-- `c` lies in the plane through `v0` with normal `n` -/
def InPlane (n v0 c : V3 α) : Prop := V3.dot n (c - v0) = lit 0

/-- in-ball of a body with UNIT normals: the centre is at signed distance `-r` from every plane
    (tangent to every face plane, from inside) -/
def IsTangentInside (eqs : List (V3 α × α)) (c : V3 α) (r : α) : Prop :=
  ∀ e ∈ eqs, V3.dot e.1 c + e.2 = -r

/-- the solid ellipsoid with semi-axes `a b c` about `cen` (an ellipse: `z`-extent irrelevant,
    use `InEllipse`) -/
def InEllipsoid (a b c : α) (cen p : V3 α) : Prop :=
  sqr ((p.x - cen.x) / a) + sqr ((p.y - cen.y) / b) + sqr ((p.z - cen.z) / c) ≤ lit 1

/-- the filled ellipse in the plane `z = cen.z` -/
def InEllipse (a b : α) (cen p : V3 α) : Prop :=
  p.z = cen.z ∧ sqr ((p.x - cen.x) / a) + sqr ((p.y - cen.y) / b) ≤ lit 1

/-! ### exactly evaluable forms (driver `Q` ops) -/

/-- squared distance -/
def distSq (p c : V3 α) : α := V3.normSq (p - c)

/-- `max_i ‖v_i − c‖²` (0 for `[]`) -/
def maxDistSq (pts : List (V3 α)) (c : V3 α) : α :=
  pts.foldl (fun m p => Scalar.max m (distSq p c)) (lit 0)

/-- `‖v_i − c‖² − r²` per vertex: all `≤ 0` ⇔ bounding, all `= 0` ⇔ circum -/
def sphereOffsets (pts : List (V3 α)) (c : V3 α) (r2 : α) : List α :=
  pts.map fun p => distSq p c - r2

/-- `n_i · c + d_i` per plane -/
def planeOffsets (eqs : List (V3 α × α)) (c : V3 α) : List α :=
  eqs.map fun e => V3.dot e.1 c + e.2

/-- optimality certificate of a bounding ball `(c, r²)` of `pts`: support points `s_j` with weights
    `λ_j`. Returns `(max_i (‖p_i−c‖² − r²), max_j |‖s_j−c‖² − r²|, Σλ − 1, ‖Σ λ_j s_j − c‖², min_j λ_j)`.
    The certificate is valid iff the first is `≤ 0`, the 2nd–4th are `0` and the last is `≥ 0`
    (theorem `miniball_optimal`). -/
def certificate (pts : List (V3 α)) (c : V3 α) (r2 : α) (sup : List (α × V3 α)) :
    α × α × α × α × α :=
  let slack := match sphereOffsets pts c r2 with
    | [] => lit 0
    | x :: xs => xs.foldl Scalar.max x
  let dev := sup.foldl (fun m s => Scalar.max m (Scalar.abs (distSq s.2 c - r2))) (lit 0)
  let sl := Scalar.sum (sup.map (·.1))
  let comb := V3.sum (sup.map fun s => V3.smul s.1 s.2)
  let lmin := match sup.map (·.1) with
    | [] => lit 0
    | x :: xs => xs.foldl Scalar.min x
  (slack, dev, sl - lit 1, V3.normSq (comb - c), lmin)

end BallSpec
