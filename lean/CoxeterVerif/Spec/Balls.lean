import CoxeterVerif.Vec
import CoxeterVerif.Model.Balls
/-!
  Specification layer for C13: what it MEANS for a ball (centre `c`, radius `r`) to be a bounding,
  minimal bounding, centred bounding, bounded, circum- or in-ball.  Plain definitions, independent
  of how the code computes anything.  A convex body is presented by its supporting half-spaces
  `n · p + d ≤ 0` (the convention of `ConvexPolyhedron.equations`), a polygon additionally by the
  lines carrying its edges.  No Mathlib.

  The second half contains the exactly evaluable (rational) forms of the same definitions, used by
  the driver in `Q` mode as the oracle: squared distances, plane offsets, certificate residuals.
-/
namespace BallSpec
variable {α : Type} [Scalar α]
open Scalar

/-- distance between two points -/
def dist (p c : V3 α) : α := V3.norm (p - c)

/-- `p` lies in the closed ball -/
def InBall (c : V3 α) (r : α) (p : V3 α) : Prop := dist p c ≤ r

/-- the ball contains every point of `pts` -/
def IsBounding (c : V3 α) (r : α) (pts : List (V3 α)) : Prop := ∀ p ∈ pts, InBall c r p

/-- minimal bounding ball: bounding, and no bounding ball (with ANY centre) is smaller -/
def IsMinimalBounding (c : V3 α) (r : α) (pts : List (V3 α)) : Prop :=
  IsBounding c r pts ∧ ∀ c' r', IsBounding c' r' pts → r ≤ r'

/-- minimal centred bounding ball: bounding, and no bounding ball with the SAME centre is smaller -/
def IsMinCenteredBounding (c : V3 α) (r : α) (pts : List (V3 α)) : Prop :=
  IsBounding c r pts ∧ ∀ r', IsBounding c r' pts → r ≤ r'

/-- `p` satisfies every half-space `n · p + d ≤ 0` -/
def InBody (eqs : List (V3 α × α)) (p : V3 α) : Prop := ∀ e ∈ eqs, V3.dot e.1 p + e.2 ≤ lit 0

/-- the whole ball lies in the body -/
def BallInside (eqs : List (V3 α × α)) (c : V3 α) (r : α) : Prop := ∀ p, InBall c r p → InBody eqs p

/-- the ball touches the boundary plane `e` -/
def TouchesPlane (e : V3 α × α) (c : V3 α) (r : α) : Prop :=
  ∃ p, InBall c r p ∧ V3.dot e.1 p + e.2 = lit 0

/-- maximal centred bounded ball: inside the body, touching one of its planes, and every larger
    concentric ball leaves the body -/
def IsMaxCenteredBounded (eqs : List (V3 α × α)) (c : V3 α) (r : α) : Prop :=
  BallInside eqs c r ∧ (∃ e ∈ eqs, TouchesPlane e c r) ∧ ∀ r', r < r' → ¬ BallInside eqs c r'

/-- the line through `a` with direction `u`: points `a + t u` -/
def linePoint (a u : V3 α) (t : α) : V3 α := a + V3.smul t u

/-- 2-D version (polygon embedded in space): no point of any edge line lies strictly inside the
    ball, and some edge line has a point on the sphere. `lines` = (point, direction) per edge. -/
def IsMaxCenteredBoundedByLines (lines : List (V3 α × V3 α)) (c : V3 α) (r : α) : Prop :=
  (∀ l ∈ lines, ∀ t, r ≤ dist (linePoint l.1 l.2 t) c) ∧
  (∃ l ∈ lines, ∃ t, dist (linePoint l.1 l.2 t) c = r)

/-- circum-ball: every vertex lies ON the sphere -/
def IsCircum (c : V3 α) (r : α) (pts : List (V3 α)) : Prop := ∀ p ∈ pts, dist p c = r

/-- `c` lies in the plane through `v0` with normal `n` -/
def InPlane (n v0 c : V3 α) : Prop := V3.dot n (c - v0) = lit 0

/-- in-ball of a body with UNIT normals: the centre is at signed distance `-r` from every plane
    (tangent to every face plane, from inside) -/
def IsTangentInside (eqs : List (V3 α × α)) (c : V3 α) (r : α) : Prop :=
  ∀ e ∈ eqs, V3.dot e.1 c + e.2 = -r

/-- the solid ellipsoid with semi-axes `a b c` about `cen` (an ellipse: `z`-extent irrelevant,
    use `InEllipse`) -/
def InEllipsoid (a b c : α) (cen p : V3 α) : Prop :=
  sqr ((p.x - cen.x) / a) + sqr ((p.y - cen.y) / b) + sqr ((p.z - cen.z) / c) ≤ lit 1

/-- the filled ellipse in the plane `z = cen.z` -/
def InEllipse (a b : α) (cen p : V3 α) : Prop :=
  p.z = cen.z ∧ sqr ((p.x - cen.x) / a) + sqr ((p.y - cen.y) / b) ≤ lit 1

/-! ### exactly evaluable forms (driver `Q` ops) -/

/-- squared distance -/
def distSq (p c : V3 α) : α := V3.normSq (p - c)

/-- `max_i ‖v_i − c‖²` (0 for `[]`) -/
def maxDistSq (pts : List (V3 α)) (c : V3 α) : α :=
  pts.foldl (fun m p => Scalar.max m (distSq p c)) (lit 0)

/-- `‖v_i − c‖² − r²` per vertex: all `≤ 0` ⇔ bounding, all `= 0` ⇔ circum -/
def sphereOffsets (pts : List (V3 α)) (c : V3 α) (r2 : α) : List α :=
  pts.map fun p => distSq p c - r2

/-- `n_i · c + d_i` per plane -/
def planeOffsets (eqs : List (V3 α × α)) (c : V3 α) : List α :=
  eqs.map fun e => V3.dot e.1 c + e.2

/-- optimality certificate of a bounding ball `(c, r²)` of `pts`: support points `s_j` with weights
    `λ_j`. Returns `(max_i (‖p_i−c‖² − r²), max_j |‖s_j−c‖² − r²|, Σλ − 1, ‖Σ λ_j s_j − c‖², min_j λ_j)`.
    The certificate is valid iff the first is `≤ 0`, the 2nd–4th are `0` and the last is `≥ 0`
    (theorem `miniball_optimal`). -/
def certificate (pts : List (V3 α)) (c : V3 α) (r2 : α) (sup : List (α × V3 α)) :
    α × α × α × α × α :=
  let slack := match sphereOffsets pts c r2 with
    | [] => lit 0
    | x :: xs => xs.foldl Scalar.max x
  let dev := sup.foldl (fun m s => Scalar.max m (Scalar.abs (distSq s.2 c - r2))) (lit 0)
  let sl := Scalar.sum (sup.map (·.1))
  let comb := V3.sum (sup.map fun s => V3.smul s.1 s.2)
  let lmin := match sup.map (·.1) with
    | [] => lit 0
    | x :: xs => xs.foldl Scalar.min x
  (slack, dev, sl - lit 1, V3.normSq (comb - c), lmin)

/-! ### certificate checkers (the driver runs them at exact `Rat`; soundness and completeness are
proved in `Lemmas/BallsCert.lean`, `Lemmas/BallsLstsq.lean`)

`Balls.Row` (one equation `a·x + k·r = b`) is imported from the model as a plain record. -/

/-- exact test `a = 0` -/
def isZero (a : α) : Bool := Scalar.eqb a (lit 0)

def v3Eqb (u v : V3 α) : Bool := Scalar.eqb u.x v.x && Scalar.eqb u.y v.y && Scalar.eqb u.z v.z

/-- total weight `Λ = Σ λ_j` of a weighted support -/
def supWeight (sup : List (α × V3 α)) : α := Scalar.sum (sup.map (·.1))

/-- the convex combination `c* = Σ λ_j s_j / Λ` -/
def supCentre (sup : List (α × V3 α)) : V3 α :=
  V3.sdiv (V3.sum (sup.map fun s => V3.smul s.1 s.2)) (supWeight sup)

/-- **lower bound of a weighted support**: `Σ λ_j ‖s_j − c*‖² / Λ`. Every ball containing the
support points has squared radius at least this (theorem `certLower_le`). -/
def certLower (sup : List (α × V3 α)) : α :=
  Scalar.sum (sup.map fun s => s.1 * distSq s.2 (supCentre sup)) / supWeight sup

/-- decidable side conditions of the lower bound: weights `≥ 0`, total weight `> 0`, every
support point is (exactly) one of the points -/
def certSide (pts : List (V3 α)) (sup : List (α × V3 α)) : Bool :=
  sup.all (fun s => decide (lit 0 ≤ s.1) && pts.any (fun p => v3Eqb s.2 p)) &&
    decide (lit 0 < supWeight sup)

/-- exact form of the certificate: the ball `(c, r²)` contains the points, and the lower bound of
the support reaches `r²` — then `(c, √r²)` IS the minimal ball (theorem `certExact_sound`) -/
def certExact (pts : List (V3 α)) (c : V3 α) (r2 : α) (sup : List (α × V3 α)) : Bool :=
  certSide pts sup && pts.all (fun p => decide (distSq p c ≤ r2)) && decide (r2 ≤ certLower sup)

/-- `Aᵀ(A(x,r) − b)`: half the gradient of `‖A(x,r) − b‖²` at `(x, r)` -/
def normalGrad (rows : List (Balls.Row α)) (x : V3 α) (r : α) : V3 α × α :=
  (V3.sum (rows.map fun row => V3.smul (row.resid x r) row.a),
   Scalar.sum (rows.map fun row => row.resid x r * row.k))

/-- **least-squares certificate**: the normal equations hold exactly at `(x, r)`. Sound and
complete for "`(x, r)` minimises `‖A(x,r) − b‖²`" (theorems `lstsqCert_iff`). -/
def lstsqCert (rows : List (Balls.Row α)) (x : V3 α) (r : α) : Bool :=
  let g := normalGrad rows x r
  isZero g.1.x && isZero g.1.y && isZero g.1.z && isZero g.2

/-! exact solver of the normal equations (Gauss–Jordan with exact zero tests, free unknowns `0`).
It is NOT trusted: its result is accepted only if `lstsqCert` holds for it. -/

def getD0 (l : List α) (i : Nat) : α := l.getD i (lit 0)

def rowSubMul (r p : List α) (f : α) : List α := List.zipWith (fun a b => a - f * b) r p

/-- split off the first element satisfying `pred` -/
def splitFirst {β : Type} (pred : β → Bool) : List β → Option (β × List β)
  | [] => none
  | x :: xs => if pred x then some (x, xs) else
      match splitFirst pred xs with
      | none => none
      | some (y, ys) => some (y, x :: ys)

/-- Gauss–Jordan over the columns `col, col+1, …` (`fuel` of them); `done` = (pivot column, row) -/
def gaussJordan : Nat → Nat → List (Nat × List α) → List (List α) → List (Nat × List α)
  | 0, _, done, _ => done
  | fuel + 1, col, done, rest =>
    match splitFirst (fun r => !(isZero (getD0 r col))) rest with
    | none => gaussJordan fuel (col + 1) done rest
    | some (p, rest) =>
      let pv := getD0 p col
      let p := p.map (· / pv)
      let rest := rest.map fun r => rowSubMul r p (getD0 r col)
      let done := done.map fun d => (d.1, rowSubMul d.2 p (getD0 d.2 col))
      gaussJordan fuel (col + 1) ((col, p) :: done) rest

/-- a solution of `M z = v` (augmented rows `M_i ++ [v_i]`, `n` unknowns), free unknowns `0` -/
def solveAug (n : Nat) (aug : List (List α)) : List α :=
  let done := gaussJordan n 0 [] aug
  (List.range n).map fun j =>
    match done.find? (fun d => d.1 == j) with
    | some d => getD0 d.2 n
    | none => lit 0

/-- the augmented normal equations `AᵀA | Aᵀb` of a system (unknowns `x, y, z, r`) -/
def normalAug (rows : List (Balls.Row α)) : List (List α) :=
  let feat : Balls.Row α → List α := fun row => [row.a.x, row.a.y, row.a.z, row.k]
  (List.range 4).map fun i =>
    ((List.range 4).map fun j => Scalar.sum (rows.map fun row => getD0 (feat row) i * getD0 (feat row) j))
      ++ [Scalar.sum (rows.map fun row => getD0 (feat row) i * row.b)]

/-- candidate least-squares minimiser (to be checked with `lstsqCert`) -/
def solveNormal (rows : List (Balls.Row α)) : V3 α × α :=
  let z := solveAug 4 (normalAug rows)
  (⟨getD0 z 0, getD0 z 1, getD0 z 2⟩, getD0 z 3)

/-! approximate KKT certificate of an nnls answer (optimality of `scipy.optimize.nnls`); soundness:
`nnls_kkt_sound` -/

/-- `G = Σ w_i (p_i − c)` for weights aligned with the boundary points -/
def nnlsG (bd : List (V3 α)) (c : V3 α) (w : List α) : V3 α :=
  V3.sum ((List.zip w bd).map fun s => V3.smul s.1 (s.2 - c))

/-- `Λ = Σ w_i` -/
def nnlsWeight (bd : List (V3 α)) (w : List α) : α := Scalar.sum ((List.zip w bd).map (·.1))

/-- gradient component of the nnls objective for the column of `p`: `(p − c)·G/r² + (Λ − 1)` -/
def kktGradC (G : V3 α) (lam : α) (c : V3 α) (r2 : α) (p : V3 α) : α :=
  V3.dot (p - c) G / r2 + (lam - lit 1)

/-- `(min_j g_j, Σ_j w_j g_j, Σ_j w_j)` at the weights `w` (`min` of an empty list: `0`) -/
def nnlsKkt (bd : List (V3 α)) (c : V3 α) (r2 : α) (w : List α) : α × α × α :=
  let G := nnlsG bd c w
  let lam := nnlsWeight bd w
  let gs := bd.map (kktGradC G lam c r2)
  let gmin := match gs with
    | [] => lit 0
    | x :: xs => xs.foldl Scalar.min x
  (gmin, Scalar.sum ((List.zip w bd).map fun s => s.1 * kktGradC G lam c r2 s.2), lam)

end BallSpec
