import CoxeterVerif.Vec
/-!
  Specification layer for planar regions in the xy-plane: a region is presented as a finite list
  of triangles (z ignored); "exact integrals" are sums of the textbook closed forms of
  ∫1, ∫x, ∫y, ∫x², ∫y², ∫xy over a triangle.
-/
namespace Spec2
variable {α : Type} [Scalar α]
open Scalar

/-- signed area of the triangle (a,b,c) in the xy-plane: ½ (b−a)×(c−a) -/
def triArea (t : Tri α) : α :=
  ((t.b.x - t.a.x) * (t.c.y - t.a.y) - (t.c.x - t.a.x) * (t.b.y - t.a.y)) / lit 2

/-- ∫ x_i over the triangle = A·(a_i+b_i+c_i)/3 -/
def triFirst (t : Tri α) (i : Nat) : α := triArea t * (t.a.get i + t.b.get i + t.c.get i) / lit 3

/-- ∫ x_i x_j over the triangle = A/12·(a_i a_j + b_i b_j + c_i c_j + s_i s_j) -/
def triSecond (t : Tri α) (i j : Nat) : α :=
  triArea t / lit 12 *
    (t.a.get i * t.a.get j + t.b.get i * t.b.get j + t.c.get i * t.c.get j
      + (t.a.get i + t.b.get i + t.c.get i) * (t.a.get j + t.b.get j + t.c.get j))

def area (Ts : List (Tri α)) : α := Scalar.sum (Ts.map triArea)
def first (Ts : List (Tri α)) (i : Nat) : α := Scalar.sum (Ts.map (triFirst · i))
def second (Ts : List (Tri α)) (i j : Nat) : α := Scalar.sum (Ts.map (triSecond · i j))
def centroidX (Ts : List (Tri α)) : α := first Ts 0 / area Ts
def centroidY (Ts : List (Tri α)) : α := first Ts 1 / area Ts

end Spec2
