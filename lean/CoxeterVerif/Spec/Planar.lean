import CoxeterVerif.Vec
import CoxeterVerif.Model.ChainCheck
/-!
  Specification layer for planar regions in the xy-plane: a region is presented as a finite list
  of triangles (z ignored); "exact integrals" are sums of the textbook closed forms of
  ∫1, ∫x, ∫y, ∫x², ∫y², ∫xy over a triangle.
-/
namespace Spec2
variable {α : Type} [Scalar α]
open Scalar

/-- signed area of the triangle (a,b,c) in the xy-plane: ½ (b−a)×(c−a) -/
def triArea (t : Tri α) : α :=
  ((t.b.x - t.a.x) * (t.c.y - t.a.y) - (t.c.x - t.a.x) * (t.b.y - t.a.y)) / lit 2

/-- ∫ x_i over the triangle = A·(a_i+b_i+c_i)/3 -/
def triFirst (t : Tri α) (i : Nat) : α := triArea t * (t.a.get i + t.b.get i + t.c.get i) / lit 3

/-- ∫ x_i x_j over the triangle = A/12·(a_i a_j + b_i b_j + c_i c_j + s_i s_j) -/
def triSecond (t : Tri α) (i j : Nat) : α :=
  triArea t / lit 12 *
    (t.a.get i * t.a.get j + t.b.get i * t.b.get j + t.c.get i * t.c.get j
      + (t.a.get i + t.b.get i + t.c.get i) * (t.a.get j + t.b.get j + t.c.get j))

def area (Ts : List (Tri α)) : α := Scalar.sum (Ts.map triArea)
def first (Ts : List (Tri α)) (i : Nat) : α := Scalar.sum (Ts.map (triFirst · i))
def second (Ts : List (Tri α)) (i j : Nat) : α := Scalar.sum (Ts.map (triSecond · i j))
def centroidX (Ts : List (Tri α)) : α := first Ts 0 / area Ts
def centroidY (Ts : List (Tri α)) : α := first Ts 1 / area Ts

/-! ### computable certificate checkers (the driver runs them exactly over `ℚ` on the oracle's own triangulation;
soundness in `Lemmas/PlanarCert.lean`) -/

/-- directed edges `(v_i, v_{i+1})` of the closed vertex cycle -/
def cycleEdges (w : List (V3 α)) : List (V3 α × V3 α) := w.zip (w.drop (1 % w.length) ++ w.take (1 % w.length))

/-- **triangulation certificate**: the directed edges of the triangles minus the directed edges of the vertex
cycle cancel in pairs — the boundary of the triangle list IS the polygon's cycle, as 1-chains. -/
def triangulationCheck (w : List (V3 α)) (Ts : List (Tri α)) : Bool :=
  let E := cycleEdges w ++ (Ts.flatMap ChainCheck.edgesOf).map (fun e => (e.2, e.1))
  ChainCheck.cancelEdges E.length E

/-- **orientation certificate**: there is a triangle and every triangle is counter-clockwise (exact sign test).
Together with `triangulationCheck` and a simple cycle this forces the triangles to tile the polygon's
interior without overlap (the sum of their indicator functions is the winding number of the cycle). -/
def orientCheck (Ts : List (Tri α)) : Bool :=
  !Ts.isEmpty && Ts.all (fun t => decide (lit 0 < triArea t))

/-- all triangle corners and all cycle vertices have `z = 0` (the oracle works in the polygon's own plane coordinates) -/
def flatCheck (w : List (V3 α)) (Ts : List (Tri α)) : Bool :=
  w.all (fun v => Scalar.eqb v.z (lit 0)) &&
    Ts.all (fun t => Scalar.eqb t.a.z (lit 0) && Scalar.eqb t.b.z (lit 0) && Scalar.eqb t.c.z (lit 0))

end Spec2
