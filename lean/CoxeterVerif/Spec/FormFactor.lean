import CoxeterVerif.Model.FormFactor
/-!
  Specification layer for C12: what "the Fourier transform of the shape" means,
  `F(q) = ρ ∫_shape exp(-i q·r) dr`, written WITHOUT the code's derivation.
  (Only the complex-pair type `Cx` is shared with the model file.)

  * 1-D:  `∫₀¹ exp(-i(a + s b)) ds = exp(-i(a + b/2)) · sinc(b/2)`  (`edgeIntegral`; proved from
    Mathlib's interval integral in `Props/C12.lean: edge_integral`), and
    `∫_lo^hi exp(-i k x) dx = (hi-lo) · sinc(k(hi-lo)/2) · exp(-i k (lo+hi)/2)` (`segFT`).
  * box `[lo,hi]`: product of three `segFT` (Fubini) — `boxFT`; voxel solids: sums of boxes.
  * polygon (unit normal `n`, vertices `vs`), `q∥ = q - (q·n) n ≠ 0`:
    Green's theorem for the field `i q∥ exp(-i q∥·r)/|q∥|²`, whose divergence is `exp(-i q∥·r)`:
       `∫_P exp(-i q∥·r) dA = (i/|q∥|²) Σ_edges q∥·(e × n) ∫₀¹ exp(-i q∥·(u + s e)) ds`
    for vertices running counter-clockwise about `n` (outward edge normal `e × n`); for clockwise
    vertices the boundary is traversed backwards and the sum changes sign, so the transform of the
    REGION is `orient · boundaryForm` with `orient = sign of the fan area about n` — `polygonFT`.
    (Trusted: Green's theorem on polygons; see DESIGN §6.)
  * tetrahedron with pairwise distinct phases `a_j = q·v_j`:
       `∫_T exp(-i q·r) dV = 6 V · exp[z_0,z_1,z_2,z_3]`, `z_j = -i a_j`
                            `= 6 V · (-i) · Σ_j exp(-i a_j)/Π_{k≠j}(a_j - a_k)`
    (divided difference of `exp`, Hermite–Genocchi) — `tetFT`.
  * ball of radius R centred at c: `4π (sin qR - qR cos qR)/q³ · exp(-i q·c)` — `ballFT`.
-/
namespace Spec
variable {α : Type} [Scalar α]
open Scalar

/-- unnormalised sinc, `sin x / x`, `1` at `0` -/
def sinc (x : α) : α := if Scalar.eqb x (lit 0) then lit 1 else Scalar.sin x / x

/-- `exp(-i x)` -/
def cis (x : α) : Cx α := ⟨Scalar.cos x, -(Scalar.sin x)⟩

/-- closed form of `∫₀¹ exp(-i (a + s b)) ds` -/
def edgeIntegral (a b : α) : Cx α := Cx.smul (sinc (b / lit 2)) (cis (a + b / lit 2))

/-- closed form of `∫_lo^hi exp(-i k x) dx` -/
def segFT (lo hi k : α) : Cx α :=
  Cx.smul ((hi - lo) * sinc (k * (hi - lo) / lit 2)) (cis (k * (lo + hi) / lit 2))

/-- axis-aligned box `[lo.x,hi.x]×[lo.y,hi.y]×[lo.z,hi.z]` -/
def boxFT (lo hi qv : V3 α) (density : α) : Cx α :=
  Cx.smul density (Cx.mul (Cx.mul (segFT lo.x hi.x qv.x) (segFT lo.y hi.y qv.y)) (segFT lo.z hi.z qv.z))

/-- union of interior-disjoint boxes -/
def boxesFT (boxes : List (V3 α × V3 α)) (qv : V3 α) (density : α) : Cx α :=
  Cx.sum (boxes.map fun b => boxFT b.1 b.2 qv density)

/-- consecutive pairs of a cyclic vertex list: `(v_i, v_{i+1})`, the last paired with the first -/
def cyclicPairs : List (V3 α) → List (V3 α × V3 α)
  | [] => []
  | v0 :: rest =>
    let rec go (first : V3 α) : V3 α → List (V3 α) → List (V3 α × V3 α)
      | a, [] => [(a, first)]
      | a, b :: l => (a, b) :: go first b l
    go v0 v0 rest

/-- twice the signed area about `n` by the triangle fan from the first vertex:
    `Σ_i ((v_i - v_0) × (v_{i+1} - v_0))·n` -/
def fanArea2 (vs : List (V3 α)) (n : V3 α) : α :=
  match vs with
  | [] => lit 0
  | v0 :: _ => Scalar.sum ((cyclicPairs vs).map fun p => V3.dot (V3.cross (p.1 - v0) (p.2 - v0)) n)

/-- sign of a real number as `-1, 0, +1` -/
def orient_of (a : α) : α := if a < lit 0 then -(lit 1) else if lit 0 < a then lit 1 else lit 0

/-- orientation of the vertex order about `n`: `+1` counter-clockwise, `-1` clockwise -/
def orient (vs : List (V3 α)) (n : V3 α) : α := orient_of (fanArea2 vs n)

/-- area of the polygonal region -/
def polygonMeasure (vs : List (V3 α)) (n : V3 α) : α := Scalar.abs (fanArea2 vs n) / lit 2

/-- `(i/|q|²) Σ_edges q·(e × n) ∫₀¹ exp(-i q·(u + s e)) ds` for an in-plane `qp` -/
def boundaryForm (vs : List (V3 α)) (n qp : V3 α) : Cx α :=
  let qsq := V3.dot qp qp
  Cx.mul (Cx.sdiv Cx.I qsq)
    (Cx.sum ((cyclicPairs vs).map fun p =>
      let e := p.2 - p.1
      Cx.smul (V3.dot qp (V3.cross e n)) (edgeIntegral (V3.dot qp p.1) (V3.dot qp e))))

/-- Fourier transform of the polygonal region with the wave vector projected into its plane -/
def polygonFT (vs : List (V3 α)) (n qv : V3 α) (density : α) : Cx α :=
  let qp := qv - V3.smul (V3.dot qv n) n
  let qsq := V3.dot qp qp
  if Scalar.eqb qsq (lit 0) then Cx.ofReal (density * polygonMeasure vs n)
  else Cx.smul (density * orient vs n) (boundaryForm vs n qp)

/-- Fourier transform of a tetrahedron whose phases `a_j = q·v_j` are pairwise distinct -/
def tetFT (T : Tet α) (qv : V3 α) : Cx α :=
  let vol6 := V3.det3 (T.b - T.a) (T.c - T.a) (T.d - T.a)
  let a0 := V3.dot qv T.a
  let a1 := V3.dot qv T.b
  let a2 := V3.dot qv T.c
  let a3 := V3.dot qv T.d
  let t (x y z w : α) : Cx α := Cx.sdiv (cis x) ((x - y) * (x - z) * (x - w))
  Cx.smul vol6 (Cx.mul (Cx.neg Cx.I)
    (Cx.add (Cx.add (t a0 a1 a2 a3) (t a1 a0 a2 a3)) (Cx.add (t a2 a0 a1 a3) (t a3 a0 a1 a2))))

def tetsFT (Ts : List (Tet α)) (qv : V3 α) (density : α) : Cx α :=
  Cx.smul density (Cx.sum (Ts.map (tetFT · qv)))

/-- ball: `4π (sin qR − qR cos qR)/q³ · exp(-i q·c)`, volume at `q = 0` -/
def ballFT (r : α) (c qv : V3 α) (density : α) : Cx α :=
  let qsq := V3.dot qv qv
  let qn := Scalar.sqrt qsq
  let amp :=
    if Scalar.eqb qsq (lit 0) then q 4 3 * Scalar.pi * (r * r * r)
    else lit 4 * Scalar.pi * (Scalar.sin (qn * r) - qn * r * Scalar.cos (qn * r)) / (qn * qn * qn)
  Cx.smul (density * amp) (cis (V3.dot qv c))

end Spec
