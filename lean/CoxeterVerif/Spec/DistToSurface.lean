import CoxeterVerif.Model.DistToSurface
/-!
  Specification of C14 (no Mathlib; imports the model file only for the types `P2`, `M2`).

  `d` is THE distance to the surface in direction `θ` from the centre `c` iff `d > 0` and
  `c + d (cos θ, sin θ)` lies on the boundary of the shape:
  * ellipse (circle = `a = b = r`):   `x²/a² + y²/b² = 1`              (`onEllipse`)
  * convex polygon:                   on one of its edge segments      (`onPolyBoundary`)
  * spheropolygon:                    at distance exactly `r` from the core polygon
                                      (`onSpheroBoundary`)
  The centre of a polygon is its area centroid (`polyCentroid`, triangle-fan formula, not the
  shoelace formula of the code).

  `rayExit` is the executable form used as the exact oracle over ℚ: the parameter `t > 0` with
  `c + t u` on an edge segment, by Cramer's rule per edge.
-/
namespace Spec
variable {α : Type} [Scalar α]
open Scalar

def cross (u v : P2 α) : α := u.x * v.y - u.y * v.x
def dot (u v : P2 α) : α := u.x * v.x + u.y * v.y

/-- the point at distance `d` in direction `θ` from the origin -/
def rayPoint (d θ : α) : P2 α := ⟨d * cos θ, d * sin θ⟩

/-- `p` (relative to the centre) is on the ellipse with semi-axes `a` (x) and `b` (y) -/
def onEllipse (a b : α) (p : P2 α) : Prop := p.x * p.x / (a * a) + p.y * p.y / (b * b) = lit 1

/-- `p` lies on the closed segment `[a, b]` -/
def onSegment (p a b : P2 α) : Prop :=
  ∃ s : α, lit 0 ≤ s ∧ s ≤ lit 1 ∧ p.x = a.x + s * (b.x - a.x) ∧ p.y = a.y + s * (b.y - a.y)

/-- `p` lies on the line through `a` and `b` -/
def onLine (p a b : P2 α) : Prop := cross (b - a) (p - a) = lit 0

/-- consecutive vertex pairs, closing the loop -/
def edgesOf (V : List (P2 α)) : List (P2 α × P2 α) := V.zip (V.drop 1 ++ V.take 1)

def onPolyBoundary (V : List (P2 α)) (p : P2 α) : Prop :=
  ∃ e, e ∈ edgesOf V ∧ onSegment p e.1 e.2

/-- squared distance from `p` to the segment `[a, b]` (projection clamped to the segment) -/
def distSqSeg (p a b : P2 α) : α :=
  let e := b - a
  let w := p - a
  let ee := dot e e
  let t := dot w e
  if t ≤ lit 0 then dot w w
  else if ee ≤ t then dot (p - b) (p - b)
  else dot w w - t * t / ee

def minList : List α → α
  | [] => lit 0
  | [x] => x
  | x :: xs => Scalar.min x (minList xs)

/-- squared distance from `p` to the boundary of the polygon -/
def distSqBoundary (V : List (P2 α)) (p : P2 α) : α :=
  minList ((edgesOf V).map fun e => distSqSeg p e.1 e.2)

/-- `p` strictly inside the convex polygon `V` (either orientation) -/
def strictlyInside (V : List (P2 α)) (p : P2 α) : Prop :=
  (∀ e, e ∈ edgesOf V → lit 0 < cross (e.2 - e.1) (p - e.1)) ∨
  (∀ e, e ∈ edgesOf V → cross (e.2 - e.1) (p - e.1) < lit 0)

/-- `V` is a strictly convex polygon listed counter-clockwise without repeated vertices: every
    vertex other than the two end points of an edge lies strictly to the left of that directed
    edge (what `ConvexPolygon.__init__` accepts, after its reordering, for normal `+z`) -/
def strictConvexCCW (V : List (P2 α)) : Prop :=
  V.Nodup ∧ ∀ e, e ∈ edgesOf V → ∀ w, w ∈ V → w ≠ e.1 → w ≠ e.2 →
    lit 0 < cross (e.2 - e.1) (w - e.1)

/-- `p` strictly inside the counter-clockwise polygon `V`: strictly to the left of every edge -/
def strictlyInsideCCW (V : List (P2 α)) (p : P2 α) : Prop :=
  ∀ e, e ∈ edgesOf V → lit 0 < cross (e.2 - e.1) (p - e.1)

/-! executable forms of the two hypotheses (run exactly over ℚ by the driver on the
    implementation's stored vertices; soundness over ℝ: `Lemmas/DistToSurfaceCheck.lean`) -/

def p2eqb (u v : P2 α) : Bool := eqb u.x v.x && eqb u.y v.y

def nodupb : List (P2 α) → Bool
  | [] => true
  | v :: vs => vs.all (fun w => !p2eqb v w) && nodupb vs

def strictConvexCCWb (V : List (P2 α)) : Bool :=
  nodupb V && (edgesOf V).all fun e => V.all fun w =>
    p2eqb w e.1 || p2eqb w e.2 || decide (lit 0 < cross (e.2 - e.1) (w - e.1))

def strictlyInsideCCWb (V : List (P2 α)) (p : P2 α) : Bool :=
  (edgesOf V).all fun e => decide (lit 0 < cross (e.2 - e.1) (p - e.1))

/-- `y` belongs to the closed convex polygon `V` (counter-clockwise): on the inner side of every edge -/
def inPolygonCCW (V : List (P2 α)) (y : P2 α) : Prop :=
  ∀ e, e ∈ edgesOf V → lit 0 ≤ cross (e.2 - e.1) (y - e.1)

def distSq (p q : P2 α) : α := (p.x - q.x) * (p.x - q.x) + (p.y - q.y) * (p.y - q.y)

/-- `X` is at distance EXACTLY `r` from the convex polygon `V`: some boundary point is at distance `r`
    and no point of the polygon is closer (this is what "on the boundary of `V ⊕ disc(r)`" means) -/
def atDistExactly (V : List (P2 α)) (r : α) (X : P2 α) : Prop :=
  (∃ y, onPolyBoundary V y ∧ distSq X y = r * r) ∧ ∀ y, inPolygonCCW V y → r * r ≤ distSq X y

/-- `p` is on the boundary of `V ⊕ disc(r)`: at distance exactly `r` from the core polygon
    (for `r = 0` this is the boundary of the polygon itself) -/
def onSpheroBoundary (V : List (P2 α)) (r : α) (p : P2 α) : Prop :=
  distSqBoundary V p = r * r ∧ (lit 0 < r → ¬ strictlyInside V p)

/-- area centroid by the triangle fan `(v0, v_i, v_{i+1})`:
    `Σ A_i (v0 + v_i + v_{i+1})/3 / Σ A_i`, `A_i` = doubled signed triangle area -/
def fanTerms : P2 α → List (P2 α) → List (α × P2 α)
  | v0, a :: b :: rest =>
    (cross (a - v0) (b - v0), ⟨(v0.x + a.x + b.x) / lit 3, (v0.y + a.y + b.y) / lit 3⟩) ::
      fanTerms v0 (b :: rest)
  | _, _ => []

def polyCentroid (V : List (P2 α)) : P2 α :=
  match V with
  | [] => ⟨lit 0, lit 0⟩
  | v0 :: rest =>
    let ts := fanTerms v0 rest
    let A := Scalar.sum (ts.map (·.1))
    ⟨Scalar.sum (ts.map fun t => t.1 * t.2.x) / A, Scalar.sum (ts.map fun t => t.1 * t.2.y) / A⟩

/-- ray `c + t u` against the segment `[a, b]`: `some t` iff they meet with `t > 0`
    (`t u − s e = a − c`, Cramer) -/
def rayHit (a b c u : P2 α) : Option α :=
  let e := b - a
  let den := cross u e
  if eqb den (lit 0) then none
  else
    let t := cross (a - c) e / den
    let s := cross (a - c) u / den
    if lit 0 < t ∧ lit 0 ≤ s ∧ s ≤ lit 1 then some t else none

/-- largest hit parameter over all edges (`none`: the ray meets no edge) -/
def rayExit (V : List (P2 α)) (c u : P2 α) : Option α :=
  (edgesOf V).foldl (fun acc e =>
    match rayHit e.1 e.2 c u, acc with
    | some t, some t0 => some (Scalar.max t0 t)
    | some t, none => some t
    | none, acc => acc) none

end Spec
