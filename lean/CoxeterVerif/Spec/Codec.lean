import CoxeterVerif.Model.Codec
/-!
  # What property C19 asks of the representations (specification layer)

  Only the vocabulary (`Val`, `Dict`, `Cls`, `Shape` and its projections, the record `Meas` of
  external getters) is taken from `Model/Codec.lean`; nothing here refers to how the code builds
  its dictionaries. No Mathlib.

  * GSD : decoding the GSD spec of a shape gives the same class (for a `Polygon` whose cycle is
    convex: the `ConvexPolygon` subclass — the schema has one `"Polygon"` type) with the same
    vertices, radii / semi-axes (and faces for a mesh).
  * repr : evaluating the printed call gives the same class or its general-polytope base class with
    the same vertices, faces, radii, centre and normal.
  * to_json : the keys are exactly the requested attributes, each bound to that attribute's value.
  * key renaming : every key goes to its image under the mapping (itself when unmapped), values
    and order untouched.
  * to_hoomd : the documented keys; `vertices` = original − centroid, `centroid` = 0, and area /
    volume / inertia tensor are those of THAT centred vertex set.
-/
namespace C19.Spec
open Scalar
variable {α : Type}

/-! ### GSD / repr round trips -/

/-- the dimensionality a GSD reader knows from the simulation box (`none`: irrelevant) -/
def dimOf : Cls → Option Nat
  | .circle | .ellipse => some 2
  | .sphere | .ellipsoid => some 3
  | _ => none

/-- class expected back from the GSD spec; `convex` = the stored cycle is convex -/
def gsdTarget (convex : Bool) : Cls → Cls
  | .polygon => if convex then .convexPolygon else .polygon
  | c => c

/-- class expected back from `eval(repr(·))`: the class or its general-polytope base class -/
def reprTarget : Cls → Cls
  | .convexPolygon => .polygon
  | .convexPolyhedron => .polyhedron
  | c => c

/-- class that `from_gsd_type_shapes(spec, dimensions)` must return for the spec of a shape of class
    `c`, for ANY value of the `dimensions` argument: the argument decides between the 2-D and the 3-D
    curved class that share a GSD type, and is ignored for every vertex based class. `none`: the spec
    of an ellipse has no `c`, reading it as a 3-D ellipsoid is a `KeyError`. -/
def gsdDispatch (dim : Nat) (convex : Bool) : Cls → Option Cls
  | .circle | .sphere => some (if dim = 2 then .circle else .sphere)
  | .ellipse => if dim = 2 then some .ellipse else none
  | .ellipsoid => some (if dim = 2 then .ellipse else .ellipsoid)
  | c => some (gsdTarget convex c)

structure GsdRoundTrip (convex : Bool) (s s' : Shape α) : Prop where
  cls : s'.cls = gsdTarget convex s.cls
  verts : s'.verts = s.verts
  radii : s'.radii = s.radii
  /-- only the `Mesh` type carries faces -/
  faces : s.cls = .polyhedron → s'.faces = s.faces

structure ReprRoundTrip (s s' : Shape α) : Prop where
  cls : s'.cls = reprTarget s.cls
  verts : s'.verts = s.verts
  faces : s'.faces = s.faces
  radii : s'.radii = s.radii
  center : s'.center? = s.center?
  normal : s'.normal? = s.normal?

/-- the five type strings of the GSD shape schema -/
def gsdTypes : List String := ["Sphere", "Ellipsoid", "Polygon", "ConvexPolyhedron", "Mesh"]

/-! ### to_json -/

/-- `d` holds exactly the requested attributes with their values -/
structure ExactAttrs (getattr : String → Except String (Val α)) (attrs : List String)
    (d : Dict α) : Prop where
  subset : ∀ k, k ∈ Dict.keys d → k ∈ attrs
  complete : ∀ a, a ∈ attrs → ∃ v, getattr a = .ok v ∧ Dict.get? d a = some v
  nodup : (Dict.keys d).Nodup

/-! ### key renaming -/

/-- image of a key: library `List.lookup`, the key itself when absent -/
def rename (m : List (String × String)) (k : String) : String := (m.lookup k).getD k

/-- entry by entry renaming: same length, same order, same values -/
def renamed (m : List (String × String)) (d : Dict α) : Dict α := d.map fun e => (rename m e.1, e.2)

/-- the key names HOOMD uses for coxeter's property names -/
def hoomdNames : List (String × String) :=
  [("inertia_tensor", "moment_inertia"), ("radius", "sweep_radius")]

/-! ### to_hoomd -/

/-- documented key sets (docstrings of the six `to_hoomd` methods); `none`: no such method -/
def hoomdKeys : Cls → Option (List String)
  | .polygon | .convexPolygon => some ["vertices", "centroid", "sweep_radius", "area", "moment_inertia"]
  | .polyhedron | .convexPolyhedron =>
      some ["vertices", "faces", "centroid", "sweep_radius", "volume", "moment_inertia"]
  | .spheropolygon => some ["vertices", "centroid", "sweep_radius", "area"]
  | .spheropolyhedron => some ["vertices", "centroid", "sweep_radius", "volume"]
  | .sphere => some ["diameter", "centroid", "volume", "moment_inertia"]
  | .ellipsoid => some ["a", "b", "c", "centroid", "volume", "moment_inertia"]
  | .circle | .ellipse => none

variable [Scalar α]

/-- the shape translated so that the point `c` goes to the origin -/
def centred (vs : List (V3 α)) (c : V3 α) : List (V3 α) := vs.map fun v => v - c

/-- 2-D classes list `(x, y)`, 3-D classes `(x, y, z)` -/
def coords (cols : Nat) (vs : List (V3 α)) : List (List α) :=
  if cols = 2 then vs.map fun v => [v.x, v.y] else vs.map fun v => [v.x, v.y, v.z]

/-- the dict describes ONE shape: the original moved so that its centroid is the origin.
    `size` = `"area"` or `"volume"`; `inertia` = the class documents `moment_inertia`. -/
structure HoomdCentred (M : Meas α) (cols : Nat) (size : String) (inertia : Bool)
    (vs : List (V3 α)) (d : Dict α) : Prop where
  vertices : Dict.get? d "vertices" = some (.mat (coords cols (centred vs (M.cen vs))))
  centroid : Dict.get? d "centroid" = some (.vec [lit 0, lit 0, lit 0])
  size : Dict.get? d size = some (.num (M.scalar size (centred vs (M.cen vs))))
  inertia : inertia = true →
    Dict.get? d "moment_inertia" = some (.mat (M.tensor (centred vs (M.cen vs))))

/-- curved classes: centre 0 and measures taken at centre 0 -/
structure HoomdCentredCurved (M : Meas α) (d : Dict α) : Prop where
  centroid : Dict.get? d "centroid" = some (.vec [lit 0, lit 0, lit 0])
  volume : Dict.get? d "volume" = some (.num (M.scalarC "volume" V3.zero))
  inertia : Dict.get? d "moment_inertia" = some (.mat (M.tensorC V3.zero))

/-- the centroid getter commutes with translations of a (non-empty) vertex array — what "centroid"
    means for every class; for the real getters this is property C09 -/
def Equivariant (M : Meas α) : Prop :=
  ∀ (vs : List (V3 α)) (t : V3 α), vs ≠ [] → M.cen (vs.map fun v => v + t) = M.cen vs + t

/-- … at one vertex array (all that `to_hoomd` of that shape needs; for the polygon getters of C04 it
    holds for planar simple cycles, for the polyhedron getters of C01 / C02 for closed surfaces) -/
def EquivariantAt (M : Meas α) (vs : List (V3 α)) : Prop :=
  ∀ t : V3 α, M.cen (vs.map fun v => v + t) = M.cen vs + t

end C19.Spec
