import CoxeterVerif.Vec
/-!
  C11 — specification layer (what the property MEANS; independent of the code's derivation).

  Trusted geometric facts recorded here as definitions (not proved in Lean):

  * **Steiner's theorem.** For a convex body `K ⊂ ℝ³` with volume `V`, surface area `S` and
    integrated mean curvature `H = ∫_{∂K} (κ₁+κ₂)/2 dA`, the parallel body `K ⊕ rB` has
      volume `V + S r + H r² + (4π/3) r³`, surface area `S + 2 H r + 4π r²`,
      integrated mean curvature `H + 4π r`.
    In the plane: area `A + P r + π r²`, perimeter `P + 2π r`.
  * **Integrated mean curvature of a convex polytope**: `H = ½ Σ_edges L_e · θ_e` with `θ_e` the
    exterior angle (`π −` dihedral angle) at the edge.
  * coxeter's normalisation: `M = H / (4π)` (the radius of the ball with the same `H`).

  An edge is a pair `(L, φ)` = (length, interior dihedral angle).
-/
namespace SteinerSpec
variable {α : Type} [Scalar α]
open Scalar

/-- exterior angle at an edge with interior dihedral angle `φ` -/
def exterior (phi : α) : α := pi - phi

/-- `Σ_e L_e θ_e` by structural recursion -/
def edgeSum : List (α × α) → α
  | [] => lit 0
  | e :: es => e.1 * exterior e.2 + edgeSum es

/-- integrated mean curvature of a convex polytope, `H = ½ Σ L θ` (trusted) -/
def integratedMeanCurvature (es : List (α × α)) : α := edgeSum es / lit 2

/-- coxeter's normalisation `M = H / 4π`: for a ball of radius `ρ`, `H = 4πρ`, so `M = ρ` -/
def normalise (H : α) : α := H / (lit 4 * pi)

/-- `M` of a polytope -/
def meanCurvature (es : List (α × α)) : α := normalise (integratedMeanCurvature es)

/-! Steiner polynomials in the classical variables `(V, S, H, r)` -/
def steinerVolume (V S H r : α) : α := V + S * r + H * (r * r) + lit 4 * pi / lit 3 * (r * r * r)
def steinerArea (S H r : α) : α := S + lit 2 * H * r + lit 4 * pi * (r * r)
def steinerIntegratedMeanCurvature (H r : α) : α := H + lit 4 * pi * r
/-- planar Steiner formulas -/
def steinerArea2 (A P r : α) : α := A + P * r + pi * (r * r)
def steinerPerimeter2 (P r : α) : α := P + lit 2 * pi * r

/-! the same in the property's variables (`M` instead of `H`) — the statement of C11 verbatim -/
def statedVolume (V S M r : α) : α :=
  V + S * r + lit 4 * pi * M * (r * r) + lit 4 / lit 3 * pi * (r * r * r)
def statedArea (S M r : α) : α := S + lit 8 * pi * M * r + lit 4 * pi * (r * r)
def statedMeanCurvature (M r : α) : α := M + r

/-! balls and discs (for the isoperimetric and sphericity descriptors) -/
def ballVolume (rho : α) : α := lit 4 / lit 3 * pi * (rho * rho * rho)
def sphereArea (rho : α) : α := lit 4 * pi * (rho * rho)
def discArea (rho : α) : α := pi * (rho * rho)
def circlePerimeter (rho : α) : α := lit 2 * pi * rho

/-- radius of the sphere with surface area `S` -/
def radiusOfArea (S : α) : α := Scalar.sqrt (S / (lit 4 * pi))
/-- radius of the circle with perimeter `P` -/
def radiusOfPerimeter (P : α) : α := P / (lit 2 * pi)

/-- 3-D isoperimetric quotient: (volume / volume of the sphere of equal area)² -/
def iq3 (V S : α) : α :=
  let x := V / ballVolume (radiusOfArea S)
  x * x
/-- 2-D isoperimetric quotient: area / area of the circle of equal perimeter -/
def iq2 (A P : α) : α := A / discArea (radiusOfPerimeter P)

/-- Naumann's `τ`: area of the sphere whose radius is the normalised mean curvature, over `S` -/
def tau (M S : α) : α := sphereArea M / S
/-- Irrgang's asphericity `α = M S / 3V` (`= 1` for a ball) -/
def asphericity (M S V : α) : α := M * S / (lit 3 * V)

/-- angle between two non-zero vectors: `arccos(u·v / |u||v|)` -/
def angle (u v : V3 α) : α := Scalar.acos (V3.dot u v / (V3.norm u * V3.norm v))
/-- interior dihedral angle between two faces with OUTWARD normals `n₁`, `n₂`: `π − ∠(n₁, n₂)` -/
def dihedral (n1 n2 : V3 α) : α := pi - angle n1 n2

end SteinerSpec
