import CoxeterVerif.Vec
/-!
  C11 — specification layer (what the property MEANS; independent of the code's derivation).

  Trusted geometric facts recorded here as definitions (not proved in Lean):

  * **Steiner's theorem.** For a convex body `K ⊂ ℝ³` with volume `V`, surface area `S` and
    integrated mean curvature `H = ∫_{∂K} (κ₁+κ₂)/2 dA`, the parallel body `K ⊕ rB` has
      volume `V + S r + H r² + (4π/3) r³`, surface area `S + 2 H r + 4π r²`,
      integrated mean curvature `H + 4π r`.
    In the plane: area `A + P r + π r²`, perimeter `P + 2π r`.
  * **Integrated mean curvature of a convex polytope**: `H = ½ Σ_edges L_e · θ_e` with `θ_e` the
    exterior angle (`π −` dihedral angle) at the edge.
  * coxeter's normalisation: `M = H / (4π)` (the radius of the ball with the same `H`).

  An edge is a pair `(L, φ)` = (length, interior dihedral angle).
-/
namespace SteinerSpec
variable {α : Type} [Scalar α]
open Scalar

/-- exterior angle at an edge with interior dihedral angle `φ` -/
def exterior (phi : α) : α := pi - phi

/-- `Σ_e L_e θ_e` by structural recursion -/
def edgeSum : List (α × α) → α
  | [] => lit 0
  | e :: es => e.1 * exterior e.2 + edgeSum es

/-- integrated mean curvature of a convex polytope, `H = ½ Σ L θ` (trusted) -/
def integratedMeanCurvature (es : List (α × α)) : α := edgeSum es / lit 2

/-- coxeter's normalisation `M = H / 4π`: for a ball of radius `ρ`, `H = 4πρ`, so `M = ρ` -/
def normalise (H : α) : α := H / (lit 4 * pi)

/-- `M` of a polytope -/
def meanCurvature (es : List (α × α)) : α := normalise (integratedMeanCurvature es)

/-! Steiner polynomials in the classical variables `(V, S, H, r)` -/
def steinerVolume (V S H r : α) : α := V + S * r + H * (r * r) + lit 4 * pi / lit 3 * (r * r * r)
def steinerArea (S H r : α) : α := S + lit 2 * H * r + lit 4 * pi * (r * r)
def steinerIntegratedMeanCurvature (H r : α) : α := H + lit 4 * pi * r
/-- planar Steiner formulas -/
def steinerArea2 (A P r : α) : α := A + P * r + pi * (r * r)
def steinerPerimeter2 (P r : α) : α := P + lit 2 * pi * r

/-! the same in the property's variables (`M` instead of `H`) — the statement of C11 verbatim -/
def statedVolume (V S M r : α) : α :=
  V + S * r + lit 4 * pi * M * (r * r) + lit 4 / lit 3 * pi * (r * r * r)
def statedArea (S M r : α) : α := S + lit 8 * pi * M * r + lit 4 * pi * (r * r)
def statedMeanCurvature (M r : α) : α := M + r

/-! balls and discs (for the isoperimetric and sphericity descriptors) -/
def ballVolume (rho : α) : α := lit 4 / lit 3 * pi * (rho * rho * rho)
def sphereArea (rho : α) : α := lit 4 * pi * (rho * rho)
def discArea (rho : α) : α := pi * (rho * rho)
def circlePerimeter (rho : α) : α := lit 2 * pi * rho

/-- radius of the sphere with surface area `S` -/
def radiusOfArea (S : α) : α := Scalar.sqrt (S / (lit 4 * pi))
/-- radius of the circle with perimeter `P` -/
def radiusOfPerimeter (P : α) : α := P / (lit 2 * pi)

/-- 3-D isoperimetric quotient: (volume / volume of the sphere of equal area)² -/
def iq3 (V S : α) : α :=
  let x := V / ballVolume (radiusOfArea S)
  x * x
/-- 2-D isoperimetric quotient: area / area of the circle of equal perimeter -/
def iq2 (A P : α) : α := A / discArea (radiusOfPerimeter P)

/-- Naumann's `τ`: area of the sphere whose radius is the normalised mean curvature, over `S` -/
def tau (M S : α) : α := sphereArea M / S
/-- Irrgang's asphericity `α = M S / 3V` (`= 1` for a ball) -/
def asphericity (M S V : α) : α := M * S / (lit 3 * V)

/-- angle between two non-zero vectors: `arccos(u·v / |u||v|)` -/
def angle (u v : V3 α) : α := Scalar.acos (V3.dot u v / (V3.norm u * V3.norm v))
/-- interior dihedral angle between two faces with OUTWARD normals `n₁`, `n₂`: `π − ∠(n₁, n₂)` -/
def dihedral (n1 n2 : V3 α) : α := pi - angle n1 n2

/-- the same angle without `acos` and without unit normals: `atan2(|n₁ × n₂|, −n₁·n₂)` (well conditioned
for knife edges and for nearly coplanar faces alike) -/
def dihedralAtan2 (n1 n2 : V3 α) : α := Scalar.atan2 (V3.norm (V3.cross n1 n2)) (-(V3.dot n1 n2))

/-! ### the planar parallel body BY DECOMPOSITION (deepening round)

`K ⊕ rB` for a convex polygon `K` (vertices `vs`, counter-clockwise) is the union of
  * `K` itself (area `A`),
  * one rectangle `L_i × r` on every edge,
  * one circular sector of radius `r` at every vertex whose opening angle is the exterior (turning)
    angle `θ_i` at that vertex (area `θ_i r²/2`, arc `θ_i r`).
What is trusted here is only that these pieces tile the parallel body and the area of a rectangle
and of a circular sector.  That the sectors add up to ONE full disc (`Σ θ_i = 2π`) — which is what
turns the decomposition into `A + P r + π r²` — is a theorem (`polygon_exterior_angles_sum`).
A planar point is a pair `(x, y)`. -/

def sub2 (p q : α × α) : α × α := (p.1 - q.1, p.2 - q.2)
def cross2 (e f : α × α) : α := e.1 * f.2 - e.2 * f.1
def dot2 (e f : α × α) : α := e.1 * f.1 + e.2 * f.2
def norm2 (e : α × α) : α := Scalar.sqrt (dot2 e e)

/-- signed exterior (turning) angle at `b` on the walk `a → b → c`, in `(−π, π]` -/
def turnAngle (a b c : α × α) : α :=
  Scalar.atan2 (cross2 (sub2 b a) (sub2 c b)) (dot2 (sub2 b a) (sub2 c b))

/-- total turning along an open path (one term per interior vertex of the path) -/
def pathTurn : List (α × α) → α
  | a :: b :: c :: t => turnAngle a b c + pathTurn (b :: c :: t)
  | _ => lit 0

/-- length of an open path -/
def pathLen : List (α × α) → α
  | a :: b :: t => norm2 (sub2 b a) + pathLen (b :: t)
  | _ => lit 0

/-- the closed walk `v₀ v₁ … v_{n−1} v₀ v₁`: every vertex is an interior vertex exactly once -/
def closeUp (vs : List (α × α)) : List (α × α) := vs ++ vs.take 2
/-- the closed walk `v₀ v₁ … v_{n−1} v₀`: every edge exactly once -/
def closeEdges (vs : List (α × α)) : List (α × α) := vs ++ vs.take 1

/-- sum of the exterior angles of the polygon -/
def turnSum (vs : List (α × α)) : α := pathTurn (closeUp vs)
/-- perimeter of the polygon -/
def perimeter2 (vs : List (α × α)) : α := pathLen (closeEdges vs)

/-- shoelace area `½ Σ (x_i y_{i+1} − x_{i+1} y_i)` of the closed walk -/
def shoelacePath : List (α × α) → α
  | a :: b :: t => cross2 a b + shoelacePath (b :: t)
  | _ => lit 0
def shoelace2 (vs : List (α × α)) : α := shoelacePath (closeEdges vs) / lit 2

/-- area of a circular sector of radius `r` and opening angle `θ` -/
def sectorArea (theta r : α) : α := theta / lit 2 * (r * r)
/-- length of its arc -/
def arcLength (theta r : α) : α := theta * r

/-- Σ over the edges of the area of the rectangle `L × r` -/
def stripSum (r : α) : List (α × α) → α
  | a :: b :: t => norm2 (sub2 b a) * r + stripSum r (b :: t)
  | _ => lit 0
/-- Σ over the vertices of the sector area -/
def sectorSum (r : α) : List (α × α) → α
  | a :: b :: c :: t => sectorArea (turnAngle a b c) r + sectorSum r (b :: c :: t)
  | _ => lit 0
/-- Σ over the vertices of the arc length -/
def arcSum (r : α) : List (α × α) → α
  | a :: b :: c :: t => arcLength (turnAngle a b c) r + arcSum r (b :: c :: t)
  | _ => lit 0

/-- area of the parallel body as the sum of its pieces -/
def parallelArea2 (A : α) (vs : List (α × α)) (r : α) : α :=
  A + stripSum r (closeEdges vs) + sectorSum r (closeUp vs)
/-- perimeter of the parallel body: the translated edges and the arcs -/
def parallelPerimeter2 (vs : List (α × α)) (r : α) : α :=
  pathLen (closeEdges vs) + arcSum r (closeUp vs)

/-- `a, b, c` make a strict left turn -/
def ccw (a b c : α × α) : Bool := decide (lit 0 < cross2 (sub2 b a) (sub2 c a))

/-- `p b c` for every `b` before `c` in the list -/
def pairsAll (p : α × α → α × α → Bool) : List (α × α) → Bool
  | [] => true
  | b :: t => t.all (p b) && pairsAll p t

/-- **strictly convex, counter-clockwise**: every triple of vertices taken in list order makes a
strict left turn.  (Decidable; evaluated exactly over ℚ by the driver on the implementation's own
stored vertices.)  It implies that every vertex lies strictly to the left of every edge line not
through it — the usual definition of a strictly convex counter-clockwise polygon. -/
def allCcw : List (α × α) → Bool
  | [] => true
  | a :: t => pairsAll (ccw a) t && allCcw t

/-! ### the vertex pieces of the spatial parallel body add up to ONE ball

In `K ⊕ rB` the piece at a vertex `v` is the cone of the ball over the exterior (normal) solid angle
`Ω_v`, of volume `Ω_v r³/3` and area `Ω_v r²`.  By Girard's theorem (trusted) the exterior solid
angle of a convex polytope at `v` is its angular defect `2π − Σ (face angles at v)`.  Regrouping the
face angles by faces, `Σ_v Ω_v = 2π·#V − Σ_f (sum of the interior angles of f)`.  That this is `4π`
— the `4/3 π r³` and `4π r²` of the code — is a theorem (`vertex_caps_sum`) from the exterior-angle
theorem for every face and Euler's formula `V − E + F = 2`, which the driver checks on the
implementation's own faces (`eulerOk`). -/

/-- interior angle at `b` of the corner `a b c` of a counter-clockwise face -/
def interiorAngle (a b c : α × α) : α := pi - turnAngle a b c

def pathInterior : List (α × α) → α
  | a :: b :: c :: t => interiorAngle a b c + pathInterior (b :: c :: t)
  | _ => lit 0

/-- sum of the interior angles of a face (given in coordinates of its own plane) -/
def faceAngleSum (vs : List (α × α)) : α := pathInterior (closeUp vs)

/-- `Σ_v (2π − Σ face angles at v)` regrouped by faces -/
def capAngleSum (nV : Nat) (faces : List (List (α × α))) : α :=
  lit 2 * pi * Scalar.ofNat nV - Scalar.sum (faces.map faceAngleSum)

/-- total volume of the vertex pieces -/
def capVolume (nV : Nat) (faces : List (List (α × α))) (r : α) : α :=
  capAngleSum nV faces / lit 3 * (r * r * r)
/-- total area of the vertex pieces -/
def capArea (nV : Nat) (faces : List (List (α × α))) (r : α) : α :=
  capAngleSum nV faces * (r * r)

/-- Euler's formula from the vertex count and the face sizes: `2E = Σ n_f`, `V + F = E + 2` -/
def eulerOk (nV : Nat) (sizes : List Nat) : Bool := 2 * (nV + sizes.length) == sizes.sum + 4

/-- volume of the cylinder wedge on an edge of length `L` with exterior angle `θ`: sector area × length -/
def wedgeVolume (len theta r : α) : α := len * sectorArea theta r
/-- its curved area: arc length × length -/
def wedgeArea (len theta r : α) : α := len * arcLength theta r

def wedgeVolumeSum (r : α) : List (α × α) → α
  | [] => lit 0
  | e :: es => wedgeVolume e.1 (exterior e.2) r + wedgeVolumeSum r es
def wedgeAreaSum (r : α) : List (α × α) → α
  | [] => lit 0
  | e :: es => wedgeArea e.1 (exterior e.2) r + wedgeAreaSum r es

/-- volume of the spatial parallel body as the sum of its pieces: core, face slabs, edge wedges,
vertex pieces -/
def parallelVolume3 (V S : α) (es : List (α × α)) (nV : Nat) (faces : List (List (α × α))) (r : α) : α :=
  V + S * r + wedgeVolumeSum r es + capVolume nV faces r
/-- its surface area: translated faces, wedge mantles, vertex caps -/
def parallelArea3 (S : α) (es : List (α × α)) (nV : Nat) (faces : List (List (α × α))) (r : α) : α :=
  S + wedgeAreaSum r es + capArea nV faces r

/-! ### rescaling (`_rescale(k)`: every length × k) of the descriptors' arguments -/

/-- the edge list of the core scaled by `k`: lengths × k, angles unchanged -/
def scaleEdges (k : α) (es : List (α × α)) : List (α × α) := es.map fun e => (k * e.1, e.2)

end SteinerSpec
