import CoxeterVerif.Model.Heap
/-!
  # What property C16 asks of a query (specification layer)

  Only the vocabulary (`St`, `Obs`, `Meas`, `Getter`, `Query`, `Answer`) comes from the model.

  1. The property's clauses as predicates on a before/after pair of states: same observables, the
     caller's argument arrays and the arrays handed out earlier hold the same values, the vertex
     array the caller may hold is still THE vertex array, a returned array is detached.
  2. The hypotheses under which they are proved: `WF` (array ids are allocated, the vertex array is
     not also another attribute), `Coherent` (caches hold what the code would recompute),
     `Lawful` (the centroid getters commute with translations — property C09 — and the volume is
     translation invariant).
  3. A VALUE semantics of every query: what it returns as a pure function of the observables, with
     no heap, no identities and no intermediate states (`Spec.answer`). "Free of side effects" is
     the statement that the heap program computes this function and leaves the observables alone.
  No Mathlib.
-/
namespace C16.Spec
open Scalar
variable {α : Type}

/-! ### the clauses -/

/-- array `i` holds the same values after as before -/
def SameAt (s s' : St α) (i : Id) : Prop := s'.get i = s.get i
def SameObservables (s s' : St α) : Prop := observe s' = observe s
def ArgsUnchanged (s s' : St α) : Prop := ∀ i, i ∈ s.args → SameAt s s' i
def HandedUnchanged (s s' : St α) : Prop := ∀ i, i ∈ s.handed → SameAt s s' i
/-- `shape._vertices is v` still holds for the array `v` the caller got from `.vertices` -/
def VerticesAttached (s s' : St α) : Prop := s'.fVerts = s.fVerts
/-- no attribute of the shape is bound to array `i` -/
def Detached (s : St α) (i : Id) : Prop :=
  i ≠ s.fVerts ∧ i ≠ s.fNormal ∧ i ≠ s.fCen ∧ i ≠ s.fEqs ∧ i ≠ s.fSeqs

/-! ### hypotheses -/

/-- ids in use are allocated; the vertex array is no other attribute; what the caller holds exists -/
structure WF (s : St α) : Prop where
  verts : s.fVerts < s.next
  normal : s.fNormal < s.next ∧ s.fNormal ≠ s.fVerts
  cen : s.fCen < s.next ∧ s.fCen ≠ s.fVerts
  eqs : s.fEqs < s.next ∧ s.fEqs ≠ s.fVerts
  seqs : s.fSeqs < s.next ∧ s.fSeqs ≠ s.fVerts
  areas : ∀ i, s.cAreas = some i → i < s.next ∧ i ≠ s.fVerts
  faceCen : ∀ i, s.cFaceCen = some i → i < s.next ∧ i ≠ s.fVerts
  edges : ∀ i, s.cEdges = some i → i < s.next ∧ i ≠ s.fVerts
  handed : ∀ i, i ∈ s.handed → i < s.next
  args : ∀ i, i ∈ s.args → i < s.next

variable [Scalar α]

/-- what is assumed about the code outside the model -/
structure Lawful (M : Meas α) : Prop where
  /-- the recomputed centroid commutes with translations (C09) -/
  cen_shift : ∀ (δ : V3 α) (vs n : Arr α), 3 ≤ vs.length → M.cen (shiftRows δ vs) n = M.cen vs n + δ
  /-- so does the cached one when it is computed with the shape's own volume -/
  cenV_shift : ∀ (δ : V3 α) (vs : Arr α), 3 ≤ vs.length →
    M.cenV (M.vol vs) (shiftRows δ vs) = M.cenV (M.vol vs) vs + δ
  /-- the signed-tetrahedron volume does not depend on the position -/
  vol_shift : ∀ (δ : V3 α) (vs : Arr α), M.vol (shiftRows δ vs) = M.vol vs

/-- the caches hold what the code would recompute from the vertices -/
structure Coherent (M : Meas α) (s : St α) : Prop where
  verts : s.cls.kind ≠ .curved → 3 ≤ (s.get s.fVerts).length
  eqs : s.cls.kind = .poly ∨ s.cls.kind = .convex → s.get s.fEqs = M.eqs (s.get s.fVerts)
  seqs : s.cls.kind = .convex → s.get s.fSeqs = M.seqs (s.get s.fVerts)
  volume : s.cls.kind = .convex → s.volume = M.vol (s.get s.fVerts)
  cen : s.cls.kind = .convex → s.get s.fCen = v3l (M.cenV s.volume (s.get s.fVerts))
  centre : s.cls.kind = .curved → ∃ c : V3 α, s.get s.fCen = v3l c
  edges : ∀ i, s.cEdges = some i → s.get i = M.value "edges" (observe s)

structure Inv (M : Meas α) (s : St α) : Prop where
  wf : WF s
  coh : Coherent M s

/-! ### value semantics -/

def one (tag : Nat) (a : Arr α) : Answer α := { arrays := [(tag, a)], scalars := [], err := none }
def failed (kind : String) : Answer α := { arrays := [], scalars := [], err := some kind }
def nothing : Answer α := { arrays := [], scalars := [], err := none }

/-- the centroid a caller reads -/
def centroidOf (M : Meas α) (cls : Cls) (o : Obs α) : V3 α :=
  match cls.kind with
  | .planar => M.cen o.verts o.normal
  | .poly => M.cen o.verts []
  | .convex => l3v o.cen
  | .curved => l3v o.cen

/-- the shape after `shape.centroid = value` -/
def moved (M : Meas α) (cls : Cls) (o : Obs α) (value : V3 α) : Obs α :=
  match cls.kind with
  | .curved => { o with cen := v3l value }
  | .planar => { o with verts := shiftRows (value - centroidOf M cls o) o.verts }
  | .poly =>
      { o with verts := shiftRows (value - centroidOf M cls o) o.verts,
               eqs := M.eqs (shiftRows (value - centroidOf M cls o) o.verts) }
  | .convex =>
      { o with verts := shiftRows (value - centroidOf M cls o) o.verts,
               eqs := M.eqs (shiftRows (value - centroidOf M cls o) o.verts),
               seqs := M.seqs (shiftRows (value - centroidOf M cls o) o.verts),
               cen := v3l (M.cenV o.volume (shiftRows (value - centroidOf M cls o) o.verts)),
               volume := M.vol (shiftRows (value - centroidOf M cls o) o.verts) }

/-- `Polygon.inertia_tensor` as a value: polar moment of the centred, rotated polygon, rotated back
and moved by the parallel-axis theorem -/
def polygonInertia (M : Meas α) (cls : Cls) (o : Obs α) : Arr α :=
  M.tensor2 (centroidOf M cls o)
    { moved M cls o V3.zero with
        verts := M.rot o.normal (moved M cls o V3.zero).verts, normal := [lit 0, lit 0, lit 1] }
    o.normal

/-- `Polyhedron.inertia_tensor` as a value: from the surface triangles minus the centroid -/
def polyhedronInertia (M : Meas α) (cls : Cls) (o : Obs α) : Arr α :=
  M.tensor3 (shiftRows (V3.zero - centroidOf M cls o) (M.gather o.verts)) o

def getterAns (M : Meas α) (cls : Cls) (o : Obs α) : Getter → Answer α
  | .vertices => if cls.kind = .curved then failed "AttributeError" else one 0 o.verts
  | .normal => if cls.kind = .planar then one 1 o.normal else failed "AttributeError"
  | .centroid =>
      if cls = .spheropolygon ∨ cls = .spheropolyhedron then failed "NotImplementedError"
      else match cls.kind with
        | .planar => one 2 (v3l (centroidOf M cls o))
        | .poly => one 2 (v3l (centroidOf M cls o))
        | .convex => one 2 o.cen
        | .curved => one 2 o.cen
  | .equations => if cls = .convexPolyhedron then one 3 o.eqs else failed "AttributeError"
  | .normals =>
      if cls = .polyhedron ∨ cls = .convexPolyhedron then one 3 o.eqs else failed "AttributeError"
  | .faceCentroids =>
      if cls = .convexPolyhedron then one 5 (M.value "face_centroids" o) else failed "AttributeError"
  | .edges =>
      if cls = .polyhedron ∨ cls = .convexPolyhedron then one 6 (M.value "edges" o)
      else failed "AttributeError"
  | .inertiaTensor =>
      match cls with
      | .polygon => one 4 (polygonInertia M cls o)
      | .convexPolygon => one 4 (polygonInertia M cls o)
      | .polyhedron => one 4 (polyhedronInertia M cls o)
      | .convexPolyhedron => one 4 (polyhedronInertia M cls o)
      | .spheropolygon => failed "NotImplementedError"
      | .spheropolyhedron => failed "NotImplementedError"
      | _ => one 4 (M.value "inertia_tensor" o)
  | .value name => one 7 (M.value name o)

/-- `to_json`: every attribute is read off the SAME shape -/
def toJsonAns (M : Meas α) (cls : Cls) (o : Obs α) : List Getter → Answer α
  | [] => nothing
  | g :: gs =>
      match (getterAns M cls o g).err with
      | some k => failed k
      | none =>
          match (toJsonAns M cls o gs).err with
          | some k => failed k
          | none =>
              { arrays := (getterAns M cls o g).arrays ++ (toJsonAns M cls o gs).arrays,
                scalars := (getterAns M cls o g).scalars ++ (toJsonAns M cls o gs).scalars,
                err := none }

/-- `to_hoomd`: the description of the shape translated to the origin -/
def toHoomdAns (M : Meas α) (cls : Cls) (o : Obs α) : Answer α :=
  match cls with
  | .circle => failed "AttributeError"
  | .ellipse => failed "AttributeError"
  | .sphere =>
      { arrays := [(2, (moved M cls o V3.zero).cen), (4, M.value "inertia_tensor" (moved M cls o V3.zero))],
        scalars := M.value "volume" (moved M cls o V3.zero), err := none }
  | .ellipsoid =>
      { arrays := [(2, (moved M cls o V3.zero).cen), (4, M.value "inertia_tensor" (moved M cls o V3.zero))],
        scalars := M.value "volume" (moved M cls o V3.zero), err := none }
  | .polygon =>
      { arrays := [(0, cols2 (moved M cls o V3.zero).verts),
                   (2, v3l (centroidOf M cls (moved M cls o V3.zero))),
                   (4, polygonInertia M cls (moved M cls o V3.zero))],
        scalars := M.value "area" (moved M cls o V3.zero), err := none }
  | .convexPolygon =>
      { arrays := [(0, cols2 (moved M cls o V3.zero).verts),
                   (2, v3l (centroidOf M cls (moved M cls o V3.zero))),
                   (4, polygonInertia M cls (moved M cls o V3.zero))],
        scalars := M.value "area" (moved M cls o V3.zero), err := none }
  -- AS CODED: the spheropolygon is not centred (known finding of C19)
  | .spheropolygon => { arrays := [(0, o.verts)], scalars := M.value "area" o, err := none }
  | .polyhedron =>
      { arrays := [(0, (moved M cls o V3.zero).verts),
                   (2, v3l (centroidOf M cls (moved M cls o V3.zero))),
                   (4, polyhedronInertia M cls (moved M cls o V3.zero))],
        scalars := M.value "volume" (moved M cls o V3.zero), err := none }
  | .convexPolyhedron =>
      { arrays := [(0, (moved M cls o V3.zero).verts), (2, (moved M cls o V3.zero).cen),
                   (4, polyhedronInertia M cls (moved M cls o V3.zero))],
        scalars := M.value "volume" (moved M cls o V3.zero), err := none }
  | .spheropolyhedron =>
      { arrays := [(0, (moved M cls o V3.zero).verts)],
        scalars := M.value "volume" (moved M cls o V3.zero), err := none }

def getFaceAreaAns (M : Meas α) (cls : Cls) (o : Obs α) : Answer α :=
  match cls with
  | .convexPolyhedron => one 7 (M.value "get_face_area" o)
  | .polyhedron => one 7 (M.value "get_face_area" o)
  | _ => failed "AttributeError"

/-- file exports return nothing (the file content is a function of the observables: C20) -/
def saveAns (cls : Cls) : Answer α :=
  if cls = .polyhedron ∨ cls = .convexPolyhedron then nothing else failed "AttributeError"

/-- what a query returns, as a function of the observables and of the contents `arg` of the
caller's argument array -/
def answer (M : Meas α) (cls : Cls) (o : Obs α) (arg : Arr α) : Query → Answer α
  | .get g => getterAns M cls o g
  | .toJson gs => toJsonAns M cls o gs
  | .getFaceArea => getFaceAreaAns M cls o
  | .toHoomd => toHoomdAns M cls o
  | .save _ => saveAns cls
  | .withArg name _ => one 8 (M.withArg name o arg)

end C16.Spec

namespace C16
/-- contents of the argument array of a query (`[]` when it has none) -/
def Query.argOf {α : Type} (s : St α) : Query → Arr α
  | .withArg _ a => s.get a
  | _ => []
end C16
