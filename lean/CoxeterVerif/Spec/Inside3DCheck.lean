import CoxeterVerif.Spec.Inside3D
import CoxeterVerif.Model.Inside3D
/-!
  Computable checkers (no Mathlib, generic `Scalar`; the driver runs them at exact `Rat`) for the
  structural hypotheses of `cp_inside_iff_hull` and `sphero_inside_iff` (Props/C05.lean):

  * `exactFacetsCheck V eqs ws F` : the hypothesis `ExactFacets` — every vertex satisfies every plane
    inequality; `o = Σ wᵢ vᵢ` with convex weights; the triangles `F` (each paired with a plane) form a
    closed surface with vertices in `V`; every triangle lies EXACTLY in its plane, which is one of
    `eqs`; `o` is strictly inside every triangle and every plane.
  * `spheroExactCheck V r Fs ws F` : the hypothesis `SpheroExact` — `0 ≤ r`; the core is an exact facet
    structure; per face: unit normal, the face points are vertices on the plane, every vertex on the
    plane is a face point, and (for `r > 0`) the extruded prism `(pts − r n) ∪ (pts + r n)` with its own
    planes is an exact facet structure; two faces with different planes share at most the two ends of
    one consecutive pair of the face's cyclic order.
  Soundness: `Lemmas/Inside3DCheck.lean`.
-/
namespace Spec.In3D
variable {α : Type} [Scalar α]
open Scalar

def isZero (x : α) : Bool := Scalar.eqb x (lit 0)

/-- the `ExactFacets` checker -/
def exactFacetsCheck (V : List (V3 α)) (eqs : List (V3 α × α)) (ws : List α)
    (F : List (Tri α × V3 α × α)) : Bool :=
  let o := comb ws V
  (eqs.all fun e => V.all fun v => decide (planeVal e.1 e.2 v ≤ lit 0)) &&
  decide (ws.length = V.length) && (ws.all fun w => decide (lit 0 ≤ w)) &&
  Scalar.eqb (Scalar.sum ws) (lit 1) && !F.isEmpty &&
  ChainCheck.closedCheck (F.map Prod.fst) &&
  F.all fun f =>
    eqs.any (planeEqb f.2.1 f.2.2) &&
    V.any (ChainCheck.v3Eqb f.1.a) && V.any (ChainCheck.v3Eqb f.1.b) && V.any (ChainCheck.v3Eqb f.1.c) &&
    decide (lit 0 < orient o f.1.a f.1.b f.1.c) && decide (planeVal f.2.1 f.2.2 o < lit 0) &&
    isZero (planeVal f.2.1 f.2.2 f.1.a) && isZero (planeVal f.2.1 f.2.2 f.1.b) &&
    isZero (planeVal f.2.1 f.2.2 f.1.c)

/-- one face of the core with the certificate data of its extruded prism -/
structure FaceC (α : Type) where
  n : V3 α
  d : α
  prism : List (V3 α × α)
  pts : List (V3 α)
  pws : List α
  pF : List (Tri α × V3 α × α)

/-- the per-face part of `spheroExactCheck` -/
def faceCheck (V : List (V3 α)) (r : α) (f : FaceC α) : Bool :=
  Scalar.eqb (V3.normSq f.n) (lit 1) &&
  (f.pts.all fun v => V.any (ChainCheck.v3Eqb v) && isZero (planeVal f.n f.d v)) &&
  (V.all fun v => !(isZero (planeVal f.n f.d v)) || f.pts.any (ChainCheck.v3Eqb v)) &&
  (!(decide (lit 0 < r)) ||
    exactFacetsCheck (Inside3D.Sphero.prismVertices r f.n f.pts) f.prism f.pws f.pF)

/-- two faces with different planes share at most the ends of one edge of the first -/
def pairCheck (V : List (V3 α)) (f g : FaceC α) : Bool :=
  planeEqb f.n f.d (g.n, g.d) ||
  (f.pts.zip (Inside3D.roll f.pts)).any fun se =>
    V.all fun v => !(isZero (planeVal f.n f.d v)) || !(isZero (planeVal g.n g.d v)) ||
      ChainCheck.v3Eqb v se.1 || ChainCheck.v3Eqb v se.2

/-- the `SpheroExact` checker -/
def spheroExactCheck (V : List (V3 α)) (r : α) (Fs : List (FaceC α)) (ws : List α)
    (F : List (Tri α × V3 α × α)) : Bool :=
  decide (lit 0 ≤ r) &&
  exactFacetsCheck V (Fs.map fun f => (f.n, f.d)) ws F &&
  (Fs.all fun f => faceCheck V r f) &&
  (Fs.all fun f => Fs.all fun g => pairCheck V f g)

end Spec.In3D
