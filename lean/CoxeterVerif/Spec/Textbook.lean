import CoxeterVerif.Model.Tabulated
/-!
  Specification side of C18.  No Mathlib.

  1. What "is the solid its name says" is checked against, entered BY HAND from the
     standard literature (Coxeter, *Regular Polytopes*; Cromwell, *Polyhedra*; Johnson 1966)
     and independent of /repo: `(V, E, F)` and the face-type census of the 5 Platonic,
     13 Archimedean and 13 Catalan solids.
  2. Executable, Bool-valued geometric predicates on integer data scaled by 10¹⁸
     (`Tab.Entry`).  They use only `+ - *` and comparisons of integers and structural
     recursion on lists, so the kernel evaluates them (`decide +kernel`); the tolerances
     (10⁻⁹, because the JSON holds 16-digit decimals) are part of the predicates:
       distances to planes      ≤ 10⁻⁹            (absolute; the solids have size ≈ 1)
       volume                   within 10⁻⁹ of 1
       squared lengths/distances equal within 2·10⁻⁹ relative (i.e. lengths within 10⁻⁹)
-/
namespace Tab

/-! ### integer vector algebra (coordinates × 10¹⁸) -/

def P3.add (a b : P3) : P3 := ⟨a.x + b.x, a.y + b.y, a.z + b.z⟩
def P3.sub (a b : P3) : P3 := ⟨a.x - b.x, a.y - b.y, a.z - b.z⟩
def P3.smul (k : Int) (a : P3) : P3 := ⟨k * a.x, k * a.y, k * a.z⟩
def P3.dot (a b : P3) : Int := a.x * b.x + a.y * b.y + a.z * b.z
def P3.cross (a b : P3) : P3 :=
  ⟨a.y * b.z - a.z * b.y, a.z * b.x - a.x * b.z, a.x * b.y - a.y * b.x⟩
def P3.normSq (a : P3) : Int := a.dot a
def det3 (a b c : P3) : Int := a.dot (b.cross c)
def P3.zero : P3 := ⟨0, 0, 0⟩

/-- 10¹⁸ : one coordinate unit -/
def unit18 : Int := 1000000000000000000
/-- 10⁹ -/
def e9 : Int := 1000000000
/-- 6·10⁵⁴ : six times a unit volume, in (10¹⁸)³ -/
def sixUnitVol : Int := 6000000000000000000000000000000000000000000000000000000
/-- 6·10⁴⁵ : six times 10⁻⁹ of a unit volume -/
def sixVolTol : Int := 6000000000000000000000000000000000000000000000

def intLe (a b : Int) : Bool := decide (a ≤ b)
def intLt (a b : Int) : Bool := decide (a < b)
def intAbs (a : Int) : Int := if a < 0 then -a else a

/-- `a` and `b` (squared lengths) agree within 2·10⁻⁹ relative to `a` -/
def nearSq (a b : Int) : Bool := intLe (intAbs (b - a) * e9) (2 * a)

/-- ratios `a/B` and `a0/B0` (positive denominators) agree within 2·10⁻⁹ relative -/
def nearRatio (a0 B0 a B : Int) : Bool :=
  intLe (intAbs (a * B0 - a0 * B) * e9) (2 * a0 * B)

/-! ### combinatorics of a face list -/

def nthP (vs : List P3) (i : Nat) : P3 := vs.getD i P3.zero

/-- consecutive pairs `(l₀,l₁),(l₁,l₂),…,(lₖ,l₀)` of a cyclic list -/
def cycPairs {β : Type} : List β → List (β × β)
  | [] => []
  | a :: t => go a a t
where
  go (first prev : β) : List β → List (β × β)
    | [] => [(prev, first)]
    | b :: t => (prev, b) :: go first b t

/-- pairs `(lᵢ, lᵢ₊₂)` of a cyclic list (the short diagonals of a polygon) -/
def cycPairs2 {β : Type} (l : List β) : List (β × β) :=
  l.zip (l.drop 2 ++ l.take 2)

/-- a directed edge `a → b` as one number (indices are < 4096) -/
def edgeCode (ab : Nat × Nat) : Nat := ab.1 * 4096 + ab.2
def edgeCodeRev (ab : Nat × Nat) : Nat := ab.2 * 4096 + ab.1

def cnt (c : Nat) : List Nat → Nat
  | [] => 0
  | x :: t => cond (Nat.beq x c) (cnt c t + 1) (cnt c t)

def dirEdges (e : Entry) : List (Nat × Nat) := e.faces.flatMap cycPairs

/-- every face index is a vertex index, and every vertex is used by some face -/
def usesExactlyVerts (e : Entry) : Bool :=
  let n := e.verts.length
  let idx := e.faces.flatMap id
  idx.all (fun i => Nat.blt i n) && (List.range n).all (fun i => Nat.blt 0 (cnt i idx))

/-- closed oriented surface: faces have ≥ 3 corners, no directed edge is a loop or occurs
    twice, and every directed edge `a → b` has exactly one partner `b → a` -/
def closedOriented (e : Entry) : Bool :=
  let es := dirEdges e
  let fw := es.map edgeCode
  let bw := es.map edgeCodeRev
  e.faces.all (fun f => Nat.ble 3 f.length)
    && es.all (fun ab => !(Nat.beq ab.1 ab.2))
    && fw.all (fun c => Nat.beq (cnt c fw) 1)
    && bw.all (fun c => Nat.beq (cnt c fw) 1)

def numV (e : Entry) : Nat := e.verts.length
def numF (e : Entry) : Nat := e.faces.length
/-- twice the number of edges = number of directed edges -/
def numE2 (e : Entry) : Nat := (dirEdges e).length

/-- V − E + F = 2, written `2V + 2F = 2E + 4` -/
def eulerOk (e : Entry) : Bool := Nat.beq (2 * numV e + 2 * numF e) (numE2 e + 4)

/-- number of faces with `k` corners -/
def facesOfSize (e : Entry) (k : Nat) : Nat := cnt k (e.faces.map List.length)

/-! ### geometry of a face list -/

def facePts (e : Entry) (f : List Nat) : List P3 := f.map (nthP e.verts)

/-- Newell's area vector `Σ pᵢ × pᵢ₊₁` (= 2·area·outward unit normal of a planar polygon) -/
def newell (ps : List P3) : P3 :=
  (cycPairs ps).foldl (fun acc pq => acc.add (pq.1.cross pq.2)) P3.zero

/-- signed distance of `v` from the plane through `p0` with normal `n` is ≤ 10⁻⁹ -/
def belowPlane (n p0 : P3) (nn : Int) (v : P3) : Bool :=
  let d := n.dot (v.sub p0)
  intLe d 0 || intLe (d * d) (unit18 * nn)

/-- distance of `v` from that plane is ≤ 10⁻⁹ -/
def onPlane (n p0 : P3) (nn : Int) (v : P3) : Bool :=
  let d := n.dot (v.sub p0)
  intLe (d * d) (unit18 * nn)

/-- convexity certificate: every face is planar with a non-zero area vector, and all vertices
    of the solid lie on the inner side of (or on) its plane -/
def convexOk (e : Entry) : Bool :=
  e.faces.all fun f =>
    match facePts e f with
    | [] => false
    | p0 :: rest =>
      let n := newell (p0 :: rest)
      let nn := n.normSq
      intLt 0 nn && e.verts.all (belowPlane n p0 nn) && rest.all (onPlane n p0 nn)

/-- fan triangles `(p0, pᵢ, pᵢ₊₁)` of a polygon -/
def fan : List P3 → List (P3 × P3 × P3)
  | [] => []
  | p0 :: rest => (rest.zip (rest.drop 1)).map fun qr => (p0, qr.1, qr.2)

def surfaceTris (e : Entry) : List (P3 × P3 × P3) := e.faces.flatMap fun f => fan (facePts e f)

/-- six times the enclosed volume: `Σ det(a,b,c)` over the surface triangles, in (10¹⁸)³ -/
def vol6 (e : Entry) : Int := (surfaceTris e).foldl (fun acc t => acc + det3 t.1 t.2.1 t.2.2) 0

def unitVolumeOk (e : Entry) : Bool := intLe (intAbs (vol6 e - sixUnitVol)) sixVolTol
def positiveVolume (e : Entry) : Bool := intLt 0 (vol6 e)

def sqDist (vs : List P3) (ab : Nat × Nat) : Int := ((nthP vs ab.1).sub (nthP vs ab.2)).normSq

/-- all edges have one length (within 10⁻⁹ relative) -/
def equalEdgesOk (e : Entry) : Bool :=
  match (dirEdges e).map (sqDist e.verts) with
  | [] => false
  | l0 :: t => intLt 0 l0 && t.all (nearSq l0)

/-- every face is a regular polygon: equal sides and equal short diagonals (together with
    planarity and convexity from `convexOk`) -/
def regularFacesOk (e : Entry) : Bool :=
  e.faces.all fun f =>
    (match (cycPairs f).map (sqDist e.verts) with
      | [] => false
      | l0 :: t => intLt 0 l0 && t.all (nearSq l0))
    && (match (cycPairs2 f).map (sqDist e.verts) with
      | [] => false
      | l0 :: t => intLt 0 l0 && t.all (nearSq l0))

/-- centroid of the solid as numerator/denominator: `Σ det·(a+b+c)` and `4·Σ det`
    (centroid × 10¹⁸ = num / den) -/
def centroidNum (e : Entry) : P3 :=
  (surfaceTris e).foldl
    (fun acc t => acc.add (P3.smul (det3 t.1 t.2.1 t.2.2) ((t.1.add t.2.1).add t.2.2))) P3.zero
def centroidDen (e : Entry) : Int := 4 * vol6 e

/-- for one face: `(n·(D·p0 − C), |n|²)` — the distance from the centroid `C/D` to the face
    plane is the first component divided by `D·|n|` -/
def faceHeight (e : Entry) (C : P3) (D : Int) (f : List Nat) : Int × Int :=
  match facePts e f with
  | [] => (0, 0)
  | p0 :: rest =>
    let n := newell (p0 :: rest)
    (n.dot ((P3.smul D p0).sub C), n.normSq)

/-- an insphere centred at the centroid exists: all face planes are at one positive distance
    from the centroid (squared distances agree within 2·10⁻⁹ relative) -/
def insphereOk (e : Entry) : Bool :=
  let C := centroidNum e
  let D := centroidDen e
  match e.faces.map (faceHeight e C D) with
  | [] => false
  | (h0, n0) :: t =>
    intLt 0 D && intLt 0 h0 && intLt 0 n0 &&
      t.all fun hn => intLt 0 hn.1 && intLt 0 hn.2 && nearRatio (h0 * h0) n0 (hn.1 * hn.1) hn.2

/-- two vertex lists are the same point set up to 10⁻⁹ (and have the same length) -/
def sameVerts (a b : List P3) : Bool :=
  let close (p q : P3) : Bool := intLe (p.sub q).normSq unit18
  Nat.beq a.length b.length && a.all (fun p => b.any (close p)) && b.all (fun p => a.any (close p))

/-- what every table entry must satisfy: a `ConvexPolyhedron` record whose face certificate is a
    closed oriented convex surface on exactly its vertices, with positive volume and Euler
    characteristic 2 -/
def polyhedronOk (e : Entry) : Bool :=
  usesExactlyVerts e && closedOriented e && convexOk e && eulerOk e && positiveVolume e

end Tab

/-! ## The textbook -/
namespace Textbook

/-- name, V, E, F, face census `[(corners, how many)]` -/
structure Solid where
  name : String
  v : Nat
  e : Nat
  f : Nat
  faces : List (Nat × Nat)

def platonic : List Solid := [
  ⟨"Tetrahedron", 4, 6, 4, [(3, 4)]⟩,
  ⟨"Cube", 8, 12, 6, [(4, 6)]⟩,
  ⟨"Octahedron", 6, 12, 8, [(3, 8)]⟩,
  ⟨"Dodecahedron", 20, 30, 12, [(5, 12)]⟩,
  ⟨"Icosahedron", 12, 30, 20, [(3, 20)]⟩ ]

def archimedean : List Solid := [
  ⟨"Truncated Tetrahedron", 12, 18, 8, [(3, 4), (6, 4)]⟩,
  ⟨"Cuboctahedron", 12, 24, 14, [(3, 8), (4, 6)]⟩,
  ⟨"Truncated Cube", 24, 36, 14, [(3, 8), (8, 6)]⟩,
  ⟨"Truncated Octahedron", 24, 36, 14, [(4, 6), (6, 8)]⟩,
  ⟨"Rhombicuboctahedron", 24, 48, 26, [(3, 8), (4, 18)]⟩,
  ⟨"Truncated Cuboctahedron", 48, 72, 26, [(4, 12), (6, 8), (8, 6)]⟩,
  ⟨"Snub Cuboctahedron", 24, 60, 38, [(3, 32), (4, 6)]⟩,
  ⟨"Icosidodecahedron", 30, 60, 32, [(3, 20), (5, 12)]⟩,
  ⟨"Truncated Dodecahedron", 60, 90, 32, [(3, 20), (10, 12)]⟩,
  ⟨"Truncated Icosahedron", 60, 90, 32, [(5, 12), (6, 20)]⟩,
  ⟨"Rhombicosidodecahedron", 60, 120, 62, [(3, 20), (4, 30), (5, 12)]⟩,
  ⟨"Truncated Icosidodecahedron", 120, 180, 62, [(4, 30), (6, 20), (10, 12)]⟩,
  ⟨"Snub Icosidodecahedron", 60, 150, 92, [(3, 80), (5, 12)]⟩ ]

/-- the duals of the above, in the same order (V and F exchanged) -/
def catalan : List Solid := [
  ⟨"Triakis Tetrahedron", 8, 18, 12, [(3, 12)]⟩,
  ⟨"Rhombic Dodecahedron", 14, 24, 12, [(4, 12)]⟩,
  ⟨"Triakis Octahedron", 14, 36, 24, [(3, 24)]⟩,
  ⟨"Tetrakis Hexahedron", 14, 36, 24, [(3, 24)]⟩,
  ⟨"Deltoidal Icositetrahedron", 26, 48, 24, [(4, 24)]⟩,
  ⟨"Disdyakis Dodecahedron", 26, 72, 48, [(3, 48)]⟩,
  ⟨"Pentagonal Icositetrahedron", 38, 60, 24, [(5, 24)]⟩,
  ⟨"Rhombic Triacontahedron", 32, 60, 30, [(4, 30)]⟩,
  ⟨"Triakis Icosahedron", 32, 90, 60, [(3, 60)]⟩,
  ⟨"Pentakis Dodecahedron", 32, 90, 60, [(3, 60)]⟩,
  ⟨"Deltoidal Hexecontahedron", 62, 120, 60, [(4, 60)]⟩,
  ⟨"Disdyakis Triacontahedron", 62, 180, 120, [(3, 120)]⟩,
  ⟨"Pentagonal Hexecontahedron", 92, 150, 60, [(5, 60)]⟩ ]

/-- internal consistency of a hand-entered row: Euler's formula, the census adds up to F,
    and the corners add up to 2E -/
def Solid.consistent (s : Solid) : Bool :=
  Nat.beq (s.v + s.f) (s.e + 2)
    && Nat.beq ((s.faces.map Prod.snd).foldl (· + ·) 0) s.f
    && Nat.beq ((s.faces.map fun kc => kc.1 * kc.2).foldl (· + ·) 0) (2 * s.e)

end Textbook

namespace Tab

/-- the entry has the counts and the face census of the textbook row -/
def matchesTextbook (s : Textbook.Solid) (e : Entry) : Bool :=
  Nat.beq (numV e) s.v && Nat.beq (numE2 e) (2 * s.e) && Nat.beq (numF e) s.f
    && s.faces.all (fun kc => Nat.beq (facesOfSize e kc.1) kc.2)

end Tab
