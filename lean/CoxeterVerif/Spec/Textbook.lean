import CoxeterVerif.Model.Tabulated
/-!
  Specification side of C18.  No Mathlib.

  1. What "is the solid its name says" is checked against, entered BY HAND from the
     standard literature (Coxeter, *Regular Polytopes*; Cromwell, *Polyhedra*; Johnson 1966)
     and independent of /repo: `(V, E, F)` and the face-type census of the 5 Platonic,
     13 Archimedean and 13 Catalan solids, and `(V, E, F)` of the 92 Johnson solids by number
     (`namespace Textbook`, second half of this file; see also 3.).
  2. Executable, Bool-valued geometric predicates on integer data scaled by 10¹⁸
     (`Tab.Entry`).  They use only `+ - *` and comparisons of integers, bit operations on
     naturals and structural recursion on lists, so the kernel evaluates them
     (`decide +kernel`); the tolerances (10⁻⁹, because the JSON holds 16-digit decimals) are
     part of the predicates:
       distances to planes       ≤ 10⁻⁹            (absolute; the solids have size ≈ 1)
       volume                    within 10⁻⁹ of 1
       squared lengths/distances equal within 2·10⁻⁹ relative (i.e. lengths within 10⁻⁹)
     Where a predicate is written in a kernel-friendly way (bit sets, forced literals) a plain
     **reference definition** stands next to it, and the two are proved equal: `convexOk_eq_ref`
     (`Lemmas/Tabulated.lean`), `usesExactlyVerts_eq_ref`, `closedOriented_eq_ref`
     (`Lemmas/TabulatedBits.lean`).  What every predicate MEANS as a statement over ℝ about the
     vertices is proved, for every entry, in `Lemmas/TabulatedReal*.lean` / `TabulatedMeaning.lean`.
  3. (V, E, F) + face census of the Johnson solids with Johnson's names, of the prisms / antiprisms
     and pyramids / dipyramids, and of the seven repository solids outside the families; every
     per-table obligation demands a row (no row ⇒ `false`).
-/
namespace Tab

/-! ### integer primitives written for kernel evaluation

The kernel evaluates call-by-name and is fast on `Nat` literals only; the hot loops therefore
call `Int.add/sub/mul` directly, force intermediate values to literals (`forceInt`) before
they are used several times, and use bit sets of `Nat` for the combinatorial part.  -/

/-- `forceInt x k = k x` (lemma `Tab.forceInt_eq` in Props/C18.lean): evaluate `x` to a literal
    before handing it to `k` -/
def forceInt {β : Type} (x : Int) (k : Int → β) : β :=
  match x with
  | .ofNat n => (match n with | 0 => k (.ofNat 0) | .succ m => k (.ofNat (.succ m)))
  | .negSucc n => (match n with | 0 => k (.negSucc 0) | .succ m => k (.negSucc (.succ m)))

/-- `a ≤ 0` -/
def isNonpos : Int → Bool
  | .ofNat n => Nat.beq n 0
  | .negSucc _ => true
/-- `a ≤ b` -/
def intLe (a b : Int) : Bool := isNonpos (Int.sub a b)
/-- `a < b` -/
def intLt (a b : Int) : Bool := !(isNonpos (Int.sub b a))
/-- `|a|` -/
def intAbs : Int → Int
  | .ofNat n => .ofNat n
  | .negSucc n => .ofNat (Nat.succ n)

/-! ### integer vector algebra (coordinates × 10¹⁸) -/

def P3.zero : P3 := ⟨0, 0, 0⟩
def P3.add (a b : P3) : P3 := ⟨a.x + b.x, a.y + b.y, a.z + b.z⟩
def P3.sub (a b : P3) : P3 := ⟨a.x - b.x, a.y - b.y, a.z - b.z⟩
def P3.smul (k : Int) (a : P3) : P3 := ⟨k * a.x, k * a.y, k * a.z⟩
def P3.dot (a b : P3) : Int := a.x * b.x + a.y * b.y + a.z * b.z
def P3.cross (a b : P3) : P3 :=
  ⟨a.y * b.z - a.z * b.y, a.z * b.x - a.x * b.z, a.x * b.y - a.y * b.x⟩
def P3.normSq (a : P3) : Int := a.dot a
/-- determinant with rows `a b c` -/
def det3 (a b c : P3) : Int := a.dot (b.cross c)

/-- 10¹⁸ : one coordinate unit; also (10⁻⁹)² in squared coordinate units -/
def unit18 : Int := 1000000000000000000
/-- 10⁹ -/
def e9 : Int := 1000000000
/-- 6·10⁵⁴ : six times a unit volume, in (10¹⁸)³ -/
def sixUnitVol : Int := 6000000000000000000000000000000000000000000000000000000
/-- 6·10⁴⁵ : six times 10⁻⁹ of a unit volume -/
def sixVolTol : Int := 6000000000000000000000000000000000000000000000

/-- squared lengths `a`, `b` agree within 2·10⁻⁹ relative to `a` (lengths within 10⁻⁹) -/
def nearSq (a b : Int) : Bool := intLe (intAbs (b - a) * e9) (2 * a)

/-- ratios `a/B` and `a0/B0` (positive denominators) agree within 2·10⁻⁹ relative to `a0/B0` -/
def nearRatio (a0 B0 a B : Int) : Bool :=
  intLe (intAbs (a * B0 - a0 * B) * e9) (2 * a0 * B)

/-! ### combinatorics of a face list -/

def nthP (vs : List P3) (i : Nat) : P3 := vs.getD i P3.zero

/-- consecutive pairs `(l₀,l₁),(l₁,l₂),…,(lₖ,l₀)` of a cyclic list -/
def cycPairs {β : Type} : List β → List (β × β)
  | [] => []
  | a :: t => go a a t
where
  go (first prev : β) : List β → List (β × β)
    | [] => [(prev, first)]
    | b :: t => (prev, b) :: go first b t

/-- pairs `(lᵢ, lᵢ₊₂)` of a cyclic list (the short diagonals of a polygon) -/
def cycPairs2 {β : Type} (l : List β) : List (β × β) :=
  l.zip (l.drop 2 ++ l.take 2)

/-- all directed edges `a → b` of the faces, each face walked in its stored orientation -/
def dirEdges (e : Entry) : List (Nat × Nat) := e.faces.flatMap cycPairs

def numV (e : Entry) : Nat := e.verts.length
def numF (e : Entry) : Nat := e.faces.length
/-- twice the number of edges = number of directed edges -/
def numE2 (e : Entry) : Nat := (dirEdges e).length

/-- number of occurrences -/
def cnt (c : Nat) : List Nat → Nat
  | [] => 0
  | x :: t => cond (Nat.beq x c) (cnt c t + 1) (cnt c t)

/-- a directed edge as one number (vertex indices are < 4096, see `usesExactlyVerts`) -/
def edgeCode (ab : Nat × Nat) : Nat := ab.1 * 4096 + ab.2
def edgeCodeRev (ab : Nat × Nat) : Nat := ab.2 * 4096 + ab.1

/-- `Σ 2^c` with multiplicity -/
def bitSum (l : List Nat) : Nat := l.foldl (fun acc c => Nat.add acc (Nat.shiftLeft 1 c)) 0
/-- the set `{c}` as a bit set, `⋁ 2^c` -/
def bitOr (l : List Nat) : Nat := l.foldl (fun acc c => Nat.lor acc (Nat.shiftLeft 1 c)) 0

/-- **reference definition** (quadratic; `usesExactlyVerts_eq_ref`): every face index is a vertex
    index and every vertex is used -/
def usesExactlyVertsRef (e : Entry) : Bool :=
  let n := e.verts.length
  let idx := e.faces.flatMap id
  Nat.ble n 4096 && idx.all (fun i => Nat.blt i n) && (List.range n).all (fun i => Nat.blt 0 (cnt i idx))

/-- the faces use exactly the vertices `0 … V−1`: the bit set of the face indices is `2^V − 1` -/
def usesExactlyVerts (e : Entry) : Bool :=
  Nat.ble e.verts.length 4096
    && Nat.beq (bitOr (e.faces.flatMap id)) (Nat.sub (Nat.shiftLeft 1 e.verts.length) 1)

/-- **reference definition**: faces have ≥ 3 corners, no directed edge is a loop or occurs
    twice, and every directed edge `a → b` has exactly one partner `b → a` -/
def closedOrientedRef (e : Entry) : Bool :=
  let es := dirEdges e
  let fw := es.map edgeCode
  e.faces.all (fun f => Nat.ble 3 f.length)
    && es.all (fun ab => !(Nat.beq ab.1 ab.2))
    && fw.all (fun c => Nat.beq (cnt c fw) 1)
    && (es.map edgeCodeRev).all (fun c => Nat.beq (cnt c fw) 1)

/-- closed oriented surface, linear time: `Σ 2^code = ⋁ 2^code` (no directed edge twice) and
    the set of directed edges equals the set of reversed edges (each has its partner; it is
    unique because no directed edge occurs twice) -/
def closedOriented (e : Entry) : Bool :=
  e.faces.all (fun f => Nat.ble 3 f.length)
    && (dirEdges e).all (fun ab => !(Nat.beq ab.1 ab.2))
    && Nat.beq (bitSum ((dirEdges e).map edgeCode)) (bitOr ((dirEdges e).map edgeCode))
    && Nat.beq (bitOr ((dirEdges e).map edgeCode)) (bitOr ((dirEdges e).map edgeCodeRev))

/-- V − E + F = 2, written `2V + 2F = 2E + 4` -/
def eulerOk (e : Entry) : Bool := Nat.beq (2 * numV e + 2 * numF e) (numE2 e + 4)

/-- number of faces with `k` corners -/
def facesOfSize (e : Entry) (k : Nat) : Nat := cnt k (e.faces.map List.length)

/-! ### geometry of a face list -/

def facePts (e : Entry) (f : List Nat) : List P3 := f.map (nthP e.verts)

/-- Newell's area vector `Σ pᵢ × pᵢ₊₁` (= 2·area·unit normal of a planar polygon, pointing to
    the side from which it is seen counter-clockwise) -/
def newell (ps : List P3) : P3 :=
  (cycPairs ps).foldl (fun acc pq => acc.add (pq.1.cross pq.2)) P3.zero

/-- `d = n·v − c0` (with `c0 = n·p0`: |n| × signed distance from the face plane) is ≤ 0 or
    `d² ≤ 10¹⁸·|n|²`, i.e. the signed distance is ≤ 10⁻⁹ -/
def belowPlane (nx ny nz c0 tolnn : Int) (v : P3) : Bool :=
  forceInt (Int.sub (Int.add (Int.add (Int.mul nx v.x) (Int.mul ny v.y)) (Int.mul nz v.z)) c0)
    fun d => isNonpos d || intLe (Int.mul d d) tolnn

/-- `d² ≤ 10¹⁸·|n|²`: the distance from the face plane is ≤ 10⁻⁹ -/
def onPlane (nx ny nz c0 tolnn : Int) (v : P3) : Bool :=
  forceInt (Int.sub (Int.add (Int.add (Int.mul nx v.x) (Int.mul ny v.y)) (Int.mul nz v.z)) c0)
    fun d => intLe (Int.mul d d) tolnn

/-- convexity certificate: every face has a non-zero area vector `n`, is planar, and all
    vertices of the solid lie on the inner side of (or on) its plane -/
def convexOk (e : Entry) : Bool :=
  e.faces.all fun f =>
    match facePts e f with
    | [] => false
    | p0 :: rest =>
      let n := newell (p0 :: rest)
      forceInt n.x fun nx => forceInt n.y fun ny => forceInt n.z fun nz =>
      forceInt (nx * p0.x + ny * p0.y + nz * p0.z) fun c0 =>
      forceInt (nx * nx + ny * ny + nz * nz) fun nn =>
      forceInt (unit18 * nn) fun tolnn =>
        intLt 0 nn && e.verts.all (belowPlane nx ny nz c0 tolnn)
          && rest.all (onPlane nx ny nz c0 tolnn)

/-- **reference definition** of `convexOk` with plain vector algebra -/
def convexOkRef (e : Entry) : Bool :=
  e.faces.all fun f =>
    match facePts e f with
    | [] => false
    | p0 :: rest =>
      let n := newell (p0 :: rest)
      decide (0 < n.normSq)
        && e.verts.all (fun v =>
            let d := n.dot (v.sub p0)
            decide (d ≤ 0) || decide (d * d ≤ unit18 * n.normSq))
        && rest.all (fun v =>
            let d := n.dot (v.sub p0)
            decide (d * d ≤ unit18 * n.normSq))

/-- fan triangles `(p0, pᵢ, pᵢ₊₁)` of a polygon -/
def fan : List P3 → List (P3 × P3 × P3)
  | [] => []
  | p0 :: rest => (rest.zip (rest.drop 1)).map fun qr => (p0, qr.1, qr.2)

def surfaceTris (e : Entry) : List (P3 × P3 × P3) := e.faces.flatMap fun f => fan (facePts e f)

/-- six times the enclosed volume: `Σ det(a,b,c)` over the surface triangles, in (10¹⁸)³ -/
def vol6 (e : Entry) : Int :=
  (surfaceTris e).foldl (fun acc t => acc + det3 t.1 t.2.1 t.2.2) 0

/-- `|vol − 1| ≤ 10⁻⁹` -/
def unitVolumeOk (e : Entry) : Bool :=
  forceInt (vol6 e) fun v => intLe (intAbs (v - sixUnitVol)) sixVolTol
def positiveVolume (e : Entry) : Bool := intLt 0 (vol6 e)

/-- squared distance of two vertices given by index -/
def sqDist (vs : List P3) (ab : Nat × Nat) : Int := ((nthP vs ab.1).sub (nthP vs ab.2)).normSq

/-- all numbers of a non-empty list are positive and agree with the first (`nearSq`) -/
def allNearFirst : List Int → Bool
  | [] => false
  | l0 :: t => forceInt l0 fun a => intLt 0 a && t.all (nearSq a)

/-- all edges have one length (within 10⁻⁹ relative) -/
def equalEdgesOk (e : Entry) : Bool := allNearFirst ((dirEdges e).map (sqDist e.verts))

/-- in every face with more than three corners all short diagonals `pᵢ pᵢ₊₂` have one length.
    A planar convex polygon (`convexOk`) with equal sides (`equalEdgesOk`) and equal short
    diagonals has equal angles, i.e. is regular; an equilateral triangle is regular. -/
def equalDiagonalsOk (e : Entry) : Bool :=
  e.faces.all fun f => Nat.ble f.length 3 || allNearFirst ((cycPairs2 f).map (sqDist e.verts))

/-- equal edge lengths and regular faces -/
def regularOk (e : Entry) : Bool := equalEdgesOk e && equalDiagonalsOk e

/-- centroid of the solid as numerator/denominator: `Σ det·(a+b+c)` and `4·Σ det`
    (centroid × 10¹⁸ = num / den) -/
def centroidNum (e : Entry) : P3 :=
  (surfaceTris e).foldl
    (fun acc t => acc.add (P3.smul (det3 t.1 t.2.1 t.2.2) ((t.1.add t.2.1).add t.2.2))) P3.zero
def centroidDen (e : Entry) : Int := 4 * vol6 e

/-- for one face: `(n·(D·p0 − C), |n|²)`; the distance from the centroid `C/D` to the face plane
    is the first component divided by `D·|n|` -/
def faceHeight (e : Entry) (C : P3) (D : Int) (f : List Nat) : Int × Int :=
  match facePts e f with
  | [] => (0, 0)
  | p0 :: rest =>
    let n := newell (p0 :: rest)
    (n.dot ((P3.smul D p0).sub C), n.normSq)

/-- an insphere centred at the centroid exists: all face planes are at one positive distance
    from the centroid (squared distances agree within 2·10⁻⁹ relative) -/
def insphereOk (e : Entry) : Bool :=
  forceInt (centroidNum e).x fun cx => forceInt (centroidNum e).y fun cy =>
  forceInt (centroidNum e).z fun cz => forceInt (centroidDen e) fun D =>
  match e.faces.map (faceHeight e ⟨cx, cy, cz⟩ D) with
  | [] => false
  | (h0, n0) :: t =>
    forceInt h0 fun h0 => forceInt n0 fun n0 =>
    intLt 0 D && intLt 0 h0 && intLt 0 n0 &&
      t.all fun hn => forceInt hn.1 fun h => forceInt hn.2 fun nn =>
        intLt 0 h && intLt 0 nn && nearRatio (h0 * h0) n0 (h * h) nn

/-- two vertex lists are the same point set up to 10⁻⁹ (and have the same length);
    identical lists are recognised first (they trivially satisfy the second clause) -/
def sameVerts (a b : List P3) : Bool :=
  let close (p q : P3) : Bool := intLe (p.sub q).normSq unit18
  decide (a = b) ||
    (Nat.beq a.length b.length && a.all (fun p => b.any (close p)) && b.all (fun p => a.any (close p)))

/-- a repository record that cites a family (`source` = file, `ref` = name in that family)
    has the vertex set of the cited entry; records without `source` are not constrained -/
def sourceOk (lookup : String → List Entry) (e : Entry) : Bool :=
  e.source == "" ||
    (match (lookup e.source).find? (fun r => r.name == e.ref) with
     | none => false
     | some r => sameVerts e.verts r.verts)

/-- what every table entry must satisfy: a `ConvexPolyhedron` record whose face certificate is a
    closed oriented convex surface on exactly its vertices, with Euler characteristic 2 and
    positive volume -/
def polyhedronOk (e : Entry) : Bool :=
  e.type == "ConvexPolyhedron"
    && usesExactlyVerts e && closedOriented e && eulerOk e && convexOk e && positiveVolume e

end Tab

/-! ## The textbook -/
namespace Textbook

/-- name, V, E, F, face census `[(corners, how many)]` -/
structure Solid where
  name : String
  v : Nat
  e : Nat
  f : Nat
  faces : List (Nat × Nat)

def platonic : List Solid := [
  ⟨"Tetrahedron", 4, 6, 4, [(3, 4)]⟩,
  ⟨"Cube", 8, 12, 6, [(4, 6)]⟩,
  ⟨"Octahedron", 6, 12, 8, [(3, 8)]⟩,
  ⟨"Dodecahedron", 20, 30, 12, [(5, 12)]⟩,
  ⟨"Icosahedron", 12, 30, 20, [(3, 20)]⟩ ]

def archimedean : List Solid := [
  ⟨"Truncated Tetrahedron", 12, 18, 8, [(3, 4), (6, 4)]⟩,
  ⟨"Cuboctahedron", 12, 24, 14, [(3, 8), (4, 6)]⟩,
  ⟨"Truncated Cube", 24, 36, 14, [(3, 8), (8, 6)]⟩,
  ⟨"Truncated Octahedron", 24, 36, 14, [(4, 6), (6, 8)]⟩,
  ⟨"Rhombicuboctahedron", 24, 48, 26, [(3, 8), (4, 18)]⟩,
  ⟨"Truncated Cuboctahedron", 48, 72, 26, [(4, 12), (6, 8), (8, 6)]⟩,
  ⟨"Snub Cuboctahedron", 24, 60, 38, [(3, 32), (4, 6)]⟩,
  ⟨"Icosidodecahedron", 30, 60, 32, [(3, 20), (5, 12)]⟩,
  ⟨"Truncated Dodecahedron", 60, 90, 32, [(3, 20), (10, 12)]⟩,
  ⟨"Truncated Icosahedron", 60, 90, 32, [(5, 12), (6, 20)]⟩,
  ⟨"Rhombicosidodecahedron", 60, 120, 62, [(3, 20), (4, 30), (5, 12)]⟩,
  ⟨"Truncated Icosidodecahedron", 120, 180, 62, [(4, 30), (6, 20), (10, 12)]⟩,
  ⟨"Snub Icosidodecahedron", 60, 150, 92, [(3, 80), (5, 12)]⟩ ]

/-- the duals of the above, in the same order (V and F exchanged) -/
def catalan : List Solid := [
  ⟨"Triakis Tetrahedron", 8, 18, 12, [(3, 12)]⟩,
  ⟨"Rhombic Dodecahedron", 14, 24, 12, [(4, 12)]⟩,
  ⟨"Triakis Octahedron", 14, 36, 24, [(3, 24)]⟩,
  ⟨"Tetrakis Hexahedron", 14, 36, 24, [(3, 24)]⟩,
  ⟨"Deltoidal Icositetrahedron", 26, 48, 24, [(4, 24)]⟩,
  ⟨"Disdyakis Dodecahedron", 26, 72, 48, [(3, 48)]⟩,
  ⟨"Pentagonal Icositetrahedron", 38, 60, 24, [(5, 24)]⟩,
  ⟨"Rhombic Triacontahedron", 32, 60, 30, [(4, 30)]⟩,
  ⟨"Triakis Icosahedron", 32, 90, 60, [(3, 60)]⟩,
  ⟨"Pentakis Dodecahedron", 32, 90, 60, [(3, 60)]⟩,
  ⟨"Deltoidal Hexecontahedron", 62, 120, 60, [(4, 60)]⟩,
  ⟨"Disdyakis Triacontahedron", 62, 180, 120, [(3, 120)]⟩,
  ⟨"Pentagonal Hexecontahedron", 92, 150, 60, [(5, 60)]⟩ ]

/-- the 92 Johnson solids by number (Johnson 1966, Table III): V, E, F and the face census
    (triangles, squares, pentagons, hexagons, octagons, decagons) -/
def johnson : List Solid := [
  ⟨"J1", 5, 8, 5, [(3, 4), (4, 1)]⟩,
  ⟨"J2", 6, 10, 6, [(3, 5), (5, 1)]⟩,
  ⟨"J3", 9, 15, 8, [(3, 4), (4, 3), (6, 1)]⟩,
  ⟨"J4", 12, 20, 10, [(3, 4), (4, 5), (8, 1)]⟩,
  ⟨"J5", 15, 25, 12, [(3, 5), (4, 5), (5, 1), (10, 1)]⟩,
  ⟨"J6", 20, 35, 17, [(3, 10), (5, 6), (10, 1)]⟩,
  ⟨"J7", 7, 12, 7, [(3, 4), (4, 3)]⟩,
  ⟨"J8", 9, 16, 9, [(3, 4), (4, 5)]⟩,
  ⟨"J9", 11, 20, 11, [(3, 5), (4, 5), (5, 1)]⟩,
  ⟨"J10", 9, 20, 13, [(3, 12), (4, 1)]⟩,
  ⟨"J11", 11, 25, 16, [(3, 15), (5, 1)]⟩,
  ⟨"J12", 5, 9, 6, [(3, 6)]⟩,
  ⟨"J13", 7, 15, 10, [(3, 10)]⟩,
  ⟨"J14", 8, 15, 9, [(3, 6), (4, 3)]⟩,
  ⟨"J15", 10, 20, 12, [(3, 8), (4, 4)]⟩,
  ⟨"J16", 12, 25, 15, [(3, 10), (4, 5)]⟩,
  ⟨"J17", 10, 24, 16, [(3, 16)]⟩,
  ⟨"J18", 15, 27, 14, [(3, 4), (4, 9), (6, 1)]⟩,
  ⟨"J19", 20, 36, 18, [(3, 4), (4, 13), (8, 1)]⟩,
  ⟨"J20", 25, 45, 22, [(3, 5), (4, 15), (5, 1), (10, 1)]⟩,
  ⟨"J21", 30, 55, 27, [(3, 10), (4, 10), (5, 6), (10, 1)]⟩,
  ⟨"J22", 15, 33, 20, [(3, 16), (4, 3), (6, 1)]⟩,
  ⟨"J23", 20, 44, 26, [(3, 20), (4, 5), (8, 1)]⟩,
  ⟨"J24", 25, 55, 32, [(3, 25), (4, 5), (5, 1), (10, 1)]⟩,
  ⟨"J25", 30, 65, 37, [(3, 30), (5, 6), (10, 1)]⟩,
  ⟨"J26", 8, 14, 8, [(3, 4), (4, 4)]⟩,
  ⟨"J27", 12, 24, 14, [(3, 8), (4, 6)]⟩,
  ⟨"J28", 16, 32, 18, [(3, 8), (4, 10)]⟩,
  ⟨"J29", 16, 32, 18, [(3, 8), (4, 10)]⟩,
  ⟨"J30", 20, 40, 22, [(3, 10), (4, 10), (5, 2)]⟩,
  ⟨"J31", 20, 40, 22, [(3, 10), (4, 10), (5, 2)]⟩,
  ⟨"J32", 25, 50, 27, [(3, 15), (4, 5), (5, 7)]⟩,
  ⟨"J33", 25, 50, 27, [(3, 15), (4, 5), (5, 7)]⟩,
  ⟨"J34", 30, 60, 32, [(3, 20), (5, 12)]⟩,
  ⟨"J35", 18, 36, 20, [(3, 8), (4, 12)]⟩,
  ⟨"J36", 18, 36, 20, [(3, 8), (4, 12)]⟩,
  ⟨"J37", 24, 48, 26, [(3, 8), (4, 18)]⟩,
  ⟨"J38", 30, 60, 32, [(3, 10), (4, 20), (5, 2)]⟩,
  ⟨"J39", 30, 60, 32, [(3, 10), (4, 20), (5, 2)]⟩,
  ⟨"J40", 35, 70, 37, [(3, 15), (4, 15), (5, 7)]⟩,
  ⟨"J41", 35, 70, 37, [(3, 15), (4, 15), (5, 7)]⟩,
  ⟨"J42", 40, 80, 42, [(3, 20), (4, 10), (5, 12)]⟩,
  ⟨"J43", 40, 80, 42, [(3, 20), (4, 10), (5, 12)]⟩,
  ⟨"J44", 18, 42, 26, [(3, 20), (4, 6)]⟩,
  ⟨"J45", 24, 56, 34, [(3, 24), (4, 10)]⟩,
  ⟨"J46", 30, 70, 42, [(3, 30), (4, 10), (5, 2)]⟩,
  ⟨"J47", 35, 80, 47, [(3, 35), (4, 5), (5, 7)]⟩,
  ⟨"J48", 40, 90, 52, [(3, 40), (5, 12)]⟩,
  ⟨"J49", 7, 13, 8, [(3, 6), (4, 2)]⟩,
  ⟨"J50", 8, 17, 11, [(3, 10), (4, 1)]⟩,
  ⟨"J51", 9, 21, 14, [(3, 14)]⟩,
  ⟨"J52", 11, 19, 10, [(3, 4), (4, 4), (5, 2)]⟩,
  ⟨"J53", 12, 23, 13, [(3, 8), (4, 3), (5, 2)]⟩,
  ⟨"J54", 13, 22, 11, [(3, 4), (4, 5), (6, 2)]⟩,
  ⟨"J55", 14, 26, 14, [(3, 8), (4, 4), (6, 2)]⟩,
  ⟨"J56", 14, 26, 14, [(3, 8), (4, 4), (6, 2)]⟩,
  ⟨"J57", 15, 30, 17, [(3, 12), (4, 3), (6, 2)]⟩,
  ⟨"J58", 21, 35, 16, [(3, 5), (5, 11)]⟩,
  ⟨"J59", 22, 40, 20, [(3, 10), (5, 10)]⟩,
  ⟨"J60", 22, 40, 20, [(3, 10), (5, 10)]⟩,
  ⟨"J61", 23, 45, 24, [(3, 15), (5, 9)]⟩,
  ⟨"J62", 10, 20, 12, [(3, 10), (5, 2)]⟩,
  ⟨"J63", 9, 15, 8, [(3, 5), (5, 3)]⟩,
  ⟨"J64", 10, 18, 10, [(3, 7), (5, 3)]⟩,
  ⟨"J65", 15, 27, 14, [(3, 8), (4, 3), (6, 3)]⟩,
  ⟨"J66", 28, 48, 22, [(3, 12), (4, 5), (8, 5)]⟩,
  ⟨"J67", 32, 60, 30, [(3, 16), (4, 10), (8, 4)]⟩,
  ⟨"J68", 65, 105, 42, [(3, 25), (4, 5), (5, 1), (10, 11)]⟩,
  ⟨"J69", 70, 120, 52, [(3, 30), (4, 10), (5, 2), (10, 10)]⟩,
  ⟨"J70", 70, 120, 52, [(3, 30), (4, 10), (5, 2), (10, 10)]⟩,
  ⟨"J71", 75, 135, 62, [(3, 35), (4, 15), (5, 3), (10, 9)]⟩,
  ⟨"J72", 60, 120, 62, [(3, 20), (4, 30), (5, 12)]⟩,
  ⟨"J73", 60, 120, 62, [(3, 20), (4, 30), (5, 12)]⟩,
  ⟨"J74", 60, 120, 62, [(3, 20), (4, 30), (5, 12)]⟩,
  ⟨"J75", 60, 120, 62, [(3, 20), (4, 30), (5, 12)]⟩,
  ⟨"J76", 55, 105, 52, [(3, 15), (4, 25), (5, 11), (10, 1)]⟩,
  ⟨"J77", 55, 105, 52, [(3, 15), (4, 25), (5, 11), (10, 1)]⟩,
  ⟨"J78", 55, 105, 52, [(3, 15), (4, 25), (5, 11), (10, 1)]⟩,
  ⟨"J79", 55, 105, 52, [(3, 15), (4, 25), (5, 11), (10, 1)]⟩,
  ⟨"J80", 50, 90, 42, [(3, 10), (4, 20), (5, 10), (10, 2)]⟩,
  ⟨"J81", 50, 90, 42, [(3, 10), (4, 20), (5, 10), (10, 2)]⟩,
  ⟨"J82", 50, 90, 42, [(3, 10), (4, 20), (5, 10), (10, 2)]⟩,
  ⟨"J83", 45, 75, 32, [(3, 5), (4, 15), (5, 9), (10, 3)]⟩,
  ⟨"J84", 8, 18, 12, [(3, 12)]⟩,
  ⟨"J85", 16, 40, 26, [(3, 24), (4, 2)]⟩,
  ⟨"J86", 10, 22, 14, [(3, 12), (4, 2)]⟩,
  ⟨"J87", 11, 26, 17, [(3, 16), (4, 1)]⟩,
  ⟨"J88", 12, 28, 18, [(3, 16), (4, 2)]⟩,
  ⟨"J89", 14, 33, 21, [(3, 18), (4, 3)]⟩,
  ⟨"J90", 16, 38, 24, [(3, 20), (4, 4)]⟩,
  ⟨"J91", 14, 26, 14, [(3, 8), (4, 2), (5, 4)]⟩,
  ⟨"J92", 18, 36, 20, [(3, 13), (4, 3), (5, 3), (6, 1)]⟩ ]

/-- Johnson's names of J1 … J92, in order of number -/
def johnsonNames : List String := [
  "Square Pyramid", "Pentagonal Pyramid", "Triangular Cupola", "Square Cupola", "Pentagonal Cupola",
  "Pentagonal Rotunda", "Elongated Triangular Pyramid", "Elongated Square Pyramid",
  "Elongated Pentagonal Pyramid", "Gyroelongated Square Pyramid", "Gyroelongated Pentagonal Pyramid",
  "Triangular Dipyramid", "Pentagonal Dipyramid", "Elongated Triangular Dipyramid",
  "Elongated Square Dipyramid", "Elongated Pentagonal Dipyramid", "Gyroelongated Square Dipyramid",
  "Elongated Triangular Cupola", "Elongated Square Cupola", "Elongated Pentagonal Cupola",
  "Elongated Pentagonal Rotunda", "Gyroelongated Triangular Cupola", "Gyroelongated Square Cupola",
  "Gyroelongated Pentagonal Cupola", "Gyroelongated Pentagonal Rotunda", "Gyrobifastigium",
  "Triangular Orthobicupola", "Square Orthobicupola", "Square Gyrobicupola", "Pentagonal Orthobicupola",
  "Pentagonal Gyrobicupola", "Pentagonal Orthocupolarotunda", "Pentagonal Gyrocupolarotunda",
  "Pentagonal Orthobirotunda", "Elongated Triangular Orthobicupola", "Elongated Triangular Gyrobicupola",
  "Elongated Square Gyrobicupola", "Elongated Pentagonal Orthobicupola", "Elongated Pentagonal Gyrobicupola",
  "Elongated Pentagonal Orthocupolarotunda", "Elongated Pentagonal Gyrocupolarotunda",
  "Elongated Pentagonal Orthobirotunda", "Elongated Pentagonal Gyrobirotunda",
  "Gyroelongated Triangular Bicupola", "Gyroelongated Square Bicupola", "Gyroelongated Pentagonal Bicupola",
  "Gyroelongated Pentagonal Cupolarotunda", "Gyroelongated Pentagonal Birotunda",
  "Augmented Triangular Prism", "Biaugmented Triangular Prism", "Triaugmented Triangular Prism",
  "Augmented Pentagonal Prism", "Biaugmented Pentagonal Prism", "Augmented Hexagonal Prism",
  "Parabiaugmented Hexagonal Prism", "Metabiaugmented Hexagonal Prism", "Triaugmented Hexagonal Prism",
  "Augmented Dodecahedron", "Parabiaugmented Dodecahedron", "Metabiaugmented Dodecahedron",
  "Triaugmented Dodecahedron", "Metabidiminished Icosahedron", "Tridiminished Icosahedron",
  "Augmented Tridiminished Icosahedron", "Augmented Truncated Tetrahedron", "Augmented Truncated Cube",
  "Biaugmented Truncated Cube", "Augmented Truncated Dodecahedron", "Parabiaugmented Truncated Dodecahedron",
  "Metabiaugmented Truncated Dodecahedron", "Triaugmented Truncated Dodecahedron",
  "Gyrate Rhombicosidodecahedron", "Parabigyrate Rhombicosidodecahedron",
  "Metabigyrate Rhombicosidodecahedron", "Trigyrate Rhombicosidodecahedron",
  "Diminished Rhombicosidodecahedron", "Paragyrate Diminished Rhombicosidodecahedron",
  "Metagyrate Diminished Rhombicosidodecahedron", "Bigyrate Diminished Rhombicosidodecahedron",
  "Parabidiminished Rhombicosidodecahedron", "Metabidiminished Rhombicosidodecahedron",
  "Gyrate Bidiminished Rhombicosidodecahedron", "Tridiminished Rhombicosidodecahedron", "Snub Disphenoid",
  "Snub Square Antiprism", "Sphenocorona", "Augmented Sphenocorona", "Sphenomegacorona",
  "Hebesphenomegacorona", "Disphenocingulum", "Bilunabirotunda", "Triangular Hebesphenorotunda" ]

/-- the Johnson rows keyed by name instead of number -/
def johnsonByName : List Solid :=
  List.zipWith (fun s n => { s with name := n }) johnson johnsonNames

/-- right prisms and antiprisms over regular 3…10-gons: prism `(2n, 3n, n+2)` with `n` squares and two
    `n`-gons, antiprism `(2n, 4n, 2n+2)` with `2n` triangles and two `n`-gons -/
def prismAntiprism : List Solid := [
  ⟨"Triangular Prism", 6, 9, 5, [(3, 2), (4, 3)]⟩,
  ⟨"Square Prism", 8, 12, 6, [(4, 6)]⟩,
  ⟨"Pentagonal Prism", 10, 15, 7, [(4, 5), (5, 2)]⟩,
  ⟨"Hexagonal Prism", 12, 18, 8, [(4, 6), (6, 2)]⟩,
  ⟨"Heptagonal Prism", 14, 21, 9, [(4, 7), (7, 2)]⟩,
  ⟨"Octagonal Prism", 16, 24, 10, [(4, 8), (8, 2)]⟩,
  ⟨"Nonagonal Prism", 18, 27, 11, [(4, 9), (9, 2)]⟩,
  ⟨"Decagonal Prism", 20, 30, 12, [(4, 10), (10, 2)]⟩,
  ⟨"Triangular Antiprism", 6, 12, 8, [(3, 8)]⟩,
  ⟨"Square Antiprism", 8, 16, 10, [(3, 8), (4, 2)]⟩,
  ⟨"Pentagonal Antiprism", 10, 20, 12, [(3, 10), (5, 2)]⟩,
  ⟨"Hexagonal Antiprism", 12, 24, 14, [(3, 12), (6, 2)]⟩,
  ⟨"Heptagonal Antiprism", 14, 28, 16, [(3, 14), (7, 2)]⟩,
  ⟨"Octagonal Antiprism", 16, 32, 18, [(3, 16), (8, 2)]⟩,
  ⟨"Nonagonal Antiprism", 18, 36, 20, [(3, 18), (9, 2)]⟩,
  ⟨"Decagonal Antiprism", 20, 40, 22, [(3, 20), (10, 2)]⟩ ]

/-- pyramids `(n+1, 2n, n+1)` and dipyramids `(n+2, 3n, 2n)` over 3,4,5-gons -/
def pyramidDipyramid : List Solid := [
  ⟨"Triangular Pyramid", 4, 6, 4, [(3, 4)]⟩,
  ⟨"Square Pyramid", 5, 8, 5, [(3, 4), (4, 1)]⟩,
  ⟨"Pentagonal Pyramid", 6, 10, 6, [(3, 5), (5, 1)]⟩,
  ⟨"Triangular Dipyramid", 5, 9, 6, [(3, 6)]⟩,
  ⟨"Square Dipyramid", 6, 12, 8, [(3, 8)]⟩,
  ⟨"Pentagonal Dipyramid", 7, 15, 10, [(3, 10)]⟩ ]

/-- the solids of the 10.1126/science.1220869 repository that belong to none of the families, by the
    name the record gives (zonohedra with rhombic faces, Dürer's truncated rhombohedron, the elongated
    dodecahedron with 8 rhombi and 4 hexagons) -/
def otherSolids : List Solid := [
  ⟨"Squashed Dodecahedron", 14, 24, 12, [(4, 12)]⟩,
  ⟨"Rhombic Icosahedron", 22, 40, 20, [(4, 20)]⟩,
  ⟨"Rhombic Enneacontahedron", 92, 180, 90, [(4, 90)]⟩,
  ⟨"Obtuse Golden Rhombohedron", 8, 12, 6, [(4, 6)]⟩,
  ⟨"Acute Golden Rhombohedron", 8, 12, 6, [(4, 6)]⟩,
  ⟨"Duerers Solid", 12, 18, 8, [(3, 2), (5, 6)]⟩,
  ⟨"Elongated Dodecahedron", 18, 28, 12, [(4, 8), (6, 4)]⟩ ]

/-- internal consistency of a hand-entered row: Euler's formula and, when a census was entered,
    the census adds up to F and the corners add up to 2E -/
def Solid.consistent (s : Solid) : Bool :=
  Nat.beq (s.v + s.f) (s.e + 2)
    && (s.faces.isEmpty ||
      (Nat.beq ((s.faces.map Prod.snd).foldl (· + ·) 0) s.f
        && Nat.beq ((s.faces.map fun kc => kc.1 * kc.2).foldl (· + ·) 0) (2 * s.e)))

end Textbook

namespace Tab

/-- the entry has the counts and the face census of the textbook row -/
def matchesTextbook (s : Textbook.Solid) (e : Entry) : Bool :=
  Nat.beq (numV e) s.v && Nat.beq (numE2 e) (2 * s.e) && Nat.beq (numF e) s.f
    && s.faces.all (fun kc => Nat.beq (facesOfSize e kc.1) kc.2)

end Tab

namespace Tab

/-- the row called `nm` exists in the hand-entered list and the entry has that row's counts and face
    census.  No row ⇒ `false`: an entry without a specification row fails its obligation. -/
def textbookOkAs (rows : List Textbook.Solid) (nm : String) (e : Entry) : Bool :=
  match rows.find? (fun s => s.name == nm) with
  | none => false
  | some s => matchesTextbook s e

/-- the entry is the row's solid with some faces split along diagonals: the same vertices, and as many
    extra edges as extra faces (`F' − F = E' − E ≥ 0`).  Used ONLY for the seven repository solids outside
    the families (`Textbook.otherSolids`): /repo gives six of them to six significant digits, their rhombic
    / pentagonal faces are planar to about 10⁻⁶ only, and the convex hull the implementation builds has
    those faces split into triangles (notes/C18.md, "Observed").  The oracle checks that merging the
    faces that are coplanar within 10⁻⁴ gives exactly the row. -/
def matchesSplit (s : Textbook.Solid) (e : Entry) : Bool :=
  Nat.beq (numV e) s.v && Nat.ble s.f (numF e) && Nat.beq (numE2 e + 2 * s.f) (2 * s.e + 2 * numF e)

/-- the row called `nm` exists and the entry is that solid up to split faces -/
def textbookSplitOkAs (rows : List Textbook.Solid) (nm : String) (e : Entry) : Bool :=
  match rows.find? (fun s => s.name == nm) with
  | none => false
  | some s => matchesSplit s e

/-- the entry's name is in the hand-entered list and the entry has that row's counts -/
def textbookOk (rows : List Textbook.Solid) (e : Entry) : Bool := textbookOkAs rows e.name e

/-- every hand-entered row is the name of exactly one entry, and there are no other entries -/
def coversTextbook (rows : List Textbook.Solid) (t : List Entry) : Bool :=
  Nat.beq t.length rows.length
    && rows.all (fun s => Nat.beq ((t.filter fun e => e.name == s.name).length) 1)

/-! ### the per-table obligations of C18 -/

def platonicOk (e : Entry) : Bool :=
  polyhedronOk e && textbookOk Textbook.platonic e && unitVolumeOk e && regularOk e
def archimedeanOk (e : Entry) : Bool :=
  polyhedronOk e && textbookOk Textbook.archimedean e && unitVolumeOk e && regularOk e
def catalanOk (e : Entry) : Bool :=
  polyhedronOk e && textbookOk Textbook.catalan e && unitVolumeOk e && insphereOk e
/-- `"J5"`, `"J05"`, `"J58"` ↦ 5, 5, 58 (the JSON writes the numbers with and without a leading
    zero); anything else ↦ none -/
def johnsonNumber (s : String) : Option Nat :=
  match s.toList with
  | 'J' :: d :: ds =>
    if (d :: ds).all Char.isDigit then some ((d :: ds).foldl (fun n c => 10 * n + (c.toNat - 48)) 0)
    else none
  | _ => none

/-- the row of Johnson solid number `n` (1-based) -/
def johnsonRow (n : Nat) : Option Textbook.Solid :=
  match n with
  | 0 => none
  | k + 1 => Textbook.johnson[k]?

/-- Johnson's name of solid number `n` (1-based) -/
def johnsonName (n : Nat) : Option String :=
  match n with
  | 0 => none
  | k + 1 => Textbook.johnsonNames[k]?

/-- the entry's Johnson number (`short_name`) is in the hand-entered list (row `n − 1`) and the
    entry has that row's counts and face census -/
def johnsonCountsOk (e : Entry) : Bool :=
  match johnsonNumber e.short with
  | some n =>
    (match johnsonRow n with
     | some s => matchesTextbook s e
     | none => false)
  | none => false

/-- the entry's name is Johnson's name of the solid with the entry's Johnson number -/
def johnsonNameOk (e : Entry) : Bool :=
  match johnsonNumber e.short with
  | some n => johnsonName n == some e.name
  | none => false

/-- the Johnson numbers of the entries are `1 … 92`, each once: 92 entries whose numbers form the
    bit set `2⁹³ − 2` -/
def coversJohnson (t : List Entry) : Bool :=
  Nat.beq t.length Textbook.johnson.length
    && t.all (fun e => (johnsonNumber e.short).isSome)
    && Nat.beq (bitOr (t.map fun e => (johnsonNumber e.short).getD 0))
        (Nat.sub (Nat.shiftLeft 1 (Textbook.johnson.length + 1)) 2)

def johnsonOk (e : Entry) : Bool :=
  polyhedronOk e && regularOk e && johnsonCountsOk e && johnsonNameOk e
def prismAntiprismOk (e : Entry) : Bool := polyhedronOk e && textbookOk Textbook.prismAntiprism e
def pyramidDipyramidOk (e : Entry) : Bool := polyhedronOk e && textbookOk Textbook.pyramidDipyramid e
def plainOk (e : Entry) : Bool := polyhedronOk e

/-- the hand-entered rows of the family a repository record cites (`source` = file name) -/
def textbookBySource (src : String) : List Textbook.Solid :=
  if src == "platonic.json" then Textbook.platonic
  else if src == "archimedean.json" then Textbook.archimedean
  else if src == "catalan.json" then Textbook.catalan
  else if src == "johnson.json" then Textbook.johnsonByName
  else if src == "prism_antiprism.json" then Textbook.prismAntiprism
  else if src == "pyramid_dipyramid.json" then Textbook.pyramidDipyramid
  else []

/-- the specification row of a repository record (key `e.name` = code `P01 … O22`, `e.ref` = its `name`
    field, `e.source` = cited family file or `""`):
    * a key `Jnn` is Johnson solid number `nn`: the record has that row's counts and census, and when
      it cites `johnson.json` the cited name is Johnson's name of number `nn`;
    * a record that cites a family has the counts and census of the row of that family called `e.ref`;
    * a record that cites nothing is a `Jnn` (above) or one of `Textbook.otherSolids` by `e.ref`, up to
      faces split by the six-digit coordinates (`matchesSplit`). -/
def repoTextbookOk (e : Entry) : Bool :=
  (match johnsonNumber e.name with
   | some n =>
     (match johnsonRow n with
      | some s => matchesTextbook s e
      | none => false)
     && (!(e.source == "johnson.json") || johnsonName n == some e.ref)
   | none => true)
  && (if e.source == "" then
        (johnsonNumber e.name).isSome || textbookSplitOkAs Textbook.otherSolids e.ref e
      else textbookOkAs (textbookBySource e.source) e.ref e)

def repositoryOk (lookup : String → List Entry) (e : Entry) : Bool :=
  polyhedronOk e && sourceOk lookup e && repoTextbookOk e

/-- names of a table are pairwise different -/
def namesNodup : List String → Bool
  | [] => true
  | a :: t => !(t.any (· == a)) && namesNodup t

end Tab
