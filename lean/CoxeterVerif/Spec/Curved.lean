import CoxeterVerif.Vec
/-!
  Specification layer for C10 (no Mathlib).

  "Defining integrals over the region with unit density" are represented by *raw moment records*
  (`∫1, ∫x, ∫y, ∫x², ∫y², ∫xy` in the plane, ten numbers in space).  Three ingredients:

  1. the moment record of the CENTRED region in closed form (`π` enters linearly and is a parameter
     `p`, so the record can be evaluated exactly over ℚ "in units of π" by the driver: `p = 1`).
     These closed forms are NOT trusted: `C10.ellipse_centred_moments`, `C10.ellipsoid_centred_moments`
     (Lemmas/CurvedMoments3.lean) prove that they are the Lebesgue integrals `∫1, ∫x_i, ∫x_i x_j` over the
     point sets in `EuclideanSpace ℝ (Fin 2|3)`;
  2. the translation law of integrals `∫(x+c)(y+d) = ∫xy + c∫y + d∫x + cd∫1`  (`shift`) — this is
     linearity of the integral, proved for every finite measure in `Lemmas/CurvedMeasure.lean`
     (`integral_shift_mul`), so it is not a trusted formula;
  3. the definitions `I_x = ∫y²`, `I_y = ∫x²`, `I_xy = ∫xy`, `J = ∫(x²+y²)`,
     `I = ∫(|r|² 1 − r rᵀ)`.

  The code derives the same quantities differently (centroidal inertia tensor + parallel-axis
  theorem), which is what the theorems in `Props/C10.lean` compare.

  Also: geometric definitions of eccentricity (focal distance / semi-major axis), of the
  isoperimetric quotients, and the arc-length / surface-area integrands of the standard
  parametrisations (used pointwise in theorems and numerically by the harness oracle).
-/
namespace CSpec
variable {α : Type} [Scalar α]
open Scalar

/-! ### planar moment records -/

/-- `∫1, ∫x, ∫y, ∫x², ∫y², ∫xy` over a planar region -/
structure Mom2 (α : Type) where
  m0 : α
  mx : α
  my : α
  mxx : α
  myy : α
  mxy : α

/-- moments of the region translated by `(cx, cy)` (linearity of the integral) -/
def Mom2.shift (M : Mom2 α) (cx cy : α) : Mom2 α :=
  ⟨M.m0, M.mx + cx * M.m0, M.my + cy * M.m0,
   M.mxx + lit 2 * cx * M.mx + cx * cx * M.m0,
   M.myy + lit 2 * cy * M.my + cy * cy * M.m0,
   M.mxy + cx * M.my + cy * M.mx + cx * cy * M.m0⟩

/-- planar second moments of area about the x and y axes and the product moment:
    `I_x = ∫y²`, `I_y = ∫x²`, `I_xy = ∫xy` -/
def Mom2.planar (M : Mom2 α) : α × α × α := (M.myy, M.mxx, M.mxy)
/-- polar moment about the origin `J = ∫(x²+y²)` -/
def Mom2.polar (M : Mom2 α) : α := M.mxx + M.myy

/-- centred disc of radius `r` (closed form; proved = Lebesgue integrals): area `p r²`, `∫x² = ∫y² = p r⁴/4`, odd moments 0 -/
def discCentred (p r : α) : Mom2 α :=
  ⟨p * r * r, lit 0, lit 0, p * r * r * r * r / lit 4, p * r * r * r * r / lit 4, lit 0⟩

/-- centred ellipse, semi-axis `a` along x and `b` along y (closed form; proved = Lebesgue integrals):
    area `p a b`, `∫x² = p a³ b/4`, `∫y² = p a b³/4`, odd moments 0 -/
def ellipseCentred (p a b : α) : Mom2 α :=
  ⟨p * a * b, lit 0, lit 0, p * a * a * a * b / lit 4, p * a * b * b * b / lit 4, lit 0⟩

def discAt (p r cx cy : α) : Mom2 α := (discCentred p r).shift cx cy
def ellipseAt (p a b cx cy : α) : Mom2 α := (ellipseCentred p a b).shift cx cy

/-! ### spatial moment records -/

/-- `∫1`, `∫x_i`, `∫x_i x_j` over a solid -/
structure Mom3 (α : Type) where
  m0 : α
  f : V3 α
  xx : α
  yy : α
  zz : α
  xy : α
  xz : α
  yz : α

/-- moments of the solid translated by `c` (linearity of the integral) -/
def Mom3.shift (M : Mom3 α) (c : V3 α) : Mom3 α :=
  ⟨M.m0, ⟨M.f.x + c.x * M.m0, M.f.y + c.y * M.m0, M.f.z + c.z * M.m0⟩,
   M.xx + lit 2 * c.x * M.f.x + c.x * c.x * M.m0,
   M.yy + lit 2 * c.y * M.f.y + c.y * c.y * M.m0,
   M.zz + lit 2 * c.z * M.f.z + c.z * c.z * M.m0,
   M.xy + c.x * M.f.y + c.y * M.f.x + c.x * c.y * M.m0,
   M.xz + c.x * M.f.z + c.z * M.f.x + c.x * c.z * M.m0,
   M.yz + c.y * M.f.z + c.z * M.f.y + c.y * c.z * M.m0⟩

/-- inertia tensor about the origin, unit density: `I = ∫(|r|² 1 − r rᵀ)` -/
def Mom3.inertia (M : Mom3 α) : M3 α :=
  ⟨M.yy + M.zz, -M.xy, -M.xz,
   -M.xy, M.xx + M.zz, -M.yz,
   -M.xz, -M.yz, M.xx + M.yy⟩

/-- centred ellipsoid with semi-axes `a,b,c` along x,y,z (closed form; proved = Lebesgue integrals): volume `V = 4/3 p abc`,
    `∫x² = V a²/5`, `∫y² = V b²/5`, `∫z² = V c²/5`, all odd moments 0 -/
def ellipsoidCentred (p a b c : α) : Mom3 α :=
  let v := lit 4 * p * a * b * c / lit 3
  ⟨v, ⟨lit 0, lit 0, lit 0⟩, v * a * a / lit 5, v * b * b / lit 5, v * c * c / lit 5,
   lit 0, lit 0, lit 0⟩

/-- centred ball = ellipsoid with three equal semi-axes -/
def ballCentred (p r : α) : Mom3 α := ellipsoidCentred p r r r

def ellipsoidAt (p a b c : α) (cen : V3 α) : Mom3 α := (ellipsoidCentred p a b c).shift cen
def ballAt (p r : α) (cen : V3 α) : Mom3 α := (ballCentred p r).shift cen

/-! ### eccentricity, isoperimetric quotients -/

/-- eccentricity = focal distance / semi-major axis, `√(M² − m²)/M` with `M = max`, `m = min` -/
def eccentricity (a b : α) : α :=
  let M := Scalar.max a b
  let m := Scalar.min a b
  Scalar.sqrt (M * M - m * m) / M

/-- area of the region / area of the disc with the same perimeter `P²/(4π)` -/
def iq2 (area perimeter : α) : α := area / (perimeter * perimeter / (lit 4 * pi))

/-- (volume / volume of the ball with the same surface)²; that ball has radius `√(S/4π)`, so the
    squared ratio is `V² / ((4π/3)² (S/4π)³)` -/
def iq3 (volume surface : α) : α :=
  let s := surface / (lit 4 * pi)
  volume * volume / ((lit 4 * pi / lit 3) * (lit 4 * pi / lit 3) * (s * s * s))

/-! ### integrands of the defining integrals (standard parametrisations) -/

/-- speed of `θ ↦ (a cos θ, b sin θ)`: perimeter `= ∫₀^{2π} speed = 4 ∫₀^{π/2} speed` -/
def arcSpeed (a b θ : α) : α :=
  Scalar.sqrt (a * Scalar.sin θ * (a * Scalar.sin θ) + b * Scalar.cos θ * (b * Scalar.cos θ))

/-- area element of `(θ,φ) ↦ (a sinθ cosφ, b sinθ sinφ, c cosθ)`:
    `|∂θ × ∂φ| = sinθ √(b²c² sin²θ cos²φ + a²c² sin²θ sin²φ + a²b² cos²θ)`;
    surface area `= ∫₀^{π}∫₀^{2π}` of it -/
def surfElement (a b c θ φ : α) : α :=
  let st := Scalar.sin θ
  let ct := Scalar.cos θ
  let sp := Scalar.sin φ
  let cp := Scalar.cos φ
  st * Scalar.sqrt (b * b * c * c * st * st * cp * cp + a * a * c * c * st * st * sp * sp
                      + a * a * b * b * ct * ct)

end CSpec
