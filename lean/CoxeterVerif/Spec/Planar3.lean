import CoxeterVerif.Vec
/-!
  Specification layer for planar regions embedded in 3-space (tilted planes).

  * `areaVector vs` : the area vector `½ Σ_i v_i × v_{i+1}` of the closed vertex cycle `vs`;
    for a planar cycle `n · areaVector` is the signed area about the unit normal `n`
    (positive = counter-clockwise seen from the tip of `n`).
  * a region is presented as a finite list of 3-D triangles lying in the plane; the "exact
    integrals" are sums of the textbook closed forms over the triangles, with the triangle's area
    taken SIGNED about the normal `n` (no absolute values):
      `triArea n t   = n · ((b−a) × (c−a)) / 2`
      `triFirst n t  = triArea · (a+b+c)/3`                         (∫ x dA)
      `triPolar n p t = triArea/12 · (|a−p|² + |b−p|² + |c−p|² + |(a−p)+(b−p)+(c−p)|²)`   (∫ |x−p|² dA)
  * `axisTensor n J A c = J·n nᵀ + A·(|c|² 1 − c cᵀ)` : polar moment `J` about the centroidal normal
    axis moved to the origin by the parallel-axis theorem (the property's inertia-tensor clause).
  No Mathlib; independent of the model (does not use `Poly2.rotl`).
-/
namespace Spec3
variable {α : Type} [Scalar α]
open Scalar

/-- cyclic successor list `v_1, …, v_{N-1}, v_0` -/
def cyc {β : Type} (vs : List β) : List β := vs.drop 1 ++ vs.take 1

/-- area vector `½ Σ v_i × v_{i+1}` of the closed cycle -/
def areaVector (vs : List (V3 α)) : V3 α :=
  V3.sdiv (V3.sum (List.zipWith V3.cross vs (cyc vs))) (lit 2)

/-- signed area about `n` of the 3-D triangle (a,b,c) -/
def triArea (n : V3 α) (t : Tri α) : α := V3.dot n (V3.cross (t.b - t.a) (t.c - t.a)) / lit 2

/-- ∫ x dA over the triangle = A·(a+b+c)/3 -/
def triFirst (n : V3 α) (t : Tri α) : V3 α := V3.smul (triArea n t / lit 3) (t.a + t.b + t.c)

/-- ∫ |x − p|² dA over the triangle = A/12·(|a'|² + |b'|² + |c'|² + |a'+b'+c'|²), v' = v − p -/
def triPolar (n p : V3 α) (t : Tri α) : α :=
  triArea n t / lit 12 *
    (V3.normSq (t.a - p) + V3.normSq (t.b - p) + V3.normSq (t.c - p)
      + V3.normSq ((t.a - p) + (t.b - p) + (t.c - p)))

def area (n : V3 α) (Ts : List (Tri α)) : α := Scalar.sum (Ts.map (triArea n))
def first (n : V3 α) (Ts : List (Tri α)) : V3 α := V3.sum (Ts.map (triFirst n))
/-- centroid = first moment / area -/
def centroid (n : V3 α) (Ts : List (Tri α)) : V3 α := V3.sdiv (first n Ts) (area n Ts)
/-- polar moment about the axis through `p` parallel to the plane's normal -/
def polarAbout (n p : V3 α) (Ts : List (Tri α)) : α := Scalar.sum (Ts.map (triPolar n p))

/-- `J·n nᵀ + A·(|c|² 1 − c cᵀ)` -/
def axisTensor (n : V3 α) (J A : α) (c : V3 α) : M3 α :=
  let cc := V3.dot c c
  ⟨J * (n.x * n.x) + A * (cc - c.x * c.x), J * (n.x * n.y) - A * (c.x * c.y), J * (n.x * n.z) - A * (c.x * c.z),
   J * (n.y * n.x) - A * (c.y * c.x), J * (n.y * n.y) + A * (cc - c.y * c.y), J * (n.y * n.z) - A * (c.y * c.z),
   J * (n.z * n.x) - A * (c.z * c.x), J * (n.z * n.y) - A * (c.z * c.y), J * (n.z * n.z) + A * (cc - c.z * c.z)⟩

end Spec3
