/-!
  C20 — specification side: what a mesh file MEANS.

  Independent readers for OBJ, OFF, PLY, legacy-VTK, ASCII-STL, X3D and X3DOM/HTML, written from the
  format definitions (Wavefront OBJ appendix B1; Geomview OFF(5); Turk's PLY 1.0; VTK file formats
  4.2 "legacy"; 3D-Systems SLA ASCII STL; ISO/IEC 19776-1 X3D XML encoding) — NOT from `coxeter/io.py`.
  No writer lives in this file; it shares with the model only the data types.

  Text is `List Char` (a Python `str` is a sequence of code points).  The format readers keep a coordinate as
  the token that stands in the file; what NUMBER a token is, and which IEEE double a correctly rounding
  reader returns for it, is the last section (`tokSignMag`, `roundsMag`, `readsAsB`: the per-run certificate
  `float(tok) == coordinate`, decided exactly over ℚ).  Integers are read by `parseNat`/`parseInt`.

  XML formats: the readers here work on the element tree `Xml`; the parser text → tree (`parseXml`,
  `parseHtmlDoc`) is in Lemmas/MeshIOXmlText.lean together with the proof that it inverts the serialiser.
-/
namespace MeshIO

abbrev Str := List Char
abbrev Tok := Str
abbrev V3T := Tok × Tok × Tok

-- string literal as a list of characters (elaborated to a list literal, so it reduces by `rfl`)
open Lean in
macro:max "cs!" s:str : term => do
  let elems : Array (TSyntax `term) := s.getString.toList.toArray.map fun c => ⟨(Syntax.mkCharLit c).raw⟩
  `(([$elems,*] : List Char))

/-- an indexed polygon mesh over coordinate tokens -/
structure Mesh where
  verts : List V3T
  faces : List (List Nat)
deriving DecidableEq, Repr

/-- XML element: tag, attributes in document order, text before the first child, children -/
inductive Xml where
  | node (tag : Str) (attrs : List (Str × Str)) (text : Str) (children : List Xml)

namespace Xml
def tag : Xml → Str | .node t _ _ _ => t
def attrs : Xml → List (Str × Str) | .node _ a _ _ => a
def children : Xml → List Xml | .node _ _ _ c => c
end Xml

/-! ### tokenisation -/

def isNL (c : Char) : Bool := c == '\n'
/-- blanks inside a line -/
def isWs (c : Char) : Bool := c == ' ' || c == '\t' || c == '\r'
/-- separators of an X3D `MF` field: white space and commas -/
def isWsX (c : Char) : Bool := c == ' ' || c == '\t' || c == '\r' || c == '\n' || c == ','

/-- split at every character satisfying `p` (always at least one piece) -/
def splitOn (p : Char → Bool) : Str → List Str
  | [] => [[]]
  | c :: cs =>
    if p c then [] :: splitOn p cs
    else match splitOn p cs with
      | [] => [[c]]
      | w :: ws => (c :: w) :: ws

/-- maximal runs of non-separator characters -/
def words (p : Char → Bool) (s : Str) : List Tok := (splitOn p s).filter fun w => !w.isEmpty

/-- a text file as lines of blank-separated tokens -/
def tokenize (s : Str) : List (List Tok) := (splitOn isNL s).map (words isWs)

def mapOpt {α β} (f : α → Option β) : List α → Option (List β)
  | [] => some []
  | a :: l => (f a).bind fun b => (mapOpt f l).map (b :: ·)

/-- unsigned decimal integer: one or more digits, nothing else -/
def parseNat (t : Tok) : Option Nat :=
  if t.isEmpty || !(t.all Char.isDigit) then none else some (Nat.ofDigitChars 10 t 0)

def parseInt (t : Tok) : Option Int :=
  match t with
  | '-' :: r => (parseNat r).map fun n => -(n : Int)
  | _ => (parseNat t).map fun n => (n : Int)

/-- every face index refers to an existing vertex -/
def inRange (m : Mesh) : Bool := m.faces.all fun f => f.all (· < m.verts.length)

def checked (m : Mesh) : Option Mesh := if inRange m then some m else none

/-! ### counted token streams (OFF, PLY, VTK bodies) -/

def takeVerts : Nat → List Tok → Option (List V3T × List Tok)
  | 0, ts => some ([], ts)
  | n + 1, x :: y :: z :: ts => (takeVerts n ts).map fun r => ((x, y, z) :: r.1, r.2)
  | _ + 1, _ => none

def takeNats : Nat → List Tok → Option (List Nat × List Tok)
  | 0, ts => some ([], ts)
  | n + 1, t :: ts => (parseNat t).bind fun i => (takeNats n ts).map fun r => (i :: r.1, r.2)
  | _ + 1, [] => none

/-- `n` records `k i₁ … i_k` -/
def takeFaces : Nat → List Tok → Option (List (List Nat) × List Tok)
  | 0, ts => some ([], ts)
  | n + 1, t :: ts =>
    (parseNat t).bind fun k => (takeNats k ts).bind fun f =>
      (takeFaces n f.2).map fun r => (f.1 :: r.1, r.2)
  | _ + 1, [] => none

/-- body `V vertex records, F face records, nothing else` -/
def readBody (V F : Nat) (ts : List Tok) : Option Mesh :=
  (takeVerts V ts).bind fun vs => (takeFaces F vs.2).bind fun fs =>
    if fs.2.isEmpty then checked ⟨vs.1, fs.1⟩ else none

/-! ### OBJ -/

/-- statements a geometry reader may skip -/
def objIgnored : List Tok :=
  [cs!"vn", cs!"vt", cs!"vp", cs!"g", cs!"o", cs!"s", cs!"usemtl", cs!"mtllib"]

/-- `f` references are 1-based (relative / `v/vt/vn` references are not accepted) -/
def parseIdx1 (t : Tok) : Option Nat := (parseNat t).bind fun n => if n = 0 then none else some (n - 1)

def objLine (l : List Tok) (m : Mesh) : Option Mesh :=
  match l with
  | [] => some m
  | k :: args =>
    if k.head? = some '#' then some m
    else if k = cs!"v" then
      match args with
      | [x, y, z] => some ⟨(x, y, z) :: m.verts, m.faces⟩
      | [x, y, z, _] => some ⟨(x, y, z) :: m.verts, m.faces⟩
      | _ => none
    else if k = cs!"f" then
      (mapOpt parseIdx1 args).bind fun idx =>
        if idx.length < 3 then none else some ⟨m.verts, idx :: m.faces⟩
    else if objIgnored.contains k then some m
    else none

def readObjT : List (List Tok) → Option Mesh
  | [] => some ⟨[], []⟩
  | l :: rest => (readObjT rest).bind (objLine l)

def readObj (text : Str) : Option Mesh := (readObjT (tokenize text)).bind checked

/-! ### OFF -/

/-- `#` starts a comment that runs to the end of the line -/
def stripComment (l : List Tok) : List Tok := l.takeWhile fun t => t.head? != some '#'

/-- `OFF  NVertices NFaces NEdges  vertices…  faces…`; `NEdges` is read as an integer and, as the
    format prescribes, not used.  Colour specifications are not accepted. `cnt` reads `NFaces`. -/
def readOffWith (cnt : Tok → Option Nat) (text : Str) : Option Mesh :=
  match ((tokenize text).map stripComment).flatten with
  | magic :: v :: f :: e :: rest =>
    if magic = cs!"OFF" then
      (parseNat v).bind fun V => (cnt f).bind fun F => (parseNat e).bind fun _ => readBody V F rest
    else none
  | _ => none

/-- the reader of the format definition -/
def readOff (text : Str) : Option Mesh := readOffWith parseNat text

/-- a forgiving reader that drops one leading `f` of the face count -/
def readOffLenient (text : Str) : Option Mesh :=
  readOffWith (fun t => match t with | 'f' :: r => parseNat r | _ => parseNat t) text

/-! ### PLY -/

structure PlyElem where
  name : Tok
  count : Nat
  props : List (List Tok)

def plyHeader : List (List Tok) → List PlyElem → Option (List PlyElem × List (List Tok))
  | [], _ => none
  | l :: rest, acc =>
    match l with
    | [] => none
    | k :: args =>
      if k = cs!"end_header" then (if args.isEmpty then some (acc.reverse, rest) else none)
      else if k = cs!"comment" || k = cs!"obj_info" then plyHeader rest acc
      else if k = cs!"element" then
        match args with
        | [name, cnt] => (parseNat cnt).bind fun n => plyHeader rest (⟨name, n, []⟩ :: acc)
        | _ => none
      else if k = cs!"property" then
        match acc with
        | e :: acc' => plyHeader rest (⟨e.name, e.count, e.props ++ [args]⟩ :: acc')
        | [] => none
      else none

def plyScalar : List Tok :=
  [cs!"char", cs!"uchar", cs!"short", cs!"ushort", cs!"int", cs!"uint", cs!"float", cs!"double",
   cs!"int8", cs!"uint8", cs!"int16", cs!"uint16", cs!"int32", cs!"uint32", cs!"float32", cs!"float64"]

def plyVertexProps (ps : List (List Tok)) : Bool :=
  match ps with
  | [[t1, x], [t2, y], [t3, z]] =>
    plyScalar.contains t1 && plyScalar.contains t2 && plyScalar.contains t3 &&
    x == cs!"x" && y == cs!"y" && z == cs!"z"
  | _ => false

def plyFaceProps (ps : List (List Tok)) : Bool :=
  match ps with
  | [[l, t1, t2, nm]] =>
    l == cs!"list" && plyScalar.contains t1 && plyScalar.contains t2 &&
    (nm == cs!"vertex_indices" || nm == cs!"vertex_index")
  | _ => false

/-- ASCII PLY with exactly the elements `vertex (x y z)` and `face (list … vertex_indices)` -/
def readPly (text : Str) : Option Mesh :=
  match tokenize text with
  | magic :: fmt :: rest =>
    if magic = [cs!"ply"] ∧ fmt = [cs!"format", cs!"ascii", cs!"1.0"] then
      (plyHeader rest []).bind fun hd =>
        match hd.1 with
        | [ev, ef] =>
          if ev.name = cs!"vertex" ∧ ef.name = cs!"face" ∧ plyVertexProps ev.props = true
              ∧ plyFaceProps ef.props = true then
            readBody ev.count ef.count hd.2.flatten
          else none
        | _ => none
    else none
  | _ => none

/-! ### legacy VTK (ASCII, POLYDATA with POINTS and POLYGONS) -/

def vtkTypes : List Tok :=
  [cs!"bit", cs!"unsigned_char", cs!"char", cs!"unsigned_short", cs!"short", cs!"unsigned_int", cs!"int",
   cs!"unsigned_long", cs!"long", cs!"float", cs!"double"]

def sumLen (fs : List (List Nat)) : Nat := (fs.map List.length).foldr (· + ·) 0

/-- `POINTS n type` 3n numbers; `POLYGONS n size` with `size` = number of integers that follow -/
def readVtkBody (ts : List Tok) : Option Mesh :=
  match ts with
  | kp :: n :: ty :: ts1 =>
    if kp = cs!"POINTS" ∧ vtkTypes.contains ty = true then
      (parseNat n).bind fun V => (takeVerts V ts1).bind fun vs =>
        match vs.2 with
        | kq :: nf :: sz :: ts2 =>
          if kq = cs!"POLYGONS" then
            (parseNat nf).bind fun F => (parseNat sz).bind fun S => (takeFaces F ts2).bind fun fs =>
              if fs.2.isEmpty ∧ S = F + sumLen fs.1 then checked ⟨vs.1, fs.1⟩ else none
          else none
        | _ => none
    else none
  | _ => none

def readVtk (text : Str) : Option Mesh :=
  match tokenize text with
  | l1 :: _title :: l3 :: l4 :: rest =>
    match l1 with
    | [a, b, c, d, _version] =>
      if a = cs!"#" ∧ b = cs!"vtk" ∧ c = cs!"DataFile" ∧ d = cs!"Version" ∧ l3 = [cs!"ASCII"]
          ∧ l4 = [cs!"DATASET", cs!"POLYDATA"] then readVtkBody rest.flatten
      else none
    | _ => none
  | _ => none

/-! ### ASCII STL -/

/-- facet: normal and the three corners in file order -/
abbrev Facet := V3T × V3T × V3T × V3T

def stlVertex (l : List Tok) : Option V3T :=
  match l with
  | [k, x, y, z] => if k = cs!"vertex" then some (x, y, z) else none
  | _ => none

def stlFacet (l1 l2 l3 l4 l5 l6 l7 : List Tok) : Option Facet :=
  match l1 with
  | [k1, k2, nx, ny, nz] =>
    if k1 = cs!"facet" ∧ k2 = cs!"normal" ∧ l2 = [cs!"outer", cs!"loop"] ∧ l6 = [cs!"endloop"]
        ∧ l7 = [cs!"endfacet"] then
      (stlVertex l3).bind fun a => (stlVertex l4).bind fun b => (stlVertex l5).map fun c =>
        ((nx, ny, nz), a, b, c)
    else none
  | _ => none

def stlFacets : List (List Tok) → Option (List Facet)
  | l1 :: l2 :: l3 :: l4 :: l5 :: l6 :: l7 :: rest =>
    (stlFacet l1 l2 l3 l4 l5 l6 l7).bind fun fc => (stlFacets rest).map (fc :: ·)
  | [l] => if l.head? = some cs!"endsolid" then some [] else none
  | _ => none

/-- `solid name` facets `endsolid name`; blank lines are skipped -/
def readStl (text : Str) : Option (List Facet) :=
  match (tokenize text).filter (fun l => !l.isEmpty) with
  | hd :: rest => if hd.head? = some cs!"solid" then stlFacets rest else none
  | [] => none

/-! ### X3D (XML encoding) and X3DOM -/

def lower (s : Str) : Str := s.map Char.toLower
/-- XML names are case sensitive -/
def exactName (a b : Str) : Bool := a == b
/-- HTML names are not -/
def htmlName (a b : Str) : Bool := lower a == lower b

def child (eq : Str → Str → Bool) (name : Str) (x : Xml) : Option Xml :=
  x.children.find? fun c => eq c.tag name

def attr (eq : Str → Str → Bool) (name : Str) (x : Xml) : Option Str :=
  (x.attrs.find? fun kv => eq kv.1 name).map (·.2)

/-- `coordIndex`: faces are terminated by −1 (the last terminator may be missing) -/
def splitIdx : List Int → Option (List (List Nat))
  | [] => some []
  | i :: rest =>
    (splitIdx rest).bind fun fs =>
      if i = -1 then some ([] :: fs)
      else if i < 0 then none
      else match fs with
        | [] => some [[i.toNat]]
        | f :: fs' => some ((i.toNat :: f) :: fs')

def chunk3 : List Tok → Option (List V3T)
  | [] => some []
  | x :: y :: z :: r => (chunk3 r).map ((x, y, z) :: ·)
  | _ => none

/-- `IndexedFaceSet` with a `Coordinate` child: faces index into `point` -/
def readFaceSet (eq : Str → Str → Bool) (ifs : Xml) : Option Mesh :=
  (attr eq cs!"coordIndex" ifs).bind fun ci =>
  (child eq cs!"Coordinate" ifs).bind fun co =>
  (attr eq cs!"point" co).bind fun pt =>
  (mapOpt parseInt (words isWsX ci)).bind fun idx =>
  (splitIdx idx).bind fun fs =>
  (chunk3 (words isWsX pt)).bind fun vs =>
    if fs.all (fun f => 3 ≤ f.length) then checked ⟨vs, fs⟩ else none

/-- document `X3D / Scene / Shape / IndexedFaceSet` -/
def readX3dWith (eq : Str → Str → Bool) (doc : Xml) : Option Mesh :=
  if eq doc.tag cs!"X3D" then
    (child eq cs!"Scene" doc).bind fun sc =>
    (child eq cs!"Shape" sc).bind fun sh =>
    (child eq cs!"IndexedFaceSet" sh).bind (readFaceSet eq)
  else none

/-- the reader of the X3D XML encoding (element names exactly as in the standard) -/
def readX3d (doc : Xml) : Option Mesh := readX3dWith exactName doc

/-- a forgiving reader that ignores the case of element and attribute names -/
def readX3dLenient (doc : Xml) : Option Mesh := readX3dWith htmlName doc

/-- X3DOM page: `html / body / x3d …`, names matched as an HTML parser does -/
def readHtml (doc : Xml) : Option Mesh :=
  if htmlName doc.tag cs!"html" then
    (child htmlName cs!"body" doc).bind fun b => (child htmlName cs!"x3d" b).bind readX3dLenient
  else none

/-! ### decimal coordinate tokens and their value

  The number syntax every reader of the seven formats accepts (C `strtod` / `scanf("%lf")` restricted to decimal
  notation, which is also what Python's `float()` and an XML `SFFloat` / `MFVec3f` accept):

      token    := sign? mantissa exponent?
      sign     := '+' | '-'
      mantissa := digits | digits '.' | digits '.' digits | '.' digits
      exponent := ('e' | 'E') sign? digits

  `inf`, `nan`, hexadecimal floats, digit separators and surrounding blanks are NOT numbers of any of the formats.
  The value is the exact rational `± (digits of the mantissa) · 10^(exponent − number of fraction digits)`; the sign
  is kept apart so that `-0.0` is distinguished from `0.0`. -/

/-- characters before the first one satisfying `p`, and what follows it (`none`: there is none) -/
def cutAt (p : Char → Bool) : Str → Str × Option Str
  | [] => ([], none)
  | c :: cs => if p c then ([], some cs) else ((cutAt p cs).1.cons c, (cutAt p cs).2)

def isExpChar (c : Char) : Bool := c == 'e' || c == 'E'
def isDot (c : Char) : Bool := c == '.'

/-- optional sign: (is negative, rest) -/
def splitSign : Str → Bool × Str
  | '-' :: r => (true, r)
  | '+' :: r => (false, r)
  | r => (false, r)

def digitRun (ds : Str) : Bool := ds.all Char.isDigit
/-- value of a run of decimal digits (most significant first) -/
def digitsNat (ds : Str) : Nat := Nat.ofDigitChars 10 ds 0

/-- mantissa → (integer digits, fraction digits); at least one digit in total -/
def parseMant (s : Str) : Option (Str × Str) :=
  match cutAt isDot s with
  | (i, none) => if !i.isEmpty && digitRun i then some (i, []) else none
  | (i, some f) => if !(i.isEmpty && f.isEmpty) && digitRun i && digitRun f then some (i, f) else none

/-- exponent part (after the `e`) → its value; no exponent part = 0 -/
def parseExp : Option Str → Option Int
  | none => some 0
  | some e =>
    if !(splitSign e).2.isEmpty && digitRun (splitSign e).2 then
      some (if (splitSign e).1 then -(digitsNat (splitSign e).2 : Int) else (digitsNat (splitSign e).2 : Int))
    else none

/-- `n · 10^e` exactly -/
def scale10 (n : Nat) (e : Int) : Rat :=
  if 0 ≤ e then ((n * 10 ^ e.toNat : Nat) : Rat) else mkRat (n : Int) (10 ^ (-e).toNat)

/-- sign and exact magnitude of a coordinate token (`none`: not a number of the formats) -/
def tokSignMag (t : Tok) : Option (Bool × Rat) :=
  (parseMant (cutAt isExpChar (splitSign t).2).1).bind fun m =>
    (parseExp (cutAt isExpChar (splitSign t).2).2).map fun e =>
      ((splitSign t).1, scale10 (digitsNat (m.1 ++ m.2)) (e - (m.2.length : Int)))

/-- exact value of a coordinate token -/
def tokValue (t : Tok) : Option Rat :=
  (tokSignMag t).map fun r => if r.1 then -r.2 else r.2

/-! #### IEEE-754 binary64 and correct rounding

  A double is given by its 64 bits (as a number < 2^64): sign bit, 11 exponent bits, 52 fraction bits.  The low 63 bits
  `m` order the non-negative doubles like their values; `magNum m / 2^1074` is the value (for `m = 0x7FF0…0`, the
  pattern of +inf, it is 2^1024: the threshold of rounding to infinity).  A reader that converts a decimal token
  correctly (round to nearest, ties to even: what `strtod` and Python's `float` do) returns the double `x` for the
  rational `q` iff `q` lies between the midpoints to the two neighbours of `x` (a midpoint itself only if the last
  fraction bit of `x` is 0). -/

def magNum (m : Nat) : Nat :=
  if m / 2 ^ 52 = 0 then m % 2 ^ 52 else (2 ^ 52 + m % 2 ^ 52) * 2 ^ (m / 2 ^ 52 - 1)

def magValue (m : Nat) : Rat := mkRat (magNum m : Int) (2 ^ 1074)

/-- the finite non-negative double with bit pattern `m` is the correctly rounded value of `q ≥ 0` -/
def roundsMag (q : Rat) (m : Nat) : Bool :=
  decide (m < 2047 * 2 ^ 52) &&
  (decide (q < (magValue m + magValue (m + 1)) / 2) ||
    (decide (q = (magValue m + magValue (m + 1)) / 2) && m % 2 == 0)) &&
  (m == 0 ||
    (decide ((magValue (m - 1) + magValue m) / 2 < q) ||
      (decide (q = (magValue (m - 1) + magValue m) / 2) && m % 2 == 0)))

/-- the token, read by a correctly rounding reader, is exactly the double with these 64 bits
    (sign of zero included) -/
def readsAsB (t : Tok) (bits : Nat) : Bool :=
  match tokSignMag t with
  | none => false
  | some r => decide (bits < 2 ^ 64) && (bits / 2 ^ 63 == (if r.1 then 1 else 0)) && roundsMag r.2 (bits % 2 ^ 63)

/-- vertex coordinates as doubles (64-bit patterns) -/
abbrev V3B := Nat × Nat × Nat

/-- every coordinate token of the mesh reads as the corresponding double: the per-run certificate
    (`float(token) == coordinate`, decided exactly over ℚ by the driver) -/
def coordsReadAs : List V3T → List V3B → Bool
  | [], [] => true
  | v :: vs, x :: xs =>
    readsAsB v.1 x.1 && readsAsB v.2.1 x.2.1 && readsAsB v.2.2 x.2.2 && coordsReadAs vs xs
  | _, _ => false

end MeshIO
