import CoxeterVerif.Model.Inside2D
/-!
  Specification layer for C06 (no Mathlib; only the point type `P2` is taken from the model file).

  What "the point lies in the region bounded by the shape" means:
  * disk     : `(x−cx)² + (y−cy)² ≤ r²`;
  * ellipse  : `((x−cx)/a)² + ((y−cy)/b)² ≤ 1`;
  * polygon  : the region is presented by a triangulation `Ts` (a finite list of triangles whose
    boundary chain is the polygon); a point off the triangles' edges is in the region iff it is
    strictly inside one of the triangles.  `inTriangle` is the textbook same-side test with the
    orientation determinant; nothing here shares the implementation's derivation (half-plane
    classes, crossing indicators, winding numbers).
  Everything is decidable over ℚ, so the driver evaluates these definitions exactly (`Q` ops).
-/
namespace Spec.In2D
open Inside2D Scalar
variable {α : Type} [Scalar α]

structure Tri2 (α : Type) where
  a : P2 α
  b : P2 α
  c : P2 α

/-- orientation determinant: twice the signed area of `a b p`
    (`> 0` ⇔ `p` is strictly left of the directed line `a → b`) -/
def orient (a b p : P2 α) : α := (b.x - a.x) * (p.y - a.y) - (b.y - a.y) * (p.x - a.x)

/-- `p` is strictly inside the (non-degenerate) triangle: strictly on the same side of the
    three directed edges -/
def inTriangle (t : Tri2 α) (p : P2 α) : Bool :=
  (decide (lit 0 < orient t.a t.b p) && decide (lit 0 < orient t.b t.c p) && decide (lit 0 < orient t.c t.a p)) ||
  (decide (orient t.a t.b p < lit 0) && decide (orient t.b t.c p < lit 0) && decide (orient t.c t.a p < lit 0))

/-- `p` is on one of the three lines carrying the edges of `t` -/
def onLines (t : Tri2 α) (p : P2 α) : Bool :=
  Scalar.eqb (orient t.a t.b p) (lit 0) || Scalar.eqb (orient t.b t.c p) (lit 0) ||
    Scalar.eqb (orient t.c t.a p) (lit 0)

/-- `(a − p)·(b − p)`: non-positive exactly when `p`, known to be on the line `a b`, lies between
    `a` and `b` (ends included) -/
def dot2 (a b p : P2 α) : α := (a.x - p.x) * (b.x - p.x) + (a.y - p.y) * (b.y - p.y)

/-- `p` lies on the closed segment `[a, b]` -/
def onSegment (a b p : P2 α) : Bool :=
  Scalar.eqb (orient a b p) (lit 0) && decide (dot2 a b p ≤ lit 0)

/-- `p` lies on the boundary of the triangle `t` (one of its three closed edges) -/
def onBoundary (t : Tri2 α) (p : P2 α) : Bool :=
  onSegment t.a t.b p || onSegment t.b t.c p || onSegment t.c t.a p

/-- number of triangles of `Ts` strictly containing `p` -/
def count (Ts : List (Tri2 α)) (p : P2 α) : Nat := (Ts.filter fun t => inTriangle t p).length

/-- membership in the region triangulated by `Ts` (for `p` off the triangles' edges) -/
def inRegion (Ts : List (Tri2 α)) (p : P2 α) : Bool := Ts.any fun t => inTriangle t p

/-- twice the signed area of the triangulated region -/
def area2 (Ts : List (Tri2 α)) : α := Scalar.sum (Ts.map fun t => orient t.a t.b t.c)

/-- closed disk of radius `r` about `c` (in the plane of the circle) -/
def inDisk (r : α) (c p : P2 α) : Bool :=
  decide (sqr (p.x - c.x) + sqr (p.y - c.y) ≤ sqr r)

/-- closed ellipse with semi-axes `a` (along x) and `b` (along y) about `c` -/
def inEllipse (a b : α) (c p : P2 α) : Bool :=
  decide (sqr ((p.x - c.x) / a) + sqr ((p.y - c.y) / b) ≤ lit 1)

end Spec.In2D
