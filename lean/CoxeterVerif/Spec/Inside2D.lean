import CoxeterVerif.Model.Inside2D
/-!
  Specification layer for C06 (no Mathlib; only the point type `P2` is taken from the model file).

  What "the point lies in the region bounded by the shape" means:
  * disk     : `(x−cx)² + (y−cy)² ≤ r²`;
  * ellipse  : `((x−cx)/a)² + ((y−cy)/b)² ≤ 1`;
  * polygon  : the region is presented by a triangulation `Ts` (a finite list of triangles whose
    boundary chain is the polygon); a point off the triangles' edges is in the region iff it is
    strictly inside one of the triangles.  `inTriangle` is the textbook same-side test with the
    orientation determinant; nothing here shares the implementation's derivation (half-plane
    classes, crossing indicators, winding numbers).
  Everything is decidable over ℚ, so the driver evaluates these definitions exactly (`Q` ops).
-/
namespace Spec.In2D
open Inside2D Scalar
variable {α : Type} [Scalar α]

structure Tri2 (α : Type) where
  a : P2 α
  b : P2 α
  c : P2 α

/-- orientation determinant: twice the signed area of `a b p`
    (`> 0` ⇔ `p` is strictly left of the directed line `a → b`) -/
def orient (a b p : P2 α) : α := (b.x - a.x) * (p.y - a.y) - (b.y - a.y) * (p.x - a.x)

/-- `p` is strictly inside the (non-degenerate) triangle: strictly on the same side of the
    three directed edges -/
def inTriangle (t : Tri2 α) (p : P2 α) : Bool :=
  (decide (lit 0 < orient t.a t.b p) && decide (lit 0 < orient t.b t.c p) && decide (lit 0 < orient t.c t.a p)) ||
  (decide (orient t.a t.b p < lit 0) && decide (orient t.b t.c p < lit 0) && decide (orient t.c t.a p < lit 0))

/-- `p` is on one of the three lines carrying the edges of `t` -/
def onLines (t : Tri2 α) (p : P2 α) : Bool :=
  Scalar.eqb (orient t.a t.b p) (lit 0) || Scalar.eqb (orient t.b t.c p) (lit 0) ||
    Scalar.eqb (orient t.c t.a p) (lit 0)

/-- `(a − p)·(b − p)`: non-positive exactly when `p`, known to be on the line `a b`, lies between
    `a` and `b` (ends included) -/
def dot2 (a b p : P2 α) : α := (a.x - p.x) * (b.x - p.x) + (a.y - p.y) * (b.y - p.y)

/-- `p` lies on the closed segment `[a, b]` -/
def onSegment (a b p : P2 α) : Bool :=
  Scalar.eqb (orient a b p) (lit 0) && decide (dot2 a b p ≤ lit 0)

/-- `p` lies on the boundary of the triangle `t` (one of its three closed edges) -/
def onBoundary (t : Tri2 α) (p : P2 α) : Bool :=
  onSegment t.a t.b p || onSegment t.b t.c p || onSegment t.c t.a p

/-- number of triangles of `Ts` strictly containing `p` -/
def count (Ts : List (Tri2 α)) (p : P2 α) : Nat := (Ts.filter fun t => inTriangle t p).length

/-- membership in the region triangulated by `Ts` (for `p` off the triangles' edges) -/
def inRegion (Ts : List (Tri2 α)) (p : P2 α) : Bool := Ts.any fun t => inTriangle t p

/-- twice the signed area of the triangulated region -/
def area2 (Ts : List (Tri2 α)) : α := Scalar.sum (Ts.map fun t => orient t.a t.b t.c)

/-- closed disk of radius `r` about `c` (in the plane of the circle) -/
def inDisk (r : α) (c p : P2 α) : Bool :=
  decide (sqr (p.x - c.x) + sqr (p.y - c.y) ≤ sqr r)

/-- closed ellipse with semi-axes `a` (along x) and `b` (along y) about `c` -/
def inEllipse (a b : α) (c p : P2 α) : Bool :=
  decide (sqr ((p.x - c.x) / a) + sqr ((p.y - c.y) / b) ≤ lit 1)

/-! ### convex polygons: membership without a triangulation -/

/-- `p` is strictly left of every directed edge of `vs`: for a counter-clockwise convex polygon
    this IS the definition of its interior (intersection of the open half-planes of its edges) -/
def leftOfAll (vs : List (P2 α)) (p : P2 α) : Bool :=
  (edges vs).all fun e => decide (lit 0 < orient e.1 e.2 p)

/-- the clockwise version: strictly right of every directed edge -/
def rightOfAll (vs : List (P2 α)) (p : P2 α) : Bool :=
  (edges vs).all fun e => decide (orient e.1 e.2 p < lit 0)

/-- interior of a convex polygon given in either orientation -/
def inConvex (vs : List (P2 α)) (p : P2 α) : Bool := leftOfAll vs p || rightOfAll vs p

/-- `p` lies on one of the closed edges of the polygon `vs` -/
def onPolygon (vs : List (P2 α)) (p : P2 α) : Bool := (edges vs).any fun e => onSegment e.1 e.2 p

def p2Eqb (a b : P2 α) : Bool := Scalar.eqb a.x b.x && Scalar.eqb a.y b.y

/-- **strict convexity checker** (counter-clockwise): every vertex other than the edge's own two
    end points is strictly left of every directed edge, and every edge has such a vertex -/
def convexCheck (vs : List (P2 α)) : Bool :=
  !vs.isEmpty && (edges vs).all fun e =>
    (vs.all fun v => p2Eqb v e.1 || p2Eqb v e.2 || decide (lit 0 < orient e.1 e.2 v)) &&
    (vs.any fun v => decide (lit 0 < orient e.1 e.2 v))

/-! ### the even–odd (crossing number) rule: a second, triangulation-free description of the region -/

/-- `v` is to the right of the upward vertical ray from `p`; a point exactly above `p` counts as
    right, a point exactly below as left (the usual consistent tie-break: the ray is thought of as
    tilted infinitesimally clockwise) -/
def rightOfRay (p v : P2 α) : Bool :=
  decide (p.x < v.x) || (Scalar.eqb v.x p.x && decide (p.y < v.y))

/-- the directed edge `a → b` crosses the upward ray from `p`: its end points are on different
    sides and it passes above `p` (for a right-to-left edge `p` is then on its left) -/
def crossesUp (p a b : P2 α) : Bool :=
  (rightOfRay p a != rightOfRay p b) &&
    (if rightOfRay p a then decide (lit 0 < orient a b p) else decide (orient a b p < lit 0))

/-- number of edges of the closed polygon crossing the upward ray from `p` -/
def crossNumber (vs : List (P2 α)) (p : P2 α) : Nat :=
  ((edges vs).filter fun e => crossesUp p e.1 e.2).length

/-- even–odd rule: inside iff the ray crosses the boundary an odd number of times -/
def evenOdd (vs : List (P2 α)) (p : P2 α) : Bool := crossNumber vs p % 2 == 1

/-! ### triangulation certificates (computable checkers; the driver runs them exactly over ℚ;
    soundness is proved in `Lemmas/Inside2DCert.lean`) -/

/-- remove the first element satisfying `q` (`none` when there is none) -/
def removeFirst {β : Type} (q : β → Bool) : List β → Option (List β)
  | [] => none
  | x :: xs => if q x then some xs else (removeFirst q xs).map (x :: ·)

def edgeRevEqb (e f : P2 α × P2 α) : Bool := p2Eqb e.1 f.2 && p2Eqb e.2 f.1

/-- repeatedly take the head edge `(a, b)`, find a `(b, a)` in the rest, remove both;
    `true` iff everything cancels (`fuel ≥ length` suffices) -/
def cancelEdges : Nat → List (P2 α × P2 α) → Bool
  | _, [] => true
  | 0, _ :: _ => false
  | fuel + 1, e :: rest =>
    match removeFirst (fun f => edgeRevEqb f e) rest with
    | none => false
    | some rest' => cancelEdges fuel rest'

/-- the three directed edges of a triangle -/
def triEdges (t : Tri2 α) : List (P2 α × P2 α) := [(t.a, t.b), (t.b, t.c), (t.c, t.a)]

/-- **boundary-chain checker**: (edges of the polygon) − Σ (edges of the triangles) cancels to
    the empty chain, i.e. the polygon cycle is the boundary chain of the triangulation -/
def chainCheck (vs : List (P2 α)) (Ts : List (Tri2 α)) : Bool :=
  let L := edges vs ++ (Ts.flatMap triEdges).map fun e => (e.2, e.1)
  cancelEdges L.length L

/-- all triangles strictly positively oriented, or all strictly negatively oriented -/
def orientedCheck (Ts : List (Tri2 α)) : Bool :=
  (Ts.all fun t => decide (lit 0 < orient t.a t.b t.c)) ||
  (Ts.all fun t => decide (orient t.a t.b t.c < lit 0))

/-- **triangulation certificate**: what `polygon_inside_iff` presupposes about `(vs, Ts)` -/
def certCheck (vs : List (P2 α)) (Ts : List (Tri2 α)) : Bool := chainCheck vs Ts && orientedCheck Ts

/-- the query point is on none of the closed edges of the triangles -/
def offCheck (Ts : List (Tri2 α)) (p : P2 α) : Bool := Ts.all fun t => !onBoundary t p

/-! ### the polygon in space: intrinsic membership (no rotation into the `xy` plane) -/

structure Tri3 (α : Type) where
  a : V3 α
  b : V3 α
  c : V3 α

/-- `n · ((b − a) × (p − a))`: twice the signed area of `a b p` seen from the side `n` points to -/
def orient3 (n a b p : V3 α) : α := V3.dot n (V3.cross (b - a) (p - a))

/-- `p` (a point of the plane of `t`) is strictly inside the triangle `t` of 3-space:
    strictly on the same side of its three directed edges, seen along `n` -/
def inTriangle3 (n : V3 α) (t : Tri3 α) (p : V3 α) : Bool :=
  (decide (lit 0 < orient3 n t.a t.b p) && decide (lit 0 < orient3 n t.b t.c p) &&
      decide (lit 0 < orient3 n t.c t.a p)) ||
  (decide (orient3 n t.a t.b p < lit 0) && decide (orient3 n t.b t.c p < lit 0) &&
      decide (orient3 n t.c t.a p < lit 0))

/-- in-plane part of `(a − p)·(b − p)` for a unit normal `n` -/
def dot3 (n a b p : V3 α) : α :=
  V3.dot (a - p) (b - p) - V3.dot n (a - p) * V3.dot n (b - p)

/-- the projection of `p` along `n` lies on the closed segment `[a, b]` -/
def onSegment3 (n a b p : V3 α) : Bool :=
  Scalar.eqb (orient3 n a b p) (lit 0) && decide (dot3 n a b p ≤ lit 0)

def onBoundary3 (n : V3 α) (t : Tri3 α) (p : V3 α) : Bool :=
  onSegment3 n t.a t.b p || onSegment3 n t.b t.c p || onSegment3 n t.c t.a p

/-- membership in the planar region of 3-space triangulated by `Ts` -/
def inRegion3 (n : V3 α) (Ts : List (Tri3 α)) (p : V3 α) : Bool := Ts.any fun t => inTriangle3 n t p

end Spec.In2D
