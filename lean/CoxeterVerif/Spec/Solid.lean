import CoxeterVerif.Vec
/-!
  Specification layer for solids: a solid is presented as a finite list of tetrahedra.
  The "exact integrals over the solid" are the sums of the textbook closed forms of
  ∫1, ∫x_i, ∫x_i x_j over each tetrahedron.  (Trusted: these closed forms; see DESIGN §6.)
-/
namespace Spec
variable {α : Type} [Scalar α]
open Scalar

/-- signed volume of a tetrahedron: det(b-a, c-a, d-a)/6 -/
def tetVol (T : Tet α) : α := V3.det3 (T.b - T.a) (T.c - T.a) (T.d - T.a) / lit 6

def tetSum (T : Tet α) : V3 α := T.a + T.b + T.c + T.d

/-- ∫_T x_i dV = vol · (a+b+c+d)_i / 4 -/
def tetFirst (T : Tet α) : V3 α := V3.smul (tetVol T / lit 4) (tetSum T)

/-- ∫_T x_i x_j dV = vol/20 · (Σ_v v_i v_j + s_i s_j),  s = a+b+c+d -/
def tetSecond (T : Tet α) (i j : Nat) : α :=
  tetVol T / lit 20 *
    (T.a.get i * T.a.get j + T.b.get i * T.b.get j + T.c.get i * T.c.get j + T.d.get i * T.d.get j
      + (tetSum T).get i * (tetSum T).get j)

def vol (Ts : List (Tet α)) : α := Scalar.sum (Ts.map tetVol)
def first (Ts : List (Tet α)) : V3 α := V3.sum (Ts.map tetFirst)
def second (Ts : List (Tet α)) (i j : Nat) : α := Scalar.sum (Ts.map (tetSecond · i j))

/-- centroid = first moment / volume -/
def centroid (Ts : List (Tet α)) : V3 α := V3.sdiv (first Ts) (vol Ts)

/-- inertia tensor about the origin, unit density: I = tr(M)·1 − M -/
def inertia (Ts : List (Tet α)) : M3 α :=
  let m := second Ts
  ⟨m 1 1 + m 2 2, -(m 0 1), -(m 0 2),
   -(m 0 1), m 0 0 + m 2 2, -(m 1 2),
   -(m 0 2), -(m 1 2), m 0 0 + m 1 1⟩

end Spec
