import CoxeterVerif.Vec
/-!
  Specification side of C07 (no Mathlib): what "edge", "shares an edge", "closed oriented
  surface", "plane contains", "outward / counter-clockwise", "supporting facet" mean — written
  with index arithmetic on the cycles and exact predicates, not with the code's zip/roll/sets.
-/

namespace StructSpec
abbrev Face := List Nat
abbrev Edge := Nat × Nat

/-- the `i`-th directed edge of the cyclic vertex list `f`: `(f[i], f[(i+1) mod |f|])` -/
def cycEdge (f : Face) (i : Nat) : Edge := (f.getD i 0, f.getD ((i + 1) % f.length) 0)

/-- the directed edges of a face, by index -/
def dirEdges (f : Face) : List Edge := (List.range f.length).map (cycEdge f)

/-- all directed edges of a face list -/
def allDir (F : List Face) : List Edge := F.flatMap dirEdges

/-- `a` and `b` are cyclically consecutive in `f` (in one of the two directions) -/
def Adj (f : Face) (a b : Nat) : Prop := (a, b) ∈ dirEdges f ∨ (b, a) ∈ dirEdges f

/-- two faces share an (undirected) edge -/
def SharesEdge (f g : Face) : Prop := ∃ a b, Adj f a b ∧ Adj g a b

/-- `{a, b}` is an edge of the surface -/
def IsEdge (F : List Face) (a b : Nat) : Prop := (a, b) ∈ allDir F ∨ (b, a) ∈ allDir F

/-- closed oriented surface: no directed edge occurs twice, every directed edge has its reverse
    partner (exactly one, by the first clause), and no edge is a loop -/
structure ClosedOriented (F : List Face) : Prop where
  nodup : (allDir F).Nodup
  rev : ∀ e ∈ allDir F, (e.2, e.1) ∈ allDir F
  noLoop : ∀ e ∈ allDir F, e.1 ≠ e.2

/-- decidable form of `List.Nodup` for directed edges (structural) -/
def nodupB : List Edge → Bool
  | [] => true
  | a :: l => !l.contains a && nodupB l

/-- decidable form of `ClosedOriented` — the certificate the driver evaluates on the
    implementation's own faces / simplices -/
def closedOrientedB (F : List Face) : Bool :=
  let D := allDir F
  nodupB D && D.all (fun e => D.contains (e.2, e.1)) && D.all (fun e => e.1 != e.2)

/-- every `G[k]` is `F[k]` or its reversal, and the lists have the same length -/
def sameUpToReversalB (F G : List Face) : Bool :=
  G.length == F.length &&
  (List.range F.length).all fun k => G.getD k [] == F.getD k [] || G.getD k [] == (F.getD k []).reverse

/-- strict lexicographic order of index pairs -/
def LexLt (a b : Edge) : Prop := a.1 < b.1 ∨ (a.1 = b.1 ∧ a.2 < b.2)

/-- the faces traverse some common edge in opposite directions -/
def OppositeOn (f g : Face) : Prop := ∃ a b, (a, b) ∈ dirEdges f ∧ (b, a) ∈ dirEdges g

/-- the faces have no directed edge in common (every shared edge is traversed oppositely) -/
def Consistent (f g : Face) : Prop := ∀ e ∈ dirEdges g, e ∉ dirEdges f

/-- `f` or its reversal -/
def flipIf (c : Bool) (f : Face) : Face := if c then f.reverse else f

/-- `G` is a consistent reference orientation of the faces `F0` for the neighbour lists `nbrs`:
every `G[k]` is `F0[k]` or its reversal, every listed neighbour pair shares an edge and has no
directed edge in common (all their shared edges are traversed in opposite directions) -/
structure RefOrientation (nbrs : List (List Nat)) (F0 G : List Face) : Prop where
  orig : ∀ k, G.getD k [] = F0.getD k [] ∨ G.getD k [] = (F0.getD k []).reverse
  shares : ∀ u v, v ∈ nbrs.getD u [] → SharesEdge (G.getD u []) (G.getD v [])
  consistent : ∀ u v, v ∈ nbrs.getD u [] → Consistent (G.getD u []) (G.getD v [])

/-- face `k` can be reached from face 0 through the neighbour lists -/
inductive Reach (nbrs : List (List Nat)) : Nat → Prop where
  | zero : Reach nbrs 0
  | step {u v : Nat} : Reach nbrs u → v ∈ nbrs.getD u [] → Reach nbrs v

section geometric
variable {α : Type} [Scalar α]
open Scalar

/-- `v` lies on the plane `n·x + d = 0` -/
def OnPlane (n : V3 α) (d : α) (v : V3 α) : Prop := V3.dot n v + d = lit 0

/-- the triangle `v0 v1 v2` appears counter-clockwise to an observer on the side opposite to `p`
    (the tetrahedron `p v0 v1 v2` is positively oriented); for `p` inside a solid: "counter-clockwise
    as seen from outside" -/
def CcwAwayFrom (p v0 v1 v2 : V3 α) : Prop := lit 0 < V3.det3 (v0 - p) (v1 - p) (v2 - p)

/-- un-normalised right-hand normal of the first three vertices -/
def rawNormal (v0 v1 v2 : V3 α) : V3 α := V3.cross (v1 - v0) (v2 - v0)

def sgn (x : α) : Int := if lit 0 < x then 1 else if x < lit 0 then -1 else 0

/-- exact side of every vertex with respect to the plane of the face's first three vertices,
    oriented by their right-hand normal (`+1` outside, `0` on, `-1` inside) -/
def sides (verts : List (V3 α)) (face : Face) : List Int :=
  let v0 := verts.getD (face.getD 0 0) V3.zero
  let m := rawNormal v0 (verts.getD (face.getD 1 0) V3.zero) (verts.getD (face.getD 2 0) V3.zero)
  verts.map fun v => sgn (V3.dot m (v - v0))

/-- certificate "this face is a facet of the hull, listed with outward right-hand normal":
    its vertices are exactly the input points on its plane and all others are strictly inside -/
def isSupportingFacet (verts : List (V3 α)) (face : Face) : Bool :=
  let s := sides verts face
  (List.range verts.length).all fun i =>
    if face.contains i then s.getD i 1 == 0 else s.getD i 1 == -1

/-- the cycle is a strictly convex polygon run counter-clockwise about its right-hand normal:
    every consecutive corner turns left -/
def cycleConvexCcw (verts : List (V3 α)) (face : Face) : Bool :=
  let n := face.length
  let pt := fun k => verts.getD (face.getD (k % n) 0) V3.zero
  let m := rawNormal (pt 0) (pt 1) (pt 2)
  decide (3 ≤ n) && (List.range n).all fun k =>
    decide (lit 0 < V3.dot m (V3.cross (pt (k + 1) - pt k) (pt (k + 2) - pt (k + 1))))

/-- **facet of the convex hull, by a supporting plane**: there is a plane `m·x + d = 0`, `m ≠ 0`,
    with every input point on its non-positive side, such that the face consists of exactly the
    input points lying on the plane, three of which are not collinear (so the face is
    two-dimensional: a facet, not an edge or a vertex of the hull) -/
def IsHullFacet (verts : List (V3 α)) (face : Face) : Prop :=
  ∃ (m : V3 α) (d : α),
    (∀ i, i < verts.length → V3.dot m (verts.getD i V3.zero) + d ≤ lit 0) ∧
    (∀ i, i < verts.length → (i ∈ face ↔ V3.dot m (verts.getD i V3.zero) + d = lit 0)) ∧
    (∃ a ∈ face, ∃ b ∈ face, ∃ c ∈ face,
      ¬ (V3.cross (verts.getD b V3.zero - verts.getD a V3.zero) (verts.getD c V3.zero - verts.getD a V3.zero)
          = V3.zero))

/-- all indices of the face are valid vertex indices, the face has at least three of them, and
    its first three vertices are not collinear (right-hand normal has a non-zero component) -/
def faceWellFormed (verts : List (V3 α)) (face : Face) : Bool :=
  let v0 := verts.getD (face.getD 0 0) V3.zero
  let m := rawNormal v0 (verts.getD (face.getD 1 0) V3.zero) (verts.getD (face.getD 2 0) V3.zero)
  decide (3 ≤ face.length) && face.all (fun i => decide (i < verts.length)) &&
  (sgn m.x != 0 || sgn m.y != 0 || sgn m.z != 0)

/-- every triangle of `S` appears counter-clockwise from the side opposite to `p` -/
def outwardFromB (verts : List (V3 α)) (p : V3 α) (S : List Face) : Bool :=
  S.all fun s =>
    decide (lit 0 < V3.det3 (verts.getD (s.getD 0 0) V3.zero - p) (verts.getD (s.getD 1 0) V3.zero - p)
      (verts.getD (s.getD 2 0) V3.zero - p))

/-- **surface certificate** (evaluated exactly over ℚ by the driver on the implementation's own
    faces): closed oriented 2-manifold edge pairing; every face well formed, a supporting facet
    (`isSupportingFacet`: its plane has every other vertex strictly inside and exactly its own
    vertices on it) and a strictly convex counter-clockwise cycle; every vertex used by a face;
    and Euler's relation `V + F = E + 2` with `E` = half the number of face corners -/
def surfaceCert (verts : List (V3 α)) (faces : List Face) : Bool :=
  closedOrientedB faces &&
  faces.all (fun f => faceWellFormed verts f && isSupportingFacet verts f && cycleConvexCcw verts f) &&
  (List.range verts.length).all (fun i => faces.any fun f => f.contains i) &&
  decide (2 * (verts.length + faces.length) = (faces.map List.length).sum + 4)

/-- vector area `½ Σ v_i × v_{i+1}` of a closed cycle (independent of the base point) -/
def vectorArea (verts : List (V3 α)) (cyc : Face) : V3 α :=
  let n := cyc.length
  let pt := fun k => verts.getD (cyc.getD (k % n) 0) V3.zero
  V3.sdiv (V3.sum ((List.range n).map fun k => V3.cross (pt k) (pt (k + 1)))) (lit 2)

end geometric
end StructSpec
