import CoxeterVerif.Driver.Proto

namespace OpsC17

/-- driver ops of C17. `none` = unknown op. -/
def run (α : Type) [Scalar α] [Codec α] (op : String) (c : Ctx) : Option (Rd String) :=
  match op with
  | _ => none

end OpsC17
