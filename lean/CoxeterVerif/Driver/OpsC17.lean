import CoxeterVerif.Driver.Proto
import CoxeterVerif.Model.Families
import CoxeterVerif.Spec.Families
import CoxeterVerif.Generated.Planes

namespace OpsC17
open Fam

variable {α : Type} [Scalar α] [Codec α]

def pts (l : List (V3 α)) : String :=
  " ".intercalate (Out.int l.length :: l.map Out.v3)

def ptsE (r : Except String (List (V3 α))) : String :=
  match r with
  | .ok l => pts l
  | .error e => s!"E:{e}"

def tripleE (r : Except String (α × α × α)) : String :=
  match r with
  | .ok d => s!"{Out.sc d.1} {Out.sc d.2.1} {Out.sc d.2.2}"
  | .error e => s!"E:{e}"

def tableOf (k : Nat) : Table :=
  if k = 0 then Gen.fam323 else if k = 1 then Gen.fam423 else Gen.fam523

def str (c : Ctx) : Rd String := do
  let cs ← Rd.list c (Rd.nat c)
  pure (String.ofList (cs.map Char.ofNat))

def outStr (s : String) : String :=
  " ".intercalate (Out.int s.length :: s.toList.map fun ch => Out.int ch.toNat)

/-- a Python argument: `i0 i<int>` int, `i1 <scalar>` float, `i2` anything else -/
def arg (c : Ctx) : Rd (Arg α) := do
  let tag ← Rd.nat c
  if tag = 0 then do let i ← Rd.int c; pure (.int i)
  else if tag = 1 then do let x : α ← Rd.sc c; pure (.real x)
  else pure .other

/-- driver ops of C17. `none` = unknown op. -/
def run (α : Type) [Scalar α] [Codec α] (op : String) (c : Ctx) : Option (Rd String) :=
  match op with
  | "fam.mv" => some do
      -- in: planes, types, a b c ; out: n, points  (TruncationPlaneShapeFamily.make_vertices)
      let planes : List (V3 α) ← Rd.list c (Rd.v3 c)
      let types ← Rd.list c (Rd.nat c)
      let a : α ← Rd.sc c; let b : α ← Rd.sc c; let cc : α ← Rd.sc c
      pure (pts (makeVertices planes types a b cc))
  | "fam.table" => some do
      -- in: k ; out: den n planes(3n) types(n) b aLo aHi cLo cHi   (regenerated table, as scalars)
      let k ← Rd.nat c
      let T := tableOf k
      let P : List (V3 α) := T.planesS
      let z (x : Z5) : String := Out.sc (x.toScalar T.den : α)
      pure (" ".intercalate ([Out.int T.den, Out.int P.length] ++ P.map Out.v3
        ++ [Out.int T.types.length] ++ T.types.map (fun (t : Nat) => Out.int (Int.ofNat t))
        ++ [z T.b, z T.aLo, z T.aHi, z T.cLo, z T.cHi]))
  | "fam.tttable" => some do
      let M := Gen.tt
      let z (x : Z5) : String := Out.sc (x.toScalar M.den : α)
      pure s!"{z M.tLo} {z M.tHi} {z M.a} {z M.c0} {z M.c1} {Out.bool Gen.ttUses323}"
  | "fam.domain" => some do
      -- in: k a c ; out: the (a,b,c) handed to make_vertices | E:ValueError
      let k ← Rd.nat c
      let a : α ← Rd.sc c; let cc : α ← Rd.sc c
      pure (tripleE ((tableOf k).domain a cc))
  | "fam.ttdomain" => some do
      let t : α ← Rd.sc c
      pure (tripleE (Gen.tt.domain Gen.fam323 t))
  | "fam.getshape" => some do
      let k ← Rd.nat c
      let a : α ← Rd.sc c; let cc : α ← Rd.sc c
      pure (ptsE ((tableOf k).getShape a cc))
  | "fam.ttshape" => some do
      let t : α ← Rd.sc c
      pure (ptsE (Gen.tt.getShape Gen.fam323 t))
  | "fam.ngon" => some do
      -- in: n z area angle ; out: n points | E
      let n ← Rd.nat c
      let z : α ← Rd.sc c; let area : α ← Rd.sc c; let angle : α ← Rd.sc c
      pure (ptsE (ngon n z area angle))
  | "fam.uniform" => some do
      -- in: kind n ; kind 0 n-gon family, 1 prism, 2 antiprism, 3 pyramid, 4 dipyramid
      let kind ← Rd.nat c
      let n ← Rd.nat c
      let r : Except String (List (V3 α)) :=
        if kind = 0 then regularNGon n else if kind = 1 then prism n
        else if kind = 2 then antiprism n else if kind = 3 then pyramid n else dipyramid n
      pure (ptsE r)
  | "fam.doi" => some do
      -- in: doi as char codes ; out: k, then k strings as (len, codes) | E:KeyError
      let s ← str c
      match Gen.doi.get s with
      | .ok names => pure (" ".intercalate (Out.int names.length :: names.map outStr))
      | .error e => pure s!"E:{e}"
  | "spec.fam.vertices" => some do
      -- in: planes, types, a b c ; out: exact vertex set of the half-space intersection (use Q)
      let planes : List (V3 α) ← Rd.list c (Rd.v3 c)
      let types ← Rd.list c (Rd.nat c)
      let a : α ← Rd.sc c; let b : α ← Rd.sc c; let cc : α ← Rd.sc c
      pure (pts (exactVertices (rows planes types a b cc)))
  | "fam.getshapearg" => some do
      -- in: k, a, c as Python arguments ; out: points | E:kind
      let k ← Rd.nat c
      let a : Arg α ← arg c; let cc : Arg α ← arg c
      pure (ptsE ((tableOf k).getShapeArg a cc))
  | "fam.ttshapearg" => some do
      let t : Arg α ← arg c
      pure (ptsE (Gen.tt.getShapeArg Gen.fam323 t))
  | "fam.uniformarg" => some do
      -- in: kind, n as a Python argument ; out: points | E:kind
      let kind ← Rd.nat c
      let n : Arg α ← arg c
      pure (ptsE (uniformGetShape kind n))
  | "spec.fam.solid" => some do
      -- in: kind (1 prism, 2 antiprism, 3 pyramid, 4 dipyramid), n, vertex array ;
      -- out: Spec.vol and Spec.first of the cones over the family's boundary triangulation
      let kind ← Rd.nat c
      let n ← Rd.nat c
      let P : List (V3 α) ← Rd.list c (Rd.v3 c)
      let S := if kind = 1 then prismSurface n P else if kind = 2 then antiprismSurface n P
               else if kind = 3 then pyramidSurface n P else dipyramidSurface n P
      pure s!"{Out.sc (solidVolume S)} {Out.v3 (solidFirst S)}"
  | "spec.fam.gapcheck" => some do
      -- in: k (0: 323+, 1: 423), a b c ; out: halfspaceGap of the regenerated table's rows (use Q: exact)
      let k ← Rd.nat c
      let a : α ← Rd.sc c; let b : α ← Rd.sc c; let cc : α ← Rd.sc c
      let T := tableOf k
      pure (Out.bool (T.rational && halfspaceGap (rows (T.planesS : List (V3 α)) T.types a b cc)))
  | "spec.fam.shoelace" => some do
      let P : List (V3 α) ← Rd.list c (Rd.v3 c)
      pure (Out.sc (shoelace P))
  | _ => none

end OpsC17
