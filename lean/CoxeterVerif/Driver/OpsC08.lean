import CoxeterVerif.Driver.Proto
import CoxeterVerif.Driver.OpsC03
import CoxeterVerif.Driver.OpsC11
import CoxeterVerif.Model.Mutable
import CoxeterVerif.Model.Setters
import CoxeterVerif.Model.SettersHeap

namespace OpsC08
open Setters Mut

/-- a string as reply tokens: length, then the code points -/
def outStr (s : String) : String :=
  Out.ints ((s.length : Int) :: s.toList.map (fun ch => (ch.toNat : Int)))

def outStrs (l : List String) : String :=
  " ".intercalate (Out.int l.length :: l.map outStr)

/-- an external getter value: `i0 <value>` = returned, `i1` NotImplementedError, `i2` RuntimeError,
    `i3` ValueError, `i4` anything else -/
def rdExt {α} [Codec α] (c : Ctx) : Rd (Except String α) := do
  let code ← Rd.nat c
  if code = 0 then
    let v : α ← Rd.sc c
    pure (.ok v)
  else if code = 1 then pure (.error "NotImplementedError")
  else if code = 2 then pure (.error "RuntimeError")
  else if code = 3 then pure (.error "ValueError")
  else pure (.error "Exception")

def nth {β} (l : List β) (i : Nat) : Rd β :=
  match l[i]? with
  | some x => pure x
  | none => throw s!"property index {i} out of range"

def reply (r : Except String String) : String :=
  match r with
  | .ok s => s
  | .error k => s!"E:{k}"

/-- a getter value in a reply: `i0 value` or `i1` (raises) -/
def outGet {α} [Codec α] (r : Except String α) : String :=
  match r with
  | .ok v => s!"i0 {Out.sc v}"
  | .error _ => "i1"

/-- driver ops of C08. `none` = unknown op. -/
def run (α : Type) [Scalar α] [Codec α] (op : String) (c : Ctx) : Option (Rd String) :=
  match op with
  | "setter.factor" => some do
      -- in: degree(int) current target ; out: scale factor | E:ValueError
      let deg ← Rd.nat c
      let cur : α ← Rd.sc c
      let tgt : α ← Rd.sc c
      match Mut.setterFactor deg cur tgt with
      | .ok k => pure (Out.sc k)
      | .error e => pure s!"E:{e}"
  | "setter.props" => some do
      -- in: class index ; out: class name, scalar property names, vector property names
      let i ← Rd.nat c
      let cls ← nth Cls.all i
      pure s!"{outStr cls.name} {outStrs (scalarProps cls)} {outStrs (vectorProps cls)}"
  | "setter.cp" => some do
      -- in: prop index, <cpstate>, ext, target ; out: post-state, read-back | E:kind
      let pi ← Rd.nat c
      let p ← nth P3Prop.all pi
      let s : CPState α ← OpsC03.rdState c
      let ext : Except String α ← rdExt c
      let v : α ← Rd.sc c
      -- after the assignment an external getter returns the target iff it is homogeneous: the
      -- harness compares that on the live object; here it is not re-evaluated
      pure <| reply do
        let s' ← ConvexPolyhedron.set (fun _ _ => ext) p s v
        pure s!"{OpsC03.outState s'} {outGet (ConvexPolyhedron.get (fun _ _ => .error "external") p s')}"
  | "setter.cp.get" => some do
      -- in: prop index, <cpstate>, ext ; out: the model's getter
      let pi ← Rd.nat c
      let p ← nth P3Prop.all pi
      let s : CPState α ← OpsC03.rdState c
      let ext : Except String α ← rdExt c
      pure <| reply do
        let g ← ConvexPolyhedron.get (fun _ _ => ext) p s
        pure (Out.sc g)
  | "setter.cp.centroid" => some do
      -- certificate of the hypothesis `s.centroid = CP.centroid s.tris s.volume` of `cp_set_closed_reads_back`:
      -- in: <cpstate> ; out: the recomputed centroid (the harness compares it with the cached one)
      let s : CPState α ← OpsC03.rdState c
      pure (Out.v3 (CP.centroid s.tris s.volume))
  | "setter.heap" => some do
      -- in: class index, mutator (0 `_rescale` = every size setter, 1 centre setter)
      -- out: the attribute paths of the class's arrays, then per attribute 0 keep | 1 in place | 2 re-bound to a fresh array
      let i ← Rd.nat c
      let cls ← nth Cls.all i
      let m ← Rd.nat c
      let mu := if m = 0 then SettersHeap.Mutator.rescale else SettersHeap.Mutator.setCentre
      let kinds := (SettersHeap.pattern cls mu).map (fun k => (k.code : Int))
      pure s!"{outStrs (SettersHeap.fieldNames cls)} {Out.ints kinds}"
  | "setter.ph" => some do
      let pi ← Rd.nat c
      let p ← nth P3Prop.all pi
      let verts ← Rd.list c (Rd.v3 c)
      let faces ← Rd.list c (Rd.list c (Rd.nat c))
      let eqN ← Rd.list c (Rd.v3 c)
      let eqD ← Rd.list c (Rd.sc c)
      let s : PHState α := ⟨verts, faces, eqN, eqD⟩
      let ext : Except String α ← rdExt c
      let v : α ← Rd.sc c
      pure <| reply do
        let s' ← Polyhedron.set (fun _ _ => ext) p s v
        let vs := " ".intercalate (s'.verts.map Out.v3)
        let en := " ".intercalate (s'.eqN.map Out.v3)
        pure s!"{vs} {en} {Out.scs s'.eqD} {Out.sc s'.volume} {Out.sc s'.surfaceArea} {outGet (Polyhedron.get (fun _ _ => .error "external") p s')}"
  | "setter.pg" => some do
      let pi ← Rd.nat c
      let p ← nth P2Prop.all pi
      let verts ← Rd.list c (Rd.v3 c)
      let normal : V3 α ← Rd.v3 c
      let s : PGState α := ⟨verts, normal⟩
      let ext : Except String α ← rdExt c
      let v : α ← Rd.sc c
      pure <| reply do
        let s' ← Polygon.set (fun _ _ => ext) p s v
        let vs := " ".intercalate (s'.verts.map Out.v3)
        pure s!"{vs} {Out.v3 s'.normal} {Out.sc s'.area} {Out.sc s'.perimeter} {outGet (Polygon.get (fun _ _ => .error "external") p s')}"
  | "setter.spg" => some do
      let pi ← Rd.nat c
      let p ← nth SPGProp.all pi
      let verts ← Rd.list c (Rd.v3 c)
      let normal : V3 α ← Rd.v3 c
      let radius : α ← Rd.sc c
      let s : SPGState α := ⟨⟨verts, normal⟩, radius⟩
      let ext : Except String α ← rdExt c
      let v : α ← Rd.sc c
      pure <| reply do
        let s' ← Spheropolygon.set (fun _ _ => ext) p s v
        let vs := " ".intercalate (s'.core.verts.map Out.v3)
        pure s!"{vs} {Out.v3 s'.core.normal} {Out.sc s'.radius} {Out.sc s'.area} {Out.sc s'.perimeter} {outGet (Spheropolygon.get (fun _ _ => .error "external") p s')}"
  | "setter.sph" => some do
      -- in: prop index, <cpstate of the core>, radius, face intersections, ext, target
      -- out: post core state, radius, the three edge-sum getters, read-back
      let pi ← Rd.nat c
      let p ← nth SPHProp.all pi
      let core : CPState α ← OpsC03.rdState c
      let radius : α ← Rd.sc c
      let fi ← Rd.list c (OpsC11.rdFaceIx c)
      let s : SPHState α := ⟨core, radius⟩
      let ext : Except String α ← rdExt c
      let v : α ← Rd.sc c
      pure <| reply do
        let s' ← Spheropolyhedron.set fi (fun _ _ => ext) p s v
        let g := fun q => Spheropolyhedron.get fi (fun _ _ => .error "external") q s'
        pure s!"{OpsC03.outState s'.core} {Out.sc s'.radius} {outGet (g .volume)} {outGet (g .surfaceArea)} {outGet (g .meanCurvature)} {outGet (g p)}"
  | "setter.sph.get" => some do
      -- in: prop index, <cpstate>, radius, fi ; out: the model's getter on this state
      let pi ← Rd.nat c
      let p ← nth SPHProp.all pi
      let core : CPState α ← OpsC03.rdState c
      let radius : α ← Rd.sc c
      let fi ← Rd.list c (OpsC11.rdFaceIx c)
      pure <| reply do
        let g ← Spheropolyhedron.get fi (fun _ _ => .error "external") p ⟨core, radius⟩
        pure (Out.sc g)
  | "setter.circle" => some do
      -- in: prop index, radius, centre, target ; out: radius centre read-back
      let pi ← Rd.nat c
      let p ← nth CircleProp.all pi
      let r : α ← Rd.sc c
      let cen : V3 α ← Rd.v3 c
      let v : α ← Rd.sc c
      pure <| reply do
        let s' ← CircleS.set p ⟨r, cen⟩ v
        pure s!"{Out.sc s'.radius} {Out.v3 s'.cen} {outGet (CircleS.get p s')}"
  | "setter.sphere" => some do
      let pi ← Rd.nat c
      let p ← nth SphereProp.all pi
      let r : α ← Rd.sc c
      let cen : V3 α ← Rd.v3 c
      let v : α ← Rd.sc c
      pure <| reply do
        let s' ← SphereS.set p ⟨r, cen⟩ v
        pure s!"{Out.sc s'.radius} {Out.v3 s'.cen} {outGet (SphereS.get p s')}"
  | "setter.ellipse" => some do
      -- in: prop index, a b, centre, ellipe value before, ellipe value after, target
      let pi ← Rd.nat c
      let p ← nth EllipseProp.all pi
      let a : α ← Rd.sc c
      let b : α ← Rd.sc c
      let cen : V3 α ← Rd.v3 c
      let e0 : α ← Rd.sc c
      let e1 : α ← Rd.sc c
      let v : α ← Rd.sc c
      pure <| reply do
        let s' ← EllipseS.set (fun _ => e0) p ⟨a, b, cen⟩ v
        pure s!"{Out.sc s'.a} {Out.sc s'.b} {Out.v3 s'.cen} {outGet (EllipseS.get (fun _ => e1) p s')}"
  | "setter.ellipsoid" => some do
      -- in: prop index, a b c, centre, ellipeinc / ellipkinc values before, after, target
      let pi ← Rd.nat c
      let p ← nth EllipsoidProp.all pi
      let a : α ← Rd.sc c
      let b : α ← Rd.sc c
      let cc : α ← Rd.sc c
      let cen : V3 α ← Rd.v3 c
      let ei0 : α ← Rd.sc c
      let ki0 : α ← Rd.sc c
      let ei1 : α ← Rd.sc c
      let ki1 : α ← Rd.sc c
      let v : α ← Rd.sc c
      pure <| reply do
        let s' ← EllipsoidS.set (fun _ _ => ei0) (fun _ _ => ki0) p ⟨a, b, cc, cen⟩ v
        pure s!"{Out.sc s'.a} {Out.sc s'.b} {Out.sc s'.c} {Out.v3 s'.cen} {outGet (EllipsoidS.get (fun _ _ => ei1) (fun _ _ => ki1) p s')}"
  | "setter.curved.centre" => some do
      -- in: class index (6 circle, 7 ellipse, 8 sphere, 9 ellipsoid), the radii (1/2/1/3), centre, new centre
      let ci ← Rd.nat c
      if ci = 6 then
        let r : α ← Rd.sc c; let cen : V3 α ← Rd.v3 c; let t : V3 α ← Rd.v3 c
        let s' := CircleS.setCentre ⟨r, cen⟩ t
        pure s!"{Out.sc s'.radius} {Out.v3 s'.cen}"
      else if ci = 8 then
        let r : α ← Rd.sc c; let cen : V3 α ← Rd.v3 c; let t : V3 α ← Rd.v3 c
        let s' := SphereS.setCentre ⟨r, cen⟩ t
        pure s!"{Out.sc s'.radius} {Out.v3 s'.cen}"
      else if ci = 7 then
        let a : α ← Rd.sc c; let b : α ← Rd.sc c; let cen : V3 α ← Rd.v3 c; let t : V3 α ← Rd.v3 c
        let s' := EllipseS.setCentre ⟨a, b, cen⟩ t
        pure s!"{Out.sc s'.a} {Out.sc s'.b} {Out.v3 s'.cen}"
      else
        let a : α ← Rd.sc c; let b : α ← Rd.sc c; let cc : α ← Rd.sc c
        let cen : V3 α ← Rd.v3 c; let t : V3 α ← Rd.v3 c
        let s' := EllipsoidS.setCentre ⟨a, b, cc, cen⟩ t
        pure s!"{Out.sc s'.a} {Out.sc s'.b} {Out.sc s'.c} {Out.v3 s'.cen}"
  | _ => none

end OpsC08
