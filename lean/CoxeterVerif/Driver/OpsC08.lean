import CoxeterVerif.Driver.Proto
import CoxeterVerif.Model.Mutable

namespace OpsC08

/-- driver ops of C08. `none` = unknown op. -/
def run (α : Type) [Scalar α] [Codec α] (op : String) (c : Ctx) : Option (Rd String) :=
  match op with
  | "setter.factor" => some do
      -- in: degree(int) current target ; out: scale factor | E:ValueError
      let deg ← Rd.nat c
      let cur : α ← Rd.sc c
      let tgt : α ← Rd.sc c
      match Mut.setterFactor deg cur tgt with
      | .ok k => pure (Out.sc k)
      | .error e => pure s!"E:{e}"
  | _ => none

end OpsC08
