import CoxeterVerif.Driver.Proto
import CoxeterVerif.Model.Constructors
import CoxeterVerif.Spec.Constructors

namespace OpsC15
open C15

def rdP2 {α} [Codec α] (c : Ctx) : Rd (P2 α) := do
  let x ← Rd.sc c; let y ← Rd.sc c; pure ⟨x, y⟩

def rdBool (c : Ctx) : Rd Bool := do let v ← Rd.int c; pure (v != 0)

/-- optional normal: flag then 3 scalars (always present) -/
def rdNormal {α} [Codec α] (c : Ctx) : Rd (Option (V3 α)) := do
  let has ← rdBool c
  let n ← Rd.v3 c
  pure (if has then some n else none)

def outV3s {α} [Codec α] (l : List (V3 α)) : String := " ".intercalate (l.map Out.v3)

def srcInt : Src → Int
  | .fresh => 0
  | .caller => 1

/-- reply of a model decision: `E:<kind>` or the payload -/
def reply {β} (r : Except String β) (f : β → String) : String :=
  match r with
  | .error e => s!"E:{e}"
  | .ok v => f v

/-- slack of the two `np.isclose` decisions of `Polygon.__init__` (positive = passes):
    normal test `tol − ||c·n| − 1|` (0 if no normal supplied) and the coplanarity test
    `min_v (ptol·extent − |(v − v0)·n|)` (744f807) with the normal the constructor would use. -/
def slacks {α} [Scalar α] (ncols : Nat) (rows : List (V3 α)) (normal : Option (V3 α)) (ptol : α) : α × α :=
  let verts := rows.map (pad ncols)
  let cc := cornerCross verts
  let computed := V3.sdiv cc (V3.norm cc)
  let (n, s1) : V3 α × α := match normal with
    | none => (computed, Scalar.lit 1)
    | some nv =>
      let nn := V3.sdiv nv (V3.norm nv)
      (nn, (atolDefault + rtolDefault * Scalar.abs (Scalar.lit 1))
            - Scalar.abs (Scalar.abs (V3.dot computed nn) - Scalar.lit 1))
  -- 744f807: |(v − v0)·n| <= ptol * extent
  let v0 := verts.getD 0 V3.zero
  let tol := ptol * planarExtent verts
  let s2 := verts.foldl (fun m v => Scalar.min m (tol - Scalar.abs (V3.dot (v - v0) n))) tol
  (s1, s2)

/-- driver ops of C15. `none` = unknown op. -/
def run (α : Type) [Scalar α] [Codec α] (op : String) (c : Ctx) : Option (Rd String) :=
  match op with
  | "c15.polygon" => some do
      -- in: ndim ncols rows hasNormal normal(3) ptol testSimple aligned sweepAsserted ; out: normal(3) vsrc nsrc | E:
      -- (sweepAsserted: the external sweep failed an internal assertion on the prepared vertices — caught, "not simple")
      let ndim ← Rd.nat c; let ncols ← Rd.nat c
      let rows : List (V3 α) ← Rd.list c (Rd.v3 c)
      let normal ← rdNormal c
      let ptol : α ← Rd.sc c
      let ts ← rdBool c
      let aligned : List (V3 α) ← Rd.list c (Rd.v3 c)
      let asserted ← rdBool c
      let r := Polygon.newSweep ndim ncols rows normal ptol ts (fun _ _ => aligned) (fun _ => asserted)
      pure (reply r fun p => s!"{Out.v3 p.normal} {Out.int (srcInt p.verticesSrc)} {Out.int (srcInt p.normalSrc)}")
  | "c15.slacks" => some do
      -- in: ncols rows hasNormal normal(3) ptol ; out: normalSlack planarSlack
      let ncols ← Rd.nat c
      let rows : List (V3 α) ← Rd.list c (Rd.v3 c)
      let normal ← rdNormal c
      let ptol : α ← Rd.sc c
      let s := slacks ncols rows normal ptol
      pure s!"{Out.sc s.1} {Out.sc s.2}"
  | "c15.simple" => some do
      -- in: planar (aligned) vertices ; out: `_is_simple` of the model
      let pl : List (V3 α) ← Rd.list c (Rd.v3 c)
      pure (Out.bool (isSimple pl))
  | "c15.convexpolygon" => some do
      -- in: ndim ncols rows hasNormal normal(3) ptol hullCount alignedCentred ; out: normal(3) n vertices(3n) | E:
      let ndim ← Rd.nat c; let ncols ← Rd.nat c
      let rows : List (V3 α) ← Rd.list c (Rd.v3 c)
      let normal ← rdNormal c
      let ptol : α ← Rd.sc c
      let hc ← Rd.nat c
      let aligned : List (V3 α) ← Rd.list c (Rd.v3 c)
      let r := ConvexPolygon.new ndim ncols rows normal ptol (fun _ _ => hc) (fun _ _ => aligned)
      pure (reply r fun p => s!"{Out.v3 p.normal} {Out.int p.vertices.length} {outV3s p.vertices}")
  | "c15.spheropolygon" => some do
      -- in: ndim ncols rows radius hasNormal normal(3) hullCount alignedCentred ; out: radius normal(3) n vertices | E:
      let ndim ← Rd.nat c; let ncols ← Rd.nat c
      let rows : List (V3 α) ← Rd.list c (Rd.v3 c)
      let radius : α ← Rd.sc c
      let normal ← rdNormal c
      let hc ← Rd.nat c
      let aligned : List (V3 α) ← Rd.list c (Rd.v3 c)
      let r := ConvexSpheropolygon.new ndim ncols rows radius normal (fun _ _ => hc) (fun _ _ => aligned)
      pure (reply r fun s =>
        s!"{Out.sc s.radius} {Out.v3 s.polygon.normal} {Out.int s.polygon.vertices.length} {outV3s s.polygon.vertices}")
  | "c15.reorder" => some do
      -- in: alignedCentred ; out: the permutation `vert_order`
      let rot : List (V3 α) ← Rd.list c (Rd.v3 c)
      let idx : List Int := (List.range rot.length).map Int.ofNat
      pure (Out.ints (reorder rot idx))
  | "c15.anglegap" => some do
      -- in: alignedCentred ; out: the sort keys (angle, distance) per vertex, for the near-tie filter
      let rot : List (V3 α) ← Rd.list c (Rd.v3 c)
      pure (" ".intercalate ((sortKeys rot).map fun k => s!"{Out.sc k.1} {Out.sc k.2}"))
  | "c15.convexpolyhedron" => some do
      -- in: rows hull (count, -1 = QhullError, -2 = scipy's ValueError on nan / empty input) ; out: n src | E:
      let rows : List (V3 α) ← Rd.list c (Rd.v3 c)
      let h ← Rd.int c
      let hull : List (V3 α) → Except String Nat := fun _ =>
        if h == -2 then .error "ValueError" else if h < 0 then .error "QhullError" else .ok h.toNat
      pure (reply (ConvexPolyhedron.new rows hull) fun p =>
        s!"{Out.int p.vertices.length} {Out.int (srcInt p.verticesSrc)}")
  | "c15.spheropolyhedron" => some do
      let rows : List (V3 α) ← Rd.list c (Rd.v3 c)
      let radius : α ← Rd.sc c
      let h ← Rd.int c
      let hull : List (V3 α) → Except String Nat := fun _ =>
        if h == -2 then .error "ValueError" else if h < 0 then .error "QhullError" else .ok h.toNat
      pure (reply (ConvexSpheropolyhedron.new rows radius hull) fun s =>
        s!"{Out.sc s.radius} {Out.int s.polyhedron.vertices.length}")
  | "c15.circle" => some do
      let r : α ← Rd.sc c; let ce : V3 α ← Rd.v3 c
      pure (reply (Circle.new r ce) fun o => s!"{Out.sc o.radius} {Out.v3 o.centroid} {Out.int (srcInt o.centroidSrc)}")
  | "c15.sphere" => some do
      let r : α ← Rd.sc c; let ce : V3 α ← Rd.v3 c
      pure (reply (Sphere.new r ce) fun o => s!"{Out.sc o.radius} {Out.v3 o.centroid} {Out.int (srcInt o.centroidSrc)}")
  | "c15.ellipse" => some do
      let a : α ← Rd.sc c; let b : α ← Rd.sc c; let ce : V3 α ← Rd.v3 c
      pure (reply (Ellipse.new a b ce) fun o =>
        s!"{Out.sc o.a} {Out.sc o.b} {Out.v3 o.centroid} {Out.int (srcInt o.centroidSrc)}")
  | "c15.ellipsoid" => some do
      let a : α ← Rd.sc c; let b : α ← Rd.sc c; let cc : α ← Rd.sc c; let ce : V3 α ← Rd.v3 c
      pure (reply (Ellipsoid.new a b cc ce) fun o =>
        s!"{Out.sc o.a} {Out.sc o.b} {Out.sc o.c} {Out.v3 o.centroid} {Out.int (srcInt o.centroidSrc)}")
  | "c15.alloc" => some do
      -- allocation trace of a constructor with /repo's conversion table.
      -- in: cls ncols vkind nkind fkind nfaces ckind   (kinds: 0 list/tuple, 1 float64 ndarray, 2 other ndarray,
      --     nkind -1 = no normal; fkind 0 nested lists, 1 list of ndarrays, 2 one 2-D ndarray)
      -- caller blocks: vertices 1, normal 2, centre 3, 2-D faces 4, face arrays 10+i; allocation starts at 1000
      -- out: vertices normal centre equations (block or -1) k writes… m faces…
      let cls ← Rd.int c; let ncols ← Rd.nat c
      let vk ← Rd.int c; let nk ← Rd.int c; let fk ← Rd.int c; let nf ← Rd.nat c; let ck ← Rd.int c
      let arg (k : Int) (blk : Nat) : ArgKind := if k == 1 then .nd true blk else if k == 2 then .nd false blk else .seq
      let s0 : Alloc := ⟨1000, []⟩
      let verts := arg vk 1
      let normal : Option ArgKind := if nk < 0 then none else some (arg nk 2)
      let faces : FacesKind := if fk == 1 then .arrays ((List.range nf).map (10 + ·)) else if fk == 2 then .array2d 4 else .nested
      let out (v n ce e : Int) (w : List Nat) (f : List Nat) : String :=
        Out.ints ([v, n, ce, e, Int.ofNat w.length] ++ w.map Int.ofNat ++ [Int.ofNat f.length] ++ f.map Int.ofNat)
      if cls == 0 then
        let r := Polygon.alloc repoSites ncols verts normal s0
        pure (out r.1.vertices r.1.normal (-1) (-1) r.2.writes [])
      else if cls == 1 || cls == 2 then
        let r := ConvexPolygon.alloc repoSites ncols verts normal s0
        pure (out r.1.vertices r.1.normal (-1) (-1) r.2.writes [])
      else if cls == 3 then
        let r := Polyhedron.alloc repoSites verts faces nf s0
        pure (out r.1.vertices (-1) (-1) r.1.equations r.2.writes r.1.faces)
      else if cls == 4 || cls == 5 then
        let r := ConvexPolyhedron.alloc repoSites verts nf s0
        pure (out r.1.vertices (-1) (-1) r.1.equations r.2.writes r.1.faces)
      else
        let cu : Curved := if cls == 6 then .circle else if cls == 7 then .sphere else if cls == 8 then .ellipse else .ellipsoid
        let r := Curved.alloc repoSites cu (arg ck 3) s0
        pure (out (-1) (-1) r.1 (-1) r.2.writes [])
  | "spec.c15.simple" => some do
      -- in: 2-D points ; out: Spec.simple  Spec.edgesOK  Spec.distinct
      let pts : List (P2 α) ← Rd.list c (rdP2 c)
      pure s!"{Out.bool (Spec.simple pts)} {Out.bool (Spec.edgesOK pts)} {Out.bool (Spec.distinct pts)}"
  | "spec.c15.sameturns" => some do
      let pts : List (P2 α) ← Rd.list c (rdP2 c)
      pure (Out.bool (Spec.sameTurns pts))
  | "spec.c15.segmeet" => some do
      let a : P2 α ← rdP2 c; let b : P2 α ← rdP2 c; let cc : P2 α ← rdP2 c; let d : P2 α ← rdP2 c
      pure (Out.bool (Spec.segMeet a b cc d))
  | "spec.c15.convexpos2" => some do
      let pts : List (P2 α) ← Rd.list c (rdP2 c)
      pure (Out.bool (Spec.convexPosition2 pts))
  | "spec.c15.ccw" => some do
      -- in: normal vertices ; out: Spec.ccwConvex
      let n : V3 α ← Rd.v3 c
      let vs : List (V3 α) ← Rd.list c (Rd.v3 c)
      pure (Out.bool (Spec.ccwConvex n vs))
  | _ => none

end OpsC15
