import CoxeterVerif.Driver.Proto

namespace OpsC15

/-- driver ops of C15. `none` = unknown op. -/
def run (α : Type) [Scalar α] [Codec α] (op : String) (c : Ctx) : Option (Rd String) :=
  match op with
  | _ => none

end OpsC15
