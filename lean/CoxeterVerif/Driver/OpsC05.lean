import CoxeterVerif.Driver.Proto

namespace OpsC05

/-- driver ops of C05. `none` = unknown op. -/
def run (α : Type) [Scalar α] [Codec α] (op : String) (c : Ctx) : Option (Rd String) :=
  match op with
  | _ => none

end OpsC05
