import CoxeterVerif.Driver.Proto
import CoxeterVerif.Model.Inside3D
import CoxeterVerif.Spec.Inside3D

namespace OpsC05
open Inside3D

namespace Rd5
def plane {α} [Codec α] (c : Ctx) : Rd (Plane α) := do
  let n ← Rd.v3 c; let d ← Rd.sc c; pure ⟨n, d⟩
/-- sparse weights: list of (vertex index, weight); returns (weights, selected vertices) -/
def sparse {α} [Scalar α] [Codec α] (c : Ctx) (V : Array (V3 α)) : Rd (List α × List (V3 α)) := do
  let pairs ← Rd.list c (do let i ← Rd.nat c; let w ← Rd.sc (α := α) c; pure (i, w))
  pure (pairs.map (·.2), pairs.map fun iw => V.getD iw.1 V3.zero)
end Rd5

/-- driver ops of C05. `none` = unknown op. -/
def run (α : Type) [Scalar α] [Codec α] (op : String) (c : Ctx) : Option (Rd String) :=
  match op with
  | "in3.cp" => some do
      -- in: eqs, points ; out: one bool per point
      let eqs : List (Plane α) ← Rd.list c (Rd5.plane c)
      let pts : List (V3 α) ← Rd.list c (Rd.v3 c)
      pure (Out.bools (CP.isInside eqs pts))
  | "in3.poly" => some do
      -- in: surface triangles, points ; out: one bool per point, then the winding sums
      let S : List (Tri α) ← Rd.list c (Rd.tri c)
      let pts : List (V3 α) ← Rd.list c (Rd.v3 c)
      pure s!"{Out.bools (Poly.isInside S pts)} {Out.ints (pts.map (Poly.windingSum S))}"
  | "in3.sphere" => some do
      let r : α ← Rd.sc c
      let cen : V3 α ← Rd.v3 c
      let pts : List (V3 α) ← Rd.list c (Rd.v3 c)
      pure (Out.bools (Sphere.isInside r cen pts))
  | "in3.ellipsoid" => some do
      let a : α ← Rd.sc c; let b : α ← Rd.sc c; let cc : α ← Rd.sc c
      let cen : V3 α ← Rd.v3 c
      let pts : List (V3 α) ← Rd.list c (Rd.v3 c)
      pure (Out.bools (Ellipsoid.isInside a b cc cen pts))
  | "in3.sphero" => some do
      -- in: r, eqs, faces (vertex lists), flag (0: prisms follow / else: construction raised), points
      let r : α ← Rd.sc c
      let eqs : List (Plane α) ← Rd.list c (Rd5.plane c)
      let faces : List (List (V3 α)) ← Rd.list c (Rd.list c (Rd.v3 c))
      let flag ← Rd.int c
      let prisms : Except String (List (List (Plane α))) ←
        if flag == 0 then do
          let ps ← Rd.list c (Rd.list c (Rd5.plane c))
          pure (Except.ok ps)
        else pure (Except.error "PrismConstruction")
      let pts : List (V3 α) ← Rd.list c (Rd.v3 c)
      match Sphero.isInside r eqs faces prisms pts with
      | .ok bs =>
        let singles := match prisms with
          | .ok ps => pts.map (Sphero.isInside1 r eqs faces ps)
          | .error _ => []
        pure s!"{Out.bools bs} {Out.bools singles}"
      | .error e => pure s!"E:{e}"
  | "spec.in3.hull" => some do
      -- in: V, cases (sparse weights, p) ; out per case: min w, Σw, (comb − Σw·p)(3)
      let V : List (V3 α) ← Rd.list c (Rd.v3 c)
      let Va := V.toArray
      let cases ← Rd.list c (do let wv ← Rd5.sparse c Va; let p ← Rd.v3 (α := α) c; pure (wv, p))
      pure (" ".intercalate (cases.map fun cs =>
        let r := Spec.In3D.hullCert cs.1.1 cs.1.2 cs.2
        s!"{Out.sc r.1} {Out.sc r.2.1} {Out.v3 r.2.2}"))
  | "spec.in3.plane" => some do
      -- in: V, cases (n, d, p) ; out per case: max_v (n·v+d), n·p+d
      let V : List (V3 α) ← Rd.list c (Rd.v3 c)
      let cases ← Rd.list c (do let n ← Rd.v3 (α := α) c; let d ← Rd.sc (α := α) c; let p ← Rd.v3 (α := α) c; pure (n, d, p))
      pure (" ".intercalate (cases.map fun cs =>
        let r := Spec.In3D.planeCert cs.1 cs.2.1 V cs.2.2
        s!"{Out.sc r.1} {Out.sc r.2}"))
  | "spec.in3.tets" => some do
      -- in: tets, cases (indices of candidate tets, p) ; out per case: number of candidate tets containing p
      let Ts : List (Tet α) ← Rd.list c (Rd.tet c)
      let Ta := Ts.toArray
      let cases ← Rd.list c (do let idx ← Rd.list c (Rd.nat c); let p ← Rd.v3 (α := α) c; pure (idx, p))
      pure (Out.ints (cases.map fun cs =>
        let sel := cs.1.filterMap fun i => Ta[i]?
        (Spec.In3D.countTets sel cs.2 : Int)))
  | "spec.in3.ball" => some do
      let r : α ← Rd.sc c
      let cen : V3 α ← Rd.v3 c
      let pts : List (V3 α) ← Rd.list c (Rd.v3 c)
      pure (Out.bools (pts.map (Spec.In3D.inBall r cen)))
  | "spec.in3.ellipsoid" => some do
      let a : α ← Rd.sc c; let b : α ← Rd.sc c; let cc : α ← Rd.sc c
      let cen : V3 α ← Rd.v3 c
      let pts : List (V3 α) ← Rd.list c (Rd.v3 c)
      pure (Out.bools (pts.map (Spec.In3D.inEllipsoid a b cc cen)))
  | "spec.in3.near" => some do
      -- in: V, cases (sparse weights of q, p) ; out per case: min w, Σw, |p − q|²
      let V : List (V3 α) ← Rd.list c (Rd.v3 c)
      let Va := V.toArray
      let cases ← Rd.list c (do let wv ← Rd5.sparse c Va; let p ← Rd.v3 (α := α) c; pure (wv, p))
      pure (" ".intercalate (cases.map fun cs =>
        let r := Spec.In3D.nearCert cs.1.1 cs.1.2 cs.2
        s!"{Out.sc r.1} {Out.sc r.2.1} {Out.sc r.2.2}"))
  | "spec.in3.far" => some do
      -- in: V, cases (q, p) ; out per case: max_v (p−q)·(v−q), |p − q|²
      let V : List (V3 α) ← Rd.list c (Rd.v3 c)
      let cases ← Rd.list c (do let q ← Rd.v3 (α := α) c; let p ← Rd.v3 (α := α) c; pure (q, p))
      pure (" ".intercalate (cases.map fun cs =>
        let r := Spec.In3D.farCert cs.1 V cs.2
        s!"{Out.sc r.1} {Out.sc r.2}"))
  | _ => none

end OpsC05
