import CoxeterVerif.Driver.Proto
import CoxeterVerif.Model.Inside3D
import CoxeterVerif.Spec.Inside3D
import CoxeterVerif.Spec.Inside3DCheck

namespace OpsC05
open Inside3D

namespace Rd5
def plane {α} [Codec α] (c : Ctx) : Rd (Plane α) := do
  let n ← Rd.v3 c; let d ← Rd.sc c; pure ⟨n, d⟩
/-- sparse weights: list of (vertex index, weight); returns (weights, selected vertices) -/
def sparse {α} [Scalar α] [Codec α] (c : Ctx) (V : Array (V3 α)) : Rd (List α × List (V3 α)) := do
  let pairs ← Rd.list c (do let i ← Rd.nat c; let w ← Rd.sc (α := α) c; pure (i, w))
  pure (pairs.map (·.2), pairs.map fun iw => V.getD iw.1 V3.zero)
end Rd5

/-- driver ops of C05. `none` = unknown op. -/
def run (α : Type) [Scalar α] [Codec α] (op : String) (c : Ctx) : Option (Rd String) :=
  match op with
  | "in3.cp" => some do
      -- in: eqs, points ; out: one bool per point
      let eqs : List (Plane α) ← Rd.list c (Rd5.plane c)
      let pts : List (V3 α) ← Rd.list c (Rd.v3 c)
      pure (Out.bools (CP.isInside eqs pts))
  | "in3.poly" => some do
      -- in: surface triangles, points ; out: one bool per point, then the winding sums
      let S : List (Tri α) ← Rd.list c (Rd.tri c)
      let pts : List (V3 α) ← Rd.list c (Rd.v3 c)
      pure s!"{Out.bools (Poly.isInside S pts)} {Out.ints (pts.map (Poly.windingSum S))}"
  | "in3.sphere" => some do
      let r : α ← Rd.sc c
      let cen : V3 α ← Rd.v3 c
      let pts : List (V3 α) ← Rd.list c (Rd.v3 c)
      pure (Out.bools (Sphere.isInside r cen pts))
  | "in3.ellipsoid" => some do
      let a : α ← Rd.sc c; let b : α ← Rd.sc c; let cc : α ← Rd.sc c
      let cen : V3 α ← Rd.v3 c
      let pts : List (V3 α) ← Rd.list c (Rd.v3 c)
      pure (Out.bools (Ellipsoid.isInside a b cc cen pts))
  | "in3.sphero" => some do
      -- in: r, eqs, faces (vertex lists), flag (0: prisms follow / else: construction raised), points
      let r : α ← Rd.sc c
      let eqs : List (Plane α) ← Rd.list c (Rd5.plane c)
      let faces : List (List (V3 α)) ← Rd.list c (Rd.list c (Rd.v3 c))
      let flag ← Rd.int c
      let prisms : Except String (List (List (Plane α))) ←
        if flag == 0 then do
          let ps ← Rd.list c (Rd.list c (Rd5.plane c))
          pure (Except.ok ps)
        else pure (Except.error "PrismConstruction")
      let pts : List (V3 α) ← Rd.list c (Rd.v3 c)
      match Sphero.isInside r eqs faces prisms pts with
      | .ok bs =>
        let singles := match prisms with
          | .ok ps => pts.map (Sphero.isInside1 r eqs faces ps)
          | .error _ => []
        pure s!"{Out.bools bs} {Out.bools singles}"
      | .error e => pure s!"E:{e}"
  | "spec.in3.hull" => some do
      -- in: V, cases (sparse weights, p) ; out per case: min w, Σw, (comb − Σw·p)(3)
      let V : List (V3 α) ← Rd.list c (Rd.v3 c)
      let Va := V.toArray
      let cases ← Rd.list c (do let wv ← Rd5.sparse c Va; let p ← Rd.v3 (α := α) c; pure (wv, p))
      pure (" ".intercalate (cases.map fun cs =>
        let r := Spec.In3D.hullCert cs.1.1 cs.1.2 cs.2
        s!"{Out.sc r.1} {Out.sc r.2.1} {Out.v3 r.2.2}"))
  | "spec.in3.plane" => some do
      -- in: V, cases (n, d, p) ; out per case: max_v (n·v+d), n·p+d
      let V : List (V3 α) ← Rd.list c (Rd.v3 c)
      let cases ← Rd.list c (do let n ← Rd.v3 (α := α) c; let d ← Rd.sc (α := α) c; let p ← Rd.v3 (α := α) c; pure (n, d, p))
      pure (" ".intercalate (cases.map fun cs =>
        let r := Spec.In3D.planeCert cs.1 cs.2.1 V cs.2.2
        s!"{Out.sc r.1} {Out.sc r.2}"))
  | "spec.in3.tets" => some do
      -- in: tets, cases (indices of candidate tets, p) ; out per case: number of candidate tets containing p
      let Ts : List (Tet α) ← Rd.list c (Rd.tet c)
      let Ta := Ts.toArray
      let cases ← Rd.list c (do let idx ← Rd.list c (Rd.nat c); let p ← Rd.v3 (α := α) c; pure (idx, p))
      pure (Out.ints (cases.map fun cs =>
        let sel := cs.1.filterMap fun i => Ta[i]?
        (Spec.In3D.countTets sel cs.2 : Int)))
  | "spec.in3.ball" => some do
      let r : α ← Rd.sc c
      let cen : V3 α ← Rd.v3 c
      let pts : List (V3 α) ← Rd.list c (Rd.v3 c)
      pure (Out.bools (pts.map (Spec.In3D.inBall r cen)))
  | "spec.in3.ellipsoid" => some do
      let a : α ← Rd.sc c; let b : α ← Rd.sc c; let cc : α ← Rd.sc c
      let cen : V3 α ← Rd.v3 c
      let pts : List (V3 α) ← Rd.list c (Rd.v3 c)
      pure (Out.bools (pts.map (Spec.In3D.inEllipsoid a b cc cen)))
  | "spec.in3.near" => some do
      -- in: V, cases (sparse weights of q, p) ; out per case: min w, Σw, |p − q|²
      let V : List (V3 α) ← Rd.list c (Rd.v3 c)
      let Va := V.toArray
      let cases ← Rd.list c (do let wv ← Rd5.sparse c Va; let p ← Rd.v3 (α := α) c; pure (wv, p))
      pure (" ".intercalate (cases.map fun cs =>
        let r := Spec.In3D.nearCert cs.1.1 cs.1.2 cs.2
        s!"{Out.sc r.1} {Out.sc r.2.1} {Out.sc r.2.2}"))
  | "spec.in3.far" => some do
      -- in: V, cases (q, p) ; out per case: max_v (p−q)·(v−q), |p − q|²
      let V : List (V3 α) ← Rd.list c (Rd.v3 c)
      let cases ← Rd.list c (do let q ← Rd.v3 (α := α) c; let p ← Rd.v3 (α := α) c; pure (q, p))
      pure (" ".intercalate (cases.map fun cs =>
        let r := Spec.In3D.farCert cs.1 V cs.2
        s!"{Out.sc r.1} {Out.sc r.2}"))
  | "in3.arg" => some do
      -- the full calls with their glue.  in: class (0 cp, 1 poly, 2 sphere, 3 ellipsoid), class data,
      -- flag (0: one (3,) row, 1: (N,3) rows), points ; out: bools  |  E:KeyError
      let cls ← Rd.int c
      let rdPts : Rd (Points α) := do
        let flag ← Rd.int c
        if flag == 0 then do let p ← Rd.v3 (α := α) c; pure (Points.row p)
        else do let ps ← Rd.list c (Rd.v3 (α := α) c); pure (Points.rows ps)
      if cls == 0 then do
        let eqs : List (Plane α) ← Rd.list c (Rd5.plane c)
        let pts ← rdPts
        pure (Out.bools (CP.isInsideArg eqs pts))
      else if cls == 1 then do
        let V : List (V3 α) ← Rd.list c (Rd.v3 c)
        let S : List (Tri α) ← Rd.list c (Rd.tri c)
        let pts ← rdPts
        match Poly.isInsideArg V S pts with
        | .ok bs => pure (Out.bools bs)
        | .error e => pure s!"E:{e}"
      else if cls == 2 then do
        let r : α ← Rd.sc c
        let cen : V3 α ← Rd.v3 c
        let pts ← rdPts
        pure (Out.bools (Sphere.isInsideArg r cen pts))
      else do
        let a : α ← Rd.sc c; let b : α ← Rd.sc c; let cc : α ← Rd.sc c
        let cen : V3 α ← Rd.v3 c
        let pts ← rdPts
        pure (Out.bools (Ellipsoid.isInsideArg a b cc cen pts))
  | "spec.in3.spheroexact" => some do
      -- in: V, r, core weights, core facet triangles (tri, index of its face), faces: each
      --     n(3) d, pts, prism equations, prism weights, prism facet triangles (tri, index into the prism's equations)
      -- out: spheroExactCheck, exactFacetsCheck of the core, number of faces failing faceCheck, number of failing pairs
      -- (Q mode: the hypothesis of `sphero_inside_iff_checked`, decided exactly)
      let V : List (V3 α) ← Rd.list c (Rd.v3 c)
      let r : α ← Rd.sc c
      let ws : List α ← Rd.list c (Rd.sc c)
      let F0 : List (Tri α × Nat) ← Rd.list c (do let t ← Rd.tri (α := α) c; let k ← Rd.nat c; pure (t, k))
      let Fs : List (Spec.In3D.FaceC α) ← Rd.list c (do
        let n ← Rd.v3 (α := α) c; let d ← Rd.sc (α := α) c
        let pts ← Rd.list c (Rd.v3 (α := α) c)
        let peqs : List (Plane α) ← Rd.list c (Rd5.plane c)
        let pws ← Rd.list c (Rd.sc (α := α) c)
        let pa := peqs.toArray
        let pF : List (Tri α × V3 α × α) ← Rd.list c (do
          let t ← Rd.tri (α := α) c; let k ← Rd.nat c
          let e := pa.getD k ⟨V3.zero, Scalar.lit 0⟩
          pure (t, e.n, e.d))
        pure (⟨n, d, peqs.map fun e => (e.n, e.d), pts, pws, pF⟩ : Spec.In3D.FaceC α))
      let fa := Fs.toArray
      let F : List (Tri α × V3 α × α) := F0.map fun tk =>
        match fa[tk.2]? with
        | some f => (tk.1, f.n, f.d)
        | none => (tk.1, V3.zero, Scalar.lit 0)
      let eqs := Fs.map fun f => (f.n, f.d)
      let badF := (Fs.filter fun f => !(Spec.In3D.faceCheck V r f)).length
      let badP := (Fs.map fun f => (Fs.filter fun g => !(Spec.In3D.pairCheck V f g)).length).sum
      pure s!"{Out.bool (Spec.In3D.spheroExactCheck V r Fs ws F)} {Out.bool (Spec.In3D.exactFacetsCheck V eqs ws F)} {Out.int badF} {Out.int badP}"
  | "spec.in3.ray" => some do
      -- in: surface triangles S, apex o, points
      -- out: closedCheck S, then per point: offCone (cone o S) p, rayWinding o S p
      -- (Q mode: the hypotheses / right-hand side of `poly_inside_iff_ray_checked`, decided exactly)
      let S : List (Tri α) ← Rd.list c (Rd.tri c)
      let o : V3 α ← Rd.v3 c
      let pts : List (V3 α) ← Rd.list c (Rd.v3 c)
      let Ts := Spec.In3D.coneTets o S
      pure s!"{Out.bool (ChainCheck.closedCheck S)} {" ".intercalate (pts.map fun p =>
        s!"{Out.bool (Spec.In3D.offCone Ts p)} {Out.int (Spec.In3D.signedCount Ts p)}")}"
  | "spec.in3.tetcount" => some do
      -- in: surface triangles S, tets Ts, points
      -- out: chainCheck S (∂Ts), all orientations ≥ 0, then per point: offCone Ts p, signedCount Ts p, inTets Ts p
      let S : List (Tri α) ← Rd.list c (Rd.tri c)
      let Ts : List (Tet α) ← Rd.list c (Rd.tet c)
      let pts : List (V3 α) ← Rd.list c (Rd.v3 c)
      let ok := ChainCheck.chainCheck S (Ts.flatMap Tet.bdry)
      let orr := Ts.all fun T => decide (Scalar.lit 0 ≤ Spec.In3D.orient T.a T.b T.c T.d)
      pure s!"{Out.bool ok} {Out.bool orr} {" ".intercalate (pts.map fun p =>
        s!"{Out.bool (Spec.In3D.offCone Ts p)} {Out.int (Spec.In3D.signedCount Ts p)} {Out.bool (Spec.In3D.inTets Ts p)}")}"
  | "spec.in3.facets" => some do
      -- in: V, eqs, weights ws, facet triangles (tri, index of its plane in eqs), margin m, box radius R
      -- out: facetCert, then diagnostics: weights ok, closed, number of failing facet triangles, o (3), η
      -- (Q mode: the hypothesis of `cp_mem_hull_of_inside_cert`, decided exactly)
      let V : List (V3 α) ← Rd.list c (Rd.v3 c)
      let eqs : List (Plane α) ← Rd.list c (Rd5.plane c)
      let ws : List α ← Rd.list c (Rd.sc c)
      let ea := eqs.toArray
      let F : List (Tri α × V3 α × α) ← Rd.list c (do
        let t ← Rd.tri (α := α) c; let k ← Rd.nat c
        let e := ea.getD k ⟨V3.zero, Scalar.lit 0⟩
        pure (t, e.n, e.d))
      let m : α ← Rd.sc c
      let R : α ← Rd.sc c
      let eqs' := eqs.map fun e => (e.n, e.d)
      let o := Spec.In3D.comb ws V
      let wok := decide (ws.length = V.length) && (ws.all fun w => decide (Scalar.lit 0 ≤ w)) &&
        Scalar.eqb (Scalar.sum ws) (Scalar.lit 1)
      let bad := (F.filter fun f => !(Spec.In3D.facetOK V eqs' o m R f)).length
      -- η = the largest plane value over all (plane, vertex) pairs (hypothesis of `cp_planeDist_le_of_mem_hull`)
      let eta := Spec.In3D.maxOf (eqs'.flatMap fun e => V.map (Spec.In3D.planeVal e.1 e.2))
      pure s!"{Out.bool (Spec.In3D.facetCert V eqs' ws F m R)} {Out.bool wok} {Out.bool (ChainCheck.closedCheck (F.map Prod.fst))} {Out.int bad} {Out.v3 o} {Out.sc eta}"
  | _ => none

end OpsC05
