import CoxeterVerif.Driver.Proto
import CoxeterVerif.Model.Balls
import CoxeterVerif.Spec.Balls

namespace OpsC13
open Balls

variable {α : Type} [Scalar α] [Codec α]

/-- `radius cx cy cz`, or `E:<kind>` -/
def outBall (r : Except String (Ball α)) : String :=
  match r with
  | .ok B => s!"{Out.sc B.radius} {Out.v3 B.center}"
  | .error e => s!"E:{e}"

def outRows (rows : List (Row α)) : String :=
  " ".intercalate (rows.map fun row => s!"{Out.v3 row.a} {Out.sc row.k} {Out.sc row.b}")

def rdEq (c : Ctx) : Rd (V3 α × α) := do
  let n ← Rd.v3 c; let d ← Rd.sc c; pure (n, d)

def rdPair (c : Ctx) : Rd (V3 α × V3 α) := do
  let n ← Rd.v3 c; let v ← Rd.v3 c; pure (n, v)

def rdRow (c : Ctx) : Rd (Row α) := do
  let a ← Rd.v3 c; let k ← Rd.sc c; let b ← Rd.sc c; pure ⟨a, k, b⟩

def rdQuat (c : Ctx) : Rd (Quat α) := do
  let w ← Rd.sc c; let v ← Rd.v3 c; pure ⟨w, v⟩

/-- one recorded miniball call: `i1 c(3) r2` (returned) or `i0 0 0 0 0` (raised LinAlgError) -/
def rdOutcome (c : Ctx) : Rd (Option (V3 α × α)) := do
  let ok ← Rd.int c; let ctr ← Rd.v3 c; let r2 ← Rd.sc c
  pure (if ok = 1 then some (ctr, r2) else none)

/-- one recorded miniball call with the residual nnls reported during it -/
def rdOutcomeN (c : Ctx) : Rd (Option (V3 α × α) × α) := do
  let o ← rdOutcome c; let resid ← Rd.sc c; pure (o, resid)

def rdWeighted (c : Ctx) : Rd (α × V3 α) := do
  let l ← Rd.sc c; let p ← Rd.v3 c; pure (l, p)

/-- driver ops of C13. `none` = unknown op. -/
def run (α : Type) [Scalar α] [Codec α] (op : String) (c : Ctx) : Option (Rd String) :=
  match op with
  | "b.mincb" => some do
      -- in: verts center ; out: ball
      let verts : List (V3 α) ← Rd.list c (Rd.v3 c)
      let cen : V3 α ← Rd.v3 c
      pure (outBall (minimalCenteredBounding verts cen))
  | "b.maxcbs" => some do
      -- in: equations (n d) center ; out: ball
      let eqs : List (V3 α × α) ← Rd.list c (rdEq c)
      let cen : V3 α ← Rd.v3 c
      pure (outBall (maximalCenteredBoundedSphere eqs cen))
  | "b.maxcbc" => some do
      -- in: verts center ; out: ball
      let verts : List (V3 α) ← Rd.list c (Rd.v3 c)
      let cen : V3 α ← Rd.v3 c
      pure (outBall (maximalCenteredBoundedCircle verts cen))
  | "b.edgedists" => some do
      let verts : List (V3 α) ← Rd.list c (Rd.v3 c)
      let cen : V3 α ← Rd.v3 c
      pure (Out.scs (edgeLineDistances verts cen))
  | "b.circumsys" => some do
      -- in: verts ; out: rows (a k b) of the system handed to lstsq, then atol
      let verts : List (V3 α) ← Rd.list c (Rd.v3 c)
      let rows := circumSystemSphere verts
      pure s!"{outRows rows} {Out.sc (circumAtol rows)}"
  | "b.circumsysc" => some do
      let verts : List (V3 α) ← Rd.list c (Rd.v3 c)
      let normal : V3 α ← Rd.v3 c
      let rows := circumSystemCircleScaled verts normal
      pure s!"{outRows rows} {Out.sc (circumAtol rows)}"
  | "b.circumsphere" => some do
      -- in: verts x resids ; out: ball
      let verts : List (V3 α) ← Rd.list c (Rd.v3 c)
      let x : V3 α ← Rd.v3 c
      let resids : List α ← Rd.list c (Rd.sc c)
      pure (outBall (circumsphere verts x resids))
  | "b.circumcircle" => some do
      let verts : List (V3 α) ← Rd.list c (Rd.v3 c)
      let normal : V3 α ← Rd.v3 c
      let x : V3 α ← Rd.v3 c
      let resids : List α ← Rd.list c (Rd.sc c)
      pure (outBall (circumcircle verts normal x resids))
  | "b.insys" => some do
      -- in: faces (normal, first vertex) verts ; out: rows, then atol
      let faces : List (V3 α × V3 α) ← Rd.list c (rdPair c)
      let verts : List (V3 α) ← Rd.list c (Rd.v3 c)
      pure s!"{outRows (inSystemSphere faces)} {Out.sc (Scalar.q 1 100000000 * Scalar.sqr (extent verts))}"
  | "b.insysc" => some do
      let verts : List (V3 α) ← Rd.list c (Rd.v3 c)
      let normal : V3 α ← Rd.v3 c
      let sa : α ← Rd.sc c
      pure s!"{outRows (inSystemCircle verts normal sa)} {Out.sc (Scalar.q 1 100000000 * Scalar.sqr (extent verts))}"
  | "b.insphere" => some do
      -- in: verts x r resids ; out: ball
      let verts : List (V3 α) ← Rd.list c (Rd.v3 c)
      let x : V3 α ← Rd.v3 c
      let r : α ← Rd.sc c
      let resids : List α ← Rd.list c (Rd.sc c)
      pure (outBall (insphere verts x r resids))
  | "b.incircle" => some do
      let verts : List (V3 α) ← Rd.list c (Rd.v3 c)
      let x : V3 α ← Rd.v3 c
      let r : α ← Rd.sc c
      let resids : List α ← Rd.list c (Rd.sc c)
      pure (outBall (incircle verts x r resids))
  | "b.rotate" => some do
      -- in: quaternion verts ; out: rotated verts (what a retry hands to miniball)
      let p : Quat α ← rdQuat c
      let verts : List (V3 α) ← Rd.list c (Rd.v3 c)
      pure (" ".intercalate (verts.map fun v => Out.v3 (Quat.rotate p v)))
  | "b.minbound" => some do
      -- in: verts, per miniball call `i<ok> c(3) r2 resid` (resid = what nnls reported during that call; +inf
      -- if nnls was not called), random rotations drawn in order ; out: ball  (repaired code, da3be45)
      let verts : List (V3 α) ← Rd.list c (Rd.v3 c)
      let outcomes : List (Option (V3 α × α) × α) ← Rd.list c (rdOutcomeN c)
      let rots : List (Quat α) ← Rd.list c (rdQuat c)
      let mb : Nat → List (V3 α) → Option (V3 α × α) := fun k _ => (outcomes.getD (k - 1) (none, Scalar.lit 0)).1
      let nn : Nat → List (V3 α) → V3 α → α → List α × α :=
        fun k _ _ _ => ([], (outcomes.getD (k - 1) (none, Scalar.lit 0)).2)
      let rand : Nat → Quat α := fun k => rots.getD (k - 1) Quat.one
      pure (outBall (minimalBounding mb nn rand verts))
  | "b.accept" => some do
      -- in: points c r2 resid ; out: `_is_minimal_bounding_ball` (with nnls reporting `resid`), whether the
      -- test gets as far as calling nnls, number of boundary points, their indices
      let pts : List (V3 α) ← Rd.list c (Rd.v3 c)
      let cen : V3 α ← Rd.v3 c
      let r2 : α ← Rd.sc c
      let resid : α ← Rd.sc c
      let acc := isMinimalBoundingBall (fun _ _ _ => ([], resid)) pts cen r2
      -- nnls is reached iff the test with a zero residual differs from the test with an infinite one
      let reach := isMinimalBoundingBall (fun _ _ _ => ([], Scalar.lit 0)) pts cen r2
        && !(isMinimalBoundingBall (fun _ _ _ => ([], Scalar.lit 1)) pts cen r2)
      let bd := onBoundary (Scalar.q 1 1000000) pts cen r2
      pure s!"{Out.bool acc} {Out.bool reach} {Out.int bd.length} {" ".intercalate (bd.map Out.v3)}"
  | "s.nnlsresid" => some do
      -- in: boundary points c r2 weights ; out: ‖a w − b‖² = ‖Σ w (p − c)‖²/r2 + (Σw − 1)² (exact in Q)
      let bd : List (V3 α) ← Rd.list c (Rd.v3 c)
      let cen : V3 α ← Rd.v3 c
      let r2 : α ← Rd.sc c
      let w : List α ← Rd.list c (Rd.sc c)
      pure (Out.sc (nnlsResidSq bd cen r2 w))
  | "b.round" => some do
      let r : α ← Rd.sc c
      let cen : V3 α ← Rd.v3 c
      pure (outBall (roundBall r cen))
  | "b.ellipse" => some do
      -- out: bounding ball, bounded ball (each 4 tokens or E:)
      let a : α ← Rd.sc c
      let b : α ← Rd.sc c
      let cen : V3 α ← Rd.v3 c
      match ellipseBounding a b cen, ellipseBounded a b cen with
      | .ok B1, .ok B2 => pure s!"{Out.sc B1.radius} {Out.v3 B1.center} {Out.sc B2.radius} {Out.v3 B2.center}"
      | .error e, _ => pure s!"E:{e}"
      | _, .error e => pure s!"E:{e}"
  | "b.ellipsoid" => some do
      let a : α ← Rd.sc c
      let b : α ← Rd.sc c
      let cc : α ← Rd.sc c
      let cen : V3 α ← Rd.v3 c
      match ellipsoidBounding a b cc cen, ellipsoidBounded a b cc cen with
      | .ok B1, .ok B2 => pure s!"{Out.sc B1.radius} {Out.v3 B1.center} {Out.sc B2.radius} {Out.v3 B2.center}"
      | .error e, _ => pure s!"E:{e}"
      | _, .error e => pure s!"E:{e}"
  -- ---------------------------------------------------------------- spec (use in Q mode: exact)
  | "s.sphereoffsets" => some do
      -- in: pts c r2 ; out: ‖p−c‖² − r² per point
      let pts : List (V3 α) ← Rd.list c (Rd.v3 c)
      let cen : V3 α ← Rd.v3 c
      let r2 : α ← Rd.sc c
      pure (Out.scs (BallSpec.sphereOffsets pts cen r2))
  | "s.maxdistsq" => some do
      let pts : List (V3 α) ← Rd.list c (Rd.v3 c)
      let cen : V3 α ← Rd.v3 c
      pure (Out.sc (BallSpec.maxDistSq pts cen))
  | "s.planeoffsets" => some do
      -- in: equations c ; out: n·c + d per plane
      let eqs : List (V3 α × α) ← Rd.list c (rdEq c)
      let cen : V3 α ← Rd.v3 c
      pure (Out.scs (BallSpec.planeOffsets eqs cen))
  | "s.cert" => some do
      -- in: pts c r2 support(λ, p) ; out: slack dev (Σλ−1) ‖Σλp−c‖² min λ
      let pts : List (V3 α) ← Rd.list c (Rd.v3 c)
      let cen : V3 α ← Rd.v3 c
      let r2 : α ← Rd.sc c
      let sup : List (α × V3 α) ← Rd.list c (rdWeighted c)
      let r := BallSpec.certificate pts cen r2 sup
      pure s!"{Out.sc r.1} {Out.sc r.2.1} {Out.sc r.2.2.1} {Out.sc r.2.2.2.1} {Out.sc r.2.2.2.2}"
  | "s.normaleq" => some do
      -- in: rows x r ; out: Aᵀ(A(x,r) − b) (4 numbers), ‖A(x,r) − b‖²
      let rows : List (Row α) ← Rd.list c (rdRow c)
      let x : V3 α ← Rd.v3 c
      let r : α ← Rd.sc c
      let g := V3.sum (rows.map fun row => V3.smul (row.resid x r) row.a)
      let gk := Scalar.sum (rows.map fun row => row.resid x r * row.k)
      pure s!"{Out.v3 g} {Out.sc gk} {Out.sc (sumSq rows x r)}"
  | "s.lstsqmin" => some do
      -- in: rows x r (the answer of LAPACK) ; out: certificate flag of the exact minimiser (x*, r*) found by
      -- Gauss–Jordan on the normal equations, x* (3) r*, ‖A(x*,r*) − b‖², ‖A(x,r) − b‖² − ‖A(x*,r*) − b‖²
      -- (meant for Q: everything exact; `lstsqCert_iff`: flag ⇒ (x*, r*) IS the least-squares minimum)
      let rows : List (Row α) ← Rd.list c (rdRow c)
      let x : V3 α ← Rd.v3 c
      let r : α ← Rd.sc c
      let z := BallSpec.solveNormal rows
      let cert := BallSpec.lstsqCert rows z.1 z.2
      let m := sumSq rows z.1 z.2
      pure s!"{Out.bool cert} {Out.v3 z.1} {Out.sc z.2} {Out.sc m} {Out.sc (sumSq rows x r - m)}"
  | "s.lstsqcert" => some do
      -- in: rows x r ; out: do the normal equations hold exactly at (x, r)?
      let rows : List (Row α) ← Rd.list c (rdRow c)
      let x : V3 α ← Rd.v3 c
      let r : α ← Rd.sc c
      pure (Out.bool (BallSpec.lstsqCert rows x r))
  | "s.certbracket" => some do
      -- in: pts c support(λ, p) ; out: side conditions ok?, lower bound Σλ‖s−c*‖²/Σλ, max_i ‖p_i − c‖²
      -- (`miniball_bracket`: the squared radius of the minimal ball lies between the two numbers)
      let pts : List (V3 α) ← Rd.list c (Rd.v3 c)
      let cen : V3 α ← Rd.v3 c
      let sup : List (α × V3 α) ← Rd.list c (rdWeighted c)
      let side := BallSpec.certSide pts sup
      let lo : α := if side then BallSpec.certLower sup else Scalar.lit 0
      pure s!"{Out.bool side} {Out.sc lo} {Out.sc (BallSpec.maxDistSq pts cen)}"
  | "s.certexact" => some do
      -- in: pts c r2 support ; out: exact certificate (`miniball_checker_sound`)
      let pts : List (V3 α) ← Rd.list c (Rd.v3 c)
      let cen : V3 α ← Rd.v3 c
      let r2 : α ← Rd.sc c
      let sup : List (α × V3 α) ← Rd.list c (rdWeighted c)
      pure (Out.bool (BallSpec.certExact pts cen r2 sup))
  | "b.radiusof" => some do
      -- in: i1 r c(3) (the ball getter returned) | i0 i<kind> (it raised: 0 RuntimeError, 1 ValueError,
      -- 2 NotImplementedError) ; out: what the `_radius` getter gives
      let ok ← Rd.int c
      if ok = 1 then
        let r : α ← Rd.sc c
        let cen : V3 α ← Rd.v3 c
        match radiusOf (deprecatedAlias (.ok ⟨r, cen⟩)) with
        | .ok v => pure (Out.sc v)
        | .error e => pure s!"E:{e}"
      else
        let k ← Rd.int c
        let b : Except String (Ball α) :=
          if k = 0 then .error "RuntimeError" else if k = 1 then .error "ValueError" else notImplemented
        match radiusOf b with
        | .ok v => pure (Out.sc v)
        | .error e => pure s!"E:{e}"
  | "s.nnlskkt" => some do
      -- in: boundary points c r2 weights ; out: min_j g_j, Σ_j w_j g_j, Σ_j w_j  (g = Aᵀ(Aw − b); exact in Q).
      -- `nnls_kkt_sound`: ‖Aw−b‖² ≤ ‖Aw'−b‖² + 2δ·Σw' + 2κ for all w' ≥ 0, δ = max(0, −min g), κ = max(0, Σ w g)
      let bd : List (V3 α) ← Rd.list c (Rd.v3 c)
      let cen : V3 α ← Rd.v3 c
      let r2 : α ← Rd.sc c
      let w : List α ← Rd.list c (Rd.sc c)
      let r := BallSpec.nnlsKkt bd cen r2 w
      pure s!"{Out.sc r.1} {Out.sc r.2.1} {Out.sc r.2.2}"
  | _ => none

end OpsC13
