import CoxeterVerif.Driver.Proto
import CoxeterVerif.Model.FormFactor
import CoxeterVerif.Spec.FormFactor

namespace OpsC12

def cxs {α} [Codec α] (l : List (Cx α)) : String :=
  " ".intercalate (l.map fun z => s!"{Out.sc z.re} {Out.sc z.im}")

def rdFace {α} [Codec α] (c : Ctx) : Rd (FF.Face α) := do
  let vs ← Rd.list c (Rd.v3 c)
  let n ← Rd.v3 c
  let off ← Rd.sc c
  pure ⟨vs, n, off⟩

def rdBox {α} [Codec α] (c : Ctx) : Rd (V3 α × V3 α) := do
  let lo ← Rd.v3 c
  let hi ← Rd.v3 c
  pure (lo, hi)

/-- driver ops of C12. `none` = unknown op.
    `mode`: i0 = the batch model (masks, as the Python), i1 = map of the single-q model. -/
def run (α : Type) [Scalar α] [Codec α] (op : String) (c : Ctx) : Option (Rd String) :=
  match op with
  | "ff.polygon" => some do
      -- in: mode verts normal qs density ; out: (re im) per q
      let mode ← Rd.nat c
      let vs : List (V3 α) ← Rd.list c (Rd.v3 c)
      let n : V3 α ← Rd.v3 c
      let qs : List (V3 α) ← Rd.list c (Rd.v3 c)
      let rho : α ← Rd.sc c
      let out := if mode = 0 then FF.polygonFFBatch vs n qs rho else qs.map (FF.polygonFF vs n · rho)
      pure (cxs out)
  | "ff.polygon_geom" => some do
      -- in: verts hasNormal normal ; out: stored normal(3) signed_area area
      let vs : List (V3 α) ← Rd.list c (Rd.v3 c)
      let has ← Rd.nat c
      let n0 : V3 α ← Rd.v3 c
      let n := FF.polygonNormal vs (if has = 1 then some n0 else none)
      pure s!"{Out.v3 n} {Out.sc (FF.signedArea vs n)} {Out.sc (FF.polygonArea vs n)}"
  | "ff.polyhedron" => some do
      -- in: mode faces volume qs density ; out: (re im) per q
      let mode ← Rd.nat c
      let faces : List (FF.Face α) ← Rd.list c (rdFace c)
      let vol : α ← Rd.sc c
      let qs : List (V3 α) ← Rd.list c (Rd.v3 c)
      let rho : α ← Rd.sc c
      let out := if mode = 0 then FF.polyhedronFFBatch faces vol qs rho
                 else qs.map (FF.polyhedronFF faces vol · rho)
      pure (cxs out)
  | "ff.sphere" => some do
      -- in: mode radius centre qs density ; out: (re im) per q
      let mode ← Rd.nat c
      let r : α ← Rd.sc c
      let ctr : V3 α ← Rd.v3 c
      let qs : List (V3 α) ← Rd.list c (Rd.v3 c)
      let rho : α ← Rd.sc c
      let out := if mode = 0 then FF.sphereFFBatch r ctr qs rho else qs.map (FF.sphereFF r ctr · rho)
      pure (cxs out)
  | "spec.ff.boxes" => some do
      let boxes : List (V3 α × V3 α) ← Rd.list c (rdBox c)
      let qs : List (V3 α) ← Rd.list c (Rd.v3 c)
      let rho : α ← Rd.sc c
      pure (cxs (qs.map (Spec.boxesFT boxes · rho)))
  | "spec.ff.polygon" => some do
      let vs : List (V3 α) ← Rd.list c (Rd.v3 c)
      let n : V3 α ← Rd.v3 c
      let qs : List (V3 α) ← Rd.list c (Rd.v3 c)
      let rho : α ← Rd.sc c
      pure (cxs (qs.map (Spec.polygonFT vs n · rho)))
  | "spec.ff.tets" => some do
      let Ts : List (Tet α) ← Rd.list c (Rd.tet c)
      let qs : List (V3 α) ← Rd.list c (Rd.v3 c)
      let rho : α ← Rd.sc c
      pure (cxs (qs.map (Spec.tetsFT Ts · rho)))
  | "spec.ff.ball" => some do
      let r : α ← Rd.sc c
      let ctr : V3 α ← Rd.v3 c
      let qs : List (V3 α) ← Rd.list c (Rd.v3 c)
      let rho : α ← Rd.sc c
      pure (cxs (qs.map (Spec.ballFT r ctr · rho)))
  | _ => none

end OpsC12
