import CoxeterVerif.Driver.Proto
import CoxeterVerif.Model.FormFactor
import CoxeterVerif.Spec.FormFactor

namespace OpsC12

def cxs {α} [Codec α] (l : List (Cx α)) : String :=
  " ".intercalate (l.map fun z => s!"{Out.sc z.re} {Out.sc z.im}")

def rdFace {α} [Codec α] (c : Ctx) : Rd (FF.Face α) := do
  let vs ← Rd.list c (Rd.v3 c)
  let n ← Rd.v3 c
  let off ← Rd.sc c
  pure ⟨vs, n, off⟩

def rdBox {α} [Codec α] (c : Ctx) : Rd (V3 α × V3 α) := do
  let lo ← Rd.v3 c
  let hi ← Rd.v3 c
  pure (lo, hi)

/-- the `q` argument: kind `i0` = `(N,3)` array, `i1` = `(3,)` array, `i2` = nested list, `i3` = flat list;
    always followed by a length-prefixed list of vectors (the first one is used for the flat kinds) -/
def rdQArg {α} [Codec α] (c : Ctx) : Rd (FF.QArg α) := do
  let kind ← Rd.nat c
  let qs : List (V3 α) ← Rd.list c (Rd.v3 c)
  let hd := qs.headD ⟨Codec.decode 0, Codec.decode 0, Codec.decode 0⟩
  pure (match kind with
    | 0 => .arr2 qs
    | 1 => .arr1 hd
    | 2 => .list2 qs
    | _ => .list1 hd)

/-- optional density: `i0` = omitted, `i1 <scalar>` = given -/
def rdDensity {α} [Codec α] (c : Ctx) : Rd (Option α) := do
  let has ← Rd.nat c
  if has = 0 then pure none else do
    let d ← Rd.sc c
    pure (some d)

def reply {α} [Codec α] (r : Except String (List (Cx α))) : String :=
  match r with
  | .ok l => cxs l
  | .error e => s!"E:{e}"

/-- driver ops of C12. `none` = unknown op.
    `mode`: i0 = the batch model (masks, as the Python), i1 = map of the single-q model. -/
def run (α : Type) [Scalar α] [Codec α] (op : String) (c : Ctx) : Option (Rd String) :=
  match op with
  | "ff.polygon" => some do
      -- in: mode verts normal qs density ; out: (re im) per q
      let mode ← Rd.nat c
      let vs : List (V3 α) ← Rd.list c (Rd.v3 c)
      let n : V3 α ← Rd.v3 c
      let qs : List (V3 α) ← Rd.list c (Rd.v3 c)
      let rho : α ← Rd.sc c
      let out := if mode = 0 then FF.polygonFFBatch vs n qs rho else qs.map (FF.polygonFF vs n · rho)
      pure (cxs out)
  | "ff.polygon_geom" => some do
      -- in: verts hasNormal normal ; out: stored normal(3) signed_area area
      let vs : List (V3 α) ← Rd.list c (Rd.v3 c)
      let has ← Rd.nat c
      let n0 : V3 α ← Rd.v3 c
      let n := FF.polygonNormal vs (if has = 1 then some n0 else none)
      pure s!"{Out.v3 n} {Out.sc (FF.signedArea vs n)} {Out.sc (FF.polygonArea vs n)}"
  | "ff.polyhedron" => some do
      -- in: mode faces volume qs density ; out: (re im) per q
      let mode ← Rd.nat c
      let faces : List (FF.Face α) ← Rd.list c (rdFace c)
      let vol : α ← Rd.sc c
      let qs : List (V3 α) ← Rd.list c (Rd.v3 c)
      let rho : α ← Rd.sc c
      let out := if mode = 0 then FF.polyhedronFFBatch faces vol qs rho
                 else qs.map (FF.polyhedronFF faces vol · rho)
      pure (cxs out)
  | "ff.sphere" => some do
      -- in: mode radius centre qs density ; out: (re im) per q
      let mode ← Rd.nat c
      let r : α ← Rd.sc c
      let ctr : V3 α ← Rd.v3 c
      let qs : List (V3 α) ← Rd.list c (Rd.v3 c)
      let rho : α ← Rd.sc c
      let out := if mode = 0 then FF.sphereFFBatch r ctr qs rho else qs.map (FF.sphereFF r ctr · rho)
      pure (cxs out)
  | "ff.call.polygon" => some do
      -- in: verts normal qarg density? ; out: (re im) per returned entry | E:<kind>
      let vs : List (V3 α) ← Rd.list c (Rd.v3 c)
      let n : V3 α ← Rd.v3 c
      let qa ← rdQArg c
      let d ← rdDensity c
      pure (reply (FF.polygonCall vs n qa d))
  | "ff.call.polyhedron" => some do
      let faces : List (FF.Face α) ← Rd.list c (rdFace c)
      let vol : α ← Rd.sc c
      let qa ← rdQArg c
      let d ← rdDensity c
      pure (reply (FF.polyhedronCall faces vol qa d))
  | "ff.call.sphere" => some do
      let r : α ← Rd.sc c
      let ctr : V3 α ← Rd.v3 c
      let qa ← rdQArg c
      let d ← rdDensity c
      pure (reply (FF.sphereCall r ctr qa d))
  | "ff.tricheck" => some do
      -- in: verts tris ; out: triangulationCheck (exact in Q mode)
      let vs : List (V3 α) ← Rd.list c (Rd.v3 c)
      let ts : List (Tri α) ← Rd.list c (Rd.tri c)
      pure (Out.bool (FF.triangulationCheck vs ts))
  | "ff.surface_closed" => some do
      -- in: list of faces, each a list of vertices ; out: surfaceClosedCheck (exact in Q mode), #fan triangles
      let fs : List (List (V3 α)) ← Rd.list c (Rd.list c (Rd.v3 c))
      pure s!"{Out.bool (FF.surfaceClosedCheck fs)} {Out.int (FF.surfaceOfVerts fs).length}"
  | "spec.ff.boxes" => some do
      let boxes : List (V3 α × V3 α) ← Rd.list c (rdBox c)
      let qs : List (V3 α) ← Rd.list c (Rd.v3 c)
      let rho : α ← Rd.sc c
      pure (cxs (qs.map (Spec.boxesFT boxes · rho)))
  | "spec.ff.polygon" => some do
      let vs : List (V3 α) ← Rd.list c (Rd.v3 c)
      let n : V3 α ← Rd.v3 c
      let qs : List (V3 α) ← Rd.list c (Rd.v3 c)
      let rho : α ← Rd.sc c
      pure (cxs (qs.map (Spec.polygonFT vs n · rho)))
  | "spec.ff.tets" => some do
      let Ts : List (Tet α) ← Rd.list c (Rd.tet c)
      let qs : List (V3 α) ← Rd.list c (Rd.v3 c)
      let rho : α ← Rd.sc c
      pure (cxs (qs.map (Spec.tetsFT Ts · rho)))
  | "spec.ff.ball" => some do
      let r : α ← Rd.sc c
      let ctr : V3 α ← Rd.v3 c
      let qs : List (V3 α) ← Rd.list c (Rd.v3 c)
      let rho : α ← Rd.sc c
      pure (cxs (qs.map (Spec.ballFT r ctr · rho)))
  | _ => none

end OpsC12
