import CoxeterVerif.Driver.Proto
import CoxeterVerif.Model.Curved
import CoxeterVerif.Spec.Curved

namespace OpsC10
open Curved

def trip {α} [Codec α] (m : α × α × α) : String := s!"{Out.sc m.1} {Out.sc m.2.1} {Out.sc m.2.2}"

/-- driver ops of C10. `none` = unknown op.
    scipy's elliptic integrals are inputs: the `*.args` ops return the arguments the model hands
    to them, the harness evaluates scipy there and sends the values back to the `*.all` ops. -/
def run (α : Type) [Scalar α] [Codec α] (op : String) (c : Ctx) : Option (Rd String) :=
  match op with
  | "c10.curved.validate" => some do
      -- in: list of scalars ; out: b1 | E:ValueError
      let vs : List α ← Rd.list c (Rd.sc c)
      match validate vs with
      | .ok _ => pure (Out.bool true)
      | .error k => pure s!"E:{k}"
  | "c10.circle.all" => some do
      -- in: r cen(3) ; out: area ecc perimeter circumference ix iy ixy polar inertia(9) iq
      let r : α ← Rd.sc c
      let cen : V3 α ← Rd.v3 c
      pure s!"{Out.sc (Circle.area r)} {Out.sc (Circle.eccentricity r)} {Out.sc (Circle.perimeter r)} {Out.sc (Circle.circumference r)} {trip (Circle.planarMoments r cen)} {Out.sc (Circle.polarMoment r cen)} {Out.m3 (Circle.inertiaTensor r cen)} {Out.sc (Circle.iq r)}"
  | "c10.ellipse.args" => some do
      -- in: a b ; out: ellipe argument, eccentricity
      let a : α ← Rd.sc c
      let b : α ← Rd.sc c
      pure s!"{Out.sc (Ellipse.ellipeArg a b)} {Out.sc (Ellipse.eccentricity a b)}"
  | "c10.ellipse.all" => some do
      -- in: a b cen(3) E(=ellipe at the model's argument)
      -- out: area ecc perimeter circumference ix iy ixy polar inertia(9) iq
      let a : α ← Rd.sc c
      let b : α ← Rd.sc c
      let cen : V3 α ← Rd.v3 c
      let e : α ← Rd.sc c
      let E : α → α := fun _ => e
      pure s!"{Out.sc (Ellipse.area a b)} {Out.sc (Ellipse.eccentricity a b)} {Out.sc (Ellipse.perimeter E a b)} {Out.sc (Ellipse.circumference E a b)} {trip (Ellipse.planarMoments a b cen)} {Out.sc (Ellipse.polarMoment a b cen)} {Out.m3 (Ellipse.inertiaTensor a b cen)} {Out.sc (Ellipse.iq E a b)}"
  | "c10.sphere.all" => some do
      -- in: r cen(3) ; out: volume surface diameter inertia(9) iq
      let r : α ← Rd.sc c
      let cen : V3 α ← Rd.v3 c
      pure s!"{Out.sc (Sphere.volume r)} {Out.sc (Sphere.surfaceArea r)} {Out.sc (Sphere.diameter r)} {Out.m3 (Sphere.inertiaTensor r cen)} {Out.sc (Sphere.iq r)}"
  | "c10.ellipsoid.args" => some do
      -- in: a b c ; out: branch (a' > c'), phi, m, sorted (c' b' a')
      let a : α ← Rd.sc c
      let b : α ← Rd.sc c
      let cc : α ← Rd.sc c
      let s := sort3 a b cc
      let br : Bool := decide (s.1 < s.2.2)
      pure s!"{Out.bool br} {Out.sc (Ellipsoid.saPhi s.2.2 s.1)} {Out.sc (Scalar.min (Ellipsoid.saM s.2.2 s.2.1 s.1) (Scalar.lit 1))} {Out.sc s.1} {Out.sc s.2.1} {Out.sc s.2.2}"
  | "c10.ellipsoid.all" => some do
      -- in: a b c cen(3) E K (= ellipeinc / ellipkinc at the model's arguments)
      -- out: volume surface inertia(9) iq
      let a : α ← Rd.sc c
      let b : α ← Rd.sc c
      let cc : α ← Rd.sc c
      let cen : V3 α ← Rd.v3 c
      let e : α ← Rd.sc c
      let k : α ← Rd.sc c
      let E : α → α → α := fun _ _ => e
      let K : α → α → α := fun _ _ => k
      pure s!"{Out.sc (Ellipsoid.volume a b cc)} {Out.sc (Ellipsoid.surfaceArea E K a b cc)} {Out.m3 (Ellipsoid.inertiaTensor a b cc cen)} {Out.sc (Ellipsoid.iq E K a b cc)}"
  -- ---- spec (use mode Q with p = 1: exact values in units of π)
  | "c10.spec.disc" => some do
      -- in: p r cx cy ; out: area ix iy ixy polar
      let p : α ← Rd.sc c
      let r : α ← Rd.sc c
      let cx : α ← Rd.sc c
      let cy : α ← Rd.sc c
      let M := CSpec.discAt p r cx cy
      pure s!"{Out.sc M.m0} {trip M.planar} {Out.sc M.polar}"
  | "c10.spec.ellipse" => some do
      -- in: p a b cx cy ; out: area ix iy ixy polar
      let p : α ← Rd.sc c
      let a : α ← Rd.sc c
      let b : α ← Rd.sc c
      let cx : α ← Rd.sc c
      let cy : α ← Rd.sc c
      let M := CSpec.ellipseAt p a b cx cy
      pure s!"{Out.sc M.m0} {trip M.planar} {Out.sc M.polar}"
  | "c10.spec.ball" => some do
      -- in: p r cen(3) ; out: volume inertia(9)
      let p : α ← Rd.sc c
      let r : α ← Rd.sc c
      let cen : V3 α ← Rd.v3 c
      let M := CSpec.ballAt p r cen
      pure s!"{Out.sc M.m0} {Out.m3 M.inertia}"
  | "c10.spec.ellipsoid" => some do
      -- in: p a b c cen(3) ; out: volume inertia(9)
      let p : α ← Rd.sc c
      let a : α ← Rd.sc c
      let b : α ← Rd.sc c
      let cc : α ← Rd.sc c
      let cen : V3 α ← Rd.v3 c
      let M := CSpec.ellipsoidAt p a b cc cen
      pure s!"{Out.sc M.m0} {Out.m3 M.inertia}"
  | _ => none

end OpsC10
