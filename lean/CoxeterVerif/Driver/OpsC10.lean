import CoxeterVerif.Driver.Proto
import CoxeterVerif.Model.Curved
import CoxeterVerif.Spec.Curved

namespace OpsC10
open Curved

def trip {α} [Codec α] (m : α × α × α) : String := s!"{Out.sc m.1} {Out.sc m.2.1} {Out.sc m.2.2}"

/-- one statement of a history: `i<kind> v qx qy qz`
    (kind 0/1/2 = set a/b/c (radius = a), 3 = set centroid, 4 = read a getter, 5 = to_hoomd) -/
def rdStep {α} [Codec α] (c : Ctx) : Rd (Step α) := do
  let k ← Rd.nat c
  let v : α ← Rd.sc c
  let q : V3 α ← Rd.v3 c
  pure <| match k with
    | 0 => Step.setA v
    | 1 => Step.setB v
    | 2 => Step.setC v
    | 3 => Step.setCen q
    | 4 => Step.read
    | _ => Step.toHoomd

/-! Independent evaluation of the CONTRACT functions of `scipy.special` inside the driver (Carlson's symmetric forms
    by the duplication theorem; 40 duplications, after which the truncation error is far below one ulp).
    `E(φ|m) = s·R_F(c², 1−m s², 1) − (m/3) s³ R_D(c², 1−m s², 1)`, `F(φ|m) = s·R_F(c², 1−m s², 1)`, `s = sin φ`. -/
section carlson
variable {α : Type} [Scalar α]
open Scalar

def carlsonStep (st : α × α × α × α × α) : α × α × α × α × α :=
  let (x, y, z, sum, fac) := st
  let sx := Scalar.sqrt x
  let sy := Scalar.sqrt y
  let sz := Scalar.sqrt z
  let lam := sx * sy + sy * sz + sz * sx
  ((x + lam) / lit 4, (y + lam) / lit 4, (z + lam) / lit 4, sum + fac / (sz * (z + lam)), fac / lit 4)

/-- `(R_F(x,y,z), R_D(x,y,z))` -/
def carlsonFD (x y z : α) : α × α :=
  let st := (List.range 40).foldl (fun st _ => carlsonStep st) (x, y, z, lit 0, lit 1)
  let (x', y', z', sum, fac) := st
  let muF := (x' + y' + z') / lit 3
  let muD := (x' + y' + lit 3 * z') / lit 5
  (lit 1 / Scalar.sqrt muF, lit 3 * sum + fac / (muD * Scalar.sqrt muD))

/-- `(F(φ|m), E(φ|m))` from `s = sin φ`, `c2 = cos² φ` -/
def legendreFE (s c2 m : α) : α × α :=
  -- `1 − m s² = (1 − m) + m c²` (no cancellation near `m = 1`, `φ = π/2`)
  let (rf, rd) := carlsonFD c2 ((lit 1 - m) + m * c2) (lit 1)
  (s * rf, s * rf - m / lit 3 * s * s * s * rd)
end carlson

/-- driver ops of C10. `none` = unknown op.
    scipy's elliptic integrals are inputs: the `*.args` ops return the arguments the model hands
    to them, the harness evaluates scipy there and sends the values back to the `*.all` ops. -/
def run (α : Type) [Scalar α] [Codec α] (op : String) (c : Ctx) : Option (Rd String) :=
  match op with
  | "c10.curved.validate" => some do
      -- in: list of scalars ; out: b1 | E:ValueError
      let vs : List α ← Rd.list c (Rd.sc c)
      match validate vs with
      | .ok _ => pure (Out.bool true)
      | .error k => pure s!"E:{k}"
  | "c10.circle.all" => some do
      -- in: r cen(3) ; out: area ecc perimeter circumference ix iy ixy polar inertia(9) iq
      let r : α ← Rd.sc c
      let cen : V3 α ← Rd.v3 c
      pure s!"{Out.sc (Circle.area r)} {Out.sc (Circle.eccentricity r)} {Out.sc (Circle.perimeter r)} {Out.sc (Circle.circumference r)} {trip (Circle.planarMoments r cen)} {Out.sc (Circle.polarMoment r cen)} {Out.m3 (Circle.inertiaTensor r cen)} {Out.sc (Circle.iq r)}"
  | "c10.ellipse.args" => some do
      -- in: a b ; out: ellipe argument, eccentricity
      let a : α ← Rd.sc c
      let b : α ← Rd.sc c
      pure s!"{Out.sc (Ellipse.ellipeArg a b)} {Out.sc (Ellipse.eccentricity a b)}"
  | "c10.ellipse.all" => some do
      -- in: a b cen(3) E(=ellipe at the model's argument)
      -- out: area ecc perimeter circumference ix iy ixy polar inertia(9) iq
      let a : α ← Rd.sc c
      let b : α ← Rd.sc c
      let cen : V3 α ← Rd.v3 c
      let e : α ← Rd.sc c
      let E : α → α := fun _ => e
      pure s!"{Out.sc (Ellipse.area a b)} {Out.sc (Ellipse.eccentricity a b)} {Out.sc (Ellipse.perimeter E a b)} {Out.sc (Ellipse.circumference E a b)} {trip (Ellipse.planarMoments a b cen)} {Out.sc (Ellipse.polarMoment a b cen)} {Out.m3 (Ellipse.inertiaTensor a b cen)} {Out.sc (Ellipse.iq E a b)}"
  | "c10.sphere.all" => some do
      -- in: r cen(3) ; out: volume surface diameter inertia(9) iq
      let r : α ← Rd.sc c
      let cen : V3 α ← Rd.v3 c
      pure s!"{Out.sc (Sphere.volume r)} {Out.sc (Sphere.surfaceArea r)} {Out.sc (Sphere.diameter r)} {Out.m3 (Sphere.inertiaTensor r cen)} {Out.sc (Sphere.iq r)}"
  | "c10.ellipsoid.args" => some do
      -- in: a b c ; out: branch (a' > c'), phi, m, sorted (c' b' a')
      let a : α ← Rd.sc c
      let b : α ← Rd.sc c
      let cc : α ← Rd.sc c
      let s := sort3 a b cc
      let br : Bool := decide (s.1 < s.2.2)
      pure s!"{Out.bool br} {Out.sc (Ellipsoid.saPhi s.2.2 s.1)} {Out.sc (Scalar.min (Ellipsoid.saM s.2.2 s.2.1 s.1) (Scalar.lit 1))} {Out.sc s.1} {Out.sc s.2.1} {Out.sc s.2.2}"
  | "c10.ellipsoid.all" => some do
      -- in: a b c cen(3) E K (= ellipeinc / ellipkinc at the model's arguments)
      -- out: volume surface inertia(9) iq
      let a : α ← Rd.sc c
      let b : α ← Rd.sc c
      let cc : α ← Rd.sc c
      let cen : V3 α ← Rd.v3 c
      let e : α ← Rd.sc c
      let k : α ← Rd.sc c
      let E : α → α → α := fun _ _ => e
      let K : α → α → α := fun _ _ => k
      pure s!"{Out.sc (Ellipsoid.volume a b cc)} {Out.sc (Ellipsoid.surfaceArea E K a b cc)} {Out.m3 (Ellipsoid.inertiaTensor a b cc cen)} {Out.sc (Ellipsoid.iq E K a b cc)}"
  | "c10.history.run" => some do
      -- in: list axes, cen(3), list steps ; out: final a b c cen(3), then one bool per step (did it raise)
      let axes : List α ← Rd.list c (Rd.sc c)
      let cen : V3 α ← Rd.v3 c
      let steps : List (Step α) ← Rd.list c (rdStep c)
      match construct axes cen with
      | .error k => pure s!"E:{k}"
      | .ok s0 =>
        let s := s0.run steps
        pure s!"{Out.sc s.a} {Out.sc s.b} {Out.sc s.c} {Out.v3 s.cen} {Out.bools (s0.trace steps)}"
  | "c10.contract.incomplete" => some do
      -- in: phi m ; out: F(phi|m) E(phi|m)  (Carlson duplication; mode F only)
      let phi : α ← Rd.sc c
      let m : α ← Rd.sc c
      let s := Scalar.sin phi
      let co := Scalar.cos phi
      let r := legendreFE s (co * co) m
      pure s!"{Out.sc r.1} {Out.sc r.2}"
  | "c10.contract.complete" => some do
      -- in: m ; out: K(m) E(m)  (phi = pi/2 exactly: s = 1, c² = 0)
      let m : α ← Rd.sc c
      let r := legendreFE (Scalar.lit 1 : α) (Scalar.lit 0) m
      pure s!"{Out.sc r.1} {Out.sc r.2}"
  -- ---- spec (use mode Q with p = 1: exact values in units of π)
  | "c10.spec.disc" => some do
      -- in: p r cx cy ; out: area ix iy ixy polar
      let p : α ← Rd.sc c
      let r : α ← Rd.sc c
      let cx : α ← Rd.sc c
      let cy : α ← Rd.sc c
      let M := CSpec.discAt p r cx cy
      pure s!"{Out.sc M.m0} {trip M.planar} {Out.sc M.polar}"
  | "c10.spec.ellipse" => some do
      -- in: p a b cx cy ; out: area ix iy ixy polar
      let p : α ← Rd.sc c
      let a : α ← Rd.sc c
      let b : α ← Rd.sc c
      let cx : α ← Rd.sc c
      let cy : α ← Rd.sc c
      let M := CSpec.ellipseAt p a b cx cy
      pure s!"{Out.sc M.m0} {trip M.planar} {Out.sc M.polar}"
  | "c10.spec.ball" => some do
      -- in: p r cen(3) ; out: volume inertia(9)
      let p : α ← Rd.sc c
      let r : α ← Rd.sc c
      let cen : V3 α ← Rd.v3 c
      let M := CSpec.ballAt p r cen
      pure s!"{Out.sc M.m0} {Out.m3 M.inertia}"
  | "c10.spec.ellipsoid" => some do
      -- in: p a b c cen(3) ; out: volume inertia(9)
      let p : α ← Rd.sc c
      let a : α ← Rd.sc c
      let b : α ← Rd.sc c
      let cc : α ← Rd.sc c
      let cen : V3 α ← Rd.v3 c
      let M := CSpec.ellipsoidAt p a b cc cen
      pure s!"{Out.sc M.m0} {Out.m3 M.inertia}"
  | _ => none

end OpsC10
