import CoxeterVerif.Driver.Proto
import CoxeterVerif.Model.DistToSurface
import CoxeterVerif.Spec.DistToSurface

namespace OpsC14

def rdP2 {α} [Codec α] (c : Ctx) : Rd (P2 α) := do
  let x ← Rd.sc c; let y ← Rd.sc c; pure ⟨x, y⟩

def rdM2 {α} [Codec α] (c : Ctx) : Rd (M2 α) := do
  let a ← Rd.sc c; let b ← Rd.sc c; let cc ← Rd.sc c; let d ← Rd.sc c; pure ⟨a, b, cc, d⟩

def rdBool (c : Ctx) : Rd Bool := do let v ← Rd.int c; pure (v != 0)

/-- all `some` → the values, otherwise `none` -/
def allSome {β} (l : List (Option β)) : Option (List β) := l.mapM id

def outP2s {α} [Codec α] (l : List (P2 α)) : String :=
  " ".intercalate (l.map fun p => s!"{Out.sc p.x} {Out.sc p.y}")

/-- driver ops of C14. `none` = unknown op. -/
def run (α : Type) [Scalar α] [Codec α] (op : String) (c : Ctx) : Option (Rd String) :=
  match op with
  | "c14.circle" => some do
      -- in: r, angles ; out: d per angle
      let r : α ← Rd.sc c
      let th : List α ← Rd.list c (Rd.sc c)
      pure (Out.scs (th.map (DTS.circleDts r)))
  | "c14.ellipse" => some do
      -- in: a b, angles ; out: d per angle
      let a : α ← Rd.sc c
      let b : α ← Rd.sc c
      let th : List α ← Rd.list c (Rd.sc c)
      pure (Out.scs (th.map (DTS.ellipseDts a b)))
  | "c14.cpoly" => some do
      -- in: R(4) flip verts center angles ; out: d per angle | E:unassigned
      let R : M2 α ← rdM2 c
      let flip ← rdBool c
      let V : List (P2 α) ← Rd.list c (rdP2 c)
      let cen : P2 α ← rdP2 c
      let th : List α ← Rd.list c (Rd.sc c)
      match allSome (th.map (DTS.cpolyDtsFrom R flip V cen)) with
      | some ds => pure (Out.scs ds)
      | none => pure "E:unassigned"
  | "c14.spg" => some do
      -- in: Rk(4) flipK flip verts centroid r angles ; out: d per angle | E:unassigned
      let Rk : M2 α ← rdM2 c
      let flipK ← rdBool c
      let flip ← rdBool c
      let V : List (P2 α) ← Rd.list c (rdP2 c)
      let cen : P2 α ← rdP2 c
      let r : α ← Rd.sc c
      let th : List α ← Rd.list c (Rd.sc c)
      match allSome (th.map (DTS.spgDts Rk flipK flip V cen r)) with
      | some ds => pure (Out.scs ds)
      | none => pure "E:unassigned"
  | "c14.spg.newverts" => some do
      -- in: flip verts centroid r ; out: x y per expanded vertex
      let flip ← rdBool c
      let V : List (P2 α) ← Rd.list c (rdP2 c)
      let cen : P2 α ← rdP2 c
      let r : α ← Rd.sc c
      pure (outP2s (DTS.spgNewVerts flip V cen r))
  | "c14.spec.poly" => some do
      -- in: verts, directions u ; out: centroid(2), then per direction the exit parameter t
      --     of the ray centroid + t u | E:no-hit     (exact when run in mode Q)
      let V : List (P2 α) ← Rd.list c (rdP2 c)
      let us : List (P2 α) ← Rd.list c (rdP2 c)
      let cen := Spec.polyCentroid V
      match allSome (us.map (Spec.rayExit V cen)) with
      | some ts => pure s!"{Out.sc cen.x} {Out.sc cen.y} {Out.scs ts}"
      | none => pure "E:no-hit"
  | "c14.hyp" => some do
      -- in: flip verts centre ; out: strictConvexCCWb, strictlyInsideCCWb (0/1) of the list the code
      --     works with (reversed if flip).  Exact in mode Q: these are the hypotheses of
      --     `cpoly_dts_correct(_cw)` (`cpoly_dts_correct_checked`), decided on the stored data.
      let flip ← rdBool c
      let V : List (P2 α) ← Rd.list c (rdP2 c)
      let cen : P2 α ← rdP2 c
      let W := if flip then V.reverse else V
      let b1 := Spec.strictConvexCCWb W
      let b2 := Spec.strictlyInsideCCWb W cen
      pure s!"{Out.int (if b1 then 1 else 0)} {Out.int (if b2 then 1 else 0)}"
  | _ => none

end OpsC14
