import CoxeterVerif.Driver.Proto

namespace OpsC14

/-- driver ops of C14. `none` = unknown op. -/
def run (α : Type) [Scalar α] [Codec α] (op : String) (c : Ctx) : Option (Rd String) :=
  match op with
  | _ => none

end OpsC14
