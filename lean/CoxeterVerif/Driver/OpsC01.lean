import CoxeterVerif.Driver.Proto
import CoxeterVerif.Model.ConvexPolyhedron
import CoxeterVerif.Spec.Solid
import CoxeterVerif.Model.ChainCheck

namespace OpsC01

/-- ops of C01. `none` = unknown op. -/
def run (α : Type) [Scalar α] [Codec α] (op : String) (c : Ctx) : Option (Rd String) :=
  match op with
  | "cp.measures" => some do
      -- in: tris ; out: signedVolume volume centroid(3) area inertia(9)
      let S : List (Tri α) ← Rd.list c (Rd.tri c)
      let sv := CP.signedVolume S
      let vol := CP.volume S
      let cen := CP.centroid S vol
      let I := CP.inertia S cen vol
      pure s!"{Out.sc sv} {Out.sc vol} {Out.v3 cen} {Out.sc (CP.surfaceArea S)} {Out.m3 I}"
  | "cp.face" => some do
      -- in: simplices of one face ; out: area centroid(3)
      let S : List (Tri α) ← Rd.list c (Rd.tri c)
      pure s!"{Out.sc (CP.faceArea S)} {Out.v3 (CP.faceCentroid S)}"
  | "spec.solid" => some do
      -- in: tets ; out: vol first(3) second(xx xy xz yy yz zz) inertia(9) centroid(3)
      let Ts : List (Tet α) ← Rd.list c (Rd.tet c)
      let m := Spec.second Ts
      pure s!"{Out.sc (Spec.vol Ts)} {Out.v3 (Spec.first Ts)} {Out.sc (m 0 0)} {Out.sc (m 0 1)} {Out.sc (m 0 2)} {Out.sc (m 1 1)} {Out.sc (m 1 2)} {Out.sc (m 2 2)} {Out.m3 (Spec.inertia Ts)} {Out.v3 (Spec.centroid Ts)}"
  | "chain.check" => some do
      -- in: tris S, tets Ts ; out: chainCheck(S, boundary of Ts)  closedCheck(S)  nondegCheck(S)  Spec.vol Ts
      -- (use Q mode: the hypotheses of `cp_measures_exact_checked`, decided exactly)
      let S : List (Tri α) ← Rd.list c (Rd.tri c)
      let Ts : List (Tet α) ← Rd.list c (Rd.tet c)
      let ok := ChainCheck.chainCheck S (Ts.flatMap Tet.bdry)
      pure s!"{Out.bool ok} {Out.bool (ChainCheck.closedCheck S)} {Out.bool (ChainCheck.nondegCheck S)} {Out.sc (Spec.vol Ts)}"
  | "chain.eq" => some do
      -- in: tris S, tris T ; out: chainCheck(S, T)
      let S : List (Tri α) ← Rd.list c (Rd.tri c)
      let T : List (Tri α) ← Rd.list c (Rd.tri c)
      pure (Out.bool (ChainCheck.chainCheck S T))
  | "chain.cone" => some do
      -- in: tris S, apex p ; out: chainCheck(S, boundary of cone p S)
      let S : List (Tri α) ← Rd.list c (Rd.tri c)
      let p : V3 α ← Rd.v3 c
      pure (Out.bool (ChainCheck.chainCheck S ((ChainCheck.cone p S).flatMap Tet.bdry)))
  | _ => none

end OpsC01
