import CoxeterVerif.Driver.Proto
import CoxeterVerif.Model.ConvexPolyhedron
import CoxeterVerif.Spec.Solid
import CoxeterVerif.Model.ChainCheck
import CoxeterVerif.Model.ConvexPolyhedronHistory

namespace OpsC01
open Mut

def rdTriple (c : Ctx) : Rd (Nat × Nat × Nat) := do
  let a ← Rd.nat c; let b ← Rd.nat c; let d ← Rd.nat c; pure (a, b, d)

def rdEq {α} [Codec α] (c : Ctx) : Rd (V3 α × α) := do
  let n ← Rd.v3 c; let d ← Rd.sc c; pure (n, d)

def outNats (l : List Nat) : String := " ".intercalate (s!"i{l.length}" :: l.map fun x => s!"i{x}")
def outNatLists (l : List (List Nat)) : String := " ".intercalate (s!"i{l.length}" :: l.map outNats)

/-- what the getters of a state return: volume area centroid(3) inertia_tensor(9) -/
def outMeasures {α} [Scalar α] [Codec α] (s : CPState α) : String :=
  s!"{Out.sc s.volume} {Out.sc s.area} {Out.v3 s.centroid} {Out.m3 (CPH.inertiaTensor s)}"

/-- ops of C01. `none` = unknown op. -/
def run (α : Type) [Scalar α] [Codec α] (op : String) (c : Ctx) : Option (Rd String) :=
  match op with
  | "cp.measures" => some do
      -- in: tris ; out: signedVolume volume centroid(3) area inertia(9)
      let S : List (Tri α) ← Rd.list c (Rd.tri c)
      let sv := CP.signedVolume S
      let vol := CP.volume S
      let cen := CP.centroid S vol
      let I := CP.inertia S cen vol
      pure s!"{Out.sc sv} {Out.sc vol} {Out.v3 cen} {Out.sc (CP.surfaceArea S)} {Out.m3 I}"
  | "cp.face" => some do
      -- in: simplices of one face ; out: area centroid(3)
      let S : List (Tri α) ← Rd.list c (Rd.tri c)
      pure s!"{Out.sc (CP.faceArea S)} {Out.v3 (CP.faceCentroid S)}"
  | "spec.solid" => some do
      -- in: tets ; out: vol first(3) second(xx xy xz yy yz zz) inertia(9) centroid(3)
      let Ts : List (Tet α) ← Rd.list c (Rd.tet c)
      let m := Spec.second Ts
      pure s!"{Out.sc (Spec.vol Ts)} {Out.v3 (Spec.first Ts)} {Out.sc (m 0 0)} {Out.sc (m 0 1)} {Out.sc (m 0 2)} {Out.sc (m 1 1)} {Out.sc (m 1 2)} {Out.sc (m 2 2)} {Out.m3 (Spec.inertia Ts)} {Out.v3 (Spec.centroid Ts)}"
  | "chain.check" => some do
      -- in: tris S, tets Ts ; out: chainCheck(S, boundary of Ts)  closedCheck(S)  nondegCheck(S)  Spec.vol Ts
      -- (use Q mode: the hypotheses of `cp_measures_exact_checked`, decided exactly)
      let S : List (Tri α) ← Rd.list c (Rd.tri c)
      let Ts : List (Tet α) ← Rd.list c (Rd.tet c)
      let ok := ChainCheck.chainCheck S (Ts.flatMap Tet.bdry)
      pure s!"{Out.bool ok} {Out.bool (ChainCheck.closedCheck S)} {Out.bool (ChainCheck.nondegCheck S)} {Out.sc (Spec.vol Ts)}"
  | "chain.eq" => some do
      -- in: tris S, tris T ; out: chainCheck(S, T)
      let S : List (Tri α) ← Rd.list c (Rd.tri c)
      let T : List (Tri α) ← Rd.list c (Rd.tri c)
      pure (Out.bool (ChainCheck.chainCheck S T))
  | "chain.cone" => some do
      -- in: tris S, apex p ; out: chainCheck(S, boundary of cone p S)
      let S : List (Tri α) ← Rd.list c (Rd.tri c)
      let p : V3 α ← Rd.v3 c
      pure (Out.bool (ChainCheck.chainCheck S ((ChainCheck.cone p S).flatMap Tet.bdry)))
  | "cp.history" => some do
      -- in: verts, oriented simplices (index triples), hull.volume, hull.area, nops, then per op
      --     0 v (volume.setter) | 1 v (surface_area.setter) | 2 current v (a *_radius setter) | 3 c(3) (centroid.setter)
      -- out: measures of the constructed object, then per op: raised? (i0/i1) + measures after it
      let verts : List (V3 α) ← Rd.list c (Rd.v3 c)
      let simplices ← Rd.list c (rdTriple c)
      let hv : α ← Rd.sc c
      let ha : α ← Rd.sc c
      let n ← Rd.nat c
      let mut s : CPState α := CPH.construct verts simplices [] [] [] hv ha
      let mut out : List String := [outMeasures s]
      for _ in [0:n] do
        let code ← Rd.nat c
        let op : CPH.MOp α ←
          if code = 0 then do let v ← Rd.sc c; pure (CPH.MOp.setVolume v)
          else if code = 1 then do let v ← Rd.sc c; pure (CPH.MOp.setSurfaceArea v)
          else if code = 2 then do let cur ← Rd.sc c; let v ← Rd.sc c; pure (CPH.MOp.setRadius cur v)
          else do let cc ← Rd.v3 c; pure (CPH.MOp.setCentroid cc)
        match CPH.step s op with
        | .ok s' => s := s'; out := out ++ ["i0 " ++ outMeasures s]
        | .error _ => out := out ++ ["i1 " ++ outMeasures s]
      pure (" ".intercalate out)
  | "cp.combine" => some do
      -- `_combine_simplices`: in: Qhull's simplex equations (normal(3) offset), tol ; out: the face groups
      let eqs : List (V3 α × α) ← Rd.list c (rdEq c)
      let tol : α ← Rd.sc c
      pure (outNatLists (CP.combineSimplices tol eqs))
  | "cp.partition" => some do
      -- in: n, groups ; out: CP.groupsPartition n groups (hypothesis of cp_surface_area_eq_sum_faces_checked)
      let n ← Rd.nat c
      let groups ← Rd.list c (Rd.list c (Rd.nat c))
      pure (Out.bool (CP.groupsPartition n groups))
  | "tets.positive" => some do
      -- in: tets ; out: CPH.posTetsCheck (use Q mode: hypothesis of cp_*_lebesgue, decided exactly)
      let Ts : List (Tet α) ← Rd.list c (Rd.tet c)
      pure (Out.bool (CPH.posTetsCheck Ts))
  | _ => none

end OpsC01
