import CoxeterVerif.Driver.Proto
import CoxeterVerif.Model.Heap

/-!
  Driver ops of C16 (heap machine, `Model/Heap.lean`).

  `heap.run`  request
    cls                      0 circle 1 ellipse 2 sphere 3 ellipsoid 4 polygon 5 convexPolygon
                             6 spheropolygon 7 polyhedron 8 convexPolyhedron 9 spheropolyhedron
    verts normal cen eqs seqs    five length-prefixed scalar lists: contents of `_vertices`, `_normal`,
                             `_centroid`, `_equations`, `_simplex_equations` (ids 0..4)
    volume                   `_volume`
    edgesCached              i0|i1   (id 5 holds the cached `edges` when 1)
    arg                      length-prefixed scalar list: the caller's argument array (id 6)
    mode                     0: centroid answers come from the tables below (what the real getters
                                returned, keyed by the CONTENT of the vertex array they were asked
                                about — unknown content → 0);
                             1: the centroid getter is the exactly translation-equivariant extension
                                of the first table entry (`c0 + (v[0] − v0[0])`)  (used with `Q`)
    cenTable                 n × (verts-key list, v3)      `Polygon/Polyhedron.centroid`
    cenVTable                n × (verts-key list, v3)      `ConvexPolyhedron._centroid_from_…`
    reps                     how many times the query is run in a row
    query                    0 g | 1 n g* | 2 | 3 | 4 fmt | 5      (get, to_json, get_face_area,
                             to_hoomd, save, query-with-argument)
                             g = 0 vertices 1 normal 2 centroid 3 equations 4 normals
                                 5 face_centroids 6 edges 7 inertia_tensor 8 other
  reply (after the LAST repetition)
    err                      i0 none | i1 AttributeError | i2 NotImplementedError | i3 other
    n, then n × (tag, where) where = 0 new array | 1 is `_vertices` | 2 `_normal` | 3 `_centroid`
                             | 4 `_equations` | 5 `_simplex_equations` | 6 `edges` cache
                             | 7 `_face_centroids` | 8 `_simplex_areas` | 9 an older array that is
                             no attribute any more
    5 ints                   attribute still bound to its original array? (`_vertices` … `_simplex_equations`)
    3 ints                   `_simplex_areas`, `_face_centroids`, `edges` cache present?
    4 lists                  contents afterwards of the ORIGINAL arrays 0 (`_vertices`), 1 (`_normal`),
                             2 (`_centroid`), 6 (argument)
    3 lists                  contents of whatever `_vertices`, `_normal`, `_centroid` are bound to now
    n lists                  contents of the returned arrays
-/
namespace OpsC16
open C16 Scalar

variable {α : Type} [Scalar α] [Codec α]

def listEq (a b : List α) : Bool :=
  match a, b with
  | [], [] => true
  | x :: a', y :: b' => Scalar.eqb x y && listEq a' b'
  | _, _ => false

def lookup (tbl : List (List α × V3 α)) (k : List α) : V3 α :=
  match tbl with
  | [] => V3.zero
  | (k', v) :: r => if listEq k' k then v else lookup r k

/-- exactly equivariant extension of the first table entry -/
def equivariant (tbl : List (List α × V3 α)) (k : List α) : V3 α :=
  match tbl, k with
  | (x0 :: y0 :: z0 :: _, c) :: _, x :: y :: z :: _ => c + (⟨x, y, z⟩ - ⟨x0, y0, z0⟩)
  | _, _ => V3.zero

def mkMeas (mode : Nat) (cenT cenVT : List (List α × V3 α)) (eqs seqs : List α) (vol : α) : Meas α where
  cen := fun vs _ => if mode = 0 then lookup cenT vs else equivariant cenT vs
  cenV := fun _ vs => if mode = 0 then lookup cenVT vs else equivariant cenVT vs
  vol := fun _ => vol
  eqs := fun _ => eqs
  seqs := fun _ => seqs
  rot := fun _ vs => vs
  gather := fun vs => vs
  tensor2 := fun _ _ _ => []
  tensor3 := fun _ _ => []
  value := fun _ _ => []
  withArg := fun _ _ _ => []
  prep := fun _ _ a => a
  stl := fun _ c => c

def clsOf : Nat → Cls
  | 0 => .circle | 1 => .ellipse | 2 => .sphere | 3 => .ellipsoid | 4 => .polygon
  | 5 => .convexPolygon | 6 => .spheropolygon | 7 => .polyhedron | 8 => .convexPolyhedron
  | _ => .spheropolyhedron

def getterOf : Nat → Getter
  | 0 => .vertices | 1 => .normal | 2 => .centroid | 3 => .equations | 4 => .normals
  | 5 => .faceCentroids | 6 => .edges | 7 => .inertiaTensor | _ => .value "other"

def rdScs (c : Ctx) : Rd (List α) := Rd.list c (Rd.sc c)

def rdTable (c : Ctx) : Rd (List (List α × V3 α)) :=
  Rd.list c (do let k ← rdScs c; let v ← Rd.v3 c; pure (k, v))

def rdQuery (c : Ctx) : Rd Query := do
  let code ← Rd.nat c
  match code with
  | 0 => do let g ← Rd.nat c; pure (.get (getterOf g))
  | 1 => do let gs ← Rd.list c (Rd.nat c); pure (.toJson (gs.map getterOf))
  | 2 => pure .getFaceArea
  | 3 => pure .toHoomd
  | 4 => do let f ← Rd.nat c; pure (.save f)
  | _ => pure (.withArg "query" 6)

def errCode : Option String → Int
  | none => 0
  | some "AttributeError" => 1
  | some "NotImplementedError" => 2
  | some _ => 3

def whereIs (s : St α) (i : Id) : Int :=
  if i = s.fVerts then 1 else if i = s.fNormal then 2 else if i = s.fCen then 3
  else if i = s.fEqs then 4 else if i = s.fSeqs then 5
  else if s.cEdges = some i then 6 else if s.cFaceCen = some i then 7
  else if s.cAreas = some i then 8 else if i < 7 then 9 else 0

def b2i (b : Bool) : Int := if b then 1 else 0

def outList (l : List α) : String :=
  if l.isEmpty then "i0" else s!"i{l.length} {Out.scs l}"

def runOp (c : Ctx) : Rd String := do
  let cls ← Rd.nat c
  let verts : List α ← rdScs c
  let normal : List α ← rdScs c
  let cen : List α ← rdScs c
  let eqs : List α ← rdScs c
  let seqs : List α ← rdScs c
  let vol : α ← Rd.sc c
  let ec ← Rd.nat c
  let arg : List α ← rdScs c
  let mode ← Rd.nat c
  let cenT ← rdTable c
  let cenVT ← rdTable c
  let reps ← Rd.nat c
  let q ← rdQuery c
  let M : Meas α := mkMeas mode cenT cenVT eqs seqs vol
  let s0 : St α :=
    { heap := [(0, verts), (1, normal), (2, cen), (3, eqs), (4, seqs), (5, []), (6, arg)], next := 7,
      cls := clsOf cls, fVerts := 0, fNormal := 1, fCen := 2, fEqs := 3, fSeqs := 4, volume := vol,
      consts := [], cAreas := none, cFaceCen := none, cEdges := if ec = 1 then some 5 else none,
      handed := [], args := [] }
  let mut s := s0
  let mut o : Out α := {}
  for _ in [0:reps] do
    let r := run M q s
    s := r.1
    o := r.2
  let rets := o.rets.map fun r => s!"i{r.tag} i{whereIs s r.id}"
  let head := [s!"i{errCode o.err}", s!"i{o.rets.length}"] ++ rets ++
    [Out.int (b2i (s.fVerts == 0)), Out.int (b2i (s.fNormal == 1)), Out.int (b2i (s.fCen == 2)),
     Out.int (b2i (s.fEqs == 3)), Out.int (b2i (s.fSeqs == 4)),
     Out.int (b2i s.cAreas.isSome), Out.int (b2i s.cFaceCen.isSome), Out.int (b2i s.cEdges.isSome)]
  let cells := [s.get 0, s.get 1, s.get 2, s.get 6, s.get s.fVerts, s.get s.fNormal, s.get s.fCen] ++
    o.rets.map fun r => s.get r.id
  pure (" ".intercalate (head ++ cells.map outList))

/-- `rows[perm]` of an `(N,3)` array (`self._vertices[vert_order, :]`) -/
def permRows (perm : List Nat) (l : List α) : List α :=
  perm.foldr (fun i acc => (l.drop (3 * i)).take 3 ++ acc) []

/-! `heap.ctor`  request
      cls, twoCols (i0|i1), verts (the caller's array, id 0), hasNormal (i0|i1), normal (id 1), center (id 2),
      computedNormal, perm (row order after `_reorder_verts`; ignored for other classes),
      eqs seqs cen (what the external routines produced at construction), volume,
      n, then n queries (as in `heap.run`; the argument array is id 0 — never used by the harness)
    reply
      3 ints     caller array 0 / 1 / 2 is bound to NO attribute after the constructor (1 = detached)
      3 ints     the same after the queries
      3 lists    contents of the caller's arrays 0, 1, 2 after constructor + queries
      3 lists    contents of `_vertices`, `_normal`, `_centroid` right after the constructor -/
def ctorOp (c : Ctx) : Rd String := do
  let cls ← Rd.nat c
  let two ← Rd.nat c
  let verts : List α ← rdScs c
  let hasN ← Rd.nat c
  let normal : List α ← rdScs c
  let center : List α ← rdScs c
  let cn : List α ← rdScs c
  let perm ← Rd.list c (Rd.nat c)
  let eqs : List α ← rdScs c
  let seqs : List α ← rdScs c
  let cen : List α ← rdScs c
  let vol : α ← Rd.sc c
  let qs ← Rd.list c (rdQuery c)
  let M : Meas α := mkMeas 0 [] [] eqs seqs vol
  let ci : CtorIn α :=
    { verts := 0, twoCols := two == 1, normal := if hasN = 1 then some 1 else none, center := 2, consts := [],
      computedNormal := cn, order := permRows perm, eqs := eqs, seqs := seqs, cen := cen, volume := vol }
  let s0 := construct (clsOf cls) ci [(0, verts), (1, normal), (2, center)] 3
  let s1 := runAll M qs s0
  let det (s : St α) (i : Nat) : Int :=
    b2i (i != s.fVerts && i != s.fNormal && i != s.fCen && i != s.fEqs && i != s.fSeqs)
  let head := [Out.int (det s0 0), Out.int (det s0 1), Out.int (det s0 2),
               Out.int (det s1 0), Out.int (det s1 1), Out.int (det s1 2)]
  let cells := [s1.get 0, s1.get 1, s1.get 2, s0.get s0.fVerts, s0.get s0.fNormal, s0.get s0.fCen]
  pure (" ".intercalate (head ++ cells.map outList))

/-- driver ops of C16. `none` = unknown op. -/
def run (α : Type) [Scalar α] [Codec α] (op : String) (c : Ctx) : Option (Rd String) :=
  match op with
  | "heap.run" => some (runOp (α := α) c)
  | "heap.ctor" => some (ctorOp (α := α) c)
  | _ => none

end OpsC16
