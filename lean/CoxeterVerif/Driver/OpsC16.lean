import CoxeterVerif.Driver.Proto

namespace OpsC16

/-- driver ops of C16. `none` = unknown op. -/
def run (α : Type) [Scalar α] [Codec α] (op : String) (c : Ctx) : Option (Rd String) :=
  match op with
  | _ => none

end OpsC16
