import CoxeterVerif.Driver.Proto
import CoxeterVerif.Model.Mutable
import CoxeterVerif.Model.Mutable2
import CoxeterVerif.Model.Mutable3

namespace OpsC03
open Mut

def rdTriple (c : Ctx) : Rd (Nat × Nat × Nat) := do
  let a ← Rd.nat c; let b ← Rd.nat c; let d ← Rd.nat c; pure (a, b, d)

def rdState {α} [Scalar α] [Codec α] (c : Ctx) : Rd (CPState α) := do
  let verts ← Rd.list c (Rd.v3 c)
  let simplices ← Rd.list c (rdTriple c)
  let faceHead ← Rd.list c (rdTriple c)
  let eqN ← Rd.list c (Rd.v3 c)
  let eqD ← Rd.list c (Rd.sc c)
  let seqN ← Rd.list c (Rd.v3 c)
  let seqD ← Rd.list c (Rd.sc c)
  let volume ← Rd.sc c
  let area ← Rd.sc c
  let centroid ← Rd.v3 c
  pure ⟨verts, simplices, faceHead, eqN, eqD, seqN, seqD, volume, area, centroid⟩

def rdM3 {α} [Codec α] (c : Ctx) : Rd (M3 α) := do
  let xx ← Rd.sc c; let xy ← Rd.sc c; let xz ← Rd.sc c
  let yx ← Rd.sc c; let yy ← Rd.sc c; let yz ← Rd.sc c
  let zx ← Rd.sc c; let zy ← Rd.sc c; let zz ← Rd.sc c
  pure ⟨xx, xy, xz, yx, yy, yz, zx, zy, zz⟩

def outState {α} [Codec α] (s : CPState α) : String :=
  let vs := " ".intercalate (s.verts.map Out.v3)
  let en := " ".intercalate (s.eqN.map Out.v3)
  let sn := " ".intercalate (s.seqN.map Out.v3)
  s!"{vs} {en} {Out.scs s.eqD} {sn} {Out.scs s.seqD} {Out.sc s.volume} {Out.sc s.area} {Out.v3 s.centroid}"


/-! helpers for the full state machines (`Model/Mutable3.lean`) -/

def outNats (l : List Nat) : String := " ".intercalate (s!"i{l.length}" :: l.map fun x => s!"i{x}")
def outNatLists (l : List (List Nat)) : String := " ".intercalate (s!"i{l.length}" :: l.map outNats)
def outEdges (l : List Edge2) : String :=
  " ".intercalate (s!"i{l.length}" :: l.map fun e => s!"i{e.1} i{e.2}")
def outEdgeCache (o : Option (List Edge2)) : String :=
  match o with
  | none => "i0"
  | some e => "i1 " ++ outEdges e
def rdEdge (c : Ctx) : Rd Edge2 := do let a ← Rd.nat c; let b ← Rd.nat c; pure (a, b)
def rdOpt {β} (c : Ctx) (item : Rd β) : Rd (Option β) := do
  let f ← Rd.nat c
  if f = 0 then pure none else do let x ← item; pure (some x)

/-- one of the opcodes 0–5 of `phstate.run` on the core of a `PHFull`:
    (new core, raised?, vertices handed out by `to_hoomd`) -/
def phCoreStep {α} [Scalar α] [Codec α] (c : Ctx) (code : Nat) (s : PHState α) :
    Rd (PHState α × Bool × Option (List (V3 α))) := do
  if code = 0 then
    let v : α ← Rd.sc c
    match s.setVolume v with
    | .ok s' => pure (s', false, none)
    | .error _ => pure (s, true, none)
  else if code = 1 then
    let v : α ← Rd.sc c
    match s.setSurfaceArea v with
    | .ok s' => pure (s', false, none)
    | .error _ => pure (s, true, none)
  else if code = 2 then
    let cur : α ← Rd.sc c
    let v : α ← Rd.sc c
    match s.setRadius cur v with
    | .ok s' => pure (s', false, none)
    | .error _ => pure (s, true, none)
  else if code = 3 then
    let cur : V3 α ← Rd.v3 c
    let cc : V3 α ← Rd.v3 c
    pure (s.setCentroid cur cc, false, none)
  else if code = 4 then
    let P : M3 α ← rdM3 c
    pure (s.diagonalizeInertia P, false, none)
  else
    let c0 : V3 α ← Rd.v3 c
    let c1 : V3 α ← Rd.v3 c
    let r := s.toHoomd c0 c1
    pure (r.2, false, some r.1)

/-- one of the opcodes 0–5 of `cpstate.run` on the core of a `CPFull` -/
def cpCoreStep {α} [Scalar α] [Codec α] (c : Ctx) (code : Nat) (s : CPState α) :
    Rd (CPState α × Bool × Option (CPState.Hoomd α)) := do
  if code = 0 then
    let v : α ← Rd.sc c
    match s.setVolume v with
    | .ok s' => pure (s', false, none)
    | .error _ => pure (s, true, none)
  else if code = 1 then
    let v : α ← Rd.sc c
    match s.setSurfaceArea v with
    | .ok s' => pure (s', false, none)
    | .error _ => pure (s, true, none)
  else if code = 2 then
    let cur : α ← Rd.sc c
    let v : α ← Rd.sc c
    match s.setRadius cur v with
    | .ok s' => pure (s', false, none)
    | .error _ => pure (s, true, none)
  else if code = 3 then
    let cc : V3 α ← Rd.v3 c
    pure (s.setCentroid cc, false, none)
  else if code = 4 then
    let P : M3 α ← rdM3 c
    let simp' ← Rd.list c (rdTriple c)
    pure (s.diagonalizeInertia P simp', false, none)
  else
    let r := s.toHoomd
    pure (r.2, false, some r.1)

/-- driver ops of C03: `cpstate.run <state> <nops> (<opcode> args)*`
    opcodes: 0 setVolume v | 1 setSurfaceArea v | 2 setRadius current v | 3 setCentroid c(3)
             | 4 diagonalize P(9) simp' | 5 toHoomd
    reply: raise log, final state, then what the last `to_hoomd` handed out (vertices, centroid,
    volume; the initial ones if there was none). Ops for the other classes below. -/
def run (α : Type) [Scalar α] [Codec α] (op : String) (c : Ctx) : Option (Rd String) :=
  match op with
  | "cpstate.run" => some do
      let s0 : CPState α ← rdState c
      let n ← Rd.nat c
      let mut s := s0
      let mut hoomd : CPState.Hoomd α := ⟨s0.verts, s0.centroid, s0.volume⟩
      let mut log : List String := []
      for _ in [0:n] do
        let code ← Rd.nat c
        if code = 0 then
          let v : α ← Rd.sc c
          match s.setVolume v with
          | .ok s' => s := s'; log := log ++ ["i0"]
          | .error _ => log := log ++ ["i1"]
        else if code = 1 then
          let v : α ← Rd.sc c
          match s.setSurfaceArea v with
          | .ok s' => s := s'; log := log ++ ["i0"]
          | .error _ => log := log ++ ["i1"]
        else if code = 2 then
          let cur : α ← Rd.sc c
          let v : α ← Rd.sc c
          match s.setRadius cur v with
          | .ok s' => s := s'; log := log ++ ["i0"]
          | .error _ => log := log ++ ["i1"]
        else if code = 3 then
          let cc : V3 α ← Rd.v3 c
          s := s.setCentroid cc
          log := log ++ ["i0"]
        else if code = 4 then
          -- diagonalize_inertia: raw eigh matrix (row major), the re-oriented simplices
          let P : M3 α ← rdM3 c
          let simp' ← Rd.list c (rdTriple c)
          s := s.diagonalizeInertia P simp'
          log := log ++ ["i0"]
        else
          let r := s.toHoomd
          hoomd := r.1
          s := r.2
          log := log ++ ["i0"]
      let hv := " ".intercalate (hoomd.vertices.map Out.v3)
      pure (" ".intercalate log ++ " " ++ outState s ++ " " ++ hv ++ " " ++ Out.v3 hoomd.centroid ++ " "
        ++ Out.sc hoomd.volume)
  | "phstate.run" => some do
      -- <verts> <faces> <eqN> <eqD> <nops> (<opcode> args)*
      -- opcodes: 0 setVolume v | 1 setSurfaceArea v | 2 setRadius cur v | 3 setCentroid cur c
      --          4 diagonalize P | 5 toHoomd c0 c1
      let verts ← Rd.list c (Rd.v3 c)
      let faces ← Rd.list c (Rd.list c (Rd.nat c))
      let eqN ← Rd.list c (Rd.v3 c)
      let eqD ← Rd.list c (Rd.sc c)
      let mut s : PHState α := ⟨verts, faces, eqN, eqD⟩
      let mut hoomd : List (V3 α) := verts
      let n ← Rd.nat c
      let mut log : List String := []
      for _ in [0:n] do
        let code ← Rd.nat c
        if code = 0 then
          let v : α ← Rd.sc c
          match s.setVolume v with
          | .ok s' => s := s'; log := log ++ ["i0"]
          | .error _ => log := log ++ ["i1"]
        else if code = 1 then
          let v : α ← Rd.sc c
          match s.setSurfaceArea v with
          | .ok s' => s := s'; log := log ++ ["i0"]
          | .error _ => log := log ++ ["i1"]
        else if code = 2 then
          let cur : α ← Rd.sc c
          let v : α ← Rd.sc c
          match s.setRadius cur v with
          | .ok s' => s := s'; log := log ++ ["i0"]
          | .error _ => log := log ++ ["i1"]
        else if code = 3 then
          let cur : V3 α ← Rd.v3 c
          let cc : V3 α ← Rd.v3 c
          s := s.setCentroid cur cc
          log := log ++ ["i0"]
        else if code = 4 then
          let P : M3 α ← rdM3 c
          s := s.diagonalizeInertia P
          log := log ++ ["i0"]
        else
          let c0 : V3 α ← Rd.v3 c
          let c1 : V3 α ← Rd.v3 c
          let r := s.toHoomd c0 c1
          hoomd := r.1
          s := r.2
          log := log ++ ["i0"]
      let vs := " ".intercalate (s.verts.map Out.v3)
      let en := " ".intercalate (s.eqN.map Out.v3)
      let hv := " ".intercalate (hoomd.map Out.v3)
      pure (" ".intercalate log ++ s!" {vs} {en} {Out.scs s.eqD} {Out.sc s.volume} {Out.sc s.surfaceArea} {hv}")
  | "phfull.run" => some do
      -- <verts> <faces> <eqN> <eqD> <conv> <neighbors> <edges cache: 0 | 1 edges> <nops> (<opcode> args)*
      -- opcodes 0–5 as `phstate.run`; 6 sortFaces faces1 | 7 mergeFaces faces1 | 8 read `edges`
      -- reply: raise log; final verts, eqN, eqD, faces, neighbors, edges cache, volume, surface area;
      --   vertices of the last to_hoomd; what the last `edges` read returned;
      --   labels and contract of the last merge_faces (`i0` if none)
      let verts ← Rd.list c (Rd.v3 c)
      let faces ← Rd.list c (Rd.list c (Rd.nat c))
      let eqN ← Rd.list c (Rd.v3 c)
      let eqD ← Rd.list c (Rd.sc c)
      let conv ← Rd.nat c
      let nbrs ← Rd.list c (Rd.list c (Rd.nat c))
      let cache ← rdOpt c (Rd.list c (rdEdge c))
      let mut s : PHFull α := ⟨⟨verts, faces, eqN, eqD⟩, conv != 0, nbrs, cache⟩
      let mut hoomd : List (V3 α) := verts
      let mut lastEdges : List Edge2 := []
      let mut mergeInfo : String := "i0"
      let n ← Rd.nat c
      let mut log : List String := []
      for _ in [0:n] do
        let code ← Rd.nat c
        if code ≤ 5 then
          let r ← phCoreStep c code s.core
          s := { s with core := r.1 }
          log := log ++ [if r.2.1 then "i1" else "i0"]
          match r.2.2 with
          | some h => hoomd := h
          | none => pure ()
        else if code = 6 then
          let faces1 ← Rd.list c (Rd.list c (Rd.nat c))
          match s.sortFaces faces1 with
          | .ok s' => s := s'; log := log ++ ["i0"]
          | .error _ => log := log ++ ["i1"]
        else if code = 7 then
          let faces1 ← Rd.list c (Rd.list c (Rd.nat c))
          mergeInfo := "i1 " ++ outNats s.mergeLabels ++ " " ++ Out.bool (s.mergeContract faces1)
          let r := s.mergeFaces faces1
          s := r.1
          log := log ++ [if r.2.isSome then "i1" else "i0"]
        else
          let r := s.readEdges
          lastEdges := r.1
          s := r.2
          log := log ++ ["i0"]
      let vs := " ".intercalate (s.core.verts.map Out.v3)
      let en := " ".intercalate (s.core.eqN.map Out.v3)
      let hv := " ".intercalate (hoomd.map Out.v3)
      pure (" ".intercalate log ++ s!" {vs} i{s.core.eqN.length} {en} {Out.scs s.core.eqD} "
        ++ outNatLists s.core.faces ++ " " ++ outNatLists s.neighbors ++ " " ++ outEdgeCache s.edgesCache
        ++ s!" {Out.sc s.core.volume} {Out.sc s.core.surfaceArea} {hv} " ++ outEdges lastEdges ++ " " ++ mergeInfo)
  | "cpfull.run" => some do
      -- <cpstate> <faces> <coplanar> <neighbors> <edges cache> <simplex areas: 0 | 1 list> <face centroids: 0 | 1 list>
      -- <nops> ops; opcodes 0–5 as `cpstate.run`; 6 sortFaces faces1 | 7 mergeFaces faces1 | 8 read `edges`
      --   | 9 get_face_area() | 10 face_centroids | 11 get_face_area("total")
      let core : CPState α ← rdState c
      let faces ← Rd.list c (Rd.list c (Rd.nat c))
      let coplanar ← Rd.list c (Rd.list c (Rd.nat c))
      let nbrs ← Rd.list c (Rd.list c (Rd.nat c))
      let cache ← rdOpt c (Rd.list c (rdEdge c))
      let sa : Option (List α) ← rdOpt c (Rd.list c (Rd.sc c))
      let fc : Option (List (V3 α)) ← rdOpt c (Rd.list c (Rd.v3 c))
      let mut s : CPFull α := ⟨core, faces, coplanar, nbrs, cache, sa, fc⟩
      let mut hoomd : CPState.Hoomd α := ⟨core.verts, core.centroid, core.volume⟩
      let mut lastEdges : List Edge2 := []
      let mut lastAreas : List α := []
      let mut lastCents : List (V3 α) := []
      let mut lastTotal : α := Scalar.lit 0
      let mut mergeInfo : String := "i0"
      let n ← Rd.nat c
      let mut log : List String := []
      for _ in [0:n] do
        let code ← Rd.nat c
        if code ≤ 5 then
          let r ← cpCoreStep c code s.core
          s := { s with core := r.1 }
          log := log ++ [if r.2.1 then "i1" else "i0"]
          match r.2.2 with
          | some h => hoomd := h
          | none => pure ()
        else if code = 6 then
          let faces1 ← Rd.list c (Rd.list c (Rd.nat c))
          match s.sortFaces faces1 with
          | .ok s' => s := s'; log := log ++ ["i0"]
          | .error _ => log := log ++ ["i1"]
        else if code = 7 then
          let faces1 ← Rd.list c (Rd.list c (Rd.nat c))
          mergeInfo := "i1 " ++ outNats s.mergeLabels ++ " " ++ Out.bool (s.mergeContract faces1)
          let r := s.mergeFaces faces1
          s := r.1
          log := log ++ [if r.2.isSome then "i1" else "i0"]
        else if code = 8 then
          let r := s.readEdges
          lastEdges := r.1; s := r.2; log := log ++ ["i0"]
        else if code = 9 then
          let r := s.getFaceArea
          lastAreas := r.1; s := r.2; log := log ++ ["i0"]
        else if code = 10 then
          let r := s.readFaceCentroids
          lastCents := r.1; s := r.2; log := log ++ ["i0"]
        else
          let r := s.getFaceAreaTotal
          lastTotal := r.1; s := r.2; log := log ++ ["i0"]
      let hv := " ".intercalate (hoomd.vertices.map Out.v3)
      let optScs := fun (o : Option (List α)) => match o with
        | none => "i0"
        | some l => s!"i1 i{l.length} " ++ Out.scs l
      let optV3s := fun (o : Option (List (V3 α))) => match o with
        | none => "i0"
        | some l => s!"i1 i{l.length} " ++ " ".intercalate (l.map Out.v3)
      pure (" ".intercalate log ++ s!" i{s.core.eqN.length} i{s.core.seqN.length} " ++ outState s.core ++ " "
        ++ outNatLists s.faces ++ " " ++ outNatLists s.neighbors ++ " " ++ outEdgeCache s.edgesCache ++ " "
        ++ optScs s.simplexAreas ++ " " ++ optV3s s.faceCentroids ++ " " ++ hv ++ " " ++ Out.v3 hoomd.centroid ++ " "
        ++ Out.sc hoomd.volume ++ " " ++ outEdges lastEdges ++ s!" i{lastAreas.length} " ++ Out.scs lastAreas
        ++ s!" i{lastCents.length} " ++ " ".intercalate (lastCents.map Out.v3) ++ " " ++ Out.sc lastTotal ++ " " ++ mergeInfo)
  | "pgstate.run" => some do
      -- <verts> <normal> <nops> ops; opcodes: 0 setArea v | 1 setPerimeter v | 2 setRadius cur v
      --   | 3 setCentroid cur c | 4 toHoomd c0 c1
      let verts ← Rd.list c (Rd.v3 c)
      let normal : V3 α ← Rd.v3 c
      let mut s : PGState α := ⟨verts, normal⟩
      let mut hoomd : List (V3 α) := verts
      let n ← Rd.nat c
      let mut log : List String := []
      for _ in [0:n] do
        let code ← Rd.nat c
        if code = 0 then
          let v : α ← Rd.sc c
          match s.setArea v with
          | .ok s' => s := s'; log := log ++ ["i0"]
          | .error _ => log := log ++ ["i1"]
        else if code = 1 then
          let v : α ← Rd.sc c
          match s.setPerimeter v with
          | .ok s' => s := s'; log := log ++ ["i0"]
          | .error _ => log := log ++ ["i1"]
        else if code = 2 then
          let cur : α ← Rd.sc c
          let v : α ← Rd.sc c
          match s.setRadius cur v with
          | .ok s' => s := s'; log := log ++ ["i0"]
          | .error _ => log := log ++ ["i1"]
        else if code = 3 then
          let cur : V3 α ← Rd.v3 c
          let cc : V3 α ← Rd.v3 c
          s := s.setCentroid cur cc
          log := log ++ ["i0"]
        else
          let c0 : V3 α ← Rd.v3 c
          let c1 : V3 α ← Rd.v3 c
          let r := s.toHoomd c0 c1
          hoomd := r.1
          s := r.2
          log := log ++ ["i0"]
      let vs := " ".intercalate (s.verts.map Out.v3)
      let hv := " ".intercalate (hoomd.map Out.v3)
      pure (" ".intercalate log ++ s!" {vs} {Out.v3 s.normal} {Out.sc s.area} {Out.sc s.perimeter} {hv}")
  | "spgstate.run" => some do
      -- <verts> <normal> <radius> <nops> ops; opcodes: 0 setRadius v | 1 setArea v | 2 setPerimeter v
      --   | 3 toHoomd c0 c0'
      let verts ← Rd.list c (Rd.v3 c)
      let normal : V3 α ← Rd.v3 c
      let radius : α ← Rd.sc c
      let mut s : SPGState α := ⟨⟨verts, normal⟩, radius⟩
      let mut hoomd : List (V3 α) := verts
      let n ← Rd.nat c
      let mut log : List String := []
      for _ in [0:n] do
        let code ← Rd.nat c
        if code = 0 then
          let v : α ← Rd.sc c
          match s.setRadiusAbs v with
          | .ok s' => s := s'; log := log ++ ["i0"]
          | .error _ => log := log ++ ["i1"]
        else if code = 1 then
          let v : α ← Rd.sc c
          match s.setArea v with
          | .ok s' => s := s'; log := log ++ ["i0"]
          | .error _ => log := log ++ ["i1"]
        else if code = 2 then
          let v : α ← Rd.sc c
          match s.setPerimeter v with
          | .ok s' => s := s'; log := log ++ ["i0"]
          | .error _ => log := log ++ ["i1"]
        else
          let c0 : V3 α ← Rd.v3 c
          let c0' : V3 α ← Rd.v3 c
          let r := s.toHoomd c0 c0'
          hoomd := r.1
          s := r.2
          log := log ++ ["i0"]
      let vs := " ".intercalate (s.core.verts.map Out.v3)
      let hv := " ".intercalate (hoomd.map Out.v3)
      pure (" ".intercalate log ++
        s!" {vs} {Out.v3 s.core.normal} {Out.sc s.radius} {Out.sc s.area} {Out.sc s.perimeter} {hv}")
  | "sphstate.run" => some do
      -- <cpstate> <radius> <h> <nops> ops; opcodes: 0 setRadius v | 1 setSize degree cur v | 2 toHoomd
      -- `h` = mean curvature of the core at the END of the history (for the Steiner forms printed last)
      let core : CPState α ← rdState c
      let radius : α ← Rd.sc c
      let h : α ← Rd.sc c
      let mut s : SPHState α := ⟨core, radius⟩
      let mut hoomd : CPState.Hoomd α := ⟨core.verts, core.centroid, core.volume⟩
      let n ← Rd.nat c
      let mut log : List String := []
      for _ in [0:n] do
        let code ← Rd.nat c
        if code = 0 then
          let v : α ← Rd.sc c
          match s.setRadiusAbs v with
          | .ok s' => s := s'; log := log ++ ["i0"]
          | .error _ => log := log ++ ["i1"]
        else if code = 1 then
          let deg ← Rd.nat c
          let cur : α ← Rd.sc c
          let v : α ← Rd.sc c
          match s.setSize deg cur v with
          | .ok s' => s := s'; log := log ++ ["i0"]
          | .error _ => log := log ++ ["i1"]
        else
          let r := s.toHoomd
          hoomd := r.1
          s := r.2
          log := log ++ ["i0"]
      let hv := " ".intercalate (hoomd.vertices.map Out.v3)
      pure (" ".intercalate log ++ " " ++ outState s.core ++ " " ++ Out.sc s.radius ++ " "
        ++ Out.sc (s.steinerVolume h) ++ " " ++ Out.sc (s.steinerArea h) ++ " " ++ Out.sc (s.steinerCurvature h)
        ++ " " ++ hv)
  | "phgeom.check" => some do
      -- certificate of the hypotheses of `ph_coherent_history` (run it in Q mode: exact): <verts> <faces> -> bool
      let verts : List (V3 α) ← Rd.list c (Rd.v3 c)
      let faces ← Rd.list c (Rd.list c (Rd.nat c))
      pure (Out.bool (closedPolyCheck verts faces))
  | "rot.fix" => some do
      -- in: P (9) ; out: det P, fixHanded P (9), det of it
      let P : M3 α ← rdM3 c
      let Q := fixHanded P
      pure s!"{Out.sc (mdet P)} {Out.m3 Q} {Out.sc (mdet Q)}"
  | _ => none

end OpsC03
