import CoxeterVerif.Driver.Proto
import CoxeterVerif.Model.Mutable
import CoxeterVerif.Model.Mutable2

namespace OpsC03
open Mut

def rdTriple (c : Ctx) : Rd (Nat × Nat × Nat) := do
  let a ← Rd.nat c; let b ← Rd.nat c; let d ← Rd.nat c; pure (a, b, d)

def rdState {α} [Scalar α] [Codec α] (c : Ctx) : Rd (CPState α) := do
  let verts ← Rd.list c (Rd.v3 c)
  let simplices ← Rd.list c (rdTriple c)
  let faceHead ← Rd.list c (rdTriple c)
  let eqN ← Rd.list c (Rd.v3 c)
  let eqD ← Rd.list c (Rd.sc c)
  let seqN ← Rd.list c (Rd.v3 c)
  let seqD ← Rd.list c (Rd.sc c)
  let volume ← Rd.sc c
  let area ← Rd.sc c
  let centroid ← Rd.v3 c
  pure ⟨verts, simplices, faceHead, eqN, eqD, seqN, seqD, volume, area, centroid⟩

def rdM3 {α} [Codec α] (c : Ctx) : Rd (M3 α) := do
  let xx ← Rd.sc c; let xy ← Rd.sc c; let xz ← Rd.sc c
  let yx ← Rd.sc c; let yy ← Rd.sc c; let yz ← Rd.sc c
  let zx ← Rd.sc c; let zy ← Rd.sc c; let zz ← Rd.sc c
  pure ⟨xx, xy, xz, yx, yy, yz, zx, zy, zz⟩

def outState {α} [Codec α] (s : CPState α) : String :=
  let vs := " ".intercalate (s.verts.map Out.v3)
  let en := " ".intercalate (s.eqN.map Out.v3)
  let sn := " ".intercalate (s.seqN.map Out.v3)
  s!"{vs} {en} {Out.scs s.eqD} {sn} {Out.scs s.seqD} {Out.sc s.volume} {Out.sc s.area} {Out.v3 s.centroid}"

/-- driver ops of C03: `cpstate.run <state> <nops> (<opcode> args)*`
    opcodes: 0 setVolume v | 1 setSurfaceArea v | 2 setRadius current v | 3 setCentroid c(3)
             | 4 diagonalize P(9) simp' | 5 toHoomd
    reply: raise log, final state, then what the last `to_hoomd` handed out (vertices, centroid,
    volume; the initial ones if there was none). Ops for the other classes below. -/
def run (α : Type) [Scalar α] [Codec α] (op : String) (c : Ctx) : Option (Rd String) :=
  match op with
  | "cpstate.run" => some do
      let s0 : CPState α ← rdState c
      let n ← Rd.nat c
      let mut s := s0
      let mut hoomd : CPState.Hoomd α := ⟨s0.verts, s0.centroid, s0.volume⟩
      let mut log : List String := []
      for _ in [0:n] do
        let code ← Rd.nat c
        if code = 0 then
          let v : α ← Rd.sc c
          match s.setVolume v with
          | .ok s' => s := s'; log := log ++ ["i0"]
          | .error _ => log := log ++ ["i1"]
        else if code = 1 then
          let v : α ← Rd.sc c
          match s.setSurfaceArea v with
          | .ok s' => s := s'; log := log ++ ["i0"]
          | .error _ => log := log ++ ["i1"]
        else if code = 2 then
          let cur : α ← Rd.sc c
          let v : α ← Rd.sc c
          match s.setRadius cur v with
          | .ok s' => s := s'; log := log ++ ["i0"]
          | .error _ => log := log ++ ["i1"]
        else if code = 3 then
          let cc : V3 α ← Rd.v3 c
          s := s.setCentroid cc
          log := log ++ ["i0"]
        else if code = 4 then
          -- diagonalize_inertia: raw eigh matrix (row major), the re-oriented simplices
          let P : M3 α ← rdM3 c
          let simp' ← Rd.list c (rdTriple c)
          s := s.diagonalizeInertia P simp'
          log := log ++ ["i0"]
        else
          let r := s.toHoomd
          hoomd := r.1
          s := r.2
          log := log ++ ["i0"]
      let hv := " ".intercalate (hoomd.vertices.map Out.v3)
      pure (" ".intercalate log ++ " " ++ outState s ++ " " ++ hv ++ " " ++ Out.v3 hoomd.centroid ++ " "
        ++ Out.sc hoomd.volume)
  | "phstate.run" => some do
      -- <verts> <faces> <eqN> <eqD> <nops> (<opcode> args)*
      -- opcodes: 0 setVolume v | 1 setSurfaceArea v | 2 setRadius cur v | 3 setCentroid cur c
      --          4 diagonalize P | 5 toHoomd c0 c1
      let verts ← Rd.list c (Rd.v3 c)
      let faces ← Rd.list c (Rd.list c (Rd.nat c))
      let eqN ← Rd.list c (Rd.v3 c)
      let eqD ← Rd.list c (Rd.sc c)
      let mut s : PHState α := ⟨verts, faces, eqN, eqD⟩
      let mut hoomd : List (V3 α) := verts
      let n ← Rd.nat c
      let mut log : List String := []
      for _ in [0:n] do
        let code ← Rd.nat c
        if code = 0 then
          let v : α ← Rd.sc c
          match s.setVolume v with
          | .ok s' => s := s'; log := log ++ ["i0"]
          | .error _ => log := log ++ ["i1"]
        else if code = 1 then
          let v : α ← Rd.sc c
          match s.setSurfaceArea v with
          | .ok s' => s := s'; log := log ++ ["i0"]
          | .error _ => log := log ++ ["i1"]
        else if code = 2 then
          let cur : α ← Rd.sc c
          let v : α ← Rd.sc c
          match s.setRadius cur v with
          | .ok s' => s := s'; log := log ++ ["i0"]
          | .error _ => log := log ++ ["i1"]
        else if code = 3 then
          let cur : V3 α ← Rd.v3 c
          let cc : V3 α ← Rd.v3 c
          s := s.setCentroid cur cc
          log := log ++ ["i0"]
        else if code = 4 then
          let P : M3 α ← rdM3 c
          s := s.diagonalizeInertia P
          log := log ++ ["i0"]
        else
          let c0 : V3 α ← Rd.v3 c
          let c1 : V3 α ← Rd.v3 c
          let r := s.toHoomd c0 c1
          hoomd := r.1
          s := r.2
          log := log ++ ["i0"]
      let vs := " ".intercalate (s.verts.map Out.v3)
      let en := " ".intercalate (s.eqN.map Out.v3)
      let hv := " ".intercalate (hoomd.map Out.v3)
      pure (" ".intercalate log ++ s!" {vs} {en} {Out.scs s.eqD} {Out.sc s.volume} {Out.sc s.surfaceArea} {hv}")
  | "pgstate.run" => some do
      -- <verts> <normal> <nops> ops; opcodes: 0 setArea v | 1 setPerimeter v | 2 setRadius cur v
      --   | 3 setCentroid cur c | 4 toHoomd c0 c1
      let verts ← Rd.list c (Rd.v3 c)
      let normal : V3 α ← Rd.v3 c
      let mut s : PGState α := ⟨verts, normal⟩
      let mut hoomd : List (V3 α) := verts
      let n ← Rd.nat c
      let mut log : List String := []
      for _ in [0:n] do
        let code ← Rd.nat c
        if code = 0 then
          let v : α ← Rd.sc c
          match s.setArea v with
          | .ok s' => s := s'; log := log ++ ["i0"]
          | .error _ => log := log ++ ["i1"]
        else if code = 1 then
          let v : α ← Rd.sc c
          match s.setPerimeter v with
          | .ok s' => s := s'; log := log ++ ["i0"]
          | .error _ => log := log ++ ["i1"]
        else if code = 2 then
          let cur : α ← Rd.sc c
          let v : α ← Rd.sc c
          match s.setRadius cur v with
          | .ok s' => s := s'; log := log ++ ["i0"]
          | .error _ => log := log ++ ["i1"]
        else if code = 3 then
          let cur : V3 α ← Rd.v3 c
          let cc : V3 α ← Rd.v3 c
          s := s.setCentroid cur cc
          log := log ++ ["i0"]
        else
          let c0 : V3 α ← Rd.v3 c
          let c1 : V3 α ← Rd.v3 c
          let r := s.toHoomd c0 c1
          hoomd := r.1
          s := r.2
          log := log ++ ["i0"]
      let vs := " ".intercalate (s.verts.map Out.v3)
      let hv := " ".intercalate (hoomd.map Out.v3)
      pure (" ".intercalate log ++ s!" {vs} {Out.v3 s.normal} {Out.sc s.area} {Out.sc s.perimeter} {hv}")
  | "spgstate.run" => some do
      -- <verts> <normal> <radius> <nops> ops; opcodes: 0 setRadius v | 1 setArea v | 2 setPerimeter v
      --   | 3 toHoomd c0 c0'
      let verts ← Rd.list c (Rd.v3 c)
      let normal : V3 α ← Rd.v3 c
      let radius : α ← Rd.sc c
      let mut s : SPGState α := ⟨⟨verts, normal⟩, radius⟩
      let mut hoomd : List (V3 α) := verts
      let n ← Rd.nat c
      let mut log : List String := []
      for _ in [0:n] do
        let code ← Rd.nat c
        if code = 0 then
          let v : α ← Rd.sc c
          match s.setRadiusAbs v with
          | .ok s' => s := s'; log := log ++ ["i0"]
          | .error _ => log := log ++ ["i1"]
        else if code = 1 then
          let v : α ← Rd.sc c
          match s.setArea v with
          | .ok s' => s := s'; log := log ++ ["i0"]
          | .error _ => log := log ++ ["i1"]
        else if code = 2 then
          let v : α ← Rd.sc c
          match s.setPerimeter v with
          | .ok s' => s := s'; log := log ++ ["i0"]
          | .error _ => log := log ++ ["i1"]
        else
          let c0 : V3 α ← Rd.v3 c
          let c0' : V3 α ← Rd.v3 c
          let r := s.toHoomd c0 c0'
          hoomd := r.1
          s := r.2
          log := log ++ ["i0"]
      let vs := " ".intercalate (s.core.verts.map Out.v3)
      let hv := " ".intercalate (hoomd.map Out.v3)
      pure (" ".intercalate log ++
        s!" {vs} {Out.v3 s.core.normal} {Out.sc s.radius} {Out.sc s.area} {Out.sc s.perimeter} {hv}")
  | "sphstate.run" => some do
      -- <cpstate> <radius> <h> <nops> ops; opcodes: 0 setRadius v | 1 setSize degree cur v | 2 toHoomd
      -- `h` = mean curvature of the core at the END of the history (for the Steiner forms printed last)
      let core : CPState α ← rdState c
      let radius : α ← Rd.sc c
      let h : α ← Rd.sc c
      let mut s : SPHState α := ⟨core, radius⟩
      let mut hoomd : CPState.Hoomd α := ⟨core.verts, core.centroid, core.volume⟩
      let n ← Rd.nat c
      let mut log : List String := []
      for _ in [0:n] do
        let code ← Rd.nat c
        if code = 0 then
          let v : α ← Rd.sc c
          match s.setRadiusAbs v with
          | .ok s' => s := s'; log := log ++ ["i0"]
          | .error _ => log := log ++ ["i1"]
        else if code = 1 then
          let deg ← Rd.nat c
          let cur : α ← Rd.sc c
          let v : α ← Rd.sc c
          match s.setSize deg cur v with
          | .ok s' => s := s'; log := log ++ ["i0"]
          | .error _ => log := log ++ ["i1"]
        else
          let r := s.toHoomd
          hoomd := r.1
          s := r.2
          log := log ++ ["i0"]
      let hv := " ".intercalate (hoomd.vertices.map Out.v3)
      pure (" ".intercalate log ++ " " ++ outState s.core ++ " " ++ Out.sc s.radius ++ " "
        ++ Out.sc (s.steinerVolume h) ++ " " ++ Out.sc (s.steinerArea h) ++ " " ++ Out.sc (s.steinerCurvature h)
        ++ " " ++ hv)
  | "rot.fix" => some do
      -- in: P (9) ; out: det P, fixHanded P (9), det of it
      let P : M3 α ← rdM3 c
      let Q := fixHanded P
      pure s!"{Out.sc (mdet P)} {Out.m3 Q} {Out.sc (mdet Q)}"
  | _ => none

end OpsC03
