import CoxeterVerif.Driver.Proto
import CoxeterVerif.Model.Mutable

namespace OpsC03
open Mut

def rdTriple (c : Ctx) : Rd (Nat × Nat × Nat) := do
  let a ← Rd.nat c; let b ← Rd.nat c; let d ← Rd.nat c; pure (a, b, d)

def rdState {α} [Scalar α] [Codec α] (c : Ctx) : Rd (CPState α) := do
  let verts ← Rd.list c (Rd.v3 c)
  let simplices ← Rd.list c (rdTriple c)
  let faceHead ← Rd.list c (rdTriple c)
  let eqN ← Rd.list c (Rd.v3 c)
  let eqD ← Rd.list c (Rd.sc c)
  let seqN ← Rd.list c (Rd.v3 c)
  let seqD ← Rd.list c (Rd.sc c)
  let volume ← Rd.sc c
  let area ← Rd.sc c
  let centroid ← Rd.v3 c
  pure ⟨verts, simplices, faceHead, eqN, eqD, seqN, seqD, volume, area, centroid⟩

def outState {α} [Codec α] (s : CPState α) : String :=
  let vs := " ".intercalate (s.verts.map Out.v3)
  let en := " ".intercalate (s.eqN.map Out.v3)
  let sn := " ".intercalate (s.seqN.map Out.v3)
  s!"{vs} {en} {Out.scs s.eqD} {sn} {Out.scs s.seqD} {Out.sc s.volume} {Out.sc s.area} {Out.v3 s.centroid}"

/-- driver ops of C03: `cpstate.run <state> <nops> (<opcode> args)*`
    opcodes: 0 setVolume v | 1 setSurfaceArea v | 2 setRadius current v | 3 setCentroid c(3) -/
def run (α : Type) [Scalar α] [Codec α] (op : String) (c : Ctx) : Option (Rd String) :=
  match op with
  | "cpstate.run" => some do
      let s0 : CPState α ← rdState c
      let n ← Rd.nat c
      let mut s := s0
      let mut log : List String := []
      for _ in [0:n] do
        let code ← Rd.nat c
        if code = 0 then
          let v : α ← Rd.sc c
          match s.setVolume v with
          | .ok s' => s := s'; log := log ++ ["i0"]
          | .error _ => log := log ++ ["i1"]
        else if code = 1 then
          let v : α ← Rd.sc c
          match s.setSurfaceArea v with
          | .ok s' => s := s'; log := log ++ ["i0"]
          | .error _ => log := log ++ ["i1"]
        else if code = 2 then
          let cur : α ← Rd.sc c
          let v : α ← Rd.sc c
          match s.setRadius cur v with
          | .ok s' => s := s'; log := log ++ ["i0"]
          | .error _ => log := log ++ ["i1"]
        else
          let cc : V3 α ← Rd.v3 c
          s := s.setCentroid cc
          log := log ++ ["i0"]
      pure (" ".intercalate log ++ " " ++ outState s)
  | _ => none

end OpsC03
