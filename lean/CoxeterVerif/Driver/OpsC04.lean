import CoxeterVerif.Driver.Proto
import CoxeterVerif.Model.Polygon
import CoxeterVerif.Spec.Planar

namespace OpsC04

def rdM3 {α} [Codec α] (c : Ctx) : Rd (M3 α) := do
  let a ← Rd.sc c; let b ← Rd.sc c; let d ← Rd.sc c
  let e ← Rd.sc c; let f ← Rd.sc c; let g ← Rd.sc c
  let h ← Rd.sc c; let i ← Rd.sc c; let j ← Rd.sc c
  pure ⟨a, b, d, e, f, g, h, i, j⟩

/-- driver ops of C04. `none` = unknown op. -/
def run (α : Type) [Scalar α] [Codec α] (op : String) (c : Ctx) : Option (Rd String) :=
  match op with
  | "polygon.measures" => some do
      -- in: verts, normal, R, R2 ; out: signedArea area perimeter centroid(3) ix iy ixy polar inertia(9)
      let vs : List (V3 α) ← Rd.list c (Rd.v3 c)
      let n : V3 α ← Rd.v3 c
      let R : M3 α ← rdM3 c
      let R2 : M3 α ← rdM3 c
      let m := Poly2.planarMoments vs R
      pure s!"{Out.sc (Poly2.signedArea vs n)} {Out.sc (Poly2.area vs n)} {Out.sc (Poly2.perimeter vs)} {Out.v3 (Poly2.centroid vs n R)} {Out.sc m.1} {Out.sc m.2.1} {Out.sc m.2.2} {Out.sc (Poly2.polarMoment vs R)} {Out.m3 (Poly2.inertiaTensor vs n R R2)}"
  | "polygon.queries" => some do
      -- the object as a state machine: a HISTORY of reads in the order given (codes 0..7 = signed_area, area,
      -- perimeter, centroid, planar, polar, inertia_tensor [temporary frame + restore], center)
      -- in: verts, normal, R, R2, list of query codes ; out: the answers in that order (flattened), then the state
      -- the object is left in: normal(3), verts(3N)
      let vs : List (V3 α) ← Rd.list c (Rd.v3 c)
      let n : V3 α ← Rd.v3 c
      let R : M3 α ← rdM3 c
      let R2 : M3 α ← rdM3 c
      let qs : List Nat ← Rd.list c (Rd.nat c)
      let r := PolyState.observeAll (qs.map PolyState.Query.ofCode) ⟨vs, n⟩ R R2
      let vals := r.2.foldr (· ++ ·) []
      pure s!"{Out.scs vals} {Out.v3 r.1.normal} {" ".intercalate (r.1.verts.map Out.v3)}"
  | "polygon.rational" => some do
      -- rational part only (usable in Q mode when n = ±z and R is a signed permutation):
      -- in: verts, normal, R ; out: signedArea centroid(3) ix iy ixy
      let vs : List (V3 α) ← Rd.list c (Rd.v3 c)
      let n : V3 α ← Rd.v3 c
      let R : M3 α ← rdM3 c
      let m := Poly2.planarMoments vs R
      pure s!"{Out.sc (Poly2.signedArea vs n)} {Out.v3 (Poly2.centroid vs n R)} {Out.sc m.1} {Out.sc m.2.1} {Out.sc m.2.2}"
  | "spec.planar" => some do
      -- in: triangles (xy used) ; out: area first0 first1 second00 second11 second01
      let Ts : List (Tri α) ← Rd.list c (Rd.tri c)
      pure s!"{Out.sc (Spec2.area Ts)} {Out.sc (Spec2.first Ts 0)} {Out.sc (Spec2.first Ts 1)} {Out.sc (Spec2.second Ts 0 0)} {Out.sc (Spec2.second Ts 1 1)} {Out.sc (Spec2.second Ts 0 1)}"
  | "cert.planar" => some do
      -- certificates (meant for Q mode = exact): in: vertex cycle, triangles ;
      -- out: triangulationCheck orientCheck flatCheck   (soundness: Lemmas/PlanarCert.lean, Props/C04 certified_*)
      let w : List (V3 α) ← Rd.list c (Rd.v3 c)
      let Ts : List (Tri α) ← Rd.list c (Rd.tri c)
      pure s!"{Out.bool (Spec2.triangulationCheck w Ts)} {Out.bool (Spec2.orientCheck Ts)} {Out.bool (Spec2.flatCheck w Ts)}"
  | _ => none

end OpsC04
