import CoxeterVerif.Driver.Proto
import CoxeterVerif.Model.Tabulated
import CoxeterVerif.Spec.Textbook

namespace OpsC18
open Tab

/-- a string sent as a length-prefixed list of code points -/
def rdStr (c : Ctx) : Rd String := do
  let cs ← Rd.list c (Rd.nat c)
  pure (String.ofList (cs.map Char.ofNat))

def outStr (s : String) : String :=
  let cs := s.toList
  " ".intercalate (s!"i{cs.length}" :: cs.map fun ch => s!"i{ch.toNat}")

def rdP3 (c : Ctx) : Rd P3 := do
  let x ← Rd.int c; let y ← Rd.int c; let z ← Rd.int c; pure ⟨x, y, z⟩

/-- entry: verts (scaled ints), faces -/
def rdEntry (c : Ctx) : Rd Entry := do
  let vs ← Rd.list c (rdP3 c)
  let fs ← Rd.list c (Rd.list c (Rd.nat c))
  pure { name := "", type := "ConvexPolyhedron", verts := vs, faces := fs }

/-- record of a synthetic family: name, type (empty list of code points + flag), rounding flag;
    the payload is the record's position -/
def rdRecord (c : Ctx) (i : Nat) : Rd (String × GsdSpec Nat) := do
  let name ← rdStr c
  let hasType ← Rd.nat c
  let type ← rdStr c
  let rounding ← Rd.nat c
  pure (name, { type := if hasType = 1 then some type else none, verts := i, rounding := rounding = 1 })

def rdFamily (c : Ctx) : Rd (Family Nat) := do
  let n ← Rd.nat c
  let mut out : Array (String × GsdSpec Nat) := #[]
  for i in [0:n] do
    out := out.push (← rdRecord c i)
  pure ⟨out.toList⟩

/-- class code, payload -/
def outShape : Except String (Shape Nat) → String
  | .error e => s!"i-1 {outStr e}"
  | .ok (.convexPolyhedron v) => s!"i0 i{v}"
  | .ok (.convexSpheropolyhedron v) => s!"i1 i{v}"
  | .ok (.otherClass _ v) => s!"i2 i{v}"

def rdMap (c : Ctx) : Rd (List (String × List String)) :=
  Rd.list c (do let k ← rdStr c; let vs ← Rd.list c (rdStr c); pure (k, vs))

def outItems (l : List RepoItem) : String :=
  " ".intercalate (s!"i{l.length}" :: l.map fun
    | .tabulated f => s!"i0 {outStr f}"
    | .familyClass f => s!"i1 {outStr f}")

def outSolid (s : Textbook.Solid) : String :=
  s!"{outStr s.name} i{s.v} i{s.e} i{s.f} i{s.faces.length} " ++
    " ".intercalate (s.faces.map fun kc => s!"i{kc.1} i{kc.2}") ++ s!" {Out.bool s.consistent}"

/-- driver ops of C18. `none` = unknown op. -/
def run (α : Type) [Scalar α] [Codec α] (op : String) (c : Ctx) : Option (Rd String) :=
  match op with
  | "c18.check" => some do
      -- in: verts faces ; out: the spec predicates (fast and reference versions), counts, 6·vol
      let e ← rdEntry c
      let bs := [usesExactlyVerts e, usesExactlyVertsRef e, closedOriented e, closedOrientedRef e,
                 eulerOk e, convexOk e, convexOkRef e, positiveVolume e, unitVolumeOk e,
                 equalEdgesOk e, equalDiagonalsOk e, insphereOk e, polyhedronOk e]
      let census := (List.range 13).map fun k => Int.ofNat (facesOfSize e k)
      pure s!"{Out.bools bs} i{numV e} i{numE2 e} i{numF e} i{vol6 e} {Out.ints census}"
  | "c18.table" => some do
      -- in: which (0 platonic, 1 archimedean, 2 catalan, 3 johnson, 4 prism/antiprism, 5 pyramid/dipyramid,
      --     6 repository, other: plain), name, short, source, ref, verts faces
      -- out: the per-table obligation (for the repository without the cross-reference, which needs the other
      --      tables: `c18.same`), its textbook part, and (johnson) the name part
      let which ← Rd.nat c
      let name ← rdStr c
      let short ← rdStr c
      let source ← rdStr c
      let ref ← rdStr c
      let e0 ← rdEntry c
      let e := { e0 with name := name, short := short, source := source, ref := ref }
      let ok := match which with
        | 0 => platonicOk e | 1 => archimedeanOk e | 2 => catalanOk e | 3 => johnsonOk e
        | 4 => prismAntiprismOk e | 5 => pyramidDipyramidOk e
        | 6 => polyhedronOk e && repoTextbookOk e
        | _ => plainOk e
      let tb := match which with
        | 0 => textbookOk Textbook.platonic e | 1 => textbookOk Textbook.archimedean e
        | 2 => textbookOk Textbook.catalan e | 3 => johnsonCountsOk e
        | 4 => textbookOk Textbook.prismAntiprism e | 5 => textbookOk Textbook.pyramidDipyramid e
        | 6 => repoTextbookOk e
        | _ => true
      let nm := if which = 3 then johnsonNameOk e else true
      pure s!"{Out.bool ok} {Out.bool tb} {Out.bool nm}"
  | "c18.same" => some do
      -- in: verts verts ; out: sameVerts
      let a ← Rd.list c (rdP3 c)
      let b ← Rd.list c (rdP3 c)
      pure (Out.bool (sameVerts a b))
  | "c18.textbook" => some do
      -- in: which ; out: the hand-entered rows of Spec/Textbook.lean
      -- (0 platonic, 1 archimedean, 2 catalan, 3 johnson by number, 4 prism/antiprism, 5 pyramid/dipyramid,
      --  6 the other solids of the repository, 7 johnson by name)
      let which ← Rd.nat c
      let rows := match which with
        | 0 => Textbook.platonic | 1 => Textbook.archimedean | 2 => Textbook.catalan
        | 3 => Textbook.johnson | 4 => Textbook.prismAntiprism | 5 => Textbook.pyramidDipyramid
        | 6 => Textbook.otherSolids | _ => Textbook.johnsonByName
      pure (" ".intercalate (s!"i{rows.length}" :: rows.map outSolid))
  | "c18.session" => some do
      -- in: families (records each), steps (0 get fam name | 1 iter fam) ;
      -- out: per step the number of answers and the answers (class, payload = 100000·family + record position)
      let nf ← Rd.nat c
      let mut fams : Array (Family Nat) := #[]
      for k in [0:nf] do
        let f ← rdFamily c
        fams := fams.push ⟨f.data.map fun kv => (kv.1, { kv.2 with verts := 100000 * k + kv.2.verts })⟩
      let ns ← Rd.nat c
      let mut steps : Array Step := #[]
      for _ in [0:ns] do
        let kind ← Rd.nat c
        let fam ← Rd.nat c
        if kind = 0 then
          let name ← rdStr c
          steps := steps.push (.get fam name)
        else
          steps := steps.push (.iter fam)
      let w : World Nat := ⟨fams.toList⟩
      let (_, answers) := w.run steps.toList
      pure (" ".intercalate (answers.map fun a =>
        " ".intercalate (s!"i{a.length}" :: a.map outShape)))
  | "c18.iters" => some do
      -- in: families (records each), steps (0 start fam | 1 next it | 2 get fam name | 3 len fam) ;
      -- out: per step: start -> i0 it ; next -> i1 name shape | i9 (StopIteration) ; get -> i2 shape ;
      --      len -> i3 n ; none -> i8
      let nf ← Rd.nat c
      let mut fams : Array (Family Nat) := #[]
      for k in [0:nf] do
        let f ← rdFamily c
        fams := fams.push ⟨f.data.map fun kv => (kv.1, { kv.2 with verts := 100000 * k + kv.2.verts })⟩
      let ns ← Rd.nat c
      let mut steps : Array IStep := #[]
      for _ in [0:ns] do
        let kind ← Rd.nat c
        let a ← Rd.nat c
        if kind = 0 then steps := steps.push (.start a)
        else if kind = 1 then steps := steps.push (.next a)
        else if kind = 2 then
          let name ← rdStr c
          steps := steps.push (.get a name)
        else steps := steps.push (.len a)
      let s0 : IState Nat := ⟨⟨fams.toList⟩, []⟩
      let (_, answers) := s0.run steps.toList
      pure (" ".intercalate (answers.map fun a =>
        match a with
        | .started it => s!"i0 i{it}"
        | .item key shape => s!"i1 {outStr key} {outShape shape}"
        | .stop => "i9"
        | .shape sh => s!"i2 {outShape sh}"
        | .count n => s!"i3 i{n}"
        | .none => "i8"))
  | "c18.family" => some do
      -- in: records, query ; out: names-iteration (class, payload)*, then get_shape(query)
      let f ← rdFamily c
      let q ← rdStr c
      let it := f.iter.map fun kv => s!"{outStr kv.1} {outShape kv.2}"
      pure (" ".intercalate (s!"i{f.names.length}" :: it ++ [outShape (f.getShape q)]))
  | "c18.doi" => some do
      -- in: _DOI_TO_FILE, _DOI_TO_FAMILY, keys looked up in sequence ;
      -- out: per key: (0 items | 1 error-kind), store size afterwards
      let toFile ← rdMap c
      let toFamily ← rdMap c
      let keys ← Rd.list c (rdStr c)
      let m : DoiMaps := ⟨toFile, toFamily⟩
      let mut store : List (String × List RepoItem) := []
      let mut out : Array String := #[]
      for k in keys do
        let (r, s') := keyedGet m store k
        store := s'
        match r with
        | .ok items => out := out.push s!"i0 {outItems items} i{store.length}"
        | .error e => out := out.push s!"i1 {outStr e} i{store.length}"
      pure (" ".intercalate out.toList)
  | _ => none

end OpsC18
