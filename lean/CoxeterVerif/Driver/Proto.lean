import CoxeterVerif.Vec
/-!
  Line protocol of the model driver (no Mathlib).
  request : `<mode> <op> tok*`   mode = F (IEEE double) | Q (exact rational)
            tok = `i<decimal int>` | 16 hex digits (bit pattern of a double)
  reply   : one line of tokens:  16-hex (F) or `n/d` (Q) for scalars, `i<int>`, `b0|b1`,
            or `E:<kind>` when the model raises / `X:<msg>` on a protocol error.
-/

inductive Tok where
  | int (i : Int)
  | bits (b : UInt64)

class Codec (α : Type) where
  decode : UInt64 → α
  encode : α → String

def hexDigit (c : Char) : Option Nat :=
  if '0' ≤ c ∧ c ≤ '9' then some (c.toNat - '0'.toNat)
  else if 'a' ≤ c ∧ c ≤ 'f' then some (c.toNat - 'a'.toNat + 10)
  else if 'A' ≤ c ∧ c ≤ 'F' then some (c.toNat - 'A'.toNat + 10)
  else none

def parseHex (s : String) : Option UInt64 :=
  if s.length ≠ 16 then none else
  s.foldl (fun acc c => do let a ← acc; let d ← hexDigit c; pure (a * 16 + d)) (some 0)
    |>.map (fun n => UInt64.ofNat n)

def toHex (b : UInt64) : String :=
  let digs := "0123456789abcdef".toList.toArray
  let n := b.toNat
  String.ofList <| (List.range 16).map fun i => digs[(n >>> (4 * (15 - i))) % 16]!

def parseTok (s : String) : Option Tok :=
  if s.startsWith "i" then (s.drop 1).toString.toInt?.map Tok.int
  else (parseHex s).map Tok.bits

instance : Codec Float where
  decode := Float.ofBits
  encode := fun x => toHex x.toBits

/-- exact rational value of a double given by its bit pattern (inf/nan → 0; never sent) -/
def ratOfBits (b : UInt64) : Rat :=
  let n : Nat := b.toNat
  let neg : Bool := n >>> 63 = 1
  let e : Nat := (n >>> 52) % 2048
  let m : Nat := n % (2 ^ 52)
  let mag : Rat :=
    if e = 2047 then 0
    else if e = 0 then mkRat (m : Int) (2 ^ 1074)
    else
      let mant : Nat := 2 ^ 52 + m
      if e ≥ 1075 then (((mant * 2 ^ (e - 1075) : Nat) : Int) : Rat)
      else mkRat (mant : Int) (2 ^ (1075 - e))
  if neg then -mag else mag

instance : Codec Rat where
  decode := ratOfBits
  encode := fun x => s!"{x.num}/{x.den}"

/-- reader over the token array -/
abbrev Rd := StateT Nat (ExceptT String Id)

structure Ctx where
  toks : Array Tok

namespace Rd
def int (c : Ctx) : Rd Int := do
  let i ← get
  match c.toks[i]? with
  | some (.int v) => set (i + 1); pure v
  | _ => throw s!"expected int at {i}"
def nat (c : Ctx) : Rd Nat := do let v ← int c; pure v.toNat
def sc {α} [Codec α] (c : Ctx) : Rd α := do
  let i ← get
  match c.toks[i]? with
  | some (.bits b) => set (i + 1); pure (Codec.decode b)
  | _ => throw s!"expected scalar at {i}"
def v3 {α} [Codec α] (c : Ctx) : Rd (V3 α) := do
  let x ← sc c; let y ← sc c; let z ← sc c; pure ⟨x, y, z⟩
def tri {α} [Codec α] (c : Ctx) : Rd (Tri α) := do
  let a ← v3 c; let b ← v3 c; let d ← v3 c; pure ⟨a, b, d⟩
def tet {α} [Codec α] (c : Ctx) : Rd (Tet α) := do
  let a ← v3 c; let b ← v3 c; let cc ← v3 c; let d ← v3 c; pure ⟨a, b, cc, d⟩
/-- length-prefixed list -/
def list {β} (c : Ctx) (item : Rd β) : Rd (List β) := do
  let n ← nat c
  let mut out : Array β := #[]
  for _ in [0:n] do
    out := out.push (← item)
  pure out.toList
end Rd

namespace Out
variable {α} [Codec α]
def sc (x : α) : String := Codec.encode x
def v3 (v : V3 α) : String := s!"{sc v.x} {sc v.y} {sc v.z}"
def m3 (m : M3 α) : String :=
  s!"{sc m.xx} {sc m.xy} {sc m.xz} {sc m.yx} {sc m.yy} {sc m.yz} {sc m.zx} {sc m.zy} {sc m.zz}"
def int (i : Int) : String := s!"i{i}"
def bool (b : Bool) : String := if b then "b1" else "b0"
def scs (l : List α) : String := " ".intercalate (l.map sc)
def bools (l : List Bool) : String := " ".intercalate (l.map bool)
def ints (l : List Int) : String := " ".intercalate (l.map int)
end Out
