import CoxeterVerif.Driver.Proto
import CoxeterVerif.Model.MeshIO
import CoxeterVerif.Spec.MeshIO

namespace OpsC20
open MeshIO

/-! Strings travel as length-prefixed lists of code points (`i<n> i<c₁> … i<c_n>`); the reply of a
    writer is the file text as code points (`i<c>` each). The scalar mode (F/Q) is irrelevant. -/

def rdStr (c : Ctx) : Rd Str := do
  let l ← Rd.list c (Rd.nat c)
  pure (l.map Char.ofNat)

def rdV3T (c : Ctx) : Rd V3T := do
  let x ← rdStr c; let y ← rdStr c; let z ← rdStr c
  pure (x, y, z)

def rdMesh (c : Ctx) : Rd Mesh := do
  let vs ← Rd.list c (rdV3T c)
  let fs ← Rd.list c (Rd.list c (Rd.nat c))
  pure ⟨vs, fs⟩

def outText (s : Str) : String := " ".intercalate (s.map fun ch => s!"i{ch.toNat}")
def outStr (s : Str) : String := if s.isEmpty then "i0" else s!"i{s.length} {outText s}"
def outV3T (v : V3T) : String := s!"{outStr v.1} {outStr v.2.1} {outStr v.2.2}"
def outList {β} (f : β → String) (l : List β) : String :=
  if l.isEmpty then "i0" else s!"i{l.length} " ++ " ".intercalate (l.map f)
def outMesh (m : Option Mesh) : String :=
  match m with
  | none => "i0"
  | some m => s!"i1 {outList outV3T m.verts} {outList (outList fun (i : Nat) => s!"i{i}") m.faces}"
def outFacets (r : Option (List Facet)) : String :=
  match r with
  | none => "i0"
  | some fs => s!"i1 " ++ outList (fun (f : Facet) => s!"{outV3T f.1} {outV3T f.2.1} {outV3T f.2.2.1} {outV3T f.2.2.2}") fs

/-- the `nrm` parameter of `toStl` from the list of printed normals in fan order -/
def nrmTable (m : Mesh) (ns : List V3T) : V3T → V3T → V3T → V3T :=
  let tris := m.faces.flatMap fun f => (fan f).map fun t => (vat m t.1, vat m t.2.1, vat m t.2.2)
  let table := tris.zip ns
  fun a b c => match table.find? (fun e => e.1 == (a, b, c)) with
    | some e => e.2
    | none => ([], [], [])

/-- driver ops of C20. `none` = unknown op. -/
def run (α : Type) [Scalar α] [Codec α] (op : String) (c : Ctx) : Option (Rd String) :=
  match op with
  | "io.save" => some do
      -- in: filetype ver cls mesh normals ; out: file text | E:ValueError
      let ft ← rdStr c; let ver ← rdStr c; let cls ← rdStr c
      let m ← rdMesh c
      let ns ← Rd.list c (rdV3T c)
      match save ft ver cls (nrmTable m ns) m with
      | .ok s => pure (outText s)
      | .error k => pure s!"E:{k}"
  | "io.write" => some do
      -- in: format (0 obj,1 off,2 stl,3 ply,4 vtk,5 x3d,6 html) ver cls mesh normals ; out: file text
      let k ← Rd.nat c; let ver ← rdStr c; let cls ← rdStr c
      let m ← rdMesh c
      let ns ← Rd.list c (rdV3T c)
      let s := match k with
        | 0 => toObj ver cls m | 1 => toOff ver cls m | 2 => toStl cls (nrmTable m ns) m
        | 3 => toPly ver cls m | 4 => toVtk ver cls m | 5 => toX3d cls m | _ => toHtml cls m
      pure (outText s)
  | "io.read" => some do
      -- in: reader (0 obj,1 off strict,2 off lenient,3 ply,4 vtk) text ; out: 0 | 1 mesh
      let k ← Rd.nat c; let text ← rdStr c
      let r := match k with
        | 0 => readObj text | 1 => readOff text | 2 => readOffLenient text | 3 => readPly text | _ => readVtk text
      pure (outMesh r)
  | "io.read_stl" => some do
      let text ← rdStr c
      pure (outFacets (readStl text))
  | "io.edges" => some do
      -- in: faces ; out: len(Polyhedron.edges)
      let fs ← Rd.list c (Rd.list c (Rd.nat c))
      pure s!"i{(edgePairs fs).length}"
  | _ => none

end OpsC20
