import CoxeterVerif.Driver.Proto
import CoxeterVerif.Model.MeshIO
import CoxeterVerif.Spec.MeshIO
import CoxeterVerif.Lemmas.MeshIOXmlText

namespace OpsC20
open MeshIO

/-! Strings travel as length-prefixed lists of code points (`i<n> i<c₁> … i<c_n>`); the reply of a
    writer is the file text as code points (`i<c>` each). The scalar mode (F/Q) is irrelevant. -/

def rdStr (c : Ctx) : Rd Str := do
  let l ← Rd.list c (Rd.nat c)
  pure (l.map Char.ofNat)

def rdV3T (c : Ctx) : Rd V3T := do
  let x ← rdStr c; let y ← rdStr c; let z ← rdStr c
  pure (x, y, z)

def rdMesh (c : Ctx) : Rd Mesh := do
  let vs ← Rd.list c (rdV3T c)
  let fs ← Rd.list c (Rd.list c (Rd.nat c))
  pure ⟨vs, fs⟩

def outText (s : Str) : String := " ".intercalate (s.map fun ch => s!"i{ch.toNat}")
def outStr (s : Str) : String := if s.isEmpty then "i0" else s!"i{s.length} {outText s}"
def outV3T (v : V3T) : String := s!"{outStr v.1} {outStr v.2.1} {outStr v.2.2}"
def outList {β} (f : β → String) (l : List β) : String :=
  if l.isEmpty then "i0" else s!"i{l.length} " ++ " ".intercalate (l.map f)
def outMesh (m : Option Mesh) : String :=
  match m with
  | none => "i0"
  | some m => s!"i1 {outList outV3T m.verts} {outList (outList fun (i : Nat) => s!"i{i}") m.faces}"
def outFacets (r : Option (List Facet)) : String :=
  match r with
  | none => "i0"
  | some fs => s!"i1 " ++ outList (fun (f : Facet) => s!"{outV3T f.1} {outV3T f.2.1} {outV3T f.2.2.1} {outV3T f.2.2.2}") fs

/-- the `nrm` parameter of `toStl` from the list of printed normals in fan order -/
def nrmTable (m : Mesh) (ns : List V3T) : V3T → V3T → V3T → V3T :=
  let tris := m.faces.flatMap fun f => (fan f).map fun t => (vat m t.1, vat m t.2.1, vat m t.2.2)
  let table := tris.zip ns
  fun a b c => match table.find? (fun e => e.1 == (a, b, c)) with
    | some e => e.2
    | none => ([], [], [])

/-- raw 64 bits of a double token -/
def rdBits (c : Ctx) : Rd Nat := do
  let i ← get
  match c.toks[i]? with
  | some (.bits b) => set (i + 1); pure b.toNat
  | _ => throw s!"expected double bits at {i}"

def rdV3B (c : Ctx) : Rd V3B := do
  let x ← rdBits c; let y ← rdBits c; let z ← rdBits c
  pure (x, y, z)

def outRatOpt (r : Option Rat) : String :=
  match r with
  | none => "i0"
  | some q => s!"i1 {q.num}/{q.den}"

/-- driver ops of C20. `none` = unknown op. -/
def run (α : Type) [Scalar α] [Codec α] (op : String) (c : Ctx) : Option (Rd String) :=
  match op with
  | "io.save" => some do
      -- in: filetype ver cls mesh normals ; out: file text | E:ValueError
      let ft ← rdStr c; let ver ← rdStr c; let cls ← rdStr c
      let m ← rdMesh c
      let ns ← Rd.list c (rdV3T c)
      match save ft ver cls (nrmTable m ns) m with
      | .ok s => pure (outText s)
      | .error k => pure s!"E:{k}"
  | "io.write" => some do
      -- in: format (0 obj,1 off,2 stl,3 ply,4 vtk,5 x3d,6 html) ver cls mesh normals ; out: file text
      let k ← Rd.nat c; let ver ← rdStr c; let cls ← rdStr c
      let m ← rdMesh c
      let ns ← Rd.list c (rdV3T c)
      let s := match k with
        | 0 => toObj ver cls m | 1 => toOff ver cls m | 2 => toStl cls (nrmTable m ns) m
        | 3 => toPly ver cls m | 4 => toVtk ver cls m | 5 => toX3d cls m | _ => toHtml cls m
      pure (outText s)
  | "io.read" => some do
      -- in: reader (0 obj,1 off strict,2 off lenient,3 ply,4 vtk) text ; out: 0 | 1 mesh
      let k ← Rd.nat c; let text ← rdStr c
      let r := match k with
        | 0 => readObj text | 1 => readOff text | 2 => readOffLenient text | 3 => readPly text | _ => readVtk text
      pure (outMesh r)
  | "io.read_stl" => some do
      let text ← rdStr c
      pure (outFacets (readStl text))
  | "io.repr" => some do
      -- in: list of (neg, digits, decpt) as dtoa delivered them ; out: list of `str(coord)` tokens (model `floatRepr`)
      let items ← Rd.list c (do
        let neg ← Rd.nat c; let ds ← Rd.list c (Rd.nat c); let k ← Rd.int c
        pure (floatRepr (neg != 0) ds k))
      pure (outList outStr items)
  | "io.readsas" => some do
      -- in: list of (token, 64 bits of a double) ; out: per token b1 iff the correctly rounded value of the token is
      -- exactly that double (`readsAsB`, exact over ℚ whatever the mode)
      let items ← Rd.list c (do
        let t ← rdStr c; let b ← rdBits c
        pure (readsAsB t b))
      pure (if items.isEmpty then "i0" else s!"i{items.length} " ++ Out.bools items)
  | "io.coordcert" => some do
      -- in: vertex token triples, vertex double triples ; out: `coordsReadAs` (the certificate of the `_exact` theorems)
      let vs ← Rd.list c (rdV3T c)
      let xs ← Rd.list c (rdV3B c)
      pure (Out.bool (coordsReadAs vs xs))
  | "io.tokval" => some do
      -- in: token ; out: 0 | 1 exact value
      let t ← rdStr c
      pure (outRatOpt (tokValue t))
  | "io.stl_normals" => some do
      -- in: vertices (n × 3 scalars), one face ; out: the fan triangles' `np.cross(t1-t0, t2-t1)`
      let vs ← Rd.list c (Rd.v3 (α := α) c)
      let f ← Rd.list c (Rd.nat c)
      let zero : V3 α := V3.zero
      let ns := stlFaceNormals (fun i => vs.getD i zero) f
      pure (" ".intercalate (ns.map Out.v3))
  | "io.stl_pre" => some do
      -- in: copy mode (0 deepcopy = the code, 1 shallow copy), convex?, vertices (flat), centroid (3), other arrays
      -- out: after the preamble of to_stl: the caller's `_vertices`, the caller's `_centroid`, `vs` (what is printed),
      --      the array number `h.length + 1` (deepcopy: the COPY's `_centroid`), and b1 iff every array that existed
      --      before the call is unchanged
      let mode ← Rd.nat c
      let convex ← Rd.nat c
      let verts ← Rd.list c (Rd.sc (α := α) c)
      let cen ← Rd.list c (Rd.sc (α := α) c)
      let others ← Rd.list c (Rd.list c (Rd.sc (α := α) c))
      let h : Heap α := [verts, cen] ++ others
      let shape : ShapeH := ⟨convex != 0, 0, 1, (List.range others.length).map (· + 2), false⟩
      let r := toStlPreH (if mode = 0 then deepcopyH else shallowcopyH) (fun _ => cen) h shape
      let same := (List.range h.length).all fun i =>
        ((r.1.get i).map Codec.encode) == ((h.get i).map (Codec.encode (α := α)))
      pure s!"{outList Out.sc (r.1.get 0)} {outList Out.sc (r.1.get 1)} {outList Out.sc r.2} {outList Out.sc (r.1.get (h.length + 1))} {Out.bool same}"
  | "io.read_xml" => some do
      -- in: reader (0 X3D case-sensitive, 1 X3D ignoring case, 2 X3DOM/HTML page) and the file text
      -- out: 0 (not XML / no scene) | 1 mesh — `parseXml` / `parseHtmlDoc` then the tree reader of the theorems
      let k ← Rd.nat c; let text ← rdStr c
      let r := match k with
        | 0 => (parseXml text).bind readX3d
        | 1 => (parseXml text).bind readX3dLenient
        | _ => (parseHtmlDoc text).bind readHtml
      pure (outMesh r)
  | "io.edges" => some do
      -- in: faces ; out: len(Polyhedron.edges)
      let fs ← Rd.list c (Rd.list c (Rd.nat c))
      pure s!"i{(edgePairs fs).length}"
  | _ => none

end OpsC20
