import CoxeterVerif.Driver.Proto

namespace OpsC09

/-- driver ops of C09. `none` = unknown op. -/
def run (α : Type) [Scalar α] [Codec α] (op : String) (c : Ctx) : Option (Rd String) :=
  match op with
  | _ => none

end OpsC09
