import CoxeterVerif.Driver.Proto

namespace OpsC09

/-- driver ops of C09. `none` = unknown op.

C09 needs no op of its own: the correspondence part of `harness/c09.py` re-uses the ops of the
models whose covariance is proved (`cp.measures` of C01, `poly.measures` / `polytri.triangulate`
of C02, `polygon.measures` of C04), running each on the data of x and of g(x); the property oracle
is a metamorphic relation on the implementation itself and needs no model. -/
def run (α : Type) [Scalar α] [Codec α] (op : String) (c : Ctx) : Option (Rd String) :=
  match op with
  | _ => none

end OpsC09
