import CoxeterVerif.Driver.Proto
import CoxeterVerif.Model.Codec

/-!
  Driver ops of C19 (model of the representation code, `Model/Codec.lean`).

  Wire format (all on top of `i<int>` / scalar tokens of Proto.lean):
    str   := len code*                     (unicode code points)
    val   := 0 str | 1 sc | 2 n sc* | 3 rows (n sc*)* | 4 rows (n i*)* | 5        (5 = live array)
    dict  := n (str val)*
    shape := cls params      cls = 0 circle r c(3) | 1 sphere r c(3) | 2 ellipse a b c(3)
             | 3 ellipsoid a b c cen(3) | 4 polygon n v3* normal(3) | 5 convexPolygon (same)
             | 6 spheropolygon n v3* r normal(3) | 7 polyhedron n v3* faces | 8 convexPolyhedron (same)
             | 9 spheropolyhedron n v3* r
    ext   := planarOk isSimple isConvex normalOk hullAll  reorder(n v3*; n = 0: identity)  hullFaces
    reply `E:<kind>` when the model raises.
-/
namespace OpsC19
open C19

section io
variable {α : Type} [Codec α]

def rdStr (c : Ctx) : Rd String := do
  let n ← Rd.nat c
  let mut cs : Array Char := #[]
  for _ in [0:n] do
    cs := cs.push (Char.ofNat (← Rd.nat c))
  pure (String.ofList cs.toList)

def rdBool (c : Ctx) : Rd Bool := do let i ← Rd.int c; pure (i != 0)

def rdVal (c : Ctx) : Rd (Val α) := do
  let tag ← Rd.nat c
  match tag with
  | 0 => do let s ← rdStr c; pure (.str s)
  | 1 => do let x ← Rd.sc c; pure (.num x)
  | 2 => do let v ← Rd.list c (Rd.sc c); pure (.vec v)
  | 3 => do let m ← Rd.list c (Rd.list c (Rd.sc c)); pure (.mat m)
  | 4 => do let f ← Rd.list c (Rd.list c (Rd.nat c)); pure (.idx f)
  | 5 => pure .live
  | _ => throw s!"bad value tag {tag}"

def rdDict (c : Ctx) : Rd (Dict α) :=
  Rd.list c (do let k ← rdStr c; let v ← rdVal c; pure (k, v))

def rdShape (c : Ctx) : Rd (Shape α) := do
  let cls ← Rd.nat c
  match cls with
  | 0 => do let r ← Rd.sc c; let cen ← Rd.v3 c; pure (.circle r cen)
  | 1 => do let r ← Rd.sc c; let cen ← Rd.v3 c; pure (.sphere r cen)
  | 2 => do let a ← Rd.sc c; let b ← Rd.sc c; let cen ← Rd.v3 c; pure (.ellipse a b cen)
  | 3 => do
      let a ← Rd.sc c; let b ← Rd.sc c; let cc ← Rd.sc c; let cen ← Rd.v3 c
      pure (.ellipsoid a b cc cen)
  | 4 => do let vs ← Rd.list c (Rd.v3 c); let n ← Rd.v3 c; pure (.polygon vs n)
  | 5 => do let vs ← Rd.list c (Rd.v3 c); let n ← Rd.v3 c; pure (.convexPolygon vs n)
  | 6 => do
      let vs ← Rd.list c (Rd.v3 c); let r ← Rd.sc c; let n ← Rd.v3 c
      pure (.spheropolygon vs r n)
  | 7 => do
      let vs ← Rd.list c (Rd.v3 c); let f ← Rd.list c (Rd.list c (Rd.nat c))
      pure (.polyhedron vs f)
  | 8 => do
      let vs ← Rd.list c (Rd.v3 c); let f ← Rd.list c (Rd.list c (Rd.nat c))
      pure (.convexPolyhedron vs f)
  | 9 => do let vs ← Rd.list c (Rd.v3 c); let r ← Rd.sc c; pure (.spheropolyhedron vs r)
  | _ => throw s!"bad class tag {cls}"

def rdExt (c : Ctx) : Rd (Ext α) := do
  let planarOk ← rdBool c
  let isSimple ← rdBool c
  let isConvex ← rdBool c
  let normalOk ← rdBool c
  let hullAll ← rdBool c
  let re ← Rd.list c (Rd.v3 c)
  let hf ← Rd.list c (Rd.list c (Rd.nat c))
  pure { planarOk := fun _ => planarOk, isSimple := fun _ => isSimple, isConvex := fun _ => isConvex,
         reorder := fun vs => if re.isEmpty then vs else re, normalOk := fun _ _ => normalOk,
         hullAll := fun _ => hullAll, hullFaces := fun _ => hf }

def join (l : List String) : String := " ".intercalate (l.filter (· ≠ ""))

def outStr (s : String) : String :=
  join (Out.int s.length :: s.toList.map fun ch => Out.int ch.toNat)

def outScs (l : List α) : String := join (Out.int l.length :: l.map Out.sc)
def outNats (l : List Nat) : String := join (Out.int l.length :: l.map fun (n : Nat) => Out.int (Int.ofNat n))

def outVal : Val α → String
  | .str s => join ["i0", outStr s]
  | .num x => join ["i1", Out.sc x]
  | .vec v => join ["i2", outScs v]
  | .mat m => join ("i3" :: Out.int m.length :: m.map outScs)
  | .idx f => join ("i4" :: Out.int f.length :: f.map outNats)
  | .live => "i5"

def outDict (d : Dict α) : String :=
  join (Out.int d.length :: d.map fun e => join [outStr e.1, outVal e.2])

def outV3s (vs : List (V3 α)) : String := join (Out.int vs.length :: vs.map Out.v3)
def outFaces (f : List (List Nat)) : String := join (Out.int f.length :: f.map outNats)

def outShape : Shape α → String
  | .circle r c => join ["i0", Out.sc r, Out.v3 c]
  | .sphere r c => join ["i1", Out.sc r, Out.v3 c]
  | .ellipse a b c => join ["i2", Out.sc a, Out.sc b, Out.v3 c]
  | .ellipsoid a b c cen => join ["i3", Out.sc a, Out.sc b, Out.sc c, Out.v3 cen]
  | .polygon vs n => join ["i4", outV3s vs, Out.v3 n]
  | .convexPolygon vs n => join ["i5", outV3s vs, Out.v3 n]
  | .spheropolygon vs r n => join ["i6", outV3s vs, Out.sc r, Out.v3 n]
  | .polyhedron vs f => join ["i7", outV3s vs, outFaces f]
  | .convexPolyhedron vs f => join ["i8", outV3s vs, outFaces f]
  | .spheropolyhedron vs r => join ["i9", outV3s vs, Out.sc r]

def outTok : Tok α → String
  | .name n => join ["i0", outStr n]
  | .lpar => "i1" | .rpar => "i2" | .lbr => "i3" | .rbr => "i4" | .comma => "i5" | .eq => "i6" | .minus => "i7"
  | .num x => join ["i8", Out.sc x]
  | .int n => join ["i9", Out.int (Int.ofNat n)]

def rdTok (c : Ctx) : Rd (Tok α) := do
  let tag ← Rd.nat c
  match tag with
  | 0 => do let n ← rdStr c; pure (.name n)
  | 1 => pure .lpar | 2 => pure .rpar | 3 => pure .lbr | 4 => pure .rbr | 5 => pure .comma | 6 => pure .eq
  | 7 => pure .minus
  | 8 => do let x ← Rd.sc c; pure (.num x)
  | 9 => do let n ← Rd.nat c; pure (.int n)
  | _ => throw s!"bad token tag {tag}"

def outExcept {β : Type} (f : β → String) : Except String β → String
  | .ok x => f x
  | .error k => "E:" ++ k

end io

/-- ops of C19. `none` = unknown op. -/
def run (α : Type) [Scalar α] [Codec α] (op : String) (c : Ctx) : Option (Rd String) :=
  match op with
  | "c19.gsd" => some do
      -- in: shape ; out: dict (`gsd_shape_spec`)
      let s : Shape α ← rdShape c
      pure (outDict (gsdSpec s))
  | "c19.fromgsd" => some do
      -- in: dict dim ext ; out: shape | E:kind (`from_gsd_type_shapes`)
      let d : Dict α ← rdDict c
      let dim ← Rd.nat c
      let E : Ext α ← rdExt c
      pure (outExcept outShape (fromGsd E d dim))
  | "c19.repr" => some do
      -- in: shape ; out: fn kwargs (`__repr__` as a call)
      let s : Shape α ← rdShape c
      let r := reprCall s
      pure (join [outStr r.fn, outDict r.kwargs])
  | "c19.eval" => some do
      -- in: fn kwargs ext ; out: shape | E:kind
      let fn ← rdStr c
      let kw : Dict α ← rdDict c
      let E : Ext α ← rdExt c
      pure (outExcept outShape (evalCall E ⟨fn, kw⟩))
  | "c19.tojson" => some do
      -- in: known(list str) raising(list (str name, str kind)) attrs(list str) ; out: keys | E:kind
      let known ← Rd.list c (rdStr c)
      let raising ← Rd.list c (do let n ← rdStr c; let k ← rdStr c; pure (n, k))
      let attrs ← Rd.list c (rdStr c)
      let val : String → Except String (Val α) := fun a =>
        match raising.lookup a with
        | some k => .error k
        | none => .ok (.str a)
      pure (outExcept (fun d => join (Out.int d.length :: (Dict.keys d).map outStr))
        (toJson (getattrOf known val) attrs []))
  | "c19.mapkeys" => some do
      -- in: dict ; out: dict renamed with the model's `_hoomd_dict_mapping`
      let d : Dict α ← rdDict c
      pure (outDict (mapDictKeys d hoomdDictMapping))
  | "c19.mapping" => some do
      -- out: the model's `_hoomd_dict_mapping` constant
      pure (join (Out.int hoomdDictMapping.length ::
        hoomdDictMapping.map fun p => join [outStr p.1, outStr p.2]))
  | "c19.tohoomd" => some do
      -- in: shape delta(3) scalars(list (str, sc)) tensor(rows)
      -- the centroid getter is `mean(verts) + delta`; measures are the given values
      -- out: dict as built (5 = live array) then the shape the object is left as | E:kind
      let s : Shape α ← rdShape c
      let delta : V3 α ← Rd.v3 c
      let scalars ← Rd.list c (do let n ← rdStr c; let x : α ← Rd.sc c; pure (n, x))
      let tensor : List (List α) ← Rd.list c (Rd.list c (Rd.sc c))
      let look : String → α := fun n => (scalars.lookup n).getD (Scalar.lit 0)
      let M : Meas α :=
        { cen := fun vs => V3.sdiv (V3.sum vs) (Scalar.ofNat vs.length) + delta,
          scalar := fun n _ => look n, tensor := fun _ => tensor,
          scalarC := fun n _ => look n, tensorC := fun _ => tensor }
      pure (outExcept (fun r => join [outDict r.1, outShape r.2]) (toHoomdRaw M s))
  | "c19.reprtext" => some do
      -- in: shape ; out: n tok*   (`repr(shape)` as tokens; the float classifier is IEEE's: nan = not equal to
      -- itself, inf = non-zero fixed point of doubling, sign bit via 1/x for zeros)
      let s : Shape α ← rdShape c
      let nk : NumFmt α := fun x =>
        if !(Scalar.eqb x x) then .nan
        else
          let neg : Bool := decide (x < Scalar.lit 0) ||
            (Scalar.eqb x (Scalar.lit 0) && decide (Scalar.lit 1 / x < Scalar.lit 0))
          if Scalar.eqb x (x + x) && !(Scalar.eqb x (Scalar.lit 0)) then .inf neg else .fin neg
      let ts := reprTokens nk s
      pure (join (Out.int ts.length :: ts.map outTok))
  | "c19.evaltext" => some do
      -- in: n tok* ext ; out: shape | E:kind   (`eval(text, {"coxeter": coxeter})`)
      let ts : List (Tok α) ← Rd.list c (rdTok c)
      let E : Ext α ← rdExt c
      pure (outExcept outShape (evalText E ts))
  | "c19.hoomdobj" => some do
      -- `to_hoomd` TWICE in a row on an object with its caches, getters = the measure models.
      -- in: kind ; 0 ConvexPolyhedron: verts simplices faces centroid(3) volume snormals
      --            1 Polyhedron: verts faces tri eqs(list of nx ny nz d)
      --            2 Polygon: verts normal(3) R(9) R2(9)
      --            3 ConvexSpheropolyhedron: as 0, then r and the value of the rounded volume getter
      -- out: dict1 state1 dict2 state2 | E:kind   (state = verts + caches, in the input layout)
      let kind ← Rd.nat c
      let rdTriples : Rd (List (Nat × Nat × Nat)) :=
        Rd.list c (do let i ← Rd.nat c; let j ← Rd.nat c; let k ← Rd.nat c; pure (i, j, k))
      let rdCP : Rd (CPObj α) := do
        let vs ← Rd.list c (Rd.v3 c)
        let simp ← rdTriples
        let faces ← Rd.list c (Rd.list c (Rd.nat c))
        let cen ← Rd.v3 c
        let vol ← Rd.sc c
        let sn ← Rd.list c (Rd.v3 c)
        pure ⟨vs, simp, faces, cen, vol, sn⟩
      let outCP : CPObj α → String := fun o =>
        join [outV3s o.verts, Out.v3 o.centroid, Out.sc o.volume, outV3s o.snormals]
      match kind with
      | 0 => do
          let o ← rdCP
          pure (outExcept (fun (r : (Dict α × CPObj α) × (Dict α × CPObj α)) =>
              join [outDict (resolve ⟨r.1.2.verts, r.1.2.centroid⟩ r.1.1), outCP r.1.2,
                    outDict (resolve ⟨r.2.2.verts, r.2.2.centroid⟩ r.2.1), outCP r.2.2])
            (do let a ← o.toHoomd; let b ← a.2.toHoomd; pure (a, b)))
      | 3 => do
          let o ← rdCP
          let r : α ← Rd.sc c
          let v : α ← Rd.sc c
          pure (outExcept (fun (r : (Dict α × CPObj α) × (Dict α × CPObj α)) =>
              join [outDict (resolve ⟨r.1.2.verts, r.1.2.centroid⟩ r.1.1), outCP r.1.2,
                    outDict (resolve ⟨r.2.2.verts, r.2.2.centroid⟩ r.2.1), outCP r.2.2])
            (do let a ← CPObj.spheroToHoomd (fun _ _ => v) r o
                let b ← CPObj.spheroToHoomd (fun _ _ => v) r a.2
                pure (a, b)))
      | 1 => do
          let vs ← Rd.list c (Rd.v3 c)
          let faces ← Rd.list c (Rd.list c (Rd.nat c))
          let tri ← rdTriples
          let eqs ← Rd.list c (do let n : V3 α ← Rd.v3 c; let d : α ← Rd.sc c; pure (n, d))
          let o : PHObj α := ⟨vs, faces, tri, eqs⟩
          let outPH : PHObj α → String := fun o =>
            join [outV3s o.verts, join (Out.int o.eqs.length :: o.eqs.map fun e => join [Out.v3 e.1, Out.sc e.2])]
          pure (outExcept (fun (r : (Dict α × PHObj α) × (Dict α × PHObj α)) =>
              join [outDict (resolve ⟨r.1.2.verts, V3.zero⟩ r.1.1), outPH r.1.2,
                    outDict (resolve ⟨r.2.2.verts, V3.zero⟩ r.2.1), outPH r.2.2])
            (do let a ← o.toHoomd; let b ← a.2.toHoomd; pure (a, b)))
      | 2 => do
          let vs ← Rd.list c (Rd.v3 c)
          let n : V3 α ← Rd.v3 c
          let rdM3 : Rd (M3 α) := do
            let a ← Rd.v3 c; let b ← Rd.v3 c; let d ← Rd.v3 c
            pure ⟨a.x, a.y, a.z, b.x, b.y, b.z, d.x, d.y, d.z⟩
          let R ← rdM3
          let R2 ← rdM3
          let M := measPolygon n R R2
          pure (outExcept (fun (r : (Dict α × PState α) × (Dict α × PState α)) =>
              join [outDict (resolve r.1.2 r.1.1), outV3s r.1.2.verts,
                    outDict (resolve r.2.2 r.2.1), outV3s r.2.2.verts])
            (do let a ← polygonToHoomd M ⟨vs, V3.zero⟩; let b ← polygonToHoomd M a.2; pure (a, b)))
      | _ => throw s!"bad object kind {kind}"
  | _ => none

end OpsC19
