import CoxeterVerif.Driver.Proto
import CoxeterVerif.Model.Steiner
import CoxeterVerif.Spec.Steiner

namespace OpsC11
open Steiner

def rdFaceIx (c : Ctx) : Rd FaceIx := do
  let i ← Rd.nat c; let j ← Rd.nat c; let e0 ← Rd.nat c; let e1 ← Rd.nat c
  pure ⟨i, j, e0, e1⟩

def rdPair {α} [Codec α] (c : Ctx) : Rd (α × α) := do
  let a ← Rd.sc c; let b ← Rd.sc c; pure (a, b)

/-- core: vertices normals fi volume area -/
def rdCore {α} [Codec α] (c : Ctx) : Rd (Core α) := do
  let vs ← Rd.list c (Rd.v3 c)
  let ns ← Rd.list c (Rd.v3 c)
  let fi ← Rd.list c (rdFaceIx c)
  let v ← Rd.sc c
  let s ← Rd.sc c
  pure ⟨vs, ns, fi, v, s⟩

def reply (r : Except String String) : String :=
  match r with
  | .ok s => s
  | .error k => s!"E:{k}"

/-- driver ops of C11. `none` = unknown op. -/
def run (α : Type) [Scalar α] [Codec α] (op : String) (c : Ctx) : Option (Rd String) :=
  match op with
  | "c11.cp" => some do
      -- in: core ; out: mean_curvature tau asphericity iq   (or E:kind)
      let core : Core α ← rdCore c
      pure <| reply do
        let mc ← CP.meanCurvature core
        let t ← CP.tau core
        let a ← CP.asphericity core
        pure s!"{Out.sc mc} {Out.sc t} {Out.sc a} {Out.sc (CP.iq core)}"
  | "c11.neighbors" => some do
      -- in: numFaces fi ; out: for each face: count then the neighbour indices (in append order)
      let n ← Rd.nat c
      let fi ← Rd.list c (rdFaceIx c)
      let nb := CP.findNeighbors n fi
      let flat : List Int := nb.flatMap fun l => (l.length : Int) :: l.map (fun (k : Nat) => (k : Int))
      pure (Out.ints flat)
  | "c11.dihedral" => some do
      -- in: normals fi a b ; out: phi   (or E:ValueError / E:IndexError)
      let ns : List (V3 α) ← Rd.list c (Rd.v3 c)
      let fi ← Rd.list c (rdFaceIx c)
      let a ← Rd.nat c
      let b ← Rd.nat c
      pure <| reply do
        let phi ← CP.getDihedral ns (CP.findNeighbors ns.length fi) a b
        pure (Out.sc phi)
  | "c11.edges" => some do
      -- in: core ; out: L phi per face intersection
      let core : Core α ← rdCore c
      pure <| reply do
        let es ← CP.edgeTerms core
        pure (Out.scs (es.flatMap fun e => [e.1, e.2]))
  | "c11.sphero3" => some do
      -- in: core r ; out: radius volume surface_area mean_curvature iq   (or E:kind)
      let core : Core α ← rdCore c
      let r : α ← Rd.sc c
      pure <| reply do
        let r ← setRadius r
        let v ← SpheroPolyhedron.volume core r
        let s ← SpheroPolyhedron.surfaceArea core r
        let m ← SpheroPolyhedron.meanCurvature core r
        let q ← SpheroPolyhedron.iq core r
        pure s!"{Out.sc r} {Out.sc v} {Out.sc s} {Out.sc m} {Out.sc q}"
  | "c11.sphero2" => some do
      -- in: vertices polyArea r ; out: radius signed_area area perimeter iq   (or E:kind)
      let vs : List (V3 α) ← Rd.list c (Rd.v3 c)
      let a : α ← Rd.sc c
      let r : α ← Rd.sc c
      pure <| reply do
        let r ← setRadius r
        let ar := SpheroPolygon.area vs a r
        let p := SpheroPolygon.perimeter vs r
        pure s!"{Out.sc r} {Out.sc (SpheroPolygon.signedArea vs a r)} {Out.sc ar} {Out.sc p} {Out.sc (Shape2D.iq ar p)}"
  | "c11.spec3" => some do
      -- in: V S r edges[(L,phi)] ; out: M H steinerVolume steinerArea M(r) statedVolume statedArea tau asph iq3
      let v : α ← Rd.sc c
      let s : α ← Rd.sc c
      let r : α ← Rd.sc c
      let es : List (α × α) ← Rd.list c (rdPair c)
      let H := SteinerSpec.integratedMeanCurvature es
      let M := SteinerSpec.meanCurvature es
      pure s!"{Out.sc M} {Out.sc H} {Out.sc (SteinerSpec.steinerVolume v s H r)} {Out.sc (SteinerSpec.steinerArea s H r)} {Out.sc (SteinerSpec.normalise (SteinerSpec.steinerIntegratedMeanCurvature H r))} {Out.sc (SteinerSpec.statedVolume v s M r)} {Out.sc (SteinerSpec.statedArea s M r)} {Out.sc (SteinerSpec.tau M s)} {Out.sc (SteinerSpec.asphericity M s v)} {Out.sc (SteinerSpec.iq3 v s)}"
  | "c11.spec2" => some do
      -- in: A P r ; out: steinerArea2 steinerPerimeter2 iq2(of the rounded shape) iq2(core)
      let a : α ← Rd.sc c
      let p : α ← Rd.sc c
      let r : α ← Rd.sc c
      let ar := SteinerSpec.steinerArea2 a p r
      let pr := SteinerSpec.steinerPerimeter2 p r
      pure s!"{Out.sc ar} {Out.sc pr} {Out.sc (SteinerSpec.iq2 ar pr)} {Out.sc (SteinerSpec.iq2 a p)}"
  | "c11.specdihedral" => some do
      -- in: n1 n2 (any non-zero outward normals) ; out: pi - angle(n1, n2)
      let n1 : V3 α ← Rd.v3 c
      let n2 : V3 α ← Rd.v3 c
      pure (Out.sc (SteinerSpec.dihedral n1 n2))
  | _ => none

end OpsC11
