import CoxeterVerif.Driver.Proto
import CoxeterVerif.Model.Steiner
import CoxeterVerif.Spec.Steiner
import CoxeterVerif.Model.Polygon

namespace OpsC11
open Steiner

def rdFaceIx (c : Ctx) : Rd FaceIx := do
  let i ← Rd.nat c; let j ← Rd.nat c; let e0 ← Rd.nat c; let e1 ← Rd.nat c
  pure ⟨i, j, e0, e1⟩

def rdPair {α} [Codec α] (c : Ctx) : Rd (α × α) := do
  let a ← Rd.sc c; let b ← Rd.sc c; pure (a, b)

/-- core: vertices normals fi volume area -/
def rdCore {α} [Codec α] (c : Ctx) : Rd (Core α) := do
  let vs ← Rd.list c (Rd.v3 c)
  let ns ← Rd.list c (Rd.v3 c)
  let fi ← Rd.list c (rdFaceIx c)
  let v ← Rd.sc c
  let s ← Rd.sc c
  pure ⟨vs, ns, fi, v, s⟩

/-- one mutator of a spheropolyhedron history: kind 0 radius, 1 _rescale, 2 volume, 3 surface_area,
    4 mean_curvature; then the value -/
def rdOp3 {α} [Codec α] (c : Ctx) : Rd (SpheroPolyhedron.Op α) := do
  let k ← Rd.nat c
  let v : α ← Rd.sc c
  pure <| match k with
    | 0 => .setRadius v | 1 => .rescale v | 2 => .setVolume v | 3 => .setSurfaceArea v
    | _ => .setMeanCurvature v

/-- one mutator of a spheropolygon history: kind 0 radius, 1 _rescale, 2 area, 3 perimeter -/
def rdOp2 {α} [Codec α] (c : Ctx) : Rd (SpheroPolygon.Op α) := do
  let k ← Rd.nat c
  let v : α ← Rd.sc c
  pure <| match k with
    | 0 => .setRadius v | 1 => .rescale v | 2 => .setArea v | _ => .setPerimeter v

def outV3s {α} [Codec α] (vs : List (V3 α)) : String := Out.scs (vs.flatMap fun v => [v.x, v.y, v.z])

def reply (r : Except String String) : String :=
  match r with
  | .ok s => s
  | .error k => s!"E:{k}"

/-- driver ops of C11. `none` = unknown op. -/
def run (α : Type) [Scalar α] [Codec α] (op : String) (c : Ctx) : Option (Rd String) :=
  match op with
  | "c11.cp" => some do
      -- in: core ; out: mean_curvature tau asphericity iq   (or E:kind)
      let core : Core α ← rdCore c
      pure <| reply do
        let mc ← CP.meanCurvature core
        let t ← CP.tau core
        let a ← CP.asphericity core
        pure s!"{Out.sc mc} {Out.sc t} {Out.sc a} {Out.sc (CP.iq core)}"
  | "c11.neighbors" => some do
      -- in: numFaces fi ; out: for each face: count then the neighbour indices (in append order)
      let n ← Rd.nat c
      let fi ← Rd.list c (rdFaceIx c)
      let nb := CP.findNeighbors n fi
      let flat : List Int := nb.flatMap fun l => (l.length : Int) :: l.map (fun (k : Nat) => (k : Int))
      pure (Out.ints flat)
  | "c11.dihedral" => some do
      -- in: normals fi a b ; out: phi   (or E:ValueError / E:IndexError)
      let ns : List (V3 α) ← Rd.list c (Rd.v3 c)
      let fi ← Rd.list c (rdFaceIx c)
      let a ← Rd.nat c
      let b ← Rd.nat c
      pure <| reply do
        let phi ← CP.getDihedral ns (CP.findNeighbors ns.length fi) a b
        pure (Out.sc phi)
  | "c11.edges" => some do
      -- in: core ; out: L phi per face intersection
      let core : Core α ← rdCore c
      pure <| reply do
        let es ← CP.edgeTerms core
        pure (Out.scs (es.flatMap fun e => [e.1, e.2]))
  | "c11.sphero3" => some do
      -- in: core r ; out: radius volume surface_area mean_curvature iq   (or E:kind)
      let core : Core α ← rdCore c
      let r : α ← Rd.sc c
      pure <| reply do
        let r ← setRadius r
        let v ← SpheroPolyhedron.volume core r
        let s ← SpheroPolyhedron.surfaceArea core r
        let m ← SpheroPolyhedron.meanCurvature core r
        let q ← SpheroPolyhedron.iq core r
        pure s!"{Out.sc r} {Out.sc v} {Out.sc s} {Out.sc m} {Out.sc q}"
  | "c11.sphero2" => some do
      -- in: vertices polyArea r ; out: radius signed_area area perimeter iq   (or E:kind)
      let vs : List (V3 α) ← Rd.list c (Rd.v3 c)
      let a : α ← Rd.sc c
      let r : α ← Rd.sc c
      pure <| reply do
        let r ← setRadius r
        let ar := SpheroPolygon.area vs a r
        let p := SpheroPolygon.perimeter vs r
        pure s!"{Out.sc r} {Out.sc (SpheroPolygon.signedArea vs a r)} {Out.sc ar} {Out.sc p} {Out.sc (Shape2D.iq ar p)}"
  | "c11.spec3" => some do
      -- in: V S r edges[(L,phi)] ; out: M H steinerVolume steinerArea M(r) statedVolume statedArea tau asph iq3
      let v : α ← Rd.sc c
      let s : α ← Rd.sc c
      let r : α ← Rd.sc c
      let es : List (α × α) ← Rd.list c (rdPair c)
      let H := SteinerSpec.integratedMeanCurvature es
      let M := SteinerSpec.meanCurvature es
      pure s!"{Out.sc M} {Out.sc H} {Out.sc (SteinerSpec.steinerVolume v s H r)} {Out.sc (SteinerSpec.steinerArea s H r)} {Out.sc (SteinerSpec.normalise (SteinerSpec.steinerIntegratedMeanCurvature H r))} {Out.sc (SteinerSpec.statedVolume v s M r)} {Out.sc (SteinerSpec.statedArea s M r)} {Out.sc (SteinerSpec.tau M s)} {Out.sc (SteinerSpec.asphericity M s v)} {Out.sc (SteinerSpec.iq3 v s)}"
  | "c11.spec2" => some do
      -- in: A P r ; out: steinerArea2 steinerPerimeter2 iq2(of the rounded shape) iq2(core)
      let a : α ← Rd.sc c
      let p : α ← Rd.sc c
      let r : α ← Rd.sc c
      let ar := SteinerSpec.steinerArea2 a p r
      let pr := SteinerSpec.steinerPerimeter2 p r
      pure s!"{Out.sc ar} {Out.sc pr} {Out.sc (SteinerSpec.iq2 ar pr)} {Out.sc (SteinerSpec.iq2 a p)}"
  | "c11.specdihedral" => some do
      -- in: n1 n2 (any non-zero outward normals) ; out: pi - angle(n1, n2)
      let n1 : V3 α ← Rd.v3 c
      let n2 : V3 α ← Rd.v3 c
      pure (Out.sc (SteinerSpec.dihedral n1 n2))
  | "c11.specdihedral2" => some do
      -- in: n1 n2 (any non-zero outward normals) ; out: atan2(|n1 x n2|, -n1.n2)
      let n1 : V3 α ← Rd.v3 c
      let n2 : V3 α ← Rd.v3 c
      pure (Out.sc (SteinerSpec.dihedralAtan2 n1 n2))
  | "c11.poly2" => some do
      -- in: planar vertices [(x, y)], r ; out: allCcw(0/1) turnSum perimeter2 shoelace2
      --     parallelArea2(|shoelace2|) parallelPerimeter2
      -- (Q: allCcw and shoelace2 are exact; F: the rest)
      let vs : List (α × α) ← Rd.list c (rdPair c)
      let r : α ← Rd.sc c
      let a := SteinerSpec.shoelace2 vs
      let ok : Int := if SteinerSpec.allCcw vs then 1 else 0
      pure s!"{Out.int ok} {Out.sc (SteinerSpec.turnSum vs)} {Out.sc (SteinerSpec.perimeter2 vs)} {Out.sc a} {Out.sc (SteinerSpec.parallelArea2 (Scalar.abs a) vs r)} {Out.sc (SteinerSpec.parallelPerimeter2 vs r)}"
  | "c11.caps" => some do
      -- in: nV, faces [[(x, y)]] (each face in coordinates of its own plane, counter-clockwise), r
      -- out: eulerOk(0/1) allFacesCcw(0/1) capAngleSum capVolume capArea
      -- (Q on exact axis-projected coordinates: the two flags are exact; F on in-plane coordinates: the sums)
      let nV ← Rd.nat c
      let faces : List (List (α × α)) ← Rd.list c (Rd.list c (rdPair c))
      let r : α ← Rd.sc c
      let e : Int := if SteinerSpec.eulerOk nV (faces.map List.length) then 1 else 0
      let a : Int := if faces.all (fun f => decide (3 ≤ f.length) && SteinerSpec.allCcw f) then 1 else 0
      pure s!"{Out.int e} {Out.int a} {Out.sc (SteinerSpec.capAngleSum nV faces)} {Out.sc (SteinerSpec.capVolume nV faces r)} {Out.sc (SteinerSpec.capArea nV faces r)}"
  | "c11.hist3" => some do
      -- in: core r ops[(kind, value)] ; out: radius volume surface_area mean_curvature coreV coreS vertices…
      let core : Core α ← rdCore c
      let r : α ← Rd.sc c
      let ops ← Rd.list c (rdOp3 c)
      pure <| reply do
        let r0 ← setRadius r
        let s ← (SpheroPolyhedron.State.mk core r0).run ops
        let v ← SpheroPolyhedron.volume s.core s.radius
        let a ← SpheroPolyhedron.surfaceArea s.core s.radius
        let m ← SpheroPolyhedron.meanCurvature s.core s.radius
        pure s!"{Out.sc s.radius} {Out.sc v} {Out.sc a} {Out.sc m} {Out.sc s.core.volume} {Out.sc s.core.area} {outV3s s.core.vertices}"
  | "c11.hist2" => some do
      -- in: vertices normal r ops[(kind, value)] ; out: radius signed_area area perimeter vertices…
      let vs : List (V3 α) ← Rd.list c (Rd.v3 c)
      let n : V3 α ← Rd.v3 c
      let r : α ← Rd.sc c
      let ops ← Rd.list c (rdOp2 c)
      let pa : List (V3 α) → α := fun l => Poly2.signedArea l n
      pure <| reply do
        let r0 ← setRadius r
        let s ← (SpheroPolygon.State.mk vs r0).run pa ops
        pure s!"{Out.sc s.radius} {Out.sc (s.signedArea pa)} {Out.sc (s.area pa)} {Out.sc s.perimeter} {outV3s s.vertices}"
  | _ => none

end OpsC11
