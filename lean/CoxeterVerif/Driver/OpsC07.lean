import CoxeterVerif.Driver.Proto
import CoxeterVerif.Model.Structure
import CoxeterVerif.Spec.Structure
import CoxeterVerif.Lemmas.StructureCheck

namespace OpsC07
open Struct

/-- length-prefixed list of naturals (a face / simplex / neighbour row / label row) -/
def rdFace (c : Ctx) : Rd (List Nat) := Rd.list c (Rd.nat c)
def rdFaces (c : Ctx) : Rd (List (List Nat)) := Rd.list c (rdFace c)
def rdVerts {α} [Codec α] (c : Ctx) : Rd (List (V3 α)) := Rd.list c (Rd.v3 c)
def rdEqn {α} [Codec α] (c : Ctx) : Rd (Eqn α) := do
  let n ← Rd.v3 c; let d ← Rd.sc c; pure (n, d)
def rdM3 {α} [Codec α] (c : Ctx) : Rd (M3 α) := do
  let a ← Rd.sc c; let b ← Rd.sc c; let d ← Rd.sc c
  let e ← Rd.sc c; let f ← Rd.sc c; let g ← Rd.sc c
  let h ← Rd.sc c; let i ← Rd.sc c; let j ← Rd.sc c
  pure ⟨a, b, d, e, f, g, h, i, j⟩
def rdBool (c : Ctx) : Rd Bool := do let v ← Rd.nat c; pure (v != 0)

/-- a list of index lists as `i<count> (i<len> i.. )*` -/
def outFaces (F : List (List Nat)) : String :=
  " ".intercalate (s!"i{F.length}" :: F.map fun f =>
    " ".intercalate (s!"i{f.length}" :: f.map fun k => s!"i{k}"))
def outEdges (E : List (Nat × Nat)) : String :=
  " ".intercalate (s!"i{E.length}" :: E.map fun e => s!"i{e.1} i{e.2}")
def outEqns {α} [Codec α] (E : List (Eqn α)) : String :=
  " ".intercalate (s!"i{E.length}" :: E.map fun e => s!"{Out.v3 e.1} {Out.sc e.2}")

/-- driver ops of C07. `none` = unknown op. -/
def run (α : Type) [Scalar α] [Codec α] (op : String) (c : Ctx) : Option (Rd String) :=
  match op with
  | "st.neighbors" => some do
      -- in: faces ; out: neighbour lists, intersections (i j a b)* | E:AssertionError
      let F ← rdFaces c
      match findNeighbors F, faceIntersections F with
      | .ok N, .ok P =>
          pure (outFaces N ++ " " ++ " ".intercalate (s!"i{P.length}" :: P.map fun p =>
            s!"i{p.1} i{p.2.1} i{p.2.2.1} i{p.2.2.2}"))
      | .error e, _ => pure s!"E:{e}"
      | _, .error e => pure s!"E:{e}"
  | "st.edges" => some do
      -- in: faces, V ; out: edges, len(edges), V+F-2
      let F ← rdFaces c
      let nv ← Rd.nat c
      pure s!"{outEdges (edges F)} i{numEdges F} i{numEdgesConvex nv F.length}"
  | "st.edge_history" => some do
      -- in: initial faces, ops (i0 = read the edges | i1 faces = sort_faces/merge_faces ending with these faces)
      -- out: i<number of reads>, then the edge list returned by every read (state machine `EdgeCache`)
      let F0 ← rdFaces c
      let ops ← Rd.list c (do
        let k ← Rd.nat c
        if k == 0 then pure EdgeOp.read else do
          let F ← rdFaces c
          pure (EdgeOp.setFaces F))
      let (_, outs) := ops.foldl (fun (acc : EdgeCache × List String) op =>
          match op with
          | .read => let r := acc.1.readEdges; (r.2, acc.2 ++ [outEdges r.1])
          | .setFaces F => (acc.1.step (.setFaces F), acc.2)) (EdgeCache.init F0, [])
      pure (" ".intercalate (s!"i{outs.length}" :: outs))
  | "st.edge_vectors" => some do
      -- in: verts, faces ; out: n, vectors (3 each), lengths
      let V : List (V3 α) ← rdVerts c
      let F ← rdFaces c
      let ev := edgeVectors V F
      pure (" ".intercalate (s!"i{ev.length}" :: (ev.map Out.v3 ++ (edgeLengths V F).map Out.sc)))
  | "st.combine" => some do
      -- in: equations, simplices, tol ; out: faces, groups, equations
      let E : List (Eqn α) ← Rd.list c (rdEqn c)
      let S ← rdFaces c
      let tol : α ← Rd.sc c
      let r := combineSimplices E S tol
      pure s!"{outFaces r.1} {outFaces r.2.2} {outEqns r.2.1}"
  | "st.sort_simplices" => some do
      -- in: verts, start simplices, hull neighbours ; out: simplices
      let V : List (V3 α) ← rdVerts c
      let S ← rdFaces c
      let N ← rdFaces c
      pure (outFaces (sortSimplices V S N))
  | "st.propagate" => some do
      -- in: faces, neighbours ; out: faces after the traversal, visited list, b<stack empty>
      let F ← rdFaces c
      let N ← rdFaces c
      let st := propagate N F
      pure s!"{outFaces st.faces} {outFaces [st.visited]} {Out.bool st.stack.isEmpty}"
  | "st.cp_sort_face" => some do
      -- in: verts, face, R, normal, tol ; out: sorted face, b<kabsch contract>
      let V : List (V3 α) ← rdVerts c
      let f ← rdFace c
      let R : M3 α ← rdM3 c
      let n : V3 α ← Rd.v3 c
      let tol : α ← Rd.sc c
      pure s!"{outFaces [cpSortFace V f R]} {Out.bool (kabschContract n R tol)}"
  | "st.equations" => some do
      -- in: verts, faces ; out: equations
      let V : List (V3 α) ← rdVerts c
      let F ← rdFaces c
      pure (outEqns (findEquations V F))
  | "st.simplex_equations" => some do
      -- in: verts, simplices ; out: equations of `_find_simplex_equations`
      let V : List (V3 α) ← rdVerts c
      let S ← rdFaces c
      pure (outEqns (simplexEquations V S))
  | "st.dihedral" => some do
      -- in: neighbours, normals, a, b ; out: angle | E:ValueError
      let N ← rdFaces c
      let ns : List (V3 α) ← rdVerts c
      let a ← Rd.nat c
      let b ← Rd.nat c
      match getDihedral N ns a b with
      | .ok x => pure (Out.sc x)
      | .error e => pure s!"E:{e}"
  | "st.poly_sort_faces" => some do
      -- in: faces_are_convex, verts, faces, Rs, convex flags ; out: faces, equations, neighbours | E:kind
      let fc ← rdBool c
      let V : List (V3 α) ← rdVerts c
      let F ← rdFaces c
      let Rs : List (M3 α) ← Rd.list c (rdM3 c)
      let cv ← Rd.list c (rdBool c)
      match polySortFaces fc V F Rs cv with
      | .ok r => pure s!"{outFaces r.1} {outEqns r.2.1} {outFaces r.2.2}"
      | .error e => pure s!"E:{e}"
  | "st.init_convex_flag" => some do
      -- in: given (i-1 = None, i0, i1), faces ; out: b<_faces_are_convex>
      let g ← Rd.int c
      let F ← rdFaces c
      let given : Option Bool := if g < 0 then none else some (g != 0)
      pure (Out.bool (initFacesAreConvex given F))
  | "st.poly_reorder_face" => some do
      -- in: verts, face, R, convex ; out: face | E:kind
      let V : List (V3 α) ← rdVerts c
      let f ← rdFace c
      let R : M3 α ← rdM3 c
      let cv ← rdBool c
      match polyReorderFace V f R cv with
      | .ok r => pure (outFaces [r])
      | .error e => pure s!"E:{e}"
  | "st.face_area" => some do
      -- in: vertices of one face (cycle), normal ; out: Poly2.area (C04 model)
      let vs : List (V3 α) ← rdVerts c
      let n : V3 α ← Rd.v3 c
      pure (Out.sc (Poly2.area vs n))
  | "st.merge_graph" => some do
      -- in: equations, neighbours, atol, rtol, labels, faces ; out: graph edges, b<labels contract>, merged faces
      let E : List (Eqn α) ← Rd.list c (rdEqn c)
      let N ← rdFaces c
      let atol : α ← Rd.sc c
      let rtol : α ← Rd.sc c
      let labels ← rdFace c
      let F ← rdFaces c
      let g := mergeGraph E N atol rtol
      pure s!"{outEdges g} {Out.bool (labelsContract F.length g labels)} {outFaces (mergedFaces F labels)} {Out.bool (labelsCert F.length g labels)}"
  | "st.merge_faces" => some do
      -- in: convex flag, verts, faces, equations, neighbours, atol, rtol, labels, order, Rs, convex flags
      let fc ← rdBool c
      let V : List (V3 α) ← rdVerts c
      let F ← rdFaces c
      let E : List (Eqn α) ← Rd.list c (rdEqn c)
      let N ← rdFaces c
      let atol : α ← Rd.sc c
      let rtol : α ← Rd.sc c
      let labels ← rdFace c
      let order ← rdFaces c
      let Rs : List (M3 α) ← Rd.list c (rdM3 c)
      let cv ← Rd.list c (rdBool c)
      match mergeFaces fc V F E N atol rtol labels order Rs cv with
      | .ok r => pure s!"{outFaces r.1} {outEqns r.2.1} {outFaces r.2.2}"
      | .error e => pure s!"E:{e}"
  | "spec.facet" => some do
      -- in: verts, face ; out: b<supporting facet> b<convex ccw cycle> vector area(3)   (exact with Q)
      let V : List (V3 α) ← rdVerts c
      let f ← rdFace c
      pure s!"{Out.bool (StructSpec.isSupportingFacet V f)} {Out.bool (StructSpec.cycleConvexCcw V f)} {Out.v3 (StructSpec.vectorArea V f)}"
  | "st.dihedral_py" => some do
      -- in: neighbours, normals, a, b (Python ints, may be negative / out of range) ; out: angle | E:kind
      let N ← rdFaces c
      let ns : List (V3 α) ← rdVerts c
      let a ← Rd.int c
      let b ← Rd.int c
      match getDihedralPy N ns a b with
      | .ok x => pure (Out.sc x)
      | .error e => pure s!"E:{e}"
  | "cert.surface" => some do
      -- in: verts, faces ; out: b<surfaceCert> b<closed oriented> b<all faces well formed> b<all supporting>
      --      b<all convex ccw> b<every vertex used> b<euler>    (exact with Q; theorem `surface_cert_sound`)
      let V : List (V3 α) ← rdVerts c
      let F ← rdFaces c
      let used := (List.range V.length).all fun i => F.any fun f => f.contains i
      let euler := decide (2 * (V.length + F.length) = (F.map List.length).sum + 4)
      pure (Out.bools [StructSpec.surfaceCert V F, StructSpec.closedOrientedB F,
        F.all (StructSpec.faceWellFormed V), F.all (StructSpec.isSupportingFacet V),
        F.all (StructSpec.cycleConvexCcw V), used, euler])
  | "cert.simplices" => some do
      -- in: verts, start simplices, hull neighbours, G (implementation's simplices, rotated to the start)
      -- out: b<simplexCert with p = vertex mean> b<same up to reversal> b<closed oriented> b<neighbours share>
      --      b<connected> b<outward from p> b<model output == G>   (exact with Q; `sort_simplices_outward`)
      let V : List (V3 α) ← rdVerts c
      let S ← rdFaces c
      let N ← rdFaces c
      let G ← rdFaces c
      let p := mean V
      pure (Out.bools [simplexCert V S N G p, StructSpec.sameUpToReversalB S G, StructSpec.closedOrientedB G,
        nbrsShareB N S, visitsAll N S, StructSpec.outwardFromB V p G, sortSimplices V S N == G])
  | "cert.orient" => some do
      -- in: faces (after the per-face reorder), G (implementation's faces) ; out: b<orientCert>
      --      b<same up to reversal> b<closed oriented> b<connected>   (`poly_sort_faces_oriented`)
      let F ← rdFaces c
      let G ← rdFaces c
      let conn := match findNeighbors F with
        | .ok N => visitsAll N F
        | .error _ => false
      pure (Out.bools [orientCert F G, StructSpec.sameUpToReversalB F G, StructSpec.closedOrientedB G, conn])
  | "spec.closed_oriented" => some do
      -- in: faces ; out: b<no directed edge twice> b<every directed edge has its reverse> b<no loops>
      let F ← rdFaces c
      let D := StructSpec.allDir F
      let nd := (Struct.dedup D).length == D.length
      let rv := D.all fun e => D.contains (e.2, e.1)
      let nl := D.all fun e => e.1 != e.2
      pure s!"{Out.bool nd} {Out.bool rv} {Out.bool nl}"
  | _ => none

end OpsC07
