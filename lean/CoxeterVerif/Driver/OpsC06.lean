import CoxeterVerif.Driver.Proto
import CoxeterVerif.Model.Inside2D
import CoxeterVerif.Spec.Inside2D

namespace OpsC06
open Inside2D Spec.In2D

def rdP2 {α} [Codec α] (c : Ctx) : Rd (P2 α) := do
  let x ← Rd.sc c; let y ← Rd.sc c; pure ⟨x, y⟩

def rdTri2 {α} [Codec α] (c : Ctx) : Rd (Tri2 α) := do
  let a ← rdP2 c; let b ← rdP2 c; let d ← rdP2 c; pure ⟨a, b, d⟩

def rdM3 {α} [Codec α] (c : Ctx) : Rd (M3 α) := do
  let xx ← Rd.sc c; let xy ← Rd.sc c; let xz ← Rd.sc c
  let yx ← Rd.sc c; let yy ← Rd.sc c; let yz ← Rd.sc c
  let zx ← Rd.sc c; let zy ← Rd.sc c; let zz ← Rd.sc c
  pure ⟨xx, xy, xz, yx, yy, yz, zx, zy, zz⟩

def rdTri3 {α} [Codec α] (c : Ctx) : Rd (Tri3 α) := do
  let a ← Rd.v3 c; let b ← Rd.v3 c; let d ← Rd.v3 c; pure ⟨a, b, d⟩

/-- the `points` argument after `np.atleast_2d`: width, then the rows (each a list of scalars) -/
def rdRows {α} [Codec α] (c : Ctx) : Rd (Polygon.Rows α) := do
  let w ← Rd.nat c
  let rows : List (List α) ← Rd.list c (Rd.list c (Rd.sc c))
  pure ⟨w, rows⟩

def outExc (r : Except String (List Bool)) : String :=
  match r with
  | .ok bs => Out.bools bs
  | .error e => s!"E:{e}"

def join (l : List String) : String := " ".intercalate (l.filter (· ≠ ""))

/-- driver ops of C06. `none` = unknown op. -/
def run (α : Type) [Scalar α] [Codec α] (op : String) (c : Ctx) : Option (Rd String) :=
  match op with
  | "poly.inside" => some do
      -- in: verts (x y)*, points (x y)* (both already in the rotated frame)
      -- out: per point  b<is_inside (vectorised model)>  i<half-turn sum>
      let vs : List (P2 α) ← Rd.list c (rdP2 c)
      let ps : List (P2 α) ← Rd.list c (rdP2 c)
      let bs := Polygon.isInsideRotBatch vs ps
      let hs := ps.map (Polygon.halfTurnSum vs)
      pure (join ((bs.zip hs).map fun bh => s!"{Out.bool bh.1} {Out.int bh.2}"))
  | "poly.inside3" => some do
      -- in: R(9, row major), verts (x y z)*, points (x y z)*
      -- out: n bools, then the rotated points (3 each), then the rotated vertices (3 each)
      let R : M3 α ← rdM3 c
      let vs : List (V3 α) ← Rd.list c (Rd.v3 c)
      let ps : List (V3 α) ← Rd.list c (Rd.v3 c)
      let bs := Polygon.isInside R vs ps
      pure (join [Out.bools bs, join (ps.map fun p => Out.v3 (rotate R p)),
        join (vs.map fun v => Out.v3 (rotate R v))])
  | "poly.inside2" => some do
      -- in: R(9), verts (x y z)*, points (x y)*  ((N,2) input, padded with z = 0) ; out: bools
      let R : M3 α ← rdM3 c
      let vs : List (V3 α) ← Rd.list c (Rd.v3 c)
      let ps : List (P2 α) ← Rd.list c (rdP2 c)
      pure (Out.bools (Polygon.isInside2 R vs ps))
  | "circle.inside" => some do
      -- in: r, centre(3), points (x y z)* ; out: bools
      let r : α ← Rd.sc c
      let cen : V3 α ← Rd.v3 c
      let ps : List (V3 α) ← Rd.list c (Rd.v3 c)
      pure (Out.bools (Circle.isInside r cen ps))
  | "ellipse.inside" => some do
      -- in: a, b, centre(3), points (x y z)* ; out: bools
      let a : α ← Rd.sc c
      let b : α ← Rd.sc c
      let cen : V3 α ← Rd.v3 c
      let ps : List (V3 α) ← Rd.list c (Rd.v3 c)
      pure (Out.bools (Ellipse.isInside a b cen ps))
  | "spec.region" => some do
      -- in: triangles (ax ay bx by cx cy)*, points (x y)*
      -- out: area2, then per point  i<number of triangles strictly containing it>
      --      b<on the boundary of some triangle>
      let Ts : List (Tri2 α) ← Rd.list c (rdTri2 c)
      let ps : List (P2 α) ← Rd.list c (rdP2 c)
      let per := ps.map fun p =>
        s!"{Out.int (count Ts p)} {Out.bool (Ts.any fun t => onBoundary t p)}"
      pure (join (Out.sc (area2 Ts) :: per))
  | "spec.disk" => some do
      -- in: r, centre(2), points (x y)* ; out: bools
      let r : α ← Rd.sc c
      let cen : P2 α ← rdP2 c
      let ps : List (P2 α) ← Rd.list c (rdP2 c)
      pure (Out.bools (ps.map (inDisk r cen)))
  | "spec.ellipse" => some do
      -- in: a, b, centre(2), points (x y)* ; out: bools
      let a : α ← Rd.sc c
      let b : α ← Rd.sc c
      let cen : P2 α ← rdP2 c
      let ps : List (P2 α) ← Rd.list c (rdP2 c)
      pure (Out.bools (ps.map (inEllipse a b cen)))
  | "cert.region" => some do
      -- the triangulation certificate of `polygon_inside_checked / _certified`, run exactly (Q mode)
      -- in: verts (x y)*, triangles (ax ay bx by cx cy)*, points (x y)*
      -- out: b<certCheck = chain by cancellation && consistent strict orientation>, then per point
      --      b<offCheck> b<inRegion> i<count> b<model isInsideRot> i<half-turn sum> b<onPolygon>
      let vs : List (P2 α) ← Rd.list c (rdP2 c)
      let Ts : List (Tri2 α) ← Rd.list c (rdTri2 c)
      let ps : List (P2 α) ← Rd.list c (rdP2 c)
      let per := ps.map fun p =>
        s!"{Out.bool (offCheck Ts p)} {Out.bool (inRegion Ts p)} {Out.int (count Ts p)} {Out.bool (Polygon.isInsideRot vs p)} {Out.int (Polygon.halfTurnSum vs p)} {Out.bool (onPolygon vs p)}"
      pure (join (Out.bool (certCheck vs Ts) :: per))
  | "convex.inside" => some do
      -- the hypotheses and the spec of `convex_inside_certified`, run exactly (Q mode)
      -- in: verts (x y)*, points (x y)*
      -- out: b<convexCheck vs> b<convexCheck vs.reverse>, then per point
      --      b<onPolygon> b<inConvex> b<model isInsideRot>
      let vs : List (P2 α) ← Rd.list c (rdP2 c)
      let ps : List (P2 α) ← Rd.list c (rdP2 c)
      let per := ps.map fun p =>
        s!"{Out.bool (onPolygon vs p)} {Out.bool (inConvex vs p)} {Out.bool (Polygon.isInsideRot vs p)}"
      pure (join (Out.bool (convexCheck vs) :: Out.bool (convexCheck vs.reverse) :: per))
  | "spec.evenodd" => some do
      -- the even-odd rule (crossing number of the upward ray), triangulation-free; Q mode
      -- in: verts (x y)*, points (x y)* ; out: per point  i<crossNumber>  i<model windingNumber>  b<onPolygon>
      let vs : List (P2 α) ← Rd.list c (rdP2 c)
      let ps : List (P2 α) ← Rd.list c (rdP2 c)
      pure (join (ps.map fun p =>
        s!"{Out.int (crossNumber vs p)} {Out.int (Polygon.windingNumber vs p)} {Out.bool (onPolygon vs p)}"))
  | "spec.region3" => some do
      -- intrinsic membership in space (no rotation): in: n(3), triangles (9 each)*, points (x y z)*
      -- out: per point  b<inRegion3>  b<on the boundary of some triangle>
      let n : V3 α ← Rd.v3 c
      let Ts : List (Tri3 α) ← Rd.list c (rdTri3 c)
      let ps : List (V3 α) ← Rd.list c (Rd.v3 c)
      pure (join (ps.map fun p =>
        s!"{Out.bool (inRegion3 n Ts p)} {Out.bool (Ts.any fun t => onBoundary3 n t p)}"))
  | "poly.arg" => some do
      -- `Polygon.is_inside(points)` with its argument handling
      -- in: R(9), verts (x y z)*, width, rows ((scalar)*)* ; out: bools | E:ValueError
      let R : M3 α ← rdM3 c
      let vs : List (V3 α) ← Rd.list c (Rd.v3 c)
      let a ← rdRows c
      pure (outExc (Polygon.isInsideArg R vs a))
  | "circle.arg" => some do
      -- in: r, centre(3), width, rows ; out: bools | E:ValueError
      let r : α ← Rd.sc c
      let cen : V3 α ← Rd.v3 c
      let a ← rdRows c
      pure (outExc (Circle.isInsideArg r cen a))
  | "ellipse.arg" => some do
      -- in: a, b, centre(3), width, rows ; out: bools | E:ValueError
      let a : α ← Rd.sc c
      let b : α ← Rd.sc c
      let cen : V3 α ← Rd.v3 c
      let arg ← rdRows c
      pure (outExc (Ellipse.isInsideArg a b cen arg))
  | "poly.normaldir" => some do
      -- in: v0 v1 v2 ; out: cross(v2 - v1, v0 - v1)
      let v0 : V3 α ← Rd.v3 c
      let v1 : V3 α ← Rd.v3 c
      let v2 : V3 α ← Rd.v3 c
      pure (Out.v3 (Polygon.normalDir v0 v1 v2))
  | _ => none

end OpsC06
