import CoxeterVerif.Driver.Proto
import CoxeterVerif.Model.Inside2D
import CoxeterVerif.Spec.Inside2D

namespace OpsC06
open Inside2D Spec.In2D

def rdP2 {α} [Codec α] (c : Ctx) : Rd (P2 α) := do
  let x ← Rd.sc c; let y ← Rd.sc c; pure ⟨x, y⟩

def rdTri2 {α} [Codec α] (c : Ctx) : Rd (Tri2 α) := do
  let a ← rdP2 c; let b ← rdP2 c; let d ← rdP2 c; pure ⟨a, b, d⟩

def rdM3 {α} [Codec α] (c : Ctx) : Rd (M3 α) := do
  let xx ← Rd.sc c; let xy ← Rd.sc c; let xz ← Rd.sc c
  let yx ← Rd.sc c; let yy ← Rd.sc c; let yz ← Rd.sc c
  let zx ← Rd.sc c; let zy ← Rd.sc c; let zz ← Rd.sc c
  pure ⟨xx, xy, xz, yx, yy, yz, zx, zy, zz⟩

def join (l : List String) : String := " ".intercalate (l.filter (· ≠ ""))

/-- driver ops of C06. `none` = unknown op. -/
def run (α : Type) [Scalar α] [Codec α] (op : String) (c : Ctx) : Option (Rd String) :=
  match op with
  | "poly.inside" => some do
      -- in: verts (x y)*, points (x y)* (both already in the rotated frame)
      -- out: per point  b<is_inside (vectorised model)>  i<half-turn sum>
      let vs : List (P2 α) ← Rd.list c (rdP2 c)
      let ps : List (P2 α) ← Rd.list c (rdP2 c)
      let bs := Polygon.isInsideRotBatch vs ps
      let hs := ps.map (Polygon.halfTurnSum vs)
      pure (join ((bs.zip hs).map fun bh => s!"{Out.bool bh.1} {Out.int bh.2}"))
  | "poly.inside3" => some do
      -- in: R(9, row major), verts (x y z)*, points (x y z)*
      -- out: n bools, then the rotated points (3 each), then the rotated vertices (3 each)
      let R : M3 α ← rdM3 c
      let vs : List (V3 α) ← Rd.list c (Rd.v3 c)
      let ps : List (V3 α) ← Rd.list c (Rd.v3 c)
      let bs := Polygon.isInside R vs ps
      pure (join [Out.bools bs, join (ps.map fun p => Out.v3 (rotate R p)),
        join (vs.map fun v => Out.v3 (rotate R v))])
  | "poly.inside2" => some do
      -- in: R(9), verts (x y z)*, points (x y)*  ((N,2) input, padded with z = 0) ; out: bools
      let R : M3 α ← rdM3 c
      let vs : List (V3 α) ← Rd.list c (Rd.v3 c)
      let ps : List (P2 α) ← Rd.list c (rdP2 c)
      pure (Out.bools (Polygon.isInside2 R vs ps))
  | "circle.inside" => some do
      -- in: r, centre(3), points (x y z)* ; out: bools
      let r : α ← Rd.sc c
      let cen : V3 α ← Rd.v3 c
      let ps : List (V3 α) ← Rd.list c (Rd.v3 c)
      pure (Out.bools (Circle.isInside r cen ps))
  | "ellipse.inside" => some do
      -- in: a, b, centre(3), points (x y z)* ; out: bools
      let a : α ← Rd.sc c
      let b : α ← Rd.sc c
      let cen : V3 α ← Rd.v3 c
      let ps : List (V3 α) ← Rd.list c (Rd.v3 c)
      pure (Out.bools (Ellipse.isInside a b cen ps))
  | "spec.region" => some do
      -- in: triangles (ax ay bx by cx cy)*, points (x y)*
      -- out: area2, then per point  i<number of triangles strictly containing it>
      --      b<on the boundary of some triangle>
      let Ts : List (Tri2 α) ← Rd.list c (rdTri2 c)
      let ps : List (P2 α) ← Rd.list c (rdP2 c)
      let per := ps.map fun p =>
        s!"{Out.int (count Ts p)} {Out.bool (Ts.any fun t => onBoundary t p)}"
      pure (join (Out.sc (area2 Ts) :: per))
  | "spec.disk" => some do
      -- in: r, centre(2), points (x y)* ; out: bools
      let r : α ← Rd.sc c
      let cen : P2 α ← rdP2 c
      let ps : List (P2 α) ← Rd.list c (rdP2 c)
      pure (Out.bools (ps.map (inDisk r cen)))
  | "spec.ellipse" => some do
      -- in: a, b, centre(2), points (x y)* ; out: bools
      let a : α ← Rd.sc c
      let b : α ← Rd.sc c
      let cen : P2 α ← rdP2 c
      let ps : List (P2 α) ← Rd.list c (rdP2 c)
      pure (Out.bools (ps.map (inEllipse a b cen)))
  | _ => none

end OpsC06
