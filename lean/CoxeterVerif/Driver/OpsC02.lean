import CoxeterVerif.Driver.Proto
import CoxeterVerif.Model.Polyhedron
import CoxeterVerif.Model.Constructors

namespace OpsC02

def triOut {α} [Codec α] (t : Tri α) : String := s!"{Out.v3 t.a} {Out.v3 t.b} {Out.v3 t.c}"

/-- driver ops of C02. `none` = unknown op. -/
def run (α : Type) [Scalar α] [Codec α] (op : String) (c : Ctx) : Option (Rd String) :=
  match op with
  | "polytri.triangulate" => some do
      -- in: polygon vertices ; out: i<ntri> then 9 scalars per triangle | E:ValueError
      let poly : List (V3 α) ← Rd.list c (Rd.v3 c)
      match Polytri.triangulate poly with
      | .ok tris => pure (s!"i{tris.length} " ++ " ".intercalate (tris.map triOut))
      | .error e => pure s!"E:{e}"
  | "poly.face_equation" => some do
      let v0 : V3 α ← Rd.v3 c; let v1 : V3 α ← Rd.v3 c; let v2 : V3 α ← Rd.v3 c
      let e := Poly3.faceEquation v0 v1 v2
      pure s!"{Out.v3 e.1} {Out.sc e.2}"
  | "poly.volume" => some do
      -- in: list of (d_i, A_i)
      let fs : List (α × α) ← Rd.list c (do let d ← Rd.sc c; let a ← Rd.sc c; pure (d, a))
      pure (Out.sc (Poly3.volume fs))
  | "poly.measures" => some do
      -- in: surface triangles, volume ; out: centroid(3) inertia(9)
      let S : List (Tri α) ← Rd.list c (Rd.tri c)
      let vol : α ← Rd.sc c
      let cen := Poly3.centroid S
      pure s!"{Out.v3 cen} {Out.m3 (Poly3.inertia S cen vol)}"
  | "poly.face_area" => some do
      -- in: face vertices, hull count (Qhull, external), aligned centred vertices (kabsch, external)
      -- out: area | E:ValueError.  The vertex order after `_reorder_verts` is computed by the model (C15.reorder).
      let vs : List (V3 α) ← Rd.list c (Rd.v3 c)
      let hull ← Rd.nat c
      let rot : List (V3 α) ← Rd.list c (Rd.v3 c)
      match Poly3.faceArea vs hull (C15.reorder rot vs) with
      | .ok a => pure (Out.sc a)
      | .error e => pure s!"E:{e}"
  | "poly.object" => some do
      -- in: list of faces (vertices, hull count, aligned centred vertices)
      -- out: i<st> [vol area i<n> areas..]  i<st> [centroid(3)]  i<st> [inertia(9)]   (st 0 = ok, 1 = ValueError)
      let faces : List (List (V3 α) × Nat × List (V3 α)) ← Rd.list c (do
        let vs : List (V3 α) ← Rd.list c (Rd.v3 c)
        let hull ← Rd.nat c
        let rot : List (V3 α) ← Rd.list c (Rd.v3 c)
        pure (vs, hull, C15.reorder rot vs))
      let o := Poly3.observe faces
      let a := match o.areas with
        | .ok (v, s, as) => s!"i0 {Out.sc v} {Out.sc s} i{as.length} {Out.scs as}"
        | .error _ => "i1"
      let ce := match o.centroid with
        | .ok v => s!"i0 {Out.v3 v}"
        | .error _ => "i1"
      let i := match o.inertia with
        | .ok m => s!"i0 {Out.m3 m}"
        | .error _ => "i1"
      pure s!"{a} {ce} {i}"
  | "poly.facecert" => some do
      -- in: face vertices ; out: planarCheck ccwCheck clipCheck (exact when run in Q mode)
      let vs : List (V3 α) ← Rd.list c (Rd.v3 c)
      pure (Out.bools [Poly3.planarCheck vs, Poly3.ccwCheck vs, Poly3.clipCheck vs])
  | _ => none

end OpsC02
