import CoxeterVerif.Driver.Proto

namespace OpsC02

/-- driver ops of C02. `none` = unknown op. -/
def run (α : Type) [Scalar α] [Codec α] (op : String) (c : Ctx) : Option (Rd String) :=
  match op with
  | _ => none

end OpsC02
