import CoxeterVerif.Driver.Proto
import CoxeterVerif.Model.Polyhedron

namespace OpsC02

def triOut {α} [Codec α] (t : Tri α) : String := s!"{Out.v3 t.a} {Out.v3 t.b} {Out.v3 t.c}"

/-- driver ops of C02. `none` = unknown op. -/
def run (α : Type) [Scalar α] [Codec α] (op : String) (c : Ctx) : Option (Rd String) :=
  match op with
  | "polytri.triangulate" => some do
      -- in: polygon vertices ; out: i<ntri> then 9 scalars per triangle | E:ValueError
      let poly : List (V3 α) ← Rd.list c (Rd.v3 c)
      match Polytri.triangulate poly with
      | .ok tris => pure (s!"i{tris.length} " ++ " ".intercalate (tris.map triOut))
      | .error e => pure s!"E:{e}"
  | "poly.face_equation" => some do
      let v0 : V3 α ← Rd.v3 c; let v1 : V3 α ← Rd.v3 c; let v2 : V3 α ← Rd.v3 c
      let e := Poly3.faceEquation v0 v1 v2
      pure s!"{Out.v3 e.1} {Out.sc e.2}"
  | "poly.volume" => some do
      -- in: list of (d_i, A_i)
      let fs : List (α × α) ← Rd.list c (do let d ← Rd.sc c; let a ← Rd.sc c; pure (d, a))
      pure (Out.sc (Poly3.volume fs))
  | "poly.measures" => some do
      -- in: surface triangles, volume ; out: centroid(3) inertia(9)
      let S : List (Tri α) ← Rd.list c (Rd.tri c)
      let vol : α ← Rd.sc c
      let cen := Poly3.centroid S
      pure s!"{Out.v3 cen} {Out.m3 (Poly3.inertia S cen vol)}"
  | _ => none

end OpsC02
