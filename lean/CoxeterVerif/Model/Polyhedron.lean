import CoxeterVerif.Vec
import CoxeterVerif.Model.ConvexPolyhedron
/-!
  Model of the measure code of `coxeter/shapes/polyhedron.py` (general, possibly non-convex
  polyhedra) and of the vendored ear-clipping `coxeter/extern/polytri/polytri.py`.
-/

namespace Polytri
variable {α : Type} [Scalar α]
open Scalar

/-- `calculate_normal_3d`: Newell normal; (`near_zero` → ValueError) -/
def newell (poly : List (V3 α)) : V3 α :=
  match poly with
  | [] => V3.zero
  | first :: _ =>
    let rec go (l : List (V3 α)) (acc : V3 α) : V3 α :=
      match l with
      | [] => acc
      | [last] =>
          let minus := first - last; let plus := first + last
          ⟨acc.x + minus.y * plus.z, acc.y + minus.z * plus.x, acc.z + minus.x * plus.y⟩
      | p1 :: p2 :: rest =>
          let minus := p2 - p1; let plus := p2 + p1
          go (p2 :: rest) ⟨acc.x + minus.y * plus.z, acc.y + minus.z * plus.x, acc.z + minus.x * plus.y⟩
    go poly V3.zero

/-- sum of squared edge lengths of the closed polygon -/
def edgeSq (poly : List (V3 α)) : α :=
  match poly with
  | [] => lit 0
  | first :: _ =>
    let rec go (l : List (V3 α)) (acc : α) : α :=
      match l with
      | [] => acc
      | [last] => acc + V3.dot (first - last) (first - last)
      | p1 :: p2 :: rest => go (p2 :: rest) (acc + V3.dot (p2 - p1) (p2 - p1))
    go poly (lit 0)

/-- degeneracy test of `calculate_normal_3d` (as repaired: relative to the polygon's size) -/
def degenerate (poly : List (V3 α)) (normal : V3 α) : Bool :=
  let size := edgeSq poly
  decide (V3.dot normal normal ≤ (lit 1 / lit 10000000000000000) * size * size)

def veq (a b : V3 α) : Bool := Scalar.eqb a.x b.x && Scalar.eqb a.y b.y && Scalar.eqb a.z b.z

/-- `any_point_in_triangle` (closed barycentric test with the 1e-9 tolerance of the repaired code,
    via the inverse of `[s t s×t]`, by Cramer) -/
def anyPointInTriangle (a b c : V3 α) (pts : List (V3 α)) : Bool :=
  let s := b - a
  let t := c - a
  let n := V3.cross s t
  let det := V3.det3 s t n
  pts.any fun p =>
    let d := p - a
    let ps := V3.det3 d t n / det
    let pt := V3.det3 s d n / det
    let tol : α := lit 1 / lit 1000000000
    decide (-tol ≤ ps) && decide (-tol ≤ pt) && decide (ps + pt ≤ lit 1 + tol)

/-- element `i mod len` -/
def getLoop (poly : Array (V3 α)) (i : Nat) : V3 α := poly.getD (i % poly.size) V3.zero

/-- `looped_slice_inv(polygon, i, 3)`: the vertices not in the slice -/
def others (poly : Array (V3 α)) (i : Nat) : List (V3 α) :=
  let n := poly.size
  if i + 3 > n then (poly.toList.drop (i + 3 - n)).take (i - (i + 3 - n))
  else poly.toList.take i ++ poly.toList.drop (i + 3)

/-- `triangulate` main loop with fuel. Returns the emitted triangles or an error kind. -/
def loop (normal : V3 α) : Nat → Array (V3 α) → Nat → List (Tri α) → Except String (List (Tri α))
  | 0, _, _, _ => .error "fuel"
  | fuel + 1, poly, i, acc =>
    if poly.size ≤ 2 then .ok acc.reverse
    else if i ≥ poly.size then
      -- no ear left: fine if the remainder has no area
      let rest := (List.range poly.size).foldl
        (fun s k => s + V3.cross (getLoop poly k) (getLoop poly (k + 1))) V3.zero
      if V3.dot rest rest ≤ (lit 1 / lit 1000000000000) * V3.dot normal normal then .ok acc.reverse
      else .error "ValueError"
    else
      let a := getLoop poly i
      let b := getLoop poly (i + 1)
      let c := getLoop poly (i + 2)
      if veq a b || veq b c then
        loop normal fuel (poly.eraseIdxIfInBounds ((i + 1) % poly.size)) i acc
      else
        let x := V3.cross (c - b) (b - a)
        let dot := V3.dot normal x
        if (lit 1 / lit 1000000) * V3.dot normal normal < dot then
          if !(anyPointInTriangle a b c (others poly i)) then
            loop normal fuel (poly.eraseIdxIfInBounds ((i + 1) % poly.size)) 0 (⟨a, b, c⟩ :: acc)
          else loop normal fuel poly (i + 1) acc
        else loop normal fuel poly (i + 1) acc

/-- `polytri.triangulate(polygon)` for 3-D vertices -/
def triangulate (poly : List (V3 α)) : Except String (List (Tri α)) :=
  let normal := newell poly
  if degenerate poly normal then .error "ValueError"
  else
    let n := poly.length
    loop normal (n * n + 2 * n + 8) poly.toArray 0 []

end Polytri

namespace Poly3
variable {α : Type} [Scalar α]
open Scalar

/-- `_find_equations` for one face given its first three vertices:
    normal = cross(v2−v1, v0−v1)/|…|,  d = −n·v0 -/
def faceEquation (v0 v1 v2 : V3 α) : V3 α × α :=
  let n := V3.cross (v2 - v1) (v0 - v1)
  let nu := V3.sdiv n (V3.norm n)
  (nu, -(V3.dot nu v0))

/-- `volume` : `np.sum(-d * face_area) / 3` -/
def volume (faces : List (α × α)) : α :=
  Scalar.sum (faces.map fun da => (-da.1) * da.2) / lit 3

/-- per-triangle terms of the Eberly centroid loop: (normal[0]*f1[0], normal * f2) -/
def eberlyTerm (t : Tri α) : α × V3 α :=
  let v01 := t.b - t.a
  let v02 := t.c - t.a
  let normal := V3.cross v01 v02
  let t0 := t.a + t.b
  let f1 := t0 + t.c
  let t1 := V3.had t.a t.a
  let t2 := t1 + V3.had t.b t0
  let f2 := t2 + V3.had t.c f1
  (normal.x * f1.x, V3.had normal f2)

/-- `Polyhedron.centroid` over the surface triangulation -/
def centroid (S : List (Tri α)) : V3 α :=
  let vol := Scalar.sum (S.map fun t => (eberlyTerm t).1)
  let cen := V3.sum (S.map fun t => (eberlyTerm t).2)
  V3.sdiv (V3.sdiv cen vol) (lit 4)

/-- `triangle_integrate(f)` term for one (centred) simplex with signed volume factor `vol` -/
def kallay (vol : α) (t : Tri α) (f : V3 α → α) : α :=
  (vol / lit 20) * (f t.a + f t.b + f t.c + f (t.a + t.b + t.c))

/-- `_compute_inertia_tensor(centered=True)` (as repaired: signed determinants, global sign) -/
def inertiaCentred (S : List (Tri α)) (c : V3 α) : M3 α :=
  let Sc := S.map (Tri.map (· - c))
  let vols := Sc.map fun t => V3.det3 t.a t.b t.c / lit 6
  let total := Scalar.sum vols
  let sgn : α := if lit 0 < total then lit 1 else if total < lit 0 then -(lit 1) else lit 0
  let integ (f : V3 α → α) : α :=
    Scalar.sum (List.zipWith (fun v t => kallay (v * sgn) t f) vols Sc)
  let ixx := integ fun t => t.y * t.y + t.z * t.z
  let ixy := integ fun t => -(t.x) * t.y
  let ixz := integ fun t => -(t.x) * t.z
  let iyy := integ fun t => t.x * t.x + t.z * t.z
  let iyz := integ fun t => -(t.y) * t.z
  let izz := integ fun t => t.x * t.x + t.y * t.y
  ⟨ixx, ixy, ixz, ixy, iyy, iyz, ixz, iyz, izz⟩

/-- `inertia_tensor` -/
def inertia (S : List (Tri α)) (c : V3 α) (vol : α) : M3 α :=
  CP.translateInertia c (inertiaCentred S c) vol

end Poly3
