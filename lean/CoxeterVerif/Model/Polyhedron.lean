import CoxeterVerif.Vec
import CoxeterVerif.Model.ConvexPolyhedron
import CoxeterVerif.Model.Polygon
import CoxeterVerif.Spec.Planar3
/-!
  Model of the measure code of `coxeter/shapes/polyhedron.py` (general, possibly non-convex
  polyhedra) and of the vendored ear-clipping `coxeter/extern/polytri/polytri.py`.
-/

namespace Polytri
variable {α : Type} [Scalar α]
open Scalar

/-- `calculate_normal_3d`: Newell normal; (`near_zero` → ValueError) -/
def newell (poly : List (V3 α)) : V3 α :=
  match poly with
  | [] => V3.zero
  | first :: _ =>
    let rec go (l : List (V3 α)) (acc : V3 α) : V3 α :=
      match l with
      | [] => acc
      | [last] =>
          let minus := first - last; let plus := first + last
          ⟨acc.x + minus.y * plus.z, acc.y + minus.z * plus.x, acc.z + minus.x * plus.y⟩
      | p1 :: p2 :: rest =>
          let minus := p2 - p1; let plus := p2 + p1
          go (p2 :: rest) ⟨acc.x + minus.y * plus.z, acc.y + minus.z * plus.x, acc.z + minus.x * plus.y⟩
    go poly V3.zero

/-- sum of squared edge lengths of the closed polygon -/
def edgeSq (poly : List (V3 α)) : α :=
  match poly with
  | [] => lit 0
  | first :: _ =>
    let rec go (l : List (V3 α)) (acc : α) : α :=
      match l with
      | [] => acc
      | [last] => acc + V3.dot (first - last) (first - last)
      | p1 :: p2 :: rest => go (p2 :: rest) (acc + V3.dot (p2 - p1) (p2 - p1))
    go poly (lit 0)

/-- degeneracy test of `calculate_normal_3d` (as repaired: relative to the polygon's size) -/
def degenerate (poly : List (V3 α)) (normal : V3 α) : Bool :=
  let size := edgeSq poly
  decide (V3.dot normal normal ≤ (lit 1 / lit 10000000000000000) * size * size)

def veq (a b : V3 α) : Bool := Scalar.eqb a.x b.x && Scalar.eqb a.y b.y && Scalar.eqb a.z b.z

/-- `any_point_in_triangle` (closed barycentric test with the 1e-9 tolerance of the repaired code,
    via the inverse of `[s t s×t]`, by Cramer) -/
def anyPointInTriangle (a b c : V3 α) (pts : List (V3 α)) : Bool :=
  let s := b - a
  let t := c - a
  let n := V3.cross s t
  let det := V3.det3 s t n
  pts.any fun p =>
    let d := p - a
    let ps := V3.det3 d t n / det
    let pt := V3.det3 s d n / det
    let tol : α := lit 1 / lit 1000000000
    decide (-tol ≤ ps) && decide (-tol ≤ pt) && decide (ps + pt ≤ lit 1 + tol)

/-- element `i mod len` -/
def getLoop (poly : Array (V3 α)) (i : Nat) : V3 α := poly.getD (i % poly.size) V3.zero

/-- `looped_slice_inv(polygon, i, 3)`: the vertices not in the slice -/
def others (poly : Array (V3 α)) (i : Nat) : List (V3 α) :=
  let n := poly.size
  if i + 3 > n then (poly.toList.drop (i + 3 - n)).take (i - (i + 3 - n))
  else poly.toList.take i ++ poly.toList.drop (i + 3)

/-- `triangulate` main loop with fuel. Returns the emitted triangles or an error kind. -/
def loop (normal : V3 α) : Nat → Array (V3 α) → Nat → List (Tri α) → Except String (List (Tri α))
  | 0, _, _, _ => .error "fuel"
  | fuel + 1, poly, i, acc =>
    if poly.size ≤ 2 then .ok acc.reverse
    else if i ≥ poly.size then
      -- no ear left: fine if the remainder has no area
      let rest := (List.range poly.size).foldl
        (fun s k => s + V3.cross (getLoop poly k) (getLoop poly (k + 1))) V3.zero
      if V3.dot rest rest ≤ (lit 1 / lit 1000000000000) * V3.dot normal normal then .ok acc.reverse
      else .error "ValueError"
    else
      let a := getLoop poly i
      let b := getLoop poly (i + 1)
      let c := getLoop poly (i + 2)
      if veq a b || veq b c then
        loop normal fuel (poly.eraseIdxIfInBounds ((i + 1) % poly.size)) i acc
      else
        let x := V3.cross (c - b) (b - a)
        let dot := V3.dot normal x
        if (lit 1 / lit 1000000) * V3.dot normal normal < dot then
          if !(anyPointInTriangle a b c (others poly i)) then
            loop normal fuel (poly.eraseIdxIfInBounds ((i + 1) % poly.size)) 0 (⟨a, b, c⟩ :: acc)
          else loop normal fuel poly (i + 1) acc
        else loop normal fuel poly (i + 1) acc

/-- `polytri.triangulate(polygon)` for 3-D vertices -/
def triangulate (poly : List (V3 α)) : Except String (List (Tri α)) :=
  let normal := newell poly
  if degenerate poly normal then .error "ValueError"
  else
    let n := poly.length
    loop normal (n * n + 2 * n + 8) poly.toArray 0 []

end Polytri

namespace Poly3
variable {α : Type} [Scalar α]
open Scalar

/-- `_find_equations` for one face given its first three vertices:
    normal = cross(v2−v1, v0−v1)/|…|,  d = −n·v0 -/
def faceEquation (v0 v1 v2 : V3 α) : V3 α × α :=
  let n := V3.cross (v2 - v1) (v0 - v1)
  let nu := V3.sdiv n (V3.norm n)
  (nu, -(V3.dot nu v0))

/-- `volume` : `np.sum(-d * face_area) / 3` -/
def volume (faces : List (α × α)) : α :=
  Scalar.sum (faces.map fun da => (-da.1) * da.2) / lit 3

/-- per-triangle terms of the Eberly centroid loop: (normal[0]*f1[0], normal * f2) -/
def eberlyTerm (t : Tri α) : α × V3 α :=
  let v01 := t.b - t.a
  let v02 := t.c - t.a
  let normal := V3.cross v01 v02
  let t0 := t.a + t.b
  let f1 := t0 + t.c
  let t1 := V3.had t.a t.a
  let t2 := t1 + V3.had t.b t0
  let f2 := t2 + V3.had t.c f1
  (normal.x * f1.x, V3.had normal f2)

/-- `Polyhedron.centroid` over the surface triangulation -/
def centroid (S : List (Tri α)) : V3 α :=
  let vol := Scalar.sum (S.map fun t => (eberlyTerm t).1)
  let cen := V3.sum (S.map fun t => (eberlyTerm t).2)
  V3.sdiv (V3.sdiv cen vol) (lit 4)

/-- `triangle_integrate(f)` term for one (centred) simplex with signed volume factor `vol` -/
def kallay (vol : α) (t : Tri α) (f : V3 α → α) : α :=
  (vol / lit 20) * (f t.a + f t.b + f t.c + f (t.a + t.b + t.c))

/-- `_compute_inertia_tensor(centered=True)` (as repaired: signed determinants, global sign) -/
def inertiaCentred (S : List (Tri α)) (c : V3 α) : M3 α :=
  let Sc := S.map (Tri.map (· - c))
  let vols := Sc.map fun t => V3.det3 t.a t.b t.c / lit 6
  let total := Scalar.sum vols
  let sgn : α := if lit 0 < total then lit 1 else if total < lit 0 then -(lit 1) else lit 0
  let integ (f : V3 α → α) : α :=
    Scalar.sum (List.zipWith (fun v t => kallay (v * sgn) t f) vols Sc)
  let ixx := integ fun t => t.y * t.y + t.z * t.z
  let ixy := integ fun t => -(t.x) * t.y
  let ixz := integ fun t => -(t.x) * t.z
  let iyy := integ fun t => t.x * t.x + t.z * t.z
  let iyz := integ fun t => -(t.y) * t.z
  let izz := integ fun t => t.x * t.x + t.y * t.y
  ⟨ixx, ixy, ixz, ixy, iyy, iyz, ixz, iyz, izz⟩

/-- `inertia_tensor` -/
def inertia (S : List (Tri α)) (c : V3 α) (vol : α) : M3 α :=
  CP.translateInertia c (inertiaCentred S c) vol

/-! ### the object level: faces as vertex lists, `get_face_area`, `_surface_triangulation`, the five
    observables with their error paths -/

/-- `cross(v[f[2]] − v[f[1]], v[f[0]] − v[f[1]])`: the (unnormalised) normal `_find_equations` and
    `Polygon.__init__` take from the FIRST corner of the face -/
def cornerCross (vs : List (V3 α)) : V3 α :=
  V3.cross (vs.getD 2 V3.zero - vs.getD 1 V3.zero) (vs.getD 0 V3.zero - vs.getD 1 V3.zero)

/-- `_find_equations` for a face given by its vertices in order -/
def faceEq (vs : List (V3 α)) : V3 α × α :=
  faceEquation (vs.getD 0 V3.zero) (vs.getD 1 V3.zero) (vs.getD 2 V3.zero)

/-- `extent = np.max(np.linalg.norm(vertices - vertices[0], axis=1))` -/
def extent (vs : List (V3 α)) : α :=
  let v0 := vs.getD 0 V3.zero
  vs.foldl (fun m v => Scalar.max m (V3.norm (v - v0))) (lit 0)

/-- the coplanarity test of `Polygon.__init__` (as repaired by 744f807: relative to the polygon's size,
    independent of placement and scale): `np.all(|(v − v₀)·n| <= planar_tolerance * extent)` -/
def coplanar (n : V3 α) (vs : List (V3 α)) (ptol : α) : Bool :=
  let v0 := vs.getD 0 V3.zero
  let e := extent vs
  vs.all fun v => decide (Scalar.abs (V3.dot (v - v0) n) ≤ ptol * e)

/-- `len(np.unique(vertices, axis=0)) != len(vertices)` -/
def hasDup : List (V3 α) → Bool
  | [] => false
  | v :: l => l.any (Polytri.veq v) || hasDup l

/-- `get_face_area` for one face: `ConvexPolygon(self.vertices[face], planar_tolerance=1e-4).area`.
    External: `hullCount` = `len(ConvexHull(aligned[:, :2]).vertices)` (Qhull, inside `_is_convex`),
    `reordered` = the vertex order `_reorder_verts` leaves (angle sort about the vertex mean).
    Every rejection is a `ValueError`: fewer than 3 vertices, duplicate vertices, degenerate first corner
    (nan normal fails the coplanarity test), a vertex off the plane through the first vertex by more than
    `1e-4 · extent` (`|(v − v₀)·n| <= planar_tolerance * max‖v − v₀‖`), not all vertices on the hull (non-convex face,
    or a vertex inside an edge). -/
def faceArea (vs : List (V3 α)) (hullCount : Nat) (reordered : List (V3 α)) : Except String α :=
  if vs.length < 3 then .error "ValueError"
  else if hasDup vs then .error "ValueError"
  else
    let c := cornerCross vs
    let nrm := V3.norm c
    if Scalar.eqb nrm (lit 0) then .error "ValueError"
    else
      let n := V3.sdiv c nrm
      if !(coplanar n vs (q 1 10000)) then .error "ValueError"
      else if hullCount != vs.length then .error "ValueError"
      else .ok (Poly2.area reordered n)

/-- all face areas (the loop of `get_face_area`: the first failing face raises) -/
def faceAreas : List (List (V3 α) × Nat × List (V3 α)) → Except String (List α)
  | [] => .ok []
  | (vs, h, r) :: fs =>
    match faceArea vs h r with
    | .error e => .error e
    | .ok a => match faceAreas fs with
      | .error e => .error e
      | .ok as => .ok (a :: as)

/-- `_surface_triangulation`: `polytri.triangulate(self.vertices[face])` face after face (the first
    face that cannot be clipped raises) -/
def surfaceTriangulation : List (List (V3 α)) → Except String (List (Tri α))
  | [] => .ok []
  | f :: fs =>
    match Polytri.triangulate f with
    | .error e => .error e
    | .ok t => match surfaceTriangulation fs with
      | .error e => .error e
      | .ok r => .ok (t ++ r)

/-- `volume` from the faces: `ds = -equations[:, 3]`, `np.sum(ds * get_face_area()) / 3` -/
def volumeOf (faces : List (List (V3 α))) (areas : List α) : α :=
  volume (List.zipWith (fun vs a => ((faceEq vs).2, a)) faces areas)

/-- `surface_area` -/
def surfaceArea (areas : List α) : α := Scalar.sum areas

/-- the observables of the property for a polyhedron given by its faces (vertex lists in order) and the
    external data of `get_face_area`: `(volume, surface_area, face areas)`, `centroid`, `inertia_tensor` -/
structure Observed (α : Type) where
  areas : Except String (α × α × List α)
  centroid : Except String (V3 α)
  inertia : Except String (M3 α)

def observe (faces : List (List (V3 α) × Nat × List (V3 α))) : Observed α :=
  let fv := faces.map (·.1)
  let ar : Except String (α × α × List α) :=
    match faceAreas faces with
    | .error e => .error e
    | .ok as => .ok (volumeOf fv as, surfaceArea as, as)
  let S := surfaceTriangulation fv
  let cen : Except String (V3 α) := match S with | .error e => .error e | .ok s => .ok (centroid s)
  -- inertia_tensor: _compute_inertia_tensor() (triangulation, self.center), then self.volume
  let ine : Except String (M3 α) :=
    match S with
    | .error e => .error e
    | .ok s =>
      match ar with
      | .error e => .error e
      | .ok (vol, _, _) => .ok (inertia s (centroid s) vol)
  ⟨ar, cen, ine⟩

/-! ### certificate checkers for the hypotheses of `poly_volume_exact_faces` (exact at `Rat`) -/

/-- the face lies exactly in the plane of its first corner: `cc · v = cc · v₀` for every vertex -/
def planarCheck (vs : List (V3 α)) : Bool :=
  let cc := cornerCross vs
  let d0 := V3.dot cc (vs.getD 0 V3.zero)
  vs.all fun v => Scalar.eqb (V3.dot cc v) d0

/-- the first corner is not reflex: it turns the way the polygon does (`cc · areaVector > 0`) -/
def ccwCheck (vs : List (V3 α)) : Bool :=
  decide (lit 0 < V3.dot (cornerCross vs) (Spec3.areaVector vs))

/-- the ear clipping succeeds with `n − 2` triangles -/
def clipCheck (vs : List (V3 α)) : Bool :=
  match Polytri.triangulate vs with
  | .ok T => decide (vs.length ≤ T.length + 2)
  | .error _ => false

def faceCheck (vs : List (V3 α)) : Bool := planarCheck vs && ccwCheck vs && clipCheck vs

end Poly3
