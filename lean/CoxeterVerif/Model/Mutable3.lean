import CoxeterVerif.Model.Mutable2
import CoxeterVerif.Spec.Planar3
/-!
  State machines for the mutators that change the COMBINATORICS of a polyhedron, and for the
  lazily / redundantly cached attributes (C03), on top of `Model/Mutable.lean`, `Model/Mutable2.lean`
  (whose definitions are untouched):

  * `faceEdges`, `findNeighbors` (`_face_to_edges`, `_get_face_intersections`, `_find_neighbors`),
    `edgesOf` (the `functools.cached_property` `Polyhedron.edges`);
  * `orientFaces` — the breadth-first re-orientation loop of `Polyhedron.sort_faces`;
  * `PHFull` — a `Polyhedron` with everything its mutators keep: the `PHState` core (vertices,
    faces, plane equations), `_faces_are_convex`, `_neighbors`, and the `edges` entry of the
    instance `__dict__` (`edgesCache`); `sortFaces`, `mergeFaces` (with the merge graph,
    its connected components and the merged vertex sets), `readEdges`, and the constructor `fresh`;
  * `CPFull` — a `ConvexPolyhedron` with `_faces`, `_coplanar_simplices`, `_neighbors`, the
    `edges` cache and the write-through attributes `_simplex_areas`, `_face_centroids`;
    `getFaceArea`, `readFaceCentroids`, `sortFaces` (the convex override), `mergeFaces` (inherited).

  External inputs: the cyclic order `ConvexPolygon(self.vertices[face])` / the `kabsch` + `arctan2`
  sort gives to the vertices of each face (`faces1`: the face list right after the per-face
  ordering loop; contract `mergeContract` / `permContract`: same vertex sets).
-/
namespace Mut
variable {α : Type} [Scalar α]
open Scalar

abbrev Edge2 := Nat × Nat

/-! ### faces as index cycles -/

/-- `_face_to_edges(face)`: `zip(face, np.roll(face, -1))` -/
def faceEdges (f : List Nat) : List Edge2 := f.zip (Poly2.rotl 1 f)

/-- `_face_to_edges(face, True)`: `zip(face, np.roll(face, 1))` -/
def faceEdgesRev (f : List Nat) : List Edge2 := f.zip (Poly2.rotl (f.length - 1) f)

/-- the list `set(...)` is applied to in `_get_face_intersections` -/
def faceEdgesBoth (f : List Nat) : List Edge2 := faceEdges f ++ faceEdgesRev f

/-- `set(l)` as a duplicate-free list -/
def dedupL : List Edge2 → List Edge2
  | [] => []
  | a :: l => if l.contains a then dedupL l else a :: dedupL l

/-- `face_edges[i].intersection(face_edges[j])` -/
def commonEdges (fi fj : List Nat) : List Edge2 :=
  (dedupL (faceEdgesBoth fi)).filter fun e => (faceEdgesBoth fj).contains e

/-- `len(common_edges)` of the pair of faces `min i j < max i j` -/
def pairCommon (faces : List (List Nat)) (i j : Nat) : Nat :=
  (commonEdges (faces.getD (min i j) []) (faces.getD (max i j) [])).length

/-- `_find_neighbors`: face `j` is a neighbour of `i` iff they have a common edge; the generator
    asserts that there are exactly two common directed edges (`AssertionError` otherwise).  The
    neighbour lists come out in increasing order. -/
def findNeighbors (faces : List (List Nat)) : Except String (List (List Nat)) :=
  let idx := List.range faces.length
  if idx.all (fun i => idx.all fun j =>
      decide (j ≤ i) || pairCommon faces i j == 0 || pairCommon faces i j == 2) then
    .ok (idx.map fun i => idx.filter fun j => j != i && decide (0 < pairCommon faces i j))
  else .error "AssertionError"

/-- lexicographic order of `np.lexsort(ij_pairs.T[::-1])` -/
def edgeLe (a b : Edge2) : Bool := decide (a.1 < b.1) || (a.1 == b.1 && decide (a.2 ≤ b.2))

def insertEdge (e : Edge2) : List Edge2 → List Edge2
  | [] => [e]
  | x :: l => if edgeLe x e then x :: insertEdge e l else e :: x :: l

def sortEdges (l : List Edge2) : List Edge2 := l.foldl (fun acc e => insertEdge e acc) []

/-- the `edges` property computed from the faces: `[i, j]` for consecutive `i, j` of every face
    with `i < j`, lexsorted -/
def edgesOf (faces : List (List Nat)) : List Edge2 :=
  sortEdges ((faces.flatMap faceEdges).filter fun e => decide (e.1 < e.2))

/-! ### the breadth-first re-orientation of `Polyhedron.sort_faces` -/

/-- inner loop `for edge in _face_to_edges(self.faces[neighbor])`: flip the neighbour iff the first
    edge it shares with the current face runs in the same direction -/
def needsFlip (curEdges : List Edge2) : List Edge2 → Bool
  | [] => false
  | e :: rest =>
    if curEdges.contains e then true
    else if curEdges.contains (e.2, e.1) then false
    else needsFlip curEdges rest

structure BfsSt where
  faces : List (List Nat)
  visited : List Nat
  remaining : List Nat

/-- `for neighbor in self._neighbors[current_face]` -/
def bfsVisit (cur : Nat) (st : BfsSt) (nbs : List Nat) : BfsSt :=
  let curEdges := faceEdges (st.faces.getD cur [])
  nbs.foldl (fun st nb =>
    if st.visited.contains nb then st
    else
      let fnb := st.faces.getD nb []
      let faces' := if needsFlip curEdges (faceEdges fnb) then st.faces.set nb fnb.reverse else st.faces
      ⟨faces', st.visited ++ [nb], st.remaining ++ [nb]⟩) st

/-- `while len(remaining_faces)` (every face is pushed at most once: `fuel = #faces + 1` suffices) -/
def bfs : Nat → List (List Nat) → BfsSt → BfsSt
  | 0, _, st => st
  | fuel + 1, nbrs, st =>
    match st.remaining.getLast? with
    | none => st
    | some cur =>
      let st1 : BfsSt := ⟨st.faces, st.visited ++ [cur], st.remaining.dropLast⟩
      bfs fuel nbrs (bfsVisit cur st1 (nbrs.getD cur []))

def orientFaces (faces nbrs : List (List Nat)) : List (List Nat) :=
  (bfs (faces.length + 1) nbrs ⟨faces, [], [0]⟩).faces

/-! ### the merge graph of `merge_faces` and its connected components -/

/-- one component of `np.allclose(a, b, atol, rtol)`: `|a - b| <= atol + rtol * |b|` -/
def closeTo (atol rtol a b : α) : Bool := decide (Scalar.abs (a - b) ≤ atol + rtol * Scalar.abs b)

/-- `np.allclose(eq1, eq2, atol=atol, rtol=rtol)` on two plane equations -/
def allclose4 (atol rtol : α) (n1 : V3 α) (d1 : α) (n2 : V3 α) (d2 : α) : Bool :=
  closeTo atol rtol n1.x n2.x && closeTo atol rtol n1.y n2.y && closeTo atol rtol n1.z n2.z
    && closeTo atol rtol d1 d2

/-- `merge_graph[i, j] = 1`: equal or opposite plane equations (default tolerances 1e-8, 1e-5) -/
def mergeable (eqN : List (V3 α)) (eqD : List α) (i j : Nat) : Bool :=
  let atol : α := q 1 100000000
  let rtol : α := q 1 100000
  let n1 := eqN.getD i V3.zero; let d1 := eqD.getD i (lit 0)
  let n2 := eqN.getD j V3.zero; let d2 := eqD.getD j (lit 0)
  allclose4 atol rtol n1 d1 n2 d2 || allclose4 atol rtol n1 d1 ⟨-n2.x, -n2.y, -n2.z⟩ (-d2)

/-- the edges of the merge graph: `for i: for j in self._neighbors[i]: if mergeable` -/
def mergeGraph (eqN : List (V3 α)) (eqD : List α) (nbrs : List (List Nat)) : List Edge2 :=
  (List.range nbrs.length).flatMap fun i =>
    ((nbrs.getD i []).filter fun j => mergeable eqN eqD i j).map fun j => (i, j)

/-- one relaxation sweep: both end points of every edge take the smaller representative -/
def relaxOnce (edges : List Edge2) (rep : List Nat) : List Nat :=
  edges.foldl (fun rep e =>
    let m := min (rep.getD e.1 e.1) (rep.getD e.2 e.2)
    (rep.set e.1 m).set e.2 m) rep

def iter {β : Type} (f : β → β) : Nat → β → β
  | 0, x => x
  | n + 1, x => iter f n (f x)

/-- `scipy.sparse.csgraph.connected_components(graph, directed=False)` labels: components
    numbered by their smallest member (`n` sweeps propagate the smallest index along any path) -/
def componentLabels (n : Nat) (edges : List Edge2) : List Nat :=
  let rep := iter (relaxOnce edges) n (List.range n)
  let roots := (List.range n).filter fun r => rep.getD r r == r
  rep.map fun r => roots.idxOf r

def dedupNat : List Nat → List Nat
  | [] => []
  | a :: l => if l.contains a then dedupNat l else a :: dedupNat l

/-- `new_faces[labels[i]].update(face)`: the vertex set of every component -/
def mergedSets (faces : List (List Nat)) (labels : List Nat) : List (List Nat) :=
  let nlab := (dedupNat labels).length
  (List.range nlab).map fun l =>
    dedupNat (((faces.zip labels).filter fun fl => fl.2 == l).flatMap fun fl => fl.1)

def insertNat (a : Nat) : List Nat → List Nat
  | [] => [a]
  | x :: l => if x ≤ a then x :: insertNat a l else a :: x :: l
def sortNat (l : List Nat) : List Nat := l.foldl (fun acc a => insertNat a acc) []

/-- the per-face ordering (external) only permutes the vertices of each face -/
def permContract (before after : List (List Nat)) : Bool :=
  before.length == after.length &&
    (List.zipWith (fun a b => sortNat a == sortNat b) before after).all id

/-! ### certificate: a closed polyhedron with planar, consistently oriented faces (sqrt-free) -/

/-- `np.cross(v[f2] - v[f1], v[f0] - v[f1])`: the normal `_find_equations` takes, before normalisation -/
def rawNormal (vs : List (V3 α)) (f : List Nat) : V3 α :=
  V3.cross (vget vs (f.getD 2 0) - vget vs (f.getD 1 0)) (vget vs (f.getD 0 0) - vget vs (f.getD 1 0))

/-- area vector `½ Σ v_i × v_{i+1}` of a face cycle -/
def faceAreaVector (vs : List (V3 α)) (f : List Nat) : V3 α := Spec3.areaVector (f.map (vget vs))

/-- decidable check (exact over ℚ) of the hypotheses of `Mut.phGeom_of_raw`: every face has ≥ 3
in-range indices, a non-zero raw normal, all its vertices in the plane through its first vertex
perpendicular to the raw normal, the orientation of its cycle; the area vectors sum to zero; the
divergence-theorem volume `Σ v0·A_f / 3` is positive -/
def closedPolyCheck (vs : List (V3 α)) (faces : List (List Nat)) : Bool :=
  faces.all (fun f =>
    decide (3 ≤ f.length) && f.all (fun i => decide (i < vs.length)) &&
    decide (lit 0 < V3.normSq (rawNormal vs f)) &&
    f.all (fun i => Scalar.eqb (V3.dot (rawNormal vs f) (vget vs i - vget vs (f.getD 0 0))) (lit 0)) &&
    decide (lit 0 < V3.dot (rawNormal vs f) (faceAreaVector vs f))) &&
  (let A := V3.sum (faces.map (faceAreaVector vs))
   Scalar.eqb A.x (lit 0) && Scalar.eqb A.y (lit 0) && Scalar.eqb A.z (lit 0)) &&
  decide (lit 0 < Scalar.sum (faces.map fun f => V3.dot (vget vs (f.getD 0 0)) (faceAreaVector vs f)))

/-! ### Polyhedron with all of its mutable attributes -/

/-- `_vertices`, `_faces`, `_equations` (`core`), `_faces_are_convex`, `_neighbors`, and the
    `edges` entry of the instance `__dict__` (`functools.cached_property`) -/
structure PHFull (α : Type) where
  core : PHState α
  conv : Bool
  neighbors : List (List Nat)
  edgesCache : Option (List Edge2)

namespace PHFull

/-- `self._equations[i] *= -1` -/
def negN (n : V3 α) : V3 α := ⟨n.x * (-(lit 1)), n.y * (-(lit 1)), n.z * (-(lit 1))⟩

/-- `Polyhedron.__init__`: `_find_equations()`, `_find_neighbors()`; nothing cached in `__dict__` -/
def fresh (verts : List (V3 α)) (faces : List (List Nat)) (conv : Bool) : Except String (PHFull α) :=
  let eq := PHState.findEquations verts faces
  match findNeighbors faces with
  | .ok nb => .ok ⟨⟨verts, faces, eq.1, eq.2⟩, conv, nb, none⟩
  | .error e => .error e

/-- the `edges` cached property: computed from the faces on the first access, then served from
    the instance `__dict__` -/
def readEdges (s : PHFull α) : List Edge2 × PHFull α :=
  match s.edgesCache with
  | some e => (e, s)
  | none => let e := edgesOf s.core.faces; (e, { s with edgesCache := some e })

/-- a mutator of the core that touches neither faces, neighbours nor the `edges` cache -/
def liftCore (f : PHState α → PHState α) (s : PHFull α) : PHFull α := { s with core := f s.core }

/-- `sort_faces()` after its first loop.  `faces1` = the faces after the per-face ordering by
    `ConvexPolygon(self.vertices[face])` (external).  Then, in the order of the Python:
    `_find_neighbors()`; the breadth-first re-orientation; `_find_equations()`;
    `if self.volume < 0:` reverse every face and negate every equation;
    `self.__dict__.pop("edges", None)`. -/
def sortFaces (s : PHFull α) (faces1 : List (List Nat)) : Except String (PHFull α) :=
  if !s.conv then .error "ValueError"
  else
    match findNeighbors faces1 with
    | .error e => .error e
    | .ok nb =>
      let faces2 := orientFaces faces1 nb
      let eq := PHState.findEquations s.core.verts faces2
      let c2 : PHState α := ⟨s.core.verts, faces2, eq.1, eq.2⟩
      let c3 : PHState α :=
        if c2.volume < lit 0 then
          ⟨s.core.verts, faces2.map List.reverse, eq.1.map negN, eq.2.map (· * (-(lit 1)))⟩
        else c2
      .ok ⟨c3, s.conv, nb, none⟩

/-- the labels `merge_faces` obtains from `connected_components` -/
def mergeLabels (s : PHFull α) : List Nat :=
  componentLabels s.core.faces.length (mergeGraph s.core.eqN s.core.eqD s.neighbors)

/-- contract of the external per-face ordering inside `merge_faces`: face `l` of `faces1` has the
    vertex set of component `l` -/
def mergeContract (s : PHFull α) (faces1 : List (List Nat)) : Bool :=
  permContract (mergedSets s.core.faces s.mergeLabels) faces1

/-- `merge_faces()`: guard; merge graph, components, `self._faces = merged sets`; `sort_faces()`
    (whose first loop yields `faces1`); when that raises: `self._faces = old_faces`,
    `_find_equations()`, `_find_neighbors()`, re-raise.  Returns the state after and the error. -/
def mergeFaces (s : PHFull α) (faces1 : List (List Nat)) : PHFull α × Option String :=
  if !s.conv then (s, some "ValueError")
  else
    match sortFaces s faces1 with
    | .ok s' => (s', none)
    | .error e =>
      let eq := PHState.findEquations s.core.verts s.core.faces
      let core' : PHState α := { s.core with eqN := eq.1, eqD := eq.2 }
      match findNeighbors s.core.faces with
      | .ok nb => (⟨core', s.conv, nb, s.edgesCache⟩, some e)
      | .error e2 => (⟨core', s.conv, s.neighbors, s.edgesCache⟩, some e2)

end PHFull

/-! ### ConvexPolyhedron with all of its mutable attributes -/

/-- on top of the `CPState` core: `_faces`, `_coplanar_simplices` (simplex indices of every face),
    `_neighbors`, the `edges` cache, and the attributes `get_face_area` / `face_centroids` store
    (`_simplex_areas`, `_face_centroids`; `none` = attribute not set yet) -/
structure CPFull (α : Type) where
  core : CPState α
  faces : List (List Nat)
  coplanar : List (List Nat)
  neighbors : List (List Nat)
  edgesCache : Option (List Edge2)
  simplexAreas : Option (List α)
  faceCentroids : Option (List (V3 α))

namespace CPFull

/-- `_find_triangle_array_area(self._vertices[self._simplices], sum_result=False)` -/
def computeSimplexAreas (s : CPFull α) : List α := s.core.tris.map CP.triArea

/-- `[np.sum(self._simplex_areas[self._coplanar_simplices[fac]]) for fac in range(num_faces)]` -/
def faceAreasFrom (areas : List α) (coplanar : List (List Nat)) (nfaces : Nat) : List α :=
  (List.range nfaces).map fun fac =>
    Scalar.sum ((coplanar.getD fac []).map fun i => areas.getD i (lit 0))

/-- `get_face_area()` (face=None): the per-simplex areas are RECOMPUTED and stored on every call,
    then summed per face -/
def getFaceArea (s : CPFull α) : List α × CPFull α :=
  let areas := s.computeSimplexAreas
  (faceAreasFrom areas s.coplanar s.faces.length, { s with simplexAreas := some areas })

/-- `get_face_area("total")` -/
def getFaceAreaTotal (s : CPFull α) : α × CPFull α :=
  let areas := s.computeSimplexAreas
  (Scalar.sum areas, { s with simplexAreas := some areas })

/-- `np.mean(self._vertices[self._simplices], axis=1)` -/
def simplexCentroid (t : Tri α) : V3 α := V3.sdiv (t.a + t.b + t.c) (lit 3)

/-- `face_centroids` → `_find_face_centroids()`: recomputes and stores `_simplex_areas` and
    `_face_centroids` on every access -/
def readFaceCentroids (s : CPFull α) : List (V3 α) × CPFull α :=
  let areas := s.computeSimplexAreas
  let cents := s.core.tris.map simplexCentroid
  let fc := s.coplanar.map fun face =>
    let num := V3.sum (face.map fun i => V3.smul (areas.getD i (lit 0)) (cents.getD i V3.zero))
    V3.sdiv num (Scalar.sum (face.map fun i => areas.getD i (lit 0)))
  (fc, { s with simplexAreas := some areas, faceCentroids := some fc })

/-- the `edges` cached property (inherited) -/
def readEdges (s : CPFull α) : List Edge2 × CPFull α :=
  match s.edgesCache with
  | some e => (e, s)
  | none => let e := edgesOf s.faces; (e, { s with edgesCache := some e })

/-- a mutator of the core (`_rescale`, size / centroid setters, `diagonalize_inertia`, `to_hoomd`):
    none of them assigns `_faces`, `_coplanar_simplices`, `_neighbors`, the `edges` cache,
    `_simplex_areas` or `_face_centroids` -/
def liftCore (f : CPState α → CPState α) (s : CPFull α) : CPFull α := { s with core := f s.core }

/-- `ConvexPolyhedron.sort_faces()`: every face re-ordered by angle about its stored normal
    (`kabsch`, `arctan2`, `lexsort`: external, result `faces1`); `self._faces = sorted_faces`;
    `_find_neighbors()`; `self.__dict__.pop("edges", None)`.  `_equations` is NOT recomputed.
    (`core.faceHead` mirrors `face[0:3]` of the current faces.) -/
def sortFaces (s : CPFull α) (faces1 : List (List Nat)) : Except String (CPFull α) :=
  match findNeighbors faces1 with
  | .error e => .error e
  | .ok nb =>
    .ok { s with core := { s.core with faceHead := faceHeads faces1 }, faces := faces1,
                 neighbors := nb, edgesCache := none }

/-- the labels the inherited `merge_faces` obtains from `connected_components` -/
def mergeLabels (s : CPFull α) : List Nat :=
  componentLabels s.faces.length (mergeGraph s.core.eqN s.core.eqD s.neighbors)

def mergeContract (s : CPFull α) (faces1 : List (List Nat)) : Bool :=
  permContract (mergedSets s.faces s.mergeLabels) faces1

/-- `merge_faces()` as inherited from `Polyhedron` (`_faces_are_convex` is always true):
    `self._faces = merged sets`; `self.sort_faces()` — the override above, so that neither
    `_equations` nor `_coplanar_simplices` follow a merge that really merges something;
    on an exception: old faces, `_find_equations()`, `_find_neighbors()`, re-raise. -/
def mergeFaces (s : CPFull α) (faces1 : List (List Nat)) : CPFull α × Option String :=
  match sortFaces s faces1 with
  | .ok s' => (s', none)
  | .error e =>
    let eq := CPState.findEquations s.core.verts s.core.faceHead
    let core' : CPState α := { s.core with eqN := eq.1, eqD := eq.2 }
    match findNeighbors s.faces with
    | .ok nb => ({ s with core := core', neighbors := nb }, some e)
    | .error e2 => ({ s with core := core' }, some e2)

end CPFull
end Mut
