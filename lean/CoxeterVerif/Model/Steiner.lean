import CoxeterVerif.Vec
/-!
  C11 — model of the rounded-shape measures and curvature descriptors:

  * `coxeter/shapes/convex_spheropolygon.py` : `signed_area`, `area`, `perimeter`, radius setter
  * `coxeter/shapes/polygon.py`              : `perimeter`
  * `coxeter/shapes/convex_spheropolyhedron.py` : `volume`, `surface_area`, `mean_curvature`
  * `coxeter/shapes/polyhedron.py`           : `_find_neighbors`, `get_dihedral`
  * `coxeter/shapes/convex_polyhedron.py`    : `mean_curvature`, `tau`, `asphericity`
  * `coxeter/shapes/base_classes.py`         : `Shape2D.iq`, `Shape3D.iq`

  Same formulas, same constants, same branch structure, same statement order.  What the Python
  reads from other parts of the object is an explicit argument: the polyhedron core is the record
  `Core` (vertex array, face normals `_equations[:, :3]`, the list yielded by
  `_get_face_intersections()`, the stored `_volume` and `_area` — the latter two are the
  quantities of C01), the polygon core is its vertex list and `polygon.signed_area` (C04).

  The `for i, j, edge in _get_face_intersections(): phi = get_dihedral(i, j); L = norm(...);
  acc += term(phi, L)` loops are modelled as `edgeTerms` (the list of `(L, phi)` in loop order,
  aborting at the first `raise`) followed by a left fold starting from `0` — the same sequence of
  floating point additions as the Python `+=`.
-/
namespace Steiner
variable {α : Type} [Scalar α]
open Scalar

/-- `np.roll(x, shift=-1, axis=0)` -/
def roll {β : Type} : List β → List β
  | [] => []
  | a :: l => l ++ [a]

/-- `value >= 0` guard of both `radius` setters (`ConvexSpheropolygon`, `ConvexSpheropolyhedron`) -/
def setRadius (value : α) : Except String α :=
  if lit 0 ≤ value then pure value else throw "ValueError"

/-! ### polygon / spheropolygon -/
namespace Polygon

/-- `Polygon.perimeter`: `np.sum(norm(np.roll(vertices, -1) - vertices, axis=-1))` -/
def perimeter (vs : List (V3 α)) : α :=
  Scalar.sum (List.zipWith (fun w v => V3.norm (w - v)) (roll vs) vs)

end Polygon

namespace SpheroPolygon

/-- `np.sum(np.linalg.norm(vertices - np.roll(vertices, -1), axis=1))` (first factor of `edge_area`) -/
def edgeLengthSum (vs : List (V3 α)) : α :=
  Scalar.sum (List.zipWith (fun v w => V3.norm (v - w)) vs (roll vs))

/-- `ConvexSpheropolygon.signed_area`; `polyArea` is `self.polygon.signed_area` -/
def signedArea (vs : List (V3 α)) (polyArea r : α) : α :=
  let edgeArea := edgeLengthSum vs * r
  let capArea := pi * r * r
  let spheroArea := edgeArea + capArea
  if polyArea < lit 0 then polyArea - spheroArea else polyArea + spheroArea

/-- `ConvexSpheropolygon.area = np.abs(self.signed_area)` -/
def area (vs : List (V3 α)) (polyArea r : α) : α := Scalar.abs (signedArea vs polyArea r)

/-- `ConvexSpheropolygon.perimeter = self.polygon.perimeter + 2 * np.pi * self.radius` -/
def perimeter (vs : List (V3 α)) (r : α) : α := Polygon.perimeter vs + lit 2 * pi * r

end SpheroPolygon

namespace Shape2D
/-- `Shape2D.iq = 4 * np.pi * self.area / (self.perimeter**2)` -/
def iq (area perimeter : α) : α := lit 4 * pi * area / sqr perimeter
end Shape2D

namespace Shape3D
/-- `Shape3D.iq = np.pi * 36 * self.volume**2 / (self.surface_area**3)` -/
def iq (volume surfaceArea : α) : α := pi * lit 36 * sqr volume / cube surfaceArea
end Shape3D

/-! ### polyhedron core -/

/-- one item `(i, j, (e0, e1))` yielded by `Polyhedron._get_face_intersections` -/
structure FaceIx where
  i : Nat
  j : Nat
  e0 : Nat
  e1 : Nat

/-- what the curvature code reads from a `ConvexPolyhedron` -/
structure Core (α : Type) where
  /-- `self.vertices` -/
  vertices : List (V3 α)
  /-- `self._equations[:, :3]` (one per face) -/
  normals : List (V3 α)
  /-- `list(self._get_face_intersections())` -/
  fi : List FaceIx
  /-- `self.volume` (`_volume`) -/
  volume : α
  /-- `self.surface_area` (`_area`) -/
  area : α

namespace CP

/-- `_find_neighbors`: start from `[[] for _ in range(num_faces)]`; for every `(i, j, _)` append
    `j` to `neighbors[i]` and `i` to `neighbors[j]`. -/
def findNeighbors (numFaces : Nat) (fi : List FaceIx) : List (List Nat) :=
  fi.foldl
    (fun nb f =>
      let nb1 := nb.modify f.i (· ++ [f.j])
      nb1.modify f.j (· ++ [f.i]))
    (List.replicate numFaces [])

/-- the value returned by `get_dihedral` once the neighbour test passed:
    `np.arccos(np.dot(-n1, n2))` -/
def dihedralAngle (n1 n2 : V3 α) : α :=
  -- as repaired: `np.arccos(np.clip(np.dot(-n1, n2), -1.0, 1.0))`
  Scalar.acos (Scalar.min (Scalar.max (V3.dot (-n1) n2) (-(lit 1))) (lit 1))

/-- `Polyhedron.get_dihedral(a, b)`:
    `if b not in self.neighbors[a]: raise ValueError`; `n1, n2 = self._equations[[a, b], :3]` -/
def getDihedral (normals : List (V3 α)) (neighbors : List (List Nat)) (a b : Nat) :
    Except String α :=
  match neighbors[a]? with
  | none => throw "IndexError"
  | some na =>
    if !(na.contains b) then throw "ValueError"
    else
      match normals[a]?, normals[b]? with
      | some n1, some n2 => pure (dihedralAngle n1 n2)
      | _, _ => throw "IndexError"

/-- `np.linalg.norm(self.vertices[edge[0]] - self.vertices[edge[1]])` -/
def edgeLength (vertices : List (V3 α)) (e0 e1 : Nat) : Except String α :=
  match vertices[e0]?, vertices[e1]? with
  | some p, some q => pure (V3.norm (p - q))
  | _, _ => throw "IndexError"

/-- one pass of the loop header shared by `mean_curvature`, `volume`, `surface_area`:
    `phi = get_dihedral(i, j)` then the edge length; result `(L, phi)` -/
def edgeTerm (c : Core α) (neighbors : List (List Nat)) (f : FaceIx) : Except String (α × α) := do
  let phi ← getDihedral c.normals neighbors f.i f.j
  let len ← edgeLength c.vertices f.e0 f.e1
  pure (len, phi)

/-- the `(L, phi)` of every loop iteration, in loop order; the neighbour lists are the ones
    `_find_neighbors` built from the same generator -/
def edgeTerms (c : Core α) : Except String (List (α × α)) :=
  c.fi.mapM (edgeTerm c (findNeighbors c.normals.length c.fi))

/-- body of `ConvexPolyhedron.mean_curvature` over the loop data:
    `unnorm_r = 0; unnorm_r += edge_length * (np.pi - phi); return unnorm_r / (8 * np.pi)` -/
def meanCurvatureOf (es : List (α × α)) : α :=
  es.foldl (fun acc e => acc + e.1 * (pi - e.2)) (lit 0) / (lit 8 * pi)

/-- `ConvexPolyhedron.mean_curvature` -/
def meanCurvature (c : Core α) : Except String α := do
  let es ← edgeTerms c
  pure (meanCurvatureOf es)

/-- `tau`: `mc = self.mean_curvature; 4 * np.pi * mc * mc / self.surface_area` -/
def tauOf (mc area : α) : α := lit 4 * pi * mc * mc / area

def tau (c : Core α) : Except String α := do
  let mc ← meanCurvature c
  pure (tauOf mc c.area)

/-- `asphericity`: `self.mean_curvature * self.surface_area / (3 * self.volume)` -/
def asphericityOf (mc area volume : α) : α := mc * area / (lit 3 * volume)

def asphericity (c : Core α) : Except String α := do
  let mc ← meanCurvature c
  pure (asphericityOf mc c.area c.volume)

/-- `ConvexPolyhedron.iq` (inherited `Shape3D.iq`) -/
def iq (c : Core α) : α := Shape3D.iq c.volume c.area

end CP

/-! ### spheropolyhedron -/
namespace SpheroPolyhedron

/-- body of `ConvexSpheropolyhedron.volume` over the loop data `es = [(L, phi)]` -/
def volumeOf (vPolyIn areaIn r : α) (es : List (α × α)) : α :=
  let vPoly := vPolyIn
  let vSphere := q 4 3 * pi * cube r
  let vFace := areaIn * r
  let vCyl := es.foldl
    (fun acc e => acc + (pi * sqr r) * ((pi - e.2) / (lit 2 * pi)) * e.1) (lit 0)
  vPoly + vSphere + vFace + vCyl

/-- `ConvexSpheropolyhedron.volume` -/
def volume (c : Core α) (r : α) : Except String α := do
  let es ← CP.edgeTerms c
  pure (volumeOf c.volume c.area r es)

/-- body of `ConvexSpheropolyhedron.surface_area` over the loop data -/
def surfaceAreaOf (areaIn r : α) (es : List (α × α)) : α :=
  let aPoly := areaIn
  let aSphere := lit 4 * pi * sqr r
  let aCyl := es.foldl
    (fun acc e => acc + (lit 2 * pi * r) * ((pi - e.2) / (lit 2 * pi)) * e.1) (lit 0)
  aPoly + aSphere + aCyl

/-- `ConvexSpheropolyhedron.surface_area` -/
def surfaceArea (c : Core α) (r : α) : Except String α := do
  let es ← CP.edgeTerms c
  pure (surfaceAreaOf c.area r es)

/-- body of `ConvexSpheropolyhedron.mean_curvature`:
    `h_sphere = self.radius; h_cyl = self.polyhedron.mean_curvature; return h_cyl + h_sphere` -/
def meanCurvatureOf (r : α) (es : List (α × α)) : α :=
  let hSphere := r
  let hCyl := CP.meanCurvatureOf es
  hCyl + hSphere

/-- `ConvexSpheropolyhedron.mean_curvature` -/
def meanCurvature (c : Core α) (r : α) : Except String α := do
  let es ← CP.edgeTerms c
  pure (meanCurvatureOf r es)

/-- `ConvexSpheropolyhedron.iq` (inherited `Shape3D.iq` of the rounded shape's own volume/area) -/
def iq (c : Core α) (r : α) : Except String α := do
  let v ← volume c r
  let s ← surfaceArea c r
  pure (Shape3D.iq v s)

end SpheroPolyhedron

/-! ### mutators (deepening round): `_rescale`, the radius setter and the size setters as state
transformers, and histories (sequences of mutators) -/

/-- one row of `self._vertices *= scale` -/
def scaleV (k : α) (v : V3 α) : V3 α := ⟨v.x * k, v.y * k, v.z * k⟩

/-- `ConvexPolyhedron._rescale(scale_factor)` on what the curvature code reads:
    `_vertices *= k; _equations[:, 3] *= k` (the normals `[:, :3]` stay);
    `_volume = _volume * k**3; _area = _area * k**2`; `_faces` (hence the face intersections) stay. -/
def Core.rescale (c : Core α) (k : α) : Core α :=
  ⟨c.vertices.map (scaleV k), c.normals, c.fi, c.volume * cube k, c.area * sqr k⟩

namespace SpheroPolyhedron

/-- a `ConvexSpheropolyhedron` object: `_polyhedron` and `_radius` -/
structure State (α : Type) where
  core : Core α
  radius : α

/-- `radius.setter` -/
def State.setRadius (s : State α) (v : α) : Except String (State α) := do
  let r ← Steiner.setRadius v
  pure ⟨s.core, r⟩

/-- `_rescale(scale)`: `self.polyhedron._rescale(scale); self.radius *= scale` (the second statement
    goes through the radius setter; if it raises the core has ALREADY been rescaled in the Python —
    the model returns the error only) -/
def State.rescale (s : State α) (k : α) : Except String (State α) := do
  let r ← Steiner.setRadius (s.radius * k)
  pure ⟨s.core.rescale k, r⟩

/-- `volume.setter`: `if not value > 0: raise ValueError; scale = (value / self.volume) ** (1 / 3)` -/
def State.setVolume (s : State α) (v : α) : Except String (State α) :=
  if lit 0 < v then do
    let cur ← volume s.core s.radius
    s.rescale (Scalar.cbrt (v / cur))
  else throw "ValueError"

/-- `surface_area.setter`: `if value > 0: scale = np.sqrt(value / self.surface_area)` -/
def State.setSurfaceArea (s : State α) (v : α) : Except String (State α) :=
  if lit 0 < v then do
    let cur ← surfaceArea s.core s.radius
    s.rescale (Scalar.sqrt (v / cur))
  else throw "ValueError"

/-- `mean_curvature.setter`: `if value > 0: scale = value / self.mean_curvature` -/
def State.setMeanCurvature (s : State α) (v : α) : Except String (State α) :=
  if lit 0 < v then do
    let cur ← meanCurvature s.core s.radius
    s.rescale (v / cur)
  else throw "ValueError"

/-- one mutator call -/
inductive Op (α : Type) where
  | setRadius (v : α)
  | rescale (k : α)
  | setVolume (v : α)
  | setSurfaceArea (v : α)
  | setMeanCurvature (v : α)

def State.apply (s : State α) : Op α → Except String (State α)
  | .setRadius v => s.setRadius v
  | .rescale k => s.rescale k
  | .setVolume v => s.setVolume v
  | .setSurfaceArea v => s.setSurfaceArea v
  | .setMeanCurvature v => s.setMeanCurvature v

/-- a history: the mutators are applied in order, stopping at the first `raise` -/
def State.run (s : State α) : List (Op α) → Except String (State α)
  | [] => pure s
  | op :: ops => do
    let s1 ← s.apply op
    s1.run ops

end SpheroPolyhedron

namespace SpheroPolygon

/-- a `ConvexSpheropolygon` object: the stored vertices of `_polygon` and `_radius` -/
structure State (α : Type) where
  vertices : List (V3 α)
  radius : α

/-- `radius.setter` -/
def State.setRadius (s : State α) (v : α) : Except String (State α) := do
  let r ← Steiner.setRadius v
  pure ⟨s.vertices, r⟩

/-- `_rescale(scale)`: `self.polygon._vertices *= scale; self.radius *= scale` -/
def State.rescale (s : State α) (k : α) : Except String (State α) := do
  let r ← Steiner.setRadius (s.radius * k)
  pure ⟨s.vertices.map (scaleV k), r⟩

/-- `area.setter`: `if value > 0: scale = np.sqrt(value / self.area); self._rescale(scale)`;
    `polyArea` is `Polygon.signed_area` as a function of the stored vertices -/
def State.setArea (polyArea : List (V3 α) → α) (s : State α) (v : α) : Except String (State α) :=
  if lit 0 < v then s.rescale (Scalar.sqrt (v / area s.vertices (polyArea s.vertices) s.radius))
  else throw "ValueError"

/-- `perimeter.setter`: `if value > 0: scale = value / self.perimeter; self._rescale(scale)` -/
def State.setPerimeter (s : State α) (v : α) : Except String (State α) :=
  if lit 0 < v then s.rescale (v / perimeter s.vertices s.radius)
  else throw "ValueError"

inductive Op (α : Type) where
  | setRadius (v : α)
  | rescale (k : α)
  | setArea (v : α)
  | setPerimeter (v : α)

def State.apply (polyArea : List (V3 α) → α) (s : State α) : Op α → Except String (State α)
  | .setRadius v => s.setRadius v
  | .rescale k => s.rescale k
  | .setArea v => s.setArea polyArea v
  | .setPerimeter v => s.setPerimeter v

def State.run (polyArea : List (V3 α) → α) (s : State α) : List (Op α) → Except String (State α)
  | [] => pure s
  | op :: ops => do
    let s1 ← s.apply polyArea op
    s1.run polyArea ops

/-- the three observables of the object in its current state -/
def State.signedArea (polyArea : List (V3 α) → α) (s : State α) : α :=
  SpheroPolygon.signedArea s.vertices (polyArea s.vertices) s.radius
def State.area (polyArea : List (V3 α) → α) (s : State α) : α :=
  SpheroPolygon.area s.vertices (polyArea s.vertices) s.radius
def State.perimeter (s : State α) : α := SpheroPolygon.perimeter s.vertices s.radius

end SpheroPolygon

end Steiner
