import CoxeterVerif.Model.Mutable
import CoxeterVerif.Model.Polygon
/-!
  State machines for the rest of the mutable code of the vertex-based shapes (C03, C08), on top
  of `Model/Mutable.lean` (whose definitions are untouched):

  * `CPState.rotate` / `CPState.diagonalizeInertia` / `CPState.toHoomd` — `ConvexPolyhedron`;
  * `PHState` — `Polyhedron` (`_rescale`, size setters, `centroid.setter`, `diagonalize_inertia`,
    `to_hoomd`; only the plane equations are cached);
  * `PGState` — `Polygon` / `ConvexPolygon` (no caches; the stored normal is never touched);
  * `SPGState` / `SPHState` — `ConvexSpheropolygon` / `ConvexSpheropolyhedron` (core + radius).

  External inputs (explicit arguments, supplied by the harness from the live object):
  the eigenvector matrix returned by `np.linalg.eigh`, the re-oriented simplices produced by
  `_sort_simplices`, and the value a getter returns when the getter is not a closed form of the
  model (`cur` arguments: radii of the ball properties, the Eberly / shoelace centroids, the
  spheropolyhedron measures).
-/
namespace Mut
variable {α : Type} [Scalar α]
open Scalar

/-! ### matrices as used by `diagonalize_inertia` -/

/-- one row of `np.dot(vertices, Q)`: the row vector `v` times the matrix `Q` -/
def rowMul (v : V3 α) (Q : M3 α) : V3 α :=
  ⟨v.x * Q.xx + v.y * Q.yx + v.z * Q.zx,
   v.x * Q.xy + v.y * Q.yy + v.z * Q.zy,
   v.x * Q.xz + v.y * Q.yz + v.z * Q.zz⟩

/-- `np.linalg.det` of a (3,3) array (rows) -/
def mdet (Q : M3 α) : α := V3.det3 ⟨Q.xx, Q.xy, Q.xz⟩ ⟨Q.yx, Q.yy, Q.yz⟩ ⟨Q.zx, Q.zy, Q.zz⟩

/-- `Q[:, 0] *= -1` -/
def negCol0 (Q : M3 α) : M3 α :=
  { Q with xx := Q.xx * (-(lit 1)), yx := Q.yx * (-(lit 1)), zx := Q.zx * (-(lit 1)) }

/-- the handedness correction: `if np.linalg.det(principal_axes) < 0: principal_axes[:, 0] *= -1` -/
def fixHanded (P : M3 α) : M3 α := if mdet P < lit 0 then negCol0 P else P

/-! ### ConvexPolyhedron: `diagonalize_inertia`, `to_hoomd` -/
namespace CPState

/-- `diagonalize_inertia` after the eigen-decomposition, with the matrix `Q` actually used:
    `self._vertices = np.dot(self._vertices, Q)`; `_sort_simplices()` — its re-orientation of the
    index triples is the external input `simp'` (contract: `Mut.SortContract` in
    `Lemmas/Mutable2.lean`), its tail is modelled: `_calculate_signed_volume()` (stores
    `_volume = |signed|`), `_find_simplex_equations()`, `_centroid_from_triangulated_surface()`;
    then `_find_equations()`.  `_area` is not touched. -/
def rotate (s : CPState α) (Q : M3 α) (simp' : List (Nat × Nat × Nat)) : CPState α :=
  let verts := s.verts.map (rowMul · Q)
  let S := trisOf verts simp'
  let volume := CP.volume S
  let seq := findSimplexEquations S
  let centroid := CP.centroid S volume
  let eq := findEquations verts s.faceHead
  { s with
    verts := verts, simplices := simp'
    volume := volume
    seqN := seq.1, seqD := seq.2
    centroid := centroid
    eqN := eq.1, eqD := eq.2 }

/-- `diagonalize_inertia` with the raw `np.linalg.eigh` eigenvector matrix `P` -/
def diagonalizeInertia (s : CPState α) (P : M3 α) (simp' : List (Nat × Nat × Nat)) : CPState α :=
  s.rotate (fixHanded P) simp'

/-- what `to_hoomd` reads while the shape is centred -/
structure Hoomd (α : Type) where
  vertices : List (V3 α)
  centroid : V3 α
  volume : α

/-- `to_hoomd`: `old = self.centroid; self.centroid = [0,0,0]; read (vertices copied);
    self.centroid = old` -/
def toHoomd (s : CPState α) : Hoomd α × CPState α :=
  let old := s.centroid
  let s1 := s.setCentroid V3.zero
  (⟨s1.verts, s1.centroid, s1.volume⟩, s1.setCentroid old)

end CPState

/-! ### Polyhedron -/

/-- the private attributes of a `Polyhedron` that its mutators touch or read
    (`_neighbors` depends on `_faces` only and no modelled mutator assigns either) -/
structure PHState (α : Type) where
  verts : List (V3 α)
  faces : List (List Nat)
  eqN : List (V3 α)
  eqD : List α

/-- the first three vertex indices of every face: all `_find_equations` looks at -/
def faceHeads (faces : List (List Nat)) : List (Nat × Nat × Nat) :=
  faces.map fun f => (f.getD 0 0, f.getD 1 0, f.getD 2 0)

/-- `ConvexPolygon(self.vertices[face], planar_tolerance=1e-4).area`: the polygon's normal is
    `cross(v2 - v1, v0 - v1)` normalised, its area `|signed_area|`.  (The constructor's sorting of
    the vertices by angle returns the same cycle for a convex face given in cyclic order; its
    validation `raise`s are preconditions, not modelled.) -/
def facePolyArea (vs : List (V3 α)) (f : List Nat) : α :=
  let pts := f.map (vget vs)
  let n := (Poly3.faceEquation (vget vs (f.getD 0 0)) (vget vs (f.getD 1 0)) (vget vs (f.getD 2 0))).1
  Poly2.area pts n

namespace PHState

def faceAreas (s : PHState α) : List α := s.faces.map (facePolyArea s.verts)

/-- `volume` getter: `np.sum(-self._equations[:, 3] * self.get_face_area()) / 3` -/
def volume (s : PHState α) : α := Poly3.volume (s.eqD.zip s.faceAreas)

/-- `surface_area` getter: `np.sum(self.get_face_area())` -/
def surfaceArea (s : PHState α) : α := Scalar.sum s.faceAreas

/-- `_find_equations` (loop form; same formulas as the vectorised `ConvexPolyhedron` one) -/
def findEquations (vs : List (V3 α)) (faces : List (List Nat)) : List (V3 α) × List α :=
  CPState.findEquations vs (faceHeads faces)

/-- `Polyhedron._rescale(scale)` -/
def rescale (s : PHState α) (k : α) : PHState α :=
  { s with verts := s.verts.map (V3.smul k), eqD := s.eqD.map (· * k) }

/-- `volume.setter`: guard, `scale = (value / self.volume) ** (1 / 3)` (cube root of a positive
    ratio; for a non-positive current volume NumPy's power gives nan where `cbrt` does not — the
    theorems assume a positive current volume), `_rescale` -/
def setVolume (s : PHState α) (v : α) : Except String (PHState α) := do
  let k ← setterFactor 3 s.volume v
  pure (s.rescale k)

/-- `surface_area.setter` -/
def setSurfaceArea (s : PHState α) (v : α) : Except String (PHState α) := do
  let k ← setterFactor 2 s.surfaceArea v
  pure (s.rescale k)

/-- `circumsphere_radius`, `insphere_radius` and the generic `Shape3D` `*_radius` setters -/
def setRadius (s : PHState α) (current v : α) : Except String (PHState α) := do
  let k ← setterFactor 1 current v
  pure (s.rescale k)

/-- `centroid.setter`: `self._vertices += value - self.centroid; self._find_equations()`;
    `cur` = what the (Eberly, triangulation based) centroid getter returns now -/
def setCentroid (s : PHState α) (cur c : V3 α) : PHState α :=
  let verts := s.verts.map (· + (c - cur))
  let eq := findEquations verts s.faces
  { s with verts := verts, eqN := eq.1, eqD := eq.2 }

/-- `diagonalize_inertia` with the matrix actually used: rotate, `_find_equations` -/
def rotate (s : PHState α) (Q : M3 α) : PHState α :=
  let verts := s.verts.map (rowMul · Q)
  let eq := findEquations verts s.faces
  { s with verts := verts, eqN := eq.1, eqD := eq.2 }

def diagonalizeInertia (s : PHState α) (P : M3 α) : PHState α := s.rotate (fixHanded P)

/-- `to_hoomd`: `c0` = centroid getter before, `c1` = centroid getter while centred (read by the
    second assignment) -/
def toHoomd (s : PHState α) (c0 c1 : V3 α) : List (V3 α) × PHState α :=
  let s1 := s.setCentroid c0 V3.zero
  (s1.verts, s1.setCentroid c1 c0)

/-- the cached plane equations equal their recomputation from the current vertices -/
def Coherent (s : PHState α) : Prop := (s.eqN, s.eqD) = findEquations s.verts s.faces

end PHState

/-! ### Polygon / ConvexPolygon -/

structure PGState (α : Type) where
  verts : List (V3 α)
  normal : V3 α

namespace PGState

/-- `area` getter -/
def area (s : PGState α) : α := Poly2.area s.verts s.normal
/-- `perimeter` getter -/
def perimeter (s : PGState α) : α := Poly2.perimeter s.verts

/-- `Polygon._rescale(scale)`: `self._vertices *= scale` -/
def rescale (s : PGState α) (k : α) : PGState α := { s with verts := s.verts.map (V3.smul k) }

/-- `area.setter` -/
def setArea (s : PGState α) (v : α) : Except String (PGState α) := do
  let k ← setterFactor 2 s.area v
  pure (s.rescale k)

/-- `perimeter.setter` -/
def setPerimeter (s : PGState α) (v : α) : Except String (PGState α) := do
  let k ← setterFactor 1 s.perimeter v
  pure (s.rescale k)

/-- `circumcircle_radius`, `incircle_radius` and the generic `Shape2D` `*_radius` setters -/
def setRadius (s : PGState α) (current v : α) : Except String (PGState α) := do
  let k ← setterFactor 1 current v
  pure (s.rescale k)

/-- `centroid.setter`: `self._vertices += value - self.centroid` (`cur` = the getter's value) -/
def setCentroid (s : PGState α) (cur c : V3 α) : PGState α :=
  { s with verts := s.verts.map (· + (c - cur)) }

/-- `to_hoomd` (the `inertia_tensor` getter read in between moves the shape and copies the saved
    vertices back: no net effect on the state) -/
def toHoomd (s : PGState α) (c0 c1 : V3 α) : List (V3 α) × PGState α :=
  let s1 := s.setCentroid c0 V3.zero
  (s1.verts, s1.setCentroid c1 c0)

end PGState

/-! ### ConvexSpheropolygon -/

structure SPGState (α : Type) where
  core : PGState α
  radius : α

/-- `np.sum(np.linalg.norm(verts - np.roll(verts, shift=-1, axis=0), axis=1))` -/
def edgeSum (vs : List (V3 α)) : α :=
  Scalar.sum (List.zipWith (fun a b => V3.norm (a - b)) vs (Poly2.rotl 1 vs))

namespace SPGState

/-- `radius.setter`: `if value >= 0: self._radius = value else: raise ValueError` -/
def setRadiusAbs (s : SPGState α) (v : α) : Except String (SPGState α) :=
  if lit 0 ≤ v then .ok { s with radius := v } else .error "ValueError"

/-- `_rescale`: `self.polygon._vertices *= scale; self.radius *= scale` (the second statement goes
    through `radius.setter`) -/
def rescale (s : SPGState α) (k : α) : Except String (SPGState α) :=
  setRadiusAbs { s with core := s.core.rescale k } (s.radius * k)

/-- `signed_area` getter -/
def signedArea (s : SPGState α) : α :=
  let polyArea := Poly2.signedArea s.core.verts s.core.normal
  let edgeArea := edgeSum s.core.verts * s.radius
  let capArea := Scalar.pi * s.radius * s.radius
  let sphero := edgeArea + capArea
  if polyArea < lit 0 then polyArea - sphero else polyArea + sphero

/-- `area` getter -/
def area (s : SPGState α) : α := Scalar.abs s.signedArea

/-- `perimeter` getter: `self.polygon.perimeter + 2 * np.pi * self.radius` -/
def perimeter (s : SPGState α) : α := Poly2.perimeter s.core.verts + lit 2 * Scalar.pi * s.radius

/-- `area.setter` -/
def setArea (s : SPGState α) (v : α) : Except String (SPGState α) := do
  let k ← setterFactor 2 s.area v
  s.rescale k

/-- `perimeter.setter` -/
def setPerimeter (s : SPGState α) (v : α) : Except String (SPGState α) := do
  let k ← setterFactor 1 s.perimeter v
  s.rescale k

/-- `to_hoomd` as it is (known finding of C19: the vertices are never centred):
    `old = self._polygon.centroid; read; self._polygon.centroid = old` — `c0`, `c0'` are the two
    reads of the core's centroid getter. -/
def toHoomd (s : SPGState α) (c0 c0' : V3 α) : List (V3 α) × SPGState α :=
  (s.core.verts, { s with core := s.core.setCentroid c0' c0 })

end SPGState

/-! ### ConvexSpheropolyhedron -/

structure SPHState (α : Type) where
  core : CPState α
  radius : α

namespace SPHState

def setRadiusAbs (s : SPHState α) (v : α) : Except String (SPHState α) :=
  if lit 0 ≤ v then .ok { s with radius := v } else .error "ValueError"

/-- `_rescale`: `self.polyhedron._rescale(scale); self.radius *= scale` -/
def rescale (s : SPHState α) (k : α) : Except String (SPHState α) :=
  setRadiusAbs { s with core := s.core.rescale k } (s.radius * k)

/-- `volume` (degree 3), `surface_area` (2), `mean_curvature` (1) setters: guard, factor from the
    getter's value `cur` (a sum over edges and dihedral angles of the core: external), `_rescale` -/
def setSize (s : SPHState α) (degree : Nat) (cur v : α) : Except String (SPHState α) := do
  let k ← setterFactor degree cur v
  s.rescale k

/-- the Steiner closed forms the getters compute, with the core's mean curvature `h` given:
    `V + S r + 4π h r² + 4/3 π r³`, `S + 8π h r + 4π r²`, `h + r` -/
def steinerVolume (s : SPHState α) (h : α) : α :=
  s.core.volume + s.core.area * s.radius + lit 4 * Scalar.pi * h * (s.radius * s.radius)
    + q 4 3 * Scalar.pi * (s.radius * s.radius * s.radius)
def steinerArea (s : SPHState α) (h : α) : α :=
  s.core.area + lit 8 * Scalar.pi * h * s.radius + lit 4 * Scalar.pi * (s.radius * s.radius)
def steinerCurvature (s : SPHState α) (h : α) : α := h + s.radius

/-- `to_hoomd`: the core is centred through `ConvexPolyhedron.centroid.setter` and moved back -/
def toHoomd (s : SPHState α) : CPState.Hoomd α × SPHState α :=
  let r := s.core.toHoomd
  (r.1, { s with core := r.2 })

end SPHState
end Mut
