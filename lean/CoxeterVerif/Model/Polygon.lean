import CoxeterVerif.Vec
import CoxeterVerif.Model.ConvexPolyhedron
/-!
  Model of the measure code of `coxeter/shapes/polygon.py` (area, perimeter, centroid, planar and
  polar moments, inertia tensor).  `vs` = the stored (N,3) vertices, `n` = stored normal,
  `R` = the matrix returned by `rowan.mapping.kabsch([n,-n],[ẑ,-ẑ])` (external: a parameter).
-/

namespace M3
variable {α : Type} [Scalar α]
open Scalar
/-- `R p` -/
def mulVec (R : M3 α) (p : V3 α) : V3 α :=
  ⟨R.xx * p.x + R.xy * p.y + R.xz * p.z, R.yx * p.x + R.yy * p.y + R.yz * p.z,
   R.zx * p.x + R.zy * p.y + R.zz * p.z⟩
def transpose (R : M3 α) : M3 α := ⟨R.xx, R.yx, R.zx, R.xy, R.yy, R.zy, R.xz, R.yz, R.zz⟩
def mul (A B : M3 α) : M3 α :=
  ⟨A.xx * B.xx + A.xy * B.yx + A.xz * B.zx, A.xx * B.xy + A.xy * B.yy + A.xz * B.zy, A.xx * B.xz + A.xy * B.yz + A.xz * B.zz,
   A.yx * B.xx + A.yy * B.yx + A.yz * B.zx, A.yx * B.xy + A.yy * B.yy + A.yz * B.zy, A.yx * B.xz + A.yy * B.yz + A.yz * B.zz,
   A.zx * B.xx + A.zy * B.yx + A.zz * B.zx, A.zx * B.xy + A.zy * B.yy + A.zz * B.zy, A.zx * B.xz + A.zy * B.yz + A.zz * B.zz⟩
def one : M3 α := ⟨lit 1, lit 0, lit 0, lit 0, lit 1, lit 0, lit 0, lit 0, lit 1⟩
end M3

namespace Poly2
variable {α : Type} [Scalar α]
open Scalar

/-- `np.roll(l, shift=-k, axis=0)` -/
def rotl {β : Type} (k : Nat) (l : List β) : List β :=
  l.drop (k % l.length) ++ l.take (k % l.length)

/-- `np.argmax` of three values: first index of the maximum -/
def argmax3 (a b c : α) : Nat :=
  if a < b then (if b < c then 2 else 1) else (if a < c then 2 else 0)

/-- `Polygon.signed_area` -/
def signedArea (vs : List (V3 α)) (n : V3 α) : α :=
  let ax := Scalar.abs n.x
  let ay := Scalar.abs n.y
  let az := Scalar.abs n.z
  let k := argmax3 ax ay az
  let an := V3.norm ⟨ax, ay, az⟩
  let c1 := (k + 1) % 3
  let c2 := (k + 2) % 3
  let v1 := rotl 1 vs
  let v2 := rotl 2 vs
  let terms := List.zipWith (fun (ab : V3 α × V3 α) c => ab.2.get c1 * (c.get c2 - ab.1.get c2)) (vs.zip v1) v2
  Scalar.sum terms * (an / (lit 2 * n.get k))

/-- `Polygon.area` -/
def area (vs : List (V3 α)) (n : V3 α) : α := Scalar.abs (signedArea vs n)

/-- `Polygon.perimeter` -/
def perimeter (vs : List (V3 α)) : α :=
  Scalar.sum (List.zipWith (fun a b => V3.norm (b - a)) vs (rotl 1 vs))

/-- `_align_points_by_normal`: `np.dot(points, rotation.T)` -/
def align (R : M3 α) (vs : List (V3 α)) : List (V3 α) := vs.map (M3.mulVec R)

/-- shoelace term `x_i y_{i+1} - x_{i+1} y_i` -/
def delta (p q : V3 α) : α := p.x * q.y - q.x * p.y

/-- `Polygon.centroid` (as repaired: divides by the signed area) -/
def centroid (vs : List (V3 α)) (n : V3 α) (R : M3 α) : V3 α :=
  let w := align R vs
  let ws := rotl 1 w
  let cx := Scalar.sum (List.zipWith (fun p q => (p.x + q.x) * delta p q) w ws)
  let cy := Scalar.sum (List.zipWith (fun p q => (p.y + q.y) * delta p q) w ws)
  let sa := signedArea vs n
  let zmean := Scalar.sum (w.map (·.z)) / Scalar.ofNat w.length
  M3.mulVec (M3.transpose R) ⟨cx / (lit 6 * sa), cy / (lit 6 * sa), zmean⟩

/-- sign as `np.sign` -/
def sign (x : α) : α := if lit 0 < x then lit 1 else if x < lit 0 then -(lit 1) else lit 0

/-- `Polygon.planar_moments_inertia` → (i_x, i_y, i_xy) (as repaired: signed product of inertia) -/
def planarMoments (vs : List (V3 α)) (R : M3 α) : α × α × α :=
  let w := align R vs
  let ws := rotl 1 w
  let areas := List.zipWith delta w ws
  let iy := Scalar.abs (Scalar.sum (List.zipWith (fun p q => delta p q * (p.x * p.x + p.x * q.x + q.x * q.x)) w ws) / lit 12)
  let ix := Scalar.abs (Scalar.sum (List.zipWith (fun p q => delta p q * (p.y * p.y + p.y * q.y + q.y * q.y)) w ws) / lit 12)
  let xy := Scalar.sum (List.zipWith (fun p q => delta p q *
      (p.x * q.y + lit 2 * (p.x * p.y + q.x * q.y) + p.y * q.x)) w ws)
  let ixy := sign (Scalar.sum areas) * xy / lit 24
  (ix, iy, ixy)

/-- `Shape2D.polar_moment_inertia` -/
def polarMoment (vs : List (V3 α)) (R : M3 α) : α :=
  let m := planarMoments vs R
  m.1 + m.2.1

/-- `rotate_order2_tensor(rotation, tensor) = rotation @ tensor @ rotation.T` -/
def rotateTensor (R : M3 α) (T : M3 α) : M3 α := M3.mul (M3.mul R T) (M3.transpose R)

/-- `Polygon.inertia_tensor` (as repaired: tensor rotated back with `mat.T`).
    `R` = kabsch matrix for the stored normal, `R2` = kabsch matrix for (0,0,1) (used inside
    `polar_moment_inertia` after the shape has been rotated into the xy-plane). -/
def inertiaTensor (vs : List (V3 α)) (n : V3 α) (R R2 : M3 α) : M3 α :=
  let c := centroid vs n R
  let centred := vs.map (· - c)
  let rotated := align R centred
  let j := polarMoment rotated R2
  let z : α := lit 0
  let I : M3 α := ⟨z, z, z, z, z, z, z, z, j⟩
  CP.translateInertia c (rotateTensor (M3.transpose R) I) (area vs n)

end Poly2
