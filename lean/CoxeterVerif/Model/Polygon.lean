import CoxeterVerif.Vec
import CoxeterVerif.Model.ConvexPolyhedron
/-!
  Model of the measure code of `coxeter/shapes/polygon.py` (area, perimeter, centroid, planar and
  polar moments, inertia tensor).  `vs` = the stored (N,3) vertices, `n` = stored normal,
  `R` = the matrix returned by `rowan.mapping.kabsch([n,-n],[ẑ,-ẑ])` (external: a parameter).
-/

namespace M3
variable {α : Type} [Scalar α]
open Scalar
/-- `R p` -/
def mulVec (R : M3 α) (p : V3 α) : V3 α :=
  ⟨R.xx * p.x + R.xy * p.y + R.xz * p.z, R.yx * p.x + R.yy * p.y + R.yz * p.z,
   R.zx * p.x + R.zy * p.y + R.zz * p.z⟩
def transpose (R : M3 α) : M3 α := ⟨R.xx, R.yx, R.zx, R.xy, R.yy, R.zy, R.xz, R.yz, R.zz⟩
def mul (A B : M3 α) : M3 α :=
  ⟨A.xx * B.xx + A.xy * B.yx + A.xz * B.zx, A.xx * B.xy + A.xy * B.yy + A.xz * B.zy, A.xx * B.xz + A.xy * B.yz + A.xz * B.zz,
   A.yx * B.xx + A.yy * B.yx + A.yz * B.zx, A.yx * B.xy + A.yy * B.yy + A.yz * B.zy, A.yx * B.xz + A.yy * B.yz + A.yz * B.zz,
   A.zx * B.xx + A.zy * B.yx + A.zz * B.zx, A.zx * B.xy + A.zy * B.yy + A.zz * B.zy, A.zx * B.xz + A.zy * B.yz + A.zz * B.zz⟩
def one : M3 α := ⟨lit 1, lit 0, lit 0, lit 0, lit 1, lit 0, lit 0, lit 0, lit 1⟩
end M3

namespace Poly2
variable {α : Type} [Scalar α]
open Scalar

/-- `np.roll(l, shift=-k, axis=0)` -/
def rotl {β : Type} (k : Nat) (l : List β) : List β :=
  l.drop (k % l.length) ++ l.take (k % l.length)

/-- `np.argmax` of three values: first index of the maximum -/
def argmax3 (a b c : α) : Nat :=
  if a < b then (if b < c then 2 else 1) else (if a < c then 2 else 0)

/-- `Polygon.signed_area` -/
def signedArea (vs : List (V3 α)) (n : V3 α) : α :=
  let ax := Scalar.abs n.x
  let ay := Scalar.abs n.y
  let az := Scalar.abs n.z
  let k := argmax3 ax ay az
  let an := V3.norm ⟨ax, ay, az⟩
  let c1 := (k + 1) % 3
  let c2 := (k + 2) % 3
  let v1 := rotl 1 vs
  let v2 := rotl 2 vs
  let terms := List.zipWith (fun (ab : V3 α × V3 α) c => ab.2.get c1 * (c.get c2 - ab.1.get c2)) (vs.zip v1) v2
  Scalar.sum terms * (an / (lit 2 * n.get k))

/-- `Polygon.area` -/
def area (vs : List (V3 α)) (n : V3 α) : α := Scalar.abs (signedArea vs n)

/-- `Polygon.perimeter` -/
def perimeter (vs : List (V3 α)) : α :=
  Scalar.sum (List.zipWith (fun a b => V3.norm (b - a)) vs (rotl 1 vs))

/-- `_align_points_by_normal`: `np.dot(points, rotation.T)` -/
def align (R : M3 α) (vs : List (V3 α)) : List (V3 α) := vs.map (M3.mulVec R)

/-- shoelace term `x_i y_{i+1} - x_{i+1} y_i` -/
def delta (p q : V3 α) : α := p.x * q.y - q.x * p.y

/-- `Polygon.centroid` (as repaired: divides by the signed area) -/
def centroid (vs : List (V3 α)) (n : V3 α) (R : M3 α) : V3 α :=
  let w := align R vs
  let ws := rotl 1 w
  let cx := Scalar.sum (List.zipWith (fun p q => (p.x + q.x) * delta p q) w ws)
  let cy := Scalar.sum (List.zipWith (fun p q => (p.y + q.y) * delta p q) w ws)
  let sa := signedArea vs n
  let zmean := Scalar.sum (w.map (·.z)) / Scalar.ofNat w.length
  M3.mulVec (M3.transpose R) ⟨cx / (lit 6 * sa), cy / (lit 6 * sa), zmean⟩

/-- sign as `np.sign` -/
def sign (x : α) : α := if lit 0 < x then lit 1 else if x < lit 0 then -(lit 1) else lit 0

/-- `Polygon.planar_moments_inertia` → (i_x, i_y, i_xy) (as repaired: signed product of inertia) -/
def planarMoments (vs : List (V3 α)) (R : M3 α) : α × α × α :=
  let w := align R vs
  let ws := rotl 1 w
  let areas := List.zipWith delta w ws
  let iy := Scalar.abs (Scalar.sum (List.zipWith (fun p q => delta p q * (p.x * p.x + p.x * q.x + q.x * q.x)) w ws) / lit 12)
  let ix := Scalar.abs (Scalar.sum (List.zipWith (fun p q => delta p q * (p.y * p.y + p.y * q.y + q.y * q.y)) w ws) / lit 12)
  let xy := Scalar.sum (List.zipWith (fun p q => delta p q *
      (p.x * q.y + lit 2 * (p.x * p.y + q.x * q.y) + p.y * q.x)) w ws)
  let ixy := sign (Scalar.sum areas) * xy / lit 24
  (ix, iy, ixy)

/-- `Shape2D.polar_moment_inertia` -/
def polarMoment (vs : List (V3 α)) (R : M3 α) : α :=
  let m := planarMoments vs R
  m.1 + m.2.1

/-- `rotate_order2_tensor(rotation, tensor) = rotation @ tensor @ rotation.T` -/
def rotateTensor (R : M3 α) (T : M3 α) : M3 α := M3.mul (M3.mul R T) (M3.transpose R)

/-- `Polygon.inertia_tensor` (as repaired: tensor rotated back with `mat.T`).
    `R` = kabsch matrix for the stored normal, `R2` = kabsch matrix for (0,0,1) (used inside
    `polar_moment_inertia` after the shape has been rotated into the xy-plane). -/
def inertiaTensor (vs : List (V3 α)) (n : V3 α) (R R2 : M3 α) : M3 α :=
  let c := centroid vs n R
  let centred := vs.map (· - c)
  let rotated := align R centred
  let j := polarMoment rotated R2
  let z : α := lit 0
  let I : M3 α := ⟨z, z, z, z, z, z, z, z, j⟩
  CP.translateInertia c (rotateTensor (M3.transpose R) I) (area vs n)

end Poly2

/-! ### the object state and `inertia_tensor` as a state-machine step

  `Polygon` keeps exactly two pieces of geometry: `_vertices` and `_normal`.  `Polygon.inertia_tensor`
  does not compute on copies: it moves the LIVE object into a temporary frame (centroid setter, rotation
  by the kabsch matrix, normal := ẑ), reads `polar_moment_inertia` and `area` OF THAT TEMPORARY OBJECT, and
  then writes the saved vertices and normal back.  `inertiaTensorStep` follows the Python statement by
  statement; every other query is a read (`observe`). -/

/-- the geometry fields of a `Polygon` object -/
structure PolyState (α : Type) where
  verts : List (V3 α)
  normal : V3 α

namespace PolyState
variable {α : Type} [Scalar α]
open Scalar

/-- centroid setter (`center` setter is an alias): `self._vertices += np.asarray(value) - self.centroid` -/
def setCentroid (st : PolyState α) (value : V3 α) (R : M3 α) : PolyState α :=
  let shift := value - Poly2.centroid st.verts st.normal R
  { st with verts := st.verts.map (· + shift) }

/-- `Polygon.inertia_tensor`, statement by statement.  `R` = kabsch matrix of the object's normal (the
    same matrix is returned by every call with that normal: inside `centroid` and the explicit call),
    `R2` = kabsch matrix of (0,0,1) (the call inside `planar_moments_inertia` of the temporary object).
    Returns the state the object is left in and the tensor. -/
def inertiaTensorStep (st : PolyState α) (R R2 : M3 α) : PolyState α × M3 α :=
  let originalCenter := Poly2.centroid st.verts st.normal R      -- self.center.copy()
  let originalVertices := st.verts                               -- self._vertices.copy()
  let originalNormal := st.normal                                -- self._normal.copy()
  let st1 := setCentroid st ⟨lit 0, lit 0, lit 0⟩ R              -- self.center = (0, 0, 0)
  let st2 : PolyState α :=                                       -- self._vertices = self._vertices.dot(mat.T)
    ⟨Poly2.align R st1.verts, ⟨lit 0, lit 0, lit 1⟩⟩             -- self._normal = [0, 0, 1]
  let j := Poly2.polarMoment st2.verts R2                        -- self.polar_moment_inertia   (temporary frame)
  let a := Poly2.area st2.verts st2.normal                       -- self.area                   (temporary frame)
  let z : α := lit 0
  let I : M3 α := ⟨z, z, z, z, z, z, z, z, j⟩
  let T := CP.translateInertia originalCenter (Poly2.rotateTensor (M3.transpose R) I) a
  let st3 : PolyState α := ⟨originalVertices, originalNormal⟩    -- live[:] = original; _normal = original
  (st3, T)

/-- the read-only measures of C04 (`observe_at`) -/
inductive Query where
  | signedArea | area | perimeter | centroid | planar | polar | inertia | center
  deriving Repr, DecidableEq

def Query.ofCode : Nat → Query
  | 0 => .signedArea | 1 => .area | 2 => .perimeter | 3 => .centroid
  | 4 => .planar | 5 => .polar | 6 => .inertia | _ => .center

/-- one property read on the object: the state it leaves behind and the value (flattened to scalars) -/
def observe (q : Query) (st : PolyState α) (R R2 : M3 α) : PolyState α × List α :=
  match q with
  | .signedArea => (st, [Poly2.signedArea st.verts st.normal])
  | .area => (st, [Poly2.area st.verts st.normal])
  | .perimeter => (st, [Poly2.perimeter st.verts])
  | .centroid => let c := Poly2.centroid st.verts st.normal R; (st, [c.x, c.y, c.z])
  | .center => let c := Poly2.centroid st.verts st.normal R; (st, [c.x, c.y, c.z])
  | .planar => let m := Poly2.planarMoments st.verts R; (st, [m.1, m.2.1, m.2.2])
  | .polar => (st, [Poly2.polarMoment st.verts R])
  | .inertia =>
      let r := inertiaTensorStep st R R2
      (r.1, [r.2.xx, r.2.xy, r.2.xz, r.2.yx, r.2.yy, r.2.yz, r.2.zx, r.2.zy, r.2.zz])

/-- a history of reads, threaded through the object state -/
def observeAll (qs : List Query) (st : PolyState α) (R R2 : M3 α) : PolyState α × List (List α) :=
  match qs with
  | [] => (st, [])
  | q :: rest =>
      let r := observe q st R R2
      let r' := observeAll rest r.1 R R2
      (r'.1, r.2 :: r'.2)

end PolyState
