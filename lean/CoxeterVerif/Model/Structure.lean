import CoxeterVerif.Vec
import CoxeterVerif.Model.ConvexPolyhedron
import CoxeterVerif.Model.Polyhedron
import CoxeterVerif.Model.Polygon
/-!
  Model of the combinatorial / structural code of `coxeter/shapes/polyhedron.py`,
  `convex_polyhedron.py` and `convex_polygon.py` (C07): faces, plane equations, neighbours, edges,
  simplices. No Mathlib.

  Conventions
  * a face / simplex is the list of its vertex indices (`List Nat`), an edge a pair `Nat × Nat`;
  * the combinatorial functions are scalar free, the geometric ones generic over `[Scalar α]`;
  * results of Qhull (`hull.simplices/equations/neighbors`), `rowan.mapping.kabsch` (rotation
    matrix), the 2-D hull inside `_is_convex` and `scipy.sparse.csgraph.connected_components`
    are explicit arguments; the contracts the theorems need from them are the decidable predicates
    `kabschContract`, `labelsContract` (evaluated by the driver on the recorded values);
  * Python `set`s are modelled as duplicate-free lists in first-occurrence order (the iteration
    order of a Python set of ints/tuples is not specified; wherever the code depends on it only
    up to a canonical form the harness compares in that canonical form).
-/

namespace Struct
abbrev Face := List Nat
abbrev Edge := Nat × Nat

/-! ### generic list helpers (structural, so that `decide` can evaluate them) -/

/-- insert `a` before the first element `b` with `le a b` -/
def insertBy {β : Type} (le : β → β → Bool) (a : β) : List β → List β
  | [] => [a]
  | b :: l => if le a b then a :: b :: l else b :: insertBy le a l

/-- stable sort (what `np.lexsort`, `sorted`, `np.unique` do to the order of equal keys) -/
def sortBy {β : Type} (le : β → β → Bool) : List β → List β
  | [] => []
  | a :: l => insertBy le a (sortBy le l)

/-- duplicates removed, first occurrences kept -/
def dedup {β : Type} [BEq β] : List β → List β
  | [] => []
  | a :: l => a :: (dedup l).filter (fun b => !(b == a))

/-- `np.unique` of index data: sorted, without duplicates -/
def sortedUnique (l : List Nat) : List Nat := dedup (sortBy (fun a b => decide (a ≤ b)) l)

/-! ### `_face_to_edges` -/

/-- `_face_to_edges(face)`: `zip(face, np.roll(face, -1))` = the directed pairs `(f[i], f[i+1])`, cyclic -/
def faceToEdges (f : Face) : List Edge :=
  match f with
  | [] => []
  | a :: t => (a :: t).zip (t ++ [a])

/-- `_face_to_edges(face, reverse=True)`: `zip(face, np.roll(face, 1))` = `(f[i], f[i-1])` -/
def faceToEdgesRev (f : Face) : List Edge :=
  match f.getLast? with
  | none => []
  | some z => f.zip (z :: f.dropLast)

/-- `set(_face_to_edges(f) + _face_to_edges(f, True))` -/
def edgeSet (f : Face) : List Edge := dedup (faceToEdges f ++ faceToEdgesRev f)

/-! ### `_get_face_intersections`, `_find_neighbors` -/

/-- `face_edges[i].intersection(face_edges[j])` -/
def commonEdges (f g : Face) : List Edge := (edgeSet f).filter fun e => (edgeSet g).contains e

/-- the index pairs of the double loop `for i in range(n): for j in range(i+1, n)` -/
def indexPairs (n : Nat) : List (Nat × Nat) :=
  (List.range n).flatMap fun i => ((List.range n).filter fun j => i < j).map fun j => (i, j)

/-- canonical form `(min, max)` of the shared edge (Python: `list(common_edges)[0]`, i.e. an
    unspecified one of the two directions) -/
def canonEdge (e : Edge) : Edge := if e.1 ≤ e.2 then e else (e.2, e.1)

/-- `_get_face_intersections`: the triples `(i, j, shared edge)`, or `AssertionError` when two
    faces have common edges but not exactly one (two directed pairs) -/
def faceIntersections (F : List Face) : Except String (List (Nat × Nat × Edge)) :=
  (indexPairs F.length).foldr (fun p acc =>
      let c := commonEdges (F.getD p.1 []) (F.getD p.2 [])
      match c with
      | [] => acc
      | e :: _ => if c.length = 2 then acc.map ((p.1, p.2, canonEdge e) :: ·) else .error "AssertionError")
    (.ok [])

/-- one step of `_find_neighbors`: `nb[i].append(j); nb[j].append(i)` -/
def addNeighbor (N : List (List Nat)) (i j : Nat) : List (List Nat) :=
  (N.modify i (· ++ [j])).modify j (· ++ [i])

/-- `_find_neighbors` -/
def findNeighbors (F : List Face) : Except String (List (List Nat)) :=
  (faceIntersections F).map fun P =>
    P.foldl (fun N p => addNeighbor N p.1 p.2.1) (List.replicate F.length [])

/-! ### `edges`, `num_edges` -/

/-- lexicographic `≤` on pairs: `np.lexsort(ij_pairs.T[::-1])` sorts by column 0, then column 1 -/
def lexLe (a b : Edge) : Bool := decide (a.1 < b.1) || (decide (a.1 = b.1) && decide (a.2 ≤ b.2))

/-- all directed pairs of all faces, in face order -/
def allDirected (F : List Face) : List Edge := F.flatMap faceToEdges

/-- `Polyhedron.edges`: the directed pairs with `i < j`, lexicographically sorted -/
def edges (F : List Face) : List Edge := sortBy lexLe ((allDirected F).filter fun e => decide (e.1 < e.2))

/-- `Polyhedron.num_edges`: `len(self.edges)` -/
def numEdges (F : List Face) : Nat := (edges F).length

/-- `ConvexPolyhedron.num_edges`: `num_vertices + num_faces - 2` -/
def numEdgesConvex (numVertices numFaces : Nat) : Int := (numVertices : Int) + (numFaces : Int) - 2

/-! ### the `edges` cache (`@cached_property`) and its invalidation -/

/-- the part of a `Polyhedron`'s state the edge observables depend on: the current faces and the
    entry `self.__dict__["edges"]` of the `cached_property` (absent = `none`) -/
structure EdgeCache where
  faces : List Face
  cache : Option (List Edge)

/-- what a history does to that state -/
inductive EdgeOp where
  /-- reading `edges` / `num_edges` / `edge_vectors` / `edge_lengths`: all go through `self.edges` -/
  | read
  /-- `sort_faces()` / `merge_faces()` ending with the given faces: both finish with
      `self.__dict__.pop("edges", None)` (merge_faces through the `sort_faces` it calls) -/
  | setFaces (F : List Face)

/-- `Polyhedron.__init__`: no cache entry yet -/
def EdgeCache.init (F : List Face) : EdgeCache := ⟨F, none⟩

/-- `self.edges`: the cached value when there is one, else computed from the current faces and stored -/
def EdgeCache.readEdges (s : EdgeCache) : List Edge × EdgeCache :=
  match s.cache with
  | some e => (e, s)
  | none => (edges s.faces, { s with cache := some (edges s.faces) })

/-- one step of a history -/
def EdgeCache.step (s : EdgeCache) : EdgeOp → EdgeCache
  | .read => s.readEdges.2
  | .setFaces F => ⟨F, none⟩

/-- a whole history -/
def EdgeCache.run (s : EdgeCache) (ops : List EdgeOp) : EdgeCache := ops.foldl EdgeCache.step s

/-! ### orientation propagation (`_sort_simplices`, `Polyhedron.sort_faces`) -/

/-- inner `for edge in _face_to_edges(faces[neighbor])` loop: flip the neighbour when the first of
    its edges that also occurs (in either direction) in the current face occurs in the SAME
    direction. (`_sort_simplices` keeps a separate edge list for every simplex which it updates to
    `[(j, i) for (i, j) in edges][::-1]` on a flip: the same pairs as `faceToEdges` of the reversed
    simplex, listed from a different start.) -/
def orientAgainst (curEdges : List Edge) (nb : Face) : Face :=
  let rec go : List Edge → Face
    | [] => nb
    | e :: es =>
      if curEdges.contains e then nb.reverse
      else if curEdges.contains (e.2, e.1) then nb
      else go es
  go (faceToEdges nb)

/-- state of the traversal: current faces, `visited_faces`, `remaining_faces` (top of the stack
    = head of the list) -/
structure PState where
  faces : List Face
  visited : List Nat
  stack : List Nat

/-- `for neighbor in neighbors[current]:` — skip visited ones, push, orient against the current
    face, mark visited immediately -/
def visitNeighbors (curEdges : List Edge) (nbs : List Nat) (st : PState) : PState :=
  nbs.foldl (fun st nb =>
      if st.visited.contains nb then st
      else { faces := st.faces.modify nb (orientAgainst curEdges),
             visited := st.visited ++ [nb],
             stack := nb :: st.stack }) st

/-- `while len(remaining): …` with fuel -/
def propagateLoop (nbrs : List (List Nat)) : Nat → PState → PState
  | 0, st => st
  | fuel + 1, st =>
    match st.stack with
    | [] => st
    | cur :: rest =>
      let st1 : PState := { faces := st.faces, visited := st.visited ++ [cur], stack := rest }
      let curEdges := faceToEdges (st1.faces.getD cur [])
      propagateLoop nbrs fuel (visitNeighbors curEdges (nbrs.getD cur []) st1)

/-- enough fuel: every pass of the `while` pops one entry and only unvisited indices are pushed -/
def propagateFuel (nbrs : List (List Nat)) : Nat := (nbrs.map List.length).sum + 2

/-- the traversal started at face 0 (`visited = []`, `remaining = [0]`) -/
def propagate (nbrs : List (List Nat)) (F : List Face) : PState :=
  propagateLoop nbrs (propagateFuel nbrs) { faces := F, visited := [], stack := [0] }

/-- `self._simplices[:, ::-1]` / `self._faces[i][::-1]` for all i -/
def reverseAll (F : List Face) : List Face := F.map List.reverse

/-- every face index is visited by the traversal, i.e. the neighbour graph is connected
    (`StructLemmas.visited_iff_reach`); evaluated by the driver on every instance -/
def visitsAll (nbrs : List (List Nat)) (F : List Face) : Bool :=
  (List.range F.length).all fun k => (propagate nbrs F).visited.contains k

/-- every listed neighbour pair consists of two different faces that share an edge: true by
    construction for `_find_neighbors` (`neighbors_iff_shared_edge`), a checked contract for
    Qhull's `hull.neighbors` -/
def nbrsShareB (nbrs : List (List Nat)) (F : List Face) : Bool :=
  (List.range nbrs.length).all fun u => (nbrs.getD u []).all fun v =>
    u != v && !(commonEdges (F.getD u []) (F.getD v [])).isEmpty

section geometric
variable {α : Type} [Scalar α]
open Scalar

/-- the triangle `vertices[simplex]` (missing indices → origin; never happens for Qhull output) -/
def triOf (verts : List (V3 α)) (s : Face) : Tri α :=
  ⟨verts.getD (s.getD 0 0) V3.zero, verts.getD (s.getD 1 0) V3.zero, verts.getD (s.getD 2 0) V3.zero⟩

/-- `_sort_simplices` after the per-simplex start permutation (`start` = the simplices after
    `np.take_along_axis(simplices, argsort(vert_order))`, a permutation of each hull simplex that
    depends on coordinates only — a parameter): propagation over Qhull's `neighbors`, then the
    global flip when `_calculate_signed_volume() < 0`. -/
def sortSimplices (verts : List (V3 α)) (start : List Face) (hullNeighbors : List (List Nat)) : List Face :=
  let S := (propagate hullNeighbors start).faces
  if CP.signedVolume (S.map (triOf verts)) < lit 0 then reverseAll S else S

/-! ### `_combine_simplices` -/

/-- plane equation row `(a, b, c, d)` -/
abbrev Eqn (α : Type) := V3 α × α

/-- `np.all(np.abs(eq_i - eq_j) < tol)` -/
def eqClose (tol : α) (e f : Eqn α) : Bool :=
  decide (Scalar.abs (e.1.x - f.1.x) < tol) && decide (Scalar.abs (e.1.y - f.1.y) < tol) &&
  decide (Scalar.abs (e.1.z - f.1.z) < tol) && decide (Scalar.abs (e.2 - f.2) < tol)

/-- `coplanar_indices` after `sorted(set(map(tuple, …)), key=lambda x: x[0])` -/
def coplanarGroups (eqs : List (Eqn α)) (tol : α) : List (List Nat) :=
  let rows := eqs.map fun e => (List.range eqs.length).filter fun j =>
    match eqs[j]? with
    | some f => eqClose tol e f
    | none => false
  sortBy (fun a b => decide (a.getD 0 0 ≤ b.getD 0 0)) (dedup rows)

/-- `_combine_simplices(tol)`: (faces = `np.unique(simplices[group])`, equations of the first
    simplex of every group, `_coplanar_simplices`) -/
def combineSimplices (eqs : List (Eqn α)) (simplices : List Face) (tol : α) :
    List Face × List (Eqn α) × List (List Nat) :=
  let groups := coplanarGroups eqs tol
  (groups.map fun g => sortedUnique (g.flatMap fun k => simplices.getD k []),
   groups.map fun g => eqs.getD (g.getD 0 0) (V3.zero, lit 0),
   groups)

/-! ### angular sort (`ConvexPolyhedron.sort_faces`, `ConvexPolygon._reorder_verts`) -/

/-- `np.mod(x, 2π)` (result in `[0, 2π)`) -/
def mod2pi (x : α) : α :=
  let t := lit 2 * Scalar.pi
  x - Scalar.floor (x / t) * t

/-- `np.mean(vertices, axis=0)` -/
def mean (vs : List (V3 α)) : V3 α := V3.sdiv (V3.sum vs) (Scalar.ofNat vs.length)

/-- `vert_order = np.lexsort((distances, angles))` for already centred and rotated points:
    `angles = mod(arctan2(y, x) - angle of point ref, 2π)`, `distances = |p|` -/
def angularOrder (pts : List (V3 α)) (ref : Nat) : List Nat :=
  let ang := pts.map fun p => Scalar.atan2 p.y p.x
  let a0 := ang.getD ref (lit 0)
  let rel := ang.map fun a => mod2pi (a - a0)
  let dist := pts.map V3.norm
  let key := fun i => (rel.getD i (lit 0), dist.getD i (lit 0))
  sortBy (fun i j =>
      let ki := key i; let kj := key j
      decide (ki.1 < kj.1) || (Scalar.eqb ki.1 kj.1 && decide (ki.2 ≤ kj.2)))
    (List.range pts.length)

/-- centre on the vertex mean and rotate with the kabsch matrix: `np.dot(v - mean, R.T)` -/
def alignCentred (R : M3 α) (vs : List (V3 α)) : List (V3 α) :=
  let m := mean vs
  vs.map fun v => M3.mulVec R (v - m)

/-- one face of `ConvexPolyhedron.sort_faces`: `face[vert_order]`; `R` = `kabsch([n,-n],[ẑ,-ẑ])`
    for `n = equations[i][:3]` -/
def cpSortFace (verts : List (V3 α)) (face : Face) (R : M3 α) : Face :=
  let vs := face.map fun i => verts.getD i V3.zero
  (angularOrder (alignCentred R vs) 0).map fun k => face.getD k 0

/-- `ConvexPolyhedron.sort_faces`: every face sorted, then `_find_neighbors` (the `edges` cache
    is dropped — the model has no cache: `edges` is a function of the faces) -/
def cpSortFaces (verts : List (V3 α)) (faces : List Face) (Rs : List (M3 α)) :
    Except String (List Face × List (List Nat)) :=
  let sorted := List.zipWith (cpSortFace verts) faces Rs
  (findNeighbors sorted).map fun N => (sorted, N)

/-- contract of `rowan.mapping.kabsch([n,-n],[ẑ,-ẑ])` needed by the angular sort:
    `RᵀR = 1`, `det R = 1`, `R n = ẑ`, all within `tol` -/
def kabschContract (n : V3 α) (R : M3 α) (tol : α) : Bool :=
  let P := M3.mul (M3.transpose R) R
  let near := fun (a b : α) => decide (Scalar.abs (a - b) ≤ tol)
  let z : α := lit 0
  let o : α := lit 1
  let det := V3.det3 ⟨R.xx, R.xy, R.xz⟩ ⟨R.yx, R.yy, R.yz⟩ ⟨R.zx, R.zy, R.zz⟩
  let w := M3.mulVec R n
  near P.xx o && near P.xy z && near P.xz z && near P.yx z && near P.yy o && near P.yz z &&
  near P.zx z && near P.zy z && near P.zz o && near det o && near w.x z && near w.y z && near w.z o

/-! ### `Polyhedron._find_equations`, `get_dihedral` -/

/-- `_find_equations`: normal `cross(v2 - v1, v0 - v1)` normalised, `d = -n·v0`, from the first
    three vertices of each face -/
def findEquations (verts : List (V3 α)) (F : List Face) : List (Eqn α) :=
  F.map fun f =>
    Poly3.faceEquation (verts.getD (f.getD 0 0) V3.zero) (verts.getD (f.getD 1 0) V3.zero)
      (verts.getD (f.getD 2 0) V3.zero)

/-- `ConvexPolyhedron._find_simplex_equations` for one simplex `a b c`:
    `n = cross(b - a, c - a)`, `n /= |n|`, `d = -n·a` -/
def simplexEquation (t : Tri α) : Eqn α :=
  let n := V3.cross (t.b - t.a) (t.c - t.a)
  let nu := V3.sdiv n (V3.norm n)
  (nu, -(V3.dot nu t.a))

/-- `_find_simplex_equations` -/
def simplexEquations (verts : List (V3 α)) (S : List Face) : List (Eqn α) :=
  S.map fun s => simplexEquation (triOf verts s)

/-- `get_dihedral(a, b)`: `arccos(dot(-n_a, n_b))`, `ValueError` when `b` is not a neighbour of `a` -/
def getDihedral (nbrs : List (List Nat)) (normals : List (V3 α)) (a b : Nat) : Except String α :=
  if (nbrs.getD a []).contains b then
    -- as repaired: `np.arccos(np.clip(np.dot(-n1, n2), -1.0, 1.0))`
    .ok (Scalar.acos (Scalar.min (Scalar.max (V3.dot (-(normals.getD a V3.zero)) (normals.getD b V3.zero)) (-(Scalar.lit 1))) (Scalar.lit 1)))
  else .error "ValueError"

/-- `edge_vectors`: `vertices[edges[:,1]] - vertices[edges[:,0]]` -/
def edgeVectors (verts : List (V3 α)) (F : List Face) : List (V3 α) :=
  (edges F).map fun e => verts.getD e.2 V3.zero - verts.getD e.1 V3.zero

/-- `edge_lengths` -/
def edgeLengths (verts : List (V3 α)) (F : List Face) : List α := (edgeVectors verts F).map V3.norm

/-! ### `Polyhedron.sort_faces` -/

/-- `np.isclose(a, b, rtol)` with the default `atol = 1e-8`: `|a - b| <= atol + rtol*|b|` -/
def isclose (a b rtol atol : α) : Bool := decide (Scalar.abs (a - b) ≤ atol + rtol * Scalar.abs b)

def v3eq (a b : V3 α) : Bool := Scalar.eqb a.x b.x && Scalar.eqb a.y b.y && Scalar.eqb a.z b.z

/-- `np.where(np.all(self.vertices == vertex, axis=1))[0][0]`: first index with these coordinates -/
def findVertex (verts : List (V3 α)) (v : V3 α) : Option Nat :=
  let rec go : List (V3 α) → Nat → Option Nat
    | [], _ => none
    | w :: ws, k => if v3eq w v then some k else go ws (k + 1)
  go verts 0

/-- first loop body of `Polyhedron.sort_faces` for one face:
    `ConvexPolygon(vertices[face], planar_tolerance=1e-4)` (fewer than 3 vertices, duplicate
    vertices, non-coplanar vertices, non-convex vertex set → `ValueError`), then the face is
    overwritten with the indices of the polygon's (angularly sorted) vertices.
    `R` = kabsch matrix for the polygon's computed normal, `convex` = result of `_is_convex`
    (2-D Qhull: all points are hull vertices) — both external. -/
def polyReorderFace (verts : List (V3 α)) (face : Face) (R : M3 α) (convex : Bool) : Except String Face :=
  let vs := face.map fun i => verts.getD i V3.zero
  if vs.length < 3 then .error "ValueError"
  else if (dedup (β := Nat) (vs.map fun v => (findVertex vs v).getD 0)).length ≠ vs.length then .error "ValueError"
  else
    let n := (Poly3.faceEquation (vs.getD 0 V3.zero) (vs.getD 1 V3.zero) (vs.getD 2 V3.zero)).1
    let d := V3.dot n (vs.getD 0 V3.zero)
    if vs.any fun v => !(isclose (V3.dot n v) d (lit 1 / lit 10000) (lit 1 / lit 100000000)) then .error "ValueError"
    else if !convex then .error "ValueError"
    else
      let order := angularOrder (alignCentred R vs) 0
      let sortedVs := order.map fun k => vs.getD k V3.zero
      match sortedVs.mapM (findVertex verts) with
      | some f => .ok f
      | none => .error "IndexError"

/-- `Polyhedron.volume` with per-face areas given: `sum(-d * area) / 3` -/
def polyVolume (eqs : List (Eqn α)) (areas : List α) : α :=
  Poly3.volume (List.zipWith (fun e a => (e.2, a)) eqs areas)

/-- `Polyhedron.sort_faces` after the per-face reorder (`faces` = the reordered faces):
    `_find_neighbors`, propagation from face 0, `_find_equations`, global flip (faces reversed,
    equations negated) when `volume < 0`. `areas` = the (orientation independent, non-negative)
    `ConvexPolygon(...).area` of every face — computed by `Poly2.area` (C04). Returns faces,
    equations, neighbours (the neighbour lists are those found BEFORE the propagation; reversing
    faces does not change them). -/
def polySortFacesCore (verts : List (V3 α)) (faces : List Face) (areas : List α) :
    Except String (List Face × List (Eqn α) × List (List Nat)) :=
  (findNeighbors faces).map fun N =>
    let S := (propagate N faces).faces
    let eqs := findEquations verts S
    if polyVolume eqs areas < lit 0 then
      (reverseAll S, eqs.map (fun e => (-(e.1), -(e.2))), N)
    else (S, eqs, N)

/-- `get_face_area` of one face: `ConvexPolygon(vertices[face], planar_tolerance=1e-4).area`
    = `|signed_area|` (C04 model `Poly2.area`) with the normal of the first three vertices.
    The value does not depend on where the cycle starts nor on its direction (absolute value), so
    the model evaluates it on the cycle it has, without the further `_reorder_verts` Python does
    inside that constructor. -/
def faceAreaOf (verts : List (V3 α)) (cyc : Face) : α :=
  let vs := cyc.map fun i => verts.getD i V3.zero
  let n := (Poly3.faceEquation (vs.getD 0 V3.zero) (vs.getD 1 V3.zero) (vs.getD 2 V3.zero)).1
  Poly2.area vs n

/-- `Polyhedron.__init__`: `faces_are_convex=None` means "all faces are triangles" -/
def initFacesAreConvex (given : Option Bool) (faces : List Face) : Bool :=
  match given with
  | some b => b
  | none => faces.all fun f => f.length == 3

/-- complete `Polyhedron.sort_faces`: `ValueError` unless `faces_are_convex`, per-face reorder,
    then `polySortFacesCore` with the faces' areas -/
def polySortFaces (facesAreConvex : Bool) (verts : List (V3 α)) (faces : List Face) (Rs : List (M3 α))
    (convex : List Bool) : Except String (List Face × List (Eqn α) × List (List Nat)) := do
  if !facesAreConvex then throw "ValueError"
  let re ← (List.zipWith (fun (f : Face) (rc : M3 α × Bool) => polyReorderFace verts f rc.1 rc.2) faces
    (Rs.zip convex)).mapM id
  polySortFacesCore verts re (re.map (faceAreaOf verts))

/-! ### `merge_faces` -/

/-- `np.allclose(e, f, atol, rtol)`: all `|e_k - f_k| <= atol + rtol*|f_k|` -/
def allclose (atol rtol : α) (e f : Eqn α) : Bool :=
  isclose e.1.x f.1.x rtol atol && isclose e.1.y f.1.y rtol atol && isclose e.1.z f.1.z rtol atol &&
  isclose e.2 f.2 rtol atol

def negEqn (e : Eqn α) : Eqn α := (-(e.1), -(e.2))

/-- the non-zero entries `(i, j)` of `merge_graph` -/
def mergeGraph (eqs : List (Eqn α)) (nbrs : List (List Nat)) (atol rtol : α) : List (Nat × Nat) :=
  (List.range eqs.length).flatMap fun i =>
    ((nbrs.getD i []).filter fun j =>
      let e1 := eqs.getD i (V3.zero, lit 0)
      let e2 := eqs.getD j (V3.zero, lit 0)
      allclose atol rtol e1 e2 || allclose atol rtol e1 (negEqn e2)).map fun j => (i, j)

end geometric

/-- smallest index reachable from each node in the undirected graph (n rounds of relaxation):
    the model's own component labelling, used only to state the contract of scipy's -/
def minLabels (n : Nat) (graph : List (Nat × Nat)) : List Nat :=
  let step := fun (lab : List Nat) =>
    graph.foldl (fun lab e =>
      let a := lab.getD e.1 0
      let b := lab.getD e.2 0
      let m := if a ≤ b then a else b
      (lab.set e.1 m).set e.2 m) lab
  (List.range n).foldl (fun lab _ => step lab) (List.range n)

/-- contract of `connected_components(merge_graph, directed=False)`: `labels` has one entry per
    face, uses exactly the values `0 … k-1`, and two faces carry the same label iff they are in
    the same component of the graph -/
def labelsContract (n : Nat) (graph : List (Nat × Nat)) (labels : List Nat) : Bool :=
  let ml := minLabels n graph
  let k := (dedup labels).length
  decide (labels.length = n) && labels.all (fun l => decide (l < k)) &&
  (List.range n).all fun i => (List.range n).all fun j =>
    (labels.getD i 0 == labels.getD j 0) == (ml.getD i 0 == ml.getD j 0)

/-- `new_faces[labels[i]].update(face)` for all faces; every union as a sorted list
    (Python: a `set`, later turned into an array in unspecified order and re-sorted by
    `sort_faces`) -/
def mergedFaces (faces : List Face) (labels : List Nat) : List Face :=
  (List.range (dedup labels).length).map fun l =>
    sortedUnique (((faces.zip labels).filter fun fl => fl.2 == l).flatMap fun fl => fl.1)


section merge
variable {α : Type} [Scalar α]

/-- `merge_faces(atol, rtol)`: `ValueError` unless `faces_are_convex`; merge graph on the stored
    equations/neighbours; scipy's component labels (external, contract `labelsContract`);
    vertex unions; `sort_faces()` on the merged faces (on an exception the old faces are
    restored and the exception re-raised — the model returns the error).
    `order` = the order in which Python lists every merged vertex set (`list(set)`, unspecified —
    recorded; contract: a permutation of `mergedFaces`), `Rs/convex` = external inputs of
    `polySortFaces` for those merged faces. -/
def mergeFaces (facesAreConvex : Bool) (verts : List (V3 α)) (faces : List Face) (eqs : List (Eqn α))
    (nbrs : List (List Nat)) (atol rtol : α) (labels : List Nat) (order : List Face)
    (Rs : List (M3 α)) (convex : List Bool) :
    Except String (List Face × List (Eqn α) × List (List Nat)) :=
  if !facesAreConvex then .error "ValueError"
  else if !(labelsContract faces.length (mergeGraph eqs nbrs atol rtol) labels) then .error "contract:labels"
  else if (order.map sortedUnique) != mergedFaces faces labels then .error "contract:order"
  else polySortFaces facesAreConvex verts order Rs convex

end merge

end Struct
