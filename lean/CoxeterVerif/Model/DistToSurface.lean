import CoxeterVerif.Vec
/-!
  Model of `distance_to_surface` of the four 2-D shapes (C14). No Mathlib.

  * `coxeter/shapes/circle.py`            `Circle.distance_to_surface`
  * `coxeter/shapes/ellipse.py`           `Ellipse.distance_to_surface`
  * `coxeter/shapes/convex_polygon.py`    `ConvexPolygon._distance_to_surface_from`
  * `coxeter/shapes/convex_spheropolygon.py`
        `ConvexSpheropolygon._get_outward_unit_normal`, `.distance_to_surface`

  The Python is vectorised over the array `angles`; every element is treated independently,
  so the model is written for ONE angle `θ`.

  Restriction (stated, checked per case by the harness): the shape lies in the xy-plane
  (`z = 0`, normal `(0,0,±1)`).  `rowan.mapping.kabsch` (inside `_align_points_by_normal`) is
  an external call: its result enters as the explicit argument `R` = the in-plane 2×2 block of
  the returned rotation.  For a normal along `+z` — the only normal the code now passes for
  shapes in the xy-plane, because a normal along `-z` is negated first — `R` is the identity,
  and the theorems are stated for `R = M2.id`.  `flip` is the Python test `self.normal[2] < 0`
  (vertices stored clockwise in the xy-plane), after which the code reverses the vertex list.
  The constructor call `ConvexPolygon(new_verts)` inside the spheropolygon (duplicate / planarity
  / Qhull convexity checks, `_reorder_verts`) is modelled as the identity on `new_verts`; the
  harness checks that contract per case and passes that polygon's `R` and `flip`.
-/

/-- point / vector in the plane -/
structure P2 (α : Type) where
  x : α
  y : α

/-- 2×2 matrix, row major (`rotation[:2,:2]`) -/
structure M2 (α : Type) where
  a : α
  b : α
  c : α
  d : α

namespace P2
variable {α : Type} [Scalar α]
open Scalar
def add (u v : P2 α) : P2 α := ⟨u.x + v.x, u.y + v.y⟩
def sub (u v : P2 α) : P2 α := ⟨u.x - v.x, u.y - v.y⟩
instance : Add (P2 α) := ⟨add⟩
instance : Sub (P2 α) := ⟨sub⟩
/-- `np.linalg.norm` of a 2-vector: `sqrt(x*x + y*y)` -/
def norm (u : P2 α) : α := Scalar.sqrt (u.x * u.x + u.y * u.y)
def zero : P2 α := ⟨lit 0, lit 0⟩
end P2

namespace M2
variable {α : Type} [Scalar α]
open Scalar
def id : M2 α := ⟨lit 1, lit 0, lit 0, lit 1⟩
/-- row of `np.dot(points, rotation.T)` (the `z` column meets `z = 0`) -/
def apply (R : M2 α) (p : P2 α) : P2 α := ⟨R.a * p.x + R.b * p.y, R.c * p.x + R.d * p.y⟩
end M2

namespace DTS
variable {α : Type} [Scalar α]
open Scalar

/-- `2 * np.pi` -/
def twoPi : α := lit 2 * pi

/-- `np.mod(x, y)` for `y > 0`:  `x - floor(x / y) * y` -/
def fmod (x y : α) : α := x - floor (x / y) * y

/-- the constant `eps = 1e-6` of `_distance_to_surface_from` -/
def eps : α := q 1 1000000

/-! ### Circle, Ellipse -/

/-- `Circle.distance_to_surface`: `np.ones_like(angles) * self.radius` -/
def circleDts (r _θ : α) : α := lit 1 * r

/-- `Ellipse.distance_to_surface`:
    `sqrt((a*a + b*b) / (1 + (a*a)/(b*b)*sin*sin + (b*b)/(a*a)*cos*cos))` -/
def ellipseDts (a b θ : α) : α :=
  sqrt ((a * a + b * b) /
    (lit 1 + (a * a) / (b * b) * sin θ * sin θ + (b * b) / (a * a) * cos θ * cos θ))

/-! ### ConvexPolygon._distance_to_surface_from -/

/-- `np.roll(l, shift=-k, axis=0)` for `0 ≤ k ≤ len` -/
def rollL {β : Type} (k : Nat) (l : List β) : List β := l.drop k ++ l.take k

/-- `np.roll(l, shift=1, axis=0)` -/
def rollR1 {β : Type} (l : List β) : List β := l.drop (l.length - 1) ++ l.take (l.length - 1)

def argminAux : List α → Nat → α → Nat → Nat
  | [], _, _, bi => bi
  | x :: xs, i, best, bi => if x < best then argminAux xs (i + 1) x i else argminAux xs (i + 1) best bi

/-- `np.argmin`: index of the first occurrence of the minimum -/
def argmin : List α → Nat
  | [] => 0
  | x :: xs => argminAux xs 1 x 0

/-- one row of `(p1, slopes, y_int)`: `line = none` is the `np.inf` sentinel in both arrays
    (set together, exactly when `p1.x - p2.x == 0`), `some (slope, y_int)` otherwise -/
structure Edge (α : Type) where
  p1 : P2 α
  line : Option (α × α)

/-- slopes / intercepts:
    `finite = (p1.x - p2.x) != 0.0`; `slope = (p1.y - p2.y)/(p1.x - p2.x)`;
    `y_int = p1.y - slope * p1.x` -/
def mkEdge (p1 p2 : P2 α) : Edge α :=
  if eqb (p1.x - p2.x) (lit 0) then ⟨p1, none⟩
  else
    let m := (p1.y - p2.y) / (p1.x - p2.x)
    ⟨p1, some (m, p1.y - m * p1.x)⟩

/-- the three formula branches of the loop body, for the (mod 2π) angle `a` -/
def edgeDist (e : Edge α) (a : α) : α :=
  match e.line with
  | some (m, y0) =>
    if eqb m (lit 0) then
      -- `slopes[i] == 0`
      let c := cos a
      sqrt (y0 * y0 / (lit 1 - c * c))
    else
      -- generic
      let slk := tan a
      let x := y0 / (slk - m)
      let y := slk * x
      sqrt (x * x + y * y)
  | none =>
    -- `slopes[i] == np.inf or y_int[i] == np.inf`
    let s := sin a
    sqrt (e.p1.x * e.p1.x / (lit 1 - s * s))

/-- the `for i in range(num_verts)` loop for one angle: rows `(angles_to_vertices[i],
    angles_shifted[i], edge i)`; `acc = none` is the uninitialised `np.empty_like` slot;
    a later matching `i` overwrites an earlier one; the last row also takes the wrap range
    `[angles_to_vertices[-1] - 2π, angles_to_vertices[0])`. -/
def binsFold (a first : α) : List (α × α × Edge α) → Option α → Option α
  | [], acc => acc
  | [(lo, hi, e)], acc =>
    let inside := (decide (lo ≤ a) && decide (a < hi)) ||
      (decide (lo - twoPi ≤ a) && decide (a < first))
    if inside then some (edgeDist e a) else acc
  | (lo, hi, e) :: rest, acc =>
    let inside := decide (lo ≤ a) && decide (a < hi)
    binsFold a first rest (if inside then some (edgeDist e a) else acc)

/-- aligned, centred, (if `flip`) reversed vertices -/
def alignedVerts (R : M2 α) (flip : Bool) (V : List (P2 α)) (center : P2 α) : List (P2 α) :=
  let verts := V.map fun v => R.apply (v - center)
  if flip then verts.reverse else verts

/-- vertex angles `np.mod(np.arctan2(y, x), 2π)` -/
def vertexAngles (verts : List (P2 α)) : List α :=
  verts.map fun v => fmod (atan2 v.y v.x) twoPi

/-- rows of the loop after rolling to the smallest vertex angle -/
def binRows (verts : List (P2 α)) : List (α × α × Edge α) :=
  let angV := vertexAngles verts
  let shift := argmin angV
  let verts := rollL shift verts
  let angV := rollL shift angV
  let p1 := verts
  let p2 := rollL 1 p1
  let edges := List.zipWith mkEdge p1 p2
  -- `angles_shifted = np.roll(angV, -1)`, then `angles_shifted[-1] = 2π + eps`
  let angS := angV.drop 1 ++ [twoPi + eps]
  List.zipWith (fun lo he => (lo, he)) angV (List.zipWith (fun hi e => (hi, e)) angS edges)

/-- `ConvexPolygon._distance_to_surface_from(angles, center)` for one angle.
    `none` = the slot is never assigned (Python returns uninitialised memory). -/
def cpolyDtsFrom (R : M2 α) (flip : Bool) (V : List (P2 α)) (center : P2 α) (θ : α) : Option α :=
  let a := fmod θ twoPi
  let rows := binRows (alignedVerts R flip V center)
  match rows with
  | [] => none
  | (first, _) :: _ => binsFold a first rows none

/-! ### ConvexSpheropolygon -/

/-- `np.sign` -/
def sign (x : α) : α := if x < lit 0 then -(lit 1) else if lit 0 < x then lit 1 else lit 0

/-- `ConvexSpheropolygon._get_outward_unit_normal(vector, point)` -/
def outwardUnitNormal (vec pt : P2 α) : P2 α :=
  if eqb vec.x (lit 0) then
    -- infinite slope
    let xint := pt.x
    ⟨sign xint * lit 1, lit 0⟩
  else
    let slope := vec.y / vec.x
    let yint := pt.y - slope * pt.x
    if eqb slope (lit 0) then ⟨lit 0, sign yint * lit 1⟩
    else
      let nrm := sqrt ((-slope) * (-slope) + lit 1 * lit 1)
      let nx := (-slope) / nrm
      let ny := lit 1 / nrm
      let flipIt : Bool :=
        if lit 0 < slope then
          (decide (lit 0 < yint) && decide (lit 0 < nx)) || (decide (yint < lit 0) && decide (nx < lit 0))
        else
          (decide (lit 0 < yint) && decide (nx < lit 0)) || (decide (yint < lit 0) && decide (lit 0 < nx))
      if flipIt then ⟨nx * -(lit 1), ny * -(lit 1)⟩ else ⟨nx, ny⟩

/-- `arctan2` moved into `[0, 2π)` the way the spheropolygon does it (`if < 0: += 2π`) -/
def atan2Pos (y x : α) : α :=
  let t := atan2 y x
  if t < lit 0 then t + twoPi else t

/-- per-vertex data of the spheropolygon: expanded vertex, arc range, core vertex -/
structure Corner (α : Type) where
  newVert : P2 α
  theta1 : α
  theta2 : α
  v : P2 α

/-- the vectorised block between `# compute intermediates` and `angle_ranges` for vertex `v2`
    with predecessor `v1` and successor `v3` (all relative to the core centroid) -/
def corner (r : α) (v1 v2 v3 : P2 α) : Corner α :=
  let v12 := v1 - v2
  let v32 := v3 - v2
  let v12n := outwardUnitNormal v12 v2
  let v32n := outwardUnitNormal v32 v2
  let v12norm := P2.norm v12
  let v32norm := P2.norm v32
  let dot := v32.x * v12.x + v32.y * v12.y
  let phi := acos (dot / (v32norm * v12norm))
  let uvec := v12n + v32n
  let un := P2.norm uvec
  let uvec : P2 α := ⟨uvec.x / un, uvec.y / un⟩
  let s := sin (phi / lit 2)
  let newVert : P2 α := ⟨v2.x + uvec.x * r / s, v2.y + uvec.y * r / s⟩
  let pt1 : P2 α := ⟨v2.x + v12n.x * r, v2.y + v12n.y * r⟩
  let pt3 : P2 α := ⟨v2.x + v32n.x * r, v2.y + v32n.y * r⟩
  ⟨newVert, atan2Pos pt1.y pt1.x, atan2Pos pt3.y pt3.x, v2⟩

/-- centred (and, for `flip`, reversed) core vertices:
    `verts = polygon.vertices[:, :2] - polygon.centroid[:2]`; `if normal[2] < 0: verts[::-1]` -/
def spgVerts (flip : Bool) (V : List (P2 α)) (c : P2 α) : List (P2 α) :=
  let verts := V.map fun v => v - c
  if flip then verts.reverse else verts

def zip3With {β γ δ ε : Type} (f : β → γ → δ → ε) : List β → List γ → List δ → List ε
  | b :: bs, c :: cs, d :: ds => f b c d :: zip3With f bs cs ds
  | _, _, _ => []

/-- all corners (`v1 = np.roll(verts, 1)`, `v2 = verts`, `v3 = np.roll(verts, -1)`) -/
def corners (r : α) (verts : List (P2 α)) : List (Corner α) :=
  zip3With (corner r) (rollR1 verts) verts (rollL 1 verts)

/-- the root written in the arc loop, for vertex `v`, radius `r`, (mod 2π) angle `a`
    (since /repo 5df35a1: the discriminant `b² − 4ac` is evaluated in the cancellation-free form
    `4 · max(r² − (|v| sin(a − φ))², 0)`):
    `b = -2 * norm_v * cos(a - phi)`; `sin_term = norm_v * sin(a - phi)`;
    `discriminant = 4 * np.maximum(radius**2 - sin_term**2, 0)`;
    `(-b + sqrt(discriminant)) / (2 * a)` with `a = 1` -/
def arcDist (v : P2 α) (r a : α) : α :=
  let normV := P2.norm v
  let phi := atan2Pos v.y v.x
  let aa : α := lit 1
  let b := -(lit 2) * normV * cos (a - phi)
  let sinTerm := normV * sin (a - phi)
  let discriminant := lit 4 * Scalar.max (r * r - sinTerm * sinTerm) (lit 0)
  (-b + sqrt discriminant) / (lit 2 * aa)

/-- the `for i in range(len(angle_ranges))` loop for one angle -/
def arcsFold (r a : α) : List (Corner α) → Option α → Option α
  | [], acc => acc
  | k :: rest, acc =>
    let inside : Bool :=
      if k.theta2 < k.theta1 then decide (k.theta1 ≤ a) || decide (a ≤ k.theta2)
      else decide (k.theta1 ≤ a) && decide (a ≤ k.theta2)
    arcsFold r a rest (if inside then some (arcDist k.v r a) else acc)

/-- `ConvexSpheropolygon.distance_to_surface` for one angle. `V`, `c`: stored core vertices
    and core centroid (xy parts); `flip`: `polygon.normal[2] < 0`; `Rk`, `flipK`: rotation
    block and flip flag of the kernel polygon `ConvexPolygon(new_verts)`. -/
def spgDts (Rk : M2 α) (flipK : Bool) (flip : Bool) (V : List (P2 α)) (c : P2 α) (r θ : α) : Option α :=
  let a := fmod θ twoPi
  let ks := corners r (spgVerts flip V c)
  let newVerts := ks.map (·.newVert)
  let kernel := cpolyDtsFrom Rk flipK newVerts P2.zero a
  arcsFold r a ks kernel

/-- the expanded vertices handed to `ConvexPolygon(new_verts)` -/
def spgNewVerts (flip : Bool) (V : List (P2 α)) (c : P2 α) (r : α) : List (P2 α) :=
  (corners r (spgVerts flip V c)).map (·.newVert)

end DTS
