import CoxeterVerif.Vec
import CoxeterVerif.Model.ChainCheck
/-!
  Model of `compute_form_factor_amplitude` of
  `coxeter/shapes/sphere.py`, `polygon.py`, `polyhedron.py` (as the code is NOW, after the
  repairs ea965a7 / fcd99e6 / bf54479), generic over a `Scalar`.  No Mathlib.

  Complex numbers are pairs `(re, im)` (`Cx α`).  NumPy facts the model relies on:
  * `np.isclose(x, 0)`  is  `|x - 0| <= 1e-8 + 1e-5*|0|`, i.e. `|x| <= 1e-8`;
  * `np.sinc(x)`        is  `sin(pi x)/(pi x)`, and `1` at `x == 0`
                        (NumPy substitutes `1e-20` for `0`, which evaluates to exactly `1.0`);
  * `np.sign(x)`        is  `-1, 0, 1`;
  * `np.roll(v, -1, axis=0)` moves the first row to the end;
  * `np.argmax`         returns the FIRST index of the maximum;
  * `np.exp(-1j*x)`     is  `cos x - i sin x`.
  The batch versions mirror the mask structure `ff[zero] = …; ff[~zero] = …` of the Python.

  Argument glue (`QArg`, `…Call`): what the three methods do with the `q` argument as Python passes it
  (an `(N,3)` array, a bare `(3,)` array, nested / flat Python lists) and with the optional `density`:
  * `Sphere` starts with `np.atleast_2d(q)`, so every form is accepted and a `(3,)` vector is a batch of one;
  * `Polygon` indexes `np.dot(q, normal)[:, np.newaxis]`: a `(3,)` vector makes the dot product a scalar
    → `IndexError`; nested lists work (`np.dot` / `q - array` convert);
  * `Polyhedron` evaluates `q * q` first: Python lists → `TypeError`; a `(3,)` array gives scalar
    `q_sqs` / `zero_q`, `q[~zero_q]` is `q[np.True_]` (shape `(1,3)`) or `q[np.False_]` (shape `(0,3)`):
    the non-zero case broadcasts the single amplitude into all `len(q) = 3` slots, the zero case fails in
    the face polygon with a broadcasting `ValueError`.
-/

/-- complex number as a pair -/
structure Cx (α : Type) where
  re : α
  im : α

namespace Cx
variable {α : Type} [Scalar α]
open Scalar

def zero : Cx α := ⟨lit 0, lit 0⟩
/-- the imaginary unit `1j` -/
def I : Cx α := ⟨lit 0, lit 1⟩
def ofReal (x : α) : Cx α := ⟨x, lit 0⟩
def add (z w : Cx α) : Cx α := ⟨z.re + w.re, z.im + w.im⟩
def neg (z : Cx α) : Cx α := ⟨-z.re, -z.im⟩
def conj (z : Cx α) : Cx α := ⟨z.re, -z.im⟩
def mul (z w : Cx α) : Cx α := ⟨z.re * w.re - z.im * w.im, z.re * w.im + z.im * w.re⟩
/-- real × complex -/
def smul (k : α) (z : Cx α) : Cx α := ⟨k * z.re, k * z.im⟩
/-- complex / real -/
def sdiv (z : Cx α) (k : α) : Cx α := ⟨z.re / k, z.im / k⟩
/-- `np.exp(-1j * x)` -/
def expNegI (x : α) : Cx α := ⟨Scalar.cos x, -(Scalar.sin x)⟩
/-- `np.sum` of complex numbers (right fold) -/
def sum (l : List (Cx α)) : Cx α := l.foldr add zero
end Cx

namespace FF
variable {α : Type} [Scalar α]
open Scalar

/-- `np.isclose(x, 0)` with the default `rtol=1e-5, atol=1e-8`: `|x| <= 1e-8` -/
def isCloseZero (x : α) : Bool := decide (Scalar.abs x ≤ q 1 100000000)

/-- `np.sinc(x) = sin(pi x)/(pi x)`, `1` at `x == 0` -/
def npSinc (x : α) : α :=
  if Scalar.eqb x (lit 0) then lit 1 else Scalar.sin (Scalar.pi * x) / (Scalar.pi * x)

/-- `np.sign` -/
def sign (x : α) : α := if x < lit 0 then -(lit 1) else if lit 0 < x then lit 1 else lit 0

/-- `np.roll(v, shift=-1, axis=0)` -/
def roll1 {β : Type} : List β → List β
  | [] => []
  | a :: l => l ++ [a]

/-- `np.argmax(np.abs(n))`: first index of the largest |component| -/
def argmaxAbs (n : V3 α) : Nat :=
  let ax := Scalar.abs n.x
  let ay := Scalar.abs n.y
  let az := Scalar.abs n.z
  if ay ≤ ax ∧ az ≤ ax then 0 else if az ≤ ay then 1 else 2

/-! ### Polygon -/

/-- `Polygon.__init__`: the stored normal. `cross(v2 - v1, v0 - v1)` normalised when none is
    given, otherwise the given one normalised. (The constructor's validity checks belong to C15.) -/
def polygonNormal (vs : List (V3 α)) (explicit : Option (V3 α)) : V3 α :=
  match explicit with
  | some n => V3.sdiv n (V3.norm n)
  | none =>
    match vs with
    | v0 :: v1 :: v2 :: _ =>
      let c := V3.cross (v2 - v1) (v0 - v1)
      V3.sdiv c (V3.norm c)
    | _ => V3.zero

/-- `Polygon.signed_area` (projection onto the coordinate plane most parallel to the polygon):
    `sum(roll(v,-1)[:,c1] * (roll(v,-2)[:,c2] - v[:,c2])) * (|abs n| / (2 n[p]))` -/
def signedArea (vs : List (V3 α)) (n : V3 α) : α :=
  let p := argmaxAbs n
  let an := V3.norm ⟨Scalar.abs n.x, Scalar.abs n.y, Scalar.abs n.z⟩
  let c1 := (p + 1) % 3
  let c2 := (p + 2) % 3
  let r1 := roll1 vs
  let r2 := roll1 r1
  Scalar.sum (List.zipWith (fun a bc => a.get c1 * (bc.1.get c2 - bc.2.get c2)) r1 (List.zip r2 vs))
    * (an / (lit 2 * n.get p))

/-- `Polygon.area = np.abs(signed_area)` -/
def polygonArea (vs : List (V3 α)) (n : V3 α) : α := Scalar.abs (signedArea vs n)

/-- contribution of the directed edge `v → w` for the in-plane wave vector `qp`, `qsq = |qp|²`:
    `f = (cross(e, q)·n) * sinc(0.5 * e·q / pi) / q²`,  term `f * 1j * exp(-1j * m·q)` -/
def edgeTerm (n qp : V3 α) (qsq : α) (vw : V3 α × V3 α) : Cx α :=
  let e := vw.2 - vw.1
  let m := V3.sdiv (vw.1 + vw.2) (lit 2)
  let f := V3.dot (V3.cross e qp) n * npSinc (q 1 2 * V3.dot e qp / Scalar.pi) / qsq
  Cx.mul (Cx.mul (Cx.ofReal f) Cx.I) (Cx.expNegI (V3.dot m qp))

/-- the directed edges `(verts[i], roll(verts,-1)[i])` -/
def edgesOf (vs : List (V3 α)) : List (V3 α × V3 α) := List.zip vs (roll1 vs)

/-- `q - (q·n) n` -/
def project (n q : V3 α) : V3 α := q - V3.smul (V3.dot q n) n

/-- the `~zero_q` branch of `Polygon.compute_form_factor_amplitude` for one projected `q`:
    `-sign(signed_area) * sum(f_ns * 1j * exp(-1j * m·q), axis=0)` -/
def polygonNonzero (vs : List (V3 α)) (n qp : V3 α) : Cx α :=
  Cx.smul (-(sign (signedArea vs n))) (Cx.sum ((edgesOf vs).map (edgeTerm n qp (V3.dot qp qp))))

/-- `Polygon.compute_form_factor_amplitude` for one wave vector -/
def polygonFF (vs : List (V3 α)) (n : V3 α) (qv : V3 α) (density : α) : Cx α :=
  let qp := project n qv
  let qsq := V3.dot qp qp
  let r := if isCloseZero qsq then Cx.ofReal (polygonArea vs n) else polygonNonzero vs n qp
  Cx.smul density r

/-- NumPy mask assignment `out[mask] = zeroVal; out[~mask] = vals` (vals in order) -/
def scatter {β : Type} (zeroVal : β) : List Bool → List β → List β
  | [], _ => []
  | true :: m, vals => zeroVal :: scatter zeroVal m vals
  | false :: m, v :: vals => v :: scatter zeroVal m vals
  | false :: m, [] => zeroVal :: scatter zeroVal m []   -- unreachable when |vals| = #false

/-- rows of `x` where the mask is False (`x[~mask]`) -/
def selectNot {β : Type} : List Bool → List β → List β
  | false :: m, x :: xs => x :: selectNot m xs
  | true :: m, _ :: xs => selectNot m xs
  | _, _ => []

/-- `Polygon.compute_form_factor_amplitude` on an `(N,3)` batch, with the masks of the Python -/
def polygonFFBatch (vs : List (V3 α)) (n : V3 α) (qs : List (V3 α)) (density : α) : List (Cx α) :=
  let qps := qs.map (project n)
  let zero := qps.map fun qp => isCloseZero (V3.dot qp qp)
  let vals := (selectNot zero qps).map (polygonNonzero vs n)
  (scatter (Cx.ofReal (polygonArea vs n)) zero vals).map (Cx.smul density)

/-! ### Polyhedron (also ConvexPolyhedron, which inherits the method) -/

/-- one face as the Python sees it: `vertices[face]`, `eqn[:3]`, `eqn[3]` -/
structure Face (α : Type) where
  verts : List (V3 α)
  normal : V3 α
  off : α

/-- contribution of one face to a wave vector outside the zero-`q` mask:
    `face_normal, d = eqn[:3], -eqn[3]`; `Polygon(vertices[face], face_normal)` (which stores a
    normalised COPY of `face_normal`); `qn = np.dot(q, face_normal)` with the raw `eqn[:3]`;
    `qn * (1j * F_face * exp(-1j * qn * d)) / q²` -/
def faceTerm (qv : V3 α) (qsq : α) (f : Face α) : Cx α :=
  let n := V3.sdiv f.normal (V3.norm f.normal)
  let d := -f.off
  let ffFace := polygonFF f.verts n qv (lit 1)
  let qn := V3.dot qv f.normal
  Cx.sdiv (Cx.smul qn (Cx.mul (Cx.mul Cx.I ffFace) (Cx.expNegI (qn * d)))) qsq

def polyhedronNonzero (faces : List (Face α)) (qv : V3 α) : Cx α :=
  Cx.sum (faces.map (faceTerm qv (V3.dot qv qv)))

/-- `Polyhedron.compute_form_factor_amplitude` for one wave vector (`volume = self.volume`) -/
def polyhedronFF (faces : List (Face α)) (volume : α) (qv : V3 α) (density : α) : Cx α :=
  let qsq := V3.dot qv qv
  let r := if isCloseZero qsq then Cx.ofReal volume else polyhedronNonzero faces qv
  Cx.smul density r

def polyhedronFFBatch (faces : List (Face α)) (volume : α) (qs : List (V3 α)) (density : α) :
    List (Cx α) :=
  let zero := qs.map fun qv => isCloseZero (V3.dot qv qv)
  let vals := (selectNot zero qs).map (polyhedronNonzero faces)
  (scatter (Cx.ofReal volume) zero vals).map (Cx.smul density)

/-! ### Sphere -/

/-- `Sphere.volume = 4/3 pi r³` -/
def sphereVolume (r : α) : α := q 4 3 * Scalar.pi * (r * r * r)

/-- `Sphere.compute_form_factor_amplitude` for one wave vector:
    zero branch `volume`, else `4 pi R (sinc(qR/pi) - cos(qR)) / q²`; then
    `*= density * exp(-1j * q·c)` in every branch -/
def sphereFF (r : α) (c : V3 α) (qv : V3 α) (density : α) : Cx α :=
  let qsq := V3.dot qv qv
  let v :=
    if isCloseZero qsq then sphereVolume r
    else
      let qr := Scalar.sqrt qsq * r
      (lit 4 * Scalar.pi * r * (npSinc (qr / Scalar.pi) - Scalar.cos qr)) / qsq
  Cx.mul (Cx.ofReal v) (Cx.smul density (Cx.expNegI (V3.dot qv c)))

def sphereFFBatch (r : α) (c : V3 α) (qs : List (V3 α)) (density : α) : List (Cx α) :=
  let zero := qs.map fun qv => isCloseZero (V3.dot qv qv)
  let vals := (selectNot zero qs).map fun qv =>
    let qsq := V3.dot qv qv
    let qr := Scalar.sqrt qsq * r
    (lit 4 * Scalar.pi * r * (npSinc (qr / Scalar.pi) - Scalar.cos qr)) / qsq
  let amps := scatter (sphereVolume r) zero vals
  List.zipWith (fun v qv => Cx.mul (Cx.ofReal v) (Cx.smul density (Cx.expNegI (V3.dot qv c)))) amps qs

/-! ### argument glue -/

/-- the `q` argument as Python passes it -/
inductive QArg (α : Type) where
  /-- `np.ndarray` of shape `(N,3)` -/
  | arr2 (qs : List (V3 α))
  /-- `np.ndarray` of shape `(3,)` -/
  | arr1 (q : V3 α)
  /-- nested Python list `[[x,y,z], …]` -/
  | list2 (qs : List (V3 α))
  /-- flat Python list `[x,y,z]` -/
  | list1 (q : V3 α)

/-- `density=1.0` default -/
def densityArg (density : Option α) : α := density.getD (lit 1)

/-- `Polygon.compute_form_factor_amplitude(q, density)` with the argument as passed -/
def polygonCall (vs : List (V3 α)) (n : V3 α) (qa : QArg α) (density : Option α) :
    Except String (List (Cx α)) :=
  match qa with
  | .arr2 qs | .list2 qs => .ok (polygonFFBatch vs n qs (densityArg density))
  | .arr1 _ | .list1 _ => .error "IndexError"

/-- `Polyhedron.compute_form_factor_amplitude(q, density)` with the argument as passed -/
def polyhedronCall (faces : List (Face α)) (volume : α) (qa : QArg α) (density : Option α) :
    Except String (List (Cx α)) :=
  match qa with
  | .arr2 qs => .ok (polyhedronFFBatch faces volume qs (densityArg density))
  | .arr1 qv =>
    if isCloseZero (V3.dot qv qv) then .error "ValueError"
    else
      let f := polyhedronFF faces volume qv (densityArg density)
      .ok [f, f, f]
  | .list2 _ | .list1 _ => .error "TypeError"

/-- `Sphere.compute_form_factor_amplitude(q, density)`: `q = np.atleast_2d(q)` first -/
def sphereCall (r : α) (c : V3 α) (qa : QArg α) (density : Option α) : Except String (List (Cx α)) :=
  match qa with
  | .arr2 qs | .list2 qs => .ok (sphereFFBatch r c qs (densityArg density))
  | .arr1 qv | .list1 qv => .ok (sphereFFBatch r c [qv] (densityArg density))

/-! ### triangulation certificate -/

/-- the triangle fan `(v0, a_i, a_{i+1})` over the vertices after the first -/
def fanTris (v0 : V3 α) : List (V3 α) → List (Tri α)
  | a :: b :: l => ⟨v0, a, b⟩ :: fanTris v0 (b :: l)
  | _ => []

/-- the fan of a vertex list from its first vertex -/
def fanOf : List (V3 α) → List (Tri α)
  | v0 :: rest => fanTris v0 rest
  | [] => []

/-- the fan triangles of a face as the Python sees it (`vertices[face]`) -/
def faceTris (f : Face α) : List (Tri α) := fanOf f.verts

/-- the fan-triangulated surface of a face list -/
def surfaceOf (faces : List (Face α)) : List (Tri α) := faces.flatMap faceTris

/-- the fan-triangulated surface of a list of faces given by their vertex lists (`vertices[face]`) -/
def surfaceOfVerts (fs : List (List (V3 α))) : List (Tri α) := fs.flatMap fanOf

/-- **closed-surface certificate**: the directed edges of the fan triangles of all faces cancel in pairs
(exact test on the implementation's own `vertices[face]`; the driver runs it over `ℚ`). -/
def surfaceClosedCheck (fs : List (List (V3 α))) : Bool := ChainCheck.closedCheck (surfaceOfVerts fs)

/-- the directed boundary edges of a triangle -/
def triEdgesOf (t : Tri α) : List (V3 α × V3 α) := ChainCheck.edgesOf t

/-- **certificate checker**: the polygon's directed edge cycle minus the boundaries of the triangles `Ts`
cancels in pairs, i.e. `Ts` is a triangulation of the polygon as far as the boundary is concerned
(exact test; the driver runs it over `ℚ` on the implementation's own vertices). -/
def triangulationCheck (vs : List (V3 α)) (Ts : List (Tri α)) : Bool :=
  let E := edgesOf vs ++ (Ts.flatMap triEdgesOf).map Prod.swap
  ChainCheck.cancelEdges E.length E

end FF
