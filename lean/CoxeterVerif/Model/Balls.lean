import CoxeterVerif.Vec
/-!
  Model of the ball-valued properties of coxeter (C13):

  * `ConvexPolygon.minimal_centered_bounding_circle`, `ConvexPolyhedron.minimal_centered_bounding_sphere`
  * `ConvexPolyhedron.maximal_centered_bounded_sphere`, `ConvexPolygon.maximal_centered_bounded_circle`
  * `Polyhedron.circumsphere`, `Polygon.circumcircle`, `Polyhedron.insphere`, `Polygon.incircle`
  * `Polygon.minimal_bounding_circle`, `Polyhedron.minimal_bounding_sphere` (miniball + retry loop)
  * the ball getters of `Circle`, `Ellipse`, `Sphere`, `Ellipsoid`
  * `Circle(radius, center)` / `Sphere(radius, center)` (radius setter: `ValueError` unless `> 0`)

  Same formulas, same branch structure, same constants, same statement order as the Python.
  External calls are explicit arguments:
    `np.linalg.lstsq`            → its solution `x` (and `r` for the 4-column systems) and `resids`
    `miniball.get_bounding_ball` → a function `mb : attempt → points → Option (centre, r²)`
                                    (`none` = it raised `np.linalg.LinAlgError`)
    `rowan.random.rand(1)`       → a function `rand : attempt → quaternion`
  `rowan.rotate / multiply / conjugate` are three lines each and are modelled, not assumed.
  No Mathlib.
-/
namespace Balls
variable {α : Type} [Scalar α]
open Scalar

/-- what a returned `Circle` / `Sphere` is flattened to -/
structure Ball (α : Type) where
  radius : α
  center : V3 α

/-- `Circle(radius, center)` / `Sphere(radius, center)`:
    `self.radius = radius` (`if value > 0: store else: raise ValueError`), `self.centroid = center` -/
def mkBall (r : α) (c : V3 α) : Except String (Ball α) :=
  if lit 0 < r then .ok ⟨r, c⟩ else .error "ValueError"

/-- `arr.max()` / `np.max(arr)` (left-to-right scan; `[]` does not occur) -/
def listMax : List α → α
  | [] => lit 0
  | x :: xs => xs.foldl Scalar.max x

/-- `np.min(arr)` -/
def listMin : List α → α
  | [] => lit 0
  | x :: xs => xs.foldl Scalar.min x

/-- `np.isclose(a, b, atol=atol)` with the default `rtol=1e-05`:
    `abs(a - b) <= atol + rtol * abs(b)` -/
def isclose (a b atol : α) : Bool :=
  decide (Scalar.abs (a - b) ≤ atol + q 1 100000 * Scalar.abs b)

/-- `np.roll(arr, shift=1, axis=0)` : element `i` becomes `arr[i-1]` -/
def rollR {β : Type} (l : List β) : List β :=
  match l.getLast? with
  | none => []
  | some x => x :: l.dropLast

/-- `np.roll(arr, shift=-1, axis=0)` : element `i` becomes `arr[i+1]` -/
def rollL {β : Type} : List β → List β
  | [] => []
  | x :: xs => xs ++ [x]

/-! ### centred balls -/

/-- `Sphere(np.linalg.norm(self.vertices - self.center, axis=-1).max(), self.center)`
    (identical for `ConvexPolygon` with `Circle`) -/
def minimalCenteredBounding (verts : List (V3 α)) (center : V3 α) : Except String (Ball α) :=
  mkBall (listMax (verts.map fun v => V3.norm (v - center))) center

/-- `_point_plane_distances(center)`: `np.inner(points, equations[:, :3]) + equations[:, 3]` -/
def pointPlaneDistances (eqs : List (V3 α × α)) (p : V3 α) : List α :=
  eqs.map fun e => V3.dot p e.1 + e.2

/-- `ConvexPolyhedron.maximal_centered_bounded_sphere` -/
def maximalCenteredBoundedSphere (eqs : List (V3 α × α)) (center : V3 α) : Except String (Ball α) :=
  let distances := pointPlaneDistances eqs center
  if distances.any (fun d => decide (lit 0 < d)) then .error "ValueError"
  else
    let min_distance := -(listMax distances)
    mkBall min_distance center

/-- the `distances` array of `ConvexPolygon.maximal_centered_bounded_circle`:
    `deltas = v1s - roll(v1s, 1)`, normalised; `points = center - v1s`;
    `norm(cross(points, deltas))` -/
def edgeLineDistances (verts : List (V3 α)) (center : V3 α) : List α :=
  let v1s := verts
  let v2s := rollR verts
  let deltas := List.zipWith (fun a b => a - b) v1s v2s
  let deltas := deltas.map fun d => V3.sdiv d (V3.norm d)
  let points := v1s.map fun v => center - v
  List.zipWith (fun p d => V3.norm (V3.cross p d)) points deltas

/-- `ConvexPolygon.maximal_centered_bounded_circle` -/
def maximalCenteredBoundedCircle (verts : List (V3 α)) (center : V3 α) : Except String (Ball α) :=
  let radius := listMin (edgeLineDistances verts center)
  mkBall radius center

/-! ### linear systems handed to `np.linalg.lstsq`
  One row is `a · x + k * r = b` in the unknowns `(x : V3, r)`; the circum-systems have `k = 0`
  (three columns), the in-systems have four columns. -/

structure Row (α : Type) where
  a : V3 α
  k : α
  b : α

/-- residual of one row -/
def Row.resid (row : Row α) (x : V3 α) (r : α) : α := V3.dot row.a x + row.k * r - row.b

/-- `‖A x − b‖²` : what `lstsq` reports as `resids` (over-determined, full rank) -/
def sumSq (rows : List (Row α)) (x : V3 α) (r : α) : α :=
  Scalar.sum (rows.map fun row => sqr (row.resid x r))

/-- `self.vertices[0]` -/
def firstVertex (verts : List (V3 α)) : V3 α := verts.headD V3.zero

/-- `points = self.vertices[1:] - self.vertices[0]` -/
def circumPoints (verts : List (V3 α)) : List (V3 α) :=
  match verts with
  | [] => []
  | v0 :: rest => rest.map fun v => v - v0

/-- `Polyhedron.circumsphere`: rows `points`, rhs `np.sum(points * points, axis=1) / 2` -/
def circumSystemSphere (verts : List (V3 α)) : List (Row α) :=
  (circumPoints verts).map fun p => ⟨p, lit 0, V3.dot p p / lit 2⟩

/-- the rows of `Polygon.circumcircle` with the in-plane constraint row left as the UNIT normal (the
system the code solved before 0897fc7). It has the same right-hand sides as the system solved now
(`circumSystemCircleScaled`), hence the same `circumAtol`; the tail `circumcircle` below refers to it
only through `circumAtol` (= `1e-8 * np.max(half_point_lengths) ** 2`). -/
def circumSystemCircle (verts : List (V3 α)) (normal : V3 α) : List (Row α) :=
  circumSystemSphere verts ++ [⟨normal, lit 0, lit 0⟩]

/-- `np.max(np.linalg.norm(points[:-1], axis=1))` (repair 0897fc7) -/
def planeRowScale (verts : List (V3 α)) : α := listMax ((circumPoints verts).map V3.norm)

/-- the system `Polygon.circumcircle` hands to `np.linalg.lstsq` (since 0897fc7): the rows
`v_i − v_0` with rhs `|·|²/2`, followed by the in-plane constraint row
`points[-1] *= np.max(np.linalg.norm(points[:-1], axis=1))`, i.e. `scale · normal`, rhs `0` -/
def circumSystemCircleScaled (verts : List (V3 α)) (normal : V3 α) : List (Row α) :=
  circumSystemSphere verts ++ [⟨V3.smul (planeRowScale verts) normal, lit 0, lit 0⟩]

/-- `len(self.vertices) > k and not np.isclose(resids, 0, atol=atol)`; `resids` is the (0- or
    1-element) array returned by lstsq; the truth value of an empty array raises `ValueError`
    (NumPy ≥ 2.2). -/
def residGuard (nverts thresh : Nat) (resids : List α) (atol : α) : Except String Bool :=
  if nverts > thresh then
    match resids with
    | [r] => .ok (!(isclose r (lit 0) atol))
    | _ => .error "ValueError"
  else .ok false

/-- `atol = 1e-8 * np.max(half_point_lengths) ** 2` (`half_point_lengths` = the right-hand side,
    for the polygon including its trailing `0`) -/
def circumAtol (rows : List (Row α)) : α :=
  q 1 100000000 * sqr (listMax (rows.map fun row => row.b))

/-- tail of `circumsphere` / `circumcircle` after the `lstsq` call (`thresh` = 4 / 3, `rows` = the
    system that was solved): guard → `RuntimeError`; `Sphere(np.linalg.norm(x), x + self.vertices[0])` -/
def circumBall (thresh : Nat) (verts : List (V3 α)) (rows : List (Row α)) (x : V3 α)
    (resids : List α) : Except String (Ball α) := do
  let atol := circumAtol rows
  if (← residGuard verts.length thresh resids atol) then throw "RuntimeError"
  mkBall (V3.norm x) (x + firstVertex verts)

def circumsphere (verts : List (V3 α)) (x : V3 α) (resids : List α) : Except String (Ball α) :=
  circumBall 4 verts (circumSystemSphere verts) x resids

def circumcircle (verts : List (V3 α)) (normal x : V3 α) (resids : List α) : Except String (Ball α) :=
  circumBall 3 verts (circumSystemCircle verts normal) x resids

/-- `Polyhedron.insphere`: per face `(normal, vertices[face[0]])`:
    `a = hstack((normals, 1))`, `b = np.sum(normals * vertices[first_vertices], axis=-1)` -/
def inSystemSphere (faces : List (V3 α × V3 α)) : List (Row α) :=
  faces.map fun f => ⟨f.1, lit 1, V3.dot f.1 f.2⟩

/-- `np.sign` -/
def npSign (x : α) : α := if x < lit 0 then -(lit 1) else if lit 0 < x then lit 1 else lit 0

/-- `outward_normals` of `Polygon.incircle`:
    `cross(roll(vertices, -1) - vertices, normal)`, each divided by its norm, then
    `outward_normals *= np.sign(self.signed_area)` (`signedArea` = the value of the `signed_area`
    property, modelled under C04) -/
def outwardNormals (verts : List (V3 α)) (normal : V3 α) (signedArea : α) : List (V3 α) :=
  let e := List.zipWith (fun a b => V3.cross (a - b) normal) (rollL verts) verts
  let e := e.map fun n => V3.sdiv n (V3.norm n)
  e.map fun n => V3.smul (npSign signedArea) n

/-- `Polygon.incircle`: rows `(outward_normal_i, 1 | outward_normal_i · v_i)` followed by
    `(normal, 0 | normal · v_0)` -/
def inSystemCircle (verts : List (V3 α)) (normal : V3 α) (signedArea : α) : List (Row α) :=
  (List.zipWith (fun n v => (⟨n, lit 1, V3.dot n v⟩ : Row α))
      (outwardNormals verts normal signedArea) verts)
    ++ [⟨normal, lit 0, V3.dot normal (firstVertex verts)⟩]

/-- `extent = np.max(np.linalg.norm(self.vertices - self.vertices[0], axis=-1))` -/
def extent (verts : List (V3 α)) : α :=
  listMax (verts.map fun v => V3.norm (v - firstVertex verts))

/-- tail of `insphere` / `incircle` after the `lstsq` call: guard
    `len(vertices) > k and not np.isclose(resids, 0, atol=1e-8 * extent**2)` → `RuntimeError`;
    `Sphere(x[3], x[:3])` -/
def inBall (thresh : Nat) (verts : List (V3 α)) (x : V3 α) (r : α) (resids : List α) :
    Except String (Ball α) := do
  let extent := extent verts
  if (← residGuard verts.length thresh resids (q 1 100000000 * sqr extent)) then throw "RuntimeError"
  mkBall r x

def insphere (verts : List (V3 α)) (x : V3 α) (r : α) (resids : List α) : Except String (Ball α) :=
  inBall 4 verts x r resids

def incircle (verts : List (V3 α)) (x : V3 α) (r : α) (resids : List α) : Except String (Ball α) :=
  inBall 3 verts x r resids

/-! ### rowan quaternions (`multiply`, `conjugate`, `rotate`) -/

structure Quat (α : Type) where
  w : α
  v : V3 α

namespace Quat
/-- `rowan.multiply`: `w = qi0*qj0 - sum(qi[1:]*qj[1:])`,
    `v = qi0*qj[1:] + qj0*qi[1:] + cross(qi[1:], qj[1:])` -/
def mul (qi qj : Quat α) : Quat α :=
  ⟨qi.w * qj.w - V3.dot qi.v qj.v,
   V3.smul qi.w qj.v + V3.smul qj.w qi.v + V3.cross qi.v qj.v⟩
/-- `rowan.conjugate` -/
def conj (p : Quat α) : Quat α := ⟨p.w, -p.v⟩
/-- `_promote_vec(v)` -/
def ofVec (v : V3 α) : Quat α := ⟨lit 0, v⟩
/-- `rowan.rotate(q, v) = multiply(q, multiply(promote(v), conjugate(q)))[1:]` -/
def rotate (p : Quat α) (v : V3 α) : V3 α := (mul p (mul (ofVec v) (conj p))).v
/-- `[1, 0, 0, 0]` -/
def one : Quat α := ⟨lit 1, V3.zero⟩
def normSq (p : Quat α) : α := p.w * p.w + V3.dot p.v p.v
end Quat

/-! ### minimal bounding ball: miniball under a retry loop -/

/-- the `while attempt < max_attempts: … else: raise RuntimeError` loop (as repaired: every retry
    rotates the ORIGINAL vertices). `fuel = max_attempts - attempt`. Returns
    `(center, r2, current_rotation)` at the `break`. -/
def mbLoop (mb : Nat → List (V3 α) → Option (V3 α × α)) (rand : Nat → Quat α) (V : List (V3 α)) :
    (fuel attempt : Nat) → (cur : Quat α) → (verts : List (V3 α)) →
      Except String (V3 α × α × Quat α)
  | 0, _, _, _ => .error "RuntimeError"
  | fuel + 1, attempt, cur, verts =>
    let attempt := attempt + 1
    match mb attempt verts with
    | some (c, r2) => .ok (c, r2, cur)
    | none =>
      let cur := rand attempt
      mbLoop mb rand V fuel attempt cur (V.map (Quat.rotate cur))

/-- `max_attempts = 50` (500eda1; it was 10) -/
def maxAttempts : Nat := 50

/-- the loop and the tail of `minimal_bounding_circle/sphere` around an arbitrary `try` block
`attempt : attempt number → points → Option (centre, r²)` (`none` = the block raised `LinAlgError`) -/
def minimalBoundingWith (attempt : Nat → List (V3 α) → Option (V3 α × α)) (rand : Nat → Quat α)
    (V : List (V3 α)) : Except String (Ball α) := do
  let (c, r2, cur) ← mbLoop attempt rand V maxAttempts 0 Quat.one V
  let center := Quat.rotate (Quat.conj cur) c
  mkBall (Scalar.sqrt r2) center

/-! ### `coxeter/shapes/utils.py::_is_minimal_bounding_ball` (repair da3be45)

`scipy.optimize.nnls(a, b)` is external: it enters as a function of the data that determine `a`
(the boundary points, the centre, `r2`) returning `(weights, residual)`; the code uses only the
residual. The three tolerances of the code are parameters of `isMinimalBoundingBallTol`, so that the
exact-arithmetic version (all tolerances `0`) can be stated. -/

/-- `np.isfinite(x)` (`x - x == 0` fails exactly for `inf` / `nan`; always true over ℚ, ℝ) -/
def isFinite (x : α) : Bool := Scalar.eqb (x - x) (lit 0)

/-- `on_boundary = points[d2 >= r2 * (1 - 1e-6)]` -/
def onBoundary (τb : α) (points : List (V3 α)) (center : V3 α) (r2 : α) : List (V3 α) :=
  points.filter fun p => decide (r2 * (lit 1 - τb) ≤ V3.normSq (p - center))

/-- `‖a w − b‖²` for `a = vstack([(on_boundary − center).T / sqrt(r2), ones])`, `b = (0,0,0,1)`:
`‖Σ w_i (p_i − c)‖² / r2 + (Σ w_i − 1)²` (weights paired with the boundary points in order) -/
def nnlsResidSq (bd : List (V3 α)) (center : V3 α) (r2 : α) (w : List α) : α :=
  let sup := List.zip w bd
  V3.normSq (V3.sum (sup.map fun s => V3.smul s.1 (s.2 - center))) / r2
    + sqr (Scalar.sum (sup.map (·.1)) - lit 1)

def isMinimalBoundingBallTol (τc τb τr : α) (nnls : List (V3 α) → V3 α → α → List α × α)
    (points : List (V3 α)) (center : V3 α) (r2 : α) : Bool :=
  let d2 := points.map fun p => V3.normSq (p - center)
  -- if not np.all(np.isfinite(d2)) or not np.isfinite(r2) or r2 < 0: return False
  if !(d2.all isFinite) || !(isFinite r2) || decide (r2 < lit 0) then false
  -- if r2 == 0: return bool(np.all(d2 == 0))
  else if Scalar.eqb r2 (lit 0) then d2.all fun d => Scalar.eqb d (lit 0)
  -- if np.max(d2) > r2 * (1 + 1e-8): return False
  else if r2 * (lit 1 + τc) < listMax d2 then false
  else
    let on_boundary := onBoundary τb points center r2
    -- if len(on_boundary) == 0: return False
    if on_boundary.isEmpty then false
    -- _, residual = nnls(a, b); return bool(residual <= 1e-6)
    else decide ((nnls on_boundary center r2).2 ≤ τr)

/-- the tolerances of the code: `1e-8`, `1e-6`, `1e-6` -/
def isMinimalBoundingBall (nnls : List (V3 α) → V3 α → α → List α × α)
    (points : List (V3 α)) (center : V3 α) (r2 : α) : Bool :=
  isMinimalBoundingBallTol (q 1 100000000) (q 1 1000000) (q 1 1000000) nnls points center r2

/-- the `try` block of the repaired loop:
`center, r2 = miniball.get_bounding_ball(vertices)`;
`if not _is_minimal_bounding_ball(vertices, center, r2): raise np.linalg.LinAlgError(...)`.
`none` = `LinAlgError` (raised by miniball or by the test) -/
def tryBlockTol (τc τb τr : α) (mb : Nat → List (V3 α) → Option (V3 α × α))
    (nnls : Nat → List (V3 α) → V3 α → α → List α × α) : Nat → List (V3 α) → Option (V3 α × α) :=
  fun attempt verts =>
    match mb attempt verts with
    | some (c, r2) =>
      if isMinimalBoundingBallTol τc τb τr (nnls attempt) verts c r2 then some (c, r2) else none
    | none => none

def minimalBoundingTol (τc τb τr : α) (mb : Nat → List (V3 α) → Option (V3 α × α))
    (nnls : Nat → List (V3 α) → V3 α → α → List α × α) (rand : Nat → Quat α) (V : List (V3 α)) :
    Except String (Ball α) :=
  minimalBoundingWith (tryBlockTol τc τb τr mb nnls) rand V

/-- `Polygon.minimal_bounding_circle` / `Polyhedron.minimal_bounding_sphere` (as repaired in da3be45) -/
def minimalBounding (mb : Nat → List (V3 α) → Option (V3 α × α))
    (nnls : Nat → List (V3 α) → V3 α → α → List α × α) (rand : Nat → Quat α) (V : List (V3 α)) :
    Except String (Ball α) :=
  minimalBoundingTol (q 1 100000000) (q 1 1000000) (q 1 1000000) mb nnls rand V

/-! ### curved shapes -/

/-- `Circle`: `minimal_bounding_circle`, `minimal_centered_bounding_circle`,
    `maximal_bounding_circle` (misnamed, kept), `maximal_bounded_circle`,
    `maximal_centered_bounded_circle` — all `Circle(self.radius, self.centroid)`;
    `Sphere`: the four `…_sphere` getters — all `Sphere(self.radius, self.centroid)` -/
def roundBall (radius : α) (cen : V3 α) : Except String (Ball α) := mkBall radius cen

/-- `Ellipse.minimal_(centered_)bounding_circle`: `Circle(max(self.a, self.b), self.centroid)` -/
def ellipseBounding (a b : α) (cen : V3 α) : Except String (Ball α) := mkBall (Scalar.max a b) cen
/-- `Ellipse.maximal_(centered_)bounded_circle`: `Circle(min(self.a, self.b), self.centroid)` -/
def ellipseBounded (a b : α) (cen : V3 α) : Except String (Ball α) := mkBall (Scalar.min a b) cen
/-- `Ellipsoid.minimal_(centered_)bounding_sphere`: `Sphere(max(a, b, c), centroid)` -/
def ellipsoidBounding (a b c : α) (cen : V3 α) : Except String (Ball α) :=
  mkBall (Scalar.max (Scalar.max a b) c) cen
/-- `Ellipsoid.maximal_(centered_)bounded_sphere`: `Sphere(min(a, b, c), centroid)` -/
def ellipsoidBounded (a b c : α) (cen : V3 α) : Except String (Ball α) :=
  mkBall (Scalar.min (Scalar.min a b) c) cen

/-! ### glue: `*_radius` getters, base-class getters, deprecated aliases -/

/-- every `<ball>_radius` getter: `return self.<ball>.radius` (an exception of the ball getter
propagates unchanged) -/
def radiusOf (b : Except String (Ball α)) : Except String α :=
  match b with
  | .ok B => .ok B.radius
  | .error e => .error e

/-- the ball getters of `Shape2D` / `Shape3D` that a class does not override
(e.g. `Polygon.maximal_centered_bounded_circle`, `Polyhedron.maximal_bounded_sphere`):
`raise NotImplementedError(...)` -/
def notImplemented : Except String (Ball α) := .error "NotImplementedError"

/-- the deprecated aliases (`bounding_sphere`, `bounding_circle`, `insphere_from_center`,
`circumsphere_from_center`, `incircle_from_center`, and `Circle.maximal_bounding_circle`):
`warnings.warn(...)`, then `return self.<new name>` -/
def deprecatedAlias (b : Except String (Ball α)) : Except String (Ball α) := b

end Balls
