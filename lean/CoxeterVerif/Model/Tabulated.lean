/-!
  Model of `coxeter/families/tabulated_shape_family.py` (`TabulatedGSDShapeFamily`),
  the `ConvexPolyhedron` branch of `shape_getters.from_gsd_type_shapes`, and
  `coxeter/families/doi_data_repositories.py` (`_KeyedDefaultDict`,
  `_doi_shape_collection_factory`).  No Mathlib.

  The vertex payload is abstract (`V`): the families only route it from the table to the
  constructor.  The concrete tables are generated from /repo's JSON into
  `Generated/Tables*.lean` as `Tab.Entry` values over integers scaled by 10¹⁸.
-/
namespace Tab

/-! ### data carried by the generated tables -/

/-- a vertex, coordinates × 10¹⁸ (the JSON decimals are exact at that scale) -/
structure P3 where
  x : Int
  y : Int
  z : Int
deriving DecidableEq, Repr

/-- one record of a JSON table + the face certificate the implementation built for it in the
    run that generated the file (`family.get_shape(name).faces`).  `source`/`ref` are the
    `"source"` and `"name"` fields of a DOI-repository record (`""` when absent/null; `ref` is
    recorded whether or not the record has a `source`). -/
structure Entry where
  name : String
  type : String
  verts : List P3
  faces : List (List Nat)
  source : String := ""
  ref : String := ""
  /-- `short_name` / `short_code` of the record (`""` when absent) -/
  short : String := ""
deriving Repr

/-! ### `from_gsd_type_shapes` (the branches a table record can reach) -/

/-- a GSD shape specification as stored in a table: `type`, `vertices`, and whether the
    optional `rounding_radius` key is present (all other keys are ignored by the code) -/
structure GsdSpec (V : Type) where
  type : Option String
  verts : V
  rounding : Bool := false

/-- result classes of `from_gsd_type_shapes` that a record with `vertices` can produce -/
inductive Shape (V : Type) where
  | convexPolyhedron (verts : V)
  | convexSpheropolyhedron (verts : V)
  | otherClass (type : String) (verts : V)
deriving DecidableEq, Repr

/-- `from_gsd_type_shapes(params)`:
    `"type" not in params → ValueError`; `Sphere/Ellipsoid/Polygon/Mesh` → other classes;
    `ConvexPolyhedron` → `ConvexSpheropolyhedron` when `rounding_radius` is present, else
    `ConvexPolyhedron(params["vertices"])`; anything else → `ValueError("Unsupported…")`. -/
def fromGsd {V : Type} (p : GsdSpec V) : Except String (Shape V) :=
  match p.type with
  | none => .error "ValueError"
  | some t =>
    if t = "Sphere" ∨ t = "Ellipsoid" ∨ t = "Polygon" ∨ t = "Mesh" then
      .ok (.otherClass t p.verts)
    else if t = "ConvexPolyhedron" then
      if p.rounding then .ok (.convexSpheropolyhedron p.verts)
      else .ok (.convexPolyhedron p.verts)
    else .error "ValueError"

/-! ### `TabulatedGSDShapeFamily` -/

/-- `self._data`: the JSON object as an insertion-ordered dict (keys in file order) -/
structure Family (V : Type) where
  data : List (String × GsdSpec V)

variable {V : Type}

/-- `names` = `[*data.keys()]` -/
def Family.names (f : Family V) : List String := f.data.map Prod.fst

/-- `self.data[name]` of a Python dict: first (only) binding, `KeyError` when absent -/
def dictGet {β : Type} : List (String × β) → String → Except String β
  | [], _ => .error "KeyError"
  | (k, v) :: rest, key => if k = key then .ok v else dictGet rest key

/-- `get_shape(name)` = `from_gsd_type_shapes(self.data[name])` -/
def Family.getShape (f : Family V) (name : String) : Except String (Shape V) :=
  match dictGet f.data name with
  | .error e => .error e
  | .ok spec => fromGsd spec

/-- the generator `__iter__`: `for key in self.names: yield (key, self.get_shape(key))`,
    written as the loop it is (recursion over the remaining names) -/
def Family.iterFrom (f : Family V) : List String → List (String × Except String (Shape V))
  | [] => []
  | key :: rest => (key, f.getShape key) :: f.iterFrom rest

def Family.iter (f : Family V) : List (String × Except String (Shape V)) :=
  f.iterFrom f.names

/-- a generated table seen as the family the loader builds from it
    (`_from_json_file`: `cls(data=json.load(f))`) -/
def familyOf (t : List Entry) : Family (List P3) :=
  ⟨t.map fun e => (e.name, { type := some e.type, verts := e.verts })⟩

/-! ### several families in one process (histories)

`get_shape` and `__iter__` read `self.data` / `self.names` only and assign nothing: neither an
instance attribute nor a class attribute of `TabulatedGSDShapeFamily` is written after `__init__`
(there is no cache — not per instance and not on the class), and `from_gsd_type_shapes` builds a new
object on every call.  A step therefore returns the world it was given. -/

/-- every tabulated family that exists in the process: the module-level singletons
    (`PlatonicFamily` …, the repository family) and any `TabulatedGSDShapeFamily(data)` a user makes -/
structure World (V : Type) where
  fams : List (Family V)

/-- what a user can ask of family number `fam` -/
inductive Step where
  | get (fam : Nat) (name : String)
  | iter (fam : Nat)
deriving Repr

/-- one step: the answers it produces (one for `get`, one per name for `iter`) and the world after -/
def World.step (w : World V) : Step → World V × List (Except String (Shape V))
  | .get i name =>
    (w, match w.fams[i]? with
        | some f => [f.getShape name]
        | none => [])
  | .iter i =>
    (w, match w.fams[i]? with
        | some f => f.iter.map Prod.snd
        | none => [])

/-- a history of steps, threaded through the world -/
def World.run (w : World V) : List Step → World V × List (List (Except String (Shape V)))
  | [] => (w, [])
  | s :: rest =>
    let r := w.step s
    let rr := r.1.run rest
    (rr.1, r.2 :: rr.2)

/-! ### live iterators

`__iter__` is a generator function: every call of `iter(family)` creates a NEW generator object whose
frame holds its own position in `self.names`; the family object holds no cursor.  A live iterator is
modelled by the names it still has to yield (`done` is a ghost log of what it has yielded). -/

structure LiveIter (V : Type) where
  fam : Nat
  done : List (String × Except String (Shape V))
  rest : List String

/-- what a user can do while iterations are alive -/
inductive IStep where
  | start (fam : Nat)            -- `it = iter(family)`; the new iterator gets the next free number
  | next (it : Nat)              -- `next(it)`
  | get (fam : Nat) (name : String)
  | len (fam : Nat)              -- `len(family.names)`
deriving Repr

/-- answers of the interleaved steps -/
inductive IAnswer (V : Type) where
  | started (it : Nat)
  | item (key : String) (shape : Except String (Shape V))
  | stop                          -- StopIteration
  | shape (s : Except String (Shape V))
  | count (n : Nat)
  | none                          -- no such family / iterator

structure IState (V : Type) where
  world : World V
  iters : List (LiveIter V)

/-- replace element `k` of a list -/
def setNth {β : Type} : List β → Nat → β → List β
  | [], _, _ => []
  | _ :: t, 0, b => b :: t
  | a :: t, k + 1, b => a :: setNth t k b

def IState.step (s : IState V) : IStep → IState V × IAnswer V
  | .start i =>
    let names := match s.world.fams[i]? with
      | some f => f.names
      | none => []
    ({ s with iters := s.iters ++ [⟨i, [], names⟩] }, .started s.iters.length)
  | .next k =>
    match s.iters[k]? with
    | none => (s, .none)
    | some it =>
      match it.rest with
      | [] => (s, .stop)
      | key :: rest =>
        let shape := match s.world.fams[it.fam]? with
          | some f => f.getShape key
          | none => .error "KeyError"
        ({ s with iters := setNth s.iters k ⟨it.fam, it.done ++ [(key, shape)], rest⟩ }, .item key shape)
  | .get i name =>
    (s, match s.world.fams[i]? with
        | some f => .shape (f.getShape name)
        | none => .none)
  | .len i =>
    (s, match s.world.fams[i]? with
        | some f => .count f.names.length
        | none => .none)

def IState.run (s : IState V) : List IStep → IState V × List (IAnswer V)
  | [] => (s, [])
  | st :: rest =>
    let r := s.step st
    let rr := r.1.run rest
    (rr.1, r.2 :: rr.2)

/-! ### `_KeyedDefaultDict` + `_doi_shape_collection_factory` -/

/-- what the factory appends per DOI: tabulated families read from files, then family classes -/
inductive RepoItem where
  | tabulated (file : String)
  | familyClass (cls : String)
deriving DecidableEq, Repr

/-- the two module-level dicts `_DOI_TO_FILE`, `_DOI_TO_FAMILY` -/
structure DoiMaps where
  toFile : List (String × List String)
  toFamily : List (String × List String)

/-- `doi in d` then `d[doi]`, else nothing -/
def lookupOr {β : Type} (d : List (String × List β)) (k : String) : List β :=
  match dictGet d k with
  | .ok v => v
  | .error _ => []

/-- `_doi_shape_collection_factory(doi)`: files first, then classes; empty → `KeyError` -/
def factory (m : DoiMaps) (doi : String) : Except String (List RepoItem) :=
  let families := (lookupOr m.toFile doi).map RepoItem.tabulated
    ++ (lookupOr m.toFamily doi).map RepoItem.familyClass
  if families.isEmpty then .error "KeyError" else .ok families

/-- `_KeyedDefaultDict.__getitem__`: a present key is returned from the store; a missing key
    calls `__missing__`, which stores `default_factory(key)` (nothing is stored when the factory
    raises) -/
def keyedGet (m : DoiMaps) (store : List (String × List RepoItem)) (key : String) :
    Except String (List RepoItem) × List (String × List RepoItem) :=
  match dictGet store key with
  | .ok v => (.ok v, store)
  | .error _ =>
    match factory m key with
    | .error e => (.error e, store)
    | .ok v => (.ok v, store ++ [(key, v)])

/-- a sequence of lookups through ONE `_KeyedDefaultDict` (the store is threaded) -/
def keyedRun (m : DoiMaps) (store : List (String × List RepoItem)) :
    List String → List (Except String (List RepoItem)) × List (String × List RepoItem)
  | [] => ([], store)
  | k :: rest =>
    let r := keyedGet m store k
    let rr := keyedRun m r.2 rest
    (r.1 :: rr.1, rr.2)

end Tab
