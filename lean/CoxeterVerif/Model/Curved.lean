import CoxeterVerif.Vec
import CoxeterVerif.Model.ConvexPolyhedron
/-!
  Model of the measure getters of `coxeter/shapes/{circle,ellipse,sphere,ellipsoid}.py`, of
  `Shape2D.polar_moment_inertia / inertia_tensor / iq` and `Shape3D.iq` (base_classes.py) and of
  `utils.translate_inertia_tensor` (shared with C01: `CP.translateInertia`).
  Same formulas, same branch structure, same constants, same statement order as the Python.
  No Mathlib.

  External library functions are explicit arguments:
    `ellipe  : α → α`       = `scipy.special.ellipe(m)`        (complete, 2nd kind, parameter m)
    `einc    : α → α → α`   = `scipy.special.ellipeinc(phi,m)` (incomplete, 2nd kind)
    `kinc    : α → α → α`   = `scipy.special.ellipkinc(phi,m)` (incomplete, 1st kind)
  A shape is its attribute tuple: radius / (a,b) / (a,b,c) and the stored centroid `cen`.
-/
namespace Curved
variable {α : Type} [Scalar α]
open Scalar

/-- the setters `radius`, `a`, `b`, `c`: `if value > 0: store else: raise ValueError` -/
def validate (vals : List α) : Except String Unit :=
  vals.foldl (fun acc v => do acc; if lit 0 < v then pure () else throw "ValueError") (pure ())

/-- `sorted([x, y])` (values; ties keep the order, which is invisible on values) -/
def sort2 (x y : α) : α × α := if y < x then (y, x) else (x, y)

/-- `sorted([x, y, z])` as an insertion network on values: returns `(small, mid, large)` -/
def sort3 (x y z : α) : α × α × α :=
  let p := sort2 x y
  let r := sort2 p.2 z
  let s := sort2 p.1 r.1
  (s.1, s.2, r.2)

/-- diagonal matrix `np.diag([x, y, z])` -/
def diag (x y z : α) : M3 α := ⟨x, lit 0, lit 0, lit 0, y, lit 0, lit 0, lit 0, z⟩

/-- `Shape2D.iq` : `4 * np.pi * self.area / (self.perimeter**2)` -/
def iq2 (area perimeter : α) : α := lit 4 * pi * area / sqr perimeter

/-- `Shape3D.iq` : `np.pi * 36 * self.volume**2 / (self.surface_area**3)` -/
def iq3 (volume surface : α) : α := pi * lit 36 * sqr volume / cube surface

/-- `Shape2D.polar_moment_inertia` : `np.sum(self.planar_moments_inertia[:2])` -/
def polarOf (m : α × α × α) : α := m.1 + m.2.1

/-- `Shape2D.inertia_tensor` : `np.diag([0, 0, self.polar_moment_inertia])` -/
def inertia2D (polar : α) : M3 α := diag (lit 0) (lit 0) polar

/-! ### Circle -/
namespace Circle
/-- `np.pi * self.radius**2` -/
def area (r : α) : α := pi * sqr r
/-- `return 0` -/
def eccentricity (_r : α) : α := lit 0
/-- `2 * np.pi * self.radius` -/
def perimeter (r : α) : α := lit 2 * pi * r
/-- `return self.perimeter` -/
def circumference (r : α) : α := perimeter r
/-- `planar_moments_inertia` exactly as coded: `i_x += area*centroid[0]**2`,
    `i_y += area*centroid[1]**2`, `i_xy += area*centroid[0]*centroid[1]` -/
def planarMoments (r : α) (cen : V3 α) : α × α × α :=
  let area := area r
  let i_x := area / lit 4 * sqr r
  let i_y := i_x
  let i_xy : α := lit 0
  let i_x := i_x + area * sqr cen.x
  let i_y := i_y + area * sqr cen.y
  let i_xy := i_xy + area * cen.x * cen.y
  (i_x, i_y, i_xy)
def polarMoment (r : α) (cen : V3 α) : α := polarOf (planarMoments r cen)
def inertiaTensor (r : α) (cen : V3 α) : M3 α := inertia2D (polarMoment r cen)
/-- `return 1` -/
def iq (_r : α) : α := lit 1
end Circle

/-! ### Ellipse -/
namespace Ellipse
/-- `np.pi * self.a * self.b` -/
def area (a b : α) : α := pi * a * b
/-- `b, a = sorted([self.a, self.b]); e = np.sqrt(1 - b**2 / a**2)` -/
def eccentricity (a b : α) : α :=
  let s := sort2 a b
  let b' := s.1
  let a' := s.2
  Scalar.sqrt (lit 1 - sqr b' / sqr a')
/-- the argument handed to `ellipe`: `self.eccentricity**2` -/
def ellipeArg (a b : α) : α := sqr (eccentricity a b)
/-- `b, a = sorted([self.a, self.b]); result = 4 * a * ellipe(self.eccentricity**2)` -/
def perimeter (ellipe : α → α) (a b : α) : α :=
  let s := sort2 a b
  let a' := s.2
  lit 4 * a' * ellipe (ellipeArg a b)
def circumference (ellipe : α → α) (a b : α) : α := perimeter ellipe a b
/-- `planar_moments_inertia` exactly as coded (`i_x = area/4*b**2`, `i_y = area/4*a**2`, then the
    same three parallel-axis statements as `Circle`) -/
def planarMoments (a b : α) (cen : V3 α) : α × α × α :=
  let area := area a b
  let i_x := area / lit 4 * sqr b
  let i_y := area / lit 4 * sqr a
  let i_xy : α := lit 0
  let i_x := i_x + area * sqr cen.x
  let i_y := i_y + area * sqr cen.y
  let i_xy := i_xy + area * cen.x * cen.y
  (i_x, i_y, i_xy)
def polarMoment (a b : α) (cen : V3 α) : α := polarOf (planarMoments a b cen)
def inertiaTensor (a b : α) (cen : V3 α) : M3 α := inertia2D (polarMoment a b cen)
/-- `np.min([4 * np.pi * self.area / (self.perimeter**2), 1])` -/
def iq (ellipe : α → α) (a b : α) : α :=
  Scalar.min (iq2 (area a b) (perimeter ellipe a b)) (lit 1)
end Ellipse

/-! ### Sphere -/
namespace Sphere
/-- `2 * self._radius` -/
def diameter (r : α) : α := lit 2 * r
/-- `(4 / 3) * np.pi * self.radius**3` -/
def volume (r : α) : α := q 4 3 * pi * cube r
/-- `4 * np.pi * self.radius**2` -/
def surfaceArea (r : α) : α := lit 4 * pi * sqr r
/-- `vol = self.volume; i_xx = vol * 2 / 5 * self.radius**2; np.diag([i_xx]*3);
    translate_inertia_tensor(self.centroid, inertia_tensor, vol)` -/
def inertiaTensor (r : α) (cen : V3 α) : M3 α :=
  let vol := volume r
  let i_xx := vol * lit 2 / lit 5 * sqr r
  CP.translateInertia cen (diag i_xx i_xx i_xx) vol
/-- `return 1` -/
def iq (_r : α) : α := lit 1
end Sphere

/-! ### Ellipsoid -/
namespace Ellipsoid
/-- `(4 / 3) * np.pi * self.a * self.b * self.c` -/
def volume (a b c : α) : α := q 4 3 * pi * a * b * c

/-- `phi = np.arccos(c / a)` (sorted axes) -/
def saPhi (a c : α) : α := Scalar.acos (c / a)
/-- `m = (a**2 * (b**2 - c**2)) / (b**2 * (a**2 - c**2))` (sorted axes) -/
def saM (a b c : α) : α := (sqr a * (sqr b - sqr c)) / (sqr b * (sqr a - sqr c))

/-- the `elliptic_part` of `surface_area` for sorted axes `a ≥ b ≥ c` -/
def ellipticPart (einc kinc : α → α → α) (a b c : α) : α :=
  if c < a then
    let phi := saPhi a c
    -- as repaired: `m = min(m, 1.0)` guards the elliptic integrals against rounding above 1
    let m := Scalar.min (saM a b c) (lit 1)
    let e := einc phi m * sqr (Scalar.sin phi)
    let e := e + kinc phi m * sqr (Scalar.cos phi)
    e / Scalar.sin phi
  else lit 1

/-- `surface_area`: `c, b, a = sorted([a, b, c])`, branch `if a > c`,
    `result = 2 * np.pi * (c**2 + a * b * elliptic_part)` -/
def surfaceArea (einc kinc : α → α → α) (a b c : α) : α :=
  let s := sort3 a b c
  let c' := s.1
  let b' := s.2.1
  let a' := s.2.2
  lit 2 * pi * (sqr c' + a' * b' * ellipticPart einc kinc a' b' c')

/-- `vol/5*(b²+c²)`, `vol/5*(a²+c²)`, `vol/5*(a²+b²)`, `np.diag`, `translate_inertia_tensor` -/
def inertiaTensor (a b c : α) (cen : V3 α) : M3 α :=
  let vol := volume a b c
  let i_xx := vol / lit 5 * (sqr b + sqr c)
  let i_yy := vol / lit 5 * (sqr a + sqr c)
  let i_zz := vol / lit 5 * (sqr a + sqr b)
  CP.translateInertia cen (diag i_xx i_yy i_zz) vol

/-- inherited `Shape3D.iq` -/
def iq (einc kinc : α → α → α) (a b c : α) : α :=
  iq3 (volume a b c) (surfaceArea einc kinc a b c)
end Ellipsoid

/-! ### attribute state, setters and histories

The four classes keep nothing but their attributes (`_radius` / `_a,_b[,_c]`, `_centroid`): every getter above is a
function of them and no getter writes anything.  A shape reached through its setters is therefore the same as the
freshly constructed one; this is the state machine the harness drives the implementation through (construct, read
everything, assign axes / centre in any order, failed assignments, `to_hoomd`). -/

/-- the attributes (`radius` of Circle/Sphere is `a`; unused axes of the 1- and 2-axis classes are never read) -/
structure St (α : Type) where
  a : α
  b : α
  c : α
  cen : V3 α

inductive Step (α : Type) where
  /-- `shape.a = v` / `shape.radius = v` -/
  | setA (v : α)
  /-- `shape.b = v` -/
  | setB (v : α)
  /-- `shape.c = v` -/
  | setC (v : α)
  /-- `shape.centroid = q` / `shape.center = q` -/
  | setCen (q : V3 α)
  /-- any property getter -/
  | read
  /-- `to_hoomd()` (Sphere, Ellipsoid): `old = self.centroid; self.centroid = [0,0,0]; ...; self.centroid = old` -/
  | toHoomd

/-- one statement; the axis setters are `if value > 0: self._x = value else: raise ValueError` -/
def St.apply (s : St α) : Step α → Except String (St α)
  | .setA v => if lit 0 < v then pure { s with a := v } else throw "ValueError"
  | .setB v => if lit 0 < v then pure { s with b := v } else throw "ValueError"
  | .setC v => if lit 0 < v then pure { s with c := v } else throw "ValueError"
  | .setCen q => pure { s with cen := q }
  | .read => pure s
  | .toHoomd =>
      let old := s.cen
      let s1 : St α := { s with cen := ⟨lit 0, lit 0, lit 0⟩ }
      pure { s1 with cen := old }

/-- a raising statement leaves the object as it was (the `raise` precedes the assignment) -/
def St.step (s : St α) (st : Step α) : St α :=
  match s.apply st with
  | .ok s' => s'
  | .error _ => s

/-- did the statement raise? -/
def St.raises (s : St α) (st : Step α) : Bool :=
  match s.apply st with
  | .ok _ => false
  | .error _ => true

def St.run (s : St α) (steps : List (Step α)) : St α := steps.foldl St.step s

/-- which statements of a history raise -/
def St.trace (s : St α) : List (Step α) → List Bool
  | [] => []
  | st :: rest => s.raises st :: (s.step st).trace rest

/-- `__init__`: the axis setters in order `a, b, c` (those the class has), then the centroid -/
def construct (axes : List α) (cen : V3 α) : Except String (St α) := do
  validate axes
  pure ⟨axes.getD 0 (lit 1), axes.getD 1 (lit 1), axes.getD 2 (lit 1), cen⟩

end Curved
