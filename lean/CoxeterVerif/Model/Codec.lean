import CoxeterVerif.Vec
import CoxeterVerif.Model.ConvexPolyhedron
import CoxeterVerif.Model.Polyhedron
import CoxeterVerif.Model.Polygon
/-!
  # Model of the representation code of coxeter (property C19)

  Mirrors, statement by statement,
  * `gsd_shape_spec` and `__repr__` of the ten shape classes (`coxeter/shapes/*.py`),
  * `coxeter/shape_getters.py: from_gsd_type_shapes` (dispatch order, `except ValueError` fallback),
  * `Shape.to_json` (`coxeter/shapes/base_classes.py`),
  * `_map_dict_keys`, `_hoomd_dict_mapping` (`coxeter/shapes/utils.py`),
  * `to_hoomd` of `Polygon`, `Polyhedron` (inherited by the convex classes), `ConvexSpheropolygon`,
    `ConvexSpheropolyhedron`, `Sphere`, `Ellipsoid` — AS CODED (the spheropolygon never centres).

  Numbers are values of an arbitrary `Scalar α`; the only arithmetic the code performs on them is
  `2 * radius`, `diameter / 2`, `value > 0`, `value >= 0`, `vertices += value - centroid`,
  and the normal from the first three vertices. Python dicts are insertion ordered association
  lists. Python `raise` → `Except String` with the exception class name.

  Calls that leave this code (Qhull, Bentley–Ottmann, lexsort/arctan2, the measure properties) are
  explicit arguments: `Ext` (constructor checks) and `Meas` (centroid and measure getters).
  No Mathlib.
-/
namespace C19
open Scalar

/-! ## values, dicts -/

/-- what a dict value / keyword argument can be -/
inductive Val (α : Type) where
  | str (s : String)
  | num (x : α)
  /-- flat list of numbers (`centroid`, `normal`, `center`) -/
  | vec (v : List α)
  /-- list of rows (`vertices.tolist()`, a copied vertex array, an inertia tensor) -/
  | mat (m : List (List α))
  /-- list of index lists (`faces`, `indices`) -/
  | idx (f : List (List Nat))
  /-- the shape's LIVE vertex array object (what `getattr(self, "vertices")` returns): its content is
      whatever the shape's vertices are when the caller looks at it -/
  | live

/-- insertion ordered Python dict -/
abbrev Dict (α : Type) := List (String × Val α)

namespace Dict
variable {α : Type}
/-- `k in d` -/
def has : Dict α → String → Bool
  | [], _ => false
  | (k', _) :: r, k => if k' == k then true else has r k
/-- `d[k]` (none = KeyError) -/
def get? : Dict α → String → Option (Val α)
  | [], _ => none
  | (k', v) :: r, k => if k' == k then some v else get? r k
/-- `d[k] = v` : replaces in place when present, appends otherwise -/
def set : Dict α → String → Val α → Dict α
  | [], k, v => [(k, v)]
  | (k', v') :: r, k, v => if k' == k then (k', v) :: r else (k', v') :: set r k v
def keys (d : Dict α) : List String := d.map (·.1)
end Dict

variable {α : Type}

def Val.isStr : Val α → String → Bool
  | .str s, t => s == t
  | _, _ => false

/-- `params[k]` -/
def getItem (d : Dict α) (k : String) : Except String (Val α) :=
  match Dict.get? d k with
  | some v => .ok v
  | none => .error "KeyError"

/-- a number where arithmetic / comparison is about to be done on it -/
def asNum : Val α → Except String α
  | .num x => .ok x
  | _ => .error "TypeError"

/-- `np.array(vertices, dtype=float64)` followed by the `(N,2)|(N,3)` shape test -/
def asMat : Val α → Except String (List (List α))
  | .mat m => .ok m
  | _ => .error "ValueError"

def asIdx : Val α → Except String (List (List Nat))
  | .idx f => .ok f
  | _ => .error "TypeError"

/-! ## the ten classes -/

inductive Cls where
  | circle | sphere | ellipse | ellipsoid
  | polygon | convexPolygon | spheropolygon
  | polyhedron | convexPolyhedron | spheropolyhedron
deriving DecidableEq, Repr

/-- state of a shape object that the representations expose -/
inductive Shape (α : Type) where
  | circle (r : α) (center : V3 α)
  | sphere (r : α) (center : V3 α)
  | ellipse (a b : α) (center : V3 α)
  | ellipsoid (a b c : α) (center : V3 α)
  | polygon (vs : List (V3 α)) (normal : V3 α)
  | convexPolygon (vs : List (V3 α)) (normal : V3 α)
  | spheropolygon (vs : List (V3 α)) (r : α) (normal : V3 α)
  | polyhedron (vs : List (V3 α)) (faces : List (List Nat))
  | convexPolyhedron (vs : List (V3 α)) (faces : List (List Nat))
  | spheropolyhedron (vs : List (V3 α)) (r : α)

namespace Shape
def cls : Shape α → Cls
  | .circle .. => .circle | .sphere .. => .sphere | .ellipse .. => .ellipse
  | .ellipsoid .. => .ellipsoid | .polygon .. => .polygon | .convexPolygon .. => .convexPolygon
  | .spheropolygon .. => .spheropolygon | .polyhedron .. => .polyhedron
  | .convexPolyhedron .. => .convexPolyhedron | .spheropolyhedron .. => .spheropolyhedron
def verts : Shape α → List (V3 α)
  | .polygon vs _ | .convexPolygon vs _ | .spheropolygon vs _ _ | .polyhedron vs _
  | .convexPolyhedron vs _ | .spheropolyhedron vs _ => vs
  | _ => []
/-- radius / rounding radius / semi-axes -/
def radii : Shape α → List α
  | .circle r _ | .sphere r _ | .spheropolygon _ r _ | .spheropolyhedron _ r => [r]
  | .ellipse a b _ => [a, b]
  | .ellipsoid a b c _ => [a, b, c]
  | _ => []
def faces : Shape α → List (List Nat)
  | .polyhedron _ f | .convexPolyhedron _ f => f
  | _ => []
/-- centre of the curved classes -/
def center? : Shape α → Option (V3 α)
  | .circle _ c | .sphere _ c | .ellipse _ _ c | .ellipsoid _ _ _ c => some c
  | _ => none
/-- normal of the planar classes -/
def normal? : Shape α → Option (V3 α)
  | .polygon _ n | .convexPolygon _ n | .spheropolygon _ _ n => some n
  | _ => none
end Shape

/-- `ndarray.tolist()` of an `(N,3)` array -/
def rows (vs : List (V3 α)) : List (List α) := vs.map fun v => [v.x, v.y, v.z]
/-- `ndarray.tolist()` of a 3-vector -/
def v3list (v : V3 α) : List α := [v.x, v.y, v.z]

variable [Scalar α]

/-! ## `gsd_shape_spec` -/

def gsdSpec : Shape α → Dict α
  | .circle r _ => [("type", .str "Sphere"), ("diameter", .num (lit 2 * r))]
  | .sphere r _ => [("type", .str "Sphere"), ("diameter", .num (lit 2 * r))]
  | .ellipse a b _ => [("type", .str "Ellipsoid"), ("a", .num a), ("b", .num b)]
  | .ellipsoid a b c _ => [("type", .str "Ellipsoid"), ("a", .num a), ("b", .num b), ("c", .num c)]
  | .polygon vs _ => [("type", .str "Polygon"), ("vertices", .mat (rows vs))]
  | .convexPolygon vs _ => [("type", .str "Polygon"), ("vertices", .mat (rows vs))]
  | .spheropolygon vs r _ =>
      [("type", .str "Polygon"), ("vertices", .mat (rows vs)), ("rounding_radius", .num r)]
  | .polyhedron vs f => [("type", .str "Mesh"), ("vertices", .mat (rows vs)), ("indices", .idx f)]
  | .convexPolyhedron vs _ => [("type", .str "ConvexPolyhedron"), ("vertices", .mat (rows vs))]
  | .spheropolyhedron vs r =>
      [("type", .str "ConvexPolyhedron"), ("vertices", .mat (rows vs)), ("rounding_radius", .num r)]

/-! ## constructors (the checks that decide between returning and `ValueError`) -/

/-- answers of the code outside this model, as functions of the vertex array -/
structure Ext (α : Type) where
  /-- `Polygon.__init__` up to the simplicity test: >= 3 rows, no duplicates, coplanar -/
  planarOk : List (V3 α) → Bool
  /-- `_is_simple` (Bentley–Ottmann) -/
  isSimple : List (V3 α) → Bool
  /-- `_is_convex` (all points on the 2-D Qhull hull) -/
  isConvex : List (V3 α) → Bool
  /-- `ConvexPolygon._reorder_verts` (arctan2 + lexsort) -/
  reorder : List (V3 α) → List (V3 α)
  /-- explicit `normal=` is parallel to the computed one (`np.isclose(|dot|, 1)`) -/
  normalOk : List (V3 α) → V3 α → Bool
  /-- `len(hull.vertices) == len(vertices)` in `ConvexPolyhedron.__init__` -/
  hullAll : List (V3 α) → Bool
  /-- the merged, sorted faces `ConvexPolyhedron.__init__` ends with -/
  hullFaces : List (V3 α) → List (List Nat)

/-- a row of the vertex argument: `(N,2)` input is padded with a zero column -/
def rowToV3 : List α → Except String (V3 α)
  | [x, y] => .ok ⟨x, y, lit 0⟩
  | [x, y, z] => .ok ⟨x, y, z⟩
  | _ => .error "ValueError"

def toV3s : List (List α) → Except String (List (V3 α))
  | [] => .ok []
  | r :: rs => do
      let v ← rowToV3 r
      let vs ← toV3s rs
      pure (v :: vs)

/-- `cross(v[2]-v[1], v[0]-v[1])`, normalised (`Polygon.__init__`) -/
def computedNormal : List (V3 α) → V3 α
  | v0 :: v1 :: v2 :: _ =>
      let n := V3.cross (v2 - v1) (v0 - v1)
      V3.sdiv n (V3.norm n)
  | _ => V3.zero

/-- the normal `Polygon.__init__` stores: computed, or the caller's one normalised (after the
    parallelism test) -/
def pickNormal (E : Ext α) (vs : List (V3 α)) : Option (V3 α) → Except String (V3 α)
  | none => .ok (computedNormal vs)
  | some n =>
      let nn := V3.sdiv n (V3.norm n)
      if E.normalOk vs nn then .ok nn else .error "ValueError"

def mkCircle (r : α) (c : V3 α) : Except String (Shape α) :=
  if lit 0 < r then .ok (.circle r c) else .error "ValueError"

def mkSphere (r : α) (c : V3 α) : Except String (Shape α) :=
  if lit 0 < r then .ok (.sphere r c) else .error "ValueError"

def mkEllipse (a b : α) (c : V3 α) : Except String (Shape α) :=
  if lit 0 < a then (if lit 0 < b then .ok (.ellipse a b c) else .error "ValueError")
  else .error "ValueError"

def mkEllipsoid (a b c : α) (cen : V3 α) : Except String (Shape α) :=
  if lit 0 < a then
    (if lit 0 < b then (if lit 0 < c then .ok (.ellipsoid a b c cen) else .error "ValueError")
     else .error "ValueError")
  else .error "ValueError"

/-- `Polygon(vertices, normal)` (test_simple=True) -/
def mkPolygon (E : Ext α) (m : List (List α)) (normal : Option (V3 α)) : Except String (Shape α) := do
  let vs ← toV3s m
  if !E.planarOk vs then .error "ValueError" else
  let n ← pickNormal E vs normal
  if !E.isSimple vs then .error "ValueError" else
  pure (.polygon vs n)

/-- the common part of `ConvexPolygon.__init__`: `Polygon.__init__(test_simple=False)`, `_is_convex`,
    `_reorder_verts`; returns (stored vertices, stored normal) -/
def convexPolygonCore (E : Ext α) (m : List (List α)) (normal : Option (V3 α)) :
    Except String (List (V3 α) × V3 α) := do
  let vs ← toV3s m
  if !E.planarOk vs then .error "ValueError" else
  let n ← pickNormal E vs normal
  if E.isConvex vs then pure (E.reorder vs, n) else .error "ValueError"

def mkConvexPolygon (E : Ext α) (m : List (List α)) (normal : Option (V3 α)) :
    Except String (Shape α) := do
  let (vs, n) ← convexPolygonCore E m normal
  pure (.convexPolygon vs n)

/-- `ConvexSpheropolygon(vertices, radius, normal)`: radius setter first, then the polygon -/
def mkSpheropolygon (E : Ext α) (m : List (List α)) (r : α) (normal : Option (V3 α)) :
    Except String (Shape α) :=
  if lit 0 ≤ r then do
    let (vs, n) ← convexPolygonCore E m normal
    -- `_is_convex(self.vertices, normal)` is asked a second time about the stored vertices
    if E.isConvex vs then pure (.spheropolygon vs r n) else .error "ValueError"
  else .error "ValueError"

def mkPolyhedron (m : List (List α)) (f : List (List Nat)) : Except String (Shape α) := do
  let vs ← toV3s m
  pure (.polyhedron vs f)

def mkConvexPolyhedron (E : Ext α) (m : List (List α)) : Except String (Shape α) := do
  let vs ← toV3s m
  if E.hullAll vs then pure (.convexPolyhedron vs (E.hullFaces vs)) else .error "ValueError"

/-- `ConvexSpheropolyhedron(vertices, radius)`: polyhedron first, then the radius setter -/
def mkSpheropolyhedron (E : Ext α) (m : List (List α)) (r : α) : Except String (Shape α) := do
  let vs ← toV3s m
  if E.hullAll vs then
    (if lit 0 ≤ r then pure (.spheropolyhedron vs r) else .error "ValueError")
  else .error "ValueError"

/-! ## `from_gsd_type_shapes` -/

def fromGsd (E : Ext α) (params : Dict α) (dimensions : Nat) : Except String (Shape α) :=
  if !Dict.has params "type" then .error "ValueError" else do
  let ty ← getItem params "type"
  if ty.isStr "Sphere" then do
    let d ← getItem params "diameter" >>= asNum
    if dimensions == 2 then mkCircle (d / lit 2) V3.zero else mkSphere (d / lit 2) V3.zero
  else if ty.isStr "Ellipsoid" then
    if dimensions == 2 then do
      let a ← getItem params "a" >>= asNum
      let b ← getItem params "b" >>= asNum
      mkEllipse a b V3.zero
    else do
      let a ← getItem params "a" >>= asNum
      let b ← getItem params "b" >>= asNum
      let c ← getItem params "c" >>= asNum
      mkEllipsoid a b c V3.zero
  else if ty.isStr "Polygon" then
    if Dict.has params "rounding_radius" then do
      let m ← getItem params "vertices" >>= asMat
      let r ← getItem params "rounding_radius" >>= asNum
      mkSpheropolygon E m r none
    else
      -- try: ConvexPolygon(params["vertices"])  except ValueError: Polygon(params["vertices"])
      match (do let m ← getItem params "vertices" >>= asMat; mkConvexPolygon E m none) with
      | .error "ValueError" => do
          let m ← getItem params "vertices" >>= asMat
          mkPolygon E m none
      | r => r
  else if ty.isStr "ConvexPolyhedron" then
    if Dict.has params "rounding_radius" then do
      let m ← getItem params "vertices" >>= asMat
      let r ← getItem params "rounding_radius" >>= asNum
      mkSpheropolyhedron E m r
    else do
      let m ← getItem params "vertices" >>= asMat
      mkConvexPolyhedron E m
  else if ty.isStr "Mesh" then do
    let m ← getItem params "vertices" >>= asMat
    let f ← getItem params "indices" >>= asIdx
    mkPolyhedron m f
  else .error "ValueError"

/-! ## `__repr__` and the constructor call it denotes -/

/-- `coxeter.shapes.<Name>(k1=v1, …)` -/
structure Call (α : Type) where
  fn : String
  kwargs : Dict α

def reprCall : Shape α → Call α
  | .circle r c => ⟨"coxeter.shapes.Circle", [("radius", .num r), ("center", .vec (v3list c))]⟩
  | .sphere r c => ⟨"coxeter.shapes.Sphere", [("radius", .num r), ("center", .vec (v3list c))]⟩
  | .ellipse a b c =>
      ⟨"coxeter.shapes.Ellipse", [("a", .num a), ("b", .num b), ("center", .vec (v3list c))]⟩
  | .ellipsoid a b c cen =>
      ⟨"coxeter.shapes.Ellipsoid",
        [("a", .num a), ("b", .num b), ("c", .num c), ("center", .vec (v3list cen))]⟩
  -- ConvexPolygon inherits Polygon.__repr__, which names the base class
  | .polygon vs n =>
      ⟨"coxeter.shapes.Polygon", [("vertices", .mat (rows vs)), ("normal", .vec (v3list n))]⟩
  | .convexPolygon vs n =>
      ⟨"coxeter.shapes.Polygon", [("vertices", .mat (rows vs)), ("normal", .vec (v3list n))]⟩
  | .spheropolygon vs r n =>
      ⟨"coxeter.shapes.ConvexSpheropolygon",
        [("vertices", .mat (rows vs)), ("radius", .num r), ("normal", .vec (v3list n))]⟩
  -- ConvexPolyhedron inherits Polyhedron.__repr__
  | .polyhedron vs f =>
      ⟨"coxeter.shapes.Polyhedron", [("vertices", .mat (rows vs)), ("faces", .idx f)]⟩
  | .convexPolyhedron vs f =>
      ⟨"coxeter.shapes.Polyhedron", [("vertices", .mat (rows vs)), ("faces", .idx f)]⟩
  | .spheropolyhedron vs r =>
      ⟨"coxeter.shapes.ConvexSpheropolyhedron", [("vertices", .mat (rows vs)), ("radius", .num r)]⟩

def asV3 : Val α → Except String (V3 α)
  | .vec [x, y, z] => .ok ⟨x, y, z⟩
  | _ => .error "ValueError"

/-- optional keyword argument -/
def optV3 (kw : Dict α) (k : String) : Except String (Option (V3 α)) :=
  match Dict.get? kw k with
  | none => .ok none
  | some v => do let x ← asV3 v; pure (some x)

/-- required keyword argument (Python: `TypeError: missing required argument`) -/
def reqArg (kw : Dict α) (k : String) : Except String (Val α) :=
  match Dict.get? kw k with
  | some v => .ok v
  | none => .error "TypeError"

/-- evaluate the call syntax `__repr__` emits, in an environment that binds only `coxeter` -/
def evalCall (E : Ext α) (c : Call α) : Except String (Shape α) :=
  let kw := c.kwargs
  if c.fn == "coxeter.shapes.Circle" then do
    let r ← reqArg kw "radius" >>= asNum
    let cen ← optV3 kw "center"
    mkCircle r (cen.getD V3.zero)
  else if c.fn == "coxeter.shapes.Sphere" then do
    let r ← reqArg kw "radius" >>= asNum
    let cen ← optV3 kw "center"
    mkSphere r (cen.getD V3.zero)
  else if c.fn == "coxeter.shapes.Ellipse" then do
    let a ← reqArg kw "a" >>= asNum
    let b ← reqArg kw "b" >>= asNum
    let cen ← optV3 kw "center"
    mkEllipse a b (cen.getD V3.zero)
  else if c.fn == "coxeter.shapes.Ellipsoid" then do
    let a ← reqArg kw "a" >>= asNum
    let b ← reqArg kw "b" >>= asNum
    let cc ← reqArg kw "c" >>= asNum
    let cen ← optV3 kw "center"
    mkEllipsoid a b cc (cen.getD V3.zero)
  else if c.fn == "coxeter.shapes.Polygon" then do
    let m ← reqArg kw "vertices" >>= asMat
    let n ← optV3 kw "normal"
    mkPolygon E m n
  else if c.fn == "coxeter.shapes.ConvexPolygon" then do
    let m ← reqArg kw "vertices" >>= asMat
    let n ← optV3 kw "normal"
    mkConvexPolygon E m n
  else if c.fn == "coxeter.shapes.ConvexSpheropolygon" then do
    let m ← reqArg kw "vertices" >>= asMat
    let r ← reqArg kw "radius" >>= asNum
    let n ← optV3 kw "normal"
    mkSpheropolygon E m r n
  else if c.fn == "coxeter.shapes.Polyhedron" then do
    let m ← reqArg kw "vertices" >>= asMat
    let f ← reqArg kw "faces" >>= asIdx
    mkPolyhedron m f
  else if c.fn == "coxeter.shapes.ConvexPolyhedron" then do
    let m ← reqArg kw "vertices" >>= asMat
    mkConvexPolyhedron E m
  else if c.fn == "coxeter.shapes.ConvexSpheropolyhedron" then do
    let m ← reqArg kw "vertices" >>= asMat
    let r ← reqArg kw "radius" >>= asNum
    mkSpheropolyhedron E m r
  else .error "AttributeError"

/-! ## `to_json`, `_map_dict_keys` -/

/-- `getattr(self, a)`: `AttributeError` unless `a` is in the class's attribute list; a known
    property getter may itself raise (e.g. `NotImplementedError`) -/
def getattrOf (known : List String) (val : String → Except String (Val α)) (a : String) :
    Except String (Val α) :=
  if known.contains a then val a else .error "AttributeError"

/-- `Shape.to_json`: `export = {}; for a in attributes: export.update({a: getattr(self, a)})` -/
def toJson (getattr : String → Except String (Val α)) :
    List String → Dict α → Except String (Dict α)
  | [], exported => .ok exported
  | a :: rest, exported => do
      let v ← getattr a
      toJson getattr rest (Dict.set exported a v)

/-- `_hoomd_dict_mapping` (compared with the imported constant on every run) -/
def hoomdDictMapping : List (String × String) :=
  [("inertia_tensor", "moment_inertia"), ("radius", "sweep_radius")]

/-- `key_mapping.get(key, key)` -/
def mappingGet : List (String × String) → String → String
  | [], k => k
  | (a, b) :: r, k => if a == k then b else mappingGet r k

/-- `{key_mapping.get(key, key): value for key, value in data.items()}` -/
def mapDictKeysFrom (m : List (String × String)) : Dict α → Dict α → Dict α
  | [], acc => acc
  | (k, v) :: r, acc => mapDictKeysFrom m r (Dict.set acc (mappingGet m k) v)

def mapDictKeys (data : Dict α) (m : List (String × String)) : Dict α := mapDictKeysFrom m data []

/-! ## `to_hoomd` -/

/-- measure getters: functions of the shape's current position -/
structure Meas (α : Type) where
  /-- the centroid the class computes from a vertex array -/
  cen : List (V3 α) → V3 α
  /-- value of the float property `name` (`area`, `volume`) when the vertex array is `vs` -/
  scalar : String → List (V3 α) → α
  /-- `inertia_tensor` (rows of the 3×3 array) when the vertex array is `vs` -/
  tensor : List (V3 α) → List (List α)
  /-- float property `name` of a curved shape centred at `c` -/
  scalarC : String → V3 α → α
  /-- `inertia_tensor` of a curved shape centred at `c` -/
  tensorC : V3 α → List (List α)

/-- `Polygon`/`Polyhedron` recompute the centroid on every read; `ConvexPolyhedron` keeps `_centroid` -/
inductive CenKind where
  | recomputed | cached

/-- the mutable part of a polytope object -/
structure PState (α : Type) where
  verts : List (V3 α)
  /-- `ConvexPolyhedron._centroid` -/
  cache : V3 α

def centroidOf (M : Meas α) (k : CenKind) (s : PState α) : V3 α :=
  match k with
  | .recomputed => M.cen s.verts
  | .cached => s.cache

/-- centroid setter: `self._vertices += np.asarray(value) - self.centroid` (in place), and for
    `ConvexPolyhedron` `_centroid_from_triangulated_surface()` afterwards -/
def setCentroid (M : Meas α) (k : CenKind) (s : PState α) (value : V3 α) : PState α :=
  let shift := value - centroidOf M k s
  let vs := s.verts.map fun v => v + shift
  match k with
  | .recomputed => ⟨vs, s.cache⟩
  | .cached => ⟨vs, M.cen vs⟩

/-- `arr.copy()` taken while the shape is in state `s` -/
def copyOf (s : PState α) : Val α → Val α
  | .live => .mat (rows s.verts)
  | v => v

/-- what the caller sees in a returned dict once the shape is in state `s` -/
def resolve (s : PState α) (d : Dict α) : Dict α := d.map fun e => (e.1, copyOf s e.2)

/-- attribute reads during `to_json` inside `to_hoomd` of the vertex based classes -/
def polyGetattr (M : Meas α) (k : CenKind) (radius : α) (faces : List (List Nat)) (s : PState α)
    (a : String) : Except String (Val α) :=
  if a == "vertices" then .ok .live
  else if a == "centroid" then .ok (.vec (v3list (centroidOf M k s)))
  else if a == "faces" then .ok (.idx faces)
  else if a == "radius" then .ok (.num radius)
  else if a == "inertia_tensor" then .ok (.mat (M.tensor s.verts))
  else .ok (.num (M.scalar a s.verts))

/-- `Polygon.to_hoomd` (also `ConvexPolygon`) -/
def polygonToHoomd (M : Meas α) (s : PState α) : Except String (Dict α × PState α) := do
  let old := centroidOf M .recomputed s
  let s1 := setCentroid M .recomputed s V3.zero
  let data ← toJson (polyGetattr M .recomputed (lit 0) [] s1)
    ["vertices", "centroid", "area", "inertia_tensor"] []
  let h := mapDictKeys data hoomdDictMapping
  -- {**hoomd_dict, **{"vertices": self.vertices[:, :2].copy()}}
  let h := Dict.set h "vertices" (.mat (s1.verts.map fun v => [v.x, v.y]))
  let h := Dict.set h "sweep_radius" (.num (lit 0))
  let s2 := setCentroid M .recomputed s1 old
  pure (h, s2)

/-- `Polyhedron.to_hoomd` (also `ConvexPolyhedron`, with `k = cached`) -/
def polyhedronToHoomd (M : Meas α) (k : CenKind) (faces : List (List Nat)) (s : PState α) :
    Except String (Dict α × PState α) := do
  let old := centroidOf M k s
  let s1 := setCentroid M k s V3.zero
  let data ← toJson (polyGetattr M k (lit 0) faces s1)
    ["vertices", "faces", "centroid", "volume", "inertia_tensor"] []
  let h := mapDictKeys data hoomdDictMapping
  let v ← getItem h "vertices"
  let h := Dict.set h "vertices" (copyOf s1 v)
  let h := Dict.set h "sweep_radius" (.num (lit 0))
  let s2 := setCentroid M k s1 old
  pure (h, s2)

/-- `ConvexSpheropolyhedron.to_hoomd` (the state is that of `self._polyhedron`) -/
def spheropolyhedronToHoomd (M : Meas α) (r : α) (s : PState α) :
    Except String (Dict α × PState α) := do
  let old := centroidOf M .cached s
  let s1 := setCentroid M .cached s V3.zero
  let data ← toJson (polyGetattr M .cached r [] s1) ["vertices", "radius", "volume"] []
  let h := mapDictKeys data hoomdDictMapping
  let v ← getItem h "vertices"
  let h := Dict.set h "vertices" (copyOf s1 v)
  let h := Dict.set h "centroid" (.vec [lit 0, lit 0, lit 0])
  let s2 := setCentroid M .cached s1 old
  pure (h, s2)

/-- `ConvexSpheropolygon.to_hoomd` AS CODED: the polygon is never moved to the origin; the live
    vertex array is returned; the closing `self._polygon.centroid = old_centroid` shifts by
    `old - centroid` -/
def spheropolygonToHoomd (M : Meas α) (r : α) (s : PState α) :
    Except String (Dict α × PState α) := do
  let old := centroidOf M .recomputed s
  let data ← toJson (polyGetattr M .recomputed r [] s) ["vertices", "radius", "area"] []
  let h := mapDictKeys data hoomdDictMapping
  let h := Dict.set h "centroid" (.vec [lit 0, lit 0, lit 0])
  let s2 := setCentroid M .recomputed s old
  pure (h, s2)

/-- attribute reads of `Sphere` -/
def sphereGetattr (M : Meas α) (r : α) (c : V3 α) (a : String) : Except String (Val α) :=
  if a == "diameter" then .ok (.num (lit 2 * r))
  else if a == "radius" then .ok (.num r)
  else if a == "centroid" then .ok (.vec (v3list c))
  else if a == "inertia_tensor" then .ok (.mat (M.tensorC c))
  else .ok (.num (M.scalarC a c))

/-- `Sphere.to_hoomd`; returns the dict and the restored centre -/
def sphereToHoomd (M : Meas α) (r : α) (c : V3 α) : Except String (Dict α × V3 α) := do
  let old := c
  let c1 : V3 α := V3.zero
  let data ← toJson (sphereGetattr M r c1) ["diameter", "centroid", "volume", "inertia_tensor"] []
  let h := mapDictKeys data hoomdDictMapping
  pure (h, old)

def ellipsoidGetattr (M : Meas α) (a b c : α) (cen : V3 α) (n : String) : Except String (Val α) :=
  if n == "a" then .ok (.num a)
  else if n == "b" then .ok (.num b)
  else if n == "c" then .ok (.num c)
  else if n == "centroid" then .ok (.vec (v3list cen))
  else if n == "inertia_tensor" then .ok (.mat (M.tensorC cen))
  else .ok (.num (M.scalarC n cen))

/-- `Ellipsoid.to_hoomd` -/
def ellipsoidToHoomd (M : Meas α) (a b c : α) (cen : V3 α) : Except String (Dict α × V3 α) := do
  let old := cen
  let c1 : V3 α := V3.zero
  let data ← toJson (ellipsoidGetattr M a b c c1)
    ["a", "b", "c", "centroid", "volume", "inertia_tensor"] []
  let h := mapDictKeys data hoomdDictMapping
  pure (h, old)

/-- `shape.to_hoomd()`: the dict object as built (it may still hold the live vertex array) and the
    shape the object is left as. `Circle`/`Ellipse` have no such method. The `_centroid` cache of
    the convex polyhedra is taken coherent on entry (`= cen verts`). -/
def toHoomdRaw (M : Meas α) : Shape α → Except String (Dict α × Shape α)
  | .circle .. => .error "AttributeError"
  | .ellipse .. => .error "AttributeError"
  | .sphere r c => do
      let (h, c') ← sphereToHoomd M r c
      pure (h, .sphere r c')
  | .ellipsoid a b c cen => do
      let (h, c') ← ellipsoidToHoomd M a b c cen
      pure (h, .ellipsoid a b c c')
  | .polygon vs n => do
      let (h, s) ← polygonToHoomd M ⟨vs, V3.zero⟩
      pure (h, .polygon s.verts n)
  | .convexPolygon vs n => do
      let (h, s) ← polygonToHoomd M ⟨vs, V3.zero⟩
      pure (h, .convexPolygon s.verts n)
  | .spheropolygon vs r n => do
      let (h, s) ← spheropolygonToHoomd M r ⟨vs, V3.zero⟩
      pure (h, .spheropolygon s.verts r n)
  | .polyhedron vs f => do
      let (h, s) ← polyhedronToHoomd M .recomputed f ⟨vs, V3.zero⟩
      pure (h, .polyhedron s.verts f)
  | .convexPolyhedron vs f => do
      let (h, s) ← polyhedronToHoomd M .cached f ⟨vs, M.cen vs⟩
      pure (h, .convexPolyhedron s.verts f)
  | .spheropolyhedron vs r => do
      let (h, s) ← spheropolyhedronToHoomd M r ⟨vs, M.cen vs⟩
      pure (h, .spheropolyhedron s.verts r)

/-- `shape.to_hoomd()` as the caller observes it: the returned dict with the live array read AFTER
    the call (in the state the shape was left in), and that shape. -/
def toHoomd (M : Meas α) (s : Shape α) : Except String (Dict α × Shape α) := do
  let (h, s') ← toHoomdRaw M s
  pure (resolve ⟨s'.verts, V3.zero⟩ h, s')

/-! ## `to_hoomd` on objects WITH their caches; the getters are the measure models of C01 / C02 / C04

  The sections above take the measure getters as parameters (`Meas`).  Here the objects carry the
  state the real getters read, and the getters are the measure models themselves
  (`Model/ConvexPolyhedron.lean`, `Model/Polyhedron.lean`, `Model/Polygon.lean`):

  * `CPObj` — a `ConvexPolyhedron`: `_vertices`, `_simplices`, and the CACHES `_centroid`, `_volume`,
    `_simplex_equations[:, :3]` that `centroid`, `volume`, `inertia_tensor` read; the centroid setter
    refreshes them in the order of the code (`_centroid_from_triangulated_surface` divides by the
    `_volume` of BEFORE the move, `_calculate_signed_volume` comes last);
  * `PHObj` — a general `Polyhedron`: `_vertices`, `_faces`, the cache `_equations` that `volume`
    reads (`sum(-d * face_area) / 3`), refreshed by `_find_equations()` in the centroid setter; the
    triangles `polytri` yields for the faces are index triples (external);
  * polygons have no cache: `measPolygon` instantiates `Meas` with the getters of `Model/Polygon.lean`.

  `to_hoomd` is a STEP of these objects: it returns the dict and the object it leaves behind, so that
  a second call (or any later query) starts from whatever the first one left. -/

/-- `vertices[simplices]`: rows of index triples (an index outside the array drops the row; Python:
    IndexError — Qhull / polytri only produce valid indices) -/
def trisOf (vs : List (V3 α)) (simp : List (Nat × Nat × Nat)) : List (Tri α) :=
  simp.filterMap fun s =>
    match vs[s.1]?, vs[s.2.1]?, vs[s.2.2]? with
    | some a, some b, some c => some ⟨a, b, c⟩
    | _, _, _ => none

/-- `vertices[face]` -/
def pick (vs : List (V3 α)) (f : List Nat) : List (V3 α) := f.filterMap fun i => vs[i]?

/-- `ndarray.tolist()` of a (3,3) array -/
def m3rows (I : M3 α) : List (List α) :=
  [[I.xx, I.xy, I.xz], [I.yx, I.yy, I.yz], [I.zx, I.zy, I.zz]]

/-- the sums of `ConvexPolyhedron._compute_inertia_tensor` over per-simplex data
    (normal, 2·area of the centred triangle, centred triangle) -/
def inertiaFromData (data : List (V3 α × α × Tri α)) : M3 α :=
  let inn (s0 s1 : Nat) : α :=
    Scalar.sum (data.map fun d => CP.innTerm d.1 d.2.1 d.2.2 s0 s1) / lit 6
  let inm (s0 s1 : Nat) : α :=
    -(Scalar.sum (data.map fun d => CP.inmTerm d.1 d.2.1 d.2.2 s0 s1)) / lit 8
  let ixx := inn 1 2
  let ixy := inm 0 1
  let ixz := inm 0 2
  let iyy := inn 0 2
  let iyz := inm 1 2
  let izz := inn 0 1
  ⟨ixx, ixy, ixz, ixy, iyy, iyz, ixz, iyz, izz⟩

/-- `_compute_inertia_tensor(centered=True)` as coded: `abc = vertices[simplices] - centroid`,
    `n = self._simplex_equations[:, :3]` (the CACHED normals, row by row) -/
def inertiaCentredN (S : List (Tri α)) (normals : List (V3 α)) (c : V3 α) : M3 α :=
  inertiaFromData (List.zipWith (fun t n =>
    let tc := t.map (· - c)
    (n, CP.triArea tc * lit 2, tc)) S normals)

/-- the state of a `ConvexPolyhedron` object that its measure getters read -/
structure CPObj (α : Type) where
  verts : List (V3 α)
  simplices : List (Nat × Nat × Nat)
  faces : List (List Nat)
  /-- `_centroid` -/
  centroid : V3 α
  /-- `_volume` -/
  volume : α
  /-- `_simplex_equations[:, :3]` -/
  snormals : List (V3 α)

namespace CPObj
def tris (o : CPObj α) : List (Tri α) := trisOf o.verts o.simplices

/-- `inertia_tensor`: `translate_inertia_tensor(self.center, self._compute_inertia_tensor(), self.volume)` -/
def inertiaTensor (o : CPObj α) : M3 α :=
  CP.translateInertia o.centroid (inertiaCentredN o.tris o.snormals o.centroid) o.volume

/-- the centroid setter of `ConvexPolyhedron`, statement by statement:
    `_vertices += value - self.centroid` (the cached centroid); `_find_equations()` (face planes: not read
    by the getters modelled here); `_find_simplex_equations()`; `_centroid_from_triangulated_surface()`
    (divides by `self._volume` as cached BEFORE the move); `_calculate_signed_volume()` -/
def setCentroid (o : CPObj α) (value : V3 α) : CPObj α :=
  let vs := o.verts.map fun v => v + (value - o.centroid)
  let S := trisOf vs o.simplices
  { o with verts := vs, snormals := S.map CP.simplexNormal, centroid := CP.centroid S o.volume,
           volume := CP.volume S }

/-- the object a constructor call on the vertex array `vs` produces (all caches fresh) -/
def fresh (simp : List (Nat × Nat × Nat)) (faces : List (List Nat)) (vs : List (V3 α)) : CPObj α :=
  let S := trisOf vs simp
  ⟨vs, simp, faces, CP.centroid S (CP.volume S), CP.volume S, S.map CP.simplexNormal⟩

/-- attribute reads of `to_json` inside `to_hoomd`; `radius` and the volume of the rounded body are
    those of the spheropolyhedron that owns this object (`extra`) -/
def getattr (o : CPObj α) (extra : String → Option (Val α)) (a : String) : Except String (Val α) :=
  match extra a with
  | some v => .ok v
  | none =>
    if a == "vertices" then .ok .live
    else if a == "faces" then .ok (.idx o.faces)
    else if a == "centroid" then .ok (.vec (v3list o.centroid))
    else if a == "volume" then .ok (.num o.volume)
    else if a == "inertia_tensor" then .ok (.mat (m3rows o.inertiaTensor))
    else .error "AttributeError"

/-- `Polyhedron.to_hoomd` inherited by `ConvexPolyhedron`, on the object with its caches -/
def toHoomd (o : CPObj α) : Except String (Dict α × CPObj α) := do
  let old := o.centroid
  let o1 := o.setCentroid V3.zero
  let data ← toJson (o1.getattr fun _ => none)
    ["vertices", "faces", "centroid", "volume", "inertia_tensor"] []
  let h := mapDictKeys data hoomdDictMapping
  let v ← getItem h "vertices"
  let h := Dict.set h "vertices" (copyOf ⟨o1.verts, o1.centroid⟩ v)
  let h := Dict.set h "sweep_radius" (.num (lit 0))
  let o2 := o1.setCentroid old
  pure (h, o2)

/-- `ConvexSpheropolyhedron.to_hoomd`: `o` is `self._polyhedron`, `r` the rounding radius, `vol` the
    `volume` getter of the rounded body (Steiner formula of C11: a function of the core object and `r`) -/
def spheroToHoomd (vol : CPObj α → α → α) (r : α) (o : CPObj α) : Except String (Dict α × CPObj α) := do
  let old := o.centroid
  let o1 := o.setCentroid V3.zero
  let data ← toJson (o1.getattr fun a =>
      if a == "radius" then some (.num r) else if a == "volume" then some (.num (vol o1 r)) else none)
    ["vertices", "radius", "volume"] []
  let h := mapDictKeys data hoomdDictMapping
  let v ← getItem h "vertices"
  let h := Dict.set h "vertices" (copyOf ⟨o1.verts, o1.centroid⟩ v)
  let h := Dict.set h "centroid" (.vec [lit 0, lit 0, lit 0])
  let o2 := o1.setCentroid old
  pure (h, o2)
end CPObj

/-- `Polyhedron._find_equations`: per face the plane through its first three vertices -/
def findEquations (vs : List (V3 α)) (faces : List (List Nat)) : List (V3 α × α) :=
  faces.map fun f =>
    match pick vs f with
    | v0 :: v1 :: v2 :: _ => Poly3.faceEquation v0 v1 v2
    | _ => (V3.zero, lit 0)

/-- `Polyhedron.get_face_area()`: `ConvexPolygon(self.vertices[face]).area` per face (its normal is the
    one computed from the first three vertices of the face) -/
def faceAreas (vs : List (V3 α)) (faces : List (List Nat)) : List α :=
  faces.map fun f => Poly2.area (pick vs f) (computedNormal (pick vs f))

/-- the state of a general `Polyhedron` object that its measure getters read -/
structure PHObj (α : Type) where
  verts : List (V3 α)
  faces : List (List Nat)
  /-- the triangles `polytri.triangulate` yields for the faces, as index triples -/
  tri : List (Nat × Nat × Nat)
  /-- `_equations` (normal, d) per face -/
  eqs : List (V3 α × α)

namespace PHObj
def tris (o : PHObj α) : List (Tri α) := trisOf o.verts o.tri
/-- `centroid` (Eberly, recomputed on every read) -/
def centroid (o : PHObj α) : V3 α := Poly3.centroid o.tris
/-- `volume`: `np.sum(-self._equations[:, 3] * self.get_face_area()) / 3` -/
def volume (o : PHObj α) : α :=
  Poly3.volume (List.zipWith (fun e a => (e.2, a)) o.eqs (faceAreas o.verts o.faces))
/-- `inertia_tensor` -/
def inertiaTensor (o : PHObj α) : M3 α := Poly3.inertia o.tris o.centroid o.volume
/-- centroid setter: `_vertices += value - self.centroid; self._find_equations()` -/
def setCentroid (o : PHObj α) (value : V3 α) : PHObj α :=
  let vs := o.verts.map fun v => v + (value - o.centroid)
  { o with verts := vs, eqs := findEquations vs o.faces }
def fresh (faces : List (List Nat)) (tri : List (Nat × Nat × Nat)) (vs : List (V3 α)) : PHObj α :=
  ⟨vs, faces, tri, findEquations vs faces⟩
def getattr (o : PHObj α) (a : String) : Except String (Val α) :=
  if a == "vertices" then .ok .live
  else if a == "faces" then .ok (.idx o.faces)
  else if a == "centroid" then .ok (.vec (v3list o.centroid))
  else if a == "volume" then .ok (.num o.volume)
  else if a == "inertia_tensor" then .ok (.mat (m3rows o.inertiaTensor))
  else .error "AttributeError"
/-- `Polyhedron.to_hoomd` on the object with its `_equations` -/
def toHoomd (o : PHObj α) : Except String (Dict α × PHObj α) := do
  let old := o.centroid
  let o1 := o.setCentroid V3.zero
  let data ← toJson o1.getattr ["vertices", "faces", "centroid", "volume", "inertia_tensor"] []
  let h := mapDictKeys data hoomdDictMapping
  let v ← getItem h "vertices"
  let h := Dict.set h "vertices" (copyOf ⟨o1.verts, V3.zero⟩ v)
  let h := Dict.set h "sweep_radius" (.num (lit 0))
  let o2 := o1.setCentroid old
  pure (h, o2)
end PHObj

/-- the getters of a `Polygon` / `ConvexPolygon` with stored normal `n`; `R` = kabsch matrix for `n`,
    `R2` = kabsch matrix for ẑ (both external, functions of the normal only) -/
def measPolygon (n : V3 α) (R R2 : M3 α) : Meas α where
  cen := fun vs => Poly2.centroid vs n R
  scalar := fun _ vs => Poly2.area vs n
  tensor := fun vs => m3rows (Poly2.inertiaTensor vs n R R2)
  scalarC := fun _ _ => lit 0
  tensorC := fun _ => []

/-- the getters of a fresh `ConvexPolyhedron` on a vertex array (what `CPObj.fresh` caches) -/
def measCP (simp : List (Nat × Nat × Nat)) : Meas α where
  cen := fun vs => (CPObj.fresh simp [] vs).centroid
  scalar := fun _ vs => (CPObj.fresh simp [] vs).volume
  tensor := fun vs => m3rows (CPObj.fresh simp [] vs).inertiaTensor
  scalarC := fun _ _ => lit 0
  tensorC := fun _ => []

/-- the getters of a fresh `Polyhedron` on a vertex array -/
def measPH (faces : List (List Nat)) (tri : List (Nat × Nat × Nat)) : Meas α where
  cen := fun vs => (PHObj.fresh faces tri vs).centroid
  scalar := fun _ vs => (PHObj.fresh faces tri vs).volume
  tensor := fun vs => m3rows (PHObj.fresh faces tri vs).inertiaTensor
  scalarC := fun _ _ => lit 0
  tensorC := fun _ => []

/-- a history of public calls on one object -/
inductive HOp (α : Type) where
  | toHoomd
  | setCentroid (value : V3 α)

/-- run a history on a `ConvexPolyhedron`; collects the dicts the `to_hoomd` calls returned (as the
    caller sees them: vertex arrays are copies) -/
def CPObj.run : List (HOp α) → CPObj α → Except String (List (Dict α) × CPObj α)
  | [], o => .ok ([], o)
  | .toHoomd :: rest, o => do
      let (d, o') ← o.toHoomd
      let (ds, o'') ← CPObj.run rest o'
      pure (d :: ds, o'')
  | .setCentroid v :: rest, o => CPObj.run rest (o.setCentroid v)

def PHObj.run : List (HOp α) → PHObj α → Except String (List (Dict α) × PHObj α)
  | [], o => .ok ([], o)
  | .toHoomd :: rest, o => do
      let (d, o') ← o.toHoomd
      let (ds, o'') ← PHObj.run rest o'
      pure (d :: ds, o'')
  | .setCentroid v :: rest, o => PHObj.run rest (o.setCentroid v)

/-! ## the TEXT of `__repr__` as tokens, and an evaluator for exactly that syntax

  `__repr__` is an f-string: `coxeter.shapes.<Name>(k1=<v1>, k2=<v2>, …)` where every `<v>` is what
  `str()` prints for a float / int or for `ndarray.tolist()` — a Python list display of floats, nested
  once for `vertices`, of ints for `faces`.  How the DIGITS of a float are chosen is outside the model
  (`float(repr(x)) == x` is checked per run); what the model keeps is the token structure:

  * a negative number prints as `-` followed by a literal (Python parses it as unary minus),
  * a non-finite number prints as the bare NAME `inf` / `nan` (after `-` for `-inf`), which `eval`
    looks up in its environment — with only `coxeter` bound that is a `NameError`,
  * integers (faces, a radius given as an int) print without a point.

  `NumFmt` is the classification of a scalar that `float.__repr__` acts on (sign bit, finite / inf /
  nan): an explicit argument, like `Ext`.  The dotted function name is one token. -/

inductive NumKind where
  | fin (neg : Bool)
  | nan
  | inf (neg : Bool)

abbrev NumFmt (α : Type) := α → NumKind

inductive Tok (α : Type) where
  | name (s : String)
  | lpar | rpar | lbr | rbr | comma | eq | minus
  /-- unsigned float literal (digits, point, exponent) -/
  | num (x : α)
  /-- unsigned integer literal -/
  | int (n : Nat)

namespace Tok
def isRbr : Tok α → Bool
  | .rbr => true
  | _ => false
def isRpar : Tok α → Bool
  | .rpar => true
  | _ => false
end Tok

/-- `str(x)` of a float -/
def prNum (nk : NumFmt α) (x : α) : List (Tok α) :=
  match nk x with
  | .fin false => [.num x]
  | .fin true => [.minus, .num (-x)]
  | .nan => [.name "nan"]
  | .inf false => [.name "inf"]
  | .inf true => [.minus, .name "inf"]

def prInt (n : Nat) : List (Tok α) := [.int n]

/-- items separated by `, ` -/
def commaSep {β : Type} (pr : β → List (Tok α)) : List β → List (Tok α)
  | [] => []
  | [x] => pr x
  | x :: y :: r => pr x ++ .comma :: commaSep pr (y :: r)

/-- a Python list display -/
def printList {β : Type} (pr : β → List (Tok α)) (xs : List β) : List (Tok α) :=
  .lbr :: commaSep pr xs ++ [.rbr]

/-- the text of a value inside `__repr__` (`str` / `live` are never printed) -/
def printVal (nk : NumFmt α) : Val α → List (Tok α)
  | .num x => prNum nk x
  | .vec v => printList (prNum nk) v
  | .mat m => printList (printList (prNum nk)) m
  | .idx f => printList (printList prInt) f
  | .str _ => []
  | .live => []

def printKw (nk : NumFmt α) (e : String × Val α) : List (Tok α) := .name e.1 :: .eq :: printVal nk e.2

/-- `repr(shape)` as tokens -/
def printCall (nk : NumFmt α) (c : Call α) : List (Tok α) :=
  .name c.fn :: .lpar :: commaSep (printKw nk) c.kwargs ++ [.rpar]

def reprTokens (nk : NumFmt α) (s : Shape α) : List (Tok α) := printCall nk (reprCall s)

/-! ### evaluator -/

abbrev Parser (α β : Type) := List (Tok α) → Except String (β × List (Tok α))

/-- a number: literal, `-` literal; a NAME here is looked up by `eval` → `NameError` -/
def parseNumber : Parser α α
  | .num x :: r => .ok (x, r)
  | .int n :: r => .ok (Scalar.ofNat n, r)
  | .minus :: .num x :: r => .ok (-x, r)
  | .minus :: .int n :: r => .ok (-(Scalar.ofNat n), r)
  | .name _ :: _ => .error "NameError"
  | .minus :: .name _ :: _ => .error "NameError"
  | _ => .error "SyntaxError"

/-- an index: an integer literal (a float where an index is needed: `TypeError` in the constructor) -/
def parseIndex : Parser α Nat
  | .int n :: r => .ok (n, r)
  | .num _ :: _ => .error "TypeError"
  | .name _ :: _ => .error "NameError"
  | _ => .error "SyntaxError"

/-- `item (, item)* close` — `fuel` bounds the number of items -/
def sepBy {β : Type} (p : Parser α β) (close : Tok α → Bool) :
    Nat → List (Tok α) → Except String (List β × List (Tok α))
  | 0, _ => .error "SyntaxError"
  | fuel + 1, ts =>
    match p ts with
    | .error e => .error e
    | .ok (x, r) =>
      match r with
      | [] => .error "SyntaxError"
      | t :: r' =>
        if close t then .ok ([x], r')
        else match t with
          | .comma =>
            match sepBy p close fuel r' with
            | .ok (xs, r'') => .ok (x :: xs, r'')
            | .error e => .error e
          | _ => .error "SyntaxError"

/-- `[` items `]` (possibly empty) -/
def listOf {β : Type} (p : Parser α β) : Parser α (List β)
  | .lbr :: ts =>
    match ts with
    | .rbr :: r => .ok ([], r)
    | _ => sepBy p Tok.isRbr ts.length ts
  | _ => .error "SyntaxError"

/-- the value of keyword `k`, in the shape the constructor converts it to: `faces` → lists of
    indices, a list of lists → rows of floats, a flat list → a vector, otherwise a number -/
def parseArg (k : String) : Parser α (Val α)
  | .lbr :: .lbr :: ts =>
    if k == "faces" then
      match listOf (listOf parseIndex) (.lbr :: .lbr :: ts) with
      | .ok (f, r) => .ok (.idx f, r)
      | .error e => .error e
    else
      match listOf (listOf parseNumber) (.lbr :: .lbr :: ts) with
      | .ok (m, r) => .ok (.mat m, r)
      | .error e => .error e
  | .lbr :: .rbr :: r =>
    if k == "faces" then .ok (.idx [], r) else if k == "vertices" then .ok (.mat [], r) else .ok (.vec [], r)
  | .lbr :: ts =>
    match listOf parseNumber (.lbr :: ts) with
    | .ok (v, r) => .ok (.vec v, r)
    | .error e => .error e
  | ts =>
    match parseNumber ts with
    | .ok (x, r) => .ok (.num x, r)
    | .error e => .error e

def parseKw : Parser α (String × Val α)
  | .name k :: .eq :: ts =>
    match parseArg k ts with
    | .ok (v, r) => .ok ((k, v), r)
    | .error e => .error e
  | _ => .error "SyntaxError"

/-- the printed text back to a constructor call (nothing may follow the closing parenthesis) -/
def parseCall : List (Tok α) → Except String (Call α)
  | .name fn :: .lpar :: ts =>
    match ts with
    | [.rpar] => .ok ⟨fn, []⟩
    | _ =>
      match sepBy parseKw Tok.isRpar ts.length ts with
      | .ok (kw, []) => .ok ⟨fn, kw⟩
      | .ok (_, _ :: _) => .error "SyntaxError"
      | .error e => .error e
  | _ => .error "SyntaxError"

/-- `eval(text, {"coxeter": coxeter})` -/
def evalText (E : Ext α) (ts : List (Tok α)) : Except String (Shape α) :=
  match parseCall ts with
  | .ok c => evalCall E c
  | .error e => .error e

end C19
