import CoxeterVerif.Vec
/-!
  Model of the 2-D containment tests of coxeter (property C06). No Mathlib.

  * `coxeter/shapes/polygon.py`  `_align_points_by_normal`, `Polygon.is_inside`
    (inherited unchanged by `ConvexPolygon`);
  * `coxeter/shapes/circle.py`   `Circle.is_inside`;
  * `coxeter/shapes/ellipse.py`  `Ellipse.is_inside`  (AS CODED: a one-sided box test).

  Same formulas, same branch structure, same constants, same statement order as the Python.
  `rowan.mapping.kabsch` is an external parameter: its result `R` (a 3×3 matrix) is an argument
  of the model (contract `RᵀR = 1`, `det R = 1`, `R n = ẑ`; checked per case by the harness).
  The NumPy arrays `half_turn`, `vertex_sign_*`, `edge_sign` hold the values −1, 0, 1 (as doubles);
  they are modelled as `Int`, and `np.sum(half_turn, axis=0) // 2` is floor division on integers.
-/
namespace Inside2D
variable {α : Type} [Scalar α]
open Scalar

/-- a point of the `xy` plane (columns 0 and 1 of a rotated `(N,3)` array) -/
structure P2 (α : Type) where
  x : α
  y : α

/-- `np.sign` (−1, 0, 1) -/
def sgn (x : α) : Int := if x < lit 0 then -1 else if lit 0 < x then 1 else 0

/-- `np.roll(verts, shift=-1, axis=0)` -/
def roll {β : Type} : List β → List β
  | [] => []
  | a :: l => l ++ [a]

/-- directed edges `(p1[i], p2[i])` with `p2 = np.roll(verts, -1)` -/
def edges {β : Type} (vs : List β) : List (β × β) := vs.zip (roll vs)

/-! ### `_align_points_by_normal` and the `(N,2)` padding -/

/-- one row of `np.dot(points, rotation.T)`, i.e. `R · p` -/
def rotate (R : M3 α) (p : V3 α) : V3 α :=
  ⟨R.xx * p.x + R.xy * p.y + R.xz * p.z,
   R.yx * p.x + R.yy * p.y + R.yz * p.z,
   R.zx * p.x + R.zy * p.y + R.zz * p.z⟩

/-- `np.hstack((points, np.zeros((N, 1))))` for `(N,2)` input -/
def pad (p : P2 α) : V3 α := ⟨p.x, p.y, lit 0⟩

/-- `[..., 0]`, `[..., 1]`: only the first two coordinates of the rotated arrays are read -/
def proj (p : V3 α) : P2 α := ⟨p.x, p.y⟩

namespace Polygon

/-- `vertex_sign = np.sign(diff_x); vertex_sign[vertex_sign == 0] = np.sign(diff_y)[...]`:
    the half-plane class of a vertex relative to the query point (tie `x = 0` → sign of `y`) -/
def vertexSign (dx dy : α) : Int :=
  let s := sgn dx
  if s = 0 then sgn dy else s

/-- `vertex_sign_p2 -= vertex_sign_p1; vertex_sign_p2[vertex_sign_p2 != 0] = 1` -/
def crossing (s1 s2 : Int) : Int := if s2 - s1 ≠ 0 then 1 else 0

/-- `edge_sign = np.sign(diff_x_p1 * diff_y_p2 - diff_y_p1 * diff_x_p2)` -/
def edgeSign (dx1 dy1 dx2 dy2 : α) : Int := sgn (dx1 * dy2 - dy1 * dx2)

/-- entry `[i, j]` of `half_turn` for edge `(a, b) = (p1[i], p2[i])` and point `p = points[j]` -/
def halfTurn (p a b : P2 α) : Int :=
  let dx1 := a.x - p.x
  let dy1 := a.y - p.y
  let dx2 := b.x - p.x
  let dy2 := b.y - p.y
  let s1 := vertexSign dx1 dy1
  let s2 := vertexSign dx2 dy2
  edgeSign dx1 dy1 dx2 dy2 * crossing s1 s2

/-- `np.sum(half_turn, axis=0)[j]` for a single point -/
def halfTurnSum (vs : List (P2 α)) (p : P2 α) : Int :=
  ((edges vs).map fun e => halfTurn p e.1 e.2).sum

/-- `winding_number = np.sum(half_turn, axis=0) // 2` (floor division) -/
def windingNumber (vs : List (P2 α)) (p : P2 α) : Int := Int.fdiv (halfTurnSum vs p) 2

/-- `Polygon.is_inside` after the rotation: `verts`, `points` already in the `xy` frame;
    `return winding_number != 0` -/
def isInsideRot (vs : List (P2 α)) (p : P2 α) : Bool := windingNumber vs p != 0

/-- column sums of a matrix given by rows (`np.sum(·, axis=0)`), `n` = number of columns -/
def columnSums (rows : List (List Int)) (n : Nat) : List Int :=
  rows.foldr (fun r acc => List.zipWith (· + ·) r acc) (List.replicate n 0)

/-- the vectorised computation as NumPy performs it for a batch of points: the
    `(n_edges, n_points)` array `half_turn`, summed over axis 0, `// 2`, `!= 0` -/
def isInsideRotBatch (vs : List (P2 α)) (pts : List (P2 α)) : List Bool :=
  let halfTurns : List (List Int) := (edges vs).map fun e => pts.map fun p => halfTurn p e.1 e.2
  (columnSums halfTurns pts.length).map fun s => Int.fdiv s 2 != 0

/-- `Polygon.is_inside(points)` for `(N,3)` points: rotate vertices and points by the kabsch
    matrix `R`, keep `x, y` -/
def isInside (R : M3 α) (verts : List (V3 α)) (pts : List (V3 α)) : List Bool :=
  let vs := verts.map fun v => proj (rotate R v)
  let ps := pts.map fun p => proj (rotate R p)
  isInsideRotBatch vs ps

/-- `(N,2)` points: padded with `z = 0` first -/
def isInside2 (R : M3 α) (verts : List (V3 α)) (pts : List (P2 α)) : List Bool :=
  isInside R verts (pts.map pad)

/-- a single `(3,)` point: `np.atleast_2d` makes it a batch of one -/
def isInside1 (R : M3 α) (verts : List (V3 α)) (p : V3 α) : List Bool := isInside R verts [p]

/-! ### the glue of `Polygon.is_inside`: argument shapes, the stored normal -/

/-- the `points` argument after `np.atleast_2d` when it has at most two dimensions: `rows.length`
    rows of the common width `width` (a scalar is `(1,1)`, a 1-D array of length `w` is `(1,w)`,
    `[]` is `(1,0)`, an empty `(0,w)` array keeps its width) -/
structure Rows (α : Type) where
  width : Nat
  rows : List (List α)

def rowP2 (r : List α) : P2 α := ⟨r.getD 0 (lit 0), r.getD 1 (lit 0)⟩
def rowV3 (r : List α) : V3 α := ⟨r.getD 0 (lit 0), r.getD 1 (lit 0), r.getD 2 (lit 0)⟩

/-- `Polygon.is_inside(points)` with its argument handling:
    `points = np.atleast_2d(points)`; `if points.shape[1] == 2: hstack zeros`;
    `np.dot(points, rotation.T)` raises `ValueError` unless the width is now 3.
    The same rotation `R` is applied to the vertices and to the (padded) points. -/
def isInsideArg (R : M3 α) (verts : List (V3 α)) (a : Rows α) : Except String (List Bool) :=
  if a.width = 2 then .ok (isInside2 R verts (a.rows.map rowP2))
  else if a.width = 3 then .ok (isInside R verts (a.rows.map rowV3))
  else .error "ValueError"

/-- direction of the normal computed by `Polygon.__init__` when none is given:
    `np.cross(v[2] − v[1], v[0] − v[1])` (normalised afterwards) -/
def normalDir (v0 v1 v2 : V3 α) : V3 α := V3.cross (v2 - v1) (v0 - v1)

end Polygon

/-- `np.isclose(z, 0)` with the default `rtol = 1e-5`, `atol = 1e-8`:
    `|z − 0| ≤ atol + rtol·|0|` -/
def iscloseZero (z : α) : Bool :=
  decide (Scalar.abs (z - lit 0) ≤ q 1 100000000 + q 1 100000 * Scalar.abs (lit 0 : α))

/-- `np.isclose(z, 0, atol=tol)` (default `rtol = 1e-5`): `|z − 0| ≤ tol + rtol·|0|`.
    Since /repo bab419e the out-of-plane switch of circles and ellipses uses
    `tol = 1e-8 * size` (`size` = radius, resp. `max(a, b)`): relative to the shape. -/
def iscloseZeroTol (z tol : α) : Bool :=
  decide (Scalar.abs (z - lit 0) ≤ tol + q 1 100000 * Scalar.abs (lit 0 : α))

namespace Circle

/-- `Circle.is_inside` for one row: `points − centroid`;
    `norm ≤ radius ∧ isclose(z, 0, atol=1e-8 * radius)` (the norm is the 3-D norm of the shifted point) -/
def isInside1 (r : α) (c p : V3 α) : Bool :=
  let d := p - c
  decide (V3.norm d ≤ r) && iscloseZeroTol d.z (q 1 100000000 * r)

def isInside (r : α) (c : V3 α) (pts : List (V3 α)) : List Bool := pts.map (isInside1 r c)

/-- `np.atleast_2d(points) - self.centroid`: NumPy broadcasting of an `(N, w)` array against the
    `(3,)` centre works for `w = 3` and (every row's single entry repeated) for `w = 1`;
    any other width raises `ValueError` -/
def isInsideArg (r : α) (c : V3 α) (a : Polygon.Rows α) : Except String (List Bool) :=
  if a.width = 3 then .ok (isInside r c (a.rows.map Polygon.rowV3))
  else if a.width = 1 then .ok (isInside r c (a.rows.map fun row =>
    let v := row.getD 0 (lit 0); ⟨v, v, v⟩))
  else .error "ValueError"

end Circle

namespace Ellipse

/-- `Ellipse.is_inside` for one row, AS CODED:
    `np.all((points − centroid) / [a, b, inf] <= 1, axis=-1) ∧ isclose(z, 0, atol=1e-8 * max(a, b))`.
    The third comparison is `z / inf = ±0 ≤ 1`, true for every finite `z`.  This is a
    one-sided bounding-box test, not an ellipse test (known finding, cannot be repaired because
    `tests/test_ellipse.py::test_is_inside` asserts it). -/
def isInside1 (a b : α) (c p : V3 α) : Bool :=
  let d := p - c
  (decide (d.x / a ≤ lit 1) && decide (d.y / b ≤ lit 1) && true) &&
    iscloseZeroTol d.z (q 1 100000000 * Scalar.max a b)

def isInside (a b : α) (c : V3 α) (pts : List (V3 α)) : List Bool := pts.map (isInside1 a b c)

/-- argument handling as in `Circle.isInsideArg` (same first statement) -/
def isInsideArg (a b : α) (c : V3 α) (arg : Polygon.Rows α) : Except String (List Bool) :=
  if arg.width = 3 then .ok (isInside a b c (arg.rows.map Polygon.rowV3))
  else if arg.width = 1 then .ok (isInside a b c (arg.rows.map fun row =>
    let v := row.getD 0 (lit 0); ⟨v, v, v⟩))
  else .error "ValueError"

end Ellipse

end Inside2D
