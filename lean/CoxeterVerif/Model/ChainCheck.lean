import CoxeterVerif.Vec
/-!
  Computable certificate checkers for the hypotheses of the chain framework (no Mathlib, generic
  over `[Scalar α]`; the driver runs them at exact `Rat`).

  * `chainCheck S T`   : the triangle lists `S`, `T` are equal as oriented 2-chains
                          (decided by cancellation; sound, not complete — see `Lemmas/ChainCheck`).
  * `closedCheck S`    : the directed edges of the triangles of `S` cancel in pairs
                          (`S` is a closed oriented surface).
  * `cone p S`         : the cone tetrahedra `(p, a, b, c)` over the triangles of `S`.
  * `FacePlane.*`      : spec-level boundary (shoelace) formulas for area and centroid of a planar
                          polygon lying in the plane through `o` with normal `u`.
-/
namespace ChainCheck
variable {α : Type} [Scalar α]

def v3Eqb (u v : V3 α) : Bool :=
  Scalar.eqb u.x v.x && Scalar.eqb u.y v.y && Scalar.eqb u.z v.z

def triEqb (s t : Tri α) : Bool := v3Eqb s.a t.a && v3Eqb s.b t.b && v3Eqb s.c t.c

/-- `s` equals `t` up to a cyclic rotation of the vertices -/
def triCycEqb (s t : Tri α) : Bool := triEqb s t || triEqb s t.rot || triEqb s t.rot.rot

/-- remove the first element satisfying `p` (`none` when there is none) -/
def removeFirst {β : Type} (p : β → Bool) : List β → Option (List β)
  | [] => none
  | x :: xs => if p x then some xs else (removeFirst p xs).map (x :: ·)

/-- repeatedly take the head triangle `t`, find in the rest a triangle equal to `t.rev` up to
rotation, remove both; `true` iff everything cancels (`fuel` ≥ length suffices). -/
def cancelAll : Nat → List (Tri α) → Bool
  | _, [] => true
  | 0, _ :: _ => false
  | fuel + 1, t :: rest =>
    match removeFirst (fun s => triCycEqb s t.rev) rest with
    | none => false
    | some rest' => cancelAll fuel rest'

/-- **chain equality checker**: `S − T` cancels to the empty chain. -/
def chainCheck (S T : List (Tri α)) : Bool :=
  let L := S ++ T.map Tri.rev
  cancelAll L.length L

/-- every triangle has a non-zero normal vector `(b−a)×(c−a)` (exact test) -/
def nondegCheck (S : List (Tri α)) : Bool :=
  S.all fun t => !(v3Eqb t.nvec V3.zero)

/-! ### directed edges -/

def edgesOf (t : Tri α) : List (V3 α × V3 α) := [(t.a, t.b), (t.b, t.c), (t.c, t.a)]

def edgeRevEqb (e f : V3 α × V3 α) : Bool := v3Eqb e.1 f.2 && v3Eqb e.2 f.1

def cancelEdges : Nat → List (V3 α × V3 α) → Bool
  | _, [] => true
  | 0, _ :: _ => false
  | fuel + 1, e :: rest =>
    match removeFirst (fun f => edgeRevEqb f e) rest with
    | none => false
    | some rest' => cancelEdges fuel rest'

/-- **closed-surface checker**: every directed edge `(p, q)` of a triangle of `S` is matched by a
directed edge `(q, p)` of another triangle. -/
def closedCheck (S : List (Tri α)) : Bool :=
  let E := S.flatMap edgesOf
  cancelEdges E.length E

/-- cone tetrahedra from the apex `p` over the triangles of `S` -/
def cone (p : V3 α) (S : List (Tri α)) : List (Tet α) := S.map fun t => ⟨p, t.a, t.b, t.c⟩

end ChainCheck

/-! ### spec: a planar polygon through its boundary edges

For a polygon in the plane `{x | u·(x − o) = 0}` (unit normal `u`, `o` any point of the plane)
with directed boundary edges `E`, the textbook shoelace formulas are
`2·area = Σ_(p,q) u·((p−o)×(q−o))` and
`centroid = Σ_(p,q) [u·((p−o)×(q−o))]·(o+p+q) / (3 · Σ_(p,q) u·((p−o)×(q−o)))`. -/
namespace FacePlane
variable {α : Type} [Scalar α]
open Scalar

/-- twice the signed area of the triangle `(o, p, q)` seen from the side `u` points to -/
def edgeCross (u o : V3 α) (e : V3 α × V3 α) : α := V3.dot u (V3.cross (e.1 - o) (e.2 - o))

/-- twice the signed area enclosed by the edge chain `E` -/
def area2 (u o : V3 α) (E : List (V3 α × V3 α)) : α := Scalar.sum (E.map (edgeCross u o))

/-- three times the first moment ×2: `Σ edgeCross · (o + p + q)` -/
def moment (u o : V3 α) (E : List (V3 α × V3 α)) : V3 α :=
  V3.sum (E.map fun e => V3.smul (edgeCross u o e) (o + e.1 + e.2))

/-- centroid of the planar region bounded by `E` -/
def centroid (u o : V3 α) (E : List (V3 α × V3 α)) : V3 α :=
  V3.sdiv (moment u o E) (lit 3 * area2 u o E)

end FacePlane
