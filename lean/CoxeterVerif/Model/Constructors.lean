import CoxeterVerif.Vec
import CoxeterVerif.Spec.Constructors
/-!
  # C15 — model of the constructors of coxeter's shape classes (no Mathlib)

  Mirrors, statement by statement, the decision logic of
  `Polygon.__init__`, `_is_simple`, `ConvexPolygon.__init__`, `_is_convex`, `_reorder_verts`,
  `ConvexPolyhedron.__init__`, `ConvexSpheropolygon.__init__`, `ConvexSpheropolyhedron.__init__`,
  `Circle/Sphere/Ellipse/Ellipsoid.__init__` and the property setters they use.

  `raise ValueError(msg)` → `.error "ValueError:<clause>"` (the clause names the check that fired, so the
  correspondence run also compares WHICH check rejects).  External code is an explicit argument:
    * `align n pts`  = `_align_points_by_normal(n, pts)[0]`  (rowan.mapping.kabsch + `np.dot(points, R.T)`);
    * `hullCount n vs` = `len(ConvexHull(align(n, vs)[:, :2]).vertices)`  (Qhull);
    * `hull vs`      = `len(ConvexHull(vs).vertices)` or the QhullError it raises;
    * `_is_simple`   = `Spec.edgesOK` of the normalised points (the Bentley–Ottmann sweep's contract).
  Arrays carry a provenance (`Src`): every array the constructors store is freshly allocated
  (`np.array(...)` copies; arithmetic and fancy indexing allocate).
-/
namespace C15
open Scalar

/-- provenance of an array stored in the constructed object -/
inductive Src where
  | fresh     -- allocated by the constructor
  | caller    -- the caller's own array object
deriving DecidableEq, Repr

section
variable {α : Type} [Scalar α]

/-- `np.isclose(a, b, rtol, atol)` for finite arguments: `|a − b| <= atol + rtol * |b|` -/
def isclose (a b rtol atol : α) : Bool := decide (Scalar.abs (a - b) ≤ atol + rtol * Scalar.abs b)
/-- NumPy defaults `rtol=1e-05`, `atol=1e-08` -/
def rtolDefault : α := q 1 100000
def atolDefault : α := q 1 100000000

/-! ### Polygon -/

structure Poly (α : Type) where
  vertices : List (V3 α)
  normal : V3 α
  verticesSrc : Src
  normalSrc : Src

/-- equality of two rows of the raw `(N, ncols)` array -/
def rowEqb (ncols : Nat) (u v : V3 α) : Bool :=
  Scalar.eqb u.x v.x && Scalar.eqb u.y v.y && (ncols == 2 || Scalar.eqb u.z v.z)

/-- `len(np.unique(vertices, axis=0)) != len(vertices)` -/
def hasDup (ncols : Nat) : List (V3 α) → Bool
  | [] => false
  | v :: vs => vs.any (rowEqb ncols v) || hasDup ncols vs

/-- `np.hstack((vertices, zeros))` for `(N,2)` input -/
def pad (ncols : Nat) (v : V3 α) : V3 α := if ncols = 2 then ⟨v.x, v.y, lit 0⟩ else v

/-- `x /= np.linalg.norm(x)`. A zero vector gives `0/0 = nan` in every component: `none` stands for that
all-nan array (every later `np.isclose` involving it is `False`). -/
def unitize (c : V3 α) : Option (V3 α) :=
  if Scalar.eqb (V3.norm c) (lit 0) then none else some (V3.sdiv c (V3.norm c))

/-- `cross(v2 − v1, v0 − v1)` of the first corner -/
def cornerCross (verts : List (V3 α)) : V3 α :=
  let v0 := verts.getD 0 V3.zero
  let v1 := verts.getD 1 V3.zero
  let v2 := verts.getD 2 V3.zero
  V3.cross (v2 - v1) (v0 - v1)

/-- `computed_normal = cross(v2 − v1, v0 − v1); computed_normal /= norm(computed_normal)` -/
def cornerNormal (verts : List (V3 α)) : Option (V3 α) := unitize (cornerCross verts)

/-- the `normal is None` branch / the supplied normal with its orthogonality test. The result is the stored
`_normal` (`none` = the nan array of a degenerate first corner). -/
def chooseNormal (computed : Option (V3 α)) (normal : Option (V3 α)) : Except String (Option (V3 α)) :=
  match normal with
  | none => .ok computed
  | some nv =>
    -- norm_normal = np.array(normal, dtype=float64); norm_normal /= np.linalg.norm(normal)
    -- if not np.isclose(np.abs(np.dot(computed_normal, norm_normal)), 1): raise
    match computed, unitize nv with
    | some c, some nn =>
      if isclose (Scalar.abs (V3.dot c nn)) (lit 1) rtolDefault atolDefault then .ok (some nn)
      else .error "ValueError:normal"
    | _, _ => .error "ValueError:normal"     -- nan never passes np.isclose

/-- the coplanarity loop of /repo BEFORE 744f807 (regression witness only; `Lemmas/CovarianceTol.lean` of C09 states the
exact range in which it is covariant): `d = n·v0; for v: if not np.isclose(n·v, d, planar_tolerance): raise`
(third positional argument of `np.isclose` is `rtol`; `atol` keeps its default) — it compared the distance from the
plane with `1e-8 + ptol·|distance of the plane from the ORIGIN|`. -/
def coplanar (n : V3 α) (verts : List (V3 α)) (ptol : α) : Bool :=
  let d := V3.dot n (verts.getD 0 V3.zero)
  verts.all fun v => isclose (V3.dot n v) d ptol atolDefault

/-- `extent = np.max(np.linalg.norm(self.vertices - self.vertices[0], axis=1))` (norms are ≥ 0, the first one is 0) -/
def planarExtent (verts : List (V3 α)) : α :=
  let v0 := verts.getD 0 V3.zero
  (verts.map fun v => V3.norm (v - v0)).foldl Scalar.max (lit 0)

/-- the coplanarity test of /repo (744f807): `relative_vertices = vertices - vertices[0]`,
`distances = |relative_vertices · n|`, `np.all(distances <= planar_tolerance * extent)` — distances from the plane
through the first vertex against the SIZE of the polygon. -/
def coplanarRel (n : V3 α) (verts : List (V3 α)) (ptol : α) : Bool :=
  let v0 := verts.getD 0 V3.zero
  let extent := planarExtent verts
  verts.all fun v => decide (Scalar.abs (V3.dot (v - v0) n) ≤ ptol * extent)

/-- `np.mean(vertices, axis=0)` of 2-D points -/
def mean2 (l : List (P2 α)) : P2 α :=
  ⟨Scalar.sum (l.map (·.x)) / Scalar.ofNat l.length, Scalar.sum (l.map (·.y)) / Scalar.ofNat l.length⟩

/-- `np.max(np.abs(vertices))` -/
def maxAbs (l : List (P2 α)) : α :=
  l.foldl (fun m p => Scalar.max (Scalar.max m (Scalar.abs p.x)) (Scalar.abs p.y)) (lit 0)

/-- `_is_simple`'s preparation: keep x, y; translate to the mean; divide by the largest |coordinate| -/
def normalise (l : List (P2 α)) : List (P2 α) :=
  let c := mean2 l
  let t := l.map fun p => (⟨p.x - c.x, p.y - c.y⟩ : P2 α)
  let e := maxAbs t
  if lit 0 < e then t.map fun p => (⟨p.x / e, p.y / e⟩ : P2 α) else t

def xy (v : V3 α) : P2 α := ⟨v.x, v.y⟩

/-- `_is_simple(planar_vertices)`; `len(isect_polygon(vertices)) == 0` is modelled by `Spec.edgesOK` -/
def isSimple (planar : List (V3 α)) : Bool := Spec.edgesOK (normalise (planar.map xy))

/-- `_is_simple(planar_vertices)` as repaired by b73b691: the sweep is external; `asserts pts` says whether it fails one
of its internal assertions on the prepared points (`AssertionError`, caught: `return False`), otherwise its answer is
modelled by `Spec.edgesOK` (contract). -/
def isSimpleSweep (asserts : List (P2 α) → Bool) (planar : List (V3 α)) : Bool :=
  let pts := normalise (planar.map xy)
  -- try: return len(isect_polygon(vertices)) == 0   except AssertionError: return False
  if asserts pts then false else Spec.edgesOK pts

/-- `Polygon.__init__(vertices, normal, planar_tolerance, test_simple)`; `ndim`, `ncols` describe the shape of
`np.array(vertices)` (rows are given as 3-vectors, the third component is ignored when `ncols = 2`). -/
def Polygon.new (ndim ncols : Nat) (rows : List (V3 α)) (normal : Option (V3 α)) (ptol : α)
    (testSimple : Bool) (align : V3 α → List (V3 α) → List (V3 α)) : Except String (Poly α) :=
  if ndim ≠ 2 ∨ (ncols ≠ 2 ∧ ncols ≠ 3) then .error "ValueError:shape"
  else if rows.length < 3 then .error "ValueError:short"
  else if hasDup ncols rows then .error "ValueError:duplicate"
  else
    let verts := rows.map (pad ncols)
    match chooseNormal (cornerNormal verts) normal with
    | .error e => .error e
    | .ok none => .error "ValueError:coplanar"   -- nan normal: `nan <= tol` is False (`np.all(distances <= ...)`)
    | .ok (some n) =>
      if !coplanarRel n verts ptol then .error "ValueError:coplanar"
      else if testSimple && !isSimple (align n verts) then .error "ValueError:simple"
      else .ok ⟨verts, n, .fresh, .fresh⟩

/-- `Polygon.__init__` with the sweep's `AssertionError` modelled (`asserts`, see `isSimpleSweep`): identical to
`Polygon.new` except that the simplicity test also fails when the sweep asserts. `Polygon.new` is the case of a sweep
that returns normally (`polygon_newSweep_eq_new`). -/
def Polygon.newSweep (ndim ncols : Nat) (rows : List (V3 α)) (normal : Option (V3 α)) (ptol : α)
    (testSimple : Bool) (align : V3 α → List (V3 α) → List (V3 α)) (asserts : List (P2 α) → Bool) :
    Except String (Poly α) :=
  if ndim ≠ 2 ∨ (ncols ≠ 2 ∧ ncols ≠ 3) then .error "ValueError:shape"
  else if rows.length < 3 then .error "ValueError:short"
  else if hasDup ncols rows then .error "ValueError:duplicate"
  else
    let verts := rows.map (pad ncols)
    match chooseNormal (cornerNormal verts) normal with
    | .error e => .error e
    | .ok none => .error "ValueError:coplanar"
    | .ok (some n) =>
      if !coplanarRel n verts ptol then .error "ValueError:coplanar"
      else if testSimple && !isSimpleSweep asserts (align n verts) then .error "ValueError:simple"
      else .ok ⟨verts, n, .fresh, .fresh⟩

/-! ### ConvexPolygon -/

/-- `np.mod(x, m)` for `m > 0` -/
def pmod (x m : α) : α := x - Scalar.floor (x / m) * m

/-- `np.mean(self.vertices, axis=0)` -/
def mean3 (l : List (V3 α)) : V3 α := V3.sdiv (V3.sum l) (Scalar.ofNat l.length)

/-- `angles = arctan2(y, x); angles = mod(angles − angles[ref_index = 0], 2π)` -/
def relAngles (rot : List (V3 α)) : List α :=
  let ang := rot.map fun v => Scalar.atan2 v.y v.x
  let a0 := ang.getD 0 (lit 0)
  ang.map fun a => pmod (a - a0) (lit 2 * Scalar.pi)

/-- sort key `(angle, distance)`; `np.lexsort((distances, angles))`: angle first, then distance -/
def keyLt {β : Type} (a b : (α × α) × β) : Bool :=
  decide (a.1.1 < b.1.1) || (Scalar.eqb a.1.1 b.1.1 && decide (a.1.2 < b.1.2))

def insertBy {β : Type} (lt : β → β → Bool) (x : β) : List β → List β
  | [] => [x]
  | y :: ys => if lt y x then y :: insertBy lt x ys else x :: y :: ys

/-- stable insertion sort (lexsort is stable) -/
def isort {β : Type} (lt : β → β → Bool) : List β → List β
  | [] => []
  | x :: xs => insertBy lt x (isort lt xs)

def sortKeys (rot : List (V3 α)) : List (α × α) := List.zip (relAngles rot) (rot.map V3.norm)

/-- `_reorder_verts()` with its defaults; `rot` = aligned (vertices − mean); reorders any payload
    (`self._vertices = self._vertices[vert_order, :]`) -/
def reorder {β : Type} (rot : List (V3 α)) (payload : List β) : List β :=
  (isort keyLt (List.zip (sortKeys rot) payload)).map (·.2)

/-- `ConvexPolygon.__init__` -/
def ConvexPolygon.new (ndim ncols : Nat) (rows : List (V3 α)) (normal : Option (V3 α)) (ptol : α)
    (hullCount : V3 α → List (V3 α) → Nat) (align : V3 α → List (V3 α) → List (V3 α)) :
    Except String (Poly α) :=
  match Polygon.new ndim ncols rows normal ptol false align with
  | .error e => .error e
  | .ok p =>
    -- _is_convex: len(hull.vertices) == len(vertices)
    if hullCount p.normal p.vertices == p.vertices.length then
      let c := mean3 p.vertices
      let rot := align p.normal (p.vertices.map (· - c))
      .ok { p with vertices := reorder rot p.vertices }
    else .error "ValueError:convex"

/-! ### ConvexSpheropolygon: radius FIRST -/

structure SpheroPoly (α : Type) where
  radius : α
  polygon : Poly α

def ConvexSpheropolygon.new (ndim ncols : Nat) (rows : List (V3 α)) (radius : α) (normal : Option (V3 α))
    (hullCount : V3 α → List (V3 α) → Nat) (align : V3 α → List (V3 α) → List (V3 α)) :
    Except String (SpheroPoly α) :=
  -- self.radius = radius   (setter: `if value >= 0`)
  if lit 0 ≤ radius then
    -- self._polygon = ConvexPolygon(vertices, normal)    (default planar_tolerance = 1e-5)
    match ConvexPolygon.new ndim ncols rows normal (q 1 100000) hullCount align with
    | .error e => .error e
    | .ok p =>
      if hullCount p.normal p.vertices == p.vertices.length then .ok ⟨radius, p⟩
      else .error "ValueError:convex"
  else .error "ValueError:radius"

/-! ### ConvexPolyhedron / ConvexSpheropolyhedron: radius LAST -/

structure Polyh (α : Type) where
  vertices : List (V3 α)
  verticesSrc : Src

def ConvexPolyhedron.new (rows : List (V3 α)) (hull : List (V3 α) → Except String Nat) :
    Except String (Polyh α) :=
  -- self._vertices = np.array(vertices)
  -- try: hull = ConvexHull(self._vertices)   except QhullError as error: raise ValueError(...) from error      (f256559)
  -- (scipy's own input validation — nan, no points — raises ValueError itself)
  match hull rows with
  | .error _ => .error "ValueError:hull"
  | .ok h =>
    if h == rows.length then .ok ⟨rows, .fresh⟩ else .error "ValueError:convex"

structure SpheroPolyh (α : Type) where
  radius : α
  polyhedron : Polyh α

def ConvexSpheropolyhedron.new (rows : List (V3 α)) (radius : α) (hull : List (V3 α) → Except String Nat) :
    Except String (SpheroPolyh α) :=
  match ConvexPolyhedron.new rows hull with
  | .error e => .error e
  | .ok p => if lit 0 ≤ radius then .ok ⟨radius, p⟩ else .error "ValueError:radius"

/-! ### curved shapes: guards `value > 0`, centre stored as `np.array(value)` (a copy) LAST -/

structure Round (α : Type) where
  radius : α
  centroid : V3 α
  centroidSrc : Src

def Circle.new (radius : α) (center : V3 α) : Except String (Round α) :=
  if lit 0 < radius then .ok ⟨radius, center, .fresh⟩ else .error "ValueError:radius"

def Sphere.new (radius : α) (center : V3 α) : Except String (Round α) :=
  if lit 0 < radius then .ok ⟨radius, center, .fresh⟩ else .error "ValueError:radius"

structure Ell2 (α : Type) where
  a : α
  b : α
  centroid : V3 α
  centroidSrc : Src

def Ellipse.new (a b : α) (center : V3 α) : Except String (Ell2 α) :=
  if lit 0 < a then
    if lit 0 < b then .ok ⟨a, b, center, .fresh⟩ else .error "ValueError:b"
  else .error "ValueError:a"

structure Ell3 (α : Type) where
  a : α
  b : α
  c : α
  centroid : V3 α
  centroidSrc : Src

def Ellipsoid.new (a b c : α) (center : V3 α) : Except String (Ell3 α) :=
  if lit 0 < a then
    if lit 0 < b then
      if lit 0 < c then .ok ⟨a, b, c, center, .fresh⟩ else .error "ValueError:c"
    else .error "ValueError:b"
  else .error "ValueError:a"

end

/-! ### allocation model: which stored array lives in which block of memory

NumPy arrays are objects over a block of memory. `np.array(x, dtype=…)` always allocates a new block;
`np.asarray(x, dtype=…)` returns `x` ITSELF when `x` already is an ndarray of the requested element type (whatever its
layout: contiguous, strided view, read-only), and allocates otherwise (list, tuple, other dtype); arithmetic, `np.cross`,
`np.hstack`, fancy indexing allocate; basic slicing / iterating over the rows of a 2-D array yields VIEWS into the same
block; `x /= s` writes into the block of `x`. `np.shares_memory(a, b)` ⇔ same block (all views here are overlapping
rows of one array).

The constructors are modelled as allocation traces over `Alloc` (next unused block, blocks written in place), the
conversion used at each site being a parameter (`Sites`) so that the statement "the constructor stores/modifies no caller
array" can be proved for the table of /repo (`repoSites`) AND shown to fail for the `np.asarray` variants
(`Props/C15.lean`, `ctor_fresh_arrays`, `*_asarray_*_aliases`).  The traces are those of a constructor that runs to
its end; a constructor that raises has executed a prefix (fewer writes, nothing stored). -/

/-- what the caller passes where an array is expected -/
inductive ArgKind where
  /-- list / tuple (nested) of numbers: no ndarray involved -/
  | seq
  /-- an ndarray (any layout, writable or not) with element type float64 (`f64`) or another one, in block `blk` -/
  | nd (f64 : Bool) (blk : Nat)
deriving DecidableEq, Repr

/-- the `faces` argument of `Polyhedron` -/
inductive FacesKind where
  /-- list / tuple of lists / tuples of ints -/
  | nested
  /-- list / tuple of ndarrays, one block each -/
  | arrays (blks : List Nat)
  /-- one `(F, k)` ndarray: iterating yields `F` row views into its block -/
  | array2d (blk : Nat)
deriving Repr

inductive Conv where
  | array      -- `np.array(x, …)`   : always a copy
  | asarray    -- `np.asarray(x, …)` : a copy only if it has to convert
deriving DecidableEq, Repr

structure Alloc where
  /-- first unused block number (every block handed out so far is smaller) -/
  next : Nat
  /-- blocks written in place so far -/
  writes : List Nat
deriving Repr

def Alloc.fresh (s : Alloc) : Nat × Alloc := (s.next, { s with next := s.next + 1 })
def Alloc.write (s : Alloc) (b : Nat) : Alloc := { s with writes := b :: s.writes }

/-- `np.array(x[, dtype=float64])` / `np.asarray(x[, dtype=float64])` -/
def convert (c : Conv) (wantF64 : Bool) (a : ArgKind) (s : Alloc) : Nat × Alloc :=
  match c, a with
  | .asarray, .nd f64 blk => if !wantF64 || f64 then (blk, s) else s.fresh
  | _, _ => s.fresh

/-- `n` fresh blocks -/
def Alloc.freshN : Nat → Alloc → List Nat × Alloc
  | 0, s => ([], s)
  | n + 1, s => let (b, s1) := s.fresh; let (bs, s2) := Alloc.freshN n s1; (b :: bs, s2)

inductive Curved where
  | circle | sphere | ellipse | ellipsoid
deriving DecidableEq, Repr

/-- the conversion used at each site of the constructors -/
structure Sites where
  /-- polygon.py `vertices = np.array(vertices, dtype=np.float64)` -/
  polygonVertices : Conv
  /-- polygon.py `norm_normal = np.array(normal, dtype=np.float64)` -/
  polygonNormal : Conv
  /-- polyhedron.py `self._vertices = np.array(vertices, dtype=np.float64)` -/
  polyhedronVertices : Conv
  /-- convex_polyhedron.py `self._vertices = np.array(vertices, dtype=np.float64)` -/
  convexPolyhedronVertices : Conv
  /-- circle.py / sphere.py / ellipse.py / ellipsoid.py `self._centroid = np.array(value)` (no dtype) -/
  centre : Curved → Conv
  /-- polyhedron.py `self._faces = [face.copy() if isinstance(face, np.ndarray) else list(face) for face in faces]`
      (b62a6dc): `true` = every ndarray face is copied (as coded now); `false` = the face OBJECTS are kept
      (`[face for face in faces]`, the code before the fix) -/
  copyFaces : Bool

/-- /repo as it is -/
def repoSites : Sites := ⟨.array, .array, .array, .array, fun _ => .array, true⟩

/-- /repo before b62a6dc (regression witness only) -/
def sitesBeforeFacesFix : Sites := { repoSites with copyFaces := false }

/-- blocks of the arrays a polygon keeps -/
structure PolyBlocks where
  vertices : Nat
  normal : Nat
deriving Repr

/-- `Polygon.__init__` (allocation trace) -/
def Polygon.alloc (σ : Sites) (ncols : Nat) (verts : ArgKind) (normal : Option ArgKind) (s : Alloc) :
    PolyBlocks × Alloc :=
  -- vertices = np.array(vertices, dtype=np.float64)
  let (b0, s1) := convert σ.polygonVertices true verts s
  -- self._vertices = np.hstack((vertices, zeros))   |   self._vertices = vertices
  let (bv, s2) := if ncols = 2 then s1.fresh else (b0, s1)
  -- computed_normal = np.cross(...); computed_normal /= np.linalg.norm(computed_normal)
  let (bc, s3) := s2.fresh
  let s4 := s3.write bc
  match normal with
  | none => (⟨bv, bc⟩, s4)                     -- self._normal = computed_normal
  | some na =>
    -- norm_normal = np.array(normal, dtype=np.float64); norm_normal /= np.linalg.norm(normal)
    let (bn, s5) := convert σ.polygonNormal true na s4
    (⟨bv, bn⟩, s5.write bn)                     -- self._normal = norm_normal

/-- `ConvexPolygon.__init__`: `Polygon.__init__`, then `self._vertices = self._vertices[vert_order, :]` (fancy
indexing: a new array). `ConvexSpheropolygon.__init__` keeps exactly this polygon (`self._polygon`) and a float. -/
def ConvexPolygon.alloc (σ : Sites) (ncols : Nat) (verts : ArgKind) (normal : Option ArgKind) (s : Alloc) :
    PolyBlocks × Alloc :=
  let (p, s1) := Polygon.alloc σ ncols verts normal s
  let (bv, s2) := s1.fresh
  (⟨bv, p.normal⟩, s2)

structure PolyhBlocks where
  vertices : Nat
  /-- one entry per stored face that is an ndarray (nested lists are not arrays) -/
  faces : List Nat
  equations : Nat
deriving Repr

/-- `Polyhedron.__init__(vertices, faces)`: `_vertices` copied; `_faces`: every ndarray face (a member of a list of
arrays, or a row view of one 2-D array) is `.copy()`-ed, any other sequence becomes a new Python list (no array);
`_equations = np.empty(...)` filled in place -/
def Polyhedron.alloc (σ : Sites) (verts : ArgKind) (faces : FacesKind) (nfaces : Nat) (s : Alloc) :
    PolyhBlocks × Alloc :=
  let (bv, s1) := convert σ.polyhedronVertices true verts s
  let (bf, s2) : List Nat × Alloc :=
    match faces with
    | .nested => ([], s1)                                   -- list(face): Python lists, no ndarray
    | .arrays blks => if σ.copyFaces then Alloc.freshN blks.length s1 else (blks, s1)
    | .array2d blk => if σ.copyFaces then Alloc.freshN nfaces s1 else (List.replicate nfaces blk, s1)
  let (be, s3) := s2.fresh
  (⟨bv, bf, be⟩, s3.write be)

/-- `ConvexPolyhedron.__init__(vertices)`: `_vertices` copied; faces and equations are built from Qhull's result
(new arrays). `ConvexSpheropolyhedron.__init__` keeps exactly this polyhedron and a float. -/
def ConvexPolyhedron.alloc (σ : Sites) (verts : ArgKind) (nfaces : Nat) (s : Alloc) : PolyhBlocks × Alloc :=
  let (bv, s1) := convert σ.convexPolyhedronVertices true verts s
  let (bf, s2) := Alloc.freshN nfaces s1
  let (be, s3) := s2.fresh
  (⟨bv, bf, be⟩, s3.write be)

/-- `Circle/Sphere/Ellipse/Ellipsoid.__init__`: floats, then `self._centroid = np.array(value)`; the default centre
`(0, 0, 0)` is a tuple (`ArgKind.seq`) -/
def Curved.alloc (σ : Sites) (cls : Curved) (centre : ArgKind) (s : Alloc) : Nat × Alloc :=
  convert (σ.centre cls) false centre s

end C15
