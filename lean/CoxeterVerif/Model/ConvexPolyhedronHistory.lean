import CoxeterVerif.Model.Mutable
import CoxeterVerif.Spec.Solid
/-!
  C01, state part: where the values behind `volume`, `surface_area`, `centroid`, `inertia_tensor` come from.

  `ConvexPolyhedron.__init__` takes `_volume`, `_area` from Qhull (`_consume_hull`), `_sort_simplices` then
  overwrites `_volume` (`_calculate_signed_volume`), fills `_simplex_equations` (`_find_simplex_equations`) and
  `_centroid` (`_centroid_from_triangulated_surface`); afterwards the values are only updated incrementally:
  `_rescale` multiplies `_volume`, `_area` by `k³`, `k²` and recomputes the centroid, `centroid.setter` moves the
  vertices and recomputes equations, centroid (with the volume stored so far) and volume.  The getters return the
  stored values; `inertia_tensor` integrates over the current vertices with the STORED simplex normals, centroid
  and volume.  The state record and the two mutators are `Mut.CPState` (`Model/Mutable.lean`, shared with C03/C08).
-/
namespace CPH
open Mut Scalar
variable {α : Type} [Scalar α]

/-- the measure caches after `__init__`.  `simplices` are the oriented simplices `_sort_simplices` ends with,
    `hullVolume`, `hullArea` Qhull's `hull.volume`, `hull.area`, `(eqN, eqD)` the face equations copied from
    Qhull's by `_combine_simplices` (not read by any measure). -/
def construct (verts : List (V3 α)) (simplices faceHead : List (Nat × Nat × Nat))
    (eqN : List (V3 α)) (eqD : List α) (hullVolume hullArea : α) : CPState α :=
  -- _consume_hull
  let s0 : CPState α := ⟨verts, simplices, faceHead, eqN, eqD, [], [], hullVolume, hullArea, V3.zero⟩
  -- _sort_simplices: `_calculate_signed_volume()` (stores abs), `_find_simplex_equations()`,
  -- `_centroid_from_triangulated_surface()`
  let S := trisOf verts simplices
  let volume := CP.volume S
  let seq := CPState.findSimplexEquations S
  { s0 with volume := volume, seqN := seq.1, seqD := seq.2, centroid := CP.centroid S volume }

/-- mutators that change the measures -/
inductive MOp (α : Type) where
  /-- `volume.setter` -/
  | setVolume (v : α)
  /-- `surface_area.setter` -/
  | setSurfaceArea (v : α)
  /-- a `*_radius` setter: `_rescale(value / current)`, `current` = what the radius getter returned -/
  | setRadius (current v : α)
  /-- `centroid.setter` (also `center.setter`) -/
  | setCentroid (c : V3 α)

def step (s : CPState α) : MOp α → Except String (CPState α)
  | .setVolume v => s.setVolume v
  | .setSurfaceArea v => s.setSurfaceArea v
  | .setRadius cur v => s.setRadius cur v
  | .setCentroid c => .ok (s.setCentroid c)

/-- an operation that raises leaves the object as it was -/
def apply (s : CPState α) (op : MOp α) : CPState α :=
  match step s op with
  | .ok s' => s'
  | .error _ => s

def run (s : CPState α) (ops : List (MOp α)) : CPState α := ops.foldl apply s

/-- `inertia_tensor`: current vertices, STORED simplex normals, centroid and volume -/
def inertiaTensor (s : CPState α) : M3 α := CP.inertiaWith s.tris s.seqN s.centroid s.volume

/-- every tetrahedron is positively oriented (`det(B−A, C−A, D−A) > 0`): the hypothesis under which the signed
    integrals of the exactness theorems are Lebesgue integrals over the tetrahedra as sets without signs
    (`cp_*_lebesgue`); decided exactly (ℚ) by the driver on the run's cone tetrahedra -/
def posTetsCheck (Ts : List (Tet α)) : Bool := Ts.all fun T => decide (lit 0 < Spec.tetVol T)

end CPH
