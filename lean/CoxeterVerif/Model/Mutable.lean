import CoxeterVerif.Vec
import CoxeterVerif.Model.ConvexPolyhedron
import CoxeterVerif.Model.Polyhedron
/-!
  State machines for the mutable vertex-based shapes (C03, C08): the private attributes a
  `ConvexPolyhedron` keeps, and its mutators in the statement order of the Python
  (`_rescale`, the size setters with their guards, `centroid.setter`, rotation by a given matrix).
-/
namespace Mut
variable {α : Type} [Scalar α]
open Scalar

/-- the scale factor a size setter passes to `_rescale`: `(target/current)^(1/degree)`,
    after the positive-target guard (as repaired: every size setter refuses `not value > 0`). -/
def setterFactor (degree : Nat) (current target : α) : Except String α :=
  if ¬ (lit 0 < target) then .error "ValueError"
  else if degree = 3 then .ok (Scalar.cbrt (target / current))
  else if degree = 2 then .ok (Scalar.sqrt (target / current))
  else .ok (target / current)

structure CPState (α : Type) where
  verts : List (V3 α)
  /-- vertex indices of the surface simplices -/
  simplices : List (Nat × Nat × Nat)
  /-- first three vertex indices of every face (all `_find_equations` looks at) -/
  faceHead : List (Nat × Nat × Nat)
  eqN : List (V3 α)
  eqD : List α
  seqN : List (V3 α)
  seqD : List α
  volume : α
  area : α
  centroid : V3 α

def vget (vs : List (V3 α)) (i : Nat) : V3 α := vs.getD i V3.zero

def trisOf (vs : List (V3 α)) (simp : List (Nat × Nat × Nat)) : List (Tri α) :=
  simp.map fun s => ⟨vget vs s.1, vget vs s.2.1, vget vs s.2.2⟩

namespace CPState

def tris (s : CPState α) : List (Tri α) := trisOf s.verts s.simplices

/-- `_find_equations` (ConvexPolyhedron): normals from the first three vertices of each face -/
def findEquations (vs : List (V3 α)) (heads : List (Nat × Nat × Nat)) : List (V3 α) × List α :=
  let es := heads.map fun h => Poly3.faceEquation (vget vs h.1) (vget vs h.2.1) (vget vs h.2.2)
  (es.map (·.1), es.map (·.2))

/-- `_find_simplex_equations` -/
def findSimplexEquations (S : List (Tri α)) : List (V3 α) × List α :=
  (S.map CP.simplexNormal, S.map fun t => -(V3.dot (CP.simplexNormal t) t.a))

/-- `ConvexPolyhedron._rescale(scale_factor)` -/
def rescale (s : CPState α) (k : α) : CPState α :=
  let verts := s.verts.map (V3.smul k)
  let volume := s.volume * (k * k * k)
  { s with
    verts := verts
    eqD := s.eqD.map (· * k)
    seqD := s.seqD.map (· * k)
    volume := volume
    area := s.area * (k * k)
    centroid := CP.centroid (trisOf verts s.simplices) volume }

/-- `volume.setter` -/
def setVolume (s : CPState α) (v : α) : Except String (CPState α) := do
  let k ← setterFactor 3 s.volume v
  pure (s.rescale k)

/-- `surface_area.setter` -/
def setSurfaceArea (s : CPState α) (v : α) : Except String (CPState α) := do
  let k ← setterFactor 2 s.area v
  pure (s.rescale k)

/-- generic `*_radius.setter` of `Shape3D`: `_rescale(value / current_radius)` -/
def setRadius (s : CPState α) (current v : α) : Except String (CPState α) := do
  let k ← setterFactor 1 current v
  pure (s.rescale k)

/-- `centroid.setter`: translate, then `_find_equations`, `_find_simplex_equations`,
    `_centroid_from_triangulated_surface` (with the volume stored so far), `_calculate_signed_volume` -/
def setCentroid (s : CPState α) (c : V3 α) : CPState α :=
  let d := c - s.centroid
  let verts := s.verts.map (· + d)
  let eq := findEquations verts s.faceHead
  let S := trisOf verts s.simplices
  let seq := findSimplexEquations S
  { s with
    verts := verts, eqN := eq.1, eqD := eq.2, seqN := seq.1, seqD := seq.2
    centroid := CP.centroid S s.volume
    volume := CP.volume S }

/-- every cached field equals its recomputation from the current vertices -/
def Coherent (s : CPState α) : Prop :=
  s.volume = CP.volume s.tris ∧ s.area = CP.surfaceArea s.tris ∧
  s.centroid = CP.centroid s.tris s.volume ∧
  (s.eqN, s.eqD) = findEquations s.verts s.faceHead ∧
  (s.seqN, s.seqD) = findSimplexEquations s.tris

end CPState
end Mut
