import CoxeterVerif.Vec
/-!
  Model of the 3-D containment tests of coxeter (property C05). No Mathlib.

  * `coxeter/shapes/polyhedron.py`             `_point_plane_distances`, `Polyhedron.is_inside`
  * `coxeter/shapes/convex_polyhedron.py`      `ConvexPolyhedron.is_inside`
  * `coxeter/shapes/sphere.py`                 `Sphere.is_inside`
  * `coxeter/shapes/ellipsoid.py`              `Ellipsoid.is_inside`
  * `coxeter/shapes/convex_spheropolyhedron.py` `ConvexSpheropolyhedron.is_inside`

  Same formulas, same branch structure, same constants, same statement order as the Python.

  External data are explicit arguments:
    * `eqs`    : the rows of `self._equations` (unit normal, offset) – produced by Qhull / `_find_equations`;
    * `S`      : the triangles yielded by `self._surface_triangulation()` (polytri; its model is C02's);
    * `prisms` : for the spheropolyhedron, the plane equations of the `ConvexPolyhedron`s built from
                 `[*base_vertices, *extruded_vertices]` (a Qhull call), or the exception it raised.
  The NumPy arrays `v?sign`, `edge?`, `triangle_sign`, `face_boundary`, `triangle_chain_res` hold the
  values −1, 0, 1, ±2, ±3 (as doubles); they are modelled as `Int`, the boolean masks as 0/1 and
  `np.sum(…, axis=0) // 2` is floor division on integers.
-/
namespace Inside3D
variable {α : Type} [Scalar α]
open Scalar

/-- `np.sign` (−1, 0, 1) -/
def sgn (x : α) : Int := if x < lit 0 then -1 else if lit 0 < x then 1 else 0

/-- one row of `_equations`: `[:3]` and `[3]` -/
structure Plane (α : Type) where
  n : V3 α
  d : α

/-- `np.roll(a, -1, axis=0)` -/
def roll {β : Type} : List β → List β
  | [] => []
  | a :: l => l ++ [a]

/-- column sums of a matrix given by rows (`np.sum(·, axis=0)`), `n` = number of columns -/
def columnSums (rows : List (List Int)) (n : Nat) : List Int :=
  rows.foldr (fun r acc => List.zipWith (· + ·) r acc) (List.replicate n 0)

/-- the `points` argument of every `is_inside`: one `(3,)` row or an `(N, 3)` array -/
inductive Points (α : Type) where
  | row (p : V3 α)
  | rows (ps : List (V3 α))

/-- `np.atleast_2d(points)`: a `(3,)` input becomes the single row of a `(1, 3)` array -/
def atleast2d : Points α → List (V3 α)
  | .row p => [p]
  | .rows ps => ps

/-! ### `ConvexPolyhedron.is_inside` -/
namespace CP

/-- entry `[i, k]` of `_point_plane_distances`:
    `np.inner(points, self._equations[:, :3]) + self._equations[:, 3]` -/
def planeDist (e : Plane α) (p : V3 α) : α := V3.dot p e.n + e.d

/-- row `i` of `_point_plane_distances(points)` -/
def planeDists (eqs : List (Plane α)) (p : V3 α) : List α := eqs.map fun e => planeDist e p

/-- one entry of `np.all(distances <= 0, axis=1)` -/
def isInside1 (eqs : List (Plane α)) (p : V3 α) : Bool :=
  (planeDists eqs p).all fun d => decide (d ≤ lit 0)

/-- `ConvexPolyhedron.is_inside(points)`: the `(N, F)` array of distances, `<= 0`, `np.all(axis=1)` -/
def isInside (eqs : List (Plane α)) (pts : List (V3 α)) : List Bool :=
  let distances : List (List α) := pts.map (planeDists eqs)
  distances.map fun row => row.all fun d => decide (d ≤ lit 0)

/-- `is_inside(points)` with the argument conversion of `_point_plane_distances`
    (`points = np.atleast_2d(points)`): a `(3,)` input gives a `(1,)` result -/
def isInsideArg (eqs : List (Plane α)) (pts : Points α) : List Bool := isInside eqs (atleast2d pts)

end CP

/-! ### `Polyhedron.is_inside` (winding number over the surface triangulation) -/
namespace Poly

/-- `sign_or(a, b, c) = np.where(a != 0, a, np.where(b != 0, b, c))` -/
def signOr (a b c : Int) : Int := if a ≠ 0 then a else if b ≠ 0 then b else c

/-- `v?sign = sign_or(np.sign(diff_x), np.sign(diff_y), np.sign(diff_z))` -/
def vertexSign (d : V3 α) : Int := signOr (sgn d.x) (sgn d.y) (sgn d.z)

/-- `mask?? = v?sign != v?sign` (a boolean, used as 0/1 in `mask * edge`) -/
def mask (s t : Int) : Int := if s ≠ t then 1 else 0

/-- `compute_cross(diff_i, diff_j)`:
    `term_0 = di[1]*dj[0] - di[0]*dj[1]`, `term_1 = di[2]*dj[0] - di[0]*dj[2]`,
    `term_2 = di[2]*dj[1] - di[1]*dj[2]` -/
def computeCross (di dj : V3 α) : α × α × α :=
  (di.y * dj.x - di.x * dj.y, di.z * dj.x - di.x * dj.z, di.z * dj.y - di.y * dj.z)

/-- `edge? = sign_or(*[np.sign(term) for term in term?])` -/
def edgeSign (t : α × α × α) : Int := signOr (sgn t.1) (sgn t.2.1) (sgn t.2.2)

/-- entry `[k, j]` of `triangle_chain_res` for triangle `t = (v0, v1, v2)[k]` and point `p = points[j]` -/
def contribution (p : V3 α) (t : Tri α) : Int :=
  let d0 := t.a - p
  let d1 := t.b - p
  let d2 := t.c - p
  let v0sign := vertexSign d0
  let v1sign := vertexSign d1
  let v2sign := vertexSign d2
  let mask01 := mask v0sign v1sign
  let mask12 := mask v1sign v2sign
  let mask20 := mask v2sign v0sign
  let term0 := computeCross d0 d1
  let term1 := computeCross d1 d2
  let term2 := computeCross d2 d0
  let edge0 := edgeSign term0
  let edge1 := edgeSign term1
  let edge2 := edgeSign term2
  let triangleSign := sgn (-term0.1 * d2.z - term1.1 * d0.z - term2.1 * d1.z)
  let faceBoundary := mask01 * edge0 + mask12 * edge1 + mask20 * edge2
  if faceBoundary ≠ 0 then triangleSign else 0

/-- `np.sum(triangle_chain_res, axis=0)[j]` -/
def windingSum (S : List (Tri α)) (p : V3 α) : Int := (S.map (contribution p)).sum

/-- `winding_number = np.sum(triangle_chain_res, axis=0) // 2` (floor division) -/
def windingNumber (S : List (Tri α)) (p : V3 α) : Int := Int.fdiv (windingSum S p) 2

/-- `winding_number != 0` for one point -/
def isInside1 (S : List (Tri α)) (p : V3 α) : Bool := windingNumber S p != 0

/-- `Polyhedron.is_inside(points)` as NumPy performs it: the `(T, N)` array `triangle_chain_res`,
    summed over axis 0, `// 2`, `!= 0` -/
def isInside (S : List (Tri α)) (pts : List (V3 α)) : List Bool :=
  let chain : List (List Int) := S.map fun t => pts.map fun p => contribution p t
  (columnSums chain pts.length).map fun s => Int.fdiv s 2 != 0

/-- exact coordinate equality of two vertices (`tuple(v)` as a dict key) -/
def vEqb (u v : V3 α) : Bool := Scalar.eqb u.x v.x && Scalar.eqb u.y v.y && Scalar.eqb u.z v.z

/-- `vertex_to_index = {tuple(v): i for i, v in enumerate(self.vertices)}` then
    `vertex_to_index[tuple(v)]`: later entries overwrite earlier ones, so the LAST index whose
    coordinates equal `v`; `none` = `KeyError`.  (`i` = index of the head of the list.) -/
def vertexIndex : List (V3 α) → V3 α → Nat → Option Nat
  | [], _, _ => none
  | u :: us, v, i =>
    match vertexIndex us v (i + 1) with
    | some j => some j
    | none => if vEqb u v then some i else none

/-- `self.vertices[vertex_to_index[tuple(v)]]` -/
def gatherVertex (V : List (V3 α)) (v : V3 α) : Except String (V3 α) :=
  match vertexIndex V v 0 with
  | none => .error "KeyError"
  | some i => .ok (V.getD i V3.zero)

/-- `triangles = [[vertex_to_index[tuple(v)] for v in triangle] for triangle in
    self._surface_triangulation()]`, `v0 = self.vertices[triangles[:, 0]]`, … -/
def gather (V : List (V3 α)) (S : List (Tri α)) : Except String (List (Tri α)) :=
  S.mapM fun t => do
    let a ← gatherVertex V t.a
    let b ← gatherVertex V t.b
    let c ← gatherVertex V t.c
    pure (⟨a, b, c⟩ : Tri α)

/-- `Polyhedron.is_inside(points)` with its glue: the polytri triangles are mapped to vertex indices
    and back to `self.vertices` rows, `points = np.atleast_2d(points)` -/
def isInsideArg (V : List (V3 α)) (S : List (Tri α)) (pts : Points α) : Except String (List Bool) := do
  let S' ← gather V S
  pure (isInside S' (atleast2d pts))

end Poly

/-! ### `Sphere.is_inside`, `Ellipsoid.is_inside` -/
namespace Sphere

/-- one row: `np.linalg.norm(point - self.centroid) <= self.radius` -/
def isInside1 (r : α) (c p : V3 α) : Bool := decide (V3.norm (p - c) ≤ r)

def isInside (r : α) (c : V3 α) (pts : List (V3 α)) : List Bool := pts.map (isInside1 r c)

/-- `points = np.atleast_2d(points) - self.centroid` -/
def isInsideArg (r : α) (c : V3 α) (pts : Points α) : List Bool := isInside r c (atleast2d pts)

end Sphere

namespace Ellipsoid

/-- one row: `np.linalg.norm((point - self.centroid) / [a, b, c]) <= 1` -/
def isInside1 (a b c : α) (cen p : V3 α) : Bool :=
  let d := p - cen
  decide (V3.norm (⟨d.x / a, d.y / b, d.z / c⟩ : V3 α) ≤ lit 1)

def isInside (a b c : α) (cen : V3 α) (pts : List (V3 α)) : List Bool :=
  pts.map (isInside1 a b c cen)

def isInsideArg (a b c : α) (cen : V3 α) (pts : Points α) : List Bool :=
  isInside a b c cen (atleast2d pts)

end Ellipsoid

/-! ### `ConvexSpheropolyhedron.is_inside` -/
namespace Sphero

/-- `inner_vertices = base_vertices - self.radius * normal`,
    `extruded_vertices = base_vertices + self.radius * normal`; the prism is
    `ConvexPolyhedron([*inner_vertices, *extruded_vertices])` (its equations come from Qhull) -/
def prismVertices (r : α) (normal : V3 α) (base : List (V3 α)) : List (V3 α) :=
  (base.map fun v => v - V3.smul r normal) ++ base.map fun v => v + V3.smul r normal

/-- cylinder test of `check_face` for the edge starting at `s` and ending at `e`
    (`e = np.roll(face_points, -1)[i]`):
    `(cylinder_distances <= r) & (edge_projections >= 0) & (edge_projections <= face_edge_lengths)` -/
def inCylinder (r : α) (p s e : V3 α) : Bool :=
  let faceEdge := e - s
  let len := V3.norm faceEdge
  let edgeNorm := V3.sdiv faceEdge len
  let pointToStart := p - s
  let edgeProjection := V3.dot pointToStart edgeNorm
  let perpendicular := pointToStart - V3.smul edgeProjection edgeNorm
  let cylinderDistance := V3.norm perpendicular
  decide (cylinderDistance ≤ r) && decide (lit 0 ≤ edgeProjection) && decide (edgeProjection ≤ len)

/-- cap test of `check_face` for the vertex `s`: `np.linalg.norm(point - s) <= r` -/
def inCap (r : α) (p s : V3 α) : Bool := decide (V3.norm (p - s) ≤ r)

/-- `check_face(point_id, face_id)`; `prism` = equations of `extruded_faces[face_id]`,
    `facePts = polyhedron.vertices[polyhedron.faces[face_id]]` -/
def checkFace (r : α) (prism : List (Plane α)) (facePts : List (V3 α)) (p : V3 α) : Bool :=
  -- in_extruded_face = extruded_face.is_inside(point)[0]
  if CP.isInside1 prism p then true
  else
    -- spherocylinders around the edges
    let inCylinders := (facePts.zip (roll facePts)).any fun se => inCylinder r p se.1 se.2
    if inCylinders then true
    else
      -- spherical caps
      facePts.any fun s => inCap r p s

/-- `point_faces_to_check[i, k] = (dist <= r) & ~(dist <= 0)` -/
def toCheck (r : α) (dist : α) : Bool := decide (dist ≤ r) && !decide (dist ≤ lit 0)

/-- the loop `for point_id, face_id in zip(*np.where(point_faces_to_check))` restricted to one point
    (`np.where` is row-major, so the faces of one point come in increasing order):
    `if not in_sphero_shape[point_id]: in_sphero_shape[point_id] = check_face(point_id, face_id)` -/
def spheroLoop (r : α) (p : V3 α) :
    List (Bool × List (Plane α) × List (V3 α)) → Bool → Bool
  | [], acc => acc
  | (cand, prism, facePts) :: rest, acc =>
    spheroLoop r p rest (if cand && !acc then checkFace r prism facePts p else acc)

/-- `ConvexSpheropolyhedron.is_inside(points)`.
    `eqs` the core's equations, `faces` the core's faces as vertex lists (same order as `eqs`),
    `prisms` the extruded-face polyhedra (or the exception their construction raised). -/
def isInside (r : α) (eqs : List (Plane α)) (faces : List (List (V3 α)))
    (prisms : Except String (List (List (Plane α)))) (pts : List (V3 α)) :
    Except String (List Bool) :=
  let pointPlaneDistances : List (List α) := pts.map (CP.planeDists eqs)
  let inPolyhedron : List Bool := pointPlaneDistances.map fun row => row.all fun d => decide (d ≤ lit 0)
  -- exit early if all points are inside the convex polyhedron
  if inPolyhedron.all id then pure inPolyhedron
  else
    let pointFacesToCheck : List (List Bool) := pointPlaneDistances.map fun row => row.map (toCheck r)
    -- exit early if there is nothing to check (always the case for a zero rounding radius)
    if !(pointFacesToCheck.any fun row => row.any id) then pure inPolyhedron
    else do
      -- compute extrusions of the faces (Qhull; may raise)
      let extruded ← prisms
      let inSpheroShape : List Bool :=
        (pts.zip pointFacesToCheck).map fun pc =>
          spheroLoop r pc.1 (pc.2.zip (extruded.zip faces)) false
      pure (List.zipWith (fun a b => a || b) inPolyhedron inSpheroShape)

/-- `points = np.atleast_2d(points)` in front of the batch computation -/
def isInsideArg (r : α) (eqs : List (Plane α)) (faces : List (List (V3 α)))
    (prisms : Except String (List (List (Plane α)))) (pts : Points α) : Except String (List Bool) :=
  isInside r eqs faces prisms (atleast2d pts)

/-- what `is_inside` computes for one point when nothing raises (see `Props/C05.lean`,
    `sphero_batch_eq_map_single`) -/
def isInside1 (r : α) (eqs : List (Plane α)) (faces : List (List (V3 α)))
    (extruded : List (List (Plane α))) (p : V3 α) : Bool :=
  CP.isInside1 eqs p ||
    (((CP.planeDists eqs p).map (toCheck r)).zip (extruded.zip faces)).any fun c =>
      c.1 && checkFace r c.2.1 c.2.2 p

end Sphero

end Inside3D
