import CoxeterVerif.Spec.MeshIO
import CoxeterVerif.Vec
/-!
  C20 — model of the writers of `coxeter/io.py` and of `Polyhedron.save`
  (`coxeter/shapes/polyhedron.py`), statement by statement.  Only the data types (`Str`, `Tok`,
  `Mesh`, `Xml`, the `cs!` literal) come from `Spec/MeshIO.lean`.

  * `Str = List Char` is a Python `str`; `content += …` is `content ++ …`; `content[:-1]` is
    `List.dropLast`; `str.rstrip("\n")` is `rstripNL`; `for … in …` is `List.foldl`.
  * `str(coord)` of a vertex coordinate is the abstract token stored in the mesh (supplied by the
    harness); `str(i)` of an integer is `dec` / `decI`.
  * `__version__` (`ver`), `shape.__class__.__name__` (`cls`) and, for STL, the printed facet normal
    `str(np.cross(t1-t0, t2-t1)[k])` as a function `nrm` of the triangle's corner tokens are parameters.
  * `shape.vertices[i]` is `vat m i` (total: an index outside the array, where numpy raises
    IndexError, yields empty tokens; the theorems assume indices in range).
  * `to_stl` works on `deepcopy(shape)` and then executes `shape.centroid[i] -= m`, which changes only
    the array returned by the `centroid` property of the COPY, never a vertex: the written
    coordinates are the original ones and nothing is shifted.  Modelled as such.  (Evaluating the property can
    raise inside `Polyhedron.centroid`; the model assumes it does not and the harness reports a raising
    writer as `io.to_stl:raises:<kind>` — it did, for faces of area < 1e-8, before /repo commit df1b699.)
  * `to_x3d` / `to_html` build an ElementTree; `Xml.render` is ElementTree's `_serialize_xml`
    (attributes in insertion order, `short_empty_elements`, `_escape_attrib`, `_escape_cdata`).
    `to_html` re-parses the X3D file and serialises it inside `<body>`: ElementTree then resolves the
    `xsd:` prefix to its namespace URI, picks its registered prefix `xsi` for that URI and declares it
    on the root; this library behaviour is mirrored as observed (`x3dTree (reparsed := true)`).
  * deepening round: `floatRepr` is `str(coord)` itself (CPython `format_float_short(x, 'r', 0, ADD_DOT_0)`, which
    numpy's `float64.__str__` reproduces) as a function of the digits and decimal-point position that `dtoa` returns
    (external); `stlNormal` is `np.cross(t[1]-t[0], t[2]-t[1])`; `ShapeH`/`Heap` + `exportH` is what the seven
    writers and `save` do to the ARRAYS of the shape (`deepcopy`, the `centroid[i] -= m` loop of `to_stl`,
    `cached_property edges` read by `to_off`).
-/
namespace MeshIO

/-- `str(n)` for a non-negative Python/numpy integer -/
def dec (n : Nat) : Str := Nat.toDigits 10 n

/-- `str(i)` for an integer -/
def decI : Int → Str
  | .ofNat n => dec n
  | .negSucc n => '-' :: dec (n + 1)

/-- `sep.join(parts)` -/
def join (sep : Str) : List Str → Str
  | [] => []
  | [a] => a
  | a :: b :: r => a ++ sep ++ join sep (b :: r)

/-- `shape.vertices[i]` -/
def vat (m : Mesh) (i : Nat) : V3T := m.verts.getD i ([], [], [])

/-- `' '.join([str(coord) for coord in v])` -/
def coordsOf (v : V3T) : Str := join cs!" " [v.1, v.2.1, v.2.2]

/-- `Polyhedron.edges`: `[[i, j] for face in faces for i, j in zip(face, np.roll(face, -1)) if i < j]` -/
def edgePairs (faces : List (List Nat)) : List (Nat × Nat) :=
  faces.flatMap fun face => (face.zip (face.drop 1 ++ face.take 1)).filter fun ij => ij.1 < ij.2

/-- `content.rstrip("\n")` -/
def rstripNL (s : Str) : Str := (s.reverse.dropWhile (· == '\n')).reverse

/-! ### to_obj -/
def toObj (ver cls : Str) (m : Mesh) : Str :=
  let content : Str := []
  let content := content ++
    (cs!"# wavefront obj file written by Coxeter version " ++ ver ++ cs!"\n# " ++ cls ++ cs!"\n\n")
  let content := m.verts.foldl (fun content v => content ++ (cs!"v " ++ coordsOf v ++ cs!"\n")) content
  let content := content ++ cs!"\n"
  let content := m.faces.foldl
    (fun content f => content ++ (cs!"f " ++ join cs!" " (f.map fun v_index => dec (v_index + 1)) ++ cs!"\n"))
    content
  content.dropLast

/-! ### to_off  (the counts line is `<V> f<F> <E>` — as coded) -/
def toOff (ver cls : Str) (m : Mesh) : Str :=
  let content : Str := []
  let content := content ++
    (cs!"OFF\n# OFF file written by Coxeter version " ++ ver ++ cs!"\n# " ++ cls ++ cs!"\n")
  let content := content ++
    (dec m.verts.length ++ cs!" f" ++ dec m.faces.length ++ cs!" " ++ dec (edgePairs m.faces).length ++ cs!"\n")
  let content := m.verts.foldl (fun content v => content ++ (coordsOf v ++ cs!"\n")) content
  let content := m.faces.foldl
    (fun content f => content ++ (dec f.length ++ cs!" " ++ join cs!" " (f.map dec) ++ cs!"\n")) content
  content.dropLast

/-! ### to_stl -/

/-- `[[vs[f[0]], vs[b], vs[c]] for b, c in zip(f[1:], f[2:])]` on indices -/
def fan (f : List Nat) : List (Nat × Nat × Nat) :=
  match f with
  | [] => []
  | f0 :: rest => (rest.zip (rest.drop 1)).map fun bc => (f0, bc.1, bc.2)

def stlTriangle (nrm : V3T → V3T → V3T → V3T) (a b c : V3T) : Str :=
  let n := nrm a b c
  cs!"facet normal " ++ n.1 ++ cs!" " ++ n.2.1 ++ cs!" " ++ n.2.2 ++ cs!"\n" ++ cs!"\touter loop\n"
  ++ [a, b, c].foldl
      (fun out point => out ++ (cs!"\t\tvertex " ++ point.1 ++ cs!" " ++ point.2.1 ++ cs!" " ++ point.2.2 ++ cs!"\n"))
      []
  ++ cs!"\tendloop\nendfacet\n"

def toStl (cls : Str) (nrm : V3T → V3T → V3T → V3T) (m : Mesh) : Str :=
  let file : Str := []
  let file := file ++ (cs!"solid " ++ cls ++ cs!"\n")
  let file := m.faces.foldl
    (fun file f =>
      let triangles := (fan f).map fun t => (vat m t.1, vat m t.2.1, vat m t.2.2)
      triangles.foldl (fun file t => file ++ stlTriangle nrm t.1 t.2.1 t.2.2) file)
    file
  file ++ (cs!"endsolid " ++ cls)

/-! ### to_ply -/
def toPly (ver cls : Str) (m : Mesh) : Str :=
  let content : Str := []
  let content := content ++
    (cs!"ply\nformat ascii 1.0\n"
     ++ cs!"comment PLY file written by Coxeter version " ++ ver ++ cs!"\n"
     ++ cs!"comment " ++ cls ++ cs!"\n"
     ++ cs!"element vertex " ++ dec m.verts.length ++ cs!"\n"
     ++ cs!"property float x\nproperty float y\nproperty float z\n"
     ++ cs!"element face " ++ dec m.faces.length ++ cs!"\n"
     ++ cs!"property list uchar uint vertex_indices\n"
     ++ cs!"end_header\n")
  let content := m.verts.foldl (fun content v => content ++ (coordsOf v ++ cs!"\n")) content
  let content := m.faces.foldl
    (fun content f => content ++ (dec f.length ++ cs!" " ++ join cs!" " (f.map dec) ++ cs!"\n")) content
  content.dropLast

/-! ### to_vtk -/
def toVtk (ver cls : Str) (m : Mesh) : Str :=
  let content : Str := []
  let content := content ++
    (cs!"# vtk DataFile Version 3.0\n" ++ cls ++ cs!" created by " ++ cs!"Coxeter version " ++ ver ++ cs!"\n"
     ++ cs!"ASCII\n")
  let content := content ++ (cs!"DATASET POLYDATA\n" ++ cs!"POINTS " ++ dec m.verts.length ++ cs!" float\n")
  let content := m.verts.foldl
    (fun content v => content ++ (v.1 ++ cs!" " ++ v.2.1 ++ cs!" " ++ v.2.2 ++ cs!"\n")) content
  let num_points := m.faces.length
  let num_connections := (m.faces.map List.length).foldr (· + ·) 0
  let content := content ++
    (cs!"POLYGONS " ++ dec num_points ++ cs!" " ++ dec (num_points + num_connections) ++ cs!"\n")
  let content := m.faces.foldl
    (fun content f => content ++ (dec f.length ++ cs!" " ++ join cs!" " (f.map dec) ++ cs!"\n")) content
  rstripNL content

/-! ### to_x3d -/

/-- `list.insert(i, x)` (an index beyond the end appends) -/
def pyInsert {α} (l : List α) (i : Nat) (x : α) : List α := l.take i ++ x :: l.drop i

/-- the `point_indices` loop -/
def pointIndices (faces : List (List Nat)) : List Int :=
  let point_indices : List Int :=
    (List.range ((faces.map List.length).foldr (· + ·) 0)).map Int.ofNat
  let prev_index := 0
  (faces.foldl
    (fun (st : List Int × Nat) f =>
      (pyInsert st.1 (f.length + st.2) (-1), st.2 + (f.length + 1)))
    (point_indices, prev_index)).1

/-- `[v for f in shape.faces for v_index in f for v in shape.vertices[v_index]]` -/
def points (m : Mesh) : List Tok :=
  m.faces.flatMap fun f => f.flatMap fun v_index =>
    let v := vat m v_index
    [v.1, v.2.1, v.2.2]

def x3dTree (reparsed : Bool) (cls : Str) (m : Mesh) : Xml :=
  .node cs!"x3d"
    ([(cs!"profile", cs!"Interchange"), (cs!"version", cs!"4.0")] ++
     (if reparsed then
        [(cs!"xsi:schemaLocation", cs!"http://www.web3d.org/specifications/x3d-4.0.xsd")]
      else
        [(cs!"xmlns:xsd", cs!"http://www.w3.org/2001/XMLSchema-instance"),
         (cs!"xsd:schemaLocation", cs!"http://www.web3d.org/specifications/x3d-4.0.xsd")]))
    []
    [.node cs!"Scene" [] []
      [.node cs!"shape" [(cs!"DEF", cls)] []
        [.node cs!"Appearance" [] [] [.node cs!"Material" [(cs!"diffuseColor", cs!"#6495ED")] [] []],
         .node cs!"IndexedFaceSet" [(cs!"coordIndex", join cs!" " ((pointIndices m.faces).map decI))] []
           [.node cs!"Coordinate" [(cs!"point", join cs!" " (points m))] [] []]]]]

/-- ElementTree `_escape_attrib` -/
def escapeAttrib (s : Str) : Str :=
  s.flatMap fun c =>
    if c = '&' then cs!"&amp;" else if c = '<' then cs!"&lt;" else if c = '>' then cs!"&gt;"
    else if c = '"' then cs!"&quot;" else if c = '\r' then cs!"&#13;" else if c = '\n' then cs!"&#10;"
    else if c = '\t' then cs!"&#09;" else [c]

/-- ElementTree `_escape_cdata` -/
def escapeCdata (s : Str) : Str :=
  s.flatMap fun c =>
    if c = '&' then cs!"&amp;" else if c = '<' then cs!"&lt;" else if c = '>' then cs!"&gt;" else [c]

mutual
/-- ElementTree `_serialize_xml` with `short_empty_elements=True` -/
def Xml.render : Xml → Str
  | .node tag attrs text ch =>
    let start := '<' :: tag ++
      attrs.flatMap fun kv => ' ' :: kv.1 ++ cs!"=\"" ++ escapeAttrib kv.2 ++ cs!"\""
    if text.isEmpty && ch.isEmpty then start ++ cs!" />"
    else start ++ cs!">" ++ escapeCdata text ++ Xml.renderList ch ++ cs!"</" ++ tag ++ cs!">"
def Xml.renderList : List Xml → Str
  | [] => []
  | x :: xs => x.render ++ Xml.renderList xs
end

/-- `ElementTree.ElementTree(root).write(filename, encoding="UTF-8")` (no XML declaration for UTF-8) -/
def toX3d (cls : Str) (m : Mesh) : Str := (x3dTree false cls m).render

/-! ### to_html -/
def htmlTree (cls : Str) (m : Mesh) : Xml :=
  .node cs!"html"
    [(cs!"xmlns:xsi", cs!"http://www.w3.org/2001/XMLSchema-instance"),
     (cs!"xmlns", cs!"http://www.w3.org/1999/xhtml")] []
    [.node cs!"head" [] []
      [.node cs!"script" [(cs!"type", cs!"text/javascript"), (cs!"src", cs!"http://x3dom.org/release/x3dom.js")]
         cs!" " [],
       .node cs!"link" [(cs!"rel", cs!"stylesheet"), (cs!"type", cs!"text/css"),
                        (cs!"href", cs!"http://x3dom.org/release/x3dom.css")] [] []],
     .node cs!"body" [] [] [x3dTree true cls m]]

def toHtml (cls : Str) (m : Mesh) : Str := cs!"<!DOCTYPE html>" ++ (htmlTree cls m).render

/-! ### `str(coord)` -/

/-- ASCII digit -/
def digitCh (d : Nat) : Char := d.digitChar
/-- `memset(p, '0', n)` -/
def zeros (n : Nat) : Str := List.replicate n '0'
/-- `sprintf("%+.02d", exp)` without the sign -/
def pad2 (n : Nat) : Str := if n < 10 then '0' :: dec n else dec n

/-- `str(coord)` of a finite double: CPython `format_float_short(x, 'r', 0, Py_DTSF_ADD_DOT_0)`
    (`float.__repr__`; numpy's `float64.__str__` prints the same).  `digits` (decimal digits, most significant
    first) and `decpt` are what `_Py_dg_dtoa(x, mode 0)` returned: `|x| ≈ 0.d₁d₂…dₙ · 10^decpt`; `neg` its sign. -/
def floatRepr (neg : Bool) (digits : List Nat) (decpt : Int) : Str :=
  let sgn : Str := if neg then ['-'] else []
  let ds : Str := digits.map digitCh
  -- case 'r': if (decpt <= -4 || decpt > 16) use_exp = 1;
  if decpt ≤ -4 ∨ decpt > 16 then
    -- exp = decpt - 1; decpt = 1;  digits[0] '.' digits[1:]  (a trailing '.' is deleted)
    let exp := decpt - 1
    let mant : Str := match ds with
      | [] => []
      | [d] => [d]
      | d :: r => d :: '.' :: r
    sgn ++ mant ++ ['e'] ++ (if exp < 0 then ['-'] else ['+']) ++ pad2 exp.natAbs
  else if decpt ≤ 0 then
    -- "0." zeros(-decpt) digits
    sgn ++ cs!"0." ++ zeros (-decpt).toNat ++ ds
  else if decpt.toNat < ds.length then
    sgn ++ ds.take decpt.toNat ++ ['.'] ++ ds.drop decpt.toNat
  else
    -- digits zeros(decpt - n) ".0"   (Py_DTSF_ADD_DOT_0)
    sgn ++ ds ++ zeros (decpt.toNat - ds.length) ++ cs!".0"

/-! ### the STL facet normal -/

/-- `n = np.cross(t[1] - t[0], t[2] - t[1])` -/
def stlNormal {α} [Scalar α] (t0 t1 t2 : V3 α) : V3 α := V3.cross (t1 - t0) (t2 - t1)

/-- the normals of the fan triangles of one face, `vs` = `shape.vertices` -/
def stlFaceNormals {α} [Scalar α] (vs : Nat → V3 α) (f : List Nat) : List (V3 α) :=
  (fan f).map fun t => stlNormal (vs t.1) (vs t.2.1) (vs t.2.2)

/-! ### what the writers do to the shape's arrays

  numpy arrays are objects; the heap is the list of all arrays (identity = position).  `ShapeH` records which
  arrays the attributes of a `Polyhedron` / `ConvexPolyhedron` hold. -/

abbrev Heap (α : Type) := List (List α)

structure ShapeH where
  /-- `ConvexPolyhedron` (the `centroid` getter returns the cached `self._centroid` array itself) or `Polyhedron`
      (the getter computes a fresh array on every access) -/
  convex : Bool
  /-- `self._vertices` (row major, 3 per vertex) -/
  vertices : Nat
  /-- `self._centroid` (`ConvexPolyhedron` only; unused otherwise) -/
  centroid : Nat
  /-- every other array attribute (`_equations`, `_simplices`, `_faces[k]`, `_neighbors[k]`, …) -/
  others : List Nat
  /-- `cached_property edges` already evaluated (`'edges' in self.__dict__`) -/
  edgesCached : Bool
deriving DecidableEq, Repr

namespace Heap
variable {α : Type}
/-- contents of array `i` -/
def get (h : Heap α) (i : Nat) : List α := h.getD i []
/-- a new array object; returns its identity -/
def alloc (h : Heap α) (a : List α) : Heap α × Nat := (h ++ [a], h.length)
/-- `arr[k] = x` in place -/
def setAt (h : Heap α) (i k : Nat) (x : α) : Heap α := h.set i ((h.get i).set k x)
end Heap

/-- one array attribute duplicated: (heap, identities of the duplicates so far) -/
def copyArr {α} (st : Heap α × List Nat) (o : Nat) : Heap α × List Nat :=
  ((st.1.alloc (st.1.get o)).1, st.2 ++ [(st.1.alloc (st.1.get o)).2])

/-- `copy.deepcopy(shape)`: every array attribute is duplicated, the copy's attributes hold the duplicates -/
def deepcopyH {α} (h : Heap α) (s : ShapeH) : Heap α × ShapeH :=
  let hv := h.alloc (h.get s.vertices)
  let hc := hv.1.alloc (hv.1.get s.centroid)
  let ho := s.others.foldl copyArr (hc.1, [])
  (ho.1, { s with vertices := hv.2, centroid := hc.2, others := ho.2 })

/-- `copy.copy(shape)` (NOT what the code does — the variant of a seeded change, for the sensitivity lemma):
    a new object whose attributes hold the SAME arrays -/
def shallowcopyH {α} (h : Heap α) (s : ShapeH) : Heap α × ShapeH := (h, s)

/-- `np.amin(a=shape.vertices, axis=0)` on the row-major contents -/
def aminCols {α} [Scalar α] (vs : List α) : List α :=
  let col (k : Nat) : List α := (List.range (vs.length / 3)).map fun r => vs.getD (3 * r + k) (Scalar.lit 0)
  let mn (l : List α) : α := match l with
    | [] => Scalar.lit 0
    | a :: r => r.foldl (fun acc x => if x < acc then x else acc) a
  [mn (col 0), mn (col 1), mn (col 2)]

/-- the `centroid` property getter: the array object it returns.  `cen` is the centroid computation of
    `Polyhedron.centroid` (external: irrelevant here). -/
def centroidGetH {α} (cen : List α → List α) (h : Heap α) (s : ShapeH) : Heap α × Nat :=
  if s.convex then (h, s.centroid) else h.alloc (cen (h.get s.vertices))

/-- one round of `for i, m in enumerate(mins): if m < 0: shape.centroid[i] -= m` -/
def shiftStep {α} [Scalar α] (cen : List α → List α) (shape : ShapeH) (h : Heap α) (mi : α × Nat) : Heap α :=
  if mi.1 < Scalar.lit 0 then
    let g := centroidGetH cen h shape
    g.1.setAt g.2 mi.2 ((g.1.get g.2).getD mi.2 (Scalar.lit 0) - mi.1)
  else h

/-- `to_stl` up to `vs = shape.vertices`:
    ```
    shape = deepcopy(shape)
    mins = np.amin(a=shape.vertices, axis=0)
    for i, m in enumerate(mins):
        if m < 0:
            shape.centroid[i] -= m
    vs = shape.vertices
    ```
    returns the heap afterwards and the contents of `vs` (what is then printed). `copy` is the copy function. -/
def toStlPreH {α} [Scalar α] (copy : Heap α → ShapeH → Heap α × ShapeH) (cen : List α → List α)
    (h : Heap α) (shape : ShapeH) : Heap α × List α :=
  let cp := copy h shape
  let mins := aminCols (cp.1.get cp.2.vertices)
  let h' := mins.zipIdx.foldl (shiftStep cen cp.2) cp.1
  (h', h'.get cp.2.vertices)

/-- export in format `fmt` (0 OBJ, 1 OFF, 2 STL, 3 PLY, 4 VTK, 5 X3D, 6 HTML): the heap and the caller's shape
    object afterwards, and the vertex contents the writer prints.  `to_off` evaluates `shape.edges`
    (a `cached_property`: the result is stored in the instance dict); all others only read `vertices`, `faces`,
    `__class__`. -/
def exportH {α} [Scalar α] (cen : List α → List α) (fmt : Nat) (h : Heap α) (shape : ShapeH) :
    Heap α × ShapeH × List α :=
  if fmt = 2 then
    ((toStlPreH deepcopyH cen h shape).1, shape, (toStlPreH deepcopyH cen h shape).2)
  else if fmt = 1 then (h, { shape with edgesCached := true }, h.get shape.vertices)
  else (h, shape, h.get shape.vertices)

/-! ### Polyhedron.save -/
def save (filetype ver cls : Str) (nrm : V3T → V3T → V3T → V3T) (m : Mesh) : Except String Str :=
  if filetype = cs!"OBJ" then .ok (toObj ver cls m)
  else if filetype = cs!"OFF" then .ok (toOff ver cls m)
  else if filetype = cs!"STL" then .ok (toStl cls nrm m)
  else if filetype = cs!"PLY" then .ok (toPly ver cls m)
  else if filetype = cs!"VTK" then .ok (toVtk ver cls m)
  else if filetype = cs!"X3D" then .ok (toX3d cls m)
  else if filetype = cs!"HTML" then .ok (toHtml cls m)
  else .error "ValueError"

end MeshIO
