import CoxeterVerif.Model.Heap
import CoxeterVerif.Model.Setters
/-!
  C08 — which ARRAYS a setter writes: a heap model of several shapes and the caller.

  NumPy arrays are objects. A setter may write an array attribute in place (`self._vertices *= k`,
  `self._vertices += d`, `self._equations[:, 3] *= k`) or re-bind the attribute to an array — and
  then it matters WHICH array: a freshly allocated one (`np.array(value)`, the result of an
  arithmetic expression, `np.empty(...)`) or one somebody else also holds (the caller's target,
  another shape's attribute).  The setters of /repo only ever re-bind to fresh arrays; `Eff` is
  exactly that vocabulary (there is no constructor "re-bind to an existing address"), and the
  harness checks on every assignment that the live object behaves like the pattern recorded here
  (`pattern`): same buffer for `keep` / `inplace`, a buffer that shares memory with NOTHING that
  existed before for `rebind`.

  A `World` holds any number of shapes (each: the addresses of its array attributes) and the
  arrays the caller owns.  `Lemmas/SettersHeap.lean` proves: if no two shapes and no shape and
  the caller share an array, a setter on one shape changes no array of another shape and no array
  of the caller, and the separation persists.  No Mathlib.
-/
namespace SettersHeap
open C16 (Heap)
variable {α : Type}

/-- array identities (`id(arr)`) -/
scoped notation "Addr" => Nat

/-- what a mutator does to ONE array attribute -/
inductive Eff (α : Type)
  /-- not written -/
  | keep
  /-- written in place: same buffer, new contents -/
  | inplace (new : List α)
  /-- the attribute is re-bound to a FRESHLY ALLOCATED array with these contents -/
  | rebind (new : List α)

/-- one attribute: returns (heap, next free address, the attribute's address afterwards) -/
def applyEff (h : Heap α) (next : Addr) (a : Addr) : Eff α → Heap α × Addr × Addr
  | .keep => (h, next, a)
  | .inplace c => (Heap.set h a c, next, a)
  | .rebind c => (Heap.set h next c, next + 1, next)

/-- a mutator on one object: its array attributes are processed in order -/
def applyEffs (h : Heap α) (next : Addr) : List Addr → List (Eff α) → Heap α × Addr × List Addr
  | a :: as, e :: es =>
      let r := applyEff h next a e
      let r2 := applyEffs r.1 r.2.1 as es
      (r2.1, r2.2.1, r.2.2 :: r2.2.2)
  | as, _ => (h, next, as)

structure World (α : Type) where
  heap : Heap α
  next : Addr
  /-- per shape: the addresses of its array attributes -/
  objs : List (List Addr)
  /-- arrays the caller owns (targets it passed and kept, anything else of its own) -/
  caller : List Addr

namespace World

/-- a mutator (any setter) of shape number `i` with the given per-attribute effects -/
def step (w : World α) (i : Nat) (effs : List (Eff α)) : World α :=
  match w.objs[i]? with
  | none => w
  | some fields =>
    let r := applyEffs w.heap w.next fields effs
    { w with heap := r.1, next := r.2.1, objs := w.objs.set i r.2.2 }

/-- the caller creates an array of its own (e.g. the float64 target it is going to assign) -/
def callerAlloc (w : World α) (c : List α) : World α :=
  { w with heap := Heap.set w.heap w.next c, next := w.next + 1, caller := w.next :: w.caller }

/-- what a caller observes of shape `i`: the contents of its arrays -/
def view (w : World α) (i : Nat) : List (List α) :=
  match w.objs[i]? with
  | none => []
  | some fields => fields.map (Heap.get w.heap)

end World

/-! ### the patterns of /repo's setters -/

inductive Kind
  | keep | inplace | rebind
  deriving DecidableEq, Repr

def Eff.kind : Eff α → Kind
  | .keep => .keep
  | .inplace _ => .inplace
  | .rebind _ => .rebind

def Kind.code : Kind → Nat
  | .keep => 0 | .inplace => 1 | .rebind => 2

/-- the two mutators every size / centre setter funnels into -/
inductive Mutator
  /-- `_rescale` (reached from every size setter) -/
  | rescale
  /-- `centroid.setter` (and its alias `center`) -/
  | setCentre
  deriving DecidableEq, Repr

open Setters in
/-- the array attributes of a live object (Python attribute paths), in the order of `pattern` -/
def fieldNames : Cls → List String
  | .convexPolyhedron => ["_vertices", "_equations", "_simplex_equations", "_centroid"]
  | .polyhedron => ["_vertices", "_equations"]
  | .polygon | .convexPolygon => ["_vertices", "_normal"]
  | .convexSpheropolygon => ["_polygon._vertices", "_polygon._normal"]
  | .convexSpheropolyhedron =>
      ["_polyhedron._vertices", "_polyhedron._equations", "_polyhedron._simplex_equations", "_polyhedron._centroid"]
  | .circle | .ellipse | .sphere | .ellipsoid => ["_centroid"]

open Setters in
/-- statement by statement:
  * `ConvexPolyhedron._rescale`: `_vertices *= k`, `_equations[:, 3] *= k`, `_simplex_equations[:, 3] *= k`
    in place; `_centroid_from_triangulated_surface()` assigns `self._centroid = <expression>` (fresh);
  * `ConvexPolyhedron.centroid.setter`: `_vertices += …` in place; `_find_equations`,
    `_find_simplex_equations` assign `np.empty(...)` arrays, `_centroid_from_triangulated_surface` a fresh one;
  * `Polyhedron._rescale`: both in place; its `centroid.setter`: `_vertices +=`, `_find_equations` re-binds;
  * `Polygon`: `_vertices *= k` / `+= d`; the normal is never written;
  * spheropolytopes: `_rescale` is the core's; they have no centre setter (`AttributeError`, nothing written);
  * curved shapes: size setters assign floats only; `centroid.setter`: `self._centroid = np.array(value)` (a copy). -/
def pattern : Cls → Mutator → List Kind
  | .convexPolyhedron, .rescale => [.inplace, .inplace, .inplace, .rebind]
  | .convexPolyhedron, .setCentre => [.inplace, .rebind, .rebind, .rebind]
  | .polyhedron, .rescale => [.inplace, .inplace]
  | .polyhedron, .setCentre => [.inplace, .rebind]
  | .polygon, .rescale | .convexPolygon, .rescale => [.inplace, .keep]
  | .polygon, .setCentre | .convexPolygon, .setCentre => [.inplace, .keep]
  | .convexSpheropolygon, .rescale => [.inplace, .keep]
  | .convexSpheropolygon, .setCentre => [.keep, .keep]
  | .convexSpheropolyhedron, .rescale => [.inplace, .inplace, .inplace, .rebind]
  | .convexSpheropolyhedron, .setCentre => [.keep, .keep, .keep, .keep]
  | .circle, .rescale | .ellipse, .rescale | .sphere, .rescale | .ellipsoid, .rescale => [.keep]
  | .circle, .setCentre | .ellipse, .setCentre | .sphere, .setCentre | .ellipsoid, .setCentre => [.rebind]

end SettersHeap
