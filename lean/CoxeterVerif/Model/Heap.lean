import CoxeterVerif.Vec
/-!
  # Heap machine for the queries of coxeter (property C16)

  NumPy arrays are OBJECTS: a getter can hand the caller the very array the shape keeps
  (`return self._vertices`), a setter can change it in place (`self._vertices += …`) and a query can
  re-bind an attribute to another array (`self._vertices = …`). Which of these happens decides
  whether a query is free of side effects, so the model keeps an explicit heap:

  * `Heap α`  : association list `Id ↦ contents` (contents row-major, `Arr α = List α`);
  * `St α`    : the heap, the next unused `Id`, which attribute of the shape holds which `Id`
                (`_vertices`, `_normal`, `_centroid`, `_equations`, `_simplex_equations`), the float
                attributes (`_volume`; radius / a b c / `_area` as `consts`), the write-only caches
                (`_simplex_areas`, `_face_centroids`, the `cached_property` `edges`), the `Id`s the
                caller already holds (`handed`) and the caller's own argument arrays (`args`).

  Modelled statement by statement (coxeter/shapes/*.py, coxeter/io.py) are exactly the members that
  write to `self.*`, write to an array in place, or allocate an array that escapes:
  `centroid.setter` of every class, `Polygon.inertia_tensor`, `Polyhedron/ConvexPolyhedron
  ._compute_inertia_tensor` (fancy-index COPY, then `-=` on the copy), the six `to_hoomd`,
  `ConvexPolyhedron.get_face_area / face_centroids` (assign `_simplex_areas`, `_face_centroids`),
  `Polyhedron.edges` (`cached_property`), `io.to_stl` (`deepcopy` first) / `io.to_off` (reads
  `edges`), `to_json` (a fold of `getattr`), the getters that return the live array
  (`vertices`, `normal`, `equations`, `normals`, `ConvexPolyhedron.centroid`, curved `centroid`) and
  the argument handling of `is_inside / compute_form_factor_amplitude / distance_to_surface`
  (`np.atleast_2d(points) - c`, `np.mod(angles, 2π)`: fresh arrays). Every other public member only
  reads and returns freshly computed values: `Getter.value name`.

  Numerical content that does not matter for aliasing (centroid formulas, Qhull, kabsch, the
  measures) is the record `Meas` of external functions. No Mathlib.
-/
namespace C16
open Scalar

/-- array identities (`id(arr)` in Python) -/
scoped notation "Id" => Nat
/-- contents of an array, row major -/
abbrev Arr (α : Type) := List α
abbrev Heap (α : Type) := List (Id × Arr α)

namespace Heap
variable {α : Type}
/-- contents of array `i` (`[]` when there is no such array) -/
def get : Heap α → Id → Arr α
  | [], _ => []
  | (j, a) :: r, i => if j = i then a else get r i
/-- overwrite the contents of array `i` (or create it) -/
def set : Heap α → Id → Arr α → Heap α
  | [], i, a => [(i, a)]
  | (j, b) :: r, i, a => if j = i then (j, a) :: r else (j, b) :: set r i a
end Heap

/-! ## classes -/

inductive Cls where
  | circle | ellipse | sphere | ellipsoid
  | polygon | convexPolygon | spheropolygon
  | polyhedron | convexPolyhedron | spheropolyhedron
deriving DecidableEq, Repr

/-- how the class keeps its position -/
inductive Kind where
  /-- `_centroid` IS the position (`centroid.setter`: `self._centroid = np.array(value)`) -/
  | curved
  /-- `Polygon` (also the `_polygon` of a spheropolygon): centroid recomputed from `_vertices`,
      `_normal` on every read -/
  | planar
  /-- `Polyhedron`: centroid recomputed on every read; `_equations` recomputed by the setter -/
  | poly
  /-- `ConvexPolyhedron` (also the `_polyhedron` of a spheropolyhedron): `_centroid`, `_volume`,
      `_equations`, `_simplex_equations` are caches refreshed by the setter -/
  | convex
deriving DecidableEq, Repr

def Cls.kind : Cls → Kind
  | .circle | .ellipse | .sphere | .ellipsoid => .curved
  | .polygon | .convexPolygon | .spheropolygon => .planar
  | .polyhedron => .poly
  | .convexPolyhedron | .spheropolyhedron => .convex

/-! ## state -/

structure St (α : Type) where
  heap : Heap α
  /-- next unused array id (`np.array`, `.copy()`, arithmetic … allocate here) -/
  next : Id
  cls : Cls
  /-- `self._vertices` -/
  fVerts : Id
  /-- `self._normal` -/
  fNormal : Id
  /-- `self._centroid` -/
  fCen : Id
  /-- `self._equations` (`normals` is a view of it: same object) -/
  fEqs : Id
  /-- `self._simplex_equations` -/
  fSeqs : Id
  /-- `self._volume` (ConvexPolyhedron) -/
  volume : α
  /-- float attributes no query assigns: radius / a, b, c / `_area` -/
  consts : List α
  /-- `self._simplex_areas` -/
  cAreas : Option Id
  /-- `self._face_centroids` -/
  cFaceCen : Option Id
  /-- `self.__dict__["edges"]` -/
  cEdges : Option Id
  /-- arrays the caller received from earlier queries -/
  handed : List Id
  /-- the caller's own arrays that were passed as arguments -/
  args : List Id

/-- the state-bearing values every public observable is a function of -/
structure Obs (α : Type) where
  verts : Arr α
  normal : Arr α
  cen : Arr α
  eqs : Arr α
  seqs : Arr α
  volume : α
  consts : List α

/-- code outside this model, as functions of values -/
structure Meas (α : Type) where
  /-- `Polygon.centroid` / `Polyhedron.centroid` from (`_vertices`, `_normal`) -/
  cen : Arr α → Arr α → V3 α
  /-- `ConvexPolyhedron._centroid_from_triangulated_surface` from (`_volume`, `_vertices`) -/
  cenV : α → Arr α → V3 α
  /-- `_calculate_signed_volume` -/
  vol : Arr α → α
  /-- `_find_equations` -/
  eqs : Arr α → Arr α
  /-- `_find_simplex_equations` -/
  seqs : Arr α → Arr α
  /-- `vertices.dot(kabsch(normal).T)` from (normal, vertices) -/
  rot : Arr α → Arr α → Arr α
  /-- `self.vertices[self.simplices]` / `np.array(list(self._surface_triangulation()))` -/
  gather : Arr α → Arr α
  /-- `Polygon.inertia_tensor`'s result from (original_center, the rotated centred state,
      the original normal) -/
  tensor2 : V3 α → Obs α → Arr α → Arr α
  /-- `_compute_inertia_tensor` + `translate_inertia_tensor` from (centred triangle copy, state) -/
  tensor3 : Arr α → Obs α → Arr α
  /-- every read-only getter / export, by name, as a function of the observables -/
  value : String → Obs α → Arr α
  /-- answer of `is_inside` / `compute_form_factor_amplitude` / `distance_to_surface` -/
  withArg : String → Obs α → Arr α → Arr α
  /-- the fresh array those build from the argument (`np.atleast_2d(points) - c`, `np.mod(…)`) -/
  prep : String → Obs α → Arr α → Arr α
  /-- `io.to_stl`: the shifted centroid of the COPY from (copy's vertices, copy's centroid) -/
  stl : Arr α → Arr α → Arr α

variable {α : Type}

namespace St
def get (s : St α) (i : Id) : Arr α := Heap.get s.heap i
/-- a new array with contents `a`; its id is the OLD `s.next` -/
def alloc (s : St α) (a : Arr α) : St α :=
  { s with heap := Heap.set s.heap s.next a, next := s.next + 1 }
/-- in-place write -/
def write (s : St α) (i : Id) (a : Arr α) : St α := { s with heap := Heap.set s.heap i a }
def setVerts (s : St α) (i : Id) : St α := { s with fVerts := i }
def setNormal (s : St α) (i : Id) : St α := { s with fNormal := i }
def setCen (s : St α) (i : Id) : St α := { s with fCen := i }
def setEqs (s : St α) (i : Id) : St α := { s with fEqs := i }
def setSeqs (s : St α) (i : Id) : St α := { s with fSeqs := i }
def setVolume (s : St α) (v : α) : St α := { s with volume := v }
end St

def observe (s : St α) : Obs α :=
  { verts := s.get s.fVerts, normal := s.get s.fNormal, cen := s.get s.fCen, eqs := s.get s.fEqs,
    seqs := s.get s.fSeqs, volume := s.volume, consts := s.consts }

/-- `ndarray` of a 3-vector -/
def v3l (v : V3 α) : Arr α := [v.x, v.y, v.z]

variable [Scalar α]

/-- a `(3,)` array read as a vector -/
def l3v : Arr α → V3 α
  | [x, y, z] => ⟨x, y, z⟩
  | _ => V3.zero

/-- `a += δ` for an `(N,3)` array and a 3-vector (broadcast over rows) -/
def shiftRows (δ : V3 α) : Arr α → Arr α
  | x :: y :: z :: r => (x + δ.x) :: (y + δ.y) :: (z + δ.z) :: shiftRows δ r
  | l => l

/-- `a[:, :2]` of an `(N,3)` array -/
def cols2 : Arr α → Arr α
  | x :: y :: _ :: r => x :: y :: cols2 r
  | _ => []

/-- `self.centroid` (the value) -/
def pubCentroid (M : Meas α) (s : St α) : V3 α :=
  match s.cls.kind with
  | .planar => M.cen (s.get s.fVerts) (s.get s.fNormal)
  | .poly => M.cen (s.get s.fVerts) []
  | .convex => l3v (s.get s.fCen)
  | .curved => l3v (s.get s.fCen)

/-! ## `centroid.setter`

* curved: `self._centroid = np.array(value)` — a NEW array;
* `Polygon`: `self._vertices += np.asarray(value) - self.centroid` — IN PLACE;
* `Polyhedron`: the same, then `_find_equations()` (`self._equations = np.empty(…)`: new array);
* `ConvexPolyhedron`: the same, then `_find_equations()`, `_find_simplex_equations()`,
  `_centroid_from_triangulated_surface()` (uses the not yet refreshed `_volume`),
  `_calculate_signed_volume()`. -/
def setCentroid (M : Meas α) (s : St α) (value : V3 α) : St α :=
  match s.cls.kind with
  | .curved => (s.alloc (v3l value)).setCen s.next
  | .planar => s.write s.fVerts (shiftRows (value - pubCentroid M s) (s.get s.fVerts))
  | .poly =>
      let s1 := s.write s.fVerts (shiftRows (value - pubCentroid M s) (s.get s.fVerts))
      (s1.alloc (M.eqs (s1.get s1.fVerts))).setEqs s1.next
  | .convex =>
      let s1 := s.write s.fVerts (shiftRows (value - pubCentroid M s) (s.get s.fVerts))
      let s2 := (s1.alloc (M.eqs (s1.get s1.fVerts))).setEqs s1.next
      let s3 := (s2.alloc (M.seqs (s2.get s2.fVerts))).setSeqs s2.next
      let s4 := (s3.alloc (v3l (M.cenV s3.volume (s3.get s3.fVerts)))).setCen s3.next
      s4.setVolume (M.vol (s4.get s4.fVerts))

/-! ## `Polygon.inertia_tensor` (also `ConvexPolygon`)

```
original_center = self.center.copy(); live_vertices = self._vertices
original_vertices = self._vertices.copy(); original_normal = self._normal.copy()
self.center = (0, 0, 0)                               # in place
mat, _ = kabsch([self.normal, -self.normal], …)
self._vertices = self._vertices.dot(mat.T)            # re-bind to a new array
self._normal = np.asarray([0, 0, 1])                  # re-bind
… translate_inertia_tensor(original_center, rotate(mat.T, diag(0,0,polar)), self.area)
live_vertices[:] = original_vertices                  # in place, into the ORIGINAL object
self._vertices = live_vertices; self._normal = original_normal     # (a copy)
```
Returns the new state and the id of the result array. -/
def polygonInertia (M : Meas α) (s : St α) : St α × Id :=
  let c := pubCentroid M s
  let live := s.fVerts
  let s1 := s.alloc (s.get s.fVerts)
  let s2 := s1.alloc (s1.get s1.fNormal)
  let s3 := setCentroid M s2 V3.zero
  let s4 := (s3.alloc (M.rot (s3.get s3.fNormal) (s3.get s3.fVerts))).setVerts s3.next
  let s5 := (s4.alloc [lit 0, lit 0, lit 1]).setNormal s4.next
  let s6 := s5.alloc (M.tensor2 c (observe s5) (s3.get s3.fNormal))
  let s7 := s6.write live (s6.get s.next)
  ((s7.setVerts live).setNormal s.next.succ, s5.next)

/-! ## `Polyhedron.inertia_tensor`, `ConvexPolyhedron.inertia_tensor`

`abc = self.vertices[self.simplices]` (fancy indexing COPIES; `Polyhedron`: `np.array(list(…))`),
`abc -= self.centroid` on that copy, result is a new array. -/
def polyhedronInertia (M : Meas α) (s : St α) : St α × Id :=
  let s1 := s.alloc (M.gather (s.get s.fVerts))
  let s2 := s1.write s.next (shiftRows (V3.zero - pubCentroid M s1) (s1.get s.next))
  (s2.alloc (M.tensor3 (s2.get s.next) (observe s2)), s2.next)

/-! ## what a query returns -/

/-- one returned array; `tag`: 0 vertices, 1 normal, 2 centroid, 3 equations/normals,
    4 inertia tensor, 5 face centroids, 6 edges, 7 computed value, 8 result of a query with an
    argument -/
structure Ret where
  tag : Nat
  id : Id
deriving Repr, DecidableEq

structure Out (α : Type) where
  rets : List Ret := []
  /-- float entries of the answer -/
  scalars : List α := []
  /-- Python `raise` (kind) -/
  err : Option String := none

def ret1 (tag : Nat) (id : Id) : Out α := { rets := [⟨tag, id⟩] }
def raise (kind : String) : Out α := { err := some kind }

/-! ## getters (`getattr(self, name)`) -/

inductive Getter where
  | vertices | normal | centroid | equations | normals | faceCentroids | edges | inertiaTensor
  /-- any other property: computes a new value from what it reads -/
  | value (name : String)
deriving Repr, DecidableEq

def getter (M : Meas α) (g : Getter) (s : St α) : St α × Out α :=
  match g with
  | .vertices =>
      -- `return self._vertices` (sphero classes: `return self.polygon.vertices`)
      if s.cls.kind = .curved then (s, raise "AttributeError") else (s, ret1 0 s.fVerts)
  | .normal =>
      if s.cls.kind = .planar then (s, ret1 1 s.fNormal) else (s, raise "AttributeError")
  | .centroid =>
      if s.cls = .spheropolygon ∨ s.cls = .spheropolyhedron then (s, raise "NotImplementedError")
      else match s.cls.kind with
        | .planar => (s.alloc (v3l (pubCentroid M s)), ret1 2 s.next)
        | .poly => (s.alloc (v3l (pubCentroid M s)), ret1 2 s.next)
        -- `return self._centroid`
        | .convex => (s, ret1 2 s.fCen)
        | .curved => (s, ret1 2 s.fCen)
  | .equations =>
      if s.cls = .convexPolyhedron then (s, ret1 3 s.fEqs) else (s, raise "AttributeError")
  | .normals =>
      -- `return self._equations[:, :3]` : a view, the same memory
      if s.cls = .polyhedron ∨ s.cls = .convexPolyhedron then (s, ret1 3 s.fEqs)
      else (s, raise "AttributeError")
  | .faceCentroids =>
      -- `_find_face_centroids`: assigns `_simplex_areas`, `_face_centroids`; returns the latter
      if s.cls = .convexPolyhedron then
        let s1 := { s.alloc (M.value "_simplex_areas" (observe s)) with cAreas := some s.next }
        let s2 := { s1.alloc (M.value "face_centroids" (observe s)) with cFaceCen := some s1.next }
        (s2, ret1 5 s1.next)
      else (s, raise "AttributeError")
  | .edges =>
      if s.cls = .polyhedron ∨ s.cls = .convexPolyhedron then
        match s.cEdges with
        | some i => (s, ret1 6 i)
        | none => ({ s.alloc (M.value "edges" (observe s)) with cEdges := some s.next }, ret1 6 s.next)
      else (s, raise "AttributeError")
  | .inertiaTensor =>
      match s.cls with
      | .polygon => ((polygonInertia M s).1, ret1 4 (polygonInertia M s).2)
      | .convexPolygon => ((polygonInertia M s).1, ret1 4 (polygonInertia M s).2)
      | .polyhedron => ((polyhedronInertia M s).1, ret1 4 (polyhedronInertia M s).2)
      | .convexPolyhedron => ((polyhedronInertia M s).1, ret1 4 (polyhedronInertia M s).2)
      -- `Shape2D.inertia_tensor` → `planar_moments_inertia` / `Shape.inertia_tensor()`
      | .spheropolygon => (s, raise "NotImplementedError")
      | .spheropolyhedron => (s, raise "NotImplementedError")
      | _ => (s.alloc (M.value "inertia_tensor" (observe s)), ret1 4 s.next)
  | .value name => (s.alloc (M.value name (observe s)), ret1 7 s.next)

/-- `Shape.to_json`: `for a in attributes: export.update({a: getattr(self, a)})`; the first
    failing getter raises (nothing is returned) -/
def toJson (M : Meas α) : List Getter → St α → St α × Out α
  | [], s => (s, {})
  | g :: gs, s =>
      match (getter M g s).2.err with
      | some k => ((getter M g s).1, raise k)
      | none =>
          match (toJson M gs (getter M g s).1).2.err with
          | some k => ((toJson M gs (getter M g s).1).1, raise k)
          | none =>
              ((toJson M gs (getter M g s).1).1,
                { rets := (getter M g s).2.rets ++ (toJson M gs (getter M g s).1).2.rets,
                  scalars := (getter M g s).2.scalars ++ (toJson M gs (getter M g s).1).2.scalars })

/-! ## `to_hoomd` -/

/-- `Polygon.to_hoomd` (also `ConvexPolygon`):
`old = self.centroid; self.centroid = 0; to_json([vertices, centroid, area, inertia_tensor]);
vertices[:, :2].copy(); self.centroid = old` -/
def polygonToHoomd (M : Meas α) (s : St α) : St α × Out α :=
  let c0 := pubCentroid M s
  let s1 := setCentroid M s V3.zero
  let s2 := s1.alloc (v3l (pubCentroid M s1))
  let area := M.value "area" (observe s2)
  let s3 := (polygonInertia M s2).1
  let s4 := s3.alloc (cols2 (s3.get s3.fVerts))
  (setCentroid M s4 c0,
    { rets := [⟨0, s3.next⟩, ⟨2, s1.next⟩, ⟨4, (polygonInertia M s2).2⟩], scalars := area })

/-- `Polyhedron.to_hoomd` (also `ConvexPolyhedron`, whose `old_centroid` IS the `_centroid` array
that the setter then replaces): `to_json([vertices, faces, centroid, volume, inertia_tensor])`,
`hoomd_dict["vertices"].copy()` -/
def polyhedronToHoomd (M : Meas α) (s : St α) : St α × Out α :=
  let oldId := s.fCen
  let c0 := pubCentroid M s
  let s1 := setCentroid M s V3.zero
  -- `centroid`: Polyhedron computes a new array, ConvexPolyhedron returns `_centroid`
  let s2 := if s.cls.kind = .poly then s1.alloc (v3l (pubCentroid M s1)) else s1
  let cenId := if s.cls.kind = .poly then s1.next else s1.fCen
  let vol := M.value "volume" (observe s2)
  let s3 := (polyhedronInertia M s2).1
  let s4 := s3.alloc (s3.get s3.fVerts)
  (setCentroid M s4 (if s.cls.kind = .poly then c0 else l3v (s4.get oldId)),
    { rets := [⟨0, s3.next⟩, ⟨2, cenId⟩, ⟨4, (polyhedronInertia M s2).2⟩], scalars := vol })

/-- `ConvexSpheropolyhedron.to_hoomd`: `to_json([vertices, radius, volume])`, copy, the centroid
entry is the Python list `[0, 0, 0]` -/
def spheropolyhedronToHoomd (M : Meas α) (s : St α) : St α × Out α :=
  let oldId := s.fCen
  let s1 := setCentroid M s V3.zero
  let vol := M.value "volume" (observe s1)
  let s2 := s1.alloc (s1.get s1.fVerts)
  (setCentroid M s2 (l3v (s2.get oldId)), { rets := [⟨0, s1.next⟩], scalars := vol })

/-- `ConvexSpheropolygon.to_hoomd` AS CODED: never centres, returns the LIVE vertex array, the
closing `self._polygon.centroid = old_centroid` adds `old − centroid` in place -/
def spheropolygonToHoomd (M : Meas α) (s : St α) : St α × Out α :=
  let c0 := pubCentroid M s
  let area := M.value "area" (observe s)
  (setCentroid M s c0, { rets := [⟨0, s.fVerts⟩], scalars := area })

/-- `Sphere.to_hoomd`, `Ellipsoid.to_hoomd`: `old = self.centroid` (the live array),
`self.centroid = np.array([0,0,0])` (new array, which `to_json` then returns), `inertia_tensor`
(new), `self.centroid = old` (a copy of the old array) -/
def curvedToHoomd (M : Meas α) (s : St α) : St α × Out α :=
  let oldId := s.fCen
  let s1 := setCentroid M s V3.zero
  let vol := M.value "volume" (observe s1)
  let s2 := s1.alloc (M.value "inertia_tensor" (observe s1))
  (setCentroid M s2 (l3v (s2.get oldId)), { rets := [⟨2, s1.fCen⟩, ⟨4, s1.next⟩], scalars := vol })

def toHoomd (M : Meas α) (s : St α) : St α × Out α :=
  match s.cls with
  | .circle => (s, raise "AttributeError")
  | .ellipse => (s, raise "AttributeError")
  | .sphere => curvedToHoomd M s
  | .ellipsoid => curvedToHoomd M s
  | .polygon => polygonToHoomd M s
  | .convexPolygon => polygonToHoomd M s
  | .spheropolygon => spheropolygonToHoomd M s
  | .polyhedron => polyhedronToHoomd M s
  | .convexPolyhedron => polyhedronToHoomd M s
  | .spheropolyhedron => spheropolyhedronToHoomd M s

/-! ## the rest -/

/-- `ConvexPolyhedron.get_face_area`: assigns `_simplex_areas`, returns new values;
`Polyhedron.get_face_area`: new values only -/
def getFaceArea (M : Meas α) (s : St α) : St α × Out α :=
  match s.cls with
  | .convexPolyhedron =>
      let s1 := { s.alloc (M.value "_simplex_areas" (observe s)) with cAreas := some s.next }
      (s1.alloc (M.value "get_face_area" (observe s)), ret1 7 s1.next)
  | .polyhedron => (s.alloc (M.value "get_face_area" (observe s)), ret1 7 s.next)
  | _ => (s, raise "AttributeError")

/-- `save(filetype, …)` / `coxeter.io.to_*` for fmt = 0 OBJ, 1 OFF, 2 STL, 3 PLY, 4 VTK, 5 X3D,
6 HTML. `to_stl` works on `deepcopy(shape)`: every array of the shape is copied, and
`shape.centroid[i] -= m` writes into the copy (`ConvexPolyhedron`: the copy's `_centroid`;
`Polyhedron`: a freshly computed array). `to_off` reads `shape.edges` (fills the cache).
The others only read. Nothing is returned. -/
def save (M : Meas α) (fmt : Nat) (s : St α) : St α × Out α :=
  if s.cls = .polyhedron ∨ s.cls = .convexPolyhedron then
    if fmt = 2 then
      let s1 := s.alloc (s.get s.fVerts)
      let s2 := s1.alloc (s1.get s1.fCen)
      let s3 := s2.alloc (s2.get s2.fEqs)
      let s4 := s3.alloc (s3.get s3.fSeqs)
      if s.cls = .convexPolyhedron then
        (s4.write s1.next (M.stl (s4.get s.next) (s4.get s1.next)), {})
      else
        (s4.alloc (M.stl (s4.get s.next) (v3l (pubCentroid M s4))), {})
    else if fmt = 1 then ((getter M .edges s).1, {})
    else (s, {})
  else (s, raise "AttributeError")

inductive Query where
  | get (g : Getter)
  | toJson (gs : List Getter)
  | getFaceArea
  | toHoomd
  | save (fmt : Nat)
  /-- `is_inside(points)`, `compute_form_factor_amplitude(q)`, `distance_to_surface(angles)` with
      the caller's array `arg` -/
  | withArg (name : String) (arg : Id)
deriving Repr

/-- the query proper -/
def step (M : Meas α) (q : Query) (s : St α) : St α × Out α :=
  match q with
  | .get g => getter M g s
  | .toJson gs => toJson M gs s
  | .getFaceArea => getFaceArea M s
  | .toHoomd => toHoomd M s
  | .save fmt => save M fmt s
  | .withArg name arg =>
      -- `points = np.atleast_2d(points) - self.centroid`, `angles = np.mod(angles, 2π)`: new arrays
      let s1 := s.alloc (M.prep name (observe s) (s.get arg))
      (s1.alloc (M.withArg name (observe s) (s.get arg)), ret1 8 s1.next)

def Query.argIds : Query → List Id
  | .withArg _ a => [a]
  | _ => []

/-- the query as the caller sees it: afterwards the caller also holds what was returned -/
def run (M : Meas α) (q : Query) (s : St α) : St α × Out α :=
  ({ (step M q s).1 with
      handed := (step M q s).2.rets.map (·.id) ++ (step M q s).1.handed,
      args := q.argIds ++ (step M q s).1.args },
    (step M q s).2)

/-- a history of queries -/
def runAll (M : Meas α) : List Query → St α → St α
  | [], s => s
  | q :: qs, s => runAll M qs (run M q s).1

/-- what the caller can see of an answer: the contents of the returned arrays (NOT their ids), the
float entries, the exception kind -/
structure Answer (α : Type) where
  arrays : List (Nat × Arr α)
  scalars : List α
  err : Option String

def answerOf (p : St α × Out α) : Answer α :=
  { arrays := p.2.rets.map fun r => (r.tag, p.1.get r.id), scalars := p.2.scalars, err := p.2.err }

/-- the one mutator the theorems use to probe aliasing: `shape.centroid = value` by the caller -/
def callerSetsCentroid (M : Meas α) (s : St α) (value : V3 α) : St α := setCentroid M s value

/-- the answers of a history of queries, in order (each one as the caller sees it when it is given) -/
def runAnswers (M : Meas α) : List Query → St α → List (Answer α)
  | [], _ => []
  | q :: qs, s => answerOf (run M q s) :: runAnswers M qs (run M q s).1

/-! ## what `to_hoomd` does to one coordinate

`self.centroid = (0, 0, 0)` adds `0 − c₀` (the centroid read at the start), `self.centroid = old_centroid`
adds `c₀ − c₁` (`c₁` = the centroid the getter reports for the centred shape); both `+=` run in the
scalar arithmetic, in this order. -/
def roundTrip (c0 c1 x : α) : α := (x + (lit 0 - c0)) + (c0 - c1)

/-- three functions applied down the columns of an `(N,3)` array -/
def mapRows (f g h : α → α) : Arr α → Arr α
  | x :: y :: z :: r => f x :: g y :: h z :: mapRows f g h r
  | l => l

/-! ## constructors

The caller's arrays live in the heap before the call (`np.ndarray` arguments of any dtype, layout or
view; a list / tuple argument has no identity a shape could keep, so it is the same case with an
array nobody else holds). Every constructor starts with `np.array(arg, dtype=np.float64)`, which
ALWAYS allocates:

* curved: `self.centroid = center` → setter → `self._centroid = np.array(value)`;
* `Polygon`: `vertices = np.array(vertices, dtype=np.float64)`; `(N,2)`: `self._vertices =
  np.hstack((vertices, zeros))` (another new array), else `self._vertices = vertices` (the copy);
  `computed_normal` new; `normal` given: `norm_normal = np.array(normal, dtype=np.float64)` (copy),
  `norm_normal /= np.linalg.norm(normal)` IN PLACE on the copy;
* `ConvexPolygon` (also the core of `ConvexSpheropolygon`): then `_reorder_verts`:
  `self._vertices = self._vertices[vert_order, :]` (fancy index: new array);
* `Polyhedron`: `self._vertices = np.array(vertices, …)`, `_find_equations()` (new);
* `ConvexPolyhedron` (also the core of `ConvexSpheropolyhedron`): copy, then Qhull's
  `equations`, `volume`, … and the computed `_centroid` — explicit arguments here.

Validation (`ValueError` for bad geometry) is property C15; this is the accepting path. -/

/-- what is handed to a constructor and what the external routines return during construction -/
structure CtorIn (α : Type) where
  /-- the caller's `vertices` array (vertex classes) -/
  verts : Id
  /-- the input is `(N, 2)` -/
  twoCols : Bool
  /-- the caller's `normal` array, when one is passed (planar classes) -/
  normal : Option Id
  /-- the caller's `center` array (curved classes) -/
  center : Id
  /-- radius / a, b, c / `_area` -/
  consts : List α
  /-- `np.cross(v₂ − v₁, v₀ − v₁)` normalised -/
  computedNormal : Arr α
  /-- `_reorder_verts`: the rows in the order `np.lexsort((distances, angles))` gives -/
  order : Arr α → Arr α
  /-- `_find_equations()` / Qhull's merged facets -/
  eqs : Arr α
  /-- Qhull's simplex equations -/
  seqs : Arr α
  /-- `_centroid` as computed at construction -/
  cen : Arr α
  /-- `hull.volume` -/
  volume : α

/-- `np.hstack((vertices, np.zeros((N, 1))))` of an `(N,2)` array -/
def pad2 : Arr α → Arr α
  | x :: y :: r => x :: y :: lit 0 :: pad2 r
  | _ => []

/-- `n /= np.linalg.norm(n)` of a `(3,)` array -/
def normalise : Arr α → Arr α
  | [x, y, z] => [x / Scalar.sqrt (x * x + y * y + z * z), y / Scalar.sqrt (x * x + y * y + z * z),
                  z / Scalar.sqrt (x * x + y * y + z * z)]
  | l => l

/-- an object with no attribute bound yet: five distinct placeholder arrays (`None`) -/
def blank (cls : Cls) (h : Heap α) (next : Id) (consts : List α) (args : List Id) : St α :=
  { heap := Heap.set (Heap.set (Heap.set (Heap.set (Heap.set h next []) (next + 1) []) (next + 2) [])
      (next + 3) []) (next + 4) [],
    next := next + 5, cls := cls, fVerts := next, fNormal := next + 1, fCen := next + 2, fEqs := next + 3,
    fSeqs := next + 4, volume := lit 0, consts := consts, cAreas := none, cFaceCen := none, cEdges := none,
    handed := [], args := args }

/-- `Polygon.__init__`, the vertices: `np.array(vertices, dtype=np.float64)`, for `(N,2)` input then
`np.hstack((vertices, np.zeros((N, 1))))` -/
def ctorVerts (c : CtorIn α) (s : St α) : St α :=
  let s1 := (s.alloc (s.get c.verts)).setVerts s.next
  if c.twoCols then (s1.alloc (pad2 (s1.get s1.fVerts))).setVerts s1.next else s1

/-- `Polygon.__init__`, the normal: `computed_normal` (new); when a normal is passed
`norm_normal = np.array(normal, dtype=np.float64); norm_normal /= np.linalg.norm(normal)` (in place,
on the copy) -/
def ctorNormal (c : CtorIn α) (s : St α) : St α :=
  let s1 := (s.alloc c.computedNormal).setNormal s.next
  match c.normal with
  | none => s1
  | some n =>
      let s2 := s1.alloc (s1.get n)
      (s2.write s1.next (normalise (s2.get s1.next))).setNormal s1.next

/-- `Polygon.__init__` after the checks -/
def constructPlanar (c : CtorIn α) (s : St α) : St α := ctorNormal c (ctorVerts c s)

/-- the constructor of every class, on the accepting path. `h`, `next`: the heap with the caller's
arrays in it. The caller's arrays are recorded in `args`. -/
def construct (cls : Cls) (c : CtorIn α) (h : Heap α) (next : Id) : St α :=
  match cls with
  | .circle | .ellipse | .sphere | .ellipsoid =>
      let s := blank cls h next c.consts [c.center]
      -- `self.centroid = center` → `self._centroid = np.array(value)`
      (s.alloc (s.get c.center)).setCen s.next
  | .polygon =>
      constructPlanar c (blank cls h next c.consts (c.verts :: c.normal.toList))
  | .convexPolygon | .spheropolygon =>
      let s := constructPlanar c (blank cls h next c.consts (c.verts :: c.normal.toList))
      -- `_reorder_verts`: `self._vertices = self._vertices[vert_order, :]`
      (s.alloc (c.order (s.get s.fVerts))).setVerts s.next
  | .polyhedron =>
      let s := blank cls h next c.consts [c.verts]
      let s1 := (s.alloc (s.get c.verts)).setVerts s.next
      (s1.alloc c.eqs).setEqs s1.next
  | .convexPolyhedron | .spheropolyhedron =>
      let s := blank cls h next c.consts [c.verts]
      let s1 := (s.alloc (s.get c.verts)).setVerts s.next
      let s2 := (s1.alloc c.seqs).setSeqs s1.next
      let s3 := (s2.alloc c.eqs).setEqs s2.next
      let s4 := (s3.alloc c.cen).setCen s3.next
      s4.setVolume c.volume

/-- NOT the code: `Polygon.__init__` with `np.asarray` in place of `np.array` for an `(N,3)` float64
C-contiguous input (no copy is made: the caller's array becomes `_vertices`). Used only to show
that the copy is what the theorems rest on. -/
def constructPlanarNoCopy (c : CtorIn α) (s : St α) : St α :=
  let s1 := s.setVerts c.verts
  (s1.alloc c.computedNormal).setNormal s1.next

end C16
