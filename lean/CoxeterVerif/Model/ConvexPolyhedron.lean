import CoxeterVerif.Vec
/-!
  Model of the measure code of `coxeter/shapes/convex_polyhedron.py`, written over the
  list `S` of surface triangles `vertices[simplices]` (what the Python indexes out of its
  arrays) — same formulas, same constants, same statement order.
-/
namespace CP
variable {α : Type} [Scalar α]
open Scalar

/-- `_calculate_signed_volume`: `np.sum(np.linalg.det(vertices[simplices]) / 6)` -/
def signedVolume (S : List (Tri α)) : α :=
  Scalar.sum (S.map fun t => V3.det3 t.a t.b t.c / lit 6)

/-- `self._volume = abs(signed_volume)` -/
def volume (S : List (Tri α)) : α := Scalar.abs (signedVolume S)

/-- per-triangle term of `_centroid_from_triangulated_surface`:
    `n * ((a+b)**2 + (b+c)**2 + (a+c)**2)` with `n = cross(b-a, c-a)` -/
def centroidTerm (t : Tri α) : V3 α :=
  let n := V3.cross (t.b - t.a) (t.c - t.a)
  let ab := t.a + t.b
  let bc := t.b + t.c
  let ac := t.a + t.c
  V3.had n (V3.had ab ab + V3.had bc bc + V3.had ac ac)

/-- `_centroid_from_triangulated_surface`: `1/(48*volume) * sum(...)` -/
def centroid (S : List (Tri α)) (vol : α) : V3 α :=
  V3.smul (lit 1 / (lit 48 * vol)) (V3.sum (S.map centroidTerm))

/-- `_find_triangle_array_area(..., sum_result=False)`: |cross(c-b, a-b)|/2 per triangle -/
def triArea (t : Tri α) : α := V3.norm (V3.cross (t.c - t.b) (t.a - t.b)) / lit 2

/-- `_find_simplex_equations`: unit normal `cross(b-a, c-a)/|…|` -/
def simplexNormal (t : Tri α) : V3 α :=
  let n := V3.cross (t.b - t.a) (t.c - t.a)
  V3.sdiv n (V3.norm n)

/-- surface area: `np.sum(norm(cross))/2` -/
def surfaceArea (S : List (Tri α)) : α := Scalar.sum (S.map triArea)

/-- the four quadrature points of `_quadrature_points` for a (centred) triangle -/
def quadPoints (t : Tri α) : List (V3 α) :=
  [ V3.sdiv (V3.smul (q 5 3) t.a + V3.smul (q 5 3) t.b + V3.smul (q 5 3) t.c) (lit 5),
    V3.sdiv (V3.smul (lit 1) t.a + V3.smul (lit 1) t.b + V3.smul (lit 3) t.c) (lit 5),
    V3.sdiv (V3.smul (lit 3) t.a + V3.smul (lit 1) t.b + V3.smul (lit 1) t.c) (lit 5),
    V3.sdiv (V3.smul (lit 1) t.a + V3.smul (lit 3) t.b + V3.smul (lit 1) t.c) (lit 5) ]

/-- quadrature weights `[-9/16, 25/48, 25/48, 25/48]` -/
def quadWeights : List α := [-(q 9 16), q 25 48, q 25 48, q 25 48]

/-- Σ_k w_k f(q_k) -/
def quad (t : Tri α) (f : V3 α → α) : α :=
  Scalar.sum (List.zipWith (fun w p => w * f p) quadWeights (quadPoints t))

/-- `i_nn` for one simplex: `Σ_{i∈sub} n_i · at · Σ_k w_k q_{k,i}³` (the `/6` is applied to the total) -/
def innTerm (n : V3 α) (at2 : α) (tc : Tri α) (s0 s1 : Nat) : α :=
  n.get s0 * at2 * quad tc (fun p => cube (p.get s0)) +
  n.get s1 * at2 * quad tc (fun p => cube (p.get s1))

/-- `i_nm` for one simplex (the `-(…)/8` is applied to the total) -/
def inmTerm (n : V3 α) (at2 : α) (tc : Tri α) (s0 s1 : Nat) : α :=
  quad tc (fun p => sqr (p.get s0) * p.get s1) * n.get s0 * at2 +
  quad tc (fun p => p.get s0 * sqr (p.get s1)) * n.get s1 * at2

/-- `_compute_inertia_tensor(centered=True)`. `S` are the uncentred surface triangles (their
    stored unit normals are `simplexNormal`), `c` the stored centroid. -/
def inertiaCentred (S : List (Tri α)) (c : V3 α) : M3 α :=
  let data := S.map fun t =>
    let tc := t.map (· - c)
    (simplexNormal t, triArea tc * lit 2, tc)
  let inn (s0 s1 : Nat) : α :=
    Scalar.sum (data.map fun d => innTerm d.1 d.2.1 d.2.2 s0 s1) / lit 6
  let inm (s0 s1 : Nat) : α :=
    -(Scalar.sum (data.map fun d => inmTerm d.1 d.2.1 d.2.2 s0 s1)) / lit 8
  let ixx := inn 1 2
  let ixy := inm 0 1
  let ixz := inm 0 2
  let iyy := inn 0 2
  let iyz := inm 1 2
  let izz := inn 0 1
  ⟨ixx, ixy, ixz, ixy, iyy, iyz, ixz, iyz, izz⟩

/-- `utils.translate_inertia_tensor(displacement, I, volume)`:
    `I + volume * (|d|² 1 − d dᵀ)` -/
def translateInertia (d : V3 α) (I : M3 α) (vol : α) : M3 α :=
  let inner := V3.dot d d
  ⟨I.xx + vol * (inner - d.x * d.x), I.xy + vol * (lit 0 - d.x * d.y), I.xz + vol * (lit 0 - d.x * d.z),
   I.yx + vol * (lit 0 - d.y * d.x), I.yy + vol * (inner - d.y * d.y), I.yz + vol * (lit 0 - d.y * d.z),
   I.zx + vol * (lit 0 - d.z * d.x), I.zy + vol * (lit 0 - d.z * d.y), I.zz + vol * (inner - d.z * d.z)⟩

/-- `inertia_tensor` property -/
def inertia (S : List (Tri α)) (c : V3 α) (vol : α) : M3 α :=
  translateInertia c (inertiaCentred S c) vol

/-- `get_face_area` for one face given as the list of its coplanar simplices -/
def faceArea (simps : List (Tri α)) : α := Scalar.sum (simps.map triArea)

/-- `_find_face_centroids` for one face: Σ centroid_k·area_k / Σ area_k,
    simplex centroid = `np.mean` of the three vertices -/
def faceCentroid (simps : List (Tri α)) : V3 α :=
  let num := V3.sum (simps.map fun t => V3.smul (triArea t) (V3.sdiv (t.a + t.b + t.c) (lit 3)))
  V3.sdiv num (Scalar.sum (simps.map triArea))

/-! ### what the object reads from its caches

`inertia_tensor` → `_compute_inertia_tensor` does not recompute the simplex normals: it reads
`self._simplex_equations[:, :3]`, an array filled by `_find_simplex_equations` at construction, by
`centroid.setter` and by `diagonalize_inertia`, and left alone by `_rescale`. -/

/-- `_compute_inertia_tensor(centered=True)` with the unit normals `N` as the code has them (the cached
    `_simplex_equations[:, :3]`, one row per simplex) and the triangles of the current vertices. -/
def inertiaCentredWith (S : List (Tri α)) (N : List (V3 α)) (c : V3 α) : M3 α :=
  let data := List.zipWith (fun t n =>
    let tc := t.map (· - c)
    (n, triArea tc * lit 2, tc)) S N
  let inn (s0 s1 : Nat) : α :=
    Scalar.sum (data.map fun d => innTerm d.1 d.2.1 d.2.2 s0 s1) / lit 6
  let inm (s0 s1 : Nat) : α :=
    -(Scalar.sum (data.map fun d => inmTerm d.1 d.2.1 d.2.2 s0 s1)) / lit 8
  let ixx := inn 1 2
  let ixy := inm 0 1
  let ixz := inm 0 2
  let iyy := inn 0 2
  let iyz := inm 1 2
  let izz := inn 0 1
  ⟨ixx, ixy, ixz, ixy, iyy, iyz, ixz, iyz, izz⟩

/-- `inertia_tensor` from the cached normals, centroid and volume -/
def inertiaWith (S : List (Tri α)) (N : List (V3 α)) (c : V3 α) (vol : α) : M3 α :=
  translateInertia c (inertiaCentredWith S N c) vol

/-! ### `_combine_simplices`: grouping of Qhull's simplices into faces

`eqs` are Qhull's `hull.equations` (one `(normal, offset)` row per simplex; an INPUT of the model),
`tol = 2e-15` the default of the method. -/

/-- `np.all(np.abs(eq_i - eq_j) < tol)` over the four columns -/
def eqClose (tol : α) (e f : V3 α × α) : Bool :=
  decide (Scalar.abs (e.1.x - f.1.x) < tol) && decide (Scalar.abs (e.1.y - f.1.y) < tol) &&
  decide (Scalar.abs (e.1.z - f.1.z) < tol) && decide (Scalar.abs (e.2 - f.2) < tol)

/-- row `i` of `is_coplanar.nonzero()`: the indices `j` (ascending) with `eqClose eq_i eq_j` -/
def coplanarRows (tol : α) (eqs : List (V3 α × α)) : List (List Nat) :=
  eqs.map fun e => (eqs.zipIdx.filter fun p => eqClose tol e p.1).map (·.2)

/-- `sorted(set(map(tuple, coplanar_indices)), key=lambda x: x[0])`: duplicates removed, stable sort by the
    first index (Python's `set` order among rows with EQUAL first index is unspecified: such rows only
    exist when the tolerance relation is not transitive on the run's equations — see `groupsPartition`). -/
def combineSimplices (tol : α) (eqs : List (V3 α × α)) : List (List Nat) :=
  (coplanarRows tol eqs).eraseDups.mergeSort fun a b => a.headD 0 ≤ b.headD 0

/-- the face groups are a partition of `range n` (what `get_face_area`, `face_centroids` and the total
    area silently rely on): decidable, evaluated by the driver on the implementation's `_coplanar_simplices` -/
def groupsPartition (n : Nat) (groups : List (List Nat)) : Bool :=
  (List.range n).isPerm groups.flatten

/-- the simplices of one face group -/
def faceSimplices (S : List (Tri α)) (g : List Nat) : List (Tri α) :=
  g.map fun i => S.getD i ⟨V3.zero, V3.zero, V3.zero⟩

end CP
