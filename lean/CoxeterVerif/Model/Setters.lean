import CoxeterVerif.Model.Mutable2
import CoxeterVerif.Model.Curved
import CoxeterVerif.Model.Steiner
import CoxeterVerif.Model.Balls
/-!
  C08 — every settable property of the ten shape classes as a model step.

  For each class: an enumeration `…Prop` of its scalar settable properties (what reflection over
  `type(shape)` finds: every `property` with an `fset`), their Python names, a getter
  `get : Prop → State → Except String α` (what `getattr(shape, name)` evaluates) and a setter
  `set : Prop → State → α → Except String State` (what `setattr(shape, name, value)` does: same
  guard, same scale-factor expression, same statement order as the Python).  The vector-valued
  settable properties (`centroid`, `center`) are listed in `vecProps` and modelled by `setCentre`.

  The vertex-based classes reuse the state machines of `Model/Mutable.lean`, `Model/Mutable2.lean`
  (untouched); the curved classes (`Circle`, `Sphere`, `Ellipse`, `Ellipsoid`) get theirs here.

  External inputs (explicit arguments): values of getters that are not closed forms of the model
  (`ball : Prop → State → Except String α`: circumsphere / insphere by `lstsq`, miniball; a getter that
  raises — `NotImplementedError`, `RuntimeError` "no circumsphere" — is `.error kind`), and the
  `scipy.special` elliptic integrals.  No Mathlib.
-/
namespace Setters
variable {α : Type} [Scalar α]
open Scalar Mut

/-- `if not value > 0: raise ValueError(...)` (equivalently `if value > 0: … else: raise …`) -/
def guardPos (v : α) : Except String Unit := if lit 0 < v then pure () else throw "ValueError"

/-- the factor a guarded size setter hands to `_rescale`: guard FIRST, then the getter is read
    (it may raise), then `(value / current) ^ (1/degree)` -/
def factorE (deg : Nat) (cur : Except String α) (v : α) : Except String α := do
  guardPos v
  let c ← cur
  setterFactor deg c v

/-- the ten classes, in the harness's order -/
inductive Cls
  | convexPolyhedron | polyhedron | convexSpheropolyhedron | polygon | convexPolygon
  | convexSpheropolygon | circle | ellipse | sphere | ellipsoid
  deriving DecidableEq, Repr

def Cls.all : List Cls :=
  [.convexPolyhedron, .polyhedron, .convexSpheropolyhedron, .polygon, .convexPolygon,
   .convexSpheropolygon, .circle, .ellipse, .sphere, .ellipsoid]

def Cls.name : Cls → String
  | .convexPolyhedron => "ConvexPolyhedron" | .polyhedron => "Polyhedron"
  | .convexSpheropolyhedron => "ConvexSpheropolyhedron" | .polygon => "Polygon"
  | .convexPolygon => "ConvexPolygon" | .convexSpheropolygon => "ConvexSpheropolygon"
  | .circle => "Circle" | .ellipse => "Ellipse" | .sphere => "Sphere" | .ellipsoid => "Ellipsoid"

/-! ### the four generic ball radii of `Shape2D` / `Shape3D` (base_classes.py) -/

inductive BallProp
  | minBounding | minCentered | maxBounded | maxCentered
  deriving DecidableEq, Repr

def BallProp.all : List BallProp := [.minBounding, .minCentered, .maxBounded, .maxCentered]

/-- `dim` = "sphere" / "circle" -/
def BallProp.name (dim : String) : BallProp → String
  | .minBounding => "minimal_bounding_" ++ dim ++ "_radius"
  | .minCentered => "minimal_centered_bounding_" ++ dim ++ "_radius"
  | .maxBounded => "maximal_bounded_" ++ dim ++ "_radius"
  | .maxCentered => "maximal_centered_bounded_" ++ dim ++ "_radius"

/-! ### Polyhedron / ConvexPolyhedron (3-D vertex classes) -/

inductive P3Prop
  | volume | surfaceArea | circumsphereRadius | insphereRadius | ball (bp : BallProp)
  deriving DecidableEq, Repr

namespace P3Prop
def all : List P3Prop := [.volume, .surfaceArea, .circumsphereRadius, .insphereRadius] ++ BallProp.all.map .ball
def name : P3Prop → String
  | .volume => "volume" | .surfaceArea => "surface_area" | .circumsphereRadius => "circumsphere_radius"
  | .insphereRadius => "insphere_radius" | .ball bp => bp.name "sphere"
/-- length-degree of the property = the root the setter takes -/
def deg : P3Prop → Nat
  | .volume => 3 | .surfaceArea => 2 | _ => 1
end P3Prop

namespace ConvexPolyhedron
/-- the plane equations as `(normal, offset)` pairs -/
def eqs (s : CPState α) : List (V3 α × α) := s.eqN.zip s.eqD

/-- getters: `_volume`, `_area` are cached fields; the two centred balls are closed forms of the
    state (`center` = `centroid` = the cached `_centroid`); circumsphere / insphere (`lstsq`), minimal
    bounding sphere (miniball), maximal bounded sphere (`NotImplementedError`) are external -/
def get (ball : P3Prop → CPState α → Except String α) (p : P3Prop) (s : CPState α) : Except String α :=
  match p with
  | .volume => pure s.volume
  | .surfaceArea => pure s.area
  | .ball .minCentered => do
      let b ← Balls.minimalCenteredBounding s.verts s.centroid
      pure b.radius
  | .ball .maxCentered => do
      let b ← Balls.maximalCenteredBoundedSphere (eqs s) s.centroid
      pure b.radius
  | p => ball p s

/-- every scalar setter: guard, factor from the getter, `_rescale` -/
def set (ball : P3Prop → CPState α → Except String α) (p : P3Prop) (s : CPState α) (v : α) :
    Except String (CPState α) := do
  let k ← factorE p.deg (get ball p s) v
  pure (s.rescale k)

def vecProps : List String := ["center", "centroid"]
/-- `centroid.setter` (and the alias `center`) -/
def setCentre (s : CPState α) (c : V3 α) : CPState α := s.setCentroid c
end ConvexPolyhedron

namespace Polyhedron
/-- getters: volume and surface area are closed forms of the state; everything else is external
    (`minimal_centered_bounding_sphere`, `maximal_*` raise `NotImplementedError` on this class) -/
def get (ball : P3Prop → PHState α → Except String α) (p : P3Prop) (s : PHState α) : Except String α :=
  match p with
  | .volume => pure s.volume
  | .surfaceArea => pure s.surfaceArea
  | p => ball p s

def set (ball : P3Prop → PHState α → Except String α) (p : P3Prop) (s : PHState α) (v : α) :
    Except String (PHState α) := do
  let k ← factorE p.deg (get ball p s) v
  pure (s.rescale k)

def vecProps : List String := ["center", "centroid"]
/-- `centroid.setter`; `cur` = the value of the (Eberly) centroid getter -/
def setCentre (s : PHState α) (cur c : V3 α) : PHState α := s.setCentroid cur c
end Polyhedron

/-! ### Polygon / ConvexPolygon -/

inductive P2Prop
  | area | perimeter | circumcircleRadius | incircleRadius | ball (bp : BallProp)
  deriving DecidableEq, Repr

namespace P2Prop
def all : List P2Prop := [.area, .perimeter, .circumcircleRadius, .incircleRadius] ++ BallProp.all.map .ball
def name : P2Prop → String
  | .area => "area" | .perimeter => "perimeter" | .circumcircleRadius => "circumcircle_radius"
  | .incircleRadius => "incircle_radius" | .ball bp => bp.name "circle"
def deg : P2Prop → Nat
  | .area => 2 | _ => 1
end P2Prop

namespace Polygon
def get (ball : P2Prop → PGState α → Except String α) (p : P2Prop) (s : PGState α) : Except String α :=
  match p with
  | .area => pure s.area
  | .perimeter => pure s.perimeter
  | p => ball p s

def set (ball : P2Prop → PGState α → Except String α) (p : P2Prop) (s : PGState α) (v : α) :
    Except String (PGState α) := do
  let k ← factorE p.deg (get ball p s) v
  pure (s.rescale k)

def vecProps : List String := ["center", "centroid"]
def setCentre (s : PGState α) (cur c : V3 α) : PGState α := s.setCentroid cur c
end Polygon

/-! ### ConvexSpheropolygon -/

inductive SPGProp
  | radius | area | perimeter | ball (bp : BallProp)
  deriving DecidableEq, Repr

namespace SPGProp
def all : List SPGProp := [.radius, .area, .perimeter] ++ BallProp.all.map .ball
def name : SPGProp → String
  | .radius => "radius" | .area => "area" | .perimeter => "perimeter" | .ball bp => bp.name "circle"
def deg : SPGProp → Nat
  | .area => 2 | _ => 1
/-- the rounding radius is a shape parameter: stored as given (guard `>= 0`), no rescaling -/
def isShapeParam : SPGProp → Bool
  | .radius => true | _ => false
end SPGProp

namespace Spheropolygon
/-- the four ball getters raise `NotImplementedError` on this class (external all the same) -/
def get (ball : SPGProp → SPGState α → Except String α) (p : SPGProp) (s : SPGState α) : Except String α :=
  match p with
  | .radius => pure s.radius
  | .area => pure s.area
  | .perimeter => pure s.perimeter
  | p => ball p s

def set (ball : SPGProp → SPGState α → Except String α) (p : SPGProp) (s : SPGState α) (v : α) :
    Except String (SPGState α) :=
  match p with
  | .radius => s.setRadiusAbs v
  | p => do
      let k ← factorE p.deg (get ball p s) v
      s.rescale k

/-- `center` is settable by reflection (`Shape.center.setter`), but `self.centroid = value` has no
    setter on this class: `AttributeError`, nothing changes -/
def vecProps : List String := ["center"]
def setCentre (_s : SPGState α) (_c : V3 α) : Except String (SPGState α) := throw "AttributeError"
end Spheropolygon

/-! ### ConvexSpheropolyhedron -/

inductive SPHProp
  | radius | volume | surfaceArea | meanCurvature | ball (bp : BallProp)
  deriving DecidableEq, Repr

namespace SPHProp
def all : List SPHProp := [.radius, .volume, .surfaceArea, .meanCurvature] ++ BallProp.all.map .ball
def name : SPHProp → String
  | .radius => "radius" | .volume => "volume" | .surfaceArea => "surface_area"
  | .meanCurvature => "mean_curvature" | .ball bp => bp.name "sphere"
def deg : SPHProp → Nat
  | .volume => 3 | .surfaceArea => 2 | _ => 1
def isShapeParam : SPHProp → Bool
  | .radius => true | _ => false
end SPHProp

namespace Spheropolyhedron

/-- what the curvature loops read from the core: current vertices, the normals
    `_equations[:, :3]`, the cached `_volume` / `_area`; `fi` = `_get_face_intersections()`
    (a function of `_faces`, which no setter touches) -/
def coreOf (s : SPHState α) (fi : List Steiner.FaceIx) : Steiner.Core α :=
  ⟨s.core.verts, s.core.eqN, fi, s.core.volume, s.core.area⟩

/-- the getters as the Python computes them: sums over the edges `(i, j, edge)` of
    `(π − φ_ij)·L_edge` terms (`Model/Steiner.lean`) on the current core -/
def get (fi : List Steiner.FaceIx) (ball : SPHProp → SPHState α → Except String α) (p : SPHProp)
    (s : SPHState α) : Except String α :=
  match p with
  | .radius => pure s.radius
  | .volume => Steiner.SpheroPolyhedron.volume (coreOf s fi) s.radius
  | .surfaceArea => Steiner.SpheroPolyhedron.surfaceArea (coreOf s fi) s.radius
  | .meanCurvature => Steiner.SpheroPolyhedron.meanCurvature (coreOf s fi) s.radius
  | p => ball p s

/-- `radius.setter` stores; every other setter: guard, factor from its getter, `_rescale`
    (`self.polyhedron._rescale(scale); self.radius *= scale`) -/
def set (fi : List Steiner.FaceIx) (ball : SPHProp → SPHState α → Except String α) (p : SPHProp)
    (s : SPHState α) (v : α) : Except String (SPHState α) :=
  match p with
  | .radius => s.setRadiusAbs v
  | p => do
      let k ← factorE p.deg (get fi ball p s) v
      s.rescale k

def vecProps : List String := ["center"]
def setCentre (_s : SPHState α) (_c : V3 α) : Except String (SPHState α) := throw "AttributeError"
end Spheropolyhedron

/-! ### Circle -/

structure CircleS (α : Type) where
  radius : α
  cen : V3 α

inductive CircleProp
  | radius | area | perimeter | circumference | ball (bp : BallProp)
  deriving DecidableEq, Repr

namespace CircleProp
def all : List CircleProp := [.radius, .area, .perimeter, .circumference] ++ BallProp.all.map .ball
def name : CircleProp → String
  | .radius => "radius" | .area => "area" | .perimeter => "perimeter" | .circumference => "circumference"
  | .ball bp => bp.name "circle"
end CircleProp

namespace CircleS
/-- `Circle(radius, center)`: `self.radius = radius` (guarded), `self.centroid = center` -/
def mk' (r : α) (c : V3 α) : Except String (CircleS α) :=
  if lit 0 < r then pure ⟨r, c⟩ else throw "ValueError"

/-- `radius.setter`: `if value > 0: self._radius = value else: raise ValueError` -/
def setRadius (s : CircleS α) (v : α) : Except String (CircleS α) :=
  if lit 0 < v then pure { s with radius := v } else throw "ValueError"

/-- `_rescale`: `self.radius *= scale` (through `radius.setter`) -/
def rescale (s : CircleS α) (k : α) : Except String (CircleS α) := s.setRadius (s.radius * k)

/-- getters; all four ball properties build `Circle(self.radius, self.centroid)` and read its radius -/
def get (p : CircleProp) (s : CircleS α) : Except String α :=
  match p with
  | .radius => pure s.radius
  | .area => pure (Curved.Circle.area s.radius)
  | .perimeter => pure (Curved.Circle.perimeter s.radius)
  | .circumference => pure (Curved.Circle.circumference s.radius)
  | .ball _ => do
      let b ← mk' s.radius s.cen
      pure b.radius

/-- `perimeter.setter`: `if value > 0: self.radius = value / (2 * np.pi)` -/
def setPerimeter (s : CircleS α) (v : α) : Except String (CircleS α) :=
  if lit 0 < v then s.setRadius (v / (lit 2 * pi)) else throw "ValueError"

def set (p : CircleProp) (s : CircleS α) (v : α) : Except String (CircleS α) :=
  match p with
  | .radius => s.setRadius v
  | .area => if lit 0 < v then s.setRadius (Scalar.sqrt (v / pi)) else throw "ValueError"
  | .perimeter => s.setPerimeter v
  | .circumference => s.setPerimeter v          -- `self.perimeter = value`
  | .ball b => do                                -- `Shape2D` generic: guard, `_rescale(value / getter)`
      guardPos v
      let cur ← get (.ball b) s
      s.rescale (v / cur)

def vecProps : List String := ["center", "centroid"]
/-- `centroid.setter`: `self._centroid = np.array(value)` -/
def setCentre (s : CircleS α) (c : V3 α) : CircleS α := { s with cen := c }
end CircleS

/-! ### Sphere -/

structure SphereS (α : Type) where
  radius : α
  cen : V3 α

inductive SphereProp
  | radius | diameter | volume | surfaceArea | ball (bp : BallProp)
  deriving DecidableEq, Repr

namespace SphereProp
def all : List SphereProp := [.radius, .diameter, .volume, .surfaceArea] ++ BallProp.all.map .ball
def name : SphereProp → String
  | .radius => "radius" | .diameter => "diameter" | .volume => "volume" | .surfaceArea => "surface_area"
  | .ball bp => bp.name "sphere"
end SphereProp

namespace SphereS
def mk' (r : α) (c : V3 α) : Except String (SphereS α) :=
  if lit 0 < r then pure ⟨r, c⟩ else throw "ValueError"

def setRadius (s : SphereS α) (v : α) : Except String (SphereS α) :=
  if lit 0 < v then pure { s with radius := v } else throw "ValueError"

def rescale (s : SphereS α) (k : α) : Except String (SphereS α) := s.setRadius (s.radius * k)

def get (p : SphereProp) (s : SphereS α) : Except String α :=
  match p with
  | .radius => pure s.radius
  | .diameter => pure (Curved.Sphere.diameter s.radius)
  | .volume => pure (Curved.Sphere.volume s.radius)
  | .surfaceArea => pure (Curved.Sphere.surfaceArea s.radius)
  | .ball _ => do
      let b ← mk' s.radius s.cen
      pure b.radius

def set (p : SphereProp) (s : SphereS α) (v : α) : Except String (SphereS α) :=
  match p with
  | .radius => s.setRadius v
  -- `if value > 0: self._radius = value / 2` (stores directly)
  | .diameter => if lit 0 < v then pure { s with radius := v / lit 2 } else throw "ValueError"
  -- `self.radius = (3 * value / (4 * np.pi)) ** (1 / 3)` (cube root of a positive number)
  | .volume => if lit 0 < v then s.setRadius (Scalar.cbrt (lit 3 * v / (lit 4 * pi))) else throw "ValueError"
  -- `self.radius = np.sqrt(value / (4 * np.pi))`
  | .surfaceArea => if lit 0 < v then s.setRadius (Scalar.sqrt (v / (lit 4 * pi))) else throw "ValueError"
  | .ball b => do
      guardPos v
      let cur ← get (.ball b) s
      s.rescale (v / cur)

def vecProps : List String := ["center", "centroid"]
def setCentre (s : SphereS α) (c : V3 α) : SphereS α := { s with cen := c }
end SphereS

/-! ### Ellipse -/

structure EllipseS (α : Type) where
  a : α
  b : α
  cen : V3 α

inductive EllipseProp
  | a | b | area | perimeter | circumference | ball (bp : BallProp)
  deriving DecidableEq, Repr

namespace EllipseProp
def all : List EllipseProp := [.a, .b, .area, .perimeter, .circumference] ++ BallProp.all.map .ball
def name : EllipseProp → String
  | .a => "a" | .b => "b" | .area => "area" | .perimeter => "perimeter" | .circumference => "circumference"
  | .ball bp => bp.name "circle"
/-- a semi-axis is a shape parameter: stored as given (guard `> 0`), nothing else changes -/
def isShapeParam : EllipseProp → Bool
  | .a => true | .b => true | _ => false
end EllipseProp

namespace EllipseS
def setA (s : EllipseS α) (v : α) : Except String (EllipseS α) :=
  if lit 0 < v then pure { s with a := v } else throw "ValueError"
def setB (s : EllipseS α) (v : α) : Except String (EllipseS α) :=
  if lit 0 < v then pure { s with b := v } else throw "ValueError"

/-- `_rescale`: `self.a *= scale; self.b *= scale` (two guarded assignments in sequence) -/
def rescale (s : EllipseS α) (k : α) : Except String (EllipseS α) := do
  let s1 ← s.setA (s.a * k)
  s1.setB (s1.b * k)

/-- `Circle(max(self.a, self.b), c)` / `Circle(min(self.a, self.b), c)`; Python's `max(x, y)`
    returns `y` iff `y > x`, `min(x, y)` returns `y` iff `y < x` -/
def ballRadius (bp : BallProp) (s : EllipseS α) : Except String α :=
  let r := match bp with
    | .minBounding | .minCentered => Scalar.max s.a s.b
    | .maxBounded | .maxCentered => Scalar.min s.a s.b
  do let c ← CircleS.mk' r s.cen; pure c.radius

def get (ellipe : α → α) (p : EllipseProp) (s : EllipseS α) : Except String α :=
  match p with
  | .a => pure s.a
  | .b => pure s.b
  | .area => pure (Curved.Ellipse.area s.a s.b)
  | .perimeter => pure (Curved.Ellipse.perimeter ellipe s.a s.b)
  | .circumference => pure (Curved.Ellipse.circumference ellipe s.a s.b)
  | .ball bp => ballRadius bp s

/-- `perimeter.setter`: `if value > 0: scale = value / self.perimeter; self._rescale(scale)` -/
def setPerimeter (ellipe : α → α) (s : EllipseS α) (v : α) : Except String (EllipseS α) :=
  if lit 0 < v then s.rescale (v / Curved.Ellipse.perimeter ellipe s.a s.b) else throw "ValueError"

def set (ellipe : α → α) (p : EllipseProp) (s : EllipseS α) (v : α) : Except String (EllipseS α) :=
  match p with
  | .a => s.setA v
  | .b => s.setB v
  -- `scale = np.sqrt(value / self.area); self._rescale(scale)`
  | .area => if lit 0 < v then s.rescale (Scalar.sqrt (v / Curved.Ellipse.area s.a s.b)) else throw "ValueError"
  | .perimeter => s.setPerimeter ellipe v
  | .circumference => s.setPerimeter ellipe v
  | .ball bp => do
      guardPos v
      let cur ← ballRadius bp s
      s.rescale (v / cur)

def vecProps : List String := ["center", "centroid"]
def setCentre (s : EllipseS α) (c : V3 α) : EllipseS α := { s with cen := c }
end EllipseS

/-! ### Ellipsoid -/

structure EllipsoidS (α : Type) where
  a : α
  b : α
  c : α
  cen : V3 α

inductive EllipsoidProp
  | a | b | c | volume | surfaceArea | ball (bp : BallProp)
  deriving DecidableEq, Repr

namespace EllipsoidProp
def all : List EllipsoidProp := [.a, .b, .c, .volume, .surfaceArea] ++ BallProp.all.map .ball
def name : EllipsoidProp → String
  | .a => "a" | .b => "b" | .c => "c" | .volume => "volume" | .surfaceArea => "surface_area"
  | .ball bp => bp.name "sphere"
def isShapeParam : EllipsoidProp → Bool
  | .a => true | .b => true | .c => true | _ => false
end EllipsoidProp

namespace EllipsoidS
def setA (s : EllipsoidS α) (v : α) : Except String (EllipsoidS α) :=
  if lit 0 < v then pure { s with a := v } else throw "ValueError"
def setB (s : EllipsoidS α) (v : α) : Except String (EllipsoidS α) :=
  if lit 0 < v then pure { s with b := v } else throw "ValueError"
def setC (s : EllipsoidS α) (v : α) : Except String (EllipsoidS α) :=
  if lit 0 < v then pure { s with c := v } else throw "ValueError"

/-- `_rescale`: `self.a *= scale; self.b *= scale; self.c *= scale` -/
def rescale (s : EllipsoidS α) (k : α) : Except String (EllipsoidS α) := do
  let s1 ← s.setA (s.a * k)
  let s2 ← s1.setB (s1.b * k)
  s2.setC (s2.c * k)

/-- `Sphere(max(self.a, self.b, self.c), c)` / `min(...)` (left-to-right scan) -/
def ballRadius (bp : BallProp) (s : EllipsoidS α) : Except String α :=
  let r := match bp with
    | .minBounding | .minCentered => Scalar.max (Scalar.max s.a s.b) s.c
    | .maxBounded | .maxCentered => Scalar.min (Scalar.min s.a s.b) s.c
  do let c ← SphereS.mk' r s.cen; pure c.radius

def get (einc kinc : α → α → α) (p : EllipsoidProp) (s : EllipsoidS α) : Except String α :=
  match p with
  | .a => pure s.a
  | .b => pure s.b
  | .c => pure s.c
  | .volume => pure (Curved.Ellipsoid.volume s.a s.b s.c)
  | .surfaceArea => pure (Curved.Ellipsoid.surfaceArea einc kinc s.a s.b s.c)
  | .ball bp => ballRadius bp s

def set (einc kinc : α → α → α) (p : EllipsoidProp) (s : EllipsoidS α) (v : α) :
    Except String (EllipsoidS α) :=
  match p with
  | .a => s.setA v
  | .b => s.setB v
  | .c => s.setC v
  -- `scale = np.cbrt(value / self.volume); self._rescale(scale)`
  | .volume =>
      if lit 0 < v then s.rescale (Scalar.cbrt (v / Curved.Ellipsoid.volume s.a s.b s.c)) else throw "ValueError"
  -- `scale = np.sqrt(value / self.surface_area); self._rescale(scale)`
  | .surfaceArea =>
      if lit 0 < v then s.rescale (Scalar.sqrt (v / Curved.Ellipsoid.surfaceArea einc kinc s.a s.b s.c))
      else throw "ValueError"
  | .ball bp => do
      guardPos v
      let cur ← ballRadius bp s
      s.rescale (v / cur)

def vecProps : List String := ["center", "centroid"]
def setCentre (s : EllipsoidS α) (c : V3 α) : EllipsoidS α := { s with cen := c }
end EllipsoidS

/-! ### the table: every settable property of every class -/

/-- names of the scalar settable properties the model has a step for -/
def scalarProps : Cls → List String
  | .convexPolyhedron | .polyhedron => P3Prop.all.map P3Prop.name
  | .polygon | .convexPolygon => P2Prop.all.map P2Prop.name
  | .convexSpheropolygon => SPGProp.all.map SPGProp.name
  | .convexSpheropolyhedron => SPHProp.all.map SPHProp.name
  | .circle => CircleProp.all.map CircleProp.name
  | .sphere => SphereProp.all.map SphereProp.name
  | .ellipse => EllipseProp.all.map EllipseProp.name
  | .ellipsoid => EllipsoidProp.all.map EllipsoidProp.name

/-- names of the vector-valued settable properties -/
def vectorProps : Cls → List String
  | .convexPolyhedron => ConvexPolyhedron.vecProps
  | .polyhedron => Polyhedron.vecProps
  | .polygon | .convexPolygon => Polygon.vecProps
  | .convexSpheropolygon => Spheropolygon.vecProps
  | .convexSpheropolyhedron => Spheropolyhedron.vecProps
  | .circle => CircleS.vecProps
  | .sphere => SphereS.vecProps
  | .ellipse => EllipseS.vecProps
  | .ellipsoid => EllipsoidS.vecProps

end Setters
