import CoxeterVerif.Vec
/-!
  Model of `coxeter/families/plane_shape_families.py` (TruncationPlaneShapeFamily.make_vertices,
  the four `get_shape` domain tests, the truncation map), of `coxeter/families/common.py`
  (`_make_ngon`, Uniform{Prism,Antiprism,Pyramid,Dipyramid}Family.make_vertices) and of the DOI
  lookup of `coxeter/families/doi_data_repositories.py`.  No Mathlib.

  The finite data of the families (`_planes`, `_plane_types`, the fixed `b`, the domain bounds,
  the truncation map, the DOI dictionaries) are NOT written here: they are values of the types
  `Fam.Table`, `Fam.TTTable`, `Fam.DoiTable` regenerated from /repo into
  `Generated/Planes.lean` by `harness/c17.py:translate` on every run.

  External calls: `np.linalg.det` / `np.linalg.solve` on 3×3 systems are modelled by the cofactor
  determinant and Cramer's rule (same real-number function; float differences are rounding only);
  `ConvexPolyhedron(...)` (Qhull) is outside: `getShape*` return the vertex list handed to it.
-/
namespace Fam
open Scalar

/-- exact number `p + q·√5` with integer `p q` (table entries are `(p + q√5)/den`) -/
structure Z5 where
  p : Int
  q : Int
deriving DecidableEq, Repr, Inhabited

/-- the data of one truncation-plane family as read from the class -/
structure Table where
  /-- common denominator of every `Z5` entry of this table -/
  den : Nat
  planes : List (Z5 × Z5 × Z5)
  types : List Nat
  /-- the fixed `b` argument `get_shape` passes to `make_vertices` -/
  b : Z5
  /-- accepted interval of `a` and of `c` in `get_shape` -/
  aLo : Z5
  aHi : Z5
  cLo : Z5
  cHi : Z5
deriving Repr, Inhabited

/-- `TruncatedTetrahedronFamily.get_shape`: accepted truncations, the `a` it passes on and the
    map `c = c0 - c1 * truncation` -/
structure TTTable where
  den : Nat
  tLo : Z5
  tHi : Z5
  a : Z5
  c0 : Z5
  c1 : Z5
deriving Repr, Inhabited

/-- `_DOI_TO_FILE`, `_DOI_TO_FAMILY` (class names) -/
structure DoiTable where
  files : List (String × List String)
  families : List (String × List String)
deriving Repr, Inhabited

variable {α : Type} [Scalar α]

def ofInt (i : Int) : α := if i < 0 then -(Scalar.ofNat i.natAbs) else Scalar.ofNat i.natAbs

/-- value of a table entry in the scalar type -/
def Z5.toScalar (den : Nat) (z : Z5) : α :=
  (ofInt z.p + ofInt z.q * Scalar.sqrt (lit 5)) / Scalar.ofNat den

def Table.planesS (T : Table) : List (V3 α) :=
  T.planes.map fun r => ⟨r.1.toScalar T.den, r.2.1.toScalar T.den, r.2.2.toScalar T.den⟩

/-! ### `TruncationPlaneShapeFamily.make_vertices` -/

/-- `thresh = 1e-6` -/
def thresh : α := q 1 1000000

/-- `dists[type]` with `dists = np.array([a, b, c])` -/
def distOf (a b c : α) (t : Nat) : α := if t = 0 then a else if t = 1 then b else c

/-- all `(x_i, x_j)`, `i < j`, in the order of the nested Python loops -/
def pairsOf {β : Type} : List β → List (β × β)
  | [] => []
  | x :: xs => xs.map (fun y => (x, y)) ++ pairsOf xs

/-- all `(x_i, x_j, x_k)`, `i < j < k`, in the order of the nested Python loops (`indices`) -/
def triplesOf {β : Type} : List β → List (β × β × β)
  | [] => []
  | x :: xs => (pairsOf xs).map (fun yz => (x, yz.1, yz.2)) ++ triplesOf xs

/-- a plane with the distance selected by its type: row of `planelist` and entry of `alldists` -/
abbrev Row (α : Type) := V3 α × α

/-- `zip(planelist, dists[planetypes])` -/
def rows (planes : List (V3 α)) (types : List Nat) (a b c : α) : List (Row α) :=
  List.zipWith (fun p t => (p, distOf a b c t)) planes types

/-- `np.linalg.det(coeffs)` for one triple -/
def tripleDet (t : Row α × Row α × Row α) : α := V3.det3 t.1.1 t.2.1.1 t.2.2.1

/-- `np.linalg.solve(coeffs, bs)` for one triple (Cramer's rule) -/
def solve3 (t : Row α × Row α × Row α) : V3 α :=
  let r0 := t.1.1
  let r1 := t.2.1.1
  let r2 := t.2.2.1
  let num := V3.smul t.1.2 (V3.cross r1 r2) + V3.smul t.2.1.2 (V3.cross r2 r0)
              + V3.smul t.2.2.2 (V3.cross r0 r1)
  V3.sdiv num (tripleDet t)

/-- `xs`: solutions of the triples with `np.abs(dets) > thresh` -/
def candidates (R : List (Row α)) : List (V3 α) :=
  ((triplesOf R).filter fun t => decide (thresh < Scalar.abs (tripleDet t))).map solve3

/-- one row of `dist_filter`: `(dots <= alldists + thresh).all()` -/
def inside (R : List (Row α)) (x : V3 α) : Bool :=
  R.all fun r => decide (V3.dot x r.1 ≤ r.2 + thresh)

/-- `np.rint` (round half to even) from `floor` -/
def rint (x : α) : α :=
  let f := Scalar.floor x
  let d := x - f
  if d < q 1 2 then f
  else if q 1 2 < d then f + lit 1
  else if Scalar.eqb (Scalar.floor (f / lit 2) * lit 2) f then f else f + lit 1

/-- `np.round(x, 6)` = `rint(x * 10**6) / 10**6` -/
def round6 (x : α) : α := rint (x * lit 1000000) / lit 1000000

/-- one row of `passed_plane_test.round(6)` -/
def key (x : V3 α) : V3 α := ⟨round6 x.x, round6 x.y, round6 x.z⟩

/-- lexicographic `≤` of rows (the order `np.unique(axis=0)` sorts in) -/
def keyLe (u v : V3 α) : Bool :=
  if u.x < v.x then true else if v.x < u.x then false
  else if u.y < v.y then true else if v.y < u.y then false
  else !(decide (v.z < u.z))

def keyEq (u v : V3 α) : Bool := Scalar.eqb u.x v.x && Scalar.eqb u.y v.y && Scalar.eqb u.z v.z

/-- heads of the runs of equal keys of a sorted list (`mask[1:] = aux[1:] != aux[:-1]`) -/
def runHeadsAux {β : Type} (eq : β → β → Bool) : β → List β → List β
  | _, [] => []
  | p, x :: xs => if eq p x then runHeadsAux eq p xs else x :: runHeadsAux eq x xs

def runHeads {β : Type} (eq : β → β → Bool) : List β → List β
  | [] => []
  | x :: xs => x :: runHeadsAux eq x xs

/-- `np.unique(pts.round(6), axis=0, return_index=True)` then `pts[index]`: stable sort on the
    rounded rows, first element of every run of equal rounded rows, original coordinates -/
def uniqueRounded (pts : List (V3 α)) : List (V3 α) :=
  let keyed := pts.map fun x => (key x, x)
  let sorted := keyed.mergeSort fun u v => keyLe u.1 v.1
  (runHeads (fun u v => keyEq u.1 v.1) sorted).map (·.2)

/-- `TruncationPlaneShapeFamily.make_vertices(a, b, c)` -/
def makeVertices (planes : List (V3 α)) (types : List Nat) (a b c : α) : List (V3 α) :=
  let R := rows planes types a b c
  uniqueRounded ((candidates R).filter (inside R))

/-! ### `get_shape` of the four families (up to the call of `ConvexPolyhedron`) -/

/-- `not lo <= x <= hi` (false for NaN comparisons, hence NaN is rejected) -/
def outside (lo hi x : α) : Bool := !(decide (lo ≤ x) && decide (x ≤ hi))

/-- the arguments `get_shape(a, c)` hands to `make_vertices`, or ValueError -/
def Table.domain (T : Table) (a c : α) : Except String (α × α × α) :=
  if outside (T.aLo.toScalar T.den) (T.aHi.toScalar T.den) a then .error "ValueError"
  else if outside (T.cLo.toScalar T.den) (T.cHi.toScalar T.den) c then .error "ValueError"
  else .ok (a, T.b.toScalar T.den, c)

/-- `Family323Plus/423/523.get_shape(a, c)`: the vertex array given to `ConvexPolyhedron` -/
def Table.getShape (T : Table) (a c : α) : Except String (List (V3 α)) :=
  match T.domain a c with
  | .error e => .error e
  | .ok d => .ok (makeVertices T.planesS T.types d.1 d.2.1 d.2.2)

/-- `c = 3 - 2 * truncation` -/
def TTTable.cOf (M : TTTable) (t : α) : α := M.c0.toScalar M.den - M.c1.toScalar M.den * t

/-- `TruncatedTetrahedronFamily.get_shape(truncation)`: arguments handed on to make_vertices -/
def TTTable.domain (M : TTTable) (T : Table) (t : α) : Except String (α × α × α) :=
  if outside (M.tLo.toScalar M.den) (M.tHi.toScalar M.den) t then .error "ValueError"
  else T.domain (M.a.toScalar M.den) (M.cOf t)

def TTTable.getShape (M : TTTable) (T : Table) (t : α) : Except String (List (V3 α)) :=
  match M.domain T t with
  | .error e => .error e
  | .ok d => .ok (makeVertices T.planesS T.types d.1 d.2.1 d.2.2)

/-! ### `common.py` -/

def cot (x : α) : α := lit 1 / Scalar.tan x
def sec (x : α) : α := lit 1 / Scalar.cos x

/-- circumradius factor `sqrt(area / area_0)`, `area_0 = 0.5 * n * sin(2*pi/n)` -/
def ngonScale (n : Nat) (area : α) : α :=
  Scalar.sqrt (area / (q 1 2 * Scalar.ofNat n * Scalar.sin (lit 2 * Scalar.pi / Scalar.ofNat n)))

/-- `theta[k]` of `np.linspace(0, 2*pi, num=n, endpoint=False) + angle` -/
def ngonTheta (n : Nat) (angle : α) (k : Nat) : α :=
  Scalar.ofNat k * ((lit 2 * Scalar.pi - lit 0) / Scalar.ofNat n) + lit 0 + angle

/-- row `k` of `ngon_vertices` after the rescaling of its first two columns -/
def ngonVertex (n : Nat) (z area angle : α) (k : Nat) : V3 α :=
  let th := ngonTheta n angle k
  let s := ngonScale n area
  ⟨Scalar.cos th * s, Scalar.sin th * s, z⟩

/-- `_make_ngon(n, z, area, angle)` (area not None) -/
def ngon (n : Nat) (z area angle : α) : Except String (List (V3 α)) :=
  if n < 3 then .error "ValueError"
  else .ok ((List.range n).map (ngonVertex n z area angle))

/-- `RegularNGonFamily.make_vertices(n)` -/
def regularNGon (n : Nat) : Except String (List (V3 α)) := ngon n (lit 0) (lit 1) (lit 0)

/-- prism height `cbrt(volume * 4 / n * tan(pi / n))`, volume = 1 -/
def prismH (n : Nat) : α :=
  Scalar.cbrt (lit 1 * lit 4 / Scalar.ofNat n * Scalar.tan (Scalar.pi / Scalar.ofNat n))

/-- `UniformPrismFamily.make_vertices(n)` -/
def prism (n : Nat) : Except String (List (V3 α)) :=
  let h : α := prismH n
  let area := lit 1 / h
  match ngon n (-h / lit 2) area (lit 0), ngon n (h / lit 2) area (lit 0) with
  | .ok lo, .ok hi => .ok (lo ++ hi)
  | .error e, _ => .error e
  | _, .error e => .error e

/-- antiprism edge length `s` -/
def antiprismS (n : Nat) : α :=
  let x : α := Scalar.pi / Scalar.ofNat (2 * n)
  Scalar.cbrt (lit 24 * lit 1 /
    (Scalar.ofNat n * (cot x + cot (Scalar.pi / Scalar.ofNat n)) * Scalar.sqrt (lit 4 - sqr (sec x))))

def antiprismArea (n : Nat) : α :=
  Scalar.ofNat n / lit 4 * cot (Scalar.pi / Scalar.ofNat n) * sqr (antiprismS n)

def antiprismH (n : Nat) : α :=
  Scalar.sqrt (lit 1 - q 1 4 * sqr (sec (Scalar.pi / Scalar.ofNat (2 * n)))) * antiprismS n

/-- `UniformAntiprismFamily.make_vertices(n)` -/
def antiprism (n : Nat) : Except String (List (V3 α)) :=
  let h : α := antiprismH n
  let area : α := antiprismArea n
  match ngon n (-h / lit 2) area (Scalar.pi / Scalar.ofNat n), ngon n (h / lit 2) area (lit 0) with
  | .ok lo, .ok hi => .ok (lo ++ hi)
  | .error e, _ => .error e
  | _, .error e => .error e

/-- `sin(pi / n) ** -2` -/
def invSinSq (n : Nat) : α := lit 1 / sqr (Scalar.sin (Scalar.pi / Scalar.ofNat n))

/-- pyramid height `cbrt((3 * volume * (4 - sin(pi/n)**-2)) / (n * cot(pi/n)))` -/
def pyramidH (n : Nat) : α :=
  Scalar.cbrt ((lit 3 * lit 1 * (lit 4 - invSinSq n)) / (Scalar.ofNat n * cot (Scalar.pi / Scalar.ofNat n)))

/-- `UniformPyramidFamily.make_vertices(n)` -/
def pyramid (n : Nat) : Except String (List (V3 α)) :=
  let h : α := pyramidH n
  let area := lit 3 * lit 1 / h
  match ngon n (-h / lit 4) area (lit 0) with
  | .ok base => .ok (base ++ [⟨lit 0, lit 0, lit 3 * h / lit 4⟩])
  | .error e => .error e

/-- dipyramid half height `cbrt((3 * volume * (4 - sin(pi/n)**-2) / 2) / (n * cot(pi/n)))` -/
def dipyramidH (n : Nat) : α :=
  Scalar.cbrt ((lit 3 * lit 1 * (lit 4 - invSinSq n) / lit 2) / (Scalar.ofNat n * cot (Scalar.pi / Scalar.ofNat n)))

/-- `UniformDipyramidFamily.make_vertices(n)` -/
def dipyramid (n : Nat) : Except String (List (V3 α)) :=
  let h : α := dipyramidH n
  let area := q 3 2 * lit 1 / h
  match ngon n (lit 0) area (lit 0) with
  | .ok base => .ok (base ++ [⟨lit 0, lit 0, h⟩, ⟨lit 0, lit 0, -h⟩])
  | .error e => .error e

/-! ### argument handling of `get_shape` (Python ints / bools / numpy integers, floats / numpy
     floating scalars, anything else) -/

/-- a Python argument as the families see it: `int` (also `bool`, numpy integers), `real` (`float`,
    numpy floating scalars), `other` (str, None, list, complex …: comparison with an int raises
    TypeError) -/
inductive Arg (α : Type) where
  | int (i : Int)
  | real (x : α)
  | other
deriving Inhabited

def Arg.val? : Arg α → Option α
  | .int i => some (ofInt i)
  | .real x => some x
  | .other => none

/-- `Family323Plus/423/523.get_shape(a, c)` on arbitrary arguments: `not lo <= a <= hi` is evaluated
    first (TypeError for a non-number, ValueError outside), then the same for `c` -/
def Table.getShapeArg (T : Table) (a c : Arg α) : Except String (List (V3 α)) :=
  match a.val? with
  | none => .error "TypeError"
  | some av =>
    if outside (T.aLo.toScalar T.den) (T.aHi.toScalar T.den) av then .error "ValueError"
    else match c.val? with
      | none => .error "TypeError"
      | some cv =>
        if outside (T.cLo.toScalar T.den) (T.cHi.toScalar T.den) cv then .error "ValueError"
        else .ok (makeVertices T.planesS T.types av (T.b.toScalar T.den) cv)

/-- `TruncatedTetrahedronFamily.get_shape(truncation)` on an arbitrary argument -/
def TTTable.getShapeArg (M : TTTable) (T : Table) (t : Arg α) : Except String (List (V3 α)) :=
  match t.val? with
  | none => .error "TypeError"
  | some tv => M.getShape T tv

/-- the `n` of the uniform families (`kind` 0 = n-gon, 1 prism, 2 antiprism, 3 pyramid, 4 dipyramid):
    the heights of the polyhedral families divide by `n` first (ZeroDivisionError for 0 / 0.0),
    `_make_ngon` raises ValueError for `n < 3`, and `np.linspace(num=n)` raises TypeError for a float -/
def uniformArg (kind : Nat) (n : Arg α) : Except String Nat :=
  match n with
  | .other => .error "TypeError"
  | .int i =>
    if kind ≠ 0 ∧ i = 0 then .error "ZeroDivisionError"
    else if i < 3 then .error "ValueError" else .ok i.toNat
  | .real x =>
    if kind ≠ 0 ∧ Scalar.eqb x (lit 0) = true then .error "ZeroDivisionError"
    else if x < lit 3 then .error "ValueError" else .error "TypeError"

/-- `make_vertices(n)` of the five families by `kind` -/
def uniformVertices (kind n : Nat) : Except String (List (V3 α)) :=
  if kind = 0 then regularNGon n else if kind = 1 then prism n
  else if kind = 2 then antiprism n else if kind = 3 then pyramid n else dipyramid n

/-- `Family.get_shape(n)` up to the call of ConvexPolygon / ConvexPolyhedron -/
def uniformGetShape (kind : Nat) (n : Arg α) : Except String (List (V3 α)) :=
  match uniformArg kind n with
  | .error e => .error e
  | .ok m => uniformVertices kind m

/-! ### `_doi_shape_collection_factory` / `_KeyedDefaultDict.__missing__` -/

def lookup (k : String) : List (String × List String) → Option (List String)
  | [] => none
  | (k', v) :: rest => if k' = k then some v else lookup k rest

/-- names of the families returned for a DOI (`file:<json>` for tabulated ones, class names for
    parametric ones, in this order), or KeyError -/
def DoiTable.get (D : DoiTable) (doi : String) : Except String (List String) :=
  let fs := match lookup doi D.files with
    | some l => l.map (fun f => "file:" ++ f)
    | none => []
  let cs := match lookup doi D.families with
    | some l => l
    | none => []
  if (fs ++ cs).isEmpty then .error "KeyError" else .ok (fs ++ cs)

end Fam
