import CoxeterVerif.Lemmas.Tabulated
import CoxeterVerif.Generated.Checks
/-!
  # C18 — every tabulated family entry is the solid its name says

  Two kinds of statement.

  * **Model theorems**, for ALL families / dictionaries (list induction): iteration is
    `names.map (k ↦ (k, get_shape k))`, yields the names once and in order, agrees with
    `get_shape`; unknown names and unknown DOIs raise `KeyError`; known ones succeed.
  * **Table theorems**, a finite quantifier over the tables regenerated from /repo's JSON
    (`Generated/Tables*.lean`): the kernel evaluates the Bool predicates of `Spec/Textbook.lean`
    on every entry (`Generated/Check*.lean`, one `decide +kernel` per entry); here they are
    assembled into `∀ e ∈ table, …`.  The tolerances (10⁻⁹) are part of the predicates.
    The face lists are the ones the implementation built when the tables were generated; they
    are a certificate: the predicates re-verify them from scratch.
-/
open Tab
set_option maxRecDepth 100000

/-! ## Model theorems -/

section model
variable {V : Type}

theorem iterFrom_eq_map (f : Family V) (ks : List String) :
    f.iterFrom ks = ks.map fun k => (k, f.getShape k) := by
  induction ks with
  | nil => rfl
  | cons k rest ih => simp [Family.iterFrom, ih]

/-- **iteration.** `iter(family)` is exactly `[(k, get_shape(k)) for k in names]`. -/
theorem iter_eq_names_map (f : Family V) :
    f.iter = f.names.map fun k => (k, f.getShape k) :=
  iterFrom_eq_map f f.names

/-- the names come out in the order of `names`, each as often as it is listed -/
theorem iter_keys_eq_names (f : Family V) : f.iter.map Prod.fst = f.names := by
  simp [iter_eq_names_map, List.map_map, Function.comp_def]

/-- every yielded pair carries the shape `get_shape` returns for its name -/
theorem iter_shape_eq_getShape (f : Family V) (k : String) (s : Except String (Shape V))
    (h : (k, s) ∈ f.iter) : s = f.getShape k := by
  rw [iter_eq_names_map] at h
  obtain ⟨k', _, hk⟩ := List.mem_map.mp h
  cases hk; rfl

/-- with pairwise different names every name is yielded exactly once -/
theorem iter_keys_nodup (f : Family V) (h : namesNodup f.names = true) :
    (f.iter.map Prod.fst).Nodup := by
  rw [iter_keys_eq_names]; exact (namesNodup_iff _).mp h

/-- **unknown names.** `get_shape` of a name that is not a key raises `KeyError`. -/
theorem unknown_name_keyerror (f : Family V) (name : String) (h : name ∉ f.names) :
    f.getShape name = .error "KeyError" := by
  unfold Family.getShape
  rw [dictGet_of_not_mem f.data name h]

/-- a listed name reaches `from_gsd_type_shapes` with its own record -/
theorem known_name_getShape (f : Family V) (h : namesNodup f.names = true) (k : String)
    (spec : GsdSpec V) (hm : (k, spec) ∈ f.data) : f.getShape k = fromGsd spec := by
  unfold Family.getShape
  rw [dictGet_of_mem f.data ((namesNodup_iff _).mp h) k spec hm]

/-- iteration over a family with different names is the table mapped through the constructor -/
theorem iter_eq_data_map (f : Family V) (h : namesNodup f.names = true) :
    f.iter = f.data.map fun kv => (kv.1, fromGsd kv.2) := by
  rw [iter_eq_names_map, Family.names, List.map_map]
  apply List.map_congr_left
  intro kv hkv
  obtain ⟨k, spec⟩ := kv
  simp only [Function.comp]
  rw [known_name_getShape f h k spec hkv]

end model

/-- hypotheses of the above are satisfiable on a non-trivial family: a two-record table, one of
    them not a polyhedron -/
example :
    let f : Family Nat := ⟨[("Cube", { type := some "ConvexPolyhedron", verts := 8 }),
                            ("Ball", { type := some "Sphere", verts := 0 })]⟩
    namesNodup f.names = true ∧ f.iter = [("Cube", .ok (.convexPolyhedron 8)), ("Ball", .ok (.otherClass "Sphere" 0))]
      ∧ f.getShape "Prism" = .error "KeyError" := by
  decide

/-- a record of a generated table builds a `ConvexPolyhedron` on exactly its vertices -/
theorem table_getShape (t : List Entry) (hn : namesNodup (t.map (·.name)) = true)
    (e : Entry) (he : e ∈ t) (ht : e.type = "ConvexPolyhedron") :
    (familyOf t).getShape e.name = .ok (.convexPolyhedron e.verts) := by
  have hnames : (familyOf t).names = t.map (·.name) := by
    simp [familyOf, Family.names, List.map_map, Function.comp_def]
  have hm : (e.name, ({ type := some e.type, verts := e.verts } : GsdSpec (List P3))) ∈ (familyOf t).data :=
    List.mem_map.mpr ⟨e, he, rfl⟩
  rw [known_name_getShape (familyOf t) (by rw [hnames]; exact hn) _ _ hm, ht]
  simp [fromGsd]

/-! ### DOI repositories -/

/-- **unknown DOIs.** A key in neither `_DOI_TO_FILE` nor `_DOI_TO_FAMILY` (and not already
    stored) raises `KeyError`, and nothing is stored. -/
theorem unknown_doi_keyerror (m : DoiMaps) (store : List (String × List RepoItem)) (doi : String)
    (hs : doi ∉ store.map Prod.fst) (h1 : doi ∉ m.toFile.map Prod.fst)
    (h2 : doi ∉ m.toFamily.map Prod.fst) :
    keyedGet m store doi = (.error "KeyError", store) := by
  unfold keyedGet factory lookupOr
  rw [dictGet_of_not_mem store doi hs, dictGet_of_not_mem _ doi h1, dictGet_of_not_mem _ doi h2]
  rfl

/-- a stored key is answered from the store (the factory is not called again) -/
theorem stored_doi_returned (m : DoiMaps) (store : List (String × List RepoItem)) (doi : String)
    (h : doi ∈ store.map Prod.fst) :
    ∃ v, keyedGet m store doi = (.ok v, store) ∧ (doi, v) ∈ store := by
  obtain ⟨v, hv, hm⟩ := dictGet_isOk_of_mem store doi h
  exact ⟨v, by unfold keyedGet; rw [hv], hm⟩

/-- the maps of the present /repo: every listed DOI loads a non-empty list of families and stores
    it; the science repository is one tabulated family -/
theorem known_dois_load :
    (Tables.doiMaps.toFile.map Prod.fst ++ Tables.doiMaps.toFamily.map Prod.fst).all (fun doi =>
      match keyedGet Tables.doiMaps [] doi with
      | (.ok items, store) => !items.isEmpty && store.length == 1
      | _ => false) = true := by
  decide +kernel

example : keyedGet Tables.doiMaps [] "10.0000/not-a-doi" = (.error "KeyError", []) :=
  unknown_doi_keyerror _ _ _ (by decide) (by decide) (by decide)

/-! ## Table theorems (kernel evaluation over the regenerated tables) -/

theorem all_mem {p : Entry → Bool} {t : List Entry} (h : t.all p = true) : ∀ e ∈ t, p e = true :=
  fun e he => List.all_eq_true.mp h e he

/-- the hand-entered textbook rows are internally consistent (Euler, census sums) -/
theorem textbook_consistent :
    (Textbook.platonic ++ Textbook.archimedean ++ Textbook.catalan ++ Textbook.johnson).all
      Textbook.Solid.consistent = true := by
  decide +kernel

/-- sizes stated by the property -/
theorem table_sizes :
    Tables.platonic.length = 5 ∧ Tables.archimedean.length = 13 ∧ Tables.catalan.length = 13
      ∧ Tables.johnson.length = 92 ∧ Tables.prismAntiprism.length = 16
      ∧ Tables.pyramidDipyramid.length = 6 ∧ Tables.science1220869.length = 145 := by
  decide +kernel

/-- **names.** In every table the names are pairwise different (so iteration yields every name
    once: `iter_keys_nodup`) -/
theorem names_nodup :
    [Tables.platonic, Tables.archimedean, Tables.catalan, Tables.johnson, Tables.prismAntiprism,
      Tables.pyramidDipyramid, Tables.science1220869].all
        (fun t => namesNodup ((familyOf t).names)) = true := by
  decide +kernel

/-- the tables are exactly the 5 + 13 + 13 textbook solids and the Johnson numbers J1 … J92 -/
theorem tables_cover_textbook :
    coversTextbook Textbook.platonic Tables.platonic = true
      ∧ coversTextbook Textbook.archimedean Tables.archimedean = true
      ∧ coversTextbook Textbook.catalan Tables.catalan = true
      ∧ coversJohnson Tables.johnson = true := by
  decide +kernel

/-- **Platonic.** closed convex surface on its vertices, textbook counts, unit volume, equal edges
    and regular faces -/
theorem platonic_entries : ∀ e ∈ Tables.platonic,
    polyhedronOk e = true ∧ textbookOk Textbook.platonic e = true ∧ unitVolumeOk e = true
      ∧ regularOk e = true := by
  intro e he
  have h := all_mem Tables.platonic_ok e he
  simpa only [platonicOk, Bool.and_eq_true, and_assoc] using h

/-- **Archimedean.** as Platonic -/
theorem archimedean_entries : ∀ e ∈ Tables.archimedean,
    polyhedronOk e = true ∧ textbookOk Textbook.archimedean e = true ∧ unitVolumeOk e = true
      ∧ regularOk e = true := by
  intro e he
  have h := all_mem Tables.archimedean_ok e he
  simpa only [archimedeanOk, Bool.and_eq_true, and_assoc] using h

/-- **Catalan.** closed convex surface, textbook counts, unit volume, an insphere exists -/
theorem catalan_entries : ∀ e ∈ Tables.catalan,
    polyhedronOk e = true ∧ textbookOk Textbook.catalan e = true ∧ unitVolumeOk e = true
      ∧ insphereOk e = true := by
  intro e he
  have h := all_mem Tables.catalan_ok e he
  simpa only [catalanOk, Bool.and_eq_true, and_assoc] using h

/-- **Johnson.** closed convex surface, equal edges and regular faces; and the vertex, edge and
    face counts of the solid with that Johnson number -/
theorem johnson_entries : ∀ e ∈ Tables.johnson,
    polyhedronOk e = true ∧ regularOk e = true ∧ johnsonCountsOk e = true := by
  intro e he
  have h := all_mem Tables.johnson_ok e he
  simpa only [johnsonOk, Bool.and_eq_true, and_assoc] using h

/-- **prisms/antiprisms, pyramids/dipyramids.** closed convex surface on the entry's vertices -/
theorem prism_pyramid_entries : ∀ e ∈ Tables.prismAntiprism ++ Tables.pyramidDipyramid,
    polyhedronOk e = true := by
  intro e he
  rcases List.mem_append.mp he with h | h
  · exact all_mem Tables.prismAntiprism_ok e h
  · exact all_mem Tables.pyramidDipyramid_ok e h

/-- **repository.** closed convex surface, and an entry that cites a family has the vertex set of
    the family's entry of that name -/
theorem science_entries : ∀ e ∈ Tables.science1220869,
    polyhedronOk e = true ∧ sourceOk Tables.bySource e = true := by
  intro e he
  have h := all_mem Tables.science1220869_ok e he
  simpa only [repositoryOk, Bool.and_eq_true] using h

/-- every entry of every table builds a `ConvexPolyhedron` on exactly its vertices through the
    model of `get_shape` -/
theorem every_entry_builds :
    ∀ t ∈ [Tables.platonic, Tables.archimedean, Tables.catalan, Tables.johnson, Tables.prismAntiprism,
      Tables.pyramidDipyramid, Tables.science1220869], ∀ e ∈ t,
      (familyOf t).getShape e.name = .ok (.convexPolyhedron e.verts) := by
  intro t ht e he
  have hn : namesNodup (t.map (·.name)) = true := by
    have h := List.all_eq_true.mp names_nodup t ht
    simpa [familyOf, Family.names, List.map_map, Function.comp_def] using h
  have hp : polyhedronOk e = true := by
    simp only [List.mem_cons, List.not_mem_nil, or_false] at ht
    rcases ht with rfl | rfl | rfl | rfl | rfl | rfl | rfl
    · exact (platonic_entries e he).1
    · exact (archimedean_entries e he).1
    · exact (catalan_entries e he).1
    · exact (johnson_entries e he).1
    · exact prism_pyramid_entries e (List.mem_append_left _ he)
    · exact prism_pyramid_entries e (List.mem_append_right _ he)
    · exact (science_entries e he).1
  have hty : e.type = "ConvexPolyhedron" := by
    simp only [polyhedronOk, Bool.and_eq_true] at hp
    simpa using hp.1.1.1.1.1
  exact table_getShape t hn e he hty

/-- what the convexity part of `polyhedronOk` says in plain vector algebra -/
theorem convex_certificate_meaning (e : Entry) (h : polyhedronOk e = true) : convexOkRef e = true := by
  simp only [polyhedronOk, Bool.and_eq_true] at h
  rw [← convexOk_eq_ref]; exact h.1.2

/-- non-vacuity: the predicates reject a corrupted solid.  The cube of the Platonic table with
    one vertex moved by 10⁻⁶ is no longer a closed convex unit-volume solid with regular faces,
    and with two face-list entries exchanged it is no longer a closed oriented surface. -/
theorem corrupted_cube_rejected :
    (match Tables.platonic.find? (·.name == "Cube") with
     | none => false
     | some c =>
       let moved := { c with verts := c.verts.set 0 ⟨-500001000000000000, -500000000000000000, -500000000000000000⟩ }
       let flipped := { c with faces := c.faces.set 0 ((c.faces.getD 0 []).reverse) }
       platonicOk c && !(convexOk moved && unitVolumeOk moved && regularOk moved)
         && !(closedOriented flipped)) = true := by
  decide +kernel
