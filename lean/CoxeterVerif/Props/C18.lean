import CoxeterVerif.Lemmas.Tabulated
import CoxeterVerif.Lemmas.TabulatedLookup
import CoxeterVerif.Lemmas.TabulatedMeaning
import CoxeterVerif.Lemmas.TabulatedHull
import CoxeterVerif.Generated.Checks
/-!
  # C18 — every tabulated family entry is the solid its name says

  Two kinds of statement.

  * **Model theorems**, for ALL families / dictionaries (list induction): iteration is
    `names.map (k ↦ (k, get_shape k))`, yields the names once and in order, agrees with
    `get_shape`; unknown names and unknown DOIs raise `KeyError`; known ones succeed.
  * **Table theorems**, a finite quantifier over the tables regenerated from /repo's JSON
    (`Generated/Tables*.lean`): the kernel evaluates the Bool predicates of `Spec/Textbook.lean`
    on every entry (`Generated/Check*.lean`, one `decide +kernel` per entry); here they are
    assembled into `∀ e ∈ table, …`.  The tolerances (10⁻⁹) are part of the predicates.
    The face lists are the ones the implementation built when the tables were generated; they
    are a certificate: the predicates re-verify them from scratch.
  * **Meaning theorems**: what those Bool predicates say, as Prop-level statements (combinatorics of the
    face list; real geometry of the vertices, `Tab.toV` = coordinates in units of 10⁻¹⁸), proved once
    for EVERY entry in `Lemmas/TabulatedBits|Real|Real2|Real3|Meaning.lean` and instantiated here on the
    tables (`*_entries_meaning`): every `decide +kernel` fact lifts to a statement about the tabulated
    coordinates.
-/
open Tab
set_option maxRecDepth 100000

/-! ## Model theorems -/

section model
variable {V : Type}

theorem iterFrom_eq_map (f : Family V) (ks : List String) :
    f.iterFrom ks = ks.map fun k => (k, f.getShape k) := by
  induction ks with
  | nil => rfl
  | cons k rest ih => simp [Family.iterFrom, ih]

/-- **iteration.** `iter(family)` is exactly `[(k, get_shape(k)) for k in names]`. -/
theorem iter_eq_names_map (f : Family V) :
    f.iter = f.names.map fun k => (k, f.getShape k) :=
  iterFrom_eq_map f f.names

/-- the names come out in the order of `names`, each as often as it is listed -/
theorem iter_keys_eq_names (f : Family V) : f.iter.map Prod.fst = f.names := by
  simp [iter_eq_names_map, List.map_map, Function.comp_def]

/-- every yielded pair carries the shape `get_shape` returns for its name -/
theorem iter_shape_eq_getShape (f : Family V) (k : String) (s : Except String (Shape V))
    (h : (k, s) ∈ f.iter) : s = f.getShape k := by
  rw [iter_eq_names_map] at h
  obtain ⟨k', _, hk⟩ := List.mem_map.mp h
  cases hk; rfl

/-- with pairwise different names every name is yielded exactly once -/
theorem iter_keys_nodup (f : Family V) (h : namesNodup f.names = true) :
    (f.iter.map Prod.fst).Nodup := by
  rw [iter_keys_eq_names]; exact (namesNodup_iff _).mp h

/-- **unknown names.** `get_shape` of a name that is not a key raises `KeyError`. -/
theorem unknown_name_keyerror (f : Family V) (name : String) (h : name ∉ f.names) :
    f.getShape name = .error "KeyError" := by
  unfold Family.getShape
  rw [dictGet_of_not_mem f.data name h]

/-- a listed name reaches `from_gsd_type_shapes` with its own record -/
theorem known_name_getShape (f : Family V) (h : namesNodup f.names = true) (k : String)
    (spec : GsdSpec V) (hm : (k, spec) ∈ f.data) : f.getShape k = fromGsd spec := by
  unfold Family.getShape
  rw [dictGet_of_mem f.data ((namesNodup_iff _).mp h) k spec hm]

/-- iteration over a family with different names is the table mapped through the constructor -/
theorem iter_eq_data_map (f : Family V) (h : namesNodup f.names = true) :
    f.iter = f.data.map fun kv => (kv.1, fromGsd kv.2) := by
  rw [iter_eq_names_map, Family.names, List.map_map]
  apply List.map_congr_left
  intro kv hkv
  obtain ⟨k, spec⟩ := kv
  simp only [Function.comp]
  rw [known_name_getShape f h k spec hkv]

/-! ### histories: several families in one process

`World`: the shipped singletons and any user-made `TabulatedGSDShapeFamily`.  The code keeps no cache (neither
per instance nor on the class), so the model's step returns the world unchanged, and therefore: -/

/-- no history changes the world of families -/
theorem history_leaves_world (w : World V) (hist : List Step) : (w.run hist).1 = w :=
  World.run_fst w hist

/-- **the answer to a query does not depend on what any family was asked before** -/
theorem answer_history_independent (w : World V) (hist : List Step) (s : Step) :
    ((w.run hist).1.step s).2 = (w.step s).2 := by
  rw [World.run_fst]

/-- **a name that is not in a family's own table raises `KeyError` after ANY history** — whether or not
    another family of the process has (and has already built) a record of that name -/
theorem foreign_name_keyerror_after_history (w : World V) (hist : List Step) (i : Nat) (f : Family V)
    (hf : w.fams[i]? = some f) (name : String) (h : name ∉ f.names) :
    ((w.run hist).1.step (.get i name)).2 = [.error "KeyError"] := by
  rw [World.run_fst]
  simp only [World.step, hf]
  rw [unknown_name_keyerror f name h]

/-- **a family answers from ITS OWN table after any history**: a name it lists gives the shape built from the
    record stored under that name in this family, whatever other families store under the same name -/
theorem own_record_after_history (w : World V) (hist : List Step) (i : Nat) (f : Family V)
    (hf : w.fams[i]? = some f) (hn : namesNodup f.names = true) (name : String) (spec : GsdSpec V)
    (hm : (name, spec) ∈ f.data) :
    ((w.run hist).1.step (.get i name)).2 = [fromGsd spec] := by
  rw [World.run_fst]
  simp only [World.step, hf]
  rw [known_name_getShape f hn name spec hm]

/-- iteration after any history is still the family's own table in order -/
theorem iter_after_history (w : World V) (hist : List Step) (i : Nat) (f : Family V)
    (hf : w.fams[i]? = some f) :
    ((w.run hist).1.step (.iter i)).2 = f.names.map f.getShape := by
  rw [World.run_fst]
  simp only [World.step, hf]
  rw [iter_eq_names_map, List.map_map]
  rfl

/-- **any interleaving of live iterators** (`iter(family)` called several times, the iterators advanced in any
    order, `get_shape` / `names` used in between): every iterator, at every moment, has yielded a prefix of
    `[(k, get_shape k) for k in names]` and will yield exactly the rest — iterators are independent, because an
    iterator's position lives in the iterator (generator frame), not in the family -/
theorem interleaved_iterations (w : World V) (steps : List IStep) :
    ∀ it ∈ ((⟨w, []⟩ : IState V).run steps).1.iters, ∀ f, w.fams[it.fam]? = some f →
      it.done ++ f.iterFrom it.rest = f.names.map fun k => (k, f.getShape k) := by
  intro it hit f hf
  have h := (IState.run_ok (⟨w, []⟩ : IState V) steps (by intro x hx; cases hx)).2 it hit f hf
  rw [h, iter_eq_names_map]

/-- an iterator that has been exhausted (whatever else happened in between) has yielded every name once, in
    the order of `names`, each with the shape of `get_shape` -/
theorem exhausted_iterator_full (w : World V) (steps : List IStep) :
    ∀ it ∈ ((⟨w, []⟩ : IState V).run steps).1.iters, it.rest = [] → ∀ f, w.fams[it.fam]? = some f →
      it.done = f.names.map fun k => (k, f.getShape k) := by
  intro it hit hr f hf
  have h := interleaved_iterations w steps it hit f hf
  rw [hr] at h
  simpa [Family.iterFrom] using h

end model

/-- `zip(family, family)` on a two-record table: two live iterators advanced alternately each yield the whole
    table -/
example :
    let w : World Nat := ⟨[⟨[("Cube", { type := some "ConvexPolyhedron", verts := 1 }),
                             ("Ball", { type := some "Sphere", verts := 2 })]⟩]⟩
    ((⟨w, []⟩ : IState Nat).run [.start 0, .start 0, .next 0, .next 1, .next 0, .next 1, .next 0]).1.iters.map
        (fun it => it.done.map Prod.fst) = [["Cube", "Ball"], ["Cube", "Ball"]] := by
  decide

/-- two tables that use the name "Cube" for different records, a third that does not have it: each answers
    from its own table, in any order of queries -/
example :
    let w : World Nat := ⟨[⟨[("Cube", { type := some "ConvexPolyhedron", verts := 1 })]⟩,
                            ⟨[("Cube", { type := some "ConvexPolyhedron", verts := 2 })]⟩,
                            ⟨[("Ball", { type := some "Sphere", verts := 3 })]⟩]⟩
    (w.run [.get 0 "Cube", .iter 1, .get 2 "Cube", .get 1 "Cube", .get 0 "Cube"]).2
      = [[.ok (.convexPolyhedron 1)], [.ok (.convexPolyhedron 2)], [.error "KeyError"],
         [.ok (.convexPolyhedron 2)], [.ok (.convexPolyhedron 1)]] := by
  decide

/-- hypotheses of the above are satisfiable on a non-trivial family: a two-record table, one of
    them not a polyhedron -/
example :
    let f : Family Nat := ⟨[("Cube", { type := some "ConvexPolyhedron", verts := 8 }),
                            ("Ball", { type := some "Sphere", verts := 0 })]⟩
    namesNodup f.names = true ∧ f.iter = [("Cube", .ok (.convexPolyhedron 8)), ("Ball", .ok (.otherClass "Sphere" 0))]
      ∧ f.getShape "Prism" = .error "KeyError" := by
  decide

/-- a record of a generated table builds a `ConvexPolyhedron` on exactly its vertices -/
theorem table_getShape (t : List Entry) (hn : namesNodup (t.map (·.name)) = true)
    (e : Entry) (he : e ∈ t) (ht : e.type = "ConvexPolyhedron") :
    (familyOf t).getShape e.name = .ok (.convexPolyhedron e.verts) := by
  have hnames : (familyOf t).names = t.map (·.name) := by
    simp [familyOf, Family.names, List.map_map, Function.comp_def]
  have hm : (e.name, ({ type := some e.type, verts := e.verts } : GsdSpec (List P3))) ∈ (familyOf t).data :=
    List.mem_map.mpr ⟨e, he, rfl⟩
  rw [known_name_getShape (familyOf t) (by rw [hnames]; exact hn) _ _ hm, ht]
  simp [fromGsd]

/-! ### DOI repositories -/

/-- **unknown DOIs.** A key in neither `_DOI_TO_FILE` nor `_DOI_TO_FAMILY` (and not already
    stored) raises `KeyError`, and nothing is stored. -/
theorem unknown_doi_keyerror (m : DoiMaps) (store : List (String × List RepoItem)) (doi : String)
    (hs : doi ∉ store.map Prod.fst) (h1 : doi ∉ m.toFile.map Prod.fst)
    (h2 : doi ∉ m.toFamily.map Prod.fst) :
    keyedGet m store doi = (.error "KeyError", store) := by
  unfold keyedGet factory lookupOr
  rw [dictGet_of_not_mem store doi hs, dictGet_of_not_mem _ doi h1, dictGet_of_not_mem _ doi h2]
  rfl

/-- a stored key is answered from the store (the factory is not called again) -/
theorem stored_doi_returned (m : DoiMaps) (store : List (String × List RepoItem)) (doi : String)
    (h : doi ∈ store.map Prod.fst) :
    ∃ v, keyedGet m store doi = (.ok v, store) ∧ (doi, v) ∈ store := by
  obtain ⟨v, hv, hm⟩ := dictGet_isOk_of_mem store doi h
  exact ⟨v, by unfold keyedGet; rw [hv], hm⟩

/-- **unknown DOIs after any history of lookups**: the dictionary only ever stores known DOIs, so a key that
    is not EXACTLY a key of `_DOI_TO_FILE` / `_DOI_TO_FAMILY` raises `KeyError` (and is not stored) whatever
    was looked up before through the same dictionary -/
theorem unknown_doi_keyerror_after_history (m : DoiMaps) (hist : List String) (doi : String)
    (h : doi ∉ knownDois m) :
    keyedGet m (keyedRun m [] hist).2 doi = (.error "KeyError", (keyedRun m [] hist).2) := by
  have hstore := keyedRun_store_known m [] hist (by intro k hk; cases hk)
  unfold knownDois at h
  rw [List.mem_append, not_or] at h
  refine unknown_doi_keyerror m _ doi ?_ h.1 h.2
  intro hmem
  have := hstore doi hmem
  unfold knownDois at this
  rw [List.mem_append] at this
  rcases this with h' | h'
  · exact h.1 h'
  · exact h.2 h'

/-- the dictionary never lists an unknown DOI -/
theorem doi_store_only_known (m : DoiMaps) (hist : List String) :
    ∀ k ∈ (keyedRun m [] hist).2.map Prod.fst, k ∈ knownDois m :=
  keyedRun_store_known m [] hist (by intro k hk; cases hk)

/-- strings that merely CONTAIN a known DOI are unknown keys: another article number, a supplement, a
    resolver URL, a `doi:` prefix, another case, surrounding white space -/
example : ∀ doi ∈ ["10.1126/science.12208690", "10.1126/science.1220869.sm", "110.1126/science.1220869",
      "doi:10.1126/science.1220869", "https://doi.org/10.1126/science.1220869", "10.1126/SCIENCE.1220869",
      " 10.1126/science.1220869", "10.1021/nn204012y ", "10.1103/physrevx.4.011024"],
    keyedGet Tables.doiMaps (keyedRun Tables.doiMaps [] ["10.1126/science.1220869", "10.1021/nn204012y"]).2 doi
      = (.error "KeyError", (keyedRun Tables.doiMaps [] ["10.1126/science.1220869", "10.1021/nn204012y"]).2) := by
  intro doi hd
  apply unknown_doi_keyerror_after_history
  revert doi
  decide

/-- the maps of the present /repo: every listed DOI loads a non-empty list of families and stores
    it; the science repository is one tabulated family -/
theorem known_dois_load :
    (Tables.doiMaps.toFile.map Prod.fst ++ Tables.doiMaps.toFamily.map Prod.fst).all (fun doi =>
      match keyedGet Tables.doiMaps [] doi with
      | (.ok items, store) => !items.isEmpty && store.length == 1
      | _ => false) = true := by
  decide +kernel

example : keyedGet Tables.doiMaps [] "10.0000/not-a-doi" = (.error "KeyError", []) :=
  unknown_doi_keyerror _ _ _ (by decide) (by decide) (by decide)

/-! ## Table theorems (kernel evaluation over the regenerated tables) -/

theorem all_mem {p : Entry → Bool} {t : List Entry} (h : t.all p = true) : ∀ e ∈ t, p e = true :=
  fun e he => List.all_eq_true.mp h e he

/-- the hand-entered textbook rows are internally consistent (Euler, census sums) -/
theorem textbook_consistent :
    (Textbook.platonic ++ Textbook.archimedean ++ Textbook.catalan ++ Textbook.johnson
        ++ Textbook.johnsonByName ++ Textbook.prismAntiprism ++ Textbook.pyramidDipyramid
        ++ Textbook.otherSolids).all Textbook.Solid.consistent = true
      ∧ Textbook.johnsonNames.length = 92 ∧ namesNodup Textbook.johnsonNames = true
      ∧ (Textbook.johnson.all fun s => !s.faces.isEmpty) = true := by
  decide +kernel

/-- sizes stated by the property -/
theorem table_sizes :
    Tables.platonic.length = 5 ∧ Tables.archimedean.length = 13 ∧ Tables.catalan.length = 13
      ∧ Tables.johnson.length = 92 ∧ Tables.prismAntiprism.length = 16
      ∧ Tables.pyramidDipyramid.length = 6 ∧ Tables.science1220869.length = 145 := by
  decide +kernel

/-- **names.** In every table the names are pairwise different (so iteration yields every name
    once: `iter_keys_nodup`) -/
theorem names_nodup :
    [Tables.platonic, Tables.archimedean, Tables.catalan, Tables.johnson, Tables.prismAntiprism,
      Tables.pyramidDipyramid, Tables.science1220869].all
        (fun t => namesNodup ((familyOf t).names)) = true := by
  decide +kernel

/-- the tables are exactly the 5 + 13 + 13 textbook solids, the Johnson numbers J1 … J92, the 16 prisms and
    antiprisms and the 6 pyramids and dipyramids of the hand-entered lists -/
theorem tables_cover_textbook :
    coversTextbook Textbook.platonic Tables.platonic = true
      ∧ coversTextbook Textbook.archimedean Tables.archimedean = true
      ∧ coversTextbook Textbook.catalan Tables.catalan = true
      ∧ coversJohnson Tables.johnson = true
      ∧ coversTextbook Textbook.prismAntiprism Tables.prismAntiprism = true
      ∧ coversTextbook Textbook.pyramidDipyramid Tables.pyramidDipyramid = true := by
  decide +kernel

/-- **Platonic.** closed convex surface on its vertices, textbook counts, unit volume, equal edges
    and regular faces -/
theorem platonic_entries : ∀ e ∈ Tables.platonic,
    polyhedronOk e = true ∧ textbookOk Textbook.platonic e = true ∧ unitVolumeOk e = true
      ∧ regularOk e = true := by
  intro e he
  have h := all_mem Tables.platonic_ok e he
  simpa only [platonicOk, Bool.and_eq_true, and_assoc] using h

/-- **Archimedean.** as Platonic -/
theorem archimedean_entries : ∀ e ∈ Tables.archimedean,
    polyhedronOk e = true ∧ textbookOk Textbook.archimedean e = true ∧ unitVolumeOk e = true
      ∧ regularOk e = true := by
  intro e he
  have h := all_mem Tables.archimedean_ok e he
  simpa only [archimedeanOk, Bool.and_eq_true, and_assoc] using h

/-- **Catalan.** closed convex surface, textbook counts, unit volume, an insphere exists -/
theorem catalan_entries : ∀ e ∈ Tables.catalan,
    polyhedronOk e = true ∧ textbookOk Textbook.catalan e = true ∧ unitVolumeOk e = true
      ∧ insphereOk e = true := by
  intro e he
  have h := all_mem Tables.catalan_ok e he
  simpa only [catalanOk, Bool.and_eq_true, and_assoc] using h

/-- **Johnson.** closed convex surface, equal edges and regular faces; and the vertex, edge and
    face counts of the solid with that Johnson number -/
theorem johnson_entries : ∀ e ∈ Tables.johnson,
    polyhedronOk e = true ∧ regularOk e = true ∧ johnsonCountsOk e = true ∧ johnsonNameOk e = true := by
  intro e he
  have h := all_mem Tables.johnson_ok e he
  simpa only [johnsonOk, Bool.and_eq_true, and_assoc] using h

/-- **prisms/antiprisms, pyramids/dipyramids.** closed convex surface on the entry's vertices, and the counts
    and face census of the hand-entered row of that name -/
theorem prism_pyramid_entries :
    (∀ e ∈ Tables.prismAntiprism, polyhedronOk e = true ∧ textbookOk Textbook.prismAntiprism e = true)
      ∧ (∀ e ∈ Tables.pyramidDipyramid, polyhedronOk e = true ∧ textbookOk Textbook.pyramidDipyramid e = true) := by
  constructor
  · intro e he
    have h := all_mem Tables.prismAntiprism_ok e he
    simpa only [prismAntiprismOk, Bool.and_eq_true] using h
  · intro e he
    have h := all_mem Tables.pyramidDipyramid_ok e he
    simpa only [pyramidDipyramidOk, Bool.and_eq_true] using h

/-- **repository.** closed convex surface, and an entry that cites a family has the vertex set of
    the family's entry of that name -/
theorem science_entries : ∀ e ∈ Tables.science1220869,
    polyhedronOk e = true ∧ sourceOk Tables.bySource e = true ∧ repoTextbookOk e = true := by
  intro e he
  have h := all_mem Tables.science1220869_ok e he
  simpa only [repositoryOk, Bool.and_eq_true, and_assoc] using h

/-- every entry of every table builds a `ConvexPolyhedron` on exactly its vertices through the
    model of `get_shape` -/
theorem every_entry_builds :
    ∀ t ∈ [Tables.platonic, Tables.archimedean, Tables.catalan, Tables.johnson, Tables.prismAntiprism,
      Tables.pyramidDipyramid, Tables.science1220869], ∀ e ∈ t,
      (familyOf t).getShape e.name = .ok (.convexPolyhedron e.verts) := by
  intro t ht e he
  have hn : namesNodup (t.map (·.name)) = true := by
    have h := List.all_eq_true.mp names_nodup t ht
    simpa [familyOf, Family.names, List.map_map, Function.comp_def] using h
  have hp : polyhedronOk e = true := by
    simp only [List.mem_cons, List.not_mem_nil, or_false] at ht
    rcases ht with rfl | rfl | rfl | rfl | rfl | rfl | rfl
    · exact (platonic_entries e he).1
    · exact (archimedean_entries e he).1
    · exact (catalan_entries e he).1
    · exact (johnson_entries e he).1
    · exact (prism_pyramid_entries.1 e he).1
    · exact (prism_pyramid_entries.2 e he).1
    · exact (science_entries e he).1
  have hty : e.type = "ConvexPolyhedron" := by
    simp only [polyhedronOk, Bool.and_eq_true] at hp
    simpa using hp.1.1.1.1.1
  exact table_getShape t hn e he hty

/-- what the convexity part of `polyhedronOk` says in plain vector algebra -/
theorem convex_certificate_meaning (e : Entry) (h : polyhedronOk e = true) : convexOkRef e = true := by
  simp only [polyhedronOk, Bool.and_eq_true] at h
  rw [← convexOk_eq_ref]; exact h.1.2

/-- non-vacuity: the predicates reject a corrupted solid.  The cube of the Platonic table with
    one vertex moved by 10⁻⁶ is no longer a closed convex unit-volume solid with regular faces,
    and with two face-list entries exchanged it is no longer a closed oriented surface. -/
theorem corrupted_cube_rejected :
    (match Tables.platonic.find? (·.name == "Cube") with
     | none => false
     | some c =>
       let moved := { c with verts := c.verts.set 0 ⟨-500001000000000000, -500000000000000000, -500000000000000000⟩ }
       let flipped := { c with faces := c.faces.set 0 ((c.faces.getD 0 []).reverse) }
       platonicOk c && !(convexOk moved && unitVolumeOk moved && regularOk moved)
         && !(closedOriented flipped)) = true := by
  decide +kernel

/-! ## Meaning theorems: the kernel-evaluated facts as statements about the tabulated coordinates

`PolyhedronCert e`: the face list is a closed consistently oriented surface on exactly the vertices (every
directed edge once, its reverse exactly once), `2V + 2F = 2E + 4`, every face has a non-zero Newell normal and is
planar within 10⁻⁹, every vertex is on the inner side of every face plane within 10⁻⁹, `Σ det > 0`.
`MatchesRow s e`: the counts and face census of the hand-entered row.  `UnitVolume`: `|Σdet/6 − 1| ≤ 10⁻⁹` in
true units.  `RegularCert`: squared edge lengths (and short diagonals per face) equal within 2·10⁻⁹ relative.
`Insphere`: all face planes at one positive distance from the centroid.  (Definitions and the generic proofs
`…Ok e = true → …` for every entry: `Lemmas/TabulatedMeaning.lean`.) -/

theorem platonic_entries_meaning : ∀ e ∈ Tables.platonic,
    PolyhedronCert e ∧ (∃ s ∈ Textbook.platonic, s.name = e.name ∧ MatchesRow s e) ∧ UnitVolume e
      ∧ RegularCert e :=
  fun e he => platonicOk_meaning e (all_mem Tables.platonic_ok e he)

theorem archimedean_entries_meaning : ∀ e ∈ Tables.archimedean,
    PolyhedronCert e ∧ (∃ s ∈ Textbook.archimedean, s.name = e.name ∧ MatchesRow s e) ∧ UnitVolume e
      ∧ RegularCert e :=
  fun e he => archimedeanOk_meaning e (all_mem Tables.archimedean_ok e he)

theorem catalan_entries_meaning : ∀ e ∈ Tables.catalan,
    PolyhedronCert e ∧ (∃ s ∈ Textbook.catalan, s.name = e.name ∧ MatchesRow s e) ∧ UnitVolume e
      ∧ Insphere e :=
  fun e he => catalanOk_meaning e (all_mem Tables.catalan_ok e he)

theorem johnson_entries_meaning : ∀ e ∈ Tables.johnson,
    PolyhedronCert e ∧ RegularCert e ∧ JohnsonRow e
      ∧ ∃ n, johnsonNumber e.short = some n ∧ johnsonName n = some e.name :=
  fun e he => johnsonOk_meaning e (all_mem Tables.johnson_ok e he)

theorem prism_antiprism_entries_meaning : ∀ e ∈ Tables.prismAntiprism,
    PolyhedronCert e ∧ ∃ s ∈ Textbook.prismAntiprism, s.name = e.name ∧ MatchesRow s e :=
  fun e he => prismAntiprismOk_meaning e (all_mem Tables.prismAntiprism_ok e he)

theorem pyramid_dipyramid_entries_meaning : ∀ e ∈ Tables.pyramidDipyramid,
    PolyhedronCert e ∧ ∃ s ∈ Textbook.pyramidDipyramid, s.name = e.name ∧ MatchesRow s e :=
  fun e he => pyramidDipyramidOk_meaning e (all_mem Tables.pyramidDipyramid_ok e he)

/-- **repository.** every record is a closed convex polyhedron; a record that cites a family has (within
    10⁻⁹) the vertex set of the cited record; every record has its specification row -/
theorem science_entries_meaning : ∀ e ∈ Tables.science1220869,
    PolyhedronCert e ∧ CitesFamily Tables.bySource e ∧ RepoRow e :=
  fun e he => repositoryOk_meaning Tables.bySource e (all_mem Tables.science1220869_ok e he)

/-- the lengths themselves (not only their squares) agree: every edge of a Platonic, Archimedean or Johnson entry
    has the length of the first edge within 2·10⁻⁹ relative -/
theorem regular_entries_edge_lengths :
    ∀ e ∈ Tables.platonic ++ Tables.archimedean ++ Tables.johnson,
      ∃ a t, (dirEdges e).map (sqDistV e.verts) = a :: t ∧ 0 < a
        ∧ ∀ b ∈ t, |Real.sqrt b - Real.sqrt a| ≤ 2 / 10^9 * Real.sqrt a := by
  intro e he
  have hr : RegularCert e := by
    rcases List.mem_append.mp he with h | h
    · rcases List.mem_append.mp h with h | h
      · exact (platonic_entries_meaning e h).2.2.2
      · exact (archimedean_entries_meaning e h).2.2.2
    · exact (johnson_entries_meaning e h).2.1
  exact hr.edges.sqrt

/-- **the convex hull of the vertices of every entry of every table lies on the inner side of every face plane**
    of that entry (within 10⁻⁹): for all weights `wᵢ ≥ 0`, `Σwᵢ = 1`, the point `Σ wᵢvᵢ` has signed distance at most
    `10⁹` (units of 10⁻¹⁸) from the plane of every face -/
theorem every_entry_hull_inside :
    ∀ t ∈ [Tables.platonic, Tables.archimedean, Tables.catalan, Tables.johnson, Tables.prismAntiprism,
      Tables.pyramidDipyramid, Tables.science1220869], ∀ e ∈ t,
      ∀ f ∈ e.faces, ∃ p0 rest, facePts e f = p0 :: rest ∧
        ∀ ws : List ℝ, ws.length = e.verts.length → (∀ w ∈ ws, 0 ≤ w) → ws.sum = 1 →
          V3.dot (newellV ((p0 :: rest).map toV)) (comb ws (e.verts.map toV) - toV p0)
            ≤ 10^9 * Real.sqrt (V3.normSq (newellV ((p0 :: rest).map toV))) := by
  intro t ht e he
  have hp : PolyhedronCert e := by
    simp only [List.mem_cons, List.not_mem_nil, or_false] at ht
    rcases ht with rfl | rfl | rfl | rfl | rfl | rfl | rfl
    · exact (platonic_entries_meaning e he).1
    · exact (archimedean_entries_meaning e he).1
    · exact (catalan_entries_meaning e he).1
    · exact (johnson_entries_meaning e he).1
    · exact (prism_antiprism_entries_meaning e he).1
    · exact (pyramid_dipyramid_entries_meaning e he).1
    · exact (science_entries_meaning e he).1
  exact hp.convex.hull_inside

/-- the bit-set predicates are their quadratic reference definitions (formerly compared per run only) -/
theorem bitset_predicates_eq_reference (e : Entry) :
    usesExactlyVerts e = usesExactlyVertsRef e
      ∧ (usesExactlyVerts e = true → closedOriented e = closedOrientedRef e) :=
  ⟨usesExactlyVerts_eq_ref e, closedOriented_eq_ref e⟩

/-- **an entry without a specification row fails its obligation** (so a new or renamed table entry breaks the
    generated proof of its chunk, which sends the check into the failing-input search): whatever its geometry, an
    entry whose name is in none of the hand-entered rows satisfies none of the per-table predicates that demand
    a row -/
theorem entry_without_row_rejected (rows : List Textbook.Solid) (e : Entry) (h : ∀ s ∈ rows, s.name ≠ e.name) :
    textbookOk rows e = false :=
  textbookOkAs_no_row rows e.name e h

example : platonicOk { name := "Hexahedron", type := "ConvexPolyhedron", verts := [], faces := [] } = false := by
  decide
